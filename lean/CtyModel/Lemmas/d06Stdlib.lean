/-
C06 lemmas (d06): the results of the modelled stdlib function `Impl` callbacks
(cty/function/stdlib) are well-formed values (`Value.WF`) whenever their arguments are.

Statement form: `impl args retTy = .ok r → (∀ a ∈ args, a.WF nfc = true) → r.WF nfc = true`,
plus, where the callback builds `cty.UnknownVal(retType)` / an empty collection of
`retType.ElementType()`, the hypothesis `retTy.ok nfc = true` (the `Type` callback's side of the
contract, cf. `Fn.wf_call`), and, where the callback calls `convert.Convert` (a parameter of the
model: `Env.convert`), the hypothesis `ConvWF` that the environment's conversions return
well-formed values.
-/
import CtyModel.Lemmas.WFAccess
import CtyModel.Lemmas.SetRefineSort
import CtyModel.Lemmas.StdlibBasic
import CtyModel.Lemmas.StdlibMap
import CtyModel.Lemmas.WFSet
import CtyModel.Lemmas.WFCall
import CtyModel.Lemmas.WFCons
import CtyModel.Lemmas.WFRefine
import CtyModel.Stdlib.Collection
import CtyModel.Stdlib.Sequence
import CtyModel.Stdlib.Number
import CtyModel.Stdlib.Strings
import CtyModel.Stdlib.Glue
import CtyModel.Stdlib.Format
import CtyModel.Stdlib.SetFns
set_option linter.unusedSimpArgs false
set_option linter.unusedVariables false
namespace CtyModel
namespace D06Std
open Stdlib Value
variable {nfc : String → Bool}

/-! ### helpers -/

theorem res_map_ok {α β} {x : Res α} {f : α → β} {r : β} (h : x.map f = .ok r) : ∃ a, x = .ok a ∧ r = f a := by
  cases x <;> simp [Res.map] at h
  exact ⟨_, rfl, h.symm⟩

theorem cast_ok_false {α β} {x : Res α} {r : β} (h : Stdlib.Res.cast x = .ok r) : False := by
  cases x <;> cases h

theorem wf_mapMarks {x : Res Value} {mss : List (List String)} {r : Value}
    (h : x.map (withMarkSets · mss) = .ok r) (hx : ∀ a, x = .ok a → a.WF nfc = true) : r.WF nfc = true := by
  obtain ⟨a, ha, rfl⟩ := res_map_ok h
  exact wf_withMarkSets _ (hx a ha)

theorem mem_zipTV : ∀ {ts : List Ty} {vs : List Payload} {x : Value}, x ∈ zipTV ts vs →
    ∃ i : Nat, ts[i]? = some x.ty ∧ vs[i]? = some x.v
  | [], _, x, h => by simp [zipTV] at h
  | _ :: _, [], x, h => by simp [zipTV] at h
  | t :: ts, v :: vs, x, h => by
    simp only [zipTV, List.mem_cons] at h
    rcases h with rfl | h
    · exact ⟨0, rfl, rfl⟩
    · obtain ⟨i, h1, h2⟩ := mem_zipTV h
      exact ⟨i + 1, by simpa using h1, by simpa using h2⟩

theorem wf_zipTV {ts : List Ty} {vs : List Payload} (hok : Ty.okL nfc ts = true)
    (hz : Payload.wfZip nfc ts vs = true) : ∀ x ∈ zipTV ts vs, x.WF nfc = true := by
  intro x hx
  obtain ⟨i, h1, h2⟩ := mem_zipTV hx
  simp only [Value.WF, Bool.and_eq_true]
  exact ⟨Ty.okL_getElem hok h1, Payload.wfZip_getElem hz h1 h2⟩

/-- `ElementIterator` hands out well-formed members of a well-formed value -/
theorem elems_wf (E : Env) {v : Value} {xs : List Value} (hv : v.WF nfc = true) (h : elems E v = .ok xs) :
    ∀ x ∈ xs, x.WF nfc = true := by
  obtain ⟨t, p⟩ := v
  cases p <;> cases t <;> simp [elems] at h <;> subst h <;>
    simp only [Value.WF, Payload.wfP, Bool.and_eq_true] at hv
  · intro x hx
    simp only [List.mem_map] at hx
    obtain ⟨a, ha, rfl⟩ := hx
    exact (by simp [Value.WF, (by simpa [Ty.ok_list] using hv.1 : Ty.ok nfc _ = true), Payload.wfAll_mem hv.2 ha])
  · exact wf_zipTV (by simpa [Ty.ok_tuple] using hv.1) hv.2.2
  · intro x hx
    simp only [List.mem_map] at hx
    obtain ⟨a, ha, rfl⟩ := hx
    exact (by simp [Value.WF, (by simpa [Ty.ok_map] using hv.1 : Ty.ok nfc _ = true), Payload.wfAll_mem hv.2.2 ha])
  · exact wf_zipTV (Ty.ok_object hv.1).1 hv.2.2
  · intro x hx
    simp only [List.mem_map] at hx
    obtain ⟨a, ha, rfl⟩ := hx
    have ha' : a ∈ _ := (SetImpl.mem_sortStable _ _ _).mp ha
    exact (by simp [Value.WF, (by simpa [Ty.ok_set] using hv.1 : Ty.ok nfc _ = true), Payload.wfAll_mem hv.2.2 ha'])

/-- `AsValueSlice` hands out well-formed members of a well-formed value -/
theorem asValueSlice_wf (E : Env) {v : Value} {xs : List Value} (hv : v.WF nfc = true)
    (h : asValueSlice E v = .ok xs) : ∀ x ∈ xs, x.WF nfc = true := by
  unfold asValueSlice at h
  split at h
  · cases h; simp
  · exact elems_wf E hv h
  · exact (cast_ok_false h).elim

/-- the type a well-formed collection declares for its elements is acceptable -/
theorem elementTypeOf_ok {t e : Ty} (ht : t.ok nfc = true) (h : elementTypeOf t = .ok e) : e.ok nfc = true := by
  cases t <;> simp [elementTypeOf] at h <;> subst h
  · simpa [Ty.ok_list] using ht
  · simpa [Ty.ok_set] using ht
  · simpa [Ty.ok_map] using ht

theorem wf_listEmpty {e : Ty} (h : e.ok nfc = true) : (listEmpty e).WF nfc = true := by
  simp [Value.WF, listEmpty, Ty.ok_list, h, Payload.wfP, Payload.wfAll]
theorem wf_mapEmpty {e : Ty} (h : e.ok nfc = true) : (mapEmpty e).WF nfc = true := by
  simp [Value.WF, mapEmpty, Ty.ok_map, h, Payload.wfP, Ty.strictAsc, Payload.wfAll]
theorem wf_emptyTuple : emptyTuple.WF nfc = true := by
  simp [Value.WF, emptyTuple, Ty.ok_tuple, Ty.okL, Ty.wfL, Ty.hasOptL, Ty.namesAllL, Payload.wfP, Payload.wfZip]
theorem wf_strVal {s : String} (h : nfc s = true) : (strVal s).WF nfc = true := by
  simp [Value.WF, strVal, Ty.ok, Ty.wf, Ty.hasOpt, Ty.namesAll, Payload.wfP, h]

/-! the operation methods (restated from `Lemmas/WFOps.lean` in `h → WF` form) -/
theorem op_equals (a b r : Value) (h : a.equals b = .ok r) : r.WF nfc = true :=
  Res.all_iff.mp (all_wf_equals a b) r h
theorem op_lessThan (a b r : Value) (h : a.lessThan b = .ok r) : r.WF nfc = true :=
  Res.all_iff.mp (all_wf_binPrim _ all_prim_lessThanU a b) r h
theorem op_greaterThan (a b r : Value) (h : a.greaterThan b = .ok r) : r.WF nfc = true :=
  Res.all_iff.mp (all_wf_binPrim _ all_prim_greaterThanU a b) r h
theorem op_not (a r : Value) (h : a.not = .ok r) : r.WF nfc = true :=
  Res.all_iff.mp (all_wf_unPrim _ all_prim_notU a) r h
theorem op_and (a b r : Value) (h : a.and b = .ok r) : r.WF nfc = true :=
  Res.all_iff.mp (all_wf_binPrim _ all_prim_andU a b) r h
theorem op_or (a b r : Value) (h : a.or b = .ok r) : r.WF nfc = true :=
  Res.all_iff.mp (all_wf_binPrim _ all_prim_orU a b) r h
theorem op_add (a b r : Value) (h : a.add b = .ok r) : r.WF nfc = true :=
  Res.all_iff.mp (all_wf_binPrim _ all_prim_addU a b) r h
theorem op_sub (a b r : Value) (h : a.sub b = .ok r) : r.WF nfc = true :=
  Res.all_iff.mp (all_wf_binPrim _ all_prim_subU a b) r h
theorem op_mul (a b r : Value) (h : a.mul b = .ok r) : r.WF nfc = true :=
  Res.all_iff.mp (all_wf_binPrim _ all_prim_mulU a b) r h
theorem op_div (a b r : Value) (h : a.div b = .ok r) : r.WF nfc = true :=
  Res.all_iff.mp (all_wf_binPrim _ all_prim_divU a b) r h
theorem op_neg (a r : Value) (h : a.neg = .ok r) : r.WF nfc = true :=
  Res.all_iff.mp (all_wf_unPrim _ all_prim_negU a) r h
theorem op_abs (a r : Value) (h : a.abs = .ok r) : r.WF nfc = true :=
  Res.all_iff.mp (all_wf_unPrim _ all_prim_absU a) r h
theorem op_mod (a b r : Value) (ha : a.WF nfc = true) (h : a.mod b = .ok r) : r.WF nfc = true :=
  Res.all_iff.mp (all_wf_mod a b ha) r h
theorem op_hasIndex (a b r : Value) (h : a.hasIndex b = .ok r) : r.WF nfc = true :=
  Res.all_iff.mp (all_wf_binPrim _ all_prim_hasIndexU a b) r h
theorem op_length (a r : Value) (h : a.length = .ok r) : r.WF nfc = true :=
  Res.all_iff.mp (all_wf_unPrim _ all_prim_lengthU a) r h
theorem op_getAttr (v : Value) (name : String) (r : Value) (hv : v.WF nfc = true) (h : v.getAttr name = .ok r) :
    r.WF nfc = true := Res.all_iff.mp (all_wf_getAttr v name hv) r h
theorem op_index (v k r : Value) (hv : v.WF nfc = true) (h : v.index k = .ok r) : r.WF nfc = true :=
  Res.all_iff.mp (all_wf_index v k hv) r h

theorem ok_bool : Ty.ok nfc .bool = true := by simp [Ty.ok, Ty.wf, Ty.hasOpt, Ty.namesAll]
theorem ok_number : Ty.ok nfc .number = true := by simp [Ty.ok, Ty.wf, Ty.hasOpt, Ty.namesAll]
theorem ok_string : Ty.ok nfc .string = true := by simp [Ty.ok, Ty.wf, Ty.hasOpt, Ty.namesAll]

/-- `convert.Convert` is a parameter of the model (`Env.convert`): the assumption that whatever the
environment's conversion returns for a well-formed value and an acceptable target type is well-formed
(property C08/C09 territory, not C06's) -/
def ConvWF (nfc : String → Bool) (E : Env) : Prop :=
  ∀ v t r, v.WF nfc = true → t.ok nfc = true → E.convert v t = .ok r → r.WF nfc = true

theorem convertTo_wf {E : Env} (hE : ConvWF nfc E) {v : Value} {t : Ty} {r : Value} (hv : v.WF nfc = true)
    (ht : t.ok nfc = true) (h : convertTo E v t = .ok r) : r.WF nfc = true := by
  unfold convertTo at h
  split at h
  · cases h; exact hv
  · exact hE _ _ _ hv ht h

theorem forall_mem_snoc {α} {P : α → Prop} {l : List α} {a : α} (hl : ∀ x ∈ l, P x) (ha : P a) :
    ∀ x ∈ l ++ [a], P x := by
  intro x hx
  simp only [List.mem_append, List.mem_singleton] at hx
  rcases hx with hx | rfl
  · exact hl x hx
  · exact ha

theorem forall_mem_append {α} {P : α → Prop} {l m : List α} (hl : ∀ x ∈ l, P x) (hm : ∀ x ∈ m, P x) :
    ∀ x ∈ l ++ m, P x := by
  intro x hx
  simp only [List.mem_append] at hx
  rcases hx with hx | hx
  · exact hl x hx
  · exact hm x hx

/-- the keys `ElementIterator` yields for a well-formed map or object: normalised, strictly ascending -/
theorem elemKeys_spec {v : Value} {ks : List String} (hv : v.WF nfc = true) (h : elemKeys v = .ok ks) :
    ks.all nfc = true ∧ Ty.strictAsc ks = true := by
  obtain ⟨t, p⟩ := v
  cases p <;> cases t <;> simp [elemKeys] at h <;> subst h <;>
    simp only [Value.WF, Payload.wfP, Bool.and_eq_true] at hv
  · exact ⟨hv.2.1.2, hv.2.1.1.2⟩
  · have := Ty.ok_object hv.1
    exact ⟨this.2.2.2.2.2, this.2.2.2.1⟩

theorem mem_reverseLoop : ∀ (a b : List Value) (x : Value), x ∈ Stdlib.reverseLoop a b → x ∈ a ∨ x ∈ b
  | [], b, x, h => Or.inr (by simpa [Stdlib.reverseLoop] using h)
  | v :: rest, b, x, h => by
    have := mem_reverseLoop rest (v :: b) x (by simpa [Stdlib.reverseLoop] using h)
    simp only [List.mem_cons] at this ⊢
    rcases this with h | h | h <;> simp [h]

theorem mem_goSlice {α} {l out : List α} {a b : Int} (h : goSlice l a b = .ok out) : ∀ x ∈ out, x ∈ l := by
  unfold goSlice at h
  split at h
  · cases h
  · cases h
    intro x hx
    exact List.mem_of_mem_drop (List.mem_of_mem_take hx)

theorem wf_strVals {ks : List String} (h : ks.all nfc = true) : ∀ x ∈ ks.map strVal, x.WF nfc = true := by
  intro x hx
  simp only [List.mem_map] at hx
  obtain ⟨k, hk, rfl⟩ := hx
  exact wf_strVal (List.all_eq_true.mp h k hk)

theorem strictAsc_of_pairwise : ∀ (l : List String), l.Pairwise (· < ·) → Ty.strictAsc l = true
  | [], _ => rfl
  | [_], _ => rfl
  | a :: b :: rest, h => by
    have hc := List.pairwise_cons.mp h
    simp [Ty.strictAsc, hc.1 b (by simp), strictAsc_of_pairwise (b :: rest) hc.2]

/-- invariant of a Go `map[string]cty.Value` under construction (`amInsert`): keys ascending and
normalised, values well-formed -/
def MInv (nfc : String → Bool) (out : List (String × Value)) : Prop :=
  (out.map (·.1)).Pairwise (· < ·) ∧ ∀ kv ∈ out, nfc kv.1 = true ∧ kv.2.WF nfc = true

theorem minv_nil : MInv nfc [] := ⟨by simp, by simp⟩

theorem minv_amInsert {out : List (String × Value)} {k : String} {v : Value} (h : MInv nfc out)
    (hk : nfc k = true) (hv : v.WF nfc = true) : MInv nfc (amInsert k v out) := by
  refine ⟨keys_asc_amInsert _ _ _ h.1, fun kv hkv => ?_⟩
  rcases mem_amInsert _ _ _ _ hkv with rfl | hkv
  · exact ⟨hk, hv⟩
  · exact h.2 kv hkv

theorem minv_amInsertAll : ∀ (ks : List String) (vs : List Value) (out : List (String × Value)), MInv nfc out →
    ks.all nfc = true → (∀ x ∈ vs, x.WF nfc = true) → MInv nfc (amInsertAll ks vs out)
  | [], _, out, h, _, _ => by simpa [amInsertAll] using h
  | _ :: _, [], out, h, _, _ => by simpa [amInsertAll] using h
  | k :: ks, v :: vs, out, h, hk, hv => by
    simp only [amInsertAll]
    simp only [List.all_cons, Bool.and_eq_true] at hk
    exact minv_amInsertAll ks vs _ (minv_amInsert h hk.1 (hv v (by simp))) hk.2 (fun x hx => hv x (by simp [hx]))

theorem minv_spec {out : List (String × Value)} (h : MInv nfc out) :
    (∀ w ∈ out.map (·.2), w.WF nfc = true) ∧ (out.map (·.1)).length = (out.map (·.2)).length ∧
    Ty.strictAsc (out.map (·.1)) = true ∧ (out.map (·.1)).all nfc = true := by
  refine ⟨?_, by simp, strictAsc_of_pairwise _ h.1, ?_⟩
  · intro w hw
    simp only [List.mem_map] at hw
    obtain ⟨kv, hkv, rfl⟩ := hw
    exact (h.2 kv hkv).2
  · simp only [List.all_eq_true, List.mem_map]
    rintro k ⟨kv, hkv, rfl⟩
    exact (h.2 kv hkv).1

/-- `AsString` of a well-formed value is NFC -/
theorem asString_nfc {v : Value} {k : String} (hv : v.WF nfc = true) (h : Stdlib.asString v = .ok k) :
    nfc k = true := by
  obtain ⟨t, p⟩ := v
  unfold Stdlib.asString at h
  split at h
  · cases h
  · split at h
    · cases h
    · rename_i hs
      cases t <;> simp [Ty.isString] at hs
      cases p <;> simp at h
      subst h
      simpa [Value.WF, Payload.wfP] using hv

theorem mem_insertStr (s : String) : ∀ (l : List String) (x : String), x ∈ insertStr s l → x = s ∨ x ∈ l
  | [], x, h => by simpa [insertStr] using h
  | y :: ys, x, h => by
    simp only [insertStr] at h
    split at h
    · simpa using h
    · simp only [List.mem_cons] at h ⊢
      rcases h with h | h
      · exact Or.inr (Or.inl h)
      · rcases mem_insertStr s ys x h with h | h
        · exact Or.inl h
        · exact Or.inr (Or.inr h)

theorem mem_sortStrings : ∀ (l : List String) (x : String), x ∈ sortStrings l → x ∈ l
  | [], x, h => by simp [sortStrings] at h
  | y :: ys, x, h => by
    simp only [sortStrings, List.foldr_cons] at h
    rcases mem_insertStr _ _ _ h with h | h
    · simp [h]
    · exact List.mem_cons_of_mem _ (mem_sortStrings ys x h)

theorem sortCollect_nfc : ∀ (es : List Value) (l : List String), sortCollect es = .ok l →
    (∀ x ∈ es, x.WF nfc = true) → ∀ k ∈ l, nfc k = true
  | [], l, h, _ => by simp [sortCollect] at h; subst h; simp
  | v :: rest, l, h, hes => by
    unfold sortCollect at h
    split at h
    · cases h
    · split at h
      · rename_i s l' hs hl'
        cases h
        intro k hk
        simp only [List.mem_cons] at hk
        rcases hk with rfl | hk
        · exact asString_nfc (hes v (by simp)) hs
        · exact sortCollect_nfc rest l' hl' (fun x hx => hes x (by simp [hx])) k hk
      · rename_i hne _ ; first | exact (hne _ _ ‹_› h).elim | exact (by simp_all)
      · exact (cast_ok_false h).elim

/-! ### number.go / bool.go / string.go callbacks (`Stdlib/Number.lean`, `Stdlib/Strings.lean`): `AllW` form -/

theorem all_arg (args : List Value) (i : Nat) : Res.AllW (fun a => a ∈ args) (StdNum.arg args i) := by
  unfold StdNum.arg
  split
  · rename_i v hv
    exact List.mem_of_getElem? hv
  · trivial

theorem all_recoverNaN {x : Res Value} (h : Res.AllW (fun r : Value => r.WF nfc = true) x) : Res.AllW (fun r : Value => r.WF nfc = true) (StdNum.recoverNaN x) := by
  unfold StdNum.recoverNaN
  split
  · split <;> trivial
  · exact h

theorem w_un (f : Value → Res Value) (hf : ∀ a, Res.AllW (fun r : Value => r.WF nfc = true) (f a)) (args : List Value) :
    Res.AllW (fun r : Value => r.WF nfc = true) (StdNum.arg args 0 >>= fun a => f a) := by
  rw [Res.all_bind]; exact Res.all_of_forall _ fun a => hf a

theorem w_bin (f : Value → Value → Res Value) (hf : ∀ a b, Res.AllW (fun r : Value => r.WF nfc = true) (f a b)) (args : List Value) :
    Res.AllW (fun r : Value => r.WF nfc = true) (StdNum.arg args 0 >>= fun a => StdNum.arg args 1 >>= fun b => f a b) := by
  rw [Res.all_bind]; refine Res.all_of_forall _ fun a => ?_
  rw [Res.all_bind]; exact Res.all_of_forall _ fun b => hf a b

theorem w_lte (a b : Value) : Res.AllW (fun r : Value => r.WF nfc = true) (StdNum.lessThanOrEqualTo a b) := by
  unfold StdNum.lessThanOrEqualTo
  simp only [Res.all_bind]
  exact Res.all_of_forall _ fun _ => Res.all_of_forall _ fun _ => all_wf_binPrim _ all_prim_orU _ _

theorem w_gte (a b : Value) : Res.AllW (fun r : Value => r.WF nfc = true) (StdNum.greaterThanOrEqualTo a b) := by
  unfold StdNum.greaterThanOrEqualTo
  simp only [Res.all_bind]
  exact Res.all_of_forall _ fun _ => Res.all_of_forall _ fun _ => all_wf_binPrim _ all_prim_orU _ _

theorem w_minLoop : ∀ (l : List Value) (m : Value), (∀ x ∈ l, x.WF nfc = true) → m.WF nfc = true →
    Res.AllW (fun r : Value => r.WF nfc = true) (StdNum.minLoop l m)
  | [], m, _, hm => by simpa [StdNum.minLoop] using hm
  | num :: rest, m, hl, hm => by
    have hrest : ∀ x ∈ rest, x.WF nfc = true := fun x hx => hl x (by simp [hx])
    unfold StdNum.minLoop
    simp only [Res.all_bind]
    refine Res.all_of_forall _ fun _ => Res.all_of_forall _ fun b => ?_
    split
    · exact w_minLoop rest num hrest (hl num (by simp))
    · exact w_minLoop rest m hrest hm

theorem w_maxLoop : ∀ (l : List Value) (m : Value), (∀ x ∈ l, x.WF nfc = true) → m.WF nfc = true →
    Res.AllW (fun r : Value => r.WF nfc = true) (StdNum.maxLoop l m)
  | [], m, _, hm => by simpa [StdNum.maxLoop] using hm
  | num :: rest, m, hl, hm => by
    have hrest : ∀ x ∈ rest, x.WF nfc = true := fun x hx => hl x (by simp [hx])
    unfold StdNum.maxLoop
    simp only [Res.all_bind]
    refine Res.all_of_forall _ fun _ => Res.all_of_forall _ fun b => ?_
    split
    · exact w_maxLoop rest num hrest (hl num (by simp))
    · exact w_maxLoop rest m hrest hm

theorem w_numCoalesceLoop (retTy : Ty) (hret : retTy.ok nfc = true) : ∀ (l : List Value),
    (∀ x ∈ l, x.WF nfc = true) → Res.AllW (fun r : Value => r.WF nfc = true) (StdNum.coalesceLoop retTy l)
  | [], _ => by simp [StdNum.coalesceLoop]
  | v :: rest, hl => by
    unfold StdNum.coalesceLoop
    split
    · exact wf_unknown hret
    · split
      · exact w_numCoalesceLoop retTy hret rest fun x hx => hl x (by simp [hx])
      · exact hl v (by simp)

theorem wf_stdStringVal (norm : String → String) (hn : ∀ s, nfc (norm s) = true) (s : String) :
    (StdNum.stringVal norm s).WF nfc = true := by
  simp [Value.WF, StdNum.stringVal, Ty.ok, Ty.wf, Ty.hasOpt, Ty.namesAll, Payload.wfP, hn]

end D06Std

namespace D06StdThm
open Stdlib Value D06Std
variable {nfc : String → Bool}

/-! ## collection.go: wrappers of the C02 operations -/

/-- stdlib.LengthFunc Impl (`collection.Length()`): a number, known or unknown. -/
theorem wf_lengthImpl (args : List Value) (retTy : Ty) (r : Value) (h : lengthImpl args retTy = .ok r) :
    r.WF nfc = true := by
  unfold lengthImpl at h
  split at h
  · exact op_length _ _ h
  · cases h

/-- stdlib.HasIndexFunc Impl (`collection.HasIndex(key)`): a bool, known or unknown. -/
theorem wf_hasIndexImpl (args : List Value) (retTy : Ty) (r : Value) (h : hasIndexImpl args retTy = .ok r) :
    r.WF nfc = true := by
  unfold hasIndexImpl at h
  split at h
  · exact op_hasIndex _ _ _ h
  · cases h

/-- stdlib.IndexFunc Impl (`HasIndex` call, then `collection.Index(key)`): the member of a well-formed
collection. -/
theorem wf_indexImpl (args : List Value) (retTy : Ty) (r : Value) (h : indexImpl args retTy = .ok r)
    (hargs : ∀ a ∈ args, a.WF nfc = true) : r.WF nfc = true := by
  unfold indexImpl at h
  split at h
  · rename_i c key _
    split at h <;> try (cases h; done)
    split at h
    · exact op_index _ _ _ (hargs c (by simp)) h
    · cases h
    · exact (cast_ok_false h).elim
  · cases h

/-- stdlib.ElementFunc Impl: `cty.UnknownVal(retType)` or `list.Index(index mod len)` with the list's marks. -/
theorem wf_elementImpl (args : List Value) (retTy : Ty) (r : Value) (h : elementImpl args retTy = .ok r)
    (hargs : ∀ a ∈ args, a.WF nfc = true) (hret : retTy.ok nfc = true) : r.WF nfc = true := by
  unfold elementImpl at h
  split at h
  · rename_i list idx _
    split at h
    · cases h
    · simp only at h
      split at h
      · cases h; exact wf_unknown hret
      · split at h
        · split at h
          · cases h
          · exact wf_mapMarks h fun a ha => op_index _ _ _ (wf_unmark (hargs list (by simp))) ha
        · exact (cast_ok_false h).elim
    · exact (cast_ok_false h).elim
  · cases h

/-! ## `coalescelist`, `coalesce` -/

theorem wf_coalesceListLoop (retTy : Ty) (hret : retTy.ok nfc = true) : ∀ (args : List Value) (r : Value),
    coalesceListLoop retTy args = .ok r → (∀ a ∈ args, a.WF nfc = true) → r.WF nfc = true
  | [], r, h, _ => by cases h
  | a :: rest, r, h, hargs => by
    have ih := wf_coalesceListLoop retTy hret rest r
    have hrest : ∀ x ∈ rest, x.WF nfc = true := fun x hx => hargs x (by simp [hx])
    unfold coalesceListLoop at h
    split at h
    · cases h; exact wf_unknown hret
    · split at h
      · exact ih h hrest
      · split at h
        · split at h
          · cases h; exact hargs _ (by simp)
          · exact ih h hrest
        · exact (cast_ok_false h).elim

/-- stdlib.CoalesceListFunc Impl: `cty.UnknownVal(retType)` or one of the arguments. -/
theorem wf_coalesceListImpl (args : List Value) (retTy : Ty) (r : Value) (h : coalesceListImpl args retTy = .ok r)
    (hargs : ∀ a ∈ args, a.WF nfc = true) (hret : retTy.ok nfc = true) : r.WF nfc = true :=
  wf_coalesceListLoop retTy hret args r h hargs

theorem wf_coalesceLoop {E : Env} (hE : ConvWF nfc E) (retTy : Ty) (hret : retTy.ok nfc = true) :
    ∀ (args : List Value) (r : Value),
    coalesceLoop E retTy args = .ok r → (∀ a ∈ args, a.WF nfc = true) → r.WF nfc = true
  | [], r, h, _ => by cases h
  | a :: rest, r, h, hargs => by
    have ih := wf_coalesceLoop hE retTy hret rest r
    have hrest : ∀ x ∈ rest, x.WF nfc = true := fun x hx => hargs x (by simp [hx])
    unfold coalesceLoop at h
    split at h
    · cases h; exact wf_unknown hret
    · split at h
      · exact ih h hrest
      · exact convertTo_wf hE (hargs _ (by simp)) hret h

/-- stdlib.CoalesceFunc Impl: `cty.UnknownVal(retType)` or `convert.Convert(argVal, retType)` of the first
non-null argument; `ConvWF`: the conversion (environment) returns well-formed values. -/
theorem wf_coalesceImpl (E : Env) (hE : ConvWF nfc E) (args : List Value) (retTy : Ty) (r : Value)
    (h : coalesceImpl E args retTy = .ok r) (hargs : ∀ a ∈ args, a.WF nfc = true)
    (hret : retTy.ok nfc = true) : r.WF nfc = true :=
  wf_coalesceLoop hE retTy hret args r h hargs

/-! ## `compact`, `contains`, `distinct`, `chunklist` -/

theorem wf_compactLoop : ∀ (es out : List Value), compactLoop es = .ok out → (∀ x ∈ es, x.WF nfc = true) →
    ∀ x ∈ out, x.WF nfc = true
  | [], out, h, _ => by simp [compactLoop] at h; subst h; simp
  | v :: rest, out, h, hes => by
    have hrest : ∀ x ∈ rest, x.WF nfc = true := fun x hx => hes x (by simp [hx])
    unfold compactLoop at h
    split at h
    · exact wf_compactLoop rest out h hrest
    · split at h
      · split at h
        · exact wf_compactLoop rest out h hrest
        · split at h
          · rename_i out' hout
            cases h
            intro x hx
            simp only [List.mem_cons] at hx
            rcases hx with rfl | hx
            · exact hes _ (by simp)
            · exact wf_compactLoop rest out' hout hrest x hx
          · rename_i hne; exact (hne _ h).elim
      · exact (cast_ok_false h).elim

/-- stdlib.CompactFunc Impl: `cty.UnknownVal(retType)`, `cty.ListValEmpty(cty.String)` or `cty.ListVal` of
a sub-sequence of the argument's members. -/
theorem wf_compactImpl (E : Env) (args : List Value) (retTy : Ty) (r : Value)
    (h : compactImpl E args retTy = .ok r) (hargs : ∀ a ∈ args, a.WF nfc = true)
    (hret : retTy.ok nfc = true) : r.WF nfc = true := by
  unfold compactImpl at h
  split at h
  · rename_i l _
    split at h
    · cases h; exact wf_unknown hret
    · split at h
      · rename_i es hes
        split at h
        · rename_i out hout
          split at h
          · cases h; exact wf_listEmpty ok_string
          · exact wf_listVal h (wf_compactLoop es out hout (elems_wf E (hargs l (by simp)) hes))
        · exact (cast_ok_false h).elim
      · exact (cast_ok_false h).elim
  · cases h

/-- stdlib.ContainsFunc Impl: a known or unknown bool. -/
theorem wf_containsImpl (E : Env) (args : List Value) (retTy : Ty) (r : Value)
    (h : containsImpl E args retTy = .ok r) : r.WF nfc = true := by
  unfold containsImpl at h
  split at h
  · split at h
    · cases h
    · split at h
      · cases h
      · split at h
        · split at h
          · cases h; exact wf_boolVal _
          · split at h
            · cases h; exact wf_unknown ok_bool
            · split at h
              · split at h
                · cases h; exact wf_boolVal _
                · cases h; exact wf_unknown ok_bool
                · exact (cast_ok_false h).elim
              · exact (cast_ok_false h).elim
        · exact (cast_ok_false h).elim
  · cases h

theorem wf_appendIfMissing {slice : List Value} {e : Value} {out : List Value}
    (h : appendIfMissing slice e = .ok out) (hs : ∀ x ∈ slice, x.WF nfc = true) (he : e.WF nfc = true) :
    ∀ x ∈ out, x.WF nfc = true := by
  unfold appendIfMissing at h
  split at h
  · cases h
    intro x hx
    simp only [List.mem_append, List.mem_singleton] at hx
    rcases hx with hx | rfl
    · exact hs x hx
    · exact he
  · cases h; exact hs
  · exact (cast_ok_false h).elim

theorem wf_distinctLoop : ∀ (es list out : List Value), distinctLoop list es = .ok out →
    (∀ x ∈ list, x.WF nfc = true) → (∀ x ∈ es, x.WF nfc = true) → ∀ x ∈ out, x.WF nfc = true
  | [], list, out, h, hl, _ => by simp [distinctLoop] at h; subst h; exact hl
  | v :: rest, list, out, h, hl, hes => by
    unfold distinctLoop at h
    split at h
    · rename_i list' hl'
      exact wf_distinctLoop rest list' out h (wf_appendIfMissing hl' hl (hes v (by simp)))
        (fun x hx => hes x (by simp [hx]))
    · rename_i hne; exact (hne _ h).elim

/-- stdlib.DistinctFunc Impl: `cty.UnknownVal(retType)`, `cty.ListValEmpty(retType.ElementType())` or
`cty.ListVal` of members of the argument. -/
theorem wf_distinctImpl (E : Env) (args : List Value) (retTy : Ty) (r : Value)
    (h : distinctImpl E args retTy = .ok r) (hargs : ∀ a ∈ args, a.WF nfc = true)
    (hret : retTy.ok nfc = true) : r.WF nfc = true := by
  unfold distinctImpl at h
  split at h
  · rename_i l _
    split at h
    · cases h; exact wf_unknown hret
    · split at h
      · rename_i es hes
        split at h
        · rename_i out hout
          have hmem := wf_distinctLoop es [] out hout (by simp) (elems_wf E (hargs l (by simp)) hes)
          split at h
          · obtain ⟨e, he, rfl⟩ := res_map_ok h
            exact wf_listEmpty (elementTypeOf_ok hret he)
          · exact wf_listVal h hmem
        · exact (cast_ok_false h).elim
      · exact (cast_ok_false h).elim
  · cases h

theorem wf_chunkLoop (size l : Nat) : ∀ (es : List Value) (i : Nat) (chunk output out : List Value),
    chunkLoop size l i chunk output es = .ok out → (∀ x ∈ chunk, x.WF nfc = true) →
    (∀ x ∈ output, x.WF nfc = true) → (∀ x ∈ es, x.WF nfc = true) → ∀ x ∈ out, x.WF nfc = true
  | [], i, chunk, output, out, h, _, ho, _ => by simp [chunkLoop] at h; subst h; exact ho
  | v :: rest, i, chunk, output, out, h, hc, ho, hes => by
    have hrest : ∀ x ∈ rest, x.WF nfc = true := fun x hx => hes x (by simp [hx])
    have hc' := forall_mem_snoc hc (hes v (by simp))
    unfold chunkLoop at h
    simp only at h
    split at h
    · split at h
      · rename_i c hcv
        exact wf_chunkLoop size l rest (i + 1) [] (output ++ [c]) out h (by simp)
          (forall_mem_snoc ho (wf_listVal hcv hc')) hrest
      · exact (cast_ok_false h).elim
    · exact wf_chunkLoop size l rest (i + 1) (chunk ++ [v]) output out h hc' ho hrest

/-- stdlib.ChunklistFunc Impl: a list of `cty.ListVal` chunks of the argument's members (or the empty list of
the argument's type, or the one-chunk list), with the arguments' marks. -/
theorem wf_chunklistImpl (E : Env) (args : List Value) (retTy : Ty) (r : Value)
    (h : chunklistImpl E args retTy = .ok r) (hargs : ∀ a ∈ args, a.WF nfc = true) : r.WF nfc = true := by
  unfold chunklistImpl at h
  split at h
  · rename_i l0 s0 _
    have hl := wf_unmark (hargs l0 (by simp))
    simp only at h
    split at h
    · cases h
    · split at h
      · cases h
      · split at h
        · split at h
          · cases h; exact wf_withMarkSets _ (wf_listEmpty (ok_of_wf hl))
          · split at h
            · refine wf_mapMarks h fun a ha => wf_listVal ha ?_
              intro x hx; simp only [List.mem_singleton] at hx; subst hx; exact hl
            · split at h
              · rename_i es hes
                split at h
                · rename_i output hout
                  refine wf_mapMarks h fun a ha => wf_listVal ha ?_
                  exact wf_chunkLoop _ _ es 0 [] [] output hout (by simp) (by simp) (elems_wf E hl hes)
                · exact (cast_ok_false h).elim
              · exact (cast_ok_false h).elim
        · exact (cast_ok_false h).elim
    · exact (cast_ok_false h).elim
  · cases h

/-! ## `flatten` -/

theorem wf_flatLoop (rec : Value → Res Flat)
    (hrec : ∀ v r', v.WF nfc = true → rec v = .ok r' → ∀ x ∈ r'.out, x.WF nfc = true) :
    ∀ (es out : List Value) (mss : List (List String)) (k : Bool) (r : Flat),
    flatLoop rec es out mss k = .ok r → (∀ x ∈ es, x.WF nfc = true) → (∀ x ∈ out, x.WF nfc = true) →
    ∀ x ∈ r.out, x.WF nfc = true
  | [], out, mss, k, r, h, _, ho => by simp [flatLoop] at h; subst h; exact ho
  | v :: rest, out, mss, k, r, h, hes, ho => by
    have hrest : ∀ x ∈ rest, x.WF nfc = true := fun x hx => hes x (by simp [hx])
    have hv := hes v (by simp)
    unfold flatLoop at h
    simp only at h
    split at h
    · split at h
      · exact wf_flatLoop rec hrec rest _ _ _ r h hrest ho
      · split at h
        · rename_i r' hr'
          refine wf_flatLoop rec hrec rest _ _ _ r h hrest ?_
          split
          · exact forall_mem_append ho (hrec v r' hv hr')
          · exact ho
        · rename_i hne; exact (hne _ h).elim
    · exact wf_flatLoop rec hrec rest _ _ _ r h hrest (forall_mem_snoc ho hv)

theorem wf_flattenerFuel (E : Env) : ∀ (fuel : Nat) (v : Value) (r : Flat), flattenerFuel E fuel v = .ok r →
    v.WF nfc = true → ∀ x ∈ r.out, x.WF nfc = true
  | 0, v, r, h, _ => by simp [flattenerFuel] at h
  | fuel + 1, v, r, h, hv => by
    unfold flattenerFuel at h
    simp only at h
    split at h
    · split at h
      · cases h; simp
      · split at h
        · rename_i es hes
          exact wf_flatLoop _ (fun v' r' hv' hr' => wf_flattenerFuel E fuel v' r' hr' hv') es [] _ true r h
            (elems_wf E (wf_unmark hv) hes) (by simp)
        · exact (cast_ok_false h).elim
    · exact (cast_ok_false h).elim

/-- stdlib.FlattenFunc Impl: `cty.EmptyTupleVal`, `cty.UnknownVal(retType)` or `cty.TupleVal` of the leaves
of the argument, with the marks collected on the way down. -/
theorem wf_flattenImpl (E : Env) (args : List Value) (retTy : Ty) (r : Value)
    (h : flattenImpl E args retTy = .ok r) (hargs : ∀ a ∈ args, a.WF nfc = true)
    (hret : retTy.ok nfc = true) : r.WF nfc = true := by
  unfold flattenImpl at h
  split at h
  · rename_i a _
    split at h
    · split at h
      · cases h; exact wf_withMarkSets _ wf_emptyTuple
      · split at h
        · rename_i fl hfl
          split at h
          · cases h; exact wf_withMarkSets _ (wf_unknown hret)
          · cases h
            exact wf_withMarkSets _ (wf_tupleVal (wf_flattenerFuel E _ a fl hfl (hargs a (by simp))))
        · exact (cast_ok_false h).elim
    · exact (cast_ok_false h).elim
  · cases h

/-! ## `keys`, `values`, `lookup` -/

/-- stdlib.KeysFunc Impl: the attribute names of the object type / the keys of the map as `cty.StringVal`s.
No normalisation hypothesis is needed: the names and keys of a well-formed value are NFC already. -/
theorem wf_keysImpl (args : List Value) (retTy : Ty) (r : Value)
    (h : keysImpl args retTy = .ok r) (hargs : ∀ a ∈ args, a.WF nfc = true)
    (hret : retTy.ok nfc = true) : r.WF nfc = true := by
  unfold keysImpl at h
  split at h
  · rename_i a _
    have hm := wf_unmark (hargs a (by simp))
    simp only at h
    split at h
    · rename_i ns ts os hty
      have hok := ok_of_wf hm
      rw [hty] at hok
      split at h
      · cases h; exact wf_withMarkSets _ wf_emptyTuple
      · cases h; exact wf_withMarkSets _ (wf_tupleVal (wf_strVals (Ty.ok_object hok).2.2.2.2.2))
    · split at h
      · cases h; exact wf_withMarkSets _ (wf_unknown hret)
      · split at h
        · rename_i ks hks
          split at h
          · cases h; exact wf_withMarkSets _ (wf_listEmpty ok_string)
          · exact wf_mapMarks h fun x hx => wf_listVal hx (wf_strVals (elemKeys_spec hm hks).1)
        · exact (cast_ok_false h).elim
  · cases h

/-- stdlib.ValuesFunc Impl: the members of the map / object as a list / tuple, with the argument's marks. -/
theorem wf_valuesImpl (E : Env) (args : List Value) (retTy : Ty) (r : Value)
    (h : valuesImpl E args retTy = .ok r) (hargs : ∀ a ∈ args, a.WF nfc = true)
    (hret : retTy.ok nfc = true) : r.WF nfc = true := by
  unfold valuesImpl at h
  split at h
  · rename_i a _
    have hm := wf_unmark (hargs a (by simp))
    simp only at h
    split at h
    · rename_i vs hvs
      have hmem := elems_wf E hm hvs
      split at h
      · cases h; exact wf_withMarkSets _ (wf_tupleVal hmem)
      · split at h
        · obtain ⟨e, he, rfl⟩ := res_map_ok h
          exact wf_withMarkSets _ (wf_listEmpty (elementTypeOf_ok hret he))
        · exact wf_mapMarks h fun x hx => wf_listVal hx hmem
    · exact (cast_ok_false h).elim
  · cases h

/-- stdlib.LookupFunc Impl: `cty.UnknownVal(retType)`, the attribute / element under the key, or
`convert.Convert(defaultVal, retType)` (`ConvWF`: the environment's conversion returns well-formed values),
with the marks of the collection and of the key. -/
theorem wf_lookupImpl (E : Env) (hE : ConvWF nfc E) (args : List Value) (retTy : Ty) (r : Value)
    (h : lookupImpl E args retTy = .ok r) (hargs : ∀ a ∈ args, a.WF nfc = true)
    (hret : retTy.ok nfc = true) : r.WF nfc = true := by
  unfold lookupImpl at h
  split at h
  · rename_i m key d _
    have hm := wf_unmark (hargs m (by simp))
    have hd : ∀ {mss : List (List String)}, (convertTo E d retTy).map (withMarkSets · mss) = .ok r →
        r.WF nfc = true := fun hh =>
      wf_mapMarks hh fun a ha => convertTo_wf hE (hargs d (by simp)) hret ha
    simp only at h
    split at h
    · split at h
      · cases h; exact wf_withMarkSets _ (wf_unknown hret)
      · split at h
        · split at h
          · exact wf_mapMarks h fun a ha => op_getAttr _ _ _ hm ha
          · exact hd h
        · split at h
          · split at h <;> split at h <;>
              first | exact wf_mapMarks h fun a ha => op_index _ _ _ hm ha | exact hd h
          · exact (cast_ok_false h).elim
    · exact (cast_ok_false h).elim
  · cases h

/-! ## `merge`, `zipmap` -/

theorem wf_mergeLoop (E : Env) : ∀ (args : List Value) (out : List (String × Value)) (mss : List (List String))
    (res : List (String × Value) × List (List String)), mergeLoop E args out mss = .ok res →
    (∀ a ∈ args, a.WF nfc = true) → MInv nfc out → MInv nfc res.1
  | [], out, mss, res, h, _, hi => by simp [mergeLoop] at h; subst h; exact hi
  | a :: rest, out, mss, res, h, hargs, hi => by
    have hrest : ∀ x ∈ rest, x.WF nfc = true := fun x hx => hargs x (by simp [hx])
    have hm := wf_unmark (hargs a (by simp))
    unfold mergeLoop at h
    split at h
    · exact wf_mergeLoop E rest out mss res h hrest hi
    · simp only at h
      split at h
      · rename_i ks vs hks hvs
        exact wf_mergeLoop E rest _ _ res h hrest
          (minv_amInsertAll ks vs out hi (elemKeys_spec hm hks).1 (elems_wf E hm hvs))
      · exact (cast_ok_false h).elim
      · exact (cast_ok_false h).elim

/-- stdlib.MergeFunc Impl: `cty.MapValEmpty`, `cty.MapVal` or `cty.ObjectVal` of the last binding per key of
the arguments, with the arguments' marks. -/
theorem wf_mergeImpl (E : Env) (args : List Value) (retTy : Ty) (r : Value)
    (h : mergeImpl E args retTy = .ok r) (hargs : ∀ a ∈ args, a.WF nfc = true)
    (hret : retTy.ok nfc = true) : r.WF nfc = true := by
  unfold mergeImpl at h
  split at h
  · rename_i out mss hloop
    obtain ⟨h1, h2, h3, h4⟩ := minv_spec (wf_mergeLoop E args [] [] _ hloop hargs minv_nil)
    simp only at h h1 h2 h3 h4
    split at h
    · split at h
      · cases h; exact wf_withMarkSets _ (wf_mapEmpty (by simpa [Ty.ok_map] using hret))
      · exact wf_mapMarks h fun a ha => wf_mapVal ha h1 h2 h3 h4
    · cases h; exact wf_withMarkSets _ (wf_objectVal h1 h2 h3 h4)
    · cases h; exact wf_withMarkSets _ (wf_objectVal h1 h2 h3 h4)
    · cases h
  · exact (cast_ok_false h).elim

theorem wf_zipmapLoop (values : Value) (hvals : values.WF nfc = true) : ∀ (ks : List Value) (i : Nat)
    (out : List (String × Value)) (ms : List String) (res : List (String × Value) × List String),
    zipmapLoop values ks i out ms = .ok res → (∀ a ∈ ks, a.WF nfc = true) → MInv nfc out → MInv nfc res.1
  | [], i, out, ms, res, h, _, hi => by simp [zipmapLoop] at h; subst h; exact hi
  | k0 :: rest, i, out, ms, res, h, hks, hi => by
    have hrest : ∀ x ∈ rest, x.WF nfc = true := fun x hx => hks x (by simp [hx])
    have hk := wf_unmark (hks k0 (by simp))
    unfold zipmapLoop at h
    simp only at h
    split at h
    · cases h
    · split at h
      · rename_i val hval
        split at h
        · rename_i k hk'
          exact wf_zipmapLoop values hvals rest _ _ _ res h hrest
            (minv_amInsert hi (asString_nfc hk hk') (op_index _ _ _ hvals hval))
        · exact (cast_ok_false h).elim
      · exact (cast_ok_false h).elim

/-- stdlib.ZipmapFunc Impl: `cty.UnknownVal(retType)`, `cty.MapValEmpty`, `cty.MapVal` or `cty.ObjectVal` of
`values.Index(i)` under the key strings, with the arguments' (and the keys') marks. -/
theorem wf_zipmapImpl (E : Env) (args : List Value) (retTy : Ty) (r : Value)
    (h : zipmapImpl E args retTy = .ok r) (hargs : ∀ a ∈ args, a.WF nfc = true)
    (hret : retTy.ok nfc = true) : r.WF nfc = true := by
  unfold zipmapImpl at h
  split at h
  · rename_i k0 v0 _
    have hk := wf_unmark (hargs k0 (by simp))
    have hv := wf_unmark (hargs v0 (by simp))
    simp only at h
    split at h
    · cases h; exact wf_withMarkSets _ (wf_unknown hret)
    · split at h
      · split at h
        · cases h
        · split at h
          · rename_i ks hks
            split at h
            · rename_i out ms hloop
              obtain ⟨h1, h2, h3, h4⟩ :=
                minv_spec (wf_zipmapLoop _ hv ks 0 [] _ _ hloop (elems_wf E hk hks) minv_nil)
              simp only at h h1 h2 h3 h4
              split at h
              · split at h
                · cases h; exact wf_withMarkSets _ (wf_mapEmpty (by simpa [Ty.ok_map] using hret))
                · exact wf_mapMarks h fun a ha => wf_mapVal ha h1 h2 h3 h4
              · cases h; exact wf_withMarkSets _ (wf_objectVal h1 h2 h3 h4)
              · cases h
            · exact (cast_ok_false h).elim
          · exact (cast_ok_false h).elim
      · exact (cast_ok_false h).elim
      · exact (cast_ok_false h).elim
  · cases h

/-! ## `reverse`, `slice` -/

/-- stdlib.ReverseFunc Impl: the members of the argument, back to front, as a tuple / list. -/
theorem wf_reverseImpl (E : Env) (args : List Value) (retTy : Ty) (r : Value)
    (h : Stdlib.reverseImpl E args retTy = .ok r) (hargs : ∀ a ∈ args, a.WF nfc = true)
    (hret : retTy.ok nfc = true) : r.WF nfc = true := by
  unfold Stdlib.reverseImpl at h
  split at h
  · rename_i a _
    have hm := wf_unmark (hargs a (by simp))
    simp only at h
    split at h
    · cases h; exact wf_withMarkSets _ (wf_unknown hret)
    · split at h
      · rename_i vs hvs
        have hmem : ∀ x ∈ Stdlib.reverseLoop vs [], x.WF nfc = true := by
          intro x hx
          rcases mem_reverseLoop _ _ _ hx with hx | hx
          · exact asValueSlice_wf E hm hvs x hx
          · simp at hx
        split at h
        · cases h; exact wf_withMarkSets _ (wf_tupleVal hmem)
        · split at h
          · obtain ⟨e, he, rfl⟩ := res_map_ok h
            exact wf_withMarkSets _ (wf_listEmpty (elementTypeOf_ok hret he))
          · exact wf_mapMarks h fun x hx => wf_listVal hx hmem
      · exact (cast_ok_false h).elim
  · cases h

/-- stdlib.SliceFunc Impl: `cty.DynamicVal`, an empty tuple / list, or a contiguous run of the argument's
members as a tuple / list. -/
theorem wf_sliceImpl (E : Env) (args : List Value) (retTy : Ty) (r : Value)
    (h : sliceImpl E args retTy = .ok r) (hargs : ∀ a ∈ args, a.WF nfc = true)
    (hret : retTy.ok nfc = true) : r.WF nfc = true := by
  unfold sliceImpl at h
  split at h
  · rename_i a rest
    have hm := wf_unmark (hargs a (by simp))
    simp only at h
    split at h
    · cases h; exact wf_withMarkSets _ wf_dynVal
    · split at h
      · split at h
        · split at h
          · cases h; exact wf_withMarkSets _ wf_emptyTuple
          · obtain ⟨e, he, rfl⟩ := res_map_ok h
            exact wf_withMarkSets _ (wf_listEmpty (elementTypeOf_ok hret he))
        · split at h
          · rename_i vs hvs
            split at h
            · rename_i out hout
              have hmem : ∀ x ∈ out, x.WF nfc = true := fun x hx =>
                asValueSlice_wf E hm hvs x (mem_goSlice hout x hx)
              split at h
              · cases h; exact wf_withMarkSets _ (wf_tupleVal hmem)
              · exact wf_mapMarks h fun x hx => wf_listVal hx hmem
            · exact (cast_ok_false h).elim
          · exact (cast_ok_false h).elim
      · exact (cast_ok_false h).elim
  · cases h

/-! ## `sort` (string.go) -/

/-- stdlib.SortFunc Impl: an unknown list refined with length bounds, the (empty) argument itself, or
`cty.ListVal` of `cty.StringVal`s of the argument's own strings (which are NFC already). -/
theorem wf_sortImpl (E : Env) (args : List Value) (retTy : Ty) (r : Value)
    (h : sortImpl E args retTy = .ok r) (hargs : ∀ a ∈ args, a.WF nfc = true)
    (hret : retTy.ok nfc = true) : r.WF nfc = true := by
  unfold sortImpl at h
  split at h
  · rename_i l _
    have hl := hargs l (by simp)
    split at h
    · split at h
      · split at h
        · split at h
          · exact Res.all_iff.mp (Refine.wf_refine _ _ (wf_unknown hret)) r h
          · exact (cast_ok_false h).elim
          · exact (cast_ok_false h).elim
        · exact (cast_ok_false h).elim
      · cases h; exact wf_unknown hret
    · split at h
      · split at h
        · cases h; exact hl
        · split at h
          · rename_i es hes
            split at h
            · rename_i list hlist
              refine wf_listVal h (wf_strVals ?_)
              simp only [List.all_eq_true]
              intro k hk
              exact sortCollect_nfc es list hlist (elems_wf E hl hes) k (mem_sortStrings _ _ hk)
            · exact (cast_ok_false h).elim
          · exact (cast_ok_false h).elim
      · exact (cast_ok_false h).elim
  · cases h

/-! ## sequence.go: `concat`, `range` -/

theorem wf_concatListLoop {E : Env} (hE : ConvWF nfc E) (retTy : Ty) (hret : retTy.ok nfc = true) :
    ∀ (args vals : List Value) (mss : List (List String)) (res : List Value × List (List String)),
    concatListLoop E retTy args vals mss = .ok res → (∀ a ∈ args, a.WF nfc = true) →
    (∀ x ∈ vals, x.WF nfc = true) → ∀ x ∈ res.1, x.WF nfc = true
  | [], vals, mss, res, h, _, hv => by simp [concatListLoop] at h; subst h; exact hv
  | a :: rest, vals, mss, res, h, hargs, hv => by
    have hrest : ∀ x ∈ rest, x.WF nfc = true := fun x hx => hargs x (by simp [hx])
    unfold concatListLoop at h
    split at h
    · cases h
    · rename_i l1 hl1
      have hl := wf_unmark (convertTo_wf hE (hargs a (by simp)) hret hl1)
      simp only at h
      split at h
      · rename_i es hes
        exact wf_concatListLoop hE retTy hret rest _ _ res h hrest (forall_mem_append hv (elems_wf E hl hes))
      · exact (cast_ok_false h).elim
    · exact (cast_ok_false h).elim

theorem wf_concatTupleLoop (E : Env) :
    ∀ (args vals : List Value) (mss : List (List String)) (res : List Value × List (List String)),
    concatTupleLoop E args vals mss = .ok res → (∀ a ∈ args, a.WF nfc = true) →
    (∀ x ∈ vals, x.WF nfc = true) → ∀ x ∈ res.1, x.WF nfc = true
  | [], vals, mss, res, h, _, hv => by simp [concatTupleLoop] at h; subst h; exact hv
  | a :: rest, vals, mss, res, h, hargs, hv => by
    have hrest : ∀ x ∈ rest, x.WF nfc = true := fun x hx => hargs x (by simp [hx])
    have hl := wf_unmark (hargs a (by simp))
    unfold concatTupleLoop at h
    simp only at h
    split at h
    · rename_i es hes
      exact wf_concatTupleLoop E rest _ _ res h hrest (forall_mem_append hv (elems_wf E hl hes))
    · exact (cast_ok_false h).elim

/-- stdlib.ConcatFunc Impl: `cty.ListValEmpty` / `cty.ListVal` of the members of the converted arguments
(`ConvWF`: the environment's `convert.Convert` returns well-formed values), or `cty.TupleVal` of the members of
the arguments, with the arguments' marks. -/
theorem wf_concatImpl (E : Env) (hE : ConvWF nfc E) (args : List Value) (retTy : Ty) (r : Value)
    (h : concatImpl E args retTy = .ok r) (hargs : ∀ a ∈ args, a.WF nfc = true)
    (hret : retTy.ok nfc = true) : r.WF nfc = true := by
  unfold concatImpl at h
  split at h
  · split at h
    · rename_i vals mss hloop
      have hmem := wf_concatListLoop hE _ hret args [] [] _ hloop hargs (by simp)
      simp only at h hmem
      split at h
      · cases h; exact wf_withMarkSets _ (wf_listEmpty (by simpa [Ty.ok_list] using hret))
      · exact wf_mapMarks h fun a ha => wf_listVal ha hmem
    · exact (cast_ok_false h).elim
  · split at h
    · rename_i vals mss hloop
      have hmem := wf_concatTupleLoop E args [] [] _ hloop hargs (by simp)
      cases h; exact wf_withMarkSets _ (wf_tupleVal hmem)
    · exact (cast_ok_false h).elim
  · cases h

theorem wf_rangeLoop (down : Bool) (stop step : Value) : ∀ (fuel : Nat) (num : Value) (vals out : List Value),
    rangeLoop down stop step fuel num vals = .ok out → num.WF nfc = true → (∀ x ∈ vals, x.WF nfc = true) →
    ∀ x ∈ out, x.WF nfc = true
  | 0, num, vals, out, h, _, _ => by simp [rangeLoop] at h
  | fuel + 1, num, vals, out, h, hn, hv => by
    unfold rangeLoop at h
    split at h
    · cases h; exact hv
    · split at h
      · cases h
      · split at h
        · rename_i next hnext
          exact wf_rangeLoop down stop step fuel next _ out h (op_add _ _ _ hnext) (forall_mem_snoc hv hn)
        · exact (cast_ok_false h).elim
    · exact (cast_ok_false h).elim

/-- stdlib.RangeFunc Impl: `cty.ListValEmpty(cty.Number)` or `cty.ListVal` of `start`, `start.Add(step)`, … -/
theorem wf_rangeImpl (E : Env) (args : List Value) (retTy : Ty) (r : Value)
    (h : rangeImpl E args retTy = .ok r) (hargs : ∀ a ∈ args, a.WF nfc = true) : r.WF nfc = true := by
  unfold rangeImpl at h
  simp only at h
  split at h
  · rename_i start stop step hsel
    have hstart : start.WF nfc = true := by
      split at hsel
      · split at hsel
        · cases hsel; exact wf_numVal _
        · cases hsel; exact wf_numVal _
        · exact (cast_ok_false hsel).elim
      · split at hsel
        · cases hsel; exact hargs _ (by simp)
        · cases hsel; exact hargs _ (by simp)
        · exact (cast_ok_false hsel).elim
      · cases hsel; exact hargs _ (by simp)
      · cases hsel
    split at h
    · cases h
    · split at h
      · cases h
      · split at h
        · split at h
          · cases h
          · split at h
            · rename_i vals hvals
              split at h
              · cases h; exact wf_listEmpty ok_number
              · exact wf_listVal h (wf_rangeLoop _ _ _ _ _ _ _ hvals hstart (by simp))
            · exact (cast_ok_false h).elim
          · exact (cast_ok_false h).elim
        · exact (cast_ok_false h).elim
  · exact (cast_ok_false h).elim

/-! ## number.go, bool.go, general.go (`Stdlib/Number.lean`): the callbacks take `args` only -/

/-- stdlib.AddFunc Impl (`args[0].Add(args[1])`). -/
theorem wf_addImpl (args : List Value) (r : Value) (h : StdNum.addImpl args = .ok r) : r.WF nfc = true :=
  Res.all_iff.mp (all_recoverNaN (w_bin _ (all_wf_binPrim _ all_prim_addU) args)) r h

/-- stdlib.SubtractFunc Impl (`args[0].Subtract(args[1])`). -/
theorem wf_subtractImpl (args : List Value) (r : Value) (h : StdNum.subtractImpl args = .ok r) : r.WF nfc = true :=
  Res.all_iff.mp (all_recoverNaN (w_bin _ (all_wf_binPrim _ all_prim_subU) args)) r h

/-- stdlib.MultiplyFunc Impl (`args[0].Multiply(args[1])`). -/
theorem wf_multiplyImpl (args : List Value) (r : Value) (h : StdNum.multiplyImpl args = .ok r) : r.WF nfc = true :=
  Res.all_iff.mp (all_recoverNaN (w_bin _ (all_wf_binPrim _ all_prim_mulU) args)) r h

/-- stdlib.DivideFunc Impl (`args[0].Divide(args[1])`). -/
theorem wf_divideImpl (args : List Value) (r : Value) (h : StdNum.divideImpl args = .ok r) : r.WF nfc = true :=
  Res.all_iff.mp (all_recoverNaN (w_bin _ (all_wf_binPrim _ all_prim_divU) args)) r h

/-- stdlib.LessThanFunc Impl (`args[0].LessThan(args[1])`). -/
theorem wf_lessThanImpl (args : List Value) (r : Value) (h : StdNum.lessThanImpl args = .ok r) : r.WF nfc = true :=
  Res.all_iff.mp (w_bin _ (all_wf_binPrim _ all_prim_lessThanU) args) r h

/-- stdlib.GreaterThanFunc Impl (`args[0].GreaterThan(args[1])`). -/
theorem wf_greaterThanImpl (args : List Value) (r : Value) (h : StdNum.greaterThanImpl args = .ok r) : r.WF nfc = true :=
  Res.all_iff.mp (w_bin _ (all_wf_binPrim _ all_prim_greaterThanU) args) r h

/-- stdlib.AndFunc Impl (`args[0].And(args[1])`). -/
theorem wf_andImpl (args : List Value) (r : Value) (h : StdNum.andImpl args = .ok r) : r.WF nfc = true :=
  Res.all_iff.mp (w_bin _ (all_wf_binPrim _ all_prim_andU) args) r h

/-- stdlib.OrFunc Impl (`args[0].Or(args[1])`). -/
theorem wf_orImpl (args : List Value) (r : Value) (h : StdNum.orImpl args = .ok r) : r.WF nfc = true :=
  Res.all_iff.mp (w_bin _ (all_wf_binPrim _ all_prim_orU) args) r h

/-- stdlib.AbsoluteFunc Impl (`args[0].Absolute()`). -/
theorem wf_absoluteImpl (args : List Value) (r : Value) (h : StdNum.absoluteImpl args = .ok r) : r.WF nfc = true :=
  Res.all_iff.mp (w_un _ (all_wf_unPrim _ all_prim_absU) args) r h

/-- stdlib.NegateFunc Impl (`args[0].Negate()`). -/
theorem wf_negateImpl (args : List Value) (r : Value) (h : StdNum.negateImpl args = .ok r) : r.WF nfc = true :=
  Res.all_iff.mp (w_un _ (all_wf_unPrim _ all_prim_negU) args) r h

/-- stdlib.NotFunc Impl (`args[0].Not()`). -/
theorem wf_notImpl (args : List Value) (r : Value) (h : StdNum.notImpl args = .ok r) : r.WF nfc = true :=
  Res.all_iff.mp (w_un _ (all_wf_unPrim _ all_prim_notU) args) r h

/-- stdlib.LessThanOrEqualToFunc Impl (`args[0].LessThanOrEqualTo(args[1])`). -/
theorem wf_lessThanOrEqualToImpl (args : List Value) (r : Value) (h : StdNum.lessThanOrEqualToImpl args = .ok r) :
    r.WF nfc = true := Res.all_iff.mp (w_bin _ w_lte args) r h

/-- stdlib.GreaterThanOrEqualToFunc Impl (`args[0].GreaterThanOrEqualTo(args[1])`). -/
theorem wf_greaterThanOrEqualToImpl (args : List Value) (r : Value)
    (h : StdNum.greaterThanOrEqualToImpl args = .ok r) : r.WF nfc = true :=
  Res.all_iff.mp (w_bin _ w_gte args) r h

/-- stdlib.EqualFunc Impl (`args[0].Equals(args[1])`). -/
theorem wf_equalImpl (args : List Value) (r : Value) (h : StdNum.equalImpl args = .ok r) : r.WF nfc = true :=
  Res.all_iff.mp (w_bin _ all_wf_equals args) r h

/-- stdlib.NotEqualFunc Impl (`args[0].Equals(args[1]).Not()`). -/
theorem wf_notEqualImpl (args : List Value) (r : Value) (h : StdNum.notEqualImpl args = .ok r) :
    r.WF nfc = true := by
  refine (Res.all_iff (P := fun r : Value => r.WF nfc = true)).mp ?_ r h
  unfold StdNum.notEqualImpl
  simp only [Res.all_bind]
  exact Res.all_of_forall _ fun _ => Res.all_of_forall _ fun _ => Res.all_of_forall _ fun _ =>
    all_wf_unPrim _ all_prim_notU _

/-- stdlib.ModuloFunc Impl (`args[0].Modulo(args[1])`, which hands back `args[0]` for an infinite divisor —
hence the hypothesis on the arguments). -/
theorem wf_moduloImpl (args : List Value) (r : Value) (h : StdNum.moduloImpl args = .ok r)
    (hargs : ∀ a ∈ args, a.WF nfc = true) : r.WF nfc = true := by
  refine (Res.all_iff (P := fun r : Value => r.WF nfc = true)).mp (all_recoverNaN ?_) r h
  rw [Res.all_bind]
  refine Res.all_mono (all_arg args 0) fun a ha => ?_
  rw [Res.all_bind]
  exact Res.all_of_forall _ fun b => all_wf_mod a b (hargs a ha)

/-- stdlib.MinFunc Impl: `cty.PositiveInfinity` or one of the arguments. -/
theorem wf_minImpl (args : List Value) (r : Value) (h : StdNum.minImpl args = .ok r)
    (hargs : ∀ a ∈ args, a.WF nfc = true) : r.WF nfc = true := by
  refine (Res.all_iff (P := fun r : Value => r.WF nfc = true)).mp ?_ r h
  unfold StdNum.minImpl
  split
  · trivial
  · exact w_minLoop args _ hargs (wf_numVal _)

/-- stdlib.MaxFunc Impl: `cty.NegativeInfinity` or one of the arguments. -/
theorem wf_maxImpl (args : List Value) (r : Value) (h : StdNum.maxImpl args = .ok r)
    (hargs : ∀ a ∈ args, a.WF nfc = true) : r.WF nfc = true := by
  refine (Res.all_iff (P := fun r : Value => r.WF nfc = true)).mp ?_ r h
  unfold StdNum.maxImpl
  split
  · trivial
  · exact w_maxLoop args _ hargs (wf_numVal _)

/-- stdlib.CoalesceFunc Impl on arguments of one type (the `StdNum` rendering: `convert.Convert` is the
identity): `cty.UnknownVal(retType)` or the first non-null argument. -/
theorem wf_numCoalesceImpl (args : List Value) (r : Value) (h : StdNum.coalesceImpl args = .ok r)
    (hargs : ∀ a ∈ args, a.WF nfc = true) : r.WF nfc = true := by
  refine (Res.all_iff (P := fun r : Value => r.WF nfc = true)).mp ?_ r h
  unfold StdNum.coalesceImpl
  split
  · trivial
  · rename_i v rest
    split
    · trivial
    · exact w_numCoalesceLoop _ (ok_of_wf (hargs v (by simp))) _ hargs

/-- stdlib.IntFunc Impl: the argument itself (an integer) or `cty.NumberVal` of its truncation. -/
theorem wf_intImpl (args : List Value) (r : Value) (h : StdNum.intImpl args = .ok r)
    (hargs : ∀ a ∈ args, a.WF nfc = true) : r.WF nfc = true := by
  refine (Res.all_iff (P := fun r : Value => r.WF nfc = true)).mp ?_ r h
  unfold StdNum.intImpl
  rw [Res.all_bind]
  refine Res.all_mono (all_arg args 0) fun a ha => ?_
  rw [Res.all_bind]
  refine Res.all_of_forall _ fun bf => ?_
  split
  · trivial
  · split
    · exact hargs a ha
    · split
      · trivial
      · exact wf_numVal _

/-- stdlib.CeilFunc Impl: `cty.NumberVal(...)`. -/
theorem wf_ceilImpl (args : List Value) (r : Value) (h : StdNum.ceilImpl args = .ok r) : r.WF nfc = true := by
  refine (Res.all_iff (P := fun r : Value => r.WF nfc = true)).mp ?_ r h
  unfold StdNum.ceilImpl
  simp only [Res.all_bind]
  refine Res.all_of_forall _ fun _ => Res.all_of_forall _ fun _ => ?_
  split
  · exact wf_numVal _
  · split
    · trivial
    · exact wf_numVal _

/-- stdlib.FloorFunc Impl: `cty.NumberVal(...)`. -/
theorem wf_floorImpl (args : List Value) (r : Value) (h : StdNum.floorImpl args = .ok r) : r.WF nfc = true := by
  refine (Res.all_iff (P := fun r : Value => r.WF nfc = true)).mp ?_ r h
  unfold StdNum.floorImpl
  simp only [Res.all_bind]
  refine Res.all_of_forall _ fun _ => Res.all_of_forall _ fun _ => ?_
  split
  · exact wf_numVal _
  · split
    · trivial
    · exact wf_numVal _

/-- stdlib.SignumFunc Impl: `cty.NumberIntVal(sign)`. -/
theorem wf_signumImpl (args : List Value) (r : Value) (h : StdNum.signumImpl args = .ok r) : r.WF nfc = true := by
  refine (Res.all_iff (P := fun r : Value => r.WF nfc = true)).mp ?_ r h
  unfold StdNum.signumImpl
  simp only [Res.all_bind]
  exact Res.all_of_forall _ fun _ => Res.all_of_forall _ fun _ => wf_intVal _

theorem w_numberFloatVal (x : StdNum.F64) : Res.AllW (fun r : Value => r.WF nfc = true) (StdNum.numberFloatVal x) := by
  cases x
  · trivial
  · exact wf_numVal _

/-- stdlib.LogFunc Impl: `cty.NumberFloatVal(result)` (`lib` = the `math` library, a parameter). -/
theorem wf_logImpl (lib : Num → Num → StdNum.F64) (args : List Value) (r : Value)
    (h : StdNum.logImpl lib args = .ok r) : r.WF nfc = true := by
  refine (Res.all_iff (P := fun r : Value => r.WF nfc = true)).mp ?_ r h
  unfold StdNum.logImpl
  simp only [Res.all_bind]
  refine Res.all_of_forall _ fun _ => Res.all_of_forall _ fun _ => Res.all_of_forall _ fun _ =>
    Res.all_of_forall _ fun _ => ?_
  split
  · trivial
  · exact w_numberFloatVal _

/-- stdlib.PowFunc Impl: `cty.NumberFloatVal(result)` (`lib` = `math.Pow`, a parameter). -/
theorem wf_powImpl (lib : Num → Num → StdNum.F64) (args : List Value) (r : Value)
    (h : StdNum.powImpl lib args = .ok r) : r.WF nfc = true := by
  refine (Res.all_iff (P := fun r : Value => r.WF nfc = true)).mp ?_ r h
  unfold StdNum.powImpl
  simp only [Res.all_bind]
  refine Res.all_of_forall _ fun _ => Res.all_of_forall _ fun _ => Res.all_of_forall _ fun _ =>
    Res.all_of_forall _ fun _ => ?_
  split
  · trivial
  · exact w_numberFloatVal _

/-- stdlib.ParseIntFunc Impl: `cty.NumberVal(parsedNum)`. -/
theorem wf_parseIntImpl (args : List Value) (r : Value) (h : StdNum.parseIntImpl args = .ok r) :
    r.WF nfc = true := by
  refine (Res.all_iff (P := fun r : Value => r.WF nfc = true)).mp ?_ r h
  unfold StdNum.parseIntImpl
  simp only [Res.all_bind]
  refine Res.all_of_forall _ fun _ => Res.all_of_forall _ fun _ => ?_
  split
  · trivial
  · simp only [Res.all_bind]
    refine Res.all_of_forall _ fun _ => Res.all_of_forall _ fun _ => ?_
    split
    · trivial
    · split
      · trivial
      · exact wf_numVal _

/-! ## string.go (`Stdlib/Strings.lean`): `cty.StringVal` normalises; `norm` is the model's parameter for
`norm.NFC.String`, `hn` says the oracle `nfc` accepts what it produces -/

/-- stdlib.StrlenFunc Impl: `cty.NumberIntVal(clusterCount)`. -/
theorem wf_strlenImpl (clusters : String → List String) (args : List Value) (r : Value)
    (h : StdNum.strlenImpl clusters args = .ok r) : r.WF nfc = true := by
  refine (Res.all_iff (P := fun r : Value => r.WF nfc = true)).mp ?_ r h
  unfold StdNum.strlenImpl
  simp only [Res.all_bind]
  refine Res.all_of_forall _ fun _ => ?_
  split
  · trivial
  · simp only [Res.all_bind]
    exact Res.all_of_forall _ fun _ => wf_intVal _

/-- stdlib.ReverseFunc (string.go) Impl: `cty.StringVal(string(out))`. -/
theorem wf_strReverseImpl (norm : String → String) (hn : ∀ s, nfc (norm s) = true)
    (clusters : String → List String) (args : List Value) (r : Value)
    (h : StdNum.reverseImpl norm clusters args = .ok r) : r.WF nfc = true := by
  refine (Res.all_iff (P := fun r : Value => r.WF nfc = true)).mp ?_ r h
  unfold StdNum.reverseImpl
  simp only [Res.all_bind]
  exact Res.all_of_forall _ fun _ => Res.all_of_forall _ fun _ => wf_stdStringVal norm hn _

/-- stdlib.SubstrFunc Impl: `cty.StringVal(...)`. -/
theorem wf_substrImpl (norm : String → String) (hn : ∀ s, nfc (norm s) = true)
    (clusters : String → List String) (args : List Value) (r : Value)
    (h : StdNum.substrImpl norm clusters args = .ok r) : r.WF nfc = true := by
  refine (Res.all_iff (P := fun r : Value => r.WF nfc = true)).mp ?_ r h
  unfold StdNum.substrImpl
  simp only [Res.all_bind]
  exact Res.all_of_forall _ fun _ => Res.all_of_forall _ fun _ => Res.all_of_forall _ fun _ =>
    Res.all_of_forall _ fun _ => Res.all_of_forall _ fun _ => Res.all_of_forall _ fun _ =>
    wf_stdStringVal norm hn _

/-- stdlib.ChompFunc Impl: `cty.StringVal(...)`. -/
theorem wf_chompImpl (norm : String → String) (hn : ∀ s, nfc (norm s) = true) (args : List Value) (r : Value)
    (h : StdNum.chompImpl norm args = .ok r) : r.WF nfc = true := by
  refine (Res.all_iff (P := fun r : Value => r.WF nfc = true)).mp ?_ r h
  unfold StdNum.chompImpl
  simp only [Res.all_bind]
  exact Res.all_of_forall _ fun _ => Res.all_of_forall _ fun _ => wf_stdStringVal norm hn _

/-- stdlib.IndentFunc Impl: `cty.StringVal(...)`. -/
theorem wf_indentImpl (norm : String → String) (hn : ∀ s, nfc (norm s) = true) (args : List Value) (r : Value)
    (h : StdNum.indentImpl norm args = .ok r) : r.WF nfc = true := by
  refine (Res.all_iff (P := fun r : Value => r.WF nfc = true)).mp ?_ r h
  unfold StdNum.indentImpl
  simp only [Res.all_bind]
  refine Res.all_of_forall _ fun _ => Res.all_of_forall _ fun _ => ?_
  split
  · trivial
  · simp only [Res.all_bind]
    refine Res.all_of_forall _ fun _ => Res.all_of_forall _ fun _ => ?_
    split
    · exact wf_stdStringVal norm hn _
    · split
      · trivial
      · exact wf_stdStringVal norm hn _

/-! ## set.go -/

/-- stdlib.SetHasElementFunc Impl (`set.HasElement(elem)`): a bool, known or unknown. -/
theorem wf_setHasElementImpl (E : Env) (args : List Value) (retTy : Ty) (r : Value)
    (h : setHasElementImpl E args retTy = .ok r) : r.WF nfc = true := by
  unfold setHasElementImpl at h
  split at h
  · exact Res.all_iff.mp (all_wf_hasElement _ _ _) r h
  · cases h

/-! ## string.go / string_replace.go / regexp.go one-call functions (`Stdlib/Glue.lean`): the Go library
calls are fields of `L`, `L.nfc` is `norm.NFC.String` inside `cty.StringVal`; `hn`: the oracle `nfc` accepts
what it produces -/

/-- stdlib.UpperFunc Impl: `cty.StringVal(...)` of the library's answer. -/
theorem wf_upperImpl (L : StdNum.Lib) (hn : ∀ s, nfc (L.nfc s) = true) (args : List Value) (r : Value)
    (h : StdNum.upperImpl L args = .ok r) : r.WF nfc = true := by
  refine (Res.all_iff (P := fun r : Value => r.WF nfc = true)).mp ?_ r h
  unfold StdNum.upperImpl
  simp only [Res.all_bind]
  repeat (first | exact wf_stdStringVal _ hn _ | refine Res.all_of_forall _ fun _ => ?_)

/-- stdlib.LowerFunc Impl: `cty.StringVal(...)` of the library's answer. -/
theorem wf_lowerImpl (L : StdNum.Lib) (hn : ∀ s, nfc (L.nfc s) = true) (args : List Value) (r : Value)
    (h : StdNum.lowerImpl L args = .ok r) : r.WF nfc = true := by
  refine (Res.all_iff (P := fun r : Value => r.WF nfc = true)).mp ?_ r h
  unfold StdNum.lowerImpl
  simp only [Res.all_bind]
  repeat (first | exact wf_stdStringVal _ hn _ | refine Res.all_of_forall _ fun _ => ?_)

/-- stdlib.TitleFunc Impl: `cty.StringVal(...)` of the library's answer. -/
theorem wf_titleImpl (L : StdNum.Lib) (hn : ∀ s, nfc (L.nfc s) = true) (args : List Value) (r : Value)
    (h : StdNum.titleImpl L args = .ok r) : r.WF nfc = true := by
  refine (Res.all_iff (P := fun r : Value => r.WF nfc = true)).mp ?_ r h
  unfold StdNum.titleImpl
  simp only [Res.all_bind]
  repeat (first | exact wf_stdStringVal _ hn _ | refine Res.all_of_forall _ fun _ => ?_)

/-- stdlib.TrimSpaceFunc Impl: `cty.StringVal(...)` of the library's answer. -/
theorem wf_trimSpaceImpl (L : StdNum.Lib) (hn : ∀ s, nfc (L.nfc s) = true) (args : List Value) (r : Value)
    (h : StdNum.trimSpaceImpl L args = .ok r) : r.WF nfc = true := by
  refine (Res.all_iff (P := fun r : Value => r.WF nfc = true)).mp ?_ r h
  unfold StdNum.trimSpaceImpl
  simp only [Res.all_bind]
  repeat (first | exact wf_stdStringVal _ hn _ | refine Res.all_of_forall _ fun _ => ?_)

/-- stdlib.TrimFunc Impl: `cty.StringVal(...)` of the library's answer. -/
theorem wf_trimImpl (L : StdNum.Lib) (hn : ∀ s, nfc (L.nfc s) = true) (args : List Value) (r : Value)
    (h : StdNum.trimImpl L args = .ok r) : r.WF nfc = true := by
  refine (Res.all_iff (P := fun r : Value => r.WF nfc = true)).mp ?_ r h
  unfold StdNum.trimImpl
  simp only [Res.all_bind]
  repeat (first | exact wf_stdStringVal _ hn _ | refine Res.all_of_forall _ fun _ => ?_)

/-- stdlib.TrimPrefixFunc Impl: `cty.StringVal(...)` of the library's answer. -/
theorem wf_trimPrefixImpl (L : StdNum.Lib) (hn : ∀ s, nfc (L.nfc s) = true) (args : List Value) (r : Value)
    (h : StdNum.trimPrefixImpl L args = .ok r) : r.WF nfc = true := by
  refine (Res.all_iff (P := fun r : Value => r.WF nfc = true)).mp ?_ r h
  unfold StdNum.trimPrefixImpl
  simp only [Res.all_bind]
  repeat (first | exact wf_stdStringVal _ hn _ | refine Res.all_of_forall _ fun _ => ?_)

/-- stdlib.TrimSuffixFunc Impl: `cty.StringVal(...)` of the library's answer. -/
theorem wf_trimSuffixImpl (L : StdNum.Lib) (hn : ∀ s, nfc (L.nfc s) = true) (args : List Value) (r : Value)
    (h : StdNum.trimSuffixImpl L args = .ok r) : r.WF nfc = true := by
  refine (Res.all_iff (P := fun r : Value => r.WF nfc = true)).mp ?_ r h
  unfold StdNum.trimSuffixImpl
  simp only [Res.all_bind]
  repeat (first | exact wf_stdStringVal _ hn _ | refine Res.all_of_forall _ fun _ => ?_)

/-- stdlib.ReplaceFunc Impl: `cty.StringVal(...)` of the library's answer. -/
theorem wf_replaceImpl (L : StdNum.Lib) (hn : ∀ s, nfc (L.nfc s) = true) (args : List Value) (r : Value)
    (h : StdNum.replaceImpl L args = .ok r) : r.WF nfc = true := by
  refine (Res.all_iff (P := fun r : Value => r.WF nfc = true)).mp ?_ r h
  unfold StdNum.replaceImpl
  simp only [Res.all_bind]
  repeat (first | exact wf_stdStringVal _ hn _ | refine Res.all_of_forall _ fun _ => ?_)

/-- stdlib.RegexReplaceFunc Impl: `cty.StringVal(re.ReplaceAllString(str, replace))`. -/
theorem wf_regexReplaceImpl (L : StdNum.Lib) (hn : ∀ s, nfc (L.nfc s) = true) (args : List Value) (r : Value)
    (h : StdNum.regexReplaceImpl L args = .ok r) : r.WF nfc = true := by
  refine (Res.all_iff (P := fun r : Value => r.WF nfc = true)).mp ?_ r h
  unfold StdNum.regexReplaceImpl
  simp only [Res.all_bind]
  refine Res.all_of_forall _ fun _ => Res.all_of_forall _ fun _ => Res.all_of_forall _ fun _ =>
    Res.all_of_forall _ fun _ => Res.all_of_forall _ fun _ => Res.all_of_forall _ fun _ => ?_
  split
  · trivial
  · exact wf_stdStringVal _ hn _

/-- stdlib.SplitFunc Impl: `cty.ListVal` of `cty.StringVal`s (or `cty.ListValEmpty(cty.String)`). -/
theorem wf_splitImpl (L : StdNum.Lib) (hn : ∀ s, nfc (L.nfc s) = true) (args : List Value) (r : Value)
    (h : StdNum.splitImpl L args = .ok r) : r.WF nfc = true := by
  refine (Res.all_iff (P := fun r : Value => r.WF nfc = true)).mp ?_ r h
  unfold StdNum.splitImpl
  simp only [Res.all_bind]
  refine Res.all_of_forall _ fun _ => Res.all_of_forall _ fun _ => Res.all_of_forall _ fun _ =>
    Res.all_of_forall _ fun _ => ?_
  have : ∀ l : List String, Payload.wfAll nfc .string (l.map fun s => .s (L.nfc s)) = true := by
    intro l; induction l <;> simp_all [Payload.wfAll, Payload.wfP]
  simp [Value.WF, Ty.ok_list, D06Std.ok_string, Payload.wfP, this]

/-- stdlib.JoinFunc Impl: `cty.StringVal(...)`. -/
theorem wf_joinImpl (L : StdNum.Lib) (hn : ∀ s, nfc (L.nfc s) = true) (args : List Value) (r : Value)
    (h : StdNum.joinImpl L args = .ok r) : r.WF nfc = true := by
  refine (Res.all_iff (P := fun r : Value => r.WF nfc = true)).mp ?_ r h
  unfold StdNum.joinImpl
  repeat (first
    | exact wf_stdStringVal _ hn _
    | trivial
    | (rw [Res.all_bind]; refine Res.all_of_forall _ fun _ => ?_)
    | split
    | (intro _)
    | (refine (id ?_ : Res.AllW _ (have x := _; _)); dsimp only))

/-- stdlib.FormatDateFunc Impl: `cty.StringVal(...)`. -/
theorem wf_formatDateImpl (L : StdNum.Lib) (hn : ∀ s, nfc (L.nfc s) = true) (args : List Value) (r : Value)
    (h : StdNum.formatDateImpl L args = .ok r) : r.WF nfc = true := by
  refine (Res.all_iff (P := fun r : Value => r.WF nfc = true)).mp ?_ r h
  unfold StdNum.formatDateImpl
  repeat (first
    | exact wf_stdStringVal _ hn _
    | trivial
    | (rw [Res.all_bind]; refine Res.all_of_forall _ fun _ => ?_)
    | split
    | (intro _)
    | (refine (id ?_ : Res.AllW _ (have x := _; _)); dsimp only))

/-- stdlib.TimeAddFunc Impl: `cty.StringVal(...)`. -/
theorem wf_timeAddImpl (L : StdNum.Lib) (hn : ∀ s, nfc (L.nfc s) = true) (args : List Value) (r : Value)
    (h : StdNum.timeAddImpl L args = .ok r) : r.WF nfc = true := by
  refine (Res.all_iff (P := fun r : Value => r.WF nfc = true)).mp ?_ r h
  unfold StdNum.timeAddImpl
  repeat (first
    | exact wf_stdStringVal _ hn _
    | trivial
    | (rw [Res.all_bind]; refine Res.all_of_forall _ fun _ => ?_)
    | split
    | (intro _)
    | (refine (id ?_ : Res.AllW _ (have x := _; _)); dsimp only))

/-- stdlib.FormatFunc Impl (format.go; the known-arguments fragment the model covers): `cty.StringVal(...)`. -/
theorem wf_formatImpl (L : StdNum.Lib) (hn : ∀ s, nfc (L.nfc s) = true) (args : List Value) (r : Value)
    (h : StdNum.formatImpl L args = .ok r) : r.WF nfc = true := by
  refine (Res.all_iff (P := fun r : Value => r.WF nfc = true)).mp ?_ r h
  unfold StdNum.formatImpl
  repeat (first
    | exact wf_stdStringVal _ hn _
    | trivial
    | (rw [Res.all_bind]; refine Res.all_of_forall _ fun _ => ?_)
    | split
    | (intro _)
    | (refine (id ?_ : Res.AllW _ (have x := _; _)); dsimp only))

/-! ## the hypotheses are jointly satisfiable: concrete non-trivial instances -/
namespace Examples
def exNfc : String → Bool := fun s => s != "bad"
def exE : Env := {}
/-- a list of two lists of strings -/
def exNested : Value := ⟨.list (.list .string), .seq [.seq [.s "a", .s "b"], .seq [.s "c"]]⟩
/-- a marked map of lists of strings -/
def exMap : Value := ⟨.map (.list .string), .marked ["m"] (.smap ["k", "l"] [.seq [.s "a"], .seq []])⟩
def exObj : Value := ⟨.object ["l", "z"] [.list .string, .bool] [false, false], .smap ["l", "z"] [.seq [.s "x"], .b true]⟩

/-- the default environment converts nothing, so it converts nothing badly -/
theorem exE_conv : ConvWF exNfc exE := fun _ _ _ _ _ h => by cases h

example : (∃ r, Stdlib.reverseImpl exE [exNested] (.list (.list .string)) = .ok r) ∧
    ∀ r, Stdlib.reverseImpl exE [exNested] (.list (.list .string)) = .ok r → r.WF exNfc = true :=
  ⟨⟨_, rfl⟩, fun r h => wf_reverseImpl exE _ _ r h (by decide) (by decide)⟩
example : (∃ r, keysImpl [exMap] (.list .string) = .ok r) ∧
    ∀ r, keysImpl [exMap] (.list .string) = .ok r → r.WF exNfc = true :=
  ⟨⟨_, rfl⟩, fun r h => wf_keysImpl _ _ r h (by decide) (by decide)⟩
example : (∃ r, keysImpl [exObj] (.tuple [.string, .string]) = .ok r) ∧
    ∀ r, keysImpl [exObj] (.tuple [.string, .string]) = .ok r → r.WF exNfc = true :=
  ⟨⟨_, rfl⟩, fun r h => wf_keysImpl _ _ r h (by decide) (by decide)⟩
example : (∃ r, valuesImpl exE [exMap] (.list (.list .string)) = .ok r) ∧
    ∀ r, valuesImpl exE [exMap] (.list (.list .string)) = .ok r → r.WF exNfc = true :=
  ⟨⟨_, rfl⟩, fun r h => wf_valuesImpl exE _ _ r h (by decide) (by decide)⟩
example : (∃ r, mergeImpl exE [exMap, exObj] .dyn = .ok r) ∧
    ∀ r, mergeImpl exE [exMap, exObj] .dyn = .ok r → r.WF exNfc = true :=
  ⟨⟨_, rfl⟩, fun r h => wf_mergeImpl exE _ _ r h (by decide) (by decide)⟩
example : (∃ r, concatImpl exE [exNested, exNested] (.list (.list .string)) = .ok r) ∧
    ∀ r, concatImpl exE [exNested, exNested] (.list (.list .string)) = .ok r → r.WF exNfc = true :=
  ⟨⟨_, rfl⟩, fun r h => wf_concatImpl exE exE_conv _ _ r h (by decide) (by decide)⟩
example : (∃ r, lookupImpl exE [exMap, strVal "k", listEmpty .string] (.list .string) = .ok r) ∧
    ∀ r, lookupImpl exE [exMap, strVal "k", listEmpty .string] (.list .string) = .ok r → r.WF exNfc = true :=
  ⟨⟨_, rfl⟩, fun r h => wf_lookupImpl exE exE_conv _ _ r h (by decide) (by decide)⟩
example : (∃ r, chunklistImpl exE [exNested, intVal 1] (.list (.list (.list .string))) = .ok r) ∧
    ∀ r, chunklistImpl exE [exNested, intVal 1] (.list (.list (.list .string))) = .ok r → r.WF exNfc = true :=
  ⟨⟨_, rfl⟩, fun r h => wf_chunklistImpl exE _ _ r h (by decide)⟩
example : (∃ r, sliceImpl exE [exNested, intVal 1, intVal 2] (.list (.list .string)) = .ok r) ∧
    ∀ r, sliceImpl exE [exNested, intVal 1, intVal 2] (.list (.list .string)) = .ok r → r.WF exNfc = true :=
  ⟨⟨_, rfl⟩, fun r h => wf_sliceImpl exE _ _ r h (by decide) (by decide)⟩
example : (∃ r, elementImpl [exNested, intVal 3] (.list .string) = .ok r) ∧
    ∀ r, elementImpl [exNested, intVal 3] (.list .string) = .ok r → r.WF exNfc = true :=
  ⟨⟨_, rfl⟩, fun r h => wf_elementImpl _ _ r h (by decide) (by decide)⟩
example : (∃ r, zipmapImpl exE [⟨.list .string, .seq [.s "b", .s "a"]⟩, exNested] (.map (.list .string)) = .ok r) ∧
    ∀ r, zipmapImpl exE [⟨.list .string, .seq [.s "b", .s "a"]⟩, exNested] (.map (.list .string)) = .ok r → r.WF exNfc = true :=
  ⟨⟨_, rfl⟩, fun r h => wf_zipmapImpl exE _ _ r h (by decide) (by decide)⟩
example : (∃ r, sortImpl exE [⟨.list .string, .seq [.s "b", .s "a"]⟩] (.list .string) = .ok r) ∧
    ∀ r, sortImpl exE [⟨.list .string, .seq [.s "b", .s "a"]⟩] (.list .string) = .ok r → r.WF exNfc = true :=
  ⟨⟨_, rfl⟩, fun r h => wf_sortImpl exE _ _ r h (by decide) (by decide)⟩
example : (∃ r, StdNum.moduloImpl [intVal 7, intVal 2] = .ok r) ∧
    ∀ r, StdNum.moduloImpl [intVal 7, intVal 2] = .ok r → r.WF exNfc = true :=
  ⟨⟨_, rfl⟩, fun r h => wf_moduloImpl _ r h (by decide)⟩
example : (∃ r, flattenImpl exE [exNested] (.tuple [.string, .string, .string]) = .ok r) ∧
    ∀ r, flattenImpl exE [exNested] (.tuple [.string, .string, .string]) = .ok r → r.WF exNfc = true :=
  ⟨⟨_, rfl⟩, fun r h => wf_flattenImpl exE _ _ r h (by decide) (by decide)⟩
end Examples

end D06StdThm
end CtyModel
