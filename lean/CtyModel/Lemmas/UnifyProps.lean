/-
The clauses of C09 about the returned slice, read off the shape theorem
(`unifyF_slots`) and, for applied conversions, C08's theorems about `getConv` / `apply`.
-/
import CtyModel.Lemmas.UnifySlots
import CtyModel.Lemmas.ConvertTotal
import CtyModel.Lemmas.ConvertSafe
namespace CtyModel
namespace Unify
open Convert Ty

theorem equals_dyn_false {ty : Ty} (h : ty.isDyn = false) : ty.equals .dyn = false := by
  cases ty <;> simp [Ty.isDyn, equals] at *

theorem structColl_not_equals {ty mid t : Ty} (h : structColl ty mid t = true) : ty.equals t = false := by
  cases ty <;> cases t <;> simp [structColl, isTupleTy, isListTy, isObjectTy, isMapTy, equals] at *

/-! ### nil exactly when equal -/

theorem slotRel_nilIffEqual {E : Env} {uns : Bool} {t ty : Ty} {c : Option UConv} (hw : ty.wf = true)
    (h : SlotRel E uns t ty c) : nilIffEqualAt ty t c.isNone = true := by
  unfold nilIffEqualAt
  cases hd : ty.isDyn with
  | true => rfl
  | false =>
    simp only [Bool.false_or, beq_iff_eq]
    cases h with
    | direct hs =>
      simp only [slotOf] at hs
      split at hs
      · rename_i he; simp at hs; subst hs; simp [he]
      · rename_i he
        obtain ⟨p, _, hp⟩ := Option.map_eq_some_iff.mp hs
        subst hp; simp [he]
    | self he => subst he; simp [equals_self hw]
    | allDyn ht => subst ht; simp [equals_dyn_false hd]
    | viaEq hs _ _ => simp [structColl_not_equals hs]
    | composed hs _ _ _ => simp [structColl_not_equals hs]

theorem nilIffEqual_of_get (t : Ty) : ∀ (types : List Ty) (bs : List Bool),
    (∀ (i : Nat) ty b, types[i]? = some ty → bs[i]? = some b → nilIffEqualAt ty t b = true) →
    nilIffEqual t types bs = true
  | [], _, _ => by simp [nilIffEqual]
  | _ :: _, [], _ => by simp [nilIffEqual]
  | ty :: tys, b :: bs, h => by
    simp only [nilIffEqual, Bool.and_eq_true]
    refine ⟨h 0 ty b rfl rfl, nilIffEqual_of_get t tys bs ?_⟩
    intro i ty' b' h1 h2
    exact h (i + 1) ty' b' (by simpa using h1) (by simpa using h2)

theorem slots_nilIffEqual {E : Env} {uns : Bool} {t : Ty} {types : List Ty} {cs : Convs}
    (hw : ∀ ty ∈ types, ty.wf = true) (h : SlotsRel E uns t types cs) :
    nilIffEqual t types (nilFlags cs) = true := by
  apply nilIffEqual_of_get
  intro i ty b hi hb
  obtain ⟨c, hc, hrel⟩ := h.2 i ty hi
  simp only [nilFlags, List.getElem?_map, hc, Option.map_some, Option.some.injEq] at hb
  subst hb
  exact slotRel_nilIffEqual (hw ty (List.mem_of_getElem? hi)) hrel

/-! ### safe unification hands out safe plans only -/

/-- a returned conversion built without consulting the unsafe conversion tables: every
plan in it is one `GetConversion` (safe mode) offers for some pair of types -/
inductive SafeBuilt (E : Env) : UConv → Prop
  | plan {a b : Ty} {p : Plan} : getConv E a b false = some p → SafeBuilt E (.plan p)
  | constDyn : SafeBuilt E .constDyn
  | andThen {f s : UConv} : SafeBuilt E f → SafeBuilt E s → SafeBuilt E (.andThen (some f) s)

theorem slotRel_safeBuilt {E : Env} {t ty : Ty} {c : UConv} (h : SlotRel E false t ty (some c)) : SafeBuilt E c := by
  cases h with
  | direct hs =>
    simp only [slotOf] at hs
    split at hs
    · simp at hs
    · obtain ⟨p, hp, hc⟩ := Option.map_eq_some_iff.mp hs
      simp only [Option.some.injEq] at hc
      subst hc
      exact .plan hp
  | allDyn _ => exact .constDyn
  | viaEq _ _ hp => exact .plan hp
  | composed _ _ hp hq => exact .andThen (.plan hp) (.plan hq)

/-! ### a slot filled the direct way, applied -/

theorem direct_plan {E : Env} {uns : Bool} {t ty : Ty} {c : UConv} (h : slotOf E uns t ty = some (some c)) :
    ty.equals t = false ∧ ∃ p, c = .plan p ∧ getConv E ty t uns = some p := by
  simp only [slotOf] at h
  split at h
  · simp at h
  · rename_i he
    obtain ⟨p, hp, hc⟩ := Option.map_eq_some_iff.mp h
    simp only [Option.some.injEq] at hc
    exact ⟨by simpa using he, p, hc.symm, hp⟩

/-- slots whose input type is not a tuple headed for a list / an object headed for a map
are never composed -/
theorem slotRel_plain_kind {E : Env} {uns : Bool} {t ty : Ty} {c : Option UConv}
    (hk : ((isTupleTy ty && isListTy t) || (isObjectTy ty && isMapTy t)) = false) (h : SlotRel E uns t ty c) :
    slotOf E uns t ty = some c ∨ (ty = t ∧ c = none) ∨ (t = .dyn ∧ c = some .constDyn) := by
  cases h with
  | direct hs => exact .inl hs
  | self he => exact .inr (.inl ⟨he, rfl⟩)
  | allDyn ht => exact .inr (.inr ⟨ht, rfl⟩)
  | viaEq hs _ _ =>
    exfalso
    cases ty <;> cases t <;> simp [structColl, isTupleTy, isListTy, isObjectTy, isMapTy] at hs hk
  | composed hs _ _ _ =>
    exfalso
    cases ty <;> cases t <;> simp [structColl, isTupleTy, isListTy, isObjectTy, isMapTy] at hs hk

/-! ### every form of slot, applied

Since /repo df9d7d3 the composed closure hands the OUTPUT of its first step to the second
(`applyU_andThen`), so a composed slot is two direct slots in a row — input type → `mid`
→ result — and what C08 proves of a direct slot carries over step by step.  C08 has no
theorem that the outcome of a conversion is again a well-formed value (`Value.wt`), nor
that it is wholly known when the input is; the theorems below assume it of the
intermediate value, explicitly. -/

/-- `out, err := tupleConv(in); if err != nil { return out, err }; return listConv(out)` -/
theorem applyU_andThen {E : Env} {fuel : Nat} {f s : UConv} {v out : Value} (h : applyU E fuel f v = .ok out) :
    applyU E fuel (.andThen (some f) s) v = applyU E fuel s out := by
  simp [applyU, h]

/-- … `if err != nil { return out, err }` (and a panic of the first step is the panic of the closure) -/
theorem applyU_andThen_stop {E : Env} {fuel : Nat} {f s : UConv} {v : Value}
    (h : ∀ out, applyU E fuel f v ≠ .ok out) : applyU E fuel (.andThen (some f) s) v = applyU E fuel f v := by
  cases hr : applyU E fuel f v with
  | ok out => exact absurd hr (h out)
  | err _ => simp [applyU, hr]
  | panic _ => simp [applyU, hr]
  | unmodelled => simp [applyU, hr]

theorem getConv_wrap {E : Env} {a b : Ty} {uns : Bool} {p : Plan} (h : getConv E a b uns = some p) :
    ∃ c, p = .wrap b c := by
  obtain ⟨c, _, rfl⟩ := Option.map_eq_some_iff.mp h
  exact ⟨c, rfl⟩

/-- a slot filled the direct way names its target -/
theorem direct_targets {E : Env} {uns : Bool} {t ty : Ty} {c : UConv} (h : slotOf E uns t ty = some (some c)) :
    stepTargets c = [t] := by
  obtain ⟨_, p, rfl, hg⟩ := direct_plan h
  obtain ⟨c1, rfl⟩ := getConv_wrap hg
  rfl

theorem structColl_not_equals_mid {ty mid t : Ty} (h : structColl ty mid t = true) : ty.equals mid = false := by
  cases ty <;> cases mid <;> simp [structColl, isTupleTy, isListTy, isObjectTy, isMapTy, equals] at *

/-- the forms of a non-nil slot, in terms of direct slots: filled the direct way; the
constant of unifyAllAsDynamic; or, for a tuple among lists / an object among maps, through
the list / map type `mid` the tuples / objects unify to on their own — the first step alone
where `mid` already is the result, else the closure composed of both steps -/
theorem slotRel_cases {E : Env} {uns : Bool} {t ty : Ty} {c : UConv} (h : SlotRel E uns t ty (some c)) :
    slotOf E uns t ty = some (some c) ∨ (t = .dyn ∧ c = .constDyn) ∨
    ∃ mid f, structColl ty mid t = true ∧ slotOf E uns mid ty = some (some f) ∧
      ((c = f ∧ (mid.equals t = true ∨ mid = t)) ∨
       ∃ s, c = .andThen (some f) s ∧ slotOf E uns t mid = some (some s)) := by
  cases h with
  | direct hs => exact .inl hs
  | allDyn ht => exact .inr (.inl ⟨ht, rfl⟩)
  | viaEq hs he hp =>
    rename_i mid p
    refine .inr (.inr ⟨mid, .plan p, hs, ?_, .inl ⟨rfl, he⟩⟩)
    simp [slotOf, structColl_not_equals_mid hs, hp]
  | composed hs he hp hq =>
    rename_i mid p q
    refine .inr (.inr ⟨mid, .plan p, hs, ?_, .inr ⟨.plan q, rfl, ?_⟩⟩)
    · simp [slotOf, structColl_not_equals_mid hs, hp]
    · simp [slotOf, he, hq]

theorem plainTy_parts {t : Ty} (h : plainTy t = true) : t.wf = true ∧ t.hasOpt = false ∧ t.hasDyn = false := by
  simp only [plainTy, Bool.and_eq_true, Bool.not_eq_true'] at h
  exact ⟨h.1.1, h.1.2, h.2⟩

theorem yieldsUnified_of_ty {t : Ty} {r : Value} (ht : plainTy t = true) (h : r.ty = t) : yieldsUnified t r = true := by
  obtain ⟨hw, ho, hd⟩ := plainTy_parts ht
  have hc := conform_stripOpt t hw hd
  rw [stripOpt_id_of_noOpt t ho] at hc
  simp [yieldsUnified, conformsTo, noOptional, h, hc, ho]

/-- a direct slot applied: the outcome has the target type (C08's `apply_ty`) -/
theorem direct_ty {E : Env} (hU : UnifyLaws E) {fuel : Nat} {uns : Bool} {t : Ty} {c : UConv} {v r : Value}
    (ht : plainTy t = true) (hd : slotOf E uns t v.ty = some (some c)) (hv : Value.wt v = true)
    (ha : applyU E fuel c v = .ok r) : r.ty = t := by
  obtain ⟨hw, ho, hdn⟩ := plainTy_parts ht
  obtain ⟨_, p, rfl, hg⟩ := direct_plan hd
  rw [apply_ty hU ⟨hv, hw, hdn⟩ hg ha, stripOpt_id_of_noOpt t ho]

/-- a direct slot applied to a value without unknown parts: no panic, and an error only in
unsafe mode (C08's `apply_NB`) -/
theorem direct_NB {E : Env} (hU : UnifyLaws E) (hS : SetLaws E) {fuel : Nat} {uns : Bool} {t : Ty} {c : UConv}
    {v : Value} (ht : plainTy t = true) (hd : slotOf E uns t v.ty = some (some c)) (hv : Value.wt v = true)
    (hk : Payload.whollyKnown v.v = true) : NB uns (applyU E fuel c v) := by
  obtain ⟨hw, _, hdn⟩ := plainTy_parts ht
  obtain ⟨_, p, rfl, hg⟩ := direct_plan hd
  exact apply_NB hU hS fuel ⟨hv, hw, hdn⟩ hk hg

/-- the composed closure: type of the outcome -/
theorem andThen_ty {E : Env} (hU : UnifyLaws E) {fuel : Nat} {uns : Bool} {t mid : Ty} {f s : UConv} {v r : Value}
    (ht : plainTy t = true) (hm : plainTy mid = true) (hf : slotOf E uns mid v.ty = some (some f))
    (hs : slotOf E uns t mid = some (some s)) (hv : Value.wt v = true)
    (hout : ∀ out, applyU E fuel f v = .ok out → Value.wt out = true)
    (ha : applyU E fuel (.andThen (some f) s) v = .ok r) : r.ty = t := by
  cases h1 : applyU E fuel f v with
  | ok out =>
    have hty := direct_ty hU hm hf hv h1
    rw [applyU_andThen h1] at ha
    exact direct_ty hU ht (by rw [hty]; exact hs) (hout out h1) ha
  | err e => rw [applyU_andThen_stop (by simp [h1]), h1] at ha; simp at ha
  | panic w => rw [applyU_andThen_stop (by simp [h1]), h1] at ha; simp at ha
  | unmodelled => rw [applyU_andThen_stop (by simp [h1]), h1] at ha; simp at ha

/-- the composed closure on a value without unknown parts -/
theorem andThen_NB {E : Env} (hU : UnifyLaws E) (hS : SetLaws E) {fuel : Nat} {uns : Bool} {t mid : Ty}
    {f s : UConv} {v : Value} (ht : plainTy t = true) (hm : plainTy mid = true)
    (hf : slotOf E uns mid v.ty = some (some f)) (hs : slotOf E uns t mid = some (some s))
    (hv : Value.wt v = true) (hk : Payload.whollyKnown v.v = true)
    (hout : ∀ out, applyU E fuel f v = .ok out → Value.wt out = true ∧ Payload.whollyKnown out.v = true) :
    NB uns (applyU E fuel (.andThen (some f) s) v) := by
  have h1nb := direct_NB hU hS (fuel := fuel) hm hf hv hk
  cases h1 : applyU E fuel f v with
  | ok out =>
    have hty := direct_ty hU hm hf hv h1
    rw [applyU_andThen h1]
    exact direct_NB hU hS ht (by rw [hty]; exact hs) (hout out h1).1 (hout out h1).2
  | err e => rw [applyU_andThen_stop (by simp [h1])]; exact h1nb
  | panic w => rw [applyU_andThen_stop (by simp [h1])]; exact h1nb
  | unmodelled => rw [applyU_andThen_stop (by simp [h1])]; exact h1nb

/-- a first step alone whose target `mid` `Equals` the result is the direct slot -/
theorem viaEq_direct {E : Env} {uns : Bool} {t ty mid : Ty} {f : UConv} (ht : plainTy t = true)
    (hm : plainTy mid = true) (he : mid.equals t = true ∨ mid = t) (hf : slotOf E uns mid ty = some (some f)) :
    slotOf E uns t ty = some (some f) := by
  have : mid = t := by
    rcases he with he | he
    · exact eq_of_equals (plainTy_parts hm).1 (plainTy_parts ht).1 he
    · exact he
  subst this; exact hf

/-- ANY non-nil slot applied: the outcome has the unified type — for a placeholder-free
result type, step targets that are placeholder-free too, and (composed closure only) a
well-formed intermediate value -/
theorem slot_applied_ty {E : Env} (hU : UnifyLaws E) {fuel : Nat} {uns : Bool} {t : Ty} {c : UConv} {v r : Value}
    (ht : plainTy t = true) (hrel : SlotRel E uns t v.ty (some c)) (hv : Value.wt v = true)
    (hT : ∀ m ∈ stepTargets c, plainTy m = true)
    (hout : ∀ f s out, c = .andThen (some f) s → applyU E fuel f v = .ok out → Value.wt out = true)
    (ha : applyU E fuel c v = .ok r) : r.ty = t := by
  rcases slotRel_cases hrel with hd | ⟨hdyn, _⟩ | ⟨mid, f, _, hf, hrest⟩
  · exact direct_ty hU ht hd hv ha
  · subst hdyn; simp [plainTy, hasDyn] at ht
  · have hfm : plainTy mid = true := by
      have := direct_targets hf
      rcases hrest with ⟨rfl, _⟩ | ⟨s, rfl, _⟩
      · exact hT mid (by simp [this])
      · exact hT mid (by simp [stepTargets, this])
    rcases hrest with ⟨rfl, he⟩ | ⟨s, rfl, hs⟩
    · exact direct_ty hU ht (viaEq_direct ht hfm he hf) hv ha
    · exact andThen_ty hU ht hfm hf hs hv (fun out h1 => hout f s out rfl h1) ha

/-- ANY non-nil slot applied to a value without unknown parts: no panic, and an error only
in unsafe mode — same side conditions, the intermediate value wholly known too -/
theorem slot_applied_NB {E : Env} (hU : UnifyLaws E) (hS : SetLaws E) {fuel : Nat} {uns : Bool} {t : Ty}
    {c : UConv} {v : Value} (ht : plainTy t = true) (hrel : SlotRel E uns t v.ty (some c))
    (hv : Value.wt v = true) (hk : Payload.whollyKnown v.v = true)
    (hT : ∀ m ∈ stepTargets c, plainTy m = true)
    (hout : ∀ f s out, c = .andThen (some f) s → applyU E fuel f v = .ok out →
      Value.wt out = true ∧ Payload.whollyKnown out.v = true) : NB uns (applyU E fuel c v) := by
  rcases slotRel_cases hrel with hd | ⟨hdyn, _⟩ | ⟨mid, f, _, hf, hrest⟩
  · exact direct_NB hU hS ht hd hv hk
  · subst hdyn; simp [plainTy, hasDyn] at ht
  · have hfm : plainTy mid = true := by
      have := direct_targets hf
      rcases hrest with ⟨rfl, _⟩ | ⟨s, rfl, _⟩
      · exact hT mid (by simp [this])
      · exact hT mid (by simp [stepTargets, this])
    rcases hrest with ⟨rfl, he⟩ | ⟨s, rfl, hs⟩
    · exact direct_NB hU hS ht (viaEq_direct ht hfm he hf) hv hk
    · exact andThen_NB hU hS ht hfm hf hs hv hk (fun out h1 => hout f s out rfl h1)

end Unify
end CtyModel
