/-
The clauses of C09 about the returned slice, read off the shape theorem
(`unifyF_slots`) and, for applied conversions, C08's theorems about `getConv` / `apply`.
-/
import CtyModel.Lemmas.UnifySlots
import CtyModel.Lemmas.ConvertTotal
import CtyModel.Lemmas.ConvertSafe
namespace CtyModel
namespace Unify
open Convert Ty

theorem equals_dyn_false {ty : Ty} (h : ty.isDyn = false) : ty.equals .dyn = false := by
  cases ty <;> simp [Ty.isDyn, equals] at *

theorem structColl_not_equals {ty mid t : Ty} (h : structColl ty mid t = true) : ty.equals t = false := by
  cases ty <;> cases t <;> simp [structColl, isTupleTy, isListTy, isObjectTy, isMapTy, equals] at *

/-! ### nil exactly when equal -/

theorem slotRel_nilIffEqual {E : Env} {uns : Bool} {t ty : Ty} {c : Option UConv} (hw : ty.wf = true)
    (h : SlotRel E uns t ty c) : nilIffEqualAt ty t c.isNone = true := by
  unfold nilIffEqualAt
  cases hd : ty.isDyn with
  | true => rfl
  | false =>
    simp only [Bool.false_or, beq_iff_eq]
    cases h with
    | direct hs =>
      simp only [slotOf] at hs
      split at hs
      · rename_i he; simp at hs; subst hs; simp [he]
      · rename_i he
        obtain ⟨p, _, hp⟩ := Option.map_eq_some_iff.mp hs
        subst hp; simp [he]
    | self he => subst he; simp [equals_self hw]
    | allDyn ht => subst ht; simp [equals_dyn_false hd]
    | viaEq hs _ _ => simp [structColl_not_equals hs]
    | composed hs _ _ _ => simp [structColl_not_equals hs]

theorem nilIffEqual_of_get (t : Ty) : ∀ (types : List Ty) (bs : List Bool),
    (∀ (i : Nat) ty b, types[i]? = some ty → bs[i]? = some b → nilIffEqualAt ty t b = true) →
    nilIffEqual t types bs = true
  | [], _, _ => by simp [nilIffEqual]
  | _ :: _, [], _ => by simp [nilIffEqual]
  | ty :: tys, b :: bs, h => by
    simp only [nilIffEqual, Bool.and_eq_true]
    refine ⟨h 0 ty b rfl rfl, nilIffEqual_of_get t tys bs ?_⟩
    intro i ty' b' h1 h2
    exact h (i + 1) ty' b' (by simpa using h1) (by simpa using h2)

theorem slots_nilIffEqual {E : Env} {uns : Bool} {t : Ty} {types : List Ty} {cs : Convs}
    (hw : ∀ ty ∈ types, ty.wf = true) (h : SlotsRel E uns t types cs) :
    nilIffEqual t types (nilFlags cs) = true := by
  apply nilIffEqual_of_get
  intro i ty b hi hb
  obtain ⟨c, hc, hrel⟩ := h.2 i ty hi
  simp only [nilFlags, List.getElem?_map, hc, Option.map_some, Option.some.injEq] at hb
  subst hb
  exact slotRel_nilIffEqual (hw ty (List.mem_of_getElem? hi)) hrel

/-! ### safe unification hands out safe plans only -/

/-- a returned conversion built without consulting the unsafe conversion tables: every
plan in it is one `GetConversion` (safe mode) offers for some pair of types -/
inductive SafeBuilt (E : Env) : UConv → Prop
  | plan {a b : Ty} {p : Plan} : getConv E a b false = some p → SafeBuilt E (.plan p)
  | constDyn : SafeBuilt E .constDyn
  | thenOrig {f s : UConv} : SafeBuilt E f → SafeBuilt E s → SafeBuilt E (.thenOrig (some f) s)

theorem slotRel_safeBuilt {E : Env} {t ty : Ty} {c : UConv} (h : SlotRel E false t ty (some c)) : SafeBuilt E c := by
  cases h with
  | direct hs =>
    simp only [slotOf] at hs
    split at hs
    · simp at hs
    · obtain ⟨p, hp, hc⟩ := Option.map_eq_some_iff.mp hs
      simp only [Option.some.injEq] at hc
      subst hc
      exact .plan hp
  | allDyn _ => exact .constDyn
  | viaEq _ _ hp => exact .plan hp
  | composed _ _ hp hq => exact .thenOrig (.plan hp) (.plan hq)

/-! ### a slot filled the direct way, applied -/

theorem direct_plan {E : Env} {uns : Bool} {t ty : Ty} {c : UConv} (h : slotOf E uns t ty = some (some c)) :
    ty.equals t = false ∧ ∃ p, c = .plan p ∧ getConv E ty t uns = some p := by
  simp only [slotOf] at h
  split at h
  · simp at h
  · rename_i he
    obtain ⟨p, hp, hc⟩ := Option.map_eq_some_iff.mp h
    simp only [Option.some.injEq] at hc
    exact ⟨by simpa using he, p, hc.symm, hp⟩

/-- slots whose input type is not a tuple headed for a list / an object headed for a map
are never composed -/
theorem slotRel_plain_kind {E : Env} {uns : Bool} {t ty : Ty} {c : Option UConv}
    (hk : ((isTupleTy ty && isListTy t) || (isObjectTy ty && isMapTy t)) = false) (h : SlotRel E uns t ty c) :
    slotOf E uns t ty = some c ∨ (ty = t ∧ c = none) ∨ (t = .dyn ∧ c = some .constDyn) := by
  cases h with
  | direct hs => exact .inl hs
  | self he => exact .inr (.inl ⟨he, rfl⟩)
  | allDyn ht => exact .inr (.inr ⟨ht, rfl⟩)
  | viaEq hs _ _ =>
    exfalso
    cases ty <;> cases t <;> simp [structColl, isTupleTy, isListTy, isObjectTy, isMapTy] at hs hk
  | composed hs _ _ _ =>
    exfalso
    cases ty <;> cases t <;> simp [structColl, isTupleTy, isListTy, isObjectTy, isMapTy] at hs hk

end Unify
end CtyModel
