/-
C01 for Multiply on refined unknown numbers: cty multiplies at 512 bits and keeps
every bit the product needs (`MinPrec`), so corner products are exact up to 512
bits; the product over a box of finite bounds lies between the smallest and the
largest of the four corner products.
-/
import CtyModel.Lemmas.OpsAddSub
namespace CtyModel
open Value Cov NumCmp
namespace Num

/-- the exact product fits the 512 bits cty multiplies at, so `Multiply` does not round -/
def mulFits (a b : Num) : Bool :=
  match a, b with
  | .fin _ ma _ _, .fin _ mb _ _ => decide (bitlen (ma * mb) ≤ 512)
  | _, _ => true

def isFin : Num → Bool
  | .fin _ _ _ _ => true
  | .inf _ => false

theorem sgnm_mul (na nb : Bool) (ma mb : Nat) : sgnm (na != nb) (ma * mb) = sgnm na ma * sgnm nb mb := by
  cases na <;> cases nb <;> simp [sgnm, Int.neg_mul, Int.mul_neg]

/-- exact multiplication: the value of the product is the product of the values -/
theorem mul_exact {na nb : Bool} {ma mb : Nat} {ea eb : Int} {pa pb : Nat} {c : Num}
    (hfit : mulFits (.fin na ma ea pa) (.fin nb mb eb pb) = true)
    (h : Num.mulCty (.fin na ma ea pa) (.fin nb mb eb pb) = .ok c) :
    ∃ nc mc ec pc, c = .fin nc mc ec pc ∧ ∀ E, E ≤ ea + eb → E ≤ ec →
      scaleTo (sgnm nc mc) ec E = sgnm na ma * sgnm nb mb * 2 ^ (ea + eb - E).toNat := by
  simp only [mulFits, decide_eq_true_eq] at hfit
  have hr : roundME (ma * mb) (ea + eb) 512 = (ma * mb, ea + eb) := by
    simp only [roundME, hfit, if_true]; simp
  simp only [mulCty, round, hr, mk, Res.ok.injEq] at h
  subst h
  refine ⟨_, _, _, _, rfl, fun E h1 h2 => ?_⟩
  by_cases hm : ma * mb = 0
  · have : (norm (ma * mb) (ea + eb)).1 = 0 := by
      rw [hm]; unfold norm; rcases normFuel_zero (bitlen 0 + 1) (ea + eb) with h | h <;> simp [h]
    rw [this, sgnm_zero, scaleTo_zero, ← sgnm_mul, hm, sgnm_zero]; simp
  · obtain ⟨hv1, hv2⟩ := norm_val (ma * mb) (ea + eb) hm
    simp only [scaleTo]
    have h4 : ((norm (ma * mb) (ea + eb)).1 : Int) * 2 ^ ((norm (ma * mb) (ea + eb)).2 - (ea + eb)).toNat = ((ma * mb : Nat) : Int) := by
      exact_mod_cast hv2
    have hsplit : ((norm (ma * mb) (ea + eb)).2 - E).toNat =
        ((norm (ma * mb) (ea + eb)).2 - (ea + eb)).toNat + (ea + eb - E).toNat := by omega
    rw [hsplit, Int.pow_add, ← Int.mul_assoc, ← sgnm_mul]
    congr 1
    unfold sgnm
    cases (na != nb)
    · simp only [Bool.false_eq_true, if_false]; exact h4
    · simp only [if_true, Int.neg_mul, h4]


/-- the product over a box is at least one of the four corner products … -/
theorem box_mul_lower {A1 X B1 A2 Y B2 : Int} (a1 : A1 ≤ X) (b1 : X ≤ B1) (a2 : A2 ≤ Y) (b2 : Y ≤ B2) :
    A1 * A2 ≤ X * Y ∨ A1 * B2 ≤ X * Y ∨ B1 * A2 ≤ X * Y ∨ B1 * B2 ≤ X * Y := by
  by_cases hy : 0 ≤ Y
  · have h1 : A1 * Y ≤ X * Y := Int.mul_le_mul_of_nonneg_right a1 hy
    by_cases ha : 0 ≤ A1
    · exact Or.inl (Int.le_trans (Int.mul_le_mul_of_nonneg_left a2 ha) h1)
    · exact Or.inr (Or.inl (Int.le_trans (Int.mul_le_mul_of_nonpos_left (by omega) b2) h1))
  · have h1 : B1 * Y ≤ X * Y := Int.mul_le_mul_of_nonpos_right b1 (by omega)
    by_cases hb : 0 ≤ B1
    · exact Or.inr (Or.inr (Or.inl (Int.le_trans (Int.mul_le_mul_of_nonneg_left a2 hb) h1)))
    · exact Or.inr (Or.inr (Or.inr (Int.le_trans (Int.mul_le_mul_of_nonpos_left (by omega) b2) h1)))

/-- … and at most one of them -/
theorem box_mul_upper {A1 X B1 A2 Y B2 : Int} (a1 : A1 ≤ X) (b1 : X ≤ B1) (a2 : A2 ≤ Y) (b2 : Y ≤ B2) :
    X * Y ≤ A1 * A2 ∨ X * Y ≤ A1 * B2 ∨ X * Y ≤ B1 * A2 ∨ X * Y ≤ B1 * B2 := by
  by_cases hy : 0 ≤ Y
  · have h1 : X * Y ≤ B1 * Y := Int.mul_le_mul_of_nonneg_right b1 hy
    by_cases hb : 0 ≤ B1
    · exact Or.inr (Or.inr (Or.inr (Int.le_trans h1 (Int.mul_le_mul_of_nonneg_left b2 hb))))
    · exact Or.inr (Or.inr (Or.inl (Int.le_trans h1 (Int.mul_le_mul_of_nonpos_left (by omega) a2))))
  · have h1 : X * Y ≤ A1 * Y := Int.mul_le_mul_of_nonpos_right a1 (by omega)
    by_cases ha : 0 ≤ A1
    · exact Or.inr (Or.inl (Int.le_trans h1 (Int.mul_le_mul_of_nonneg_left b2 ha)))
    · exact Or.inl (Int.le_trans h1 (Int.mul_le_mul_of_nonpos_left (by omega) a2))


theorem scaled_prod {s1 s2 : Int} {e1 e2 E1 E2 E : Int} (h1 : E1 ≤ e1) (h2 : E2 ≤ e2) (hE : E ≤ E1 + E2) :
    s1 * s2 * 2 ^ (e1 + e2 - E).toNat = scaleTo s1 e1 E1 * scaleTo s2 e2 E2 * 2 ^ (E1 + E2 - E).toNat := by
  simp only [scaleTo]
  have : (e1 + e2 - E).toNat = (e1 - E1).toNat + (e2 - E2).toNat + (E1 + E2 - E).toNat := by omega
  rw [this, Int.pow_add, Int.pow_add]
  simp only [Int.mul_assoc, Int.mul_left_comm, Int.mul_comm]

/-- comparison of two exact products through their factors scaled to common exponents -/
theorem mul_cmp_le {u1 u2 x y c z : Num} {E1 E2 : Int}
    (hu1 : isFin u1 = true) (hu2 : isFin u2 = true) (hx : isFin x = true) (hy : isFin y = true)
    (b1 : E1 ≤ expOf u1) (b2 : E2 ≤ expOf u2) (b3 : E1 ≤ expOf x) (b4 : E2 ≤ expOf y)
    (hc : mulCty u1 u2 = .ok c) (hz : mulCty x y = .ok z)
    (fc : mulFits u1 u2 = true) (fz : mulFits x y = true) :
    ((key E1 u1).2 * (key E2 u2).2 ≤ (key E1 x).2 * (key E2 y).2 → cmp c z ≤ 0) ∧
    ((key E1 x).2 * (key E2 y).2 ≤ (key E1 u1).2 * (key E2 u2).2 → cmp z c ≤ 0) := by
  cases u1 with
  | inf _ => simp [isFin] at hu1
  | fin n1 m1 e1 p1 =>
  cases u2 with
  | inf _ => simp [isFin] at hu2
  | fin n2 m2 e2 p2 =>
  cases x with
  | inf _ => simp [isFin] at hx
  | fin nx mx ex px =>
  cases y with
  | inf _ => simp [isFin] at hy
  | fin ny my ey py =>
  simp only [expOf] at b1 b2 b3 b4
  obtain ⟨nc, mc, ec, pc, rfl, hcv⟩ := mul_exact fc hc
  obtain ⟨nz, mz, ez, pz, rfl, hzv⟩ := mul_exact fz hz
  simp only [key]
  let E := min (E1 + E2) (min ec ez)
  have hK : (0 : Int) < 2 ^ (E1 + E2 - E).toNat := two_pow_pos _
  have ec' := hcv E (by omega) (by omega)
  have ez' := hzv E (by omega) (by omega)
  rw [scaled_prod b1 b2 (by omega)] at ec'
  rw [scaled_prod b3 b4 (by omega)] at ez'
  constructor
  · intro hle
    rw [cmp_fin_le E (by omega) (by omega), ec', ez']
    exact Int.mul_le_mul_of_nonneg_right hle (Int.le_of_lt hK)
  · intro hle
    rw [cmp_fin_le E (by omega) (by omega), ec', ez']
    exact Int.mul_le_mul_of_nonneg_right hle (Int.le_of_lt hK)

/-- order of two finite numbers at an exponent below both -/
theorem cmp_le_key {a b : Num} {E : Int} (ha : isFin a = true) (hb : isFin b = true)
    (h1 : E ≤ expOf a) (h2 : E ≤ expOf b) : cmp a b ≤ 0 ↔ (key E a).2 ≤ (key E b).2 := by
  cases a with
  | inf _ => simp [isFin] at ha
  | fin na ma ea pa =>
  cases b with
  | inf _ => simp [isFin] at hb
  | fin nb mb eb pb =>
  simp only [expOf] at h1 h2
  simp only [key]
  exact cmp_fin_le E h1 h2

end Num

/-- Multiply: over finite bounds, with exact corner products, the smallest corner is
below the concrete product and the largest above it -/
theorem mul_range_cover {l1 h1 l2 h2 x y z : Num} (b1 : Num.cmp l1 x ≤ 0) (c1 : Num.cmp x h1 ≤ 0)
    (b2 : Num.cmp l2 y ≤ 0) (c2 : Num.cmp y h2 ≤ 0) (hz : Num.mulCty x y = .ok z)
    (fl1 : Num.isFin l1 = true) (fh1 : Num.isFin h1 = true) (fl2 : Num.isFin l2 = true) (fh2 : Num.isFin h2 = true)
    (fx : Num.isFin x = true) (fy : Num.isFin y = true)
    (f11 : Num.mulFits l1 l2 = true) (f12 : Num.mulFits l1 h2 = true) (f21 : Num.mulFits h1 l2 = true)
    (f22 : Num.mulFits h1 h2 = true) (fz : Num.mulFits x y = true)
    (hcoh : ∀ m M, newMinOf Num.mulCty l1 h1 l2 h2 = some m → newMaxOf Num.mulCty l1 h1 l2 h2 = some M →
      Num.rawEqual m M = true → Num.cmp m M = 0) :
    Covers (numRangeResult (loOf (newMinOf Num.mulCty l1 h1 l2 h2)) (hiOf (newMaxOf Num.mulCty l1 h1 l2 h2))) (numVal z) = true := by
  let E1 := min (min (expOf l1) (expOf h1)) (expOf x)
  let E2 := min (min (expOf l2) (expOf h2)) (expOf y)
  have a1 := (Num.cmp_le_key (E := E1) fl1 fx (by omega) (by omega)).mp b1
  have a2 := (Num.cmp_le_key (E := E1) fx fh1 (by omega) (by omega)).mp c1
  have a3 := (Num.cmp_le_key (E := E2) fl2 fy (by omega) (by omega)).mp b2
  have a4 := (Num.cmp_le_key (E := E2) fy fh2 (by omega) (by omega)).mp c2
  -- every corner is a product that compares with z through its factors
  have corner : ∀ (u1 u2 : Num), Num.isFin u1 = true → Num.isFin u2 = true → E1 ≤ expOf u1 → E2 ≤ expOf u2 →
      Num.mulFits u1 u2 = true → ∀ c, cornerOf Num.mulCty u1 u2 = some c →
      ((key E1 u1).2 * (key E2 u2).2 ≤ (key E1 x).2 * (key E2 y).2 → Num.cmp c z ≤ 0) ∧
      ((key E1 x).2 * (key E2 y).2 ≤ (key E1 u1).2 * (key E2 u2).2 → Num.cmp z c ≤ 0) := by
    intro u1 u2 g1 g2 e1 e2 ff c hc
    exact Num.mul_cmp_le g1 g2 fx fy e1 e2 (by omega) (by omega) (cornerOf_some hc) hz ff fz
  refine covers_rangeResult ?_ ?_ hcoh
  · intro m hm
    have hall := mostOf_some_all hm
    have hmin := mostOf_min hm
    have get : ∀ u1 u2, cornerOf Num.mulCty u1 u2 ∈ cornersOf Num.mulCty l1 h1 l2 h2 →
        ∃ c, cornerOf Num.mulCty u1 u2 = some c ∧ Num.cmp m c ≤ 0 := by
      intro u1 u2 hmem
      cases hc : cornerOf Num.mulCty u1 u2 with
      | none => exact absurd hc (hall _ hmem)
      | some c => exact ⟨c, rfl, hmin c (by rw [← hc]; exact hmem)⟩
    rcases Num.box_mul_lower a1 a2 a3 a4 with h | h | h | h
    · obtain ⟨c, hc, hmc⟩ := get l1 l2 (by simp [cornersOf])
      exact cmp_le_trans hmc ((corner l1 l2 fl1 fl2 (by omega) (by omega) f11 c hc).1 h)
    · obtain ⟨c, hc, hmc⟩ := get l1 h2 (by simp [cornersOf])
      exact cmp_le_trans hmc ((corner l1 h2 fl1 fh2 (by omega) (by omega) f12 c hc).1 h)
    · obtain ⟨c, hc, hmc⟩ := get h1 l2 (by simp [cornersOf])
      exact cmp_le_trans hmc ((corner h1 l2 fh1 fl2 (by omega) (by omega) f21 c hc).1 h)
    · obtain ⟨c, hc, hmc⟩ := get h1 h2 (by simp [cornersOf])
      exact cmp_le_trans hmc ((corner h1 h2 fh1 fh2 (by omega) (by omega) f22 c hc).1 h)
  · intro M hM
    have hall := mostOf_some_all hM
    have hmax := mostOf_max hM
    have get : ∀ u1 u2, cornerOf Num.mulCty u1 u2 ∈ cornersOf Num.mulCty l1 h1 l2 h2 →
        ∃ c, cornerOf Num.mulCty u1 u2 = some c ∧ Num.cmp c M ≤ 0 := by
      intro u1 u2 hmem
      cases hc : cornerOf Num.mulCty u1 u2 with
      | none => exact absurd hc (hall _ hmem)
      | some c => exact ⟨c, rfl, hmax c (by rw [← hc]; exact hmem)⟩
    rcases Num.box_mul_upper a1 a2 a3 a4 with h | h | h | h
    · obtain ⟨c, hc, hcM⟩ := get l1 l2 (by simp [cornersOf])
      exact cmp_le_trans ((corner l1 l2 fl1 fl2 (by omega) (by omega) f11 c hc).2 h) hcM
    · obtain ⟨c, hc, hcM⟩ := get l1 h2 (by simp [cornersOf])
      exact cmp_le_trans ((corner l1 h2 fl1 fh2 (by omega) (by omega) f12 c hc).2 h) hcM
    · obtain ⟨c, hc, hcM⟩ := get h1 l2 (by simp [cornersOf])
      exact cmp_le_trans ((corner h1 l2 fh1 fl2 (by omega) (by omega) f21 c hc).2 h) hcM
    · obtain ⟨c, hc, hcM⟩ := get h1 h2 (by simp [cornersOf])
      exact cmp_le_trans ((corner h1 h2 fh1 fh2 (by omega) (by omega) f22 c hc).2 h) hcM

/-- the side condition of `sound_mul_partial`: the numeric ranges of the weakened
operands are bounded on both sides (finite bounds), none of the four corner
products nor `x·y` exceeds the 512 bits cty multiplies at, and a result range cty
collapses to a known number is a single value -/
def CornerExactMul (w₁ w₂ o₁ o₂ : Value) : Bool :=
  match asNum o₁, asNum o₂, numBounds w₁, numBounds w₂ with
  | .ok x, .ok y, some (l1, h1), some (l2, h2) =>
    Num.isFin l1 && Num.isFin h1 && Num.isFin l2 && Num.isFin h2 && Num.isFin x && Num.isFin y &&
    Num.mulFits l1 l2 && Num.mulFits l1 h2 && Num.mulFits h1 l2 && Num.mulFits h1 h2 && Num.mulFits x y &&
      cohOK (newMinOf Num.mulCty l1 h1 l2 h2) (newMaxOf Num.mulCty l1 h1 l2 h2)
  | _, _, _, _ => true

theorem mulU_sound_partial (o₁ o₂ w₁ w₂ r : Value) (hk₁ : o₁.whollyKnown = true) (hk₂ : o₂.whollyKnown = true)
    (hmo₁ : o₁.isMarked = false) (hmo₂ : o₂.isMarked = false) (hmw₁ : w₁.isMarked = false) (hmw₂ : w₂.isMarked = false)
    (hc₁ : CoversX w₁ o₁ = true) (hc₂ : CoversX w₂ o₂ = true) (hside : CornerExactMul w₁ w₂ o₁ o₂ = true)
    (ho : mulU o₁ o₂ = .ok r) : ∃ r', mulU w₁ w₂ = .ok r' ∧ Covers r' r = true :=
  arithU_sound_partial Num.mulCty mulU CornerExactMul (fun _ _ => rfl)
    (by
      intro w₁ w₂ o₁ o₂ x y z l1 h1 l2 h2 hs hx hy nb1 nb2 b1 c1 b2 c2 hz
      simp only [CornerExactMul, hx, hy, nb1, nb2, Bool.and_eq_true] at hs
      obtain ⟨⟨⟨⟨⟨⟨⟨⟨⟨⟨⟨g1, g2⟩, g3⟩, g4⟩, g5⟩, g6⟩, m1⟩, m2⟩, m3⟩, m4⟩, m5⟩, hco⟩ := hs
      exact mul_range_cover b1 c1 b2 c2 hz g1 g2 g3 g4 g5 g6 m1 m2 m3 m4 m5 (cohOK_spec hco))
    o₁ o₂ w₁ w₂ r hk₁ hk₂ hmo₁ hmo₂ hmw₁ hmw₂ hc₁ hc₂ hside ho
end CtyModel
