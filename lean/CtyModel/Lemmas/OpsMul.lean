/-
C01 for Multiply on refined unknown numbers: cty multiplies at 512 bits and keeps
every bit the product needs (`MinPrec`), so corner products are exact up to 512
bits; the product over a box of finite bounds lies between the smallest and the
largest of the four corner products.
-/
import CtyModel.Lemmas.OpsAddSub
namespace CtyModel
open Value Cov NumCmp
namespace Num

/-- the exact product fits the 512 bits cty multiplies at, so `Multiply` does not round -/
def mulFits (a b : Num) : Bool :=
  match a, b with
  | .fin _ ma _ _, .fin _ mb _ _ => decide (bitlen (ma * mb) ≤ 512)
  | _, _ => true

def isFin : Num → Bool
  | .fin _ _ _ _ => true
  | .inf _ => false

theorem sgnm_mul (na nb : Bool) (ma mb : Nat) : sgnm (na != nb) (ma * mb) = sgnm na ma * sgnm nb mb := by
  cases na <;> cases nb <;> simp [sgnm, Int.neg_mul, Int.mul_neg]

/-- exact multiplication: the value of the product is the product of the values -/
theorem mul_exact {na nb : Bool} {ma mb : Nat} {ea eb : Int} {pa pb : Nat} {c : Num}
    (hfit : mulFits (.fin na ma ea pa) (.fin nb mb eb pb) = true)
    (h : Num.mulCty (.fin na ma ea pa) (.fin nb mb eb pb) = .ok c) :
    ∃ nc mc ec pc, c = .fin nc mc ec pc ∧ ∀ E, E ≤ ea + eb → E ≤ ec →
      scaleTo (sgnm nc mc) ec E = sgnm na ma * sgnm nb mb * 2 ^ (ea + eb - E).toNat := by
  simp only [mulFits, decide_eq_true_eq] at hfit
  have hr : roundME (ma * mb) (ea + eb) 512 = (ma * mb, ea + eb) := by
    simp only [roundME, hfit, if_true]; simp
  simp only [mulCty, round, hr, mk, Res.ok.injEq] at h
  subst h
  refine ⟨_, _, _, _, rfl, fun E h1 h2 => ?_⟩
  by_cases hm : ma * mb = 0
  · have : (norm (ma * mb) (ea + eb)).1 = 0 := by
      rw [hm]; unfold norm; rcases normFuel_zero (bitlen 0 + 1) (ea + eb) with h | h <;> simp [h]
    rw [this, sgnm_zero, scaleTo_zero, ← sgnm_mul, hm, sgnm_zero]; simp
  · obtain ⟨hv1, hv2⟩ := norm_val (ma * mb) (ea + eb) hm
    simp only [scaleTo]
    have h4 : ((norm (ma * mb) (ea + eb)).1 : Int) * 2 ^ ((norm (ma * mb) (ea + eb)).2 - (ea + eb)).toNat = ((ma * mb : Nat) : Int) := by
      exact_mod_cast hv2
    have hsplit : ((norm (ma * mb) (ea + eb)).2 - E).toNat =
        ((norm (ma * mb) (ea + eb)).2 - (ea + eb)).toNat + (ea + eb - E).toNat := by omega
    rw [hsplit, Int.pow_add, ← Int.mul_assoc, ← sgnm_mul]
    congr 1
    unfold sgnm
    cases (na != nb)
    · simp only [Bool.false_eq_true, if_false]; exact h4
    · simp only [if_true, Int.neg_mul, h4]


/-- the product over a box is at least one of the four corner products … -/
theorem box_mul_lower {A1 X B1 A2 Y B2 : Int} (a1 : A1 ≤ X) (b1 : X ≤ B1) (a2 : A2 ≤ Y) (b2 : Y ≤ B2) :
    A1 * A2 ≤ X * Y ∨ A1 * B2 ≤ X * Y ∨ B1 * A2 ≤ X * Y ∨ B1 * B2 ≤ X * Y := by
  by_cases hy : 0 ≤ Y
  · have h1 : A1 * Y ≤ X * Y := Int.mul_le_mul_of_nonneg_right a1 hy
    by_cases ha : 0 ≤ A1
    · exact Or.inl (Int.le_trans (Int.mul_le_mul_of_nonneg_left a2 ha) h1)
    · exact Or.inr (Or.inl (Int.le_trans (Int.mul_le_mul_of_nonpos_left (by omega) b2) h1))
  · have h1 : B1 * Y ≤ X * Y := Int.mul_le_mul_of_nonpos_right b1 (by omega)
    by_cases hb : 0 ≤ B1
    · exact Or.inr (Or.inr (Or.inl (Int.le_trans (Int.mul_le_mul_of_nonneg_left a2 hb) h1)))
    · exact Or.inr (Or.inr (Or.inr (Int.le_trans (Int.mul_le_mul_of_nonpos_left (by omega) b2) h1)))

/-- … and at most one of them -/
theorem box_mul_upper {A1 X B1 A2 Y B2 : Int} (a1 : A1 ≤ X) (b1 : X ≤ B1) (a2 : A2 ≤ Y) (b2 : Y ≤ B2) :
    X * Y ≤ A1 * A2 ∨ X * Y ≤ A1 * B2 ∨ X * Y ≤ B1 * A2 ∨ X * Y ≤ B1 * B2 := by
  by_cases hy : 0 ≤ Y
  · have h1 : X * Y ≤ B1 * Y := Int.mul_le_mul_of_nonneg_right b1 hy
    by_cases hb : 0 ≤ B1
    · exact Or.inr (Or.inr (Or.inr (Int.le_trans h1 (Int.mul_le_mul_of_nonneg_left b2 hb))))
    · exact Or.inr (Or.inr (Or.inl (Int.le_trans h1 (Int.mul_le_mul_of_nonpos_left (by omega) a2))))
  · have h1 : X * Y ≤ A1 * Y := Int.mul_le_mul_of_nonpos_right a1 (by omega)
    by_cases ha : 0 ≤ A1
    · exact Or.inr (Or.inl (Int.le_trans h1 (Int.mul_le_mul_of_nonneg_left b2 ha)))
    · exact Or.inl (Int.le_trans h1 (Int.mul_le_mul_of_nonpos_left (by omega) a2))


theorem scaled_prod {s1 s2 : Int} {e1 e2 E1 E2 E : Int} (h1 : E1 ≤ e1) (h2 : E2 ≤ e2) (hE : E ≤ E1 + E2) :
    s1 * s2 * 2 ^ (e1 + e2 - E).toNat = scaleTo s1 e1 E1 * scaleTo s2 e2 E2 * 2 ^ (E1 + E2 - E).toNat := by
  simp only [scaleTo]
  have : (e1 + e2 - E).toNat = (e1 - E1).toNat + (e2 - E2).toNat + (E1 + E2 - E).toNat := by omega
  rw [this, Int.pow_add, Int.pow_add]
  simp only [Int.mul_assoc, Int.mul_left_comm, Int.mul_comm]

/-- comparison of two exact products through their factors scaled to common exponents -/
theorem mul_cmp_le {u1 u2 x y c z : Num} {E1 E2 : Int}
    (hu1 : isFin u1 = true) (hu2 : isFin u2 = true) (hx : isFin x = true) (hy : isFin y = true)
    (b1 : E1 ≤ expOf u1) (b2 : E2 ≤ expOf u2) (b3 : E1 ≤ expOf x) (b4 : E2 ≤ expOf y)
    (hc : mulCty u1 u2 = .ok c) (hz : mulCty x y = .ok z)
    (fc : mulFits u1 u2 = true) (fz : mulFits x y = true) :
    ((key E1 u1).2 * (key E2 u2).2 ≤ (key E1 x).2 * (key E2 y).2 → cmp c z ≤ 0) ∧
    ((key E1 x).2 * (key E2 y).2 ≤ (key E1 u1).2 * (key E2 u2).2 → cmp z c ≤ 0) := by
  cases u1 with
  | inf _ => simp [isFin] at hu1
  | fin n1 m1 e1 p1 =>
  cases u2 with
  | inf _ => simp [isFin] at hu2
  | fin n2 m2 e2 p2 =>
  cases x with
  | inf _ => simp [isFin] at hx
  | fin nx mx ex px =>
  cases y with
  | inf _ => simp [isFin] at hy
  | fin ny my ey py =>
  simp only [expOf] at b1 b2 b3 b4
  obtain ⟨nc, mc, ec, pc, rfl, hcv⟩ := mul_exact fc hc
  obtain ⟨nz, mz, ez, pz, rfl, hzv⟩ := mul_exact fz hz
  simp only [key]
  let E := min (E1 + E2) (min ec ez)
  have hK : (0 : Int) < 2 ^ (E1 + E2 - E).toNat := two_pow_pos _
  have ec' := hcv E (by omega) (by omega)
  have ez' := hzv E (by omega) (by omega)
  rw [scaled_prod b1 b2 (by omega)] at ec'
  rw [scaled_prod b3 b4 (by omega)] at ez'
  constructor
  · intro hle
    rw [cmp_fin_le E (by omega) (by omega), ec', ez']
    exact Int.mul_le_mul_of_nonneg_right hle (Int.le_of_lt hK)
  · intro hle
    rw [cmp_fin_le E (by omega) (by omega), ec', ez']
    exact Int.mul_le_mul_of_nonneg_right hle (Int.le_of_lt hK)

/-- order of two finite numbers at an exponent below both -/
theorem cmp_le_key {a b : Num} {E : Int} (ha : isFin a = true) (hb : isFin b = true)
    (h1 : E ≤ expOf a) (h2 : E ≤ expOf b) : cmp a b ≤ 0 ↔ (key E a).2 ≤ (key E b).2 := by
  cases a with
  | inf _ => simp [isFin] at ha
  | fin na ma ea pa =>
  cases b with
  | inf _ => simp [isFin] at hb
  | fin nb mb eb pb =>
  simp only [expOf] at h1 h2
  simp only [key]
  exact cmp_fin_le E h1 h2

end Num

/-- Multiply: over finite bounds, with exact corner products, the smallest corner is
below the concrete product and the largest above it -/
theorem mul_range_cover {l1 h1 l2 h2 x y z : Num} (b1 : Num.cmp l1 x ≤ 0) (c1 : Num.cmp x h1 ≤ 0)
    (b2 : Num.cmp l2 y ≤ 0) (c2 : Num.cmp y h2 ≤ 0) (hz : Num.mulCty x y = .ok z)
    (fl1 : Num.isFin l1 = true) (fh1 : Num.isFin h1 = true) (fl2 : Num.isFin l2 = true) (fh2 : Num.isFin h2 = true)
    (fx : Num.isFin x = true) (fy : Num.isFin y = true)
    (f11 : Num.mulFits l1 l2 = true) (f12 : Num.mulFits l1 h2 = true) (f21 : Num.mulFits h1 l2 = true)
    (f22 : Num.mulFits h1 h2 = true) (fz : Num.mulFits x y = true)
    (hcoh : ∀ m M, newMinOf Num.mulCty l1 h1 l2 h2 = some m → newMaxOf Num.mulCty l1 h1 l2 h2 = some M →
      Num.rawEqual m M = true → Num.cmp m M = 0) :
    Covers (numRangeResult (loOf (newMinOf Num.mulCty l1 h1 l2 h2)) (hiOf (newMaxOf Num.mulCty l1 h1 l2 h2))) (numVal z) = true := by
  let E1 := min (min (expOf l1) (expOf h1)) (expOf x)
  let E2 := min (min (expOf l2) (expOf h2)) (expOf y)
  have a1 := (Num.cmp_le_key (E := E1) fl1 fx (by omega) (by omega)).mp b1
  have a2 := (Num.cmp_le_key (E := E1) fx fh1 (by omega) (by omega)).mp c1
  have a3 := (Num.cmp_le_key (E := E2) fl2 fy (by omega) (by omega)).mp b2
  have a4 := (Num.cmp_le_key (E := E2) fy fh2 (by omega) (by omega)).mp c2
  -- every corner is a product that compares with z through its factors
  have corner : ∀ (u1 u2 : Num), Num.isFin u1 = true → Num.isFin u2 = true → E1 ≤ expOf u1 → E2 ≤ expOf u2 →
      Num.mulFits u1 u2 = true → ∀ c, cornerOf Num.mulCty u1 u2 = some c →
      ((key E1 u1).2 * (key E2 u2).2 ≤ (key E1 x).2 * (key E2 y).2 → Num.cmp c z ≤ 0) ∧
      ((key E1 x).2 * (key E2 y).2 ≤ (key E1 u1).2 * (key E2 u2).2 → Num.cmp z c ≤ 0) := by
    intro u1 u2 g1 g2 e1 e2 ff c hc
    exact Num.mul_cmp_le g1 g2 fx fy e1 e2 (by omega) (by omega) (cornerOf_some hc) hz ff fz
  refine covers_rangeResult ?_ ?_ hcoh
  · intro m hm
    have hall := mostOf_some_all hm
    have hmin := mostOf_min hm
    have get : ∀ u1 u2, cornerOf Num.mulCty u1 u2 ∈ cornersOf Num.mulCty l1 h1 l2 h2 →
        ∃ c, cornerOf Num.mulCty u1 u2 = some c ∧ Num.cmp m c ≤ 0 := by
      intro u1 u2 hmem
      cases hc : cornerOf Num.mulCty u1 u2 with
      | none => exact absurd hc (hall _ hmem)
      | some c => exact ⟨c, rfl, hmin c (by rw [← hc]; exact hmem)⟩
    rcases Num.box_mul_lower a1 a2 a3 a4 with h | h | h | h
    · obtain ⟨c, hc, hmc⟩ := get l1 l2 (by simp [cornersOf])
      exact cmp_le_trans hmc ((corner l1 l2 fl1 fl2 (by omega) (by omega) f11 c hc).1 h)
    · obtain ⟨c, hc, hmc⟩ := get l1 h2 (by simp [cornersOf])
      exact cmp_le_trans hmc ((corner l1 h2 fl1 fh2 (by omega) (by omega) f12 c hc).1 h)
    · obtain ⟨c, hc, hmc⟩ := get h1 l2 (by simp [cornersOf])
      exact cmp_le_trans hmc ((corner h1 l2 fh1 fl2 (by omega) (by omega) f21 c hc).1 h)
    · obtain ⟨c, hc, hmc⟩ := get h1 h2 (by simp [cornersOf])
      exact cmp_le_trans hmc ((corner h1 h2 fh1 fh2 (by omega) (by omega) f22 c hc).1 h)
  · intro M hM
    have hall := mostOf_some_all hM
    have hmax := mostOf_max hM
    have get : ∀ u1 u2, cornerOf Num.mulCty u1 u2 ∈ cornersOf Num.mulCty l1 h1 l2 h2 →
        ∃ c, cornerOf Num.mulCty u1 u2 = some c ∧ Num.cmp c M ≤ 0 := by
      intro u1 u2 hmem
      cases hc : cornerOf Num.mulCty u1 u2 with
      | none => exact absurd hc (hall _ hmem)
      | some c => exact ⟨c, rfl, hmax c (by rw [← hc]; exact hmem)⟩
    rcases Num.box_mul_upper a1 a2 a3 a4 with h | h | h | h
    · obtain ⟨c, hc, hcM⟩ := get l1 l2 (by simp [cornersOf])
      exact cmp_le_trans ((corner l1 l2 fl1 fl2 (by omega) (by omega) f11 c hc).2 h) hcM
    · obtain ⟨c, hc, hcM⟩ := get l1 h2 (by simp [cornersOf])
      exact cmp_le_trans ((corner l1 h2 fl1 fh2 (by omega) (by omega) f12 c hc).2 h) hcM
    · obtain ⟨c, hc, hcM⟩ := get h1 l2 (by simp [cornersOf])
      exact cmp_le_trans ((corner h1 l2 fh1 fl2 (by omega) (by omega) f21 c hc).2 h) hcM
    · obtain ⟨c, hc, hcM⟩ := get h1 h2 (by simp [cornersOf])
      exact cmp_le_trans ((corner h1 h2 fh1 fh2 (by omega) (by omega) f22 c hc).2 h) hcM

/-- the side condition of `sound_mul_partial`: the numeric ranges of the weakened
operands are bounded on both sides (finite bounds), none of the four corner
products nor `x·y` exceeds the 512 bits cty multiplies at, and a result range cty
collapses to a known number is a single value -/
def CornerExactMul (w₁ w₂ o₁ o₂ : Value) : Bool :=
  match asNum o₁, asNum o₂, numBounds w₁, numBounds w₂ with
  | .ok x, .ok y, some (l1, h1), some (l2, h2) =>
    Num.isFin l1 && Num.isFin h1 && Num.isFin l2 && Num.isFin h2 && Num.isFin x && Num.isFin y &&
    Num.mulFits l1 l2 && Num.mulFits l1 h2 && Num.mulFits h1 l2 && Num.mulFits h1 h2 && Num.mulFits x y &&
      cohOK (newMinOf Num.mulCty l1 h1 l2 h2) (newMaxOf Num.mulCty l1 h1 l2 h2)
  | _, _, _, _ => true

/-! ### the zero exit (`val.RawEquals(Zero) || other.RawEquals(Zero)`, /repo 6d2fa5e)

"If either value is exactly zero then the result must either be zero or an error":
a known zero times anything that multiplies without a panic is a zero, so the known
`cty.Zero` covers the concrete product.  The same exit is taken by the corner
products of `numericRangeArithmetic` when one bound is an unknown number (the
bound of a dynamically typed operand) and the other a zero: `cornerMul`. -/

namespace Num
theorem isZero_of_between_zeros {l h y : Num} (hl : l.isZero = true) (hh : h.isZero = true)
    (b : Num.cmp l y ≤ 0) (c : Num.cmp y h ≤ 0) : y.isZero = true := by
  cases l with
  | inf _ => simp [isZero] at hl
  | fin nl ml el pl =>
  cases ml with
  | succ _ => simp [isZero] at hl
  | zero =>
  cases h with
  | inf _ => simp [isZero] at hh
  | fin nh mh eh ph =>
  cases mh with
  | succ _ => simp [isZero] at hh
  | zero =>
  cases y with
  | inf ny => cases ny <;> simp [cmp] at b c
  | fin ny my ey py =>
    cases my with
    | zero => rfl
    | succ k =>
      exfalso
      simp only [cmp, scaleTo] at b c
      have p1 : (0 : Int) < (2 : Int) ^ (ey - min el ey).toNat := Int.pow_pos (by decide)
      have p2 : (0 : Int) < (2 : Int) ^ (ey - min ey eh).toNat := Int.pow_pos (by decide)
      cases ny
      · have : (0:Int) < ((k + 1 : Nat) : Int) * (2 : Int) ^ (ey - min ey eh).toNat := Int.mul_pos (by omega) p2
        simp at c
        split at c <;> (try split at c) <;> simp_all <;> omega
      · have : ((-((k + 1 : Nat) : Int))) * (2 : Int) ^ (ey - min el ey).toNat < 0 := by
          have := Int.mul_pos (a := ((k + 1 : Nat) : Int)) (by omega) p1
          rw [Int.neg_mul]; omega
        simp at b
        split at b <;> (try split at b) <;> simp_all <;> omega
end Num

namespace Num
theorem mulCty_isZero_left {x y z : Num} (hx : x.isZero = true) (h : mulCty x y = .ok z) : z.isZero = true := by
  cases x with
  | inf _ => simp [isZero] at hx
  | fin na ma ea pa =>
    cases ma with
    | succ _ => simp [isZero] at hx
    | zero =>
      cases y with
      | inf nb => simp [mulCty] at h
      | fin nb mb eb pb =>
        simp [mulCty, round, roundME, bitlen, mk, norm, normFuel] at h
        subst h; rfl

theorem mulCty_isZero_right {x y z : Num} (hy : y.isZero = true) (h : mulCty x y = .ok z) : z.isZero = true := by
  cases y with
  | inf _ => simp [isZero] at hy
  | fin nb mb eb pb =>
    cases mb with
    | succ _ => simp [isZero] at hy
    | zero =>
      cases x with
      | inf na => simp [mulCty] at h
      | fin na ma ea pa =>
        simp [mulCty, round, roundME, bitlen, mk, norm, normFuel] at h
        subst h; rfl
end Num

/-- `cty.Zero` covers every zero (either sign, any precision) -/
theorem covers_zeroVal_numVal {z : Num} (hz : z.isZero = true) : Covers zeroVal (numVal z) = true := by
  cases z with
  | inf _ => simp [Num.isZero] at hz
  | fin n m e p =>
    cases m with
    | succ _ => simp [Num.isZero] at hz
    | zero =>
      simp [Covers, CoversG, numVal, zeroVal, zeroNum, Ty.matches, Payload.stripMarks, coversP, numEq, Num.cmp, Num.scaleTo]

theorem covers_unkNum_zeroVal : Covers unkNumNotNull zeroVal = true := covers_unkNum_numVal _

/-- a known zero covers (exactly) only a known zero -/
theorem rawEqualsZero_of_coversX {w o : Value} (hc : CoversX w o = true) (hz : rawEqualsZero w = true)
    (hmo : o.isMarked = false) : rawEqualsZero o = true := by
  obtain ⟨tw, pw⟩ := w
  obtain ⟨to, po⟩ := o
  simp only [rawEqualsZero, Bool.and_eq_true] at hz ⊢
  obtain ⟨htw, hzw⟩ := hz
  cases tw <;> simp [Ty.isNumber] at htw
  cases pw <;> simp at hzw
  rename_i x
  simp only [CoversX, CoversG, Bool.and_eq_true] at hc
  have hto := matches_number_left hc.1
  subst hto
  cases po <;> simp_all [Payload.stripMarks, coversP, numEq, isMarked, Payload.isMarked, Ty.isNumber]

theorem asNum_isZero_of_rawEqualsZero {v : Value} {x : Num} (hz : rawEqualsZero v = true) (hx : asNum v = .ok x) :
    x.isZero = true := by
  obtain ⟨t, p⟩ := v
  cases p <;> simp_all [rawEqualsZero, asNum]

/-- both numeric bounds of the operand are zeros (then it stands for a zero, or for a null) -/
def zeroBounded (v : Value) : Bool :=
  match numBounds v with
  | some (l, h) => l.isZero && h.isZero
  | none => false

theorem range_numdyn_cases {a : Value} (ha : a.isMarked = false) (hta : a.ty = .number ∨ a.ty = .dyn) :
    ∃ ra, a.range = .ok ra ∧
      ((a.ty = .dyn ∧ ra.numLower = .ok none ∧ ra.numUpper = .ok none ∧ numBounds a = none) ∨
       (a.ty = .number ∧ ∃ l h, ra.numLower = .ok (some l) ∧ ra.numUpper = .ok (some h) ∧ numBounds a = some (l, h))) := by
  obtain ⟨raw, hra⟩ := range_ok_numdyn ha hta
  refine ⟨_, hra, ?_⟩
  rcases hta with h | h
  · right
    refine ⟨h, ?_⟩
    simp only [numBounds, hra, VRange.numLower, VRange.numUpper, h, Ty.isDyn, Ty.isNumber]
    cases raw <;> simp <;> (rename_i lo hi; cases lo <;> cases hi <;> simp)
  · left
    refine ⟨h, ?_⟩
    simp [numBounds, hra, VRange.numLower, VRange.numUpper, h, Ty.isDyn]

theorem rangeArithMul_dyn {a b : Value} (ha : a.isMarked = false) (hb : b.isMarked = false)
    (hta : a.ty = .number ∨ a.ty = .dyn) (htb : b.ty = .number ∨ b.ty = .dyn) (hd : a.ty = .dyn ∨ b.ty = .dyn) :
    rangeArithC cornerMul a b = .ok (if zeroBounded a || zeroBounded b then zeroVal else unkNumNotNull) := by
  obtain ⟨ra, hra, ca⟩ := range_numdyn_cases ha hta
  obtain ⟨rb, hrb, cb⟩ := range_numdyn_cases hb htb
  unfold rangeArithC
  rcases ca with ⟨ta, la, ua, na⟩ | ⟨ta, l1, h1, la, ua, na⟩ <;>
  rcases cb with ⟨tb, lb, ub, nb⟩ | ⟨tb, l2, h2, lb, ub, nb⟩
  · simp only [hra, hrb, la, ua, lb, ub, Res.bind_ok, zeroBounded, na, nb]
    rfl
  · simp only [hra, hrb, la, ua, lb, ub, Res.bind_ok, zeroBounded, na, nb, cornerMul]
    cases z1 : l2.isZero <;> cases z2 : h2.isZero <;> simp <;> rfl
  · simp only [hra, hrb, la, ua, lb, ub, Res.bind_ok, zeroBounded, na, nb, cornerMul]
    cases z1 : l1.isZero <;> cases z2 : h1.isZero <;> simp <;> rfl
  · rcases hd with h | h
    · rw [ta] at h; cases h
    · rw [tb] at h; cases h

theorem rangeArithMul_bounds {a b : Value} {ra rb : VRange} {l1 h1 l2 h2 : Num}
    (hra : a.range = .ok ra) (hrb : b.range = .ok rb)
    (h1l : ra.numLower = .ok (some l1)) (h1u : ra.numUpper = .ok (some h1))
    (h2l : rb.numLower = .ok (some l2)) (h2u : rb.numUpper = .ok (some h2)) :
    rangeArithC cornerMul a b =
      .ok (numRangeResult (loOf (newMinOf Num.mulCty l1 h1 l2 h2)) (hiOf (newMaxOf Num.mulCty l1 h1 l2 h2))) := by
  unfold rangeArithC
  simp only [hra, hrb, h1l, h1u, h2l, h2u, Res.bind_ok]
  rfl

/-- a wholly known operand with two zero bounds is a known zero -/
theorem rawEqualsZero_of_zeroBounded {o : Value} (hk : o.whollyKnown = true) (hz : zeroBounded o = true) :
    rawEqualsZero o = true := by
  obtain ⟨t, p⟩ := o
  simp only [zeroBounded, numBounds] at hz
  cases p <;> simp [Value.whollyKnown, Payload.whollyKnown] at hk <;>
    cases t <;>
    simp_all [Value.range, Value.isMarked, Payload.isMarked, VRange.numLower, VRange.numUpper, Ty.isDyn, Ty.isNumber,
      rawEqualsZero, Num.isZero, knownCollLen]
  all_goals (try split at hz) <;> simp_all [VRange.numLower, VRange.numUpper, Ty.isDyn, Ty.isNumber, Num.isZero]

/-- the number a zero-bounded weakening stands for is a zero -/
theorem isZero_of_zeroBounded_covers {w o : Value} {y : Num} (hc : CoversG true w o = true) (hy : asNum o = .ok y)
    (hmw : w.isMarked = false) (hwt : w.ty = .number ∨ w.ty = .dyn) (hz : zeroBounded w = true) : y.isZero = true := by
  have htw : w.ty = .number := by
    rcases hwt with t | t
    · exact t
    · obtain ⟨_, _, ca⟩ := range_numdyn_cases hmw (Or.inr t)
      rcases ca with ⟨_, _, _, nb⟩ | ⟨tn, _⟩
      · simp [zeroBounded, nb] at hz
      · exact tn
  obtain ⟨raw, l, h, r1, lo1, hi1, b1, c1⟩ := range_bounds_of_covers hc (asNum_inv hy) hmw htw
  have nb : numBounds w = some (l, h) := by simp [numBounds, r1, lo1, hi1]
  simp only [zeroBounded, nb, Bool.and_eq_true] at hz
  exact Num.isZero_of_between_zeros hz.1 hz.2 b1 c1

/-- Multiply without the zero exit of the outer call: the range arithmetic on every
short circuit (what `mulU` does whenever neither operand is a known zero) -/
def mulU0 (a b : Value) : Res Value := do
  match ← typeCheck .number [a, b] with
  | .none => pure (numVal (← Num.mulCty (← asNum a) (← asNum b)))
  | _ => rangeArithC cornerMul a b

theorem mulU_eq_mulU0 {a b : Value} {tc : TC} (htc : typeCheck .number [a, b] = .ok tc)
    (h : tc = .none ∨ (rawEqualsZero a || rawEqualsZero b) = false) : mulU a b = mulU0 a b := by
  unfold mulU mulU0
  rw [htc, Res.bind_ok]
  rcases tc_cases tc with rfl | rfl | rfl
  · rfl
  all_goals
    rcases h with h | h
    · cases h
    · simp only [h, Bool.false_eq_true, if_false]; rfl

theorem mulU_eq_zero {a b : Value} {tc : TC} (htc : typeCheck .number [a, b] = .ok tc) (h1 : tc ≠ .none)
    (h2 : (rawEqualsZero a || rawEqualsZero b) = true) : mulU a b = .ok zeroVal := by
  unfold mulU
  rw [htc, Res.bind_ok]
  rcases tc_cases tc with rfl | rfl | rfl
  · exact absurd rfl h1
  all_goals simp only [h2, if_true]; rfl

/-- the product of two operands of which one is a known zero is a zero (or a panic) -/
theorem mulU_zero_operand {o₁ o₂ r : Value} (hz : (rawEqualsZero o₁ || rawEqualsZero o₂) = true)
    (ho : mulU o₁ o₂ = .ok r) : Covers zeroVal r = true := by
  unfold mulU at ho
  obtain ⟨tc, htc, ho⟩ := Res.bind_eq_ok.mp ho
  rcases tc_cases tc with rfl | rfl | rfl <;> simp only at ho
  · obtain ⟨x, hx, ho⟩ := Res.bind_eq_ok.mp ho
    obtain ⟨y, hy, ho⟩ := Res.bind_eq_ok.mp ho
    obtain ⟨z, hzz, ho⟩ := Res.bind_eq_ok.mp ho
    simp only [pure, Res.ok.injEq] at ho
    subst ho
    rcases Bool.or_eq_true _ _ |>.mp hz with h | h
    · exact covers_zeroVal_numVal (Num.mulCty_isZero_left (asNum_isZero_of_rawEqualsZero h hx) hzz)
    · exact covers_zeroVal_numVal (Num.mulCty_isZero_right (asNum_isZero_of_rawEqualsZero h hy) hzz)
  all_goals
    simp only [hz, if_true, pure, Res.ok.injEq] at ho
    subst ho
    exact covers_zeroVal_numVal rfl

/-- the side condition that the zero exit of the corner products adds to
`sound_mul_partial`: a weakened operand whose two numeric bounds are zeros stands
for a NUMBER (which then is a zero) — not for a null, the one other thing a
nullable unknown refined to `[0, 0]` admits -/
def ZeroBoundsNumber (w o : Value) : Bool :=
  !zeroBounded w || (match asNum o with | .ok _ => true | _ => false)

/-- no short circuit in the concrete call -/
theorem mulU0_sound_none (o₁ o₂ w₁ w₂ r : Value) (hk₁ : o₁.whollyKnown = true) (hk₂ : o₂.whollyKnown = true)
    (hmw₁ : w₁.isMarked = false) (hmw₂ : w₂.isMarked = false)
    (hc₁ : CoversX w₁ o₁ = true) (hc₂ : CoversX w₂ o₂ = true) (hside : CornerExactMul w₁ w₂ o₁ o₂ = true)
    (hto : typeCheck .number [o₁, o₂] = .ok .none)
    (ho : mulU0 o₁ o₂ = .ok r) : ∃ r', mulU0 w₁ w₂ = .ok r' ∧ Covers r' r = true := by
  have hg₁ : CoversG true w₁ o₁ = true := hc₁
  have hg₂ : CoversG true w₂ o₂ = true := hc₂
  unfold mulU0 at ho ⊢
  rw [hto, Res.bind_ok] at ho
  obtain ⟨tcw, htw⟩ := tc2_ok_of_covers (Or.inr rfl) hg₁ hg₂ hto
  obtain ⟨wt1, wt2, wd, wn⟩ := tc2_number_inv htw
  obtain ⟨ot1, ot2, od, on⟩ := tc2_number_inv hto
  rw [htw, Res.bind_ok]
  simp only at ho
  obtain ⟨x, hx, ho⟩ := Res.bind_eq_ok.mp ho
  obtain ⟨y, hy, ho⟩ := Res.bind_eq_ok.mp ho
  obtain ⟨z, hz, ho⟩ := Res.bind_eq_ok.mp ho
  simp only [pure, Res.ok.injEq] at ho
  subst ho
  have dynCase : (w₁.ty = .dyn ∨ w₂.ty = .dyn) →
      ∃ r', rangeArithC cornerMul w₁ w₂ = .ok r' ∧ Covers r' (numVal z) = true := by
    intro hd
    refine ⟨_, rangeArithMul_dyn hmw₁ hmw₂ wt1 wt2 hd, ?_⟩
    by_cases hzb : (zeroBounded w₁ || zeroBounded w₂) = true
    · simp only [hzb, if_true]
      rcases (Bool.or_eq_true _ _).mp hzb with h | h
      · exact covers_zeroVal_numVal (Num.mulCty_isZero_left (isZero_of_zeroBounded_covers hg₁ hx hmw₁ wt1 h) hz)
      · exact covers_zeroVal_numVal (Num.mulCty_isZero_right (isZero_of_zeroBounded_covers hg₂ hy hmw₂ wt2 h) hz)
    · simp only [hzb, Bool.false_eq_true, if_false]
      exact covers_unkNum_numVal z
  have short : ∃ r', rangeArithC cornerMul w₁ w₂ = .ok r' ∧ Covers r' (numVal z) = true := by
    rcases wt1 with t1 | t1
    · rcases wt2 with t2 | t2
      · obtain ⟨raw1, l1, h1, r1, lo1, hi1, b1, c1⟩ := range_bounds_of_covers hg₁ (asNum_inv hx) hmw₁ t1
        obtain ⟨raw2, l2, h2, r2, lo2, hi2, b2, c2⟩ := range_bounds_of_covers hg₂ (asNum_inv hy) hmw₂ t2
        have nb1 : numBounds w₁ = some (l1, h1) := by simp [numBounds, r1, lo1, hi1]
        have nb2 : numBounds w₂ = some (l2, h2) := by simp [numBounds, r2, lo2, hi2]
        refine ⟨_, rangeArithMul_bounds r1 r2 lo1 hi1 lo2 hi2, ?_⟩
        have hs := hside
        simp only [CornerExactMul, hx, hy, nb1, nb2, Bool.and_eq_true] at hs
        obtain ⟨⟨⟨⟨⟨⟨⟨⟨⟨⟨⟨g1, g2⟩, g3⟩, g4⟩, g5⟩, g6⟩, m1⟩, m2⟩, m3⟩, m4⟩, m5⟩, hco⟩ := hs
        exact mul_range_cover b1 c1 b2 c2 hz g1 g2 g3 g4 g5 g6 m1 m2 m3 m4 m5 (cohOK_spec hco)
      · exact dynCase (Or.inr t2)
    · exact dynCase (Or.inl t1)
  rcases tc_cases tcw with rfl | rfl | rfl
  · obtain ⟨_, u1, u2⟩ := tc2_none_of_covers (Or.inr rfl) hk₁ hk₂ hg₁ hg₂ htw
    have e1 := eq_of_coversX_num hc₁ (asNum_inv hx) (on (by simp)).1 (wn (by simp)).1 hmw₁ u1
    have e2 := eq_of_coversX_num hc₂ (asNum_inv hy) (on (by simp)).2 (wn (by simp)).2 hmw₂ u2
    subst e1 e2
    simp only [hx, hy, hz, Res.bind_ok, pure]
    exact ⟨_, rfl, covers_numVal_self _⟩
  · exact short
  · exact short

/-- a dynamically typed operand in the concrete call, no known zero -/
theorem mulU0_sound_dyn (o₁ o₂ w₁ w₂ r : Value) (hk₁ : o₁.whollyKnown = true) (hk₂ : o₂.whollyKnown = true)
    (hmo₁ : o₁.isMarked = false) (hmo₂ : o₂.isMarked = false) (hmw₁ : w₁.isMarked = false) (hmw₂ : w₂.isMarked = false)
    (hc₁ : CoversX w₁ o₁ = true) (hc₂ : CoversX w₂ o₂ = true)
    (hzb₁ : ZeroBoundsNumber w₁ o₁ = true) (hzb₂ : ZeroBoundsNumber w₂ o₂ = true)
    (hto : typeCheck .number [o₁, o₂] = .ok .dynamic)
    (hnz : (rawEqualsZero o₁ || rawEqualsZero o₂) = false)
    (ho : mulU0 o₁ o₂ = .ok r) : ∃ r', mulU0 w₁ w₂ = .ok r' ∧ Covers r' r = true := by
  have hg₁ : CoversG true w₁ o₁ = true := hc₁
  have hg₂ : CoversG true w₂ o₂ = true := hc₂
  simp only [Bool.or_eq_false_iff] at hnz
  unfold mulU0 at ho ⊢
  rw [hto, Res.bind_ok] at ho
  obtain ⟨tcw, htw⟩ := tc2_ok_of_covers (Or.inr rfl) hg₁ hg₂ hto
  obtain ⟨wt1, wt2, wd, wn⟩ := tc2_number_inv htw
  obtain ⟨ot1, ot2, od, on⟩ := tc2_number_inv hto
  rw [htw, Res.bind_ok]
  simp only at ho
  -- the concrete call answers an unknown number
  have zo₁ : zeroBounded o₁ = false := by
    cases h : zeroBounded o₁
    · rfl
    · rw [rawEqualsZero_of_zeroBounded hk₁ h] at hnz; exact absurd hnz.1 (by simp)
  have zo₂ : zeroBounded o₂ = false := by
    cases h : zeroBounded o₂
    · rfl
    · rw [rawEqualsZero_of_zeroBounded hk₂ h] at hnz; exact absurd hnz.2 (by simp)
  rw [rangeArithMul_dyn hmo₁ hmo₂ ot1 ot2 (od rfl)] at ho
  simp only [zo₁, zo₂, Bool.or_self, Bool.false_eq_true, if_false, Res.ok.injEq] at ho
  subst ho
  -- so does the weakened call: a zero-bounded weakening would stand for a zero
  have zw : ∀ (w o : Value), CoversG true w o = true → w.isMarked = false → ZeroBoundsNumber w o = true →
      rawEqualsZero o = false → (o.ty = .number ∨ o.ty = .dyn) → (w.ty = .number ∨ w.ty = .dyn) →
      zeroBounded w = false := by
    intro w o hg hmw hzb hz hto hwt
    cases h : zeroBounded w
    · rfl
    · exfalso
      simp only [ZeroBoundsNumber, h, Bool.not_true, Bool.false_or] at hzb
      cases hy : asNum o with
      | ok y =>
        have yz := isZero_of_zeroBounded_covers hg hy hmw hwt h
        have hv := asNum_inv hy
        rcases hto with t | t
        · obtain ⟨to, po⟩ := o
          simp only at hv t
          subst hv t
          simp [rawEqualsZero, Ty.isNumber, yz] at hz
        · have := covers_ty_dyn hg t
          obtain ⟨_, _, ca⟩ := range_numdyn_cases hmw (Or.inr this)
          rcases ca with ⟨_, _, _, nb⟩ | ⟨tn, _⟩
          · simp [zeroBounded, nb] at h
          · rw [this] at tn; cases tn
      | err _ => simp [hy] at hzb
      | panic _ => simp [hy] at hzb
      | unmodelled => simp [hy] at hzb
  have zw₁ := zw w₁ o₁ hg₁ hmw₁ hzb₁ hnz.1 ot1 wt1
  have zw₂ := zw w₂ o₂ hg₂ hmw₂ hzb₂ hnz.2 ot2 wt2
  have hd : w₁.ty = .dyn ∨ w₂.ty = .dyn := by
    rcases od rfl with h | h
    · exact Or.inl (covers_ty_dyn hg₁ h)
    · exact Or.inr (covers_ty_dyn hg₂ h)
  have hrw := rangeArithMul_dyn hmw₁ hmw₂ wt1 wt2 hd
  simp only [zw₁, zw₂, Bool.or_self, Bool.false_eq_true, if_false] at hrw
  rcases tc_cases tcw with rfl | rfl | rfl
  · rcases hd with h | h
    · rw [(wn (by simp)).1] at h; cases h
    · rw [(wn (by simp)).2] at h; cases h
  · exact ⟨_, hrw, covers_unkNum_self⟩
  · exact ⟨_, hrw, covers_unkNum_self⟩

/-- Multiply is sound under `CornerExactMul` (no corner product is rounded) and
`ZeroBoundsNumber` (a `[0, 0]`-bounded weakening stands for a number) -/
theorem mulU_sound_partial (o₁ o₂ w₁ w₂ r : Value) (hk₁ : o₁.whollyKnown = true) (hk₂ : o₂.whollyKnown = true)
    (hmo₁ : o₁.isMarked = false) (hmo₂ : o₂.isMarked = false) (hmw₁ : w₁.isMarked = false) (hmw₂ : w₂.isMarked = false)
    (hc₁ : CoversX w₁ o₁ = true) (hc₂ : CoversX w₂ o₂ = true) (hside : CornerExactMul w₁ w₂ o₁ o₂ = true)
    (hzb₁ : ZeroBoundsNumber w₁ o₁ = true) (hzb₂ : ZeroBoundsNumber w₂ o₂ = true)
    (ho : mulU o₁ o₂ = .ok r) : ∃ r', mulU w₁ w₂ = .ok r' ∧ Covers r' r = true := by
  have hg₁ : CoversG true w₁ o₁ = true := hc₁
  have hg₂ : CoversG true w₂ o₂ = true := hc₂
  obtain ⟨tco, hto⟩ : ∃ tc, typeCheck .number [o₁, o₂] = .ok tc := by
    unfold mulU at ho
    obtain ⟨tc, htc, _⟩ := Res.bind_eq_ok.mp ho
    exact ⟨tc, htc⟩
  obtain ⟨tcw, htw⟩ := tc2_ok_of_covers (Or.inr rfl) hg₁ hg₂ hto
  obtain ⟨wt1, wt2, wd, wn⟩ := tc2_number_inv htw
  obtain ⟨ot1, ot2, od, on⟩ := tc2_number_inv hto
  have hdyn : tco ≠ .none → tco = .dynamic := by
    intro hne
    rcases tc_cases tco with h | h | h
    · exact absurd h hne
    · exact h
    · exact absurd h (tc2_not_unknown hk₁ hk₂ hto)
  by_cases hzw : (rawEqualsZero w₁ || rawEqualsZero w₂) = true
  · -- a weakened operand is a known zero: it is the concrete operand itself
    have hzo : (rawEqualsZero o₁ || rawEqualsZero o₂) = true := by
      rcases (Bool.or_eq_true _ _).mp hzw with h | h
      · simp [rawEqualsZero_of_coversX hc₁ h hmo₁]
      · simp [rawEqualsZero_of_coversX hc₂ h hmo₂]
    by_cases hn : tcw = .none
    · subst hn
      obtain ⟨hton, _, _⟩ := tc2_none_of_covers (Or.inr rfl) hk₁ hk₂ hg₁ hg₂ htw
      rw [mulU_eq_mulU0 hton (Or.inl rfl)] at ho
      rw [mulU_eq_mulU0 htw (Or.inl rfl)]
      exact mulU0_sound_none o₁ o₂ w₁ w₂ r hk₁ hk₂ hmw₁ hmw₂ hc₁ hc₂ hside hton ho
    · exact ⟨zeroVal, mulU_eq_zero htw hn hzw, mulU_zero_operand hzo ho⟩
  · have hzw' : (rawEqualsZero w₁ || rawEqualsZero w₂) = false := by simpa using hzw
    rw [mulU_eq_mulU0 htw (Or.inr hzw')]
    by_cases hn : tco = .none
    · subst hn
      rw [mulU_eq_mulU0 hto (Or.inl rfl)] at ho
      exact mulU0_sound_none o₁ o₂ w₁ w₂ r hk₁ hk₂ hmw₁ hmw₂ hc₁ hc₂ hside hto ho
    · have hd := hdyn hn
      subst hd
      have hdw : w₁.ty = .dyn ∨ w₂.ty = .dyn := by
        rcases od rfl with h | h
        · exact Or.inl (covers_ty_dyn hg₁ h)
        · exact Or.inr (covers_ty_dyn hg₂ h)
      cases hzo : (rawEqualsZero o₁ || rawEqualsZero o₂)
      · rw [mulU_eq_mulU0 hto (Or.inr hzo)] at ho
        exact mulU0_sound_dyn o₁ o₂ w₁ w₂ r hk₁ hk₂ hmo₁ hmo₂ hmw₁ hmw₂ hc₁ hc₂ hzb₁ hzb₂ hto hzo ho
      · -- only the concrete call leaves through the zero exit; the weakened call answers a
        -- zero (both bounds of the zero's weakening are zeros) or an unknown number
        rw [mulU_eq_zero hto hn hzo] at ho
        simp only [Res.ok.injEq] at ho
        subst ho
        have hrw := rangeArithMul_dyn hmw₁ hmw₂ wt1 wt2 hdw
        have hcov : Covers (if zeroBounded w₁ || zeroBounded w₂ then zeroVal else unkNumNotNull) zeroVal = true := by
          split
          · exact covers_zeroVal_numVal rfl
          · exact covers_unkNum_zeroVal
        refine ⟨_, ?_, hcov⟩
        unfold mulU0
        rw [htw, Res.bind_ok]
        rcases tc_cases tcw with rfl | rfl | rfl
        · rcases hdw with h | h
          · rw [(wn (by simp)).1] at h; cases h
          · rw [(wn (by simp)).2] at h; cases h
        · exact hrw
        · exact hrw

/-- with a known zero among the weakened operands no side condition is needed: the
weakened call answers `cty.Zero` (or, without a short circuit, the concrete product) -/
theorem mulU_sound_zero (o₁ o₂ w₁ w₂ r : Value) (hk₁ : o₁.whollyKnown = true) (hk₂ : o₂.whollyKnown = true)
    (hmo₁ : o₁.isMarked = false) (hmo₂ : o₂.isMarked = false) (hmw₁ : w₁.isMarked = false) (hmw₂ : w₂.isMarked = false)
    (hc₁ : CoversX w₁ o₁ = true) (hc₂ : CoversX w₂ o₂ = true)
    (hzw : (rawEqualsZero w₁ || rawEqualsZero w₂) = true)
    (ho : mulU o₁ o₂ = .ok r) : ∃ r', mulU w₁ w₂ = .ok r' ∧ Covers r' r = true := by
  have hg₁ : CoversG true w₁ o₁ = true := hc₁
  have hg₂ : CoversG true w₂ o₂ = true := hc₂
  obtain ⟨tco, hto⟩ : ∃ tc, typeCheck .number [o₁, o₂] = .ok tc := by
    unfold mulU at ho
    obtain ⟨tc, htc, _⟩ := Res.bind_eq_ok.mp ho
    exact ⟨tc, htc⟩
  obtain ⟨tcw, htw⟩ := tc2_ok_of_covers (Or.inr rfl) hg₁ hg₂ hto
  obtain ⟨_, _, _, wn⟩ := tc2_number_inv htw
  have hzo : (rawEqualsZero o₁ || rawEqualsZero o₂) = true := by
    rcases (Bool.or_eq_true _ _).mp hzw with h | h
    · simp [rawEqualsZero_of_coversX hc₁ h hmo₁]
    · simp [rawEqualsZero_of_coversX hc₂ h hmo₂]
  by_cases hn : tcw = .none
  · subst hn
    obtain ⟨hton, u1, u2⟩ := tc2_none_of_covers (Or.inr rfl) hk₁ hk₂ hg₁ hg₂ htw
    obtain ⟨_, _, _, on⟩ := tc2_number_inv hton
    have ho' := ho
    unfold mulU at ho'
    rw [hton, Res.bind_ok] at ho'
    simp only at ho'
    obtain ⟨x, hx, ho'⟩ := Res.bind_eq_ok.mp ho'
    obtain ⟨y, hy, ho'⟩ := Res.bind_eq_ok.mp ho'
    obtain ⟨z, hz, ho'⟩ := Res.bind_eq_ok.mp ho'
    simp only [pure, Res.ok.injEq] at ho'
    have e1 := eq_of_coversX_num hc₁ (asNum_inv hx) (on (by simp)).1 (wn (by simp)).1 hmw₁ u1
    have e2 := eq_of_coversX_num hc₂ (asNum_inv hy) (on (by simp)).2 (wn (by simp)).2 hmw₂ u2
    rw [e1, e2, ← ho']
    exact ⟨_, by rw [ho, ho'], covers_numVal_self _⟩
  · exact ⟨zeroVal, mulU_eq_zero htw hn hzw, mulU_zero_operand hzo ho⟩
end CtyModel
