/-
C20 (d20) — fingerprints and fuel.  `fp` is structurally recursive on a fuel argument
and prints `.cut` where it ran out.  A fingerprint WITHOUT `.cut` is the fingerprint
for every larger fuel: statements `fp f … = fp f …` about such fingerprints do not
hold "because the fuel ran out on both sides".
-/
import CtyModel.Heap
namespace CtyModel
namespace Heap

theorem fpSeq_congr {g g' : Word → List Tok} {m : Mem} {w : Word}
    (h : ∀ arr off len cap cells, w = .slice arr off len cap → cellsOf m arr = some cells →
      ∀ c ∈ window cells off len, g' c = g c) : fpSeq g' m w = fpSeq g m w := by
  cases w <;> try rfl
  rename_i arr off len cap
  simp only [fpSeq]
  cases hc : cellsOf m arr with
  | none => rfl
  | some cells =>
    simp only []
    rw [List.map_congr_left (h arr off len cap cells rfl hc)]

theorem cut_not_mem_fpSeq {g : Word → List Tok} {m : Mem} {w : Word} (h : Tok.cut ∉ fpSeq g m w) :
    ∀ arr off len cap cells, w = .slice arr off len cap → cellsOf m arr = some cells →
      ∀ c ∈ window cells off len, Tok.cut ∉ g c := by
  intro arr off len cap cells e hc c hcm hcut
  subst e
  apply h
  simp only [fpSeq, hc, List.mem_append, List.mem_flatten, List.mem_map]
  exact .inl (.inr ⟨g c, ⟨c, hcm, rfl⟩, hcut⟩)

/-- one level of `fp`, the recursive calls replaced by `g` -/
def fpStep (g : Word → List Tok) (m : Mem) (w : Word) : List Tok :=
  match w with
  | .null => [.o "null", .c]
  | .unk r => [.o "unk", .s r, .c]
  | .bool b => [.o "b", .i (if b then 1 else 0), .c]
  | .str s => [.o "s", .s s, .c]
  | .attr s => [.o "attr", .s s, .c]
  | .num a => match floatOf m a with
    | some v => [.o "n", .i v, .c]
    | none => [.bad]
  | .slice .. => fpSeq g m w
  | .map a => match kvsOf m a with
    | some kvs => [.o "map"] ++ (kvs.map fun kv => keyTok kv.1 :: g kv.2).flatten ++ [.c]
    | none => [.bad]
  | .set a => match kvsOf m a with
    | some kvs => [.o "set"] ++ (kvs.map fun kv => keyTok kv.1 :: fpSeq g m kv.2).flatten ++ [.c]
    | none => [.bad]
  | .marks a => match marksOf m a with
    | some ms => [.o "marks"] ++ ms.map .s ++ [.c]
    | none => [.bad]
  | .marked ms r => match marksOf m ms with
    | some l => [.o "mk"] ++ l.map .s ++ [.o "of"] ++ g r ++ [.c, .c]
    | none => [.bad]
  | .pair t v => [.o "v"] ++ g t ++ g v ++ [.c]
  | .tprim n => [.o "tp", .s n, .c]
  | .tlist e => [.o "tl"] ++ g e ++ [.c]
  | .tset e => [.o "te"] ++ g e ++ [.c]
  | .tmap e => [.o "tm"] ++ g e ++ [.c]
  | .ttuple e => [.o "tt"] ++ g e ++ [.c]
  | .tobject e => [.o "to"] ++ g e ++ [.c]

theorem fp_succ_eq (f : Nat) (m : Mem) (w : Word) : fp (f + 1) m w = fpStep (fp f m) m w := by
  cases w <;> rfl

theorem fpStep_congr {g g' : Word → List Tok} (hg : ∀ c, Tok.cut ∉ g c → g' c = g c) (m : Mem) (w : Word)
    (h : Tok.cut ∉ fpStep g m w) : fpStep g' m w = fpStep g m w := by
  cases w with
  | null | unk _ | bool _ | str _ | attr _ | tprim _ | num _ | marks _ => rfl
  | slice arr off len cap =>
    simp only [fpStep] at h ⊢
    exact fpSeq_congr fun arr' off' len' cap' cells e hc c hcm =>
      hg c (cut_not_mem_fpSeq h arr' off' len' cap' cells e hc c hcm)
  | map a =>
    simp only [fpStep] at h ⊢
    cases hk : kvsOf m a with
    | none => rfl
    | some kvs =>
      simp only [hk] at h ⊢
      have : (kvs.map fun kv => keyTok kv.1 :: g' kv.2) = (kvs.map fun kv => keyTok kv.1 :: g kv.2) := by
        apply List.map_congr_left
        intro kv hkv
        rw [hg kv.2]
        intro hcut
        apply h
        simp only [List.mem_append, List.mem_flatten, List.mem_map]
        exact .inl (.inr ⟨_, ⟨kv, hkv, rfl⟩, List.mem_cons_of_mem _ hcut⟩)
      rw [this]
  | set a =>
    simp only [fpStep] at h ⊢
    cases hk : kvsOf m a with
    | none => rfl
    | some kvs =>
      simp only [hk] at h ⊢
      have : (kvs.map fun kv => keyTok kv.1 :: fpSeq g' m kv.2) = (kvs.map fun kv => keyTok kv.1 :: fpSeq g m kv.2) := by
        apply List.map_congr_left
        intro kv hkv
        have hb : Tok.cut ∉ fpSeq g m kv.2 := by
          intro hcut
          apply h
          simp only [List.mem_append, List.mem_flatten, List.mem_map]
          exact .inl (.inr ⟨_, ⟨kv, hkv, rfl⟩, List.mem_cons_of_mem _ hcut⟩)
        rw [fpSeq_congr fun arr' off' len' cap' cells e hc c hcm =>
          hg c (cut_not_mem_fpSeq hb arr' off' len' cap' cells e hc c hcm)]
      rw [this]
  | marked ms r =>
    simp only [fpStep] at h ⊢
    cases hm : marksOf m ms with
    | none => rfl
    | some l =>
      simp only [hm] at h ⊢
      rw [hg r (fun hcut => h (by simp [hcut]))]
  | pair t v =>
    simp only [fpStep] at h ⊢
    rw [hg t (fun hcut => h (by simp [hcut])), hg v (fun hcut => h (by simp [hcut]))]
  | tlist e | tset e | tmap e | ttuple e | tobject e =>
    simp only [fpStep] at h ⊢
    rw [hg e (fun hcut => h (by simp [hcut]))]

/-- **one more unit of fuel changes nothing** once the fingerprint is complete -/
theorem fp_fuel_succ : ∀ (f : Nat) (m : Mem) (w : Word), Tok.cut ∉ fp f m w → fp (f + 1) m w = fp f m w := by
  intro f
  induction f with
  | zero => intro m w h; exact absurd (by simp [fp]) h
  | succ f ih =>
    intro m w h
    rw [fp_succ_eq (f + 1), fp_succ_eq f] at *
    exact fpStep_congr (fun c hc => ih m c hc) m w h

/-- a complete fingerprint is the fingerprint for every larger fuel -/
theorem fp_fuel_le {f f' : Nat} (hle : f ≤ f') (m : Mem) (w : Word) (h : Tok.cut ∉ fp f m w) :
    fp f' m w = fp f m w := by
  induction hle with
  | refl => rfl
  | step _ ih => rw [fp_fuel_succ _ m w (by rw [ih]; exact h), ih]

/-- `Equivalent` with another fuel -/
def equivWf (fuel : Nat) (m : Mem) (x y : Word) : Bool :=
  let fx := fp fuel m x
  fx == fp fuel m y && !fx.contains (.o "unk")

theorem equivWf_eqFuel (m : Mem) (x y : Word) : equivWf eqFuel m x y = equivW m x y := rfl

/-- on members whose fingerprints are complete at `eqFuel`, `Equivalent` does not depend on the fuel -/
theorem equivW_fuel {fuel : Nat} (hle : eqFuel ≤ fuel) (m : Mem) (x y : Word)
    (hx : Tok.cut ∉ fp eqFuel m x) (hy : Tok.cut ∉ fp eqFuel m y) : equivWf fuel m x y = equivW m x y := by
  simp only [equivWf, equivW, fp_fuel_le hle m x hx, fp_fuel_le hle m y hy]

end Heap
end CtyModel
