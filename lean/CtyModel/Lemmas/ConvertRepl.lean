/-
`dynamicReplace` on a placeholder-free target returns the target (without
annotations) unchanged, whatever the source type is.
-/
import CtyModel.Lemmas.ConvertBasic
namespace CtyModel
namespace Convert
open Ty

mutual
theorem dynRepl_id (E : Env) : ∀ (inT out : Ty), hasDyn out = false → wf out = true →
    dynRepl E inT (stripOpt out) = .ok (stripOpt out)
  | inT, .dyn, hd, _ => by simp [hasDyn] at hd
  | inT, .bool, _, _ => by cases inT <;> simp [stripOpt, dynRepl, Ty.isDyn]
  | inT, .number, _, _ => by cases inT <;> simp [stripOpt, dynRepl, Ty.isDyn]
  | inT, .string, _, _ => by cases inT <;> simp [stripOpt, dynRepl, Ty.isDyn]
  | inT, .capsule i, _, _ => by cases inT <;> simp [stripOpt, dynRepl, Ty.isDyn]
  | inT, .map oe, hd, hw => by
    have hw' : wf oe = true := by simpa [wf] using hw
    have hd' : hasDyn oe = false := by simpa [hasDyn] using hd
    cases inT <;> simp [stripOpt, dynRepl, Ty.isDyn]
    case map ie => rw [dynRepl_id E ie oe hd' hw']; rfl
    case object inn its ios =>
      cases hu : E.unifyG true its with
      | none => simp
      | some u => simp [dynRepl_id E u oe hd' hw', Res.map]
  | inT, .list oe, hd, hw => by
    have hw' : wf oe = true := by simpa [wf] using hw
    have hd' : hasDyn oe = false := by simpa [hasDyn] using hd
    cases inT <;> simp [stripOpt, dynRepl, Ty.isDyn]
    case list ie => rw [dynRepl_id E ie oe hd' hw']; rfl
    case set ie => rw [dynRepl_id E ie oe hd' hw']; rfl
    case tuple its =>
      cases hu : E.unifyG true its with
      | none => simp
      | some u => simp [dynRepl_id E u oe hd' hw', Res.map]
  | inT, .set oe, hd, hw => by
    have hw' : wf oe = true := by simpa [wf] using hw
    have hd' : hasDyn oe = false := by simpa [hasDyn] using hd
    cases inT <;> simp [stripOpt, dynRepl, Ty.isDyn]
    case list ie => rw [dynRepl_id E ie oe hd' hw']; rfl
    case set ie => rw [dynRepl_id E ie oe hd' hw']; rfl
    case tuple its =>
      cases hu : E.unifyG true its with
      | none => simp
      | some u => simp [dynRepl_id E u oe hd' hw', Res.map]
  | inT, .object on ots oo, hd, hw => by
    simp only [wf, Bool.and_eq_true, beq_iff_eq] at hw
    have hd' : hasDynL ots = false := by simpa [hasDyn] using hd
    cases inT <;> simp [stripOpt, dynRepl, Ty.isDyn]
    case map ie =>
      rw [dynReplAll_id E ie ots hd' hw.2]
      simp [Res.map]
    case object inn its ios =>
      rw [dynReplObj_id E inn its ios on ots hd' hw.2 hw.1.1.1]
      simp [Res.map]
  | inT, .tuple ots, hd, hw => by
    have hw' : wfL ots = true := by simpa [wf] using hw
    have hd' : hasDynL ots = false := by simpa [hasDyn] using hd
    cases inT <;> simp [stripOpt, dynRepl, Ty.isDyn]
    case tuple its =>
      by_cases hl : its.length = ots.length
      · simp [hl, stripOptL_length]
        rw [dynReplTup_id E its 0 ots (by omega) hd' hw']
        rfl
      · simp [hl, stripOptL_length]
termination_by structural _ out => out
theorem dynReplAll_id (E : Env) : ∀ (ie : Ty) (os : List Ty), hasDynL os = false → wfL os = true →
    dynReplAll E ie (stripOptL os) = .ok (stripOptL os)
  | _, [], _, _ => by simp [stripOptL, dynReplAll]
  | ie, o :: os, hd, hw => by
    simp only [wfL, Bool.and_eq_true] at hw
    simp only [hasDynL, Bool.or_eq_false_iff] at hd
    simp [stripOptL, dynReplAll, dynRepl_id E ie o hd.1 hw.1, dynReplAll_id E ie os hd.2 hw.2, Res.map]
termination_by structural _ os => os
theorem dynReplObj_id (E : Env) : ∀ (inn : List String) (its : List Ty) (ios : List Bool)
    (ns : List String) (os : List Ty), hasDynL os = false → wfL os = true →
    ns.length = os.length → dynReplObj E inn its ios ns (stripOptL os) = .ok (stripOptL os)
  | _, _, _, [], [], _, _, _ => by simp [stripOptL, dynReplObj]
  | _, _, _, [], _ :: _, _, _, hl => by simp at hl
  | _, _, _, _ :: _, [], _, _, hl => by simp at hl
  | inn, its, ios, n :: ns, o :: os, hd, hw, hl => by
    simp only [wfL, Bool.and_eq_true] at hw
    simp only [hasDynL, Bool.or_eq_false_iff] at hd
    have hl' : ns.length = os.length := by simpa using hl
    rw [stripOptL, dynReplObj]
    cases hf : Ty.find n inn its ios with
    | none => simp [dynReplObj_id E inn its ios ns os hd.2 hw.2 hl', Res.map]
    | some x =>
      obtain ⟨ity, b⟩ := x
      simp [dynRepl_id E ity o hd.1 hw.1, dynReplObj_id E inn its ios ns os hd.2 hw.2 hl', Res.map]
termination_by structural _ _ _ _ os => os
theorem dynReplTup_id (E : Env) : ∀ (its : List Ty) (ix : Nat) (os : List Ty),
    ix + os.length ≤ its.length → hasDynL os = false → wfL os = true →
    dynReplTup E (.tuple its) ix (stripOptL os) = .ok (stripOptL os)
  | _, _, [], _, _, _ => by simp [stripOptL, dynReplTup]
  | its, ix, o :: os, hl, hd, hw => by
    simp only [wfL, Bool.and_eq_true] at hw
    simp only [hasDynL, Bool.or_eq_false_iff] at hd
    have hix : ix < its.length := by simp at hl; omega
    rw [stripOptL, dynReplTup]
    simp only [List.getElem?_eq_getElem hix]
    simp [dynRepl_id E its[ix] o hd.1 hw.1,
      dynReplTup_id E its (ix + 1) os (by simp at hl ⊢; omega) hd.2 hw.2, Res.map]
termination_by structural _ _ os => os
end

end Convert
end CtyModel
