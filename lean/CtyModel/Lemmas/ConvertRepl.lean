/-
`dynamicReplace` on a placeholder-free target: under the compatibility it assumes
(`regular`), it returns the target (without annotations) unchanged.
-/
import CtyModel.Lemmas.ConvertBasic
namespace CtyModel
namespace Convert
open Ty

theorem all_of_regular {E : Env} {its : List Ty} {oe : Ty}
    (h : (its.all fun it => regular E it oe) = true) : ∀ t ∈ its, regular E t oe = true := by
  intro t ht
  exact List.all_eq_true.mp h t ht

mutual
theorem dynRepl_id (E : Env) (hU : UnifyLaws E) : ∀ (inT out : Ty),
    regular E inT out = true → hasDyn out = false → wf out = true →
    dynRepl E inT (stripOpt out) = .ok (stripOpt out)
  | inT, .dyn, _, hd, _ => by simp [hasDyn] at hd
  | inT, .bool, _, _, _ => by cases inT <;> simp [stripOpt, dynRepl, Ty.isDyn]
  | inT, .number, _, _, _ => by cases inT <;> simp [stripOpt, dynRepl, Ty.isDyn]
  | inT, .string, _, _, _ => by cases inT <;> simp [stripOpt, dynRepl, Ty.isDyn]
  | inT, .capsule i, _, _, _ => by cases inT <;> simp [stripOpt, dynRepl, Ty.isDyn]
  | inT, .map oe, hr, hd, hw => by
    have hw' : wf oe = true := by simpa [wf] using hw
    have hd' : hasDyn oe = false := by simpa [hasDyn] using hd
    cases inT <;> simp [stripOpt, dynRepl, regular, Ty.isDyn] at hr ⊢
    case map ie => rw [dynRepl_id E hU ie oe hr hd' hw']; rfl
    case object inn its ios =>
      cases hu : E.unifyG true its with
      | none => simp
      | some u =>
        have := hr.2
        simp only [hu] at this
        simp [dynRepl_id E hU u oe this hd' hw', Res.map]
  | inT, .list oe, hr, hd, hw => by
    have hw' : wf oe = true := by simpa [wf] using hw
    have hd' : hasDyn oe = false := by simpa [hasDyn] using hd
    cases inT <;> simp [stripOpt, dynRepl, regular, Ty.isDyn] at hr ⊢
    case list ie => rw [dynRepl_id E hU ie oe hr hd' hw']; rfl
    case set ie => rw [dynRepl_id E hU ie oe hr hd' hw']; rfl
    case tuple its =>
      cases hu : E.unifyG true its with
      | none => simp
      | some u =>
        have := hr.2
        simp only [hu] at this
        simp [dynRepl_id E hU u oe this hd' hw', Res.map]
  | inT, .set oe, hr, hd, hw => by
    have hw' : wf oe = true := by simpa [wf] using hw
    have hd' : hasDyn oe = false := by simpa [hasDyn] using hd
    cases inT <;> simp [stripOpt, dynRepl, regular, Ty.isDyn] at hr ⊢
    case list ie => rw [dynRepl_id E hU ie oe hr hd' hw']; rfl
    case set ie => rw [dynRepl_id E hU ie oe hr hd' hw']; rfl
    case tuple its =>
      cases hu : E.unifyG true its with
      | none => simp
      | some u =>
        have := hr.2
        simp only [hu] at this
        simp [dynRepl_id E hU u oe this hd' hw', Res.map]
  | inT, .object on ots oo, hr, hd, hw => by
    simp only [wf, Bool.and_eq_true, beq_iff_eq] at hw
    have hd' : hasDynL ots = false := by simpa [hasDyn] using hd
    cases inT <;> simp [stripOpt, dynRepl, regular, Ty.isDyn] at hr ⊢
    case map ie =>
      rw [dynReplAll_id E hU ie ots hr hd' hw.2]
      simp [Res.map]
    case object inn its ios =>
      rw [dynReplObj_id E hU inn its ios on ots hr hd' hw.2 hw.1.1.1]
      simp [Res.map]
  | inT, .tuple ots, hr, hd, hw => by
    have hw' : wfL ots = true := by simpa [wf] using hw
    have hd' : hasDynL ots = false := by simpa [hasDyn] using hd
    cases inT <;> simp [stripOpt, dynRepl, regular, Ty.isDyn] at hr ⊢
    case tuple its =>
      rw [dynReplTup_id E hU its 0 ots (by simpa using hr.2) (by simpa using hr.1) hd' hw']
      rfl
termination_by structural _ out => out
theorem dynReplAll_id (E : Env) (hU : UnifyLaws E) : ∀ (ie : Ty) (os : List Ty),
    regularAll E ie os = true → hasDynL os = false → wfL os = true →
    dynReplAll E ie (stripOptL os) = .ok (stripOptL os)
  | _, [], _, _, _ => by simp [stripOptL, dynReplAll]
  | ie, o :: os, hr, hd, hw => by
    simp only [wfL, Bool.and_eq_true] at hw
    simp only [regularAll, Bool.and_eq_true] at hr
    simp only [hasDynL, Bool.or_eq_false_iff] at hd
    simp [stripOptL, dynReplAll, dynRepl_id E hU ie o hr.1 hd.1 hw.1, dynReplAll_id E hU ie os hr.2 hd.2 hw.2,
      Res.map]
termination_by structural _ os => os
theorem dynReplObj_id (E : Env) (hU : UnifyLaws E) : ∀ (inn : List String) (its : List Ty) (ios : List Bool)
    (ns : List String) (os : List Ty),
    regularObj E inn its ios ns os = true → hasDynL os = false → wfL os = true →
    ns.length = os.length → dynReplObj E inn its ios ns (stripOptL os) = .ok (stripOptL os)
  | _, _, _, [], [], _, _, _, _ => by simp [stripOptL, dynReplObj]
  | _, _, _, [], _ :: _, _, _, _, hl => by simp at hl
  | _, _, _, _ :: _, [], _, _, _, hl => by simp at hl
  | inn, its, ios, n :: ns, o :: os, hr, hd, hw, hl => by
    simp only [wfL, Bool.and_eq_true] at hw
    simp only [regularObj, Bool.and_eq_true] at hr
    simp only [hasDynL, Bool.or_eq_false_iff] at hd
    have hl' : ns.length = os.length := by simpa using hl
    rw [stripOptL, dynReplObj]
    cases hf : Ty.find n inn its ios with
    | none => simp [dynReplObj_id E hU inn its ios ns os hr.2 hd.2 hw.2 hl', Res.map]
    | some x =>
      obtain ⟨ity, b⟩ := x
      have h1 := hr.1
      simp only [hf] at h1
      simp [dynRepl_id E hU ity o h1 hd.1 hw.1,
        dynReplObj_id E hU inn its ios ns os hr.2 hd.2 hw.2 hl', Res.map]
termination_by structural _ _ _ _ os => os
theorem dynReplTup_id (E : Env) (hU : UnifyLaws E) : ∀ (its : List Ty) (ix : Nat) (os : List Ty),
    regularZip E (its.drop ix) os = true → ix + os.length ≤ its.length →
    hasDynL os = false → wfL os = true → dynReplTup E (.tuple its) ix (stripOptL os) = .ok (stripOptL os)
  | _, _, [], _, _, _, _ => by simp [stripOptL, dynReplTup]
  | its, ix, o :: os, hr, hl, hd, hw => by
    simp only [wfL, Bool.and_eq_true] at hw
    simp only [hasDynL, Bool.or_eq_false_iff] at hd
    have hix : ix < its.length := by simp at hl; omega
    have hdrop : its.drop ix = its[ix] :: its.drop (ix + 1) := by
      rw [List.drop_eq_getElem_cons hix]
    rw [hdrop] at hr
    simp only [regularZip, Bool.and_eq_true] at hr
    rw [stripOptL, dynReplTup]
    simp only [List.getElem?_eq_getElem hix]
    simp [dynRepl_id E hU its[ix] o hr.1 hd.1 hw.1,
      dynReplTup_id E hU its (ix + 1) os hr.2 (by simp at hl ⊢; omega) hd.2 hw.2, Res.map]
termination_by structural _ _ os => os
end

end Convert
end CtyModel
