/-
C12, second deepening (slice d12b): the COMPOSITION theorem that turns a soundness fact about an
`Impl` callback into a soundness fact about `Function.Call`.

`Call` on weakened arguments does one of three things: it short-circuits on a dynamically typed
argument (result `cty.DynamicVal`, which admits everything), it short-circuits on an unknown argument
whose parameter does not declare `AllowUnknown` (result: the unknown of the predicted type, which
admits the concrete result because the `Type` callback is monotone), or it reaches `Impl` on exactly
the weakened arguments and the type `Type` predicted for them — and there the callback's own
soundness (`ImplSoundAt`) is what is needed, nothing more.
-/
import CtyModel.Lemmas.C12Funcs
namespace CtyModel
namespace D12b
open Fn Stdlib C12L

/-- **Soundness of an `Impl` callback on one pair of argument lists**, relative to the `Type` callback it
is registered with: whenever `Type` answers `rt` on the concrete and `rt'` on the weakened arguments and
`Impl` returns a (conforming) value on the concrete ones, it returns a conforming value on the weakened
ones that admits it.  (The concrete result is of a well-formed type and admits itself — true of every value
cty builds: `covers_refl`, Lemmas/d12bRefl.lean.) -/
def ImplSoundAt (tf : TypeFn) (impl : ImplFn) (os ws : List Value) : Prop :=
  ∀ rt rt' r, tf os = .ok rt → tf ws = .ok rt' → impl os rt = .ok r → Ty.conformErrs rt r.ty = 0 →
    Ty.wf rt' = true → Ty.wf r.ty = true → Covers r r = true →
    ∃ r', impl ws rt' = .ok r' ∧ Ty.conformErrs rt' r'.ty = 0 ∧ Covers r' r = true

/-- every argument passes the per-argument checks of `returnTypeForValues` (not null where nulls are
refused, not dynamically typed where the parameter does not say `AllowDynamicType`, conforming) -/
def Passes (spec : Spec) (ws : List Value) : Prop := firstFail (spec.expand ws.length) ws = none

/-- no argument is an unknown that its parameter refuses (`AllowUnknown` unset): `Impl` is reached -/
def ReachesImpl (spec : Spec) (ws : List Value) : Prop := (pass2 (spec.expand ws.length) ws).unknown = false

/-- the `Type` callback is monotone on this pair of argument lists -/
def TypeMonoAt (tf : TypeFn) (os ws : List Value) : Prop :=
  ∀ t, tf os = .ok t → ∃ t', tf ws = .ok t' ∧ C11.Admits t' t

theorem pass2_known_args (ps : List Param) (args : List Value) (hk : ∀ a ∈ args, a.isKnown = true) :
    (pass2 ps args).unknown = false := by
  cases hu : (pass2 ps args).unknown with
  | false => rfl
  | true =>
    exfalso
    obtain ⟨i, p, v, _, hv, hb⟩ := pass2_unknown_true hu
    have hvm : v ∈ args := List.mem_of_getElem? hv
    have := hk v hvm
    simp [Param.blocksUnknown, this] at hb

/-- **From `Impl` to `Call`** (before the declared refinement), for ALL specs.  Concrete arguments known
at the top and mark-free; weakened arguments mark-free, admitting the concrete ones position by position
and keeping their types or taking the placeholder; `Type` monotone and answering a well-formed type on
the weakened arguments; `Impl` sound on this pair (both only needed when the weakened arguments pass the
per-argument checks, resp. reach `Impl`).  Then the weakened call succeeds and its result admits
the concrete result. -/
theorem call_sound_of_impl (spec : Spec) (tf : TypeFn) (impl : ImplFn) (os ws : List Value) (r : Value)
    (hm : Passes spec ws → TypeMonoAt tf os ws) (hTw : ∀ t, tf ws = .ok t → Ty.wf t = true)
    (hko : ∀ a ∈ os, a.isKnown = true)
    (hmo : ∀ a ∈ os, a.containsMarked = false) (hmw : ∀ a ∈ ws, a.containsMarked = false)
    (hcov : coversAll ws os = true) (hty : TyKept ws os) (hrwf : Ty.wf r.ty = true) (hrefl : Covers r r = true)
    (hi : Passes spec ws → ReachesImpl spec ws → ImplSoundAt tf impl os ws)
    (hr : (callUnrefined spec tf impl os).1 = .ok r) :
    ∃ r', (callUnrefined spec tf impl ws).1 = .ok r' ∧ Covers r' r = true := by
  have hlen : ws.length = os.length := coversAll_length ws os hcov
  rw [callUnrefined_eq] at hr ⊢
  by_cases hc : spec.countOK os.length = true
  · have hc' : spec.countOK ws.length = true := by rw [hlen]; exact hc
    simp only [hc, if_true] at hr
    simp only [hc', if_true]
    obtain ⟨hA, hB⟩ := firstFail_weaken (spec.expand os.length) ws os hmw hmo hcov hty
    rw [hlen]
    obtain ⟨htw, hiw, huw⟩ := unmarked_args hc' hmw
    obtain ⟨hto, hio, huo⟩ := unmarked_args hc hmo
    cases hfo : firstFail (spec.expand os.length) os with
    | some kf =>
      obtain ⟨k, f⟩ := kf
      rw [hfo] at hr
      cases f with
      | null => simp at hr
      | nonconforming => simp at hr
      | dynamic =>
        obtain ⟨j, hj⟩ := hB k hfo
        rw [hj]
        exact ⟨_, rfl, by rw [huw]; exact covers_dynVal r⟩
    | none =>
      rw [hfo] at hr
      rcases hA hfo with hw | ⟨k, hw⟩
      · rw [hw]
        simp only
        rw [hto] at hr
        rw [htw]
        cases hto' : tf os with
        | err c => rw [hto'] at hr; simp at hr
        | panic w => rw [hto'] at hr; simp at hr
        | unmodelled => rw [hto'] at hr; simp at hr
        | ok t0 =>
          have hpass : Passes spec ws := by unfold Passes; rw [hlen]; exact hw
          obtain ⟨t1, ht1, had⟩ := hm hpass t0 hto'
          rw [hto'] at hr
          simp only at hr
          rw [pass2_known_args _ os hko] at hr
          simp only [Bool.false_eq_true, if_false, hio] at hr
          rw [ht1]
          simp only
          -- the concrete call reached `Impl`
          cases hio' : impl os t0 with
          | err c => rw [hio'] at hr; simp at hr
          | panic w => rw [hio'] at hr; simp at hr
          | unmodelled => rw [hio'] at hr; simp at hr
          | ok v =>
            rw [hio'] at hr
            simp only at hr
            by_cases hcf : (Ty.conformErrs t0 v.ty != 0) = true
            · simp [hcf] at hr
            · simp only [hcf, Bool.false_eq_true, if_false, Out.ok.injEq] at hr
              have hvr : v = r := by
                rw [← hr]; unfold withUnhandled; simp [huo]
              subst hvr
              have hconf : Ty.conformErrs t0 v.ty = 0 := by simpa using hcf
              rw [← hlen]
              cases hu : (pass2 (spec.expand ws.length) ws).unknown with
              | true =>
                simp only [if_true]
                refine ⟨_, rfl, ?_⟩
                rw [huw]
                have hmt : Ty.matches t1 v.ty = true :=
                  (Ty.conform_iff t1 v.ty (hTw t1 ht1) hrwf).mp (had _ hconf)
                have : Fn.withMarkSets (Value.unknown t1) [] = Value.unknown t1 := rfl
                rw [this]
                exact unknown_covers_of_matches t1 v hmt
              | false =>
                simp only [Bool.false_eq_true, if_false]
                rw [hiw]
                obtain ⟨r', hr', hcr', hcov'⟩ := hi hpass hu t0 t1 v hto' ht1 hio' hconf (hTw t1 ht1) hrwf hrefl
                rw [hr']
                simp only
                have : (Ty.conformErrs t1 r'.ty != 0) = false := by simp [hcr']
                simp only [this, Bool.false_eq_true, if_false]
                refine ⟨_, rfl, ?_⟩
                have : withUnhandled spec ws r' = r' := by unfold withUnhandled; simp [huw]
                rw [this]
                exact hcov'
      · rw [hw]
        exact ⟨_, rfl, by rw [huw]; exact covers_dynVal r⟩
  · simp [hc] at hr

end D12b
end CtyModel
