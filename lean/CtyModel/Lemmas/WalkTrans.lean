/-
Transform with the identity callback: what it rebuilds is what it was given.

Side conditions (beyond `shaped`): the types are well formed and carry no
optional-attribute annotation (`tyOk` — `ObjectVal` builds plain object types),
and every set is *stable* under a rebuild from its iteration order
(`SetsStable`: `SetVal` of the members in `X.iter` order yields the same bucket
layout — i.e. the stored hashes are the members' hashes, no two members are
equivalent, and members that share a bucket are stored in iteration order).
-/
import CtyModel.Lemmas.WalkPre
import CtyModel.Lemmas.WalkShape
import CtyModel.Lemmas.TyEq
namespace CtyModel
namespace Walk
open Value

/-! ### the side conditions and their inheritance -/

def tyOk (t : Ty) : Bool := Ty.wf t && !Ty.hasOpt t

mutual
/-- every set inside is reproduced by `SetVal` of its members in iteration order
(and holds nothing `Value.equals` does not model) -/
def SetsStable (X : SetOracle) : Ty → Payload → Prop
  | t, .marked _ r => SetsStable X t r
  | .list e, .seq vs => SetsStableAll X e vs
  | .set e, .sset ids vs =>
    modelledL (X.iter e ids vs) = true ∧
    ofBuckets (SetImpl.fromList (setRules X e) (X.iter e ids vs)).buckets = (ids, vs) ∧
    SetsStableAll X e vs
  | .map e, .smap _ vs => SetsStableAll X e vs
  | .tuple ts, .seq vs => SetsStableZip X ts vs
  | .object _ ts _, .smap _ vs => SetsStableZip X ts vs
  | _, _ => True
def SetsStableAll (X : SetOracle) : Ty → List Payload → Prop
  | _, [] => True
  | e, v :: vs => SetsStable X e v ∧ SetsStableAll X e vs
def SetsStableZip (X : SetOracle) : List Ty → List Payload → Prop
  | t :: ts, v :: vs => SetsStable X t v ∧ SetsStableZip X ts vs
  | _, _ => True
end

/-- all the side conditions of the identity-transform theorems, for one value -/
structure Good (X : SetOracle) (v : Value) : Prop where
  shaped : shapedV v = true
  ty : tyOk v.ty = true
  sets : SetsStable X v.ty v.v

theorem wfL_mem : ∀ {ts : List Ty}, Ty.wfL ts = true → ∀ t ∈ ts, Ty.wf t = true
  | [], _, _, h => by cases h
  | t :: ts, hw, x, hx => by
    simp only [Ty.wfL, Bool.and_eq_true] at hw
    rcases List.mem_cons.mp hx with rfl | hx
    · exact hw.1
    · exact wfL_mem hw.2 x hx

theorem hasOptL_mem : ∀ {ts : List Ty}, Ty.hasOptL ts = false → ∀ t ∈ ts, Ty.hasOpt t = false
  | [], _, _, h => by cases h
  | t :: ts, hw, x, hx => by
    simp only [Ty.hasOptL, Bool.or_eq_false_iff] at hw
    rcases List.mem_cons.mp hx with rfl | hx
    · exact hw.1
    · exact hasOptL_mem hw.2 x hx

theorem tyOk_list {e : Ty} (h : tyOk (.list e) = true) : tyOk e = true := by
  simpa [tyOk, Ty.wf, Ty.hasOpt] using h
theorem tyOk_set {e : Ty} (h : tyOk (.set e) = true) : tyOk e = true := by
  simpa [tyOk, Ty.wf, Ty.hasOpt] using h
theorem tyOk_map {e : Ty} (h : tyOk (.map e) = true) : tyOk e = true := by
  simpa [tyOk, Ty.wf, Ty.hasOpt] using h
theorem tyOk_tuple {ts : List Ty} (h : tyOk (.tuple ts) = true) : ∀ t ∈ ts, tyOk t = true := by
  simp only [tyOk, Ty.wf, Ty.hasOpt, Bool.and_eq_true, Bool.not_eq_true'] at h
  intro t ht
  simp [tyOk, wfL_mem h.1 t ht, hasOptL_mem h.2 t ht]
theorem any_false_eq_map : ∀ (os : List Bool) (ns : List String), os.any id = false →
    os.length = ns.length → os = ns.map (fun _ => false)
  | [], [], _, _ => rfl
  | [], _ :: _, _, h => by simp at h
  | _ :: _, [], _, h => by simp at h
  | o :: os, n :: ns, h, hlen => by
    simp only [List.any_cons, id, Bool.or_eq_false_iff] at h
    simp only [List.map_cons, List.cons.injEq]
    exact ⟨h.1, any_false_eq_map os ns h.2 (by simpa using hlen)⟩

theorem tyOk_object {ns : List String} {ts : List Ty} {os : List Bool}
    (h : tyOk (.object ns ts os) = true) :
    (∀ t ∈ ts, tyOk t = true) ∧ os = ns.map (fun _ => false) := by
  simp only [tyOk, Ty.wf, Ty.hasOpt, Bool.and_eq_true, Bool.not_eq_true', Bool.or_eq_false_iff,
    beq_iff_eq] at h
  obtain ⟨⟨⟨⟨h1, h2⟩, _⟩, h4⟩, h5, h6⟩ := h
  exact ⟨fun t ht => by simp [tyOk, wfL_mem h4 t ht, hasOptL_mem h6 t ht],
    any_false_eq_map os ns h5 (by omega)⟩

theorem SetsStableAll_mem {X : SetOracle} {e : Ty} : ∀ {vs : List Payload}, SetsStableAll X e vs →
    ∀ m ∈ vs, SetsStable X e m
  | [], _, _, h => by cases h
  | v :: vs, hs, m, hm => by
    simp only [SetsStableAll] at hs
    rcases List.mem_cons.mp hm with rfl | hm
    · exact hs.1
    · exact SetsStableAll_mem hs.2 m hm

theorem SetsStable_unmark1 {X : SetOracle} {t : Ty} {p : Payload} (h : SetsStable X t p) :
    SetsStable X t p.unmark1 := by
  cases p <;> simp only [Payload.unmark1] <;> try exact h

/-! type and stability of each member, per kind -/

theorem seqKids_info (X : SetOracle) {e : Ty} : ∀ (i : Nat) (vs : List Payload),
    ∀ c ∈ seqKids e i vs, c.2.ty = e ∧ (SetsStableAll X e vs → SetsStable X c.2.ty c.2.v)
  | _, [], _, h => by simp [seqKids] at h
  | i, v :: vs, c, h => by
    simp only [seqKids, List.mem_cons] at h
    rcases h with rfl | h
    · exact ⟨rfl, fun hs => hs.1⟩
    · exact ⟨(seqKids_info X (i + 1) vs c h).1, fun hs => (seqKids_info X (i + 1) vs c h).2 hs.2⟩

theorem setKids_info (X : SetOracle) {e : Ty} : ∀ (ms : List Payload),
    ∀ c ∈ setKids e ms, c.2.ty = e ∧ ((∀ m ∈ ms, SetsStable X e m) → SetsStable X c.2.ty c.2.v)
  | [], _, h => by simp [setKids] at h
  | m :: ms, c, h => by
    simp only [setKids, List.mem_cons] at h
    rcases h with rfl | h
    · exact ⟨rfl, fun hs => hs m (by simp)⟩
    · exact ⟨(setKids_info X ms c h).1,
        fun hs => (setKids_info X ms c h).2 (fun x hx => hs x (List.mem_cons_of_mem _ hx))⟩

theorem mapKids_info (X : SetOracle) {e : Ty} : ∀ (ks : List String) (vs : List Payload),
    ∀ c ∈ mapKids e ks vs, c.2.ty = e ∧ (SetsStableAll X e vs → SetsStable X c.2.ty c.2.v)
  | [], _, _, h => by simp [mapKids] at h
  | _ :: _, [], _, h => by simp [mapKids] at h
  | k :: ks, v :: vs, c, h => by
    simp only [mapKids, List.mem_cons] at h
    rcases h with rfl | h
    · exact ⟨rfl, fun hs => hs.1⟩
    · exact ⟨(mapKids_info X ks vs c h).1, fun hs => (mapKids_info X ks vs c h).2 hs.2⟩

theorem tupKids_info (X : SetOracle) : ∀ (i : Nat) (ts : List Ty) (vs : List Payload),
    ∀ c ∈ tupKids i ts vs, c.2.ty ∈ ts ∧ (SetsStableZip X ts vs → SetsStable X c.2.ty c.2.v)
  | _, [], _, _, h => by simp [tupKids] at h
  | _, _ :: _, [], _, h => by simp [tupKids] at h
  | i, t :: ts, v :: vs, c, h => by
    simp only [tupKids, List.mem_cons] at h
    rcases h with rfl | h
    · exact ⟨by simp, fun hs => hs.1⟩
    · exact ⟨List.mem_cons_of_mem _ (tupKids_info X (i + 1) ts vs c h).1,
        fun hs => (tupKids_info X (i + 1) ts vs c h).2 hs.2⟩

theorem objKids_info (X : SetOracle) : ∀ (ns : List String) (ts : List Ty) (vs : List Payload),
    ∀ c ∈ objKids ns ts vs, c.2.ty ∈ ts ∧ (SetsStableZip X ts vs → SetsStable X c.2.ty c.2.v)
  | [], _, _, _, h => by simp [objKids] at h
  | _ :: _, [], _, _, h => by simp [objKids] at h
  | _ :: _, _ :: _, [], _, h => by simp [objKids] at h
  | n :: ns, t :: ts, v :: vs, c, h => by
    simp only [objKids, List.mem_cons] at h
    rcases h with rfl | h
    · exact ⟨by simp, fun hs => hs.1⟩
    · exact ⟨List.mem_cons_of_mem _ (objKids_info X ns ts vs c h).1,
        fun hs => (objKids_info X ns ts vs c h).2 hs.2⟩

/-- the members of a good (unmarked) value are good -/
theorem children_good {X : SetOracle} (hX : IterPerm X) (v : Value) (h : Good X v)
    (c : PathStep × Value) (hc : c ∈ children X v) : Good X c.2 := by
  have hsh := children_shaped hX v h.shaped c hc
  obtain ⟨ty, p⟩ := v
  have hty := h.ty
  have hst := h.sets
  cases ty <;> cases p <;> simp only [children, List.not_mem_nil] at hc <;>
    simp only [SetsStable] at hst
  · have := seqKids_info X _ _ c hc
    exact ⟨hsh, by rw [this.1]; exact tyOk_list hty, this.2 hst⟩
  · have := setKids_info X _ c hc
    exact ⟨hsh, by rw [this.1]; exact tyOk_set hty,
      this.2 (fun m hm => SetsStableAll_mem hst.2.2 m ((hX _ _ _).mem_iff.mp hm))⟩
  · have := mapKids_info X _ _ c hc
    exact ⟨hsh, by rw [this.1]; exact tyOk_map hty, this.2 hst⟩
  · have := tupKids_info X _ _ _ c hc
    exact ⟨hsh, tyOk_tuple hty _ this.1, this.2 hst⟩
  · have := objKids_info X _ _ _ c hc
    exact ⟨hsh, (tyOk_object hty).1 _ this.1, this.2 hst⟩

theorem Good.unmark {X : SetOracle} {v : Value} (h : Good X v) : Good X v.unmark :=
  ⟨shaped_unmark1 h.shaped, h.ty, SetsStable_unmark1 h.sets⟩

theorem kids_good {X : SetOracle} (hX : IterPerm X) (v : Value) (h : Good X v)
    (c : PathStep × Value) (hc : c ∈ kids X v) : Good X c.2 := by
  simp only [kids] at hc
  split at hc
  · cases hc
  · exact children_good hX v.unmark h.unmark c hc

/-! ### rebuilding a value from its own members -/

theorem withMarks_restore {t : Ty} {p : Payload} (h : shaped t p = true) :
    (⟨t, p.unmark1⟩ : Value).withMarks p.marks1 = ⟨t, p⟩ := by
  cases p <;> try rfl
  rename_i ms r
  simp only [shaped, Bool.and_eq_true, Bool.not_eq_true'] at h
  have hr : r.marks1 = [] := by cases r <;> simp_all [Payload.marks1, Payload.isMarked]
  have hr' : r.unmark1 = r := by cases r <;> simp_all [Payload.unmark1, Payload.isMarked]
  have hne : ms.isEmpty = false := h.1.1
  show (⟨t, r⟩ : Value).withMarks ms = ⟨t, .marked ms r⟩
  simp only [Value.withMarks, Payload.withMarks, hr, hr', unionMarks, List.foldr_nil, hne,
    Bool.false_eq_true, if_false]

theorem unify_same (e : Ty) (he : Ty.equals e e = true) : ∀ (vs : List Value),
    (∀ v ∈ vs, v.ty = e) → unifyElemTy e vs = .ok e
  | [], _ => rfl
  | v :: vs, h => by
    have hv : v.ty = e := h v (by simp)
    simp only [unifyElemTy, hv]
    by_cases hd : e.isDyn = true
    · simp only [hd, if_true]
      exact unify_same e he vs (fun x hx => h x (List.mem_cons_of_mem _ hx))
    · simp only [hd, Bool.false_eq_true, if_false, he, Bool.not_true, Bool.and_false]
      exact unify_same e he vs (fun x hx => h x (List.mem_cons_of_mem _ hx))

theorem unify_dyn (e : Ty) (he : Ty.equals e e = true) (v : Value) (vs : List Value)
    (h : ∀ x ∈ v :: vs, x.ty = e) : unifyElemTy .dyn (v :: vs) = .ok e := by
  have hv : v.ty = e := h v (by simp)
  simp only [unifyElemTy, Ty.isDyn, if_true, hv]
  exact unify_same e he vs (fun x hx => h x (List.mem_cons_of_mem _ hx))

theorem equals_self {t : Ty} (h : tyOk t = true) : Ty.equals t t = true := by
  simp only [tyOk, Bool.and_eq_true] at h
  exact (Ty.equals_iff_eq t t h.1 h.1).mpr rfl

theorem seqKids_vals (e : Ty) : ∀ (i : Nat) (vs : List Payload),
    (seqKids e i vs).map (·.2) = vs.map (fun p => (⟨e, p⟩ : Value))
  | _, [] => rfl
  | i, v :: vs => by simp [seqKids, seqKids_vals e (i + 1) vs]

theorem setKids_vals (e : Ty) : ∀ (ms : List Payload),
    (setKids e ms).map (·.2) = ms.map (fun p => (⟨e, p⟩ : Value))
  | [] => rfl
  | m :: ms => by simp [setKids, setKids_vals e ms]

theorem mapKids_vals (e : Ty) : ∀ (ks : List String) (vs : List Payload), ks.length = vs.length →
    (mapKids e ks vs).map (·.2) = vs.map (fun p => (⟨e, p⟩ : Value))
  | [], [], _ => rfl
  | [], _ :: _, h => by simp at h
  | _ :: _, [], h => by simp at h
  | k :: ks, v :: vs, h => by simp [mapKids, mapKids_vals e ks vs (by simpa using h)]

theorem tupKids_vals : ∀ (i : Nat) (ts : List Ty) (vs : List Payload), ts.length = vs.length →
    ((tupKids i ts vs).map (·.2)).map (·.ty) = ts ∧ ((tupKids i ts vs).map (·.2)).map (·.v) = vs
  | _, [], [], _ => ⟨rfl, rfl⟩
  | _, [], _ :: _, h => by simp at h
  | _, _ :: _, [], h => by simp at h
  | i, t :: ts, v :: vs, h => by
    have := tupKids_vals (i + 1) ts vs (by simpa using h)
    simp [tupKids, this.1, this.2]

theorem objKids_vals : ∀ (ns : List String) (ts : List Ty) (vs : List Payload),
    ns.length = ts.length → ts.length = vs.length →
    ((objKids ns ts vs).map (·.2)).map (·.ty) = ts ∧ ((objKids ns ts vs).map (·.2)).map (·.v) = vs
  | [], [], [], _, _ => ⟨rfl, rfl⟩
  | [], _ :: _, _, h, _ => by simp at h
  | _ :: _, [], _, h, _ => by simp at h
  | _, _ :: _, [], _, h => by simp at h
  | [], [], _ :: _, _, h => by simp at h
  | n :: ns, t :: ts, v :: vs, h1, h2 => by
    have := objKids_vals ns ts vs (by simpa using h1) (by simpa using h2)
    simp [objKids, this.1, this.2]

theorem listVal_id (e : Ty) (he : Ty.equals e e = true) (vs : List Payload) (hne : vs ≠ []) :
    listVal (vs.map (fun p => (⟨e, p⟩ : Value))) = .ok ⟨.list e, .seq vs⟩ := by
  cases vs with
  | nil => exact absurd rfl hne
  | cons v vs =>
    have hu := unify_dyn e he ⟨e, v⟩ (vs.map (fun p => (⟨e, p⟩ : Value)))
      (by intro x hx; simp only [List.mem_cons, List.mem_map] at hx
          rcases hx with rfl | ⟨p, _, rfl⟩ <;> rfl)
    simp only [listVal, List.map_cons, List.isEmpty_cons, Bool.false_eq_true, if_false, hu, Res.map]
    simp [Function.comp_def]

theorem mapVal_id (e : Ty) (he : Ty.equals e e = true) (ks : List String) (vs : List Payload)
    (hne : vs ≠ []) :
    mapVal ks (vs.map (fun p => (⟨e, p⟩ : Value))) = .ok ⟨.map e, .smap ks vs⟩ := by
  cases vs with
  | nil => exact absurd rfl hne
  | cons v vs =>
    have hu := unify_dyn e he ⟨e, v⟩ (vs.map (fun p => (⟨e, p⟩ : Value)))
      (by intro x hx; simp only [List.mem_cons, List.mem_map] at hx
          rcases hx with rfl | ⟨p, _, rfl⟩ <;> rfl)
    simp only [mapVal, List.map_cons, List.isEmpty_cons, Bool.false_eq_true, if_false, hu, Res.map]
    simp [Function.comp_def]

/-! mark-free payloads -/

mutual
theorem stripMarks_id : ∀ p : Payload, p.containsMarked = false → p.stripMarks = p
  | .marked _ r, h => by simp [Payload.containsMarked] at h
  | .seq vs, h => by
    simp only [Payload.stripMarks, stripMarksL_id vs (by simpa [Payload.containsMarked] using h)]
  | .smap _ vs, h => by
    simp only [Payload.stripMarks, stripMarksL_id vs (by simpa [Payload.containsMarked] using h)]
  | .sset _ vs, h => by
    simp only [Payload.stripMarks, stripMarksL_id vs (by simpa [Payload.containsMarked] using h)]
  | .null, _ | .unk _, _ | .b _, _ | .n _, _ | .s _, _ | .caps, _ | .bad _, _ => by
    simp [Payload.stripMarks]
theorem stripMarksL_id : ∀ vs : List Payload, Payload.containsMarkedL vs = false →
    Payload.stripMarksL vs = vs
  | [], _ => rfl
  | v :: vs, h => by
    simp only [Payload.containsMarkedL, Bool.or_eq_false_iff] at h
    simp only [Payload.stripMarksL, stripMarks_id v h.1, stripMarksL_id vs h.2]
end

mutual
theorem marksDeep_nil : ∀ p : Payload, p.containsMarked = false → p.marksDeep = []
  | .marked _ r, h => by simp [Payload.containsMarked] at h
  | .seq vs, h => by
    simpa [Payload.marksDeep] using marksDeepL_nil vs (by simpa [Payload.containsMarked] using h)
  | .smap _ vs, h => by
    simpa [Payload.marksDeep] using marksDeepL_nil vs (by simpa [Payload.containsMarked] using h)
  | .sset _ vs, h => by
    simpa [Payload.marksDeep] using marksDeepL_nil vs (by simpa [Payload.containsMarked] using h)
  | .null, _ | .unk _, _ | .b _, _ | .n _, _ | .s _, _ | .caps, _ | .bad _, _ => by
    simp [Payload.marksDeep]
theorem marksDeepL_nil : ∀ vs : List Payload, Payload.containsMarkedL vs = false →
    Payload.marksDeepL vs = []
  | [], _ => rfl
  | v :: vs, h => by
    simp only [Payload.containsMarkedL, Bool.or_eq_false_iff] at h
    simp [Payload.marksDeepL, marksDeep_nil v h.1, marksDeepL_nil vs h.2, unionMarks]
end

theorem containsMarkedL_mem : ∀ {vs : List Payload}, Payload.containsMarkedL vs = false →
    ∀ m ∈ vs, m.containsMarked = false
  | [], _, _, h => by cases h
  | v :: vs, h, m, hm => by
    simp only [Payload.containsMarkedL, Bool.or_eq_false_iff] at h
    rcases List.mem_cons.mp hm with rfl | hm
    · exact h.1
    · exact containsMarkedL_mem h.2 m hm

/-- `SetVal` of the members of a stable set, in iteration order, is the set -/
theorem setVal_id (X : SetOracle) (e : Ty) (he : Ty.equals e e = true) (ids : List Int)
    (vs ms : List Payload) (hne : ms ≠ []) (hfree : ∀ m ∈ ms, m.containsMarked = false)
    (hmod : modelledL ms = true)
    (hst : ofBuckets (SetImpl.fromList (setRules X e) ms).buckets = (ids, vs)) :
    setVal X (ms.map (fun p => (⟨e, p⟩ : Value))) = .ok ⟨.set e, .sset ids vs⟩ := by
  have hus : (ms.map (fun p => (⟨e, p⟩ : Value))).map Value.unmarkDeep =
      ms.map (fun p => (⟨e, p⟩ : Value)) := by
    rw [List.map_map]
    apply List.map_congr_left
    intro m hm
    simp [Value.unmarkDeep, stripMarks_id m (hfree m hm)]
  have hmarks : (ms.map (fun p => (⟨e, p⟩ : Value))).foldl
      (fun acc v => unionMarks acc v.marksDeep) [] = [] := by
    suffices h : ∀ (l : List Payload), (∀ m ∈ l, m.containsMarked = false) →
        (l.map (fun p => (⟨e, p⟩ : Value))).foldl (fun acc v => unionMarks acc v.marksDeep) [] = [] from
      h ms hfree
    intro l
    induction l with
    | nil => intro _; rfl
    | cons m l ih =>
      intro hl
      simp only [List.map_cons, List.foldl_cons, Value.marksDeep, marksDeep_nil m (hl m (by simp)),
        unionMarks, List.foldr_nil]
      exact ih (fun x hx => hl x (List.mem_cons_of_mem _ hx))
  cases ms with
  | nil => exact absurd rfl hne
  | cons m ms =>
    have hu := unify_dyn e he ⟨e, m⟩ (ms.map (fun p => (⟨e, p⟩ : Value)))
      (by intro x hx; simp only [List.mem_cons, List.mem_map] at hx
          rcases hx with rfl | ⟨p, _, rfl⟩ <;> rfl)
    have hvals : ((m :: ms).map (fun p => (⟨e, p⟩ : Value))).map (·.v) = m :: ms := by
      simp [Function.comp_def]
    simp only [setVal]
    rw [hus, hmarks]
    simp only [List.map_cons, List.isEmpty_cons, Bool.false_eq_true, if_false] at hu ⊢
    rw [hu]
    simp only [List.map_cons] at hvals
    simp only [hvals, hmod, Bool.not_true, Bool.false_eq_true, if_false, hst]
    rfl

/-! ### the schedule of the object branch -/

/-- a schedule visits each attribute once -/
def SchedOk (σ : Sched) : Prop := ∀ path ns, (σ path ns).Perm ns

theorem schedOk_sorted : SchedOk Sched.sorted := fun _ _ => List.Perm.refl _

theorem filterMap_congr' {α β} {f g : α → Option β} : ∀ {l : List α}, (∀ x ∈ l, f x = g x) →
    l.filterMap f = l.filterMap g
  | [], _ => rfl
  | a :: l, h => by
    simp only [List.filterMap_cons, h a (by simp)]
    rw [filterMap_congr' (fun x hx => h x (List.mem_cons_of_mem _ hx))]

theorem findAttr_some_of_mem : ∀ (ns : List String) (ts : List Ty) (vs : List Payload) (m : String),
    ns.length = ts.length → ts.length = vs.length → m ∈ ns →
    ∃ c, findAttr m (objKids ns ts vs) = some c
  | [], _, _, _, _, _, h => by cases h
  | _ :: _, [], _, _, h, _, _ => by simp at h
  | _ :: _, _ :: _, [], _, _, h, _ => by simp at h
  | n :: ns, t :: ts, v :: vs, m, h1, h2, hm => by
    simp only [objKids, findAttr]
    by_cases hn : n = m
    · exact ⟨(.getAttr n, ⟨t, v⟩), by simp [hn]⟩
    · simp only [hn, if_false]
      rcases List.mem_cons.mp hm with rfl | hm
      · exact absurd rfl hn
      · exact findAttr_some_of_mem ns ts vs m (by simpa using h1) (by simpa using h2) hm

/-- the sorted schedule is the stored order -/
theorem schedKids_self : ∀ (ns : List String) (ts : List Ty) (vs : List Payload), ns.Nodup →
    ns.length = ts.length → ts.length = vs.length →
    schedKids ns (objKids ns ts vs) = objKids ns ts vs
  | [], _, _, _, _, _ => by simp [schedKids, objKids]
  | _ :: _, [], _, _, h, _ => by simp at h
  | _ :: _, _ :: _, [], _, _, h => by simp at h
  | n :: ns, t :: ts, v :: vs, hnd, h1, h2 => by
    have ⟨hnot, hnd'⟩ := List.nodup_cons.mp hnd
    have ih := schedKids_self ns ts vs hnd' (by simpa using h1) (by simpa using h2)
    simp only [schedKids, objKids, List.filterMap_cons, findAttr, if_true]
    congr 1
    have step : ns.filterMap (fun m => findAttr m ((PathStep.getAttr n, (⟨t, v⟩ : Value)) :: objKids ns ts vs)) =
        ns.filterMap (fun m => findAttr m (objKids ns ts vs)) := by
      apply filterMap_congr'
      intro m hm
      have : n ≠ m := fun h => hnot (h ▸ hm)
      simp [findAttr, this]
    exact step.trans ih

theorem schedKids_perm {order ns : List String} (ts : List Ty) (vs : List Payload)
    (hp : order.Perm ns) (hnd : ns.Nodup) (h1 : ns.length = ts.length) (h2 : ts.length = vs.length) :
    (schedKids order (objKids ns ts vs)).Perm (objKids ns ts vs) := by
  have h := hp.filterMap (fun n => findAttr n (objKids ns ts vs))
  have hs : ns.filterMap (fun n => findAttr n (objKids ns ts vs)) = objKids ns ts vs :=
    schedKids_self ns ts vs hnd h1 h2
  rw [hs] at h
  exact h

theorem lookupVal_sched (g : PathStep × Value → Value) (cs : List (PathStep × Value)) : ∀ (order : List String),
    (∀ m ∈ order, ∃ c, findAttr m cs = some c) → ∀ n ∈ order,
    lookupVal n order ((order.filterMap (fun m => findAttr m cs)).map g) =
      (findAttr n cs).map g
  | [], _, _, h => by cases h
  | m :: rest, hall, n, hn => by
    obtain ⟨c, hc⟩ := hall m (by simp)
    simp only [List.filterMap_cons, hc, List.map_cons, lookupVal]
    by_cases hmn : m = n
    · subst hmn; simp [hc]
    · simp only [hmn, if_false]
      rcases List.mem_cons.mp hn with rfl | hn
      · exact absurd rfl hmn
      · exact lookupVal_sched g cs rest (fun x hx => hall x (List.mem_cons_of_mem _ hx)) n hn

/-- results collected in schedule order, read back in sorted order, are the
members' results in stored order -/
theorem unsched_sched (g : PathStep × Value → Value) {order ns : List String} (ts : List Ty) (vs : List Payload)
    (hp : order.Perm ns) (hnd : ns.Nodup) (h1 : ns.length = ts.length) (h2 : ts.length = vs.length) :
    unsched ns order ((schedKids order (objKids ns ts vs)).map g) =
      (objKids ns ts vs).map g := by
  have hall : ∀ m ∈ order, ∃ c, findAttr m (objKids ns ts vs) = some c :=
    fun m hm => findAttr_some_of_mem ns ts vs m h1 h2 (hp.mem_iff.mp hm)
  have hself := schedKids_self ns ts vs hnd h1 h2
  simp only [unsched, schedKids] at hself ⊢
  have : ns.filterMap (fun n => lookupVal n order
        ((order.filterMap (fun m => findAttr m (objKids ns ts vs))).map g)) =
      ns.filterMap (fun n => (findAttr n (objKids ns ts vs)).map g) := by
    apply filterMap_congr'
    intro n hn
    exact lookupVal_sched g _ order hall n (hp.mem_iff.mpr hn)
  rw [this, ← hself, List.map_filterMap]
  rw [hself]

/-! ### identity transform -/

/-- the members in the order `transform` visits them -/
def ordKids (X : SetOracle) (σ : Sched) (path : Path) (v : Value) : List (PathStep × Value) :=
  match v.ty with
  | .object ns _ _ => schedKids (σ path ns) (kids X v)
  | _ => kids X v

def idEvKids (rec : Path → Value → List Ev) (path : Path) : List (PathStep × Value) → List Ev
  | [] => []
  | (s, c) :: rest => rec (path ++ [s]) c ++ idEvKids rec path rest

/-- the `Enter` / `Exit` calls of an identity transform -/
def idEvs (X : SetOracle) (σ : Sched) : Nat → Path → Value → List Ev
  | 0, _, _ => []
  | f + 1, path, v =>
    .enter path v :: (idEvKids (idEvs X σ f) path (ordKids X σ path v) ++ [.exit path v])

theorem transformKids_id (rec' : TRec) (ev : Path → Value → List Ev) (path : Path) :
    ∀ (cs : List (PathStep × Value)) (log : List Ev),
      (∀ c ∈ cs, ∀ log, rec' log (path ++ [c.1]) c.2 = (log ++ ev (path ++ [c.1]) c.2, .ok c.2)) →
      transformKids rec' log path cs = (log ++ idEvKids ev path cs, .ok (cs.map (·.2)))
  | [], log, _ => by simp [transformKids, idEvKids]
  | (s, c) :: rest, log, h => by
    simp only [transformKids, idEvKids]
    rw [h (s, c) (by simp) log]
    simp only
    rw [transformKids_id rec' ev path rest _ (fun c hc => h c (List.mem_cons_of_mem _ hc))]
    simp [List.append_assoc]

theorem schedKids_nil (order : List String) : schedKids order [] = [] := by
  induction order with
  | nil => rfl
  | cons n order ih => simp [schedKids, findAttr] at ih ⊢

theorem ordKids_of_kids_nil {X : SetOracle} {σ : Sched} {path : Path} {v : Value}
    (h : kids X v = []) : ordKids X σ path v = [] := by
  simp only [ordKids, h]
  split
  · exact schedKids_nil _
  · rfl

theorem ordKids_not_object {X : SetOracle} {σ : Sched} {path : Path} {v : Value}
    (h : ∀ ns ts os, v.ty ≠ .object ns ts os) : ordKids X σ path v = kids X v := by
  obtain ⟨t, p⟩ := v
  cases t <;> first
    | rfl
    | exact absurd rfl (h _ _ _)


/-- **rebuilding from unchanged members gives the value back.**  If the recursive
call returns every member as it is, the `switch` of `transform` returns the value
as it is, having visited the members in `ordKids` order. -/
theorem rebuild_id {X : SetOracle} (hX : IterPerm X) {σ : Sched} (hσ : SchedOk σ) (rec' : TRec)
    (ev : Path → Value → List Ev) (v : Value) (hg : Good X v)
    (path : Path)
    (ih : ∀ c ∈ kids X v, ∀ log, rec' log (path ++ [c.1]) c.2 =
      (log ++ ev (path ++ [c.1]) c.2, .ok c.2))
    (log : List Ev) :
    rebuild X σ rec' log path v = (log ++ idEvKids ev path (ordKids X σ path v), .ok v) := by
  by_cases hn : (v.isNull || !v.isKnown) = true
  · have hk : kids X v = [] := by simp [kids, hn]
    simp [rebuild, hn, ordKids_of_kids_nil hk, idEvKids]
  · have hk : kids X v = children X v.unmark := by simp [kids, hn]
    rw [hk] at ih
    simp only [Bool.or_eq_true, Bool.not_eq_true', not_or, Bool.not_eq_true, Bool.not_eq_false] at hn
    obtain ⟨hnull, hknown⟩ := hn
    have hraw := raw_of_flags hnull hknown
    have hsu : shaped v.ty v.v.unmark1 = true := shaped_unmark1 hg.shaped
    have hmu := shaped_unmark1_notMarked hg.shaped
    have hrestore := withMarks_restore hg.shaped
    have hty := hg.ty
    obtain ⟨t, p⟩ := v
    simp only at hraw hsu hmu hrestore hty
    cases t with
    | list e =>
      obtain ⟨vs, hv⟩ := shaped_known_cases hsu hmu hraw.1 hraw.2
      have hcs : children X (⟨.list e, p⟩ : Value).unmark = seqKids e 0 vs := by
        simp only [Value.unmark, hv, children]
      rw [ordKids_not_object (by intro _ _ _ h; cases h), hk, hcs]
      rw [hcs] at ih
      simp only [rebuild, hnull, hknown, Bool.not_true, Bool.or_self, Bool.false_eq_true, if_false, hcs]
      cases vs with
      | nil => simp [seqKids, idEvKids]
      | cons w ws =>
        simp only [seqKids, List.isEmpty_cons, Bool.false_eq_true, if_false]
        have := transformKids_id rec' ev path (seqKids e 0 (w :: ws)) log ih
        simp only [seqKids] at this
        rw [this]
        simp only
        have hv' := seqKids_vals e 0 (w :: ws)
        simp only [seqKids] at hv'
        rw [hv', listVal_id e (equals_self (tyOk_list hty)) (w :: ws) (by simp)]
        simp only [Res.map, Value.marks]
        rw [hv] at hrestore
        rw [hrestore]
    | map e =>
      obtain ⟨ks, vs, hv⟩ := shaped_known_cases hsu hmu hraw.1 hraw.2
      have hsh := hsu
      rw [hv] at hsh
      simp only [shaped, Bool.and_eq_true, beq_iff_eq, decide_eq_true_eq] at hsh
      have hcs : children X (⟨.map e, p⟩ : Value).unmark = mapKids e ks vs := by
        simp only [Value.unmark, hv, children]
      rw [ordKids_not_object (by intro _ _ _ h; cases h), hk, hcs]
      rw [hcs] at ih
      simp only [rebuild, hnull, hknown, Bool.not_true, Bool.or_self, Bool.false_eq_true, if_false, hcs]
      cases vs with
      | nil =>
        have : mapKids e ks [] = [] := by cases ks <;> rfl
        simp [this, idEvKids]
      | cons w ws =>
        cases ks with
        | nil => simp at hsh
        | cons k ks =>
          simp only [mapKids, List.isEmpty_cons, Bool.false_eq_true, if_false]
          have := transformKids_id rec' ev path (mapKids e (k :: ks) (w :: ws)) log ih
          simp only [mapKids] at this
          rw [this]
          simp only
          have hv' := mapKids_vals e (k :: ks) (w :: ws) hsh.1.1
          simp only [mapKids] at hv'
          rw [hv']
          simp only [Value.unmark, hv]
          rw [mapVal_id e (equals_self (tyOk_map hty)) (k :: ks) (w :: ws) (by simp)]
          simp only [Res.map, Value.marks]
          rw [hv] at hrestore
          rw [hrestore]
    | tuple ts =>
      obtain ⟨vs, hv, hlen⟩ := shaped_known_cases hsu hmu hraw.1 hraw.2
      have hcs : children X (⟨.tuple ts, p⟩ : Value).unmark = tupKids 0 ts vs := by
        simp only [Value.unmark, hv, children]
      rw [ordKids_not_object (by intro _ _ _ h; cases h), hk, hcs]
      rw [hcs] at ih
      simp only [rebuild, hnull, hknown, Bool.not_true, Bool.or_self, Bool.false_eq_true, if_false, hcs]
      by_cases hemp : (tupKids 0 ts vs).isEmpty = true
      · have : tupKids 0 ts vs = [] := List.isEmpty_iff.mp hemp
        simp [this, idEvKids]
      · simp only [hemp, Bool.false_eq_true, if_false]
        rw [transformKids_id rec' ev path (tupKids 0 ts vs) log ih]
        simp only
        have hv' := tupKids_vals 0 ts vs hlen
        simp only [tupleVal, hv'.1, hv'.2, Value.marks]
        rw [hv] at hrestore
        rw [hrestore]
    | set e =>
      obtain ⟨ids, vs, hv⟩ := shaped_known_cases hsu hmu hraw.1 hraw.2
      have hsh := hsu
      rw [hv] at hsh
      simp only [shaped, Bool.and_eq_true, beq_iff_eq, Bool.not_eq_true'] at hsh
      have hst := SetsStable_unmark1 hg.sets
      simp only [hv, SetsStable] at hst
      have hcs : children X (⟨.set e, p⟩ : Value).unmark = setKids e (X.iter e ids vs) := by
        simp only [Value.unmark, hv, children]
      rw [ordKids_not_object (by intro _ _ _ h; cases h), hk, hcs]
      rw [hcs] at ih
      simp only [rebuild, hnull, hknown, Bool.not_true, Bool.or_self, Bool.false_eq_true, if_false, hcs]
      by_cases hemp : (setKids e (X.iter e ids vs)).isEmpty = true
      · have : setKids e (X.iter e ids vs) = [] := List.isEmpty_iff.mp hemp
        simp [this, idEvKids]
      · simp only [hemp, Bool.false_eq_true, if_false]
        rw [transformKids_id rec' ev path _ log ih]
        simp only
        have hne : X.iter e ids vs ≠ [] := by
          intro h0; rw [h0] at hemp; simp [setKids] at hemp
        rw [setKids_vals, setVal_id X e (equals_self (tyOk_set hty)) ids vs (X.iter e ids vs) hne
          (fun m hm => containsMarkedL_mem hsh.1.2 m ((hX _ _ _).mem_iff.mp hm)) hst.1 hst.2.1]
        simp only [Res.map, Value.marks]
        rw [hv] at hrestore
        rw [hrestore]
    | object ns ts os =>
      obtain ⟨vs, hv, h1, h2⟩ := shaped_known_cases hsu hmu hraw.1 hraw.2
      have hsh := hsu
      rw [hv] at hsh
      simp only [shaped, Bool.and_eq_true, beq_iff_eq, decide_eq_true_eq] at hsh
      obtain ⟨⟨⟨⟨⟨_, _⟩, _⟩, htv⟩, hnd⟩, _⟩ := hsh
      have hos := (tyOk_object hty).2
      have hcs : children X (⟨.object ns ts os, p⟩ : Value).unmark = objKids ns ts vs := by
        simp only [Value.unmark, hv, children]
      have hord : ordKids X σ path ⟨.object ns ts os, p⟩ = schedKids (σ path ns) (objKids ns ts vs) := by
        simp only [ordKids, hk, hcs]
      rw [hord]
      rw [hcs] at ih
      simp only [rebuild, hnull, hknown, Bool.not_true, Bool.or_self, Bool.false_eq_true, if_false, hcs]
      by_cases hemp : Ty.equals (.object ns ts os) (.object [] [] []) = true
      · -- the empty object: no attribute types, hence no members
        have hts : ts = [] := by
          simp only [Ty.equals, Bool.and_eq_true, beq_iff_eq] at hemp
          exact List.eq_nil_of_length_eq_zero hemp.1
        subst hts
        have : objKids ns [] vs = [] := by cases ns <;> rfl
        simp [hemp, this, schedKids_nil, idEvKids]
      · simp only [hemp, Bool.false_eq_true, if_false]
        have hperm := schedKids_perm ts vs (hσ path ns) hnd h1 htv
        have ih' : ∀ c ∈ schedKids (σ path ns) (objKids ns ts vs), ∀ log,
            rec' log (path ++ [c.1]) c.2 = (log ++ ev (path ++ [c.1]) c.2, .ok c.2) :=
          fun c hc => ih c (hperm.mem_iff.mp hc)
        rw [transformKids_id rec' ev path _ log ih']
        simp only
        rw [unsched_sched (·.2) ts vs (hσ path ns) hnd h1 htv]
        have hv' := objKids_vals ns ts vs h1 htv
        simp only [objectVal, hv'.1, hv'.2, Value.marks, ← hos]
        rw [hv] at hrestore
        rw [hrestore]
    | bool => simp [rebuild, hnull, hknown, ordKids, hk, Value.unmark, children, idEvKids]
    | number => simp [rebuild, hnull, hknown, ordKids, hk, Value.unmark, children, idEvKids]
    | string => simp [rebuild, hnull, hknown, ordKids, hk, Value.unmark, children, idEvKids]
    | dyn => simp [rebuild, hnull, hknown, ordKids, hk, Value.unmark, children, idEvKids]
    | capsule i => simp [rebuild, hnull, hknown, ordKids, hk, Value.unmark, children, idEvKids]

/-- **identity transform**: the value comes back as it is, and the `Enter` /
`Exit` calls are those of `idEvs` -/
theorem transformFuel_id {X : SetOracle} (hX : IterPerm X) {σ : Sched} (hσ : SchedOk σ) :
    ∀ (f : Nat) (v : Value), v.v.depth < f → Good X v → ∀ (log : List Ev) (path : Path),
      transformFuel X σ (postorder idCb) f log path v = (log ++ idEvs X σ f path v, .ok v)
  | 0, _, h, _ => by omega
  | f + 1, v, hd, hg => by
    intro log path
    have ih : ∀ c ∈ kids X v, ∀ log path,
        transformFuel X σ (postorder idCb) f log path c.2 = (log ++ idEvs X σ f path c.2, .ok c.2) :=
      fun c hc => transformFuel_id hX hσ f c.2 (by have := kids_depth_lt hX v c hc; omega)
        (kids_good hX v hg c hc)
    have hen : ∀ l, (postorder idCb).enter l path v = .ok v := fun _ => rfl
    have hex : ∀ l, (postorder idCb).exit l path v = .ok v := fun _ => rfl
    simp only [transformFuel, hen, idEvs]
    rw [rebuild_id hX hσ _ (idEvs X σ f) v hg path (fun c hc log => ih c hc log _)]
    simp only [hex]
    simp [List.append_assoc]

theorem transform_id_eq {X : SetOracle} (hX : IterPerm X) {σ : Sched} (hσ : SchedOk σ) (v : Value)
    (hg : Good X v) :
    transform X σ idCb v = (idEvs X σ (v.v.depth + 1) [] v, .ok v) := by
  simp only [transform, transformWith]
  rw [transformFuel_id hX hσ _ v (by omega) hg]
  simp

/-! ### the callback sees the paths (and members) `Walk` sees -/

/-- position-free pre-order listing -/
def preVisKids (rec : Path → Value → List Visit) (path : Path) : List (PathStep × Value) → List Visit
  | [] => []
  | (s, c) :: rest => rec (path ++ [s]) c ++ preVisKids rec path rest

def preVis (X : SetOracle) : Nat → Path → Value → List Visit
  | 0, _, _ => []
  | f + 1, path, v => (path, v) :: preVisKids (preVis X f) path (kids X v)

theorem preKids_visit (X : SetOracle) (f : Nat) (pos : Pos) (path : Path)
    (ih : ∀ pos path v, (preFuel X f pos path v).map Node.visit = preVis X f path v) :
    ∀ (cs : List (PathStep × Value)) (i : Nat),
      (preKids (preFuel X f) pos path i cs).map Node.visit = preVisKids (preVis X f) path cs
  | [], _ => rfl
  | (s, c) :: rest, i => by
    simp only [preKids, preVisKids, List.map_append, ih, preKids_visit X f pos path ih rest (i + 1)]

theorem preFuel_visit (X : SetOracle) : ∀ (f : Nat) (pos : Pos) (path : Path) (v : Value),
    (preFuel X f pos path v).map Node.visit = preVis X f path v
  | 0, _, _, _ => rfl
  | f + 1, pos, path, v => by
    simp only [preFuel, preVis, List.map_cons, Node.visit,
      preKids_visit X f pos path (preFuel_visit X f) (kids X v) 0]

theorem preVisKids_perm (rec : Path → Value → List Visit) (path : Path) :
    ∀ {l1 l2 : List (PathStep × Value)}, l1.Perm l2 →
      (preVisKids rec path l1).Perm (preVisKids rec path l2) := by
  intro l1 l2 h
  induction h with
  | nil => exact List.Perm.refl _
  | cons x _ ih => obtain ⟨s, c⟩ := x; simp only [preVisKids]; exact List.Perm.append_left _ ih
  | swap x y l =>
    obtain ⟨s, c⟩ := x
    obtain ⟨s', c'⟩ := y
    simp only [preVisKids, ← List.append_assoc]
    exact List.Perm.append_right _ List.perm_append_comm
  | trans _ _ ih1 ih2 => exact ih1.trans ih2

theorem exits_append (a b : List Ev) : exits (a ++ b) = exits a ++ exits b := by
  simp [exits, List.filterMap_append]

/-- the members `transform` visits are the members `walk` visits, in another order -/
theorem ordKids_perm {X : SetOracle} {σ : Sched} (hσ : SchedOk σ) (path : Path) (v : Value)
    (hs : shapedV v = true) : (ordKids X σ path v).Perm (kids X v) := by
  by_cases hn : (v.isNull || !v.isKnown) = true
  · have hk : kids X v = [] := by simp [kids, hn]
    rw [ordKids_of_kids_nil hk, hk]
  · have hk : kids X v = children X v.unmark := by simp [kids, hn]
    simp only [Bool.or_eq_true, Bool.not_eq_true', not_or, Bool.not_eq_true, Bool.not_eq_false] at hn
    have hraw := raw_of_flags hn.1 hn.2
    have hsu : shaped v.ty v.v.unmark1 = true := shaped_unmark1 hs
    have hmu := shaped_unmark1_notMarked hs
    obtain ⟨t, p⟩ := v
    cases t with
    | object ns ts os =>
      obtain ⟨vs, hv, h1, _⟩ := shaped_known_cases hsu hmu hraw.1 hraw.2
      have hsh := hsu
      simp only at hsh hv
      rw [hv] at hsh
      simp only [shaped, Bool.and_eq_true, beq_iff_eq, decide_eq_true_eq] at hsh
      have hcs : children X (⟨.object ns ts os, p⟩ : Value).unmark = objKids ns ts vs := by
        simp only [Value.unmark, hv, children]
      simp only [ordKids, hk, hcs]
      exact schedKids_perm ts vs (hσ path ns) hsh.1.2 h1 hsh.1.1.2
    | _ => rw [ordKids_not_object (by intro _ _ _ h; cases h)]

theorem exits_idEvKids (X : SetOracle) (σ : Sched) (f : Nat) (path : Path)
    (ih : ∀ c path, (exits (idEvs X σ f path c)).Perm (preVis X f path c)) :
    ∀ (cs : List (PathStep × Value)),
      (exits (idEvKids (idEvs X σ f) path cs)).Perm (preVisKids (preVis X f) path cs)
  | [] => by simp [idEvKids, preVisKids, exits]
  | (s, c) :: rest => by
    simp only [idEvKids, preVisKids, exits_append]
    exact (ih c _).append (exits_idEvKids X σ f path ih rest)

/-- the `Exit` calls of an identity transform are the visits of `Walk`, reordered
(post-order, attributes in schedule order) -/
theorem exits_idEvs_perm {X : SetOracle} (hX : IterPerm X) {σ : Sched} (hσ : SchedOk σ) :
    ∀ (f : Nat) (v : Value), shapedV v = true → ∀ (path : Path),
      (exits (idEvs X σ f path v)).Perm (preVis X f path v)
  | 0, _, _, _ => by simp [idEvs, preVis, exits]
  | f + 1, v, hs, path => by
    have ih : ∀ c ∈ kids X v, ∀ path, (exits (idEvs X σ f path c.2)).Perm (preVis X f path c.2) :=
      fun c hc path => exits_idEvs_perm hX hσ f c.2 (kids_shaped hX v hs c hc) path
    have hperm := ordKids_perm (X := X) hσ path v hs
    simp only [idEvs, preVis]
    have h1 : exits (.enter path v :: (idEvKids (idEvs X σ f) path (ordKids X σ path v) ++ [.exit path v])) =
        exits (idEvKids (idEvs X σ f) path (ordKids X σ path v)) ++ [(path, v)] := by
      simp [exits, List.filterMap_append]
    rw [h1]
    refine List.perm_append_comm.trans ?_
    simp only [List.singleton_append]
    refine List.Perm.cons _ ?_
    refine List.Perm.trans ?_ (preVisKids_perm (preVis X f) path hperm)
    -- member by member, for the members actually visited
    suffices hk : ∀ (cs : List (PathStep × Value)), (∀ c ∈ cs, c ∈ kids X v) →
        (exits (idEvKids (idEvs X σ f) path cs)).Perm (preVisKids (preVis X f) path cs) from
      hk _ (fun c hc => hperm.mem_iff.mp hc)
    intro cs
    induction cs with
    | nil => intro _; simp [idEvKids, preVisKids, exits]
    | cons sc rest ihl =>
      intro hmem
      obtain ⟨s, c⟩ := sc
      simp only [idEvKids, preVisKids, exits_append]
      exact (ih (s, c) (hmem _ (by simp)) _).append
        (ihl (fun x hx => hmem x (List.mem_cons_of_mem _ hx)))

end Walk
end CtyModel
