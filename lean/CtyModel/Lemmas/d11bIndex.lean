/-
C11 totality obligations (slice d11b) for `index` (collection.go `IndexFunc`), whose `Impl` makes a
NESTED protocol call (`HasIndex(args[0], args[1])` = `HasIndexFunc.Call`) and reads its answer with
`.True()` — which panics on an unknown or marked boolean.
-/
import CtyModel.Lemmas.d11bColl
import CtyModel.Lemmas.d06Access
namespace CtyModel
namespace Stdlib
open Fn Value
variable {nfc : String → Bool}
set_option linter.unusedSimpArgs false

/-- the nested `HasIndexFunc.Call` on two known, non-null, mark-free arguments of non-placeholder types
for which the callbacks answer a known boolean: that boolean -/
theorem hasIndex_call_known_d11b (c k : Value) (b : Bool)
    (hnl : c.isNull = false) (hnn : k.isNull = false) (hkl : c.isKnown = true) (hkn : k.isKnown = true)
    (hcl : c.containsMarked = false) (hcm : k.containsMarked = false)
    (htd : c.ty.isDyn = false) (hti : k.ty.isDyn = false)
    (hty : hasIndexType [c, k] = .ok .bool) (himpl : hasIndexImpl [c, k] .bool = .ok (boolVal b)) :
    (Fn.call hasIndexSpec hasIndexType hasIndexImpl [c, k]).1 = .ok (boolVal b) := by
  have hml : c.marksDeep = [] := Payload.marksDeep_of_not_containsMarked _ hcl
  have hmd : k.marksDeep = [] := Payload.marksDeep_of_not_containsMarked _ hcm
  have hcd : ∀ t, Ty.conformErrs .dyn t = 0 := fun t => by simp [Ty.conformErrs]
  have hcb : Ty.conformErrs .bool .bool = 0 := by decide
  simp only [Fn.call, Fn.returnTypeForValues, Fn.pass1, hasIndexSpec, List.length_cons, List.length_nil,
    bne_self_eq_false, Bool.false_eq_true, if_false, Fn.checkLoop, Fn.Param.check, hnn, hnl, Bool.false_and,
    htd, hti, hcd, Fn.Param.typeArg, hcm, hcl, hty, Fn.callBody, List.take, List.drop, Fn.pass2, Fn.Param.callArg,
    hmd, hml, Fn.Param.blocksUnknown, hkn, hkl, himpl, List.append_nil, List.nil_append, Bool.not_false,
    Bool.not_true, Bool.or_self, Nat.lt_irrefl, decide_false, List.length_nil, Fn.deferredRefine,
    Fn.refineWith, bne_iff_ne, ne_eq, not_true_eq_false, if_true, ite_self, List.cons_append, gt_iff_lt]
  have hbt : ∀ b, (boolVal b).ty = .bool := fun _ => rfl
  have hbk : ∀ b, (boolVal b).isKnown = true := fun _ => rfl
  have hbu : ∀ b, (boolVal b).unmark = boolVal b := fun _ => rfl
  have hbm : ∀ b, (boolVal b).marks = [] := fun _ => rfl
  simp only [hbt, hcb, not_true_eq_false, if_false, hbk, Bool.true_or, if_true, hbu, hbm, refineNN_bool]
  simp [boolVal, hcb, Value.isKnown, Payload.isKnown, Payload.unmark1, Value.unmark, Value.marks, Payload.marks1,
    Value.withMarks, Payload.withMarks, unionMarks]


/-- `HasIndex` answers the unknown boolean only for an unknown or dynamically typed operand -/
theorem hasIndexU_unk {c k : Value} (h : hasIndexU c k = .ok unkBool) :
    c.ty.isDyn = true ∨ k.ty.isDyn = true ∨ c.isKnown = false ∨ k.isKnown = false := by
  unfold hasIndexU at h
  split at h
  · rename_i hd; exact .inl hd
  · split at h
    · split at h
      · rename_i hd; exact .inr (.inl hd)
      split at h
      · cases h
      split at h
      · rename_i hk; exact .inr (.inr (.inr (by simpa using hk)))
      split at h
      · rename_i hk; exact .inr (.inr (.inl (by simpa using hk)))
      obtain ⟨j, hj, h⟩ := Res.bind_eq_ok.mp h
      split at h
      · cases h
      · split at h
        · cases h
        · cases h
    · split at h
      · rename_i hd; exact .inr (.inl hd)
      split at h
      · cases h
      split at h
      · rename_i hk; exact .inr (.inr (.inr (by simpa using hk)))
      split at h
      · rename_i hk; exact .inr (.inr (.inl (by simpa using hk)))
      split at h
      · cases h
      · cases h
    · split at h
      · rename_i hd; exact .inr (.inl hd)
      split at h
      · cases h
      split at h
      · rename_i hk; exact .inr (.inr (.inr (by simpa using hk)))
      obtain ⟨j, hj, h⟩ := Res.bind_eq_ok.mp h
      split at h
      · cases h
      · cases h
    · cases h


/-- the type of what `Index` returns on a list or a map: the element type -/
theorem indexU_ty_coll {c k r : Value} {e : Ty} (hc : c.ty = .list e ∨ c.ty = .map e) (h : indexU c k = .ok r) :
    r.ty = e := by
  unfold indexU at h
  have h1 : (Ty.list e).isDyn = false := rfl
  have h2 : (Ty.map e).isDyn = false := rfl
  rcases hc with hc | hc <;> rw [hc] at h <;> simp only [h1, h2, Bool.false_eq_true, if_false] at h
  · split at h; · cases h; rfl
    split at h; · cases h
    split at h; · cases h; rfl
    split at h; · cases h; rfl
    obtain ⟨j, hj, h⟩ := Res.bind_eq_ok.mp h
    split at h
    · cases h
    · split at h
      · split at h
        · cases h; rfl
        · cases h
      · cases h
  · split at h; · cases h; rfl
    split at h; · cases h
    split at h; · cases h; rfl
    split at h; · cases h; rfl
    split at h
    · cases h; rfl
    · cases h

/-- … on a tuple with a known key: the type at the key's position -/
theorem indexU_ty_tuple {c k r : Value} {es : List Ty} (hc : c.ty = .tuple es) (hkd : k.ty.isDyn = false)
    (hkk : k.isKnown = true) (h : indexU c k = .ok r) :
    ∃ i, keyIndex k = .ok (some i) ∧ es[i]? = some r.ty := by
  unfold indexU at h
  rw [hc] at h
  have h1 : (Ty.tuple es).isDyn = false := rfl
  simp only [h1, Bool.false_eq_true, if_false, hkd, hkk, Bool.not_true] at h
  split at h; · cases h
  obtain ⟨j, hj, h⟩ := Res.bind_eq_ok.mp h
  split at h
  · cases h
  · rename_i i
    split at h
    · cases h
    · rename_i ety hety
      refine ⟨i, hj, ?_⟩
      split at h
      · cases h; exact hety
      · split at h
        · split at h
          · cases h; exact hety
          · cases h
        · cases h

/-- an argument of `index`'s key parameter that is known and of number (or placeholder) type: a number -/
theorem key_is_num {p : Param} {key : Value} (hk : ArgOK nfc p key) (hn : p.allowNull = false)
    (hm : p.allowMarked = false) (hkn : key.isKnown = true)
    (hty : (!key.ty.isNumber && !key.ty.isDyn) = false) : ∃ x, key = numVal x := by
  have hnn := arg_nonnull hk hn
  have hd := not_dyn_of_known_nonnull hk.wf hkn hnn
  have ht : key.ty = .number := by
    cases hkt : key.ty <;> simp_all [Ty.isNumber, Ty.isDyn]
  exact wf_number_shape hk.wf (isMarked_of_clean (hk.mark hm)) hkn hnn ht

/-- `gocty.FromCtyValue(key, &int)` and the key arithmetic of `Index` read the same whole number -/
theorem keyIndex_of_fromCtyInt {x : Num} {idx : Int} (h : fromCtyInt (numVal x) = .ok idx) (h0 : 0 ≤ idx) :
    keyIndex (numVal x) = .ok (some idx.toNat) := by
  rw [fromCtyInt_num, fromNumInt_64] at h
  cases hx : Gocty.int64Exact x with
  | none => rw [hx] at h; cases h
  | some i =>
    rw [hx] at h
    cases h
    have hb := int64Exact_bounds hx
    simp only [Gocty.int64Exact] at hx
    cases ht : x.toInt? with
    | none => rw [ht] at hx; cases hx
    | some j =>
      rw [ht] at hx
      by_cases hb' : -9223372036854775808 ≤ j ∧ j ≤ 9223372036854775807
      · simp only [hb', and_self, if_true, Option.some.injEq] at hx
        subst hx
        have h1 : ¬ (j < 0 ∨ j > maxInt) := by unfold maxInt; omega
        simp [keyIndex, numVal, ht, h1]
      · simp [hb'] at hx

theorem type_total_index {as : List Value} (h : TypeArgsOK nfc indexSpec as) (w : String) :
    indexType as ≠ .panic w := by
  obtain ⟨c, key, rfl, hc, hk⟩ := args_inv2 h
  simp only [indexType]
  split
  · rename_i etys hct
    split
    · simp
    · rename_i hty
      split
      · simp
      · rename_i hkn
        obtain ⟨x, rfl⟩ := key_is_num hk rfl rfl (by simpa using hkn) (by simpa using hty)
        rcases fromCtyInt_numVal x with ⟨idx, hi⟩ | ⟨c', hc'⟩
        · rw [hi]; dsimp only
          split
          · simp
          · rename_i hr
            cases hg : etys[idx.toNat]? with
            | some t => simp
            | none =>
              exfalso
              have := List.getElem?_eq_none_iff.mp hg
              simp at hr
              omega
        · rw [hc']; simp
  · split <;> simp
  · split <;> simp
  · simp


theorem binMarks_clean (f : Value → Value → Res Value) {a b : Value} (ha : a.isMarked = false) (hb : b.isMarked = false) :
    binMarks f a b = f a b := by
  simp [binMarks, ha, hb]

theorem implGood'_err (rt : Ty) (c : String) : ImplGood' rt (.err c) :=
  ⟨fun _ h => (by cases h), fun _ h => (by cases h)⟩

theorem implGood'_index {as : List Value} {rt : Ty} (h : ImplArgsOK nfc indexSpec as)
    (ht : indexType as = .ok rt) : ImplGood' rt (indexImpl as rt) := by
  obtain ⟨c, key, rfl, hc, hk⟩ := args_inv2 h
  obtain ⟨hck, hcn⟩ := arg_known_nonnull hc rfl rfl
  obtain ⟨hkk, hkn⟩ := arg_known_nonnull hk rfl rfl
  have hcc : c.containsMarked = false := hc.mark rfl
  have hkc : key.containsMarked = false := hk.mark rfl
  have hcm : c.isMarked = false := isMarked_of_clean hcc
  have hkm : key.isMarked = false := isMarked_of_clean hkc
  have hcd := arg_not_dyn hc.toArgOK rfl
  have hkd := not_dyn_of_known_nonnull hk.wf hkk hkn
  -- the collection is a list, a map or a tuple
  have hty : (isListTy c.ty || isMapTy c.ty || isTupleTy c.ty) = true := by
    simp only [indexType] at ht
    cases hct : c.ty <;> simp_all [isListTy, isMapTy, isTupleTy]
  have hhty : hasIndexType [c, key] = .ok .bool := by
    simp only [hasIndexType]
    cases hct : c.ty <;> simp_all [isListTy, isMapTy, isTupleTy]
  obtain ⟨r, hr⟩ := hasIndexU_total hc.wf hk.wf hcm hkm hck hkk hcn hkn hty
  obtain ⟨b, rfl⟩ : ∃ b, r = boolVal b := by
    rcases hasIndexU_result hr with rfl | hb
    · rcases hasIndexU_unk hr with h1 | h1 | h1 | h1 <;> simp_all
    · exact hb
  have himpl : hasIndexImpl [c, key] .bool = .ok (boolVal b) := by
    simp only [hasIndexImpl, Value.hasIndex, binMarks_clean _ hcm hkm, hr]
  simp only [indexImpl, hasIndex_call_known_d11b c key b hcn hkn hck hkk hcc hkc hcd hkd hhty himpl, boolTrue_boolVal]
  cases b
  · exact implGood'_err _ _
  · dsimp only
    have hh : Value.hasIndex c key = .ok (boolVal true) := by
      simp only [Value.hasIndex, binMarks_clean _ hcm hkm, hr]
    obtain ⟨v, hv, _⟩ := D06Acc.index_of_hasIndex c key (boolVal true) hc.wf hcn hh rfl
    rw [hv]
    refine ⟨fun _ h => (by cases h), fun v' hv' => ?_⟩
    cases hv'
    have hvu : indexU c key = .ok v := by
      simpa only [Value.index, binMarks_clean _ hcm hkm] using hv
    have hwt := wf_ty_wf hc.wf
    simp only [indexType] at ht
    cases hct : c.ty <;> simp [hct, isListTy, isMapTy, isTupleTy] at hty
    · -- list
      rename_i e
      rw [hct] at ht hwt
      dsimp only at ht
      have := indexU_ty_coll (.inl hct) hvu
      split at ht
      · cases ht
      · cases ht; rw [this]; exact conform_refl _ (wf_list_elem hwt)
    · -- map
      rename_i e
      rw [hct] at ht hwt
      dsimp only at ht
      have := indexU_ty_coll (.inr hct) hvu
      split at ht
      · cases ht
      · cases ht; rw [this]; exact conform_refl _ (wf_map_elem hwt)
    · -- tuple
      rename_i es
      rw [hct] at ht hwt
      dsimp only at ht
      obtain ⟨i, hi, hei⟩ := indexU_ty_tuple hct hkd hkk hvu
      have hwi : Ty.wf v.ty = true := by
        have hl : Ty.wfL es = true := by simpa [Ty.wf] using hwt
        exact (wfL_iff es).mp hl _ (List.mem_of_getElem? hei)
      split at ht
      · cases ht
      · rename_i hnum
        simp only [hkk, Bool.not_true, Bool.false_eq_true, if_false] at ht
        obtain ⟨x, rfl⟩ := key_is_num hk.toArgOK rfl rfl hkk (by simpa using hnum)
        rcases fromCtyInt_numVal x with ⟨idx, hidx⟩ | ⟨c', hc'⟩
        · rw [hidx] at ht
          dsimp only at ht
          split at ht
          · cases ht
          · rename_i hr'
            simp at hr'
            have hki := keyIndex_of_fromCtyInt hidx (by omega)
            rw [hki] at hi
            cases hi
            rw [hei] at ht
            cases ht
            exact conform_refl _ hwi
        · rw [hc'] at ht; cases ht

theorem call_total_index (args : List Value) (hargs : ∀ a ∈ args, a.WF nfc = true) :
    (∀ w, (call indexSpec indexType indexImpl args).1 ≠ .panic w) ∧
    (∀ w, (call indexSpec indexType indexImpl args).1 ≠ .err (.panicError w)) :=
  call_total_of_good' indexSpec indexType indexImpl rfl (fun _ w h => type_total_index h w)
    (fun _ _ h ht => implGood'_index h ht) args hargs

end Stdlib
end CtyModel
