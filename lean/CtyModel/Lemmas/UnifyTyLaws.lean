/-
`unifyTy` — ConvertUnify's transliteration of the type result of `unify`, with the fuel
computed from its argument — satisfies `UnifyLaws`: identical types unify to that type.
This discharges the hypothesis `UnifyLaws E` of the C08 theorems for the environment
the drivers use.
-/
import CtyModel.Lemmas.UnifyEqual
namespace CtyModel
namespace Unify
open Convert Ty

theorem tyDepth_le_of_mem : ∀ (es : List Ty) (e : Ty), e ∈ es → tyDepth e ≤ tyDepthL es
  | [], _, h => by simp at h
  | x :: xs, e, h => by
    simp only [tyDepthL]
    rcases List.mem_cons.mp h with rfl | h
    · omega
    · have := tyDepth_le_of_mem xs e h; omega

theorem tyDepthL_replicate (t : Ty) : ∀ (n : Nat), 0 < n → tyDepthL (List.replicate n t) = tyDepth t
  | 0, h => by omega
  | 1, _ => by simp [List.replicate, tyDepthL]
  | n + 2, _ => by
    have := tyDepthL_replicate t (n + 1) (by omega)
    simp only [List.replicate_succ, tyDepthL] at this ⊢
    omega

theorem cCols_eq (n : Nat) (tys : List Ty) :
    ((List.range tys.length).map fun i => List.replicate n (tys[i]?.getD .dyn)) =
      tys.map (List.replicate n ·) := by
  apply List.ext_getElem?
  intro j
  by_cases hj : j < tys.length
  · simp [List.getElem?_range hj, List.getElem?_eq_getElem hj]
  · have h2 : tys[j]? = none := by simp; omega
    simp [h2]; omega

section
variable (U : Bool → List Ty → Option Ty) (uns : Bool) (n : Nat) (hn : 0 < n)
include hn

theorem cUnifyG_replicate (e : Ty) (h : U uns (List.replicate n e) = some e) :
    unifyG' U uns (List.replicate n e) = some e := by
  cases n with
  | zero => omega
  | succ n => simpa [unifyG', List.replicate_succ] using h

theorem cAll_convOk (t : Ty) (hw : t.wf = true) :
    (List.replicate n t).all (fun ty => convOk U uns ty t) = true := by
  simp only [List.all_eq_true]
  intro x hx
  rw [(List.mem_replicate.mp hx).2]
  simp [convOk, equals_self hw]

theorem cColumns_replicate : ∀ (tys : List Ty), (∀ e ∈ tys, U uns (List.replicate n e) = some e) →
    Convert.unifyColumns U uns (tys.map (List.replicate n ·)) = some tys
  | [], _ => rfl
  | t :: tys, h => by
    simp [Convert.unifyColumns, cUnifyG_replicate U uns n hn t (h t (by simp)),
      cColumns_replicate tys (fun e he => h e (List.mem_cons_of_mem _ he))]

theorem cGeneral_same (t : Ty) (hw : t.wf = true) :
    unifyGeneral U uns (List.replicate n t) = some t := by
  have hne : List.replicate n t ≠ [] := by
    intro h; have := congrArg List.length h; simp at this; omega
  have hlen := sortTypes_length_ge (List.replicate n t)
  simp only [List.length_replicate] at hlen
  cases hs : sortTypes (List.replicate n t) with
  | nil => rw [hs] at hlen; simp at hlen; omega
  | cons w rest =>
    have hw' : w < n := by
      have := sortTypes_lt (List.replicate n t) hne w (by rw [hs]; simp)
      simpa using this
    have hget : (List.replicate n t)[w]? = some t := by simp [List.getElem?_replicate, hw']
    simp only [unifyGeneral, hs, List.findSome?_cons, hget]
    rw [if_pos]
    simp only [List.all_eq_true, List.mem_range, List.length_replicate]
    intro i hi
    simp [List.getElem?_replicate, hi, convOk, equals_self hw]

/-- one activation of ConvertUnify's `unifyStep` on `n ≥ 1` copies of one type, when the
nested calls answer the law for the immediate parts of the type -/
theorem cStep_same (t : Ty) (hw : t.wf = true) (ho : t.hasOpt = false)
    (hchild : ∀ e, (t = .list e ∨ t = .set e ∨ t = .map e ∨ (∃ es, t = .tuple es ∧ e ∈ es) ∨
      (∃ ns ts os, t = .object ns ts os ∧ e ∈ ts)) → U uns (List.replicate n e) = some e) :
    Convert.unifyStep U uns (List.replicate n t) = some t := by
  have hne : (List.replicate n t).isEmpty = false := by
    cases n with
    | zero => omega
    | succ n => rfl
  have hpos : decide (n > 0) = true := by simp; omega
  have hg := cGeneral_same U uns n hn t hw
  have hok := cAll_convOk U uns n hn t hw
  cases t with
  | bool | number | string | dyn | capsule _ =>
    simp [Convert.unifyStep, hne, count, List.filter_replicate, isMapTy, isListTy, isSetTy, isObjectTy, isTupleTy,
      Ty.isDyn, hg]
    all_goals (try omega)
  | list e =>
    have he := cUnifyG_replicate U uns n hn e (hchild e (by simp))
    simp [Convert.unifyStep, hne, count, List.filter_replicate, isMapTy, isListTy, isSetTy, isObjectTy, isTupleTy,
      Ty.isDyn, unifyCollectionTypes, elemTyD, he, hok, hpos]
    all_goals (try omega)
  | set e =>
    have he := cUnifyG_replicate U uns n hn e (hchild e (by simp))
    simp [Convert.unifyStep, hne, count, List.filter_replicate, isMapTy, isListTy, isSetTy, isObjectTy, isTupleTy,
      Ty.isDyn, unifyCollectionTypes, elemTyD, he, hok, hpos]
    all_goals (try omega)
  | map e =>
    have he := cUnifyG_replicate U uns n hn e (hchild e (by simp))
    simp [Convert.unifyStep, hne, count, List.filter_replicate, isMapTy, isListTy, isSetTy, isObjectTy, isTupleTy,
      Ty.isDyn, unifyCollectionTypes, elemTyD, he, hok, hpos]
    all_goals (try omega)
  | tuple es =>
    have hcols := cCols_eq n es
    have hc := cColumns_replicate U uns n hn es
      (fun e he => hchild e (Or.inr (Or.inr (Or.inr (Or.inl ⟨es, rfl, he⟩)))))
    have hhd : (List.replicate n (Ty.tuple es)).head?.getD .dyn = Ty.tuple es := by
      cases n with
      | zero => omega
      | succ n => rfl
    simp [Convert.unifyStep, hne, count, List.filter_replicate, isMapTy, isListTy, isSetTy, isObjectTy, isTupleTy,
      Ty.isDyn, unifyTupleTypes, hhd, tupleEtysD, hcols, hc, hok, hpos]
    all_goals (try omega)
  | object ns tys os =>
    have hw' := hw
    simp only [wf, Bool.and_eq_true, beq_iff_eq] at hw
    simp only [hasOpt, Bool.or_eq_false_iff] at ho
    have hcols := cCols_eq n tys
    have hc := cColumns_replicate U uns n hn tys
      (fun e he => hchild e (Or.inr (Or.inr (Or.inr (Or.inr ⟨ns, tys, os, rfl, he⟩)))))
    have hhd : (List.replicate n (Ty.object ns tys os)).head?.getD .dyn = Ty.object ns tys os := by
      cases n with
      | zero => omega
      | succ n => rfl
    have hos : (tys.map fun _ => false) = os := by
      rw [map_const_length (fun _ => false) false tys os hw.1.1.2.symm]
      exact opts_all_false os ho.1
    have hall : (ns.all fun n => ns.contains n) = true := by simp [List.all_eq_true]
    simp [Convert.unifyStep, hne, count, List.filter_replicate, isMapTy, isListTy, isSetTy, isObjectTy, isTupleTy,
      Ty.isDyn, unifyObjectTypes, hhd, attrNamesD, attrTysD, hw.1.1.1, hcols, hc, hos, hok, hpos, hall, convOk, equals_self hw']
    all_goals (try omega)
end

/-- `unifyTyF` with more fuel than the type is deep: identical types unify to that type -/
theorem unifyTyF_same : ∀ (fuel : Nat) (uns : Bool) (t : Ty) (n : Nat), tyDepth t < fuel → 0 < n →
    t.wf = true → t.hasOpt = false → unifyTyF fuel uns (List.replicate n t) = some t
  | 0, _, _, _, h, _, _, _ => by omega
  | fuel + 1, uns, t, n, hd, hn, hw, ho => by
    simp only [unifyTyF]
    apply cStep_same _ uns n hn t hw ho
    intro e he
    rcases he with rfl | rfl | rfl | ⟨es, rfl, hm⟩ | ⟨ns, ts, os, rfl, hm⟩
    · simp only [tyDepth] at hd; simp only [wf] at hw; simp only [hasOpt] at ho
      exact unifyTyF_same fuel uns e n (by omega) hn hw ho
    · simp only [tyDepth] at hd; simp only [wf] at hw; simp only [hasOpt] at ho
      exact unifyTyF_same fuel uns e n (by omega) hn hw ho
    · simp only [tyDepth] at hd; simp only [wf] at hw; simp only [hasOpt] at ho
      exact unifyTyF_same fuel uns e n (by omega) hn hw ho
    · simp only [tyDepth] at hd; simp only [wf] at hw; simp only [hasOpt] at ho
      have := tyDepth_le_of_mem es e hm
      exact unifyTyF_same fuel uns e n (by omega) hn (wfL_mem hw e hm) (hasOptL_mem ho e hm)
    · simp only [tyDepth] at hd
      simp only [wf, Bool.and_eq_true] at hw; simp only [hasOpt, Bool.or_eq_false_iff] at ho
      have := tyDepth_le_of_mem ts e hm
      exact unifyTyF_same fuel uns e n (by omega) hn (wfL_mem hw.2 e hm) (hasOptL_mem ho.2 e hm)

/-- the instance: `unifyTy` obeys the law the C08 theorems assume of `Env.unify` -/
theorem unifyLaws_std (base : Env) : UnifyLaws (Env.std base) where
  same := by
    intro uns t ts hne hall hw ho
    have hts : ts = List.replicate ts.length t := List.eq_replicate_iff.mpr ⟨rfl, hall⟩
    have hn : 0 < ts.length := List.length_pos_iff.mpr hne
    show unifyTy uns ts = some t
    rw [hts]
    simp only [unifyTy, fuelFor, tyDepthL_replicate t ts.length hn]
    exact unifyTyF_same _ uns t ts.length (by omega) hn hw ho

/-- the set parameters of `Env.simple` are untouched by `Env.std` -/
theorem setLaws_simple_std : SetLaws (Env.std Env.simple) where
  hash_ok := fun t p hw hm => setLaws_simple.hash_ok t p hw hm
  equiv_ok := fun t a b hw ha hb => setLaws_simple.equiv_ok t a b hw ha hb

end Unify
end CtyModel
