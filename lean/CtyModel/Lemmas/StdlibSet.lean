/-
Lemmas: the set-algebra functions are the `cty/set` operations (property C03)
on the value sets of their arguments.
-/
import CtyModel.Lemmas.StdlibRange
import CtyModel.Props.C03
namespace CtyModel
namespace Stdlib
open Value SetImpl

/-! ### set algebra -/

theorem asValueSet_set (E : Env) (ety : Ty) (ids : List Int) (vs : List Payload)
    (hh : ∀ p ∈ vs, (E.hash ety p).isSome = true) :
    asValueSet E ⟨.set ety, .sset ids vs⟩ =
      .ok (ety, SetImpl.fromList (setRules E ety) (setIter E ety vs)) := by
  have hany : ((setIter E ety vs).map (fun x => (⟨ety, x⟩ : Value))).any (fun e => (E.hash ety e.v).isNone) = false := by
    rw [List.any_eq_false]
    intro v hv
    obtain ⟨p, hp, rfl⟩ := List.mem_map.mp hv
    have hp' : p ∈ vs := (mem_sortStable _ _ _).mp hp
    have := hh p hp'
    cases h : E.hash ety p <;> simp_all
  simp only [asValueSet, Value.isMarked, Payload.isMarked, Bool.false_eq_true, if_false, elementTypeOf,
    elems_set, hany, List.map_map]
  congr 3
  simp [Function.comp_def]

/-- what each function computes on two known sets of one element type: the
`cty/set` operation on the two value sets, copied into a set value -/
theorem setOpImpl_two (E : Env) (ety : Ty) (k : SetOpKind) (ida idb : List Int) (va vb : List Payload)
    (hs : ety.equals ety.stripOpt = true) (he : ety.equals ety = true)
    (hha : ∀ p ∈ va, (E.hash ety p).isSome = true) (hhb : ∀ p ∈ vb, (E.hash ety p).isSome = true)
    (hka : Payload.whollyKnownL va = true) (hkb : Payload.whollyKnownL vb = true) :
    setOpImpl E k [⟨.set ety, .sset ida va⟩, ⟨.set ety, .sset idb vb⟩] (.set ety) =
      .ok (ofSetImpl ety (SetImpl.copy (k.run (setRules E ety)
        (SetImpl.fromList (setRules E ety) (setIter E ety va))
        (SetImpl.fromList (setRules E ety) (setIter E ety vb))))) := by
  have hc : ∀ ids vs, convertTo E ⟨.set ety, .sset ids vs⟩ (.set ety) = .ok ⟨.set ety, .sset ids vs⟩ := by
    intro ids vs; simp [convertTo, Ty.stripOpt, Ty.equals, hs]
  have hwa : (⟨.set ety, .sset ida va⟩ : Value).whollyKnown = true := by
    simp [Value.whollyKnown, Payload.whollyKnown, hka]
  have hwb : (⟨.set ety, .sset idb vb⟩ : Value).whollyKnown = true := by
    simp [Value.whollyKnown, Payload.whollyKnown, hkb]
  simp [setOpImpl, Ty.isDyn, setOpLoop, hc, hwa, hwb, asValueSet_set E ety ida va hha, asValueSet_set E ety idb vb hhb, he]

/-- the set-theoretic meaning of each function -/
def SetOpKind.spec (k : SetOpKind) (a b : Prop) : Prop :=
  match k with
  | .union => a ∨ b
  | .intersection => a ∧ b
  | .subtract => a ∧ ¬ b
  | .symmetricDifference => (a ∧ ¬ b) ∨ (b ∧ ¬ a)

theorem bucketVals_eq_values (s : SetImpl Payload) : bucketVals s.buckets = SetImpl.values s := rfl

/-- **set algebra = list-set algebra**: the members of the result represent exactly
the union / intersection / difference / symmetric difference of the classes
represented by the members of the arguments (for lawful `Equals`/`Hash`: C03) -/
theorem setOp_members (E : Env) (ety : Ty) (k : SetOpKind) (ida idb : List Int) (va vb : List Payload)
    (hR : (setRules E ety).Lawful)
    (hs : ety.equals ety.stripOpt = true) (he : ety.equals ety = true)
    (hha : ∀ p ∈ va, (E.hash ety p).isSome = true) (hhb : ∀ p ∈ vb, (E.hash ety p).isSome = true)
    (hka : Payload.whollyKnownL va = true) (hkb : Payload.whollyKnownL vb = true) :
    ∃ ids vs,
      setOpImpl E k [⟨.set ety, .sset ida va⟩, ⟨.set ety, .sset idb vb⟩] (.set ety) = .ok ⟨.set ety, .sset ids vs⟩ ∧
      ∀ y, Spec.memBy (setRules E ety).equiv vs y ↔
        k.spec (Spec.memBy (setRules E ety).equiv va y) (Spec.memBy (setRules E ety).equiv vb y) := by
  let R := setRules E ety
  let s1 := SetImpl.fromList R (setIter E ety va)
  let s2 := SetImpl.fromList R (setIter E ety vb)
  have h1 : Inv R s1 := (invB_fromList hR _).toInv hR
  have h2 : Inv R s2 := (invB_fromList hR _).toInv hR
  have hres : Inv R (k.run R s1 s2) := by
    have := C03.set_inv_algebra hR s1 s2
    cases k
    · exact this.1
    · exact this.2.1
    · exact this.2.2.1
    · exact this.2.2.2.1
  refine ⟨_, _, setOpImpl_two E ety k ida idb va vb hs he hha hhb hka hkb, ?_⟩
  intro y
  rw [copy_eq_self (hres.toB hR), bucketVals_eq_values]
  have habs1 : abs R s1 y ↔ Spec.memBy R.equiv va y := by
    rw [abs_fromList hR]
    constructor
    · rintro ⟨x, hx, hxy⟩; exact ⟨x, (mem_sortStable _ _ _).mp hx, hxy⟩
    · rintro ⟨x, hx, hxy⟩; exact ⟨x, (mem_sortStable _ _ _).mpr hx, hxy⟩
  have habs2 : abs R s2 y ↔ Spec.memBy R.equiv vb y := by
    rw [abs_fromList hR]
    constructor
    · rintro ⟨x, hx, hxy⟩; exact ⟨x, (mem_sortStable _ _ _).mp hx, hxy⟩
    · rintro ⟨x, hx, hxy⟩; exact ⟨x, (mem_sortStable _ _ _).mpr hx, hxy⟩
  have halg := C03.set_refines_algebra hR h1 h2 y
  show abs R (k.run R s1 s2) y ↔ _
  cases k
  · simp only [SetOpKind.run, SetOpKind.spec]; rw [halg.1, habs1, habs2]
  · simp only [SetOpKind.run, SetOpKind.spec]; rw [halg.2.1, habs1, habs2]
  · simp only [SetOpKind.run, SetOpKind.spec]; rw [halg.2.2.1, habs1, habs2]
  · simp only [SetOpKind.run, SetOpKind.spec]; rw [halg.2.2.2, habs1, habs2]

/-- the result holds no two equal members and is laid out as a valid set value -/
theorem setOp_result_inv (E : Env) (ety : Ty) (k : SetOpKind) (hR : (setRules E ety).Lawful)
    (s1 s2 : SetImpl Payload) : Inv (setRules E ety) (k.run (setRules E ety) s1 s2) := by
  have := C03.set_inv_algebra hR s1 s2
  cases k
  · exact this.1
  · exact this.2.1
  · exact this.2.2.1
  · exact this.2.2.2.1

/-- the known set values `(bucket ids, members)` of element type `ety` -/
def setArgs (ety : Ty) (sets : List (List Int × List Payload)) : List Value :=
  sets.map fun s => ⟨.set ety, .sset s.1 s.2⟩

theorem setOpElemTypes_same (ety : Ty) (hd : ety.equals .dyn = false) (sets : List (List Int × List Payload)) :
    setOpElemTypes (setArgs ety sets) = .ok (some (sets.map fun _ => ety)) := by
  induction sets with
  | nil => rfl
  | cons s rest ih =>
    have hk : (⟨.set ety, .sset s.1 s.2⟩ : Value).isKnown = true := rfl
    simp only [setArgs, List.map_cons, setOpElemTypes, Ty.isDyn, elementTypeOf, hk, Bool.not_true, Bool.false_eq_true,
      if_false, lengthInt_set, hd, Bool.and_false]
    simp only [setArgs] at ih
    rw [ih]

/-- result type: `set(ety)` when all arguments are sets of `ety` and unification
of equal types answers that type (C09 `unify_equal_types`) -/
theorem setOpType_same (E : Env) (ety : Ty) (hd : ety.equals .dyn = false)
    (sets : List (List Int × List Payload)) (hne : sets ≠ [])
    (hu : E.unify (sets.map fun _ => ety) = .ok (some ety)) :
    setOpType E (setArgs ety sets) = .ok (.set ety) := by
  simp only [setOpType, setOpElemTypes_same ety hd sets]
  cases sets with
  | nil => exact absurd rfl hne
  | cons s rest =>
    simp only [List.map_cons] at hu ⊢
    rw [hu]

/-! ### a dynamically-typed argument (/repo 8027069) -/

/-- the loop of `setOperationReturnType` leaves at the first argument of the dynamic
pseudo-type, whatever follows it (known sets of one element type before it) -/
theorem setOpElemTypes_dyn (ety : Ty) (sets : List (List Int × List Payload)) (d : Value) (rest : List Value)
    (hd : d.ty = .dyn) :
    setOpElemTypes (setArgs ety sets ++ d :: rest) = .ok none := by
  induction sets with
  | nil => simp [setArgs, setOpElemTypes, hd, Ty.isDyn]
  | cons s more ih =>
    have hk : (⟨.set ety, .sset s.1 s.2⟩ : Value).isKnown = true := rfl
    simp only [setArgs] at ih
    simp only [setArgs, List.map_cons, List.cons_append, setOpElemTypes, Ty.isDyn, elementTypeOf, hk, Bool.not_true,
      Bool.false_eq_true, if_false, lengthInt_set, ih]

/-- result type: the dynamic pseudo-type as soon as one argument is dynamically typed -/
theorem setOpType_dyn (E : Env) (ety : Ty) (sets : List (List Int × List Payload)) (d : Value) (rest : List Value)
    (hd : d.ty = .dyn) :
    setOpType E (setArgs ety sets ++ d :: rest) = .ok .dyn := by
  simp only [setOpType, setOpElemTypes_dyn ety sets d rest hd]

/-- `Impl` handed the dynamic pseudo-type as return type answers `cty.DynamicVal`
before it looks at any argument -/
theorem setOpImpl_dyn (E : Env) (k : SetOpKind) (args : List Value) :
    setOpImpl E k args .dyn = .ok Value.dynVal := by
  simp [setOpImpl, Ty.isDyn]

end Stdlib
end CtyModel
