/-
C20 — accessors hand out FRESH objects: the Go object behind everything an accessor
returns was allocated by that call and belongs to the caller (a ValueSet: to the
new helper set), so it is no object of any value.
-/
import CtyModel.Lemmas.HeapNoGain
import CtyModel.Lemmas.HeapStep
namespace CtyModel
namespace Heap

/-- the Go object directly behind a register word (what a caller mutation writes) -/
def goRoot : Word → Option Addr
  | .num a | .slice a _ _ _ | .map a | .marks a | .set a | .pair _ (.set a) => some a
  | _ => none

/-- accessors that return plain Go data: *big.Float, []Value, map[string]Value,
ValueMarks, Path, []Path -/
def isPlainAccessor : Api → Bool
  | .asBigFloat _ | .asValueSlice _ _ | .asValueMap _ | .marks _ | .unmark _ | .vsValues _ _
  | .pathIndex _ _ | .pathGetAttr _ _ | .pathCopy _ | .psList _ _ => true
  | _ => false

/-- accessors / constructors that return a mutable helper set -/
def isSetAccessor : Api → Bool
  | .asValueSet _ _ | .vsCopy _ | .newValueSet _ | .newPathSet => true
  | _ => false

theorem iterElems_len {m m' : Mem} {t v : Word} {perm : List Nat} {kes : List (Word × Word)}
    (he : iterElems m t v perm = some (m', kes)) : m.length ≤ m'.length := (ng_iterElems he).1

theorem alloc_owner (m : Mem) (o : Owner) (b : Body) : ownerOf (alloc m o b).1 m.length = some o := by
  simp [ownerOf, alloc]

theorem plain_accessor_fresh {st st' : St} {c : Api} (hc : isPlainAccessor c = true)
    (h : stepApi st c = some st') :
    ∀ g ∈ st'.gos.drop st.gos.length, ∀ a, goRoot g = some a →
      st.mem.length ≤ a ∧ ownerOf st'.mem a = some .caller := by
  cases c <;> simp only [isPlainAccessor] at hc <;> try (exact absurd hc (by decide))
  all_goals (simp only [stepApi] at h; opt_cases h)
  all_goals (simp only [St.withMem, St.pushGo, St.pushVal, List.drop_left, List.mem_singleton])
  all_goals (intro g hg a ha; subst hg; simp only [goRoot, Option.some.injEq, reduceCtorEq] at ha)
  all_goals (try subst ha)
  all_goals (first
    | exact ⟨Nat.le_refl _, alloc_owner _ _ _⟩
    | (refine ⟨?_, alloc_owner _ _ _⟩; apply iterElems_len (kes := _); assumption))

theorem set_accessor_fresh {st st' : St} {c : Api} (hc : isSetAccessor c = true)
    (h : stepApi st c = some st') :
    ∀ g ∈ st'.gos.drop st.gos.length, ∀ a, goRoot g = some a → st.mem.length ≤ a := by
  cases c <;> simp only [isSetAccessor] at hc <;> try (exact absurd hc (by decide))
  all_goals (simp only [stepApi] at h; opt_cases h)
  all_goals (simp only [St.withMem, St.pushGo, List.drop_left, List.mem_singleton])
  all_goals (intro g hg a ha; subst hg; simp only [goRoot, Option.some.injEq] at ha)
  all_goals (try subst ha)
  all_goals (first
    | exact Nat.le_refl _
    | (simp only [setNew, alloc_snd]; apply iterElems_len (kes := _); assumption)
    | (rename_i r hr; rw [setCopy_addr hr]; exact Nat.le_refl _))

end Heap
end CtyModel
