/-
`CoversX` (exact coverage) implies `Covers`; every weakening of an operand covers
it exactly (`weaken_covers`): the quantifier of property C01 (`Weaken`) lies
inside the relation the soundness statements `Sound₁/Sound₂` range over.
-/
import CtyModel.Lemmas.OpsCompare
import CtyModel.Lemmas.TyConform
namespace CtyModel
open Value Cov NumCmp

/-- the derived `BEq` of `Tri` decides equality -/
local instance : LawfulBEq Tri where
  eq_of_beq := by intro a b h; cases a <;> cases b <;> first | rfl | cases h
  rfl := by intro a; cases a <;> rfl

/-! ### exact coverage implies coverage -/

theorem anySplit_mono {p q : Payload → List Payload → Bool}
    (h : ∀ c rest, p c rest = true → q c rest = true) :
    ∀ (cs l : List Payload), anySplit p l cs = true → anySplit q l cs = true
  | [], _, h' => by simp [anySplit] at h'
  | c :: r, l, h' => by
    simp only [anySplit, Bool.or_eq_true] at h' ⊢
    rcases h' with h' | h'
    · exact Or.inl (h _ _ h')
    · exact Or.inr (anySplit_mono h r _ h')

mutual
theorem coversP_mono : ∀ (a c : Payload), coversP true a c = true → coversP false a c = true
  | .unk r, c, h => by simpa [coversP] using h
  | .null, c, h => by cases c <;> simp_all [coversP]
  | .b x, c, h => by cases c <;> simp_all [coversP]
  | .n x, c, h => by
    cases c <;> simp [coversP] at h ⊢
    simp [numEq, numEq_cmp h]
  | .s x, c, h => by cases c <;> simp_all [coversP]
  | .caps, c, h => by cases c <;> simp_all [coversP]
  | .seq as, c, h => by
    cases c <;> simp [coversP] at h ⊢
    exact coversL_mono as _ h
  | .smap ks as, c, h => by
    cases c <;> simp [coversP] at h ⊢
    exact ⟨h.1, coversL_mono as _ h.2⟩
  | .sset _ as, c, h => by
    cases c <;> simp [coversP] at h ⊢
    exact coversS_mono as _ h
  | .marked _ a, c, h => by
    simp only [coversP] at h ⊢
    exact coversP_mono a c h
  | .bad _, _, h => by simp [coversP] at h
theorem coversL_mono : ∀ (as cs : List Payload), coversL true as cs = true → coversL false as cs = true
  | [], cs, h => by simpa [coversL] using h
  | a :: as, cs, h => by
    cases cs <;> simp [coversL] at h ⊢
    exact ⟨coversP_mono a _ h.1, coversL_mono as _ h.2⟩
theorem coversS_mono : ∀ (as cs : List Payload), coversS true as cs = true → coversS false as cs = true
  | [], cs, h => by simpa [coversS] using h
  | a :: as, cs, h => by
    simp only [coversS] at h ⊢
    refine anySplit_mono ?_ cs [] h
    intro c rest hc
    simp only [Bool.and_eq_true, Bool.or_eq_true] at hc ⊢
    refine ⟨coversP_mono a c hc.1, ?_⟩
    rcases hc.2 with h2 | h2
    · exact Or.inl (coversS_mono as _ h2)
    · exact Or.inr (coversS_mono as _ h2)
end

theorem coversX_covers {w o : Value} (h : CoversX w o = true) : Covers w o = true := by
  simp only [CoversX, Covers, CoversG, Bool.and_eq_true] at h ⊢
  exact ⟨h.1, coversP_mono _ _ h.2⟩

/-! ### an unrefined unknown admits everything -/

theorem admits_unref_strip : ∀ p : Payload, admits .unref p.stripMarks = true
  | .marked _ r => by simp only [Payload.stripMarks]; exact admits_unref_strip r
  | .null => by simp [Payload.stripMarks, admits, Rfn.nullness]
  | .unk rc => by
    simp only [Payload.stripMarks, admits, rfnInside]
    cases rc.nullness <;> simp [Rfn.nullness]
  | .b _ | .n _ | .s _ | .caps | .bad _ => by simp [Payload.stripMarks, admits, Rfn.nullness, rfnAdmitsKnown]
  | .seq _ | .smap _ _ | .sset _ _ => by simp [Payload.stripMarks, admits, Rfn.nullness, rfnAdmitsKnown]

theorem covers_dynVal (o : Value) : Covers dynVal o = true := by
  simp [Covers, CoversG, dynVal, Ty.matches, Payload.stripMarks, coversP, admits_unref_strip]

theorem coversX_dynVal (o : Value) : CoversX dynVal o = true := by
  simp [CoversX, CoversG, dynVal, Ty.matches, Payload.stripMarks, coversP, admits_unref_strip]

theorem covers_unknown {t t' : Ty} {p : Payload} (hm : Ty.matches t' t = true) :
    Covers (Value.unknown t') ⟨t, p⟩ = true := by
  simp [Covers, CoversG, Value.unknown, hm, Payload.stripMarks, coversP, admits_unref_strip]

/-! ### reflexivity on leaves -/

theorem loInside_refl (a : Option Bound) : loInside a a = true := by
  simp [loInside, cmp_self]

theorem hiInside_refl (a : Option Bound) : hiInside a a = true := by
  simp [hiInside, cmp_self]

theorem hasPrefix_refl (s : String) : Value.hasPrefix s s = true := by
  simp [Value.hasPrefix]

theorem rfnInside_refl (r : Rfn) : rfnInside r r = true := by
  cases r <;> simp [rfnInside, loInside_refl, hiInside_refl, hasPrefix_refl]

theorem admits_unk_refl (r : Rfn) : admits r (.unk r) = true := by
  simp only [admits, rfnInside_refl]
  cases r.nullness <;> simp

theorem coversP_leaf_refl {p : Payload} (h : p.isLeaf = true) : coversP true p p = true := by
  cases p <;> simp_all [Payload.isLeaf, coversP, admits_unk_refl, numEq_refl]

theorem stripMarks_leaf {p : Payload} (h : p.isLeaf = true) : p.stripMarks = p := by
  cases p <;> simp_all [Payload.isLeaf, Payload.stripMarks]

/-! ### a refinement true of a sub-value admits it -/

theorem loInside_of_trueOf {lo : Option Bound} {x : Num}
    (h : ∀ b, lo = some b → if b.incl then Num.cmp b.v x ≤ 0 else Num.cmp b.v x < 0) :
    loInside lo (pt x) = true := by
  cases lo with
  | none => simp [loInside, pt, negInfB, cmp_negInf_le]
  | some b =>
    have := h b rfl
    cases hb : b.incl <;> simp_all [loInside, pt]

theorem hiInside_of_trueOf {hi : Option Bound} {x : Num}
    (h : ∀ b, hi = some b → if b.incl then Num.cmp x b.v ≤ 0 else Num.cmp x b.v < 0) :
    hiInside hi (pt x) = true := by
  cases hi with
  | none => simp [hiInside, pt, posInfB, cmp_posInf]
  | some b =>
    have := h b rfl
    cases hb : b.incl <;> simp_all [hiInside, pt]

theorem hasPrefix_of_bytePrefix {pfx s : String} (h : BytePrefix pfx s) : Value.hasPrefix s pfx = true := by
  simpa [Value.hasPrefix, BytePrefix, List.isPrefixOf_iff_prefix] using h

theorem rfnAdmitsKnown_of_trueOf {r : Rfn} {p : Payload}
    (h : match r with
     | .unref | .nullable _ => True
     | .num _ lo hi => ∃ x, p = .n x ∧
        (∀ b, lo = some b → if b.incl then Num.cmp b.v x ≤ 0 else Num.cmp b.v x < 0) ∧
        (∀ b, hi = some b → if b.incl then Num.cmp x b.v ≤ 0 else Num.cmp x b.v < 0)
     | .str _ pfx => ∃ s, p = .s s ∧ BytePrefix pfx s
     | .coll _ lo hi => ∃ l h, Cov.possibleLen p = some (l, h) ∧ lo ≤ l ∧ h ≤ hi) :
    rfnAdmitsKnown r p = true := by
  cases r with
  | unref => simp [rfnAdmitsKnown]
  | nullable n => simp [rfnAdmitsKnown]
  | num n lo hi =>
    obtain ⟨x, rfl, h1, h2⟩ := h
    simp [rfnAdmitsKnown, loInside_of_trueOf h1, hiInside_of_trueOf h2]
  | str n pfx =>
    obtain ⟨s, rfl, h1⟩ := h
    simp [rfnAdmitsKnown, hasPrefix_of_bytePrefix h1]
  | coll n lo hi =>
    obtain ⟨l, h', hp, h1, h2⟩ := h
    simp [rfnAdmitsKnown, hp, h1, h2]

theorem trueOf_admits {r : Rfn} {q : Payload} (h : Rfn.TrueOf r q) : admits r q = true := by
  cases q with
  | null => simpa [Rfn.TrueOf, admits] using h
  | unk _ => simp [Rfn.TrueOf] at h
  | marked _ _ => simp [Rfn.TrueOf] at h
  | bad _ => simp [Rfn.TrueOf] at h
  | _ =>
    simp only [Rfn.TrueOf] at h
    simp only [admits, Bool.and_eq_true]
    exact ⟨by simpa using h.1, rfnAdmitsKnown_of_trueOf h.2⟩

/-! ### the identity matching of set members -/

theorem coversL_coversS (ex : Bool) : ∀ (as cs : List Payload), coversL ex as cs = true → coversS ex as cs = true
  | [], cs, h => by simpa [coversL, coversS] using h
  | a :: as, [], h => by simp [coversL] at h
  | a :: as, c :: cs, h => by
    simp only [coversL, Bool.and_eq_true] at h
    simp only [coversS, anySplit, Bool.or_eq_true, Bool.and_eq_true]
    exact Or.inl ⟨h.1, Or.inl (by simpa using coversL_coversS ex as cs h.2)⟩

/-! ### weakenings are covered exactly -/

mutual
theorem weakenP_covers : ∀ {p w : Payload}, WeakenP p w → coversP true w.stripMarks p.stripMarks = true
  | _, _, .leaf hl => by rw [stripMarks_leaf hl]; exact coversP_leaf_refl hl
  | _, _, .toUnk ht => by simp only [Payload.stripMarks, coversP]; exact trueOf_admits ht
  | _, _, .seq hl => by simp only [Payload.stripMarks, coversP]; exact weakenL_covers hl
  | _, _, .smap hl => by simp [Payload.stripMarks, coversP]; exact weakenL_covers hl
  | _, _, .sset hl => by simp only [Payload.stripMarks, coversP]; exact coversL_coversS _ _ _ (weakenL_covers hl)
  | _, _, .markL h => by simp only [Payload.stripMarks]; exact weakenP_covers h
  | _, _, .markR h => by simp only [Payload.stripMarks]; exact weakenP_covers h
theorem weakenL_covers : ∀ {vs ws : List Payload}, WeakenL vs ws →
    coversL true (Payload.stripMarksL ws) (Payload.stripMarksL vs) = true
  | _, _, .nil => by simp [Payload.stripMarksL, coversL]
  | _, _, .cons h hl => by
    simp only [Payload.stripMarksL, coversL, Bool.and_eq_true]
    exact ⟨weakenP_covers h, weakenL_covers hl⟩
end

theorem weaken_covers {o w : Value} (h : Weaken o w) : CoversX w o = true := by
  cases h with
  | inside hp =>
    simp only [CoversX, CoversG, Bool.and_eq_true]
    exact ⟨Ty.matches_refl _, weakenP_covers hp⟩
  | dyn => exact coversX_dynVal o

end CtyModel
