/-
d08b, part 4: NO LOSS OF MARKS, at depth, through the conversions that drop nothing.

`seen t p`: the marks a conversion can meet when it walks a value of type `t` with payload `p` the
way `ElementIterator` does (element types come from the container type; a tuple / object payload
longer than its type is cut off; members of a set carry no marks of their own — `SetVal` moved
them to the set).  For a well-typed value whose sets are clean it is every mark at any depth
(`seen_eq_of_wt`).  `keeps p`: the plan is built from the closures that rebuild their input element
by element — `getConversion`'s wrapper, the primitive conversions, list / set / map rebuilding,
tuple → tuple, tuple → set — and from none that drops parts of its input (object → object,
map → object), consults the payload's own keys (object → map), ignores its input (the three
empty-source closures) or converts a second time towards a type `unify` chose at run time
(tuple → list, maps of collections, `dynamicFixup`).  Theorem `apply_kept`: every mark `seen` in the
input is a mark of the result — at the position of the converted element, or on the set that
element went into, or above.
-/
import CtyModel.Lemmas.d08bUnmark
namespace CtyModel
namespace D08B
open Convert

mutual
/-- no object type anywhere (object → object and map → object conversions drop attributes / keys
the target does not name, with their marks: intended) -/
def noObj : Ty → Bool
  | .object _ _ _ => false
  | .list e | .set e | .map e => noObj e
  | .tuple ts => noObjL ts
  | _ => true
def noObjL : List Ty → Bool
  | [] => true
  | t :: ts => noObj t && noObjL ts
end

mutual
def seen : Ty → Payload → List String
  | t, .marked ms r => unionMarks ms (seen t r)
  | .list e, .seq ps => seenAll e ps
  | .map e, .smap _ ps => seenAll e ps
  | .tuple ts, .seq ps => seenZip ts ps
  | .object _ ts _, .smap _ ps => seenZip ts ps
  | _, _ => []
termination_by structural _ p => p
def seenAll : Ty → List Payload → List String
  | _, [] => []
  | e, p :: ps => unionMarks (seen e p) (seenAll e ps)
termination_by structural _ ps => ps
def seenZip : List Ty → List Payload → List String
  | t :: ts, p :: ps => unionMarks (seen t p) (seenZip ts ps)
  | _, _ => []
termination_by structural _ ps => ps
end

def Value.seen (v : Value) : List String := D08B.seen v.ty v.v

theorem mem_seenAll {e : Ty} {m : String} : ∀ {ps : List Payload}, m ∈ seenAll e ps → ∃ p ∈ ps, m ∈ seen e p
  | [], h => by simp [seenAll] at h
  | p :: ps, h => by
    simp only [seenAll] at h
    rcases CtyModel.mem_unionMarks.mp h with h | h
    · exact ⟨p, by simp, h⟩
    · obtain ⟨q, hq, hm⟩ := mem_seenAll h
      exact ⟨q, List.mem_cons_of_mem _ hq, hm⟩

theorem mem_seenZip {m : String} : ∀ {ts : List Ty} {ps : List Payload}, m ∈ seenZip ts ps →
    ∃ x ∈ zipTys ts ps, m ∈ seen x.ty x.v
  | [], _, h => by simp [seenZip] at h
  | _ :: _, [], h => by simp [seenZip] at h
  | t :: ts, p :: ps, h => by
    simp only [seenZip] at h
    rcases CtyModel.mem_unionMarks.mp h with h | h
    · exact ⟨⟨t, p⟩, by simp [zipTys], h⟩
    · obtain ⟨x, hx, hm⟩ := mem_seenZip h
      exact ⟨x, by simp [zipTys, hx], hm⟩

/-- what the iteration yields covers everything seen in an unmarked container -/
theorem elemsOf_seen {E : Env} {v : Value} {es : List Value} (h : elemsOf E v = .ok es)
    {m : String} (hs : m ∈ seen v.ty v.v) : ∃ e ∈ es, m ∈ seen e.ty e.v := by
  obtain ⟨t, p⟩ := v
  cases p with
  | marked ms r => cases t <;> simp [elemsOf] at h
  | seq ps =>
    cases t <;> simp only [elemsOf] at h <;> simp at h <;> subst h <;> simp only [seen] at hs
    · obtain ⟨q, hq, hmq⟩ := mem_seenAll hs
      exact ⟨⟨_, q⟩, List.mem_map.mpr ⟨q, hq, rfl⟩, hmq⟩
    · exact mem_seenZip hs
  | smap ks ps =>
    cases t <;> simp only [elemsOf] at h <;> simp at h <;> subst h <;> simp only [seen] at hs
    · obtain ⟨q, hq, hmq⟩ := mem_seenAll hs
      exact ⟨⟨_, q⟩, List.mem_map.mpr ⟨q, hq, rfl⟩, hmq⟩
    · exact mem_seenZip hs
  | _ => cases t <;> simp [seen] at hs

/-! ### types -/

mutual
theorem equals_noObj : ∀ (a b : Ty), a.equals b = true → noObj a = true → noObj b = true
  | .list a, b, h, hn => by
    cases b <;> simp [Ty.equals] at h
    simpa [noObj] using equals_noObj a _ h (by simpa [noObj] using hn)
  | .set a, b, h, hn => by
    cases b <;> simp [Ty.equals] at h
    simpa [noObj] using equals_noObj a _ h (by simpa [noObj] using hn)
  | .map a, b, h, hn => by
    cases b <;> simp [Ty.equals] at h
    simpa [noObj] using equals_noObj a _ h (by simpa [noObj] using hn)
  | .tuple as, b, h, hn => by
    cases b <;> simp [Ty.equals] at h
    simpa [noObj] using equalsZip_noObj as _ h.1 h.2 (by simpa [noObj] using hn)
  | .object _ _ _, _, _, hn => by simp [noObj] at hn
  | .bool, b, h, _ => by cases b <;> simp [Ty.equals] at h <;> rfl
  | .number, b, h, _ => by cases b <;> simp [Ty.equals] at h <;> rfl
  | .string, b, h, _ => by cases b <;> simp [Ty.equals] at h <;> rfl
  | .dyn, b, h, _ => by cases b <;> simp [Ty.equals] at h <;> rfl
  | .capsule _, b, h, _ => by cases b <;> simp [Ty.equals] at h <;> rfl
theorem equalsZip_noObj : ∀ (as bs : List Ty), as.length = bs.length → Ty.equalsZip as bs = true →
    noObjL as = true → noObjL bs = true
  | [], [], _, _, _ => rfl
  | [], _ :: _, hl, _, _ => by simp at hl
  | _ :: _, [], hl, _, _ => by simp at hl
  | a :: as, b :: bs, hl, h, hn => by
    simp only [Ty.equalsZip, Bool.and_eq_true] at h
    simp only [noObjL, Bool.and_eq_true] at hn ⊢
    exact ⟨equals_noObj a b h.1 hn.1, equalsZip_noObj as bs (by simpa using hl) h.2 hn.2⟩
end

mutual
theorem noObj_stripOpt : ∀ t : Ty, noObj t.stripOpt = noObj t
  | .list e => by simpa [Ty.stripOpt, noObj] using noObj_stripOpt e
  | .set e => by simpa [Ty.stripOpt, noObj] using noObj_stripOpt e
  | .map e => by simpa [Ty.stripOpt, noObj] using noObj_stripOpt e
  | .tuple ts => by simpa [Ty.stripOpt, noObj] using noObjL_stripOptL ts
  | .object _ _ _ => by simp [Ty.stripOpt, noObj]
  | .bool | .number | .string | .dyn | .capsule _ => by simp [Ty.stripOpt]
theorem noObjL_stripOptL : ∀ ts : List Ty, noObjL (Ty.stripOptL ts) = noObjL ts
  | [] => rfl
  | t :: ts => by simp [Ty.stripOptL, noObjL, noObj_stripOpt t, noObjL_stripOptL ts]
end

theorem isDyn_noObj {t : Ty} (h : t.isDyn = true) : noObj t = true := by
  cases t <;> simp [Ty.isDyn] at h <;> rfl

theorem elemTyAcc_noObj : ∀ (xs : List Ty) (acc t : Ty), elemTyAcc acc xs = some t → noObj t = true →
    noObj acc = true ∧ ∀ x ∈ xs, noObj x = true
  | [], acc, t, h, hn => by simp [elemTyAcc] at h; subst h; exact ⟨hn, by simp⟩
  | x :: xs, acc, t, h, hn => by
    simp only [elemTyAcc] at h
    split at h
    · rename_i hd
      have ih := elemTyAcc_noObj xs x t h hn
      exact ⟨isDyn_noObj hd, by
        intro y hy
        rcases List.mem_cons.mp hy with rfl | hy
        · exact ih.1
        · exact ih.2 y hy⟩
    · split at h
      · simp at h
      · rename_i hc
        have ih := elemTyAcc_noObj xs acc t h hn
        refine ⟨ih.1, ?_⟩
        intro y hy
        rcases List.mem_cons.mp hy with rfl | hy
        · simp only [Bool.and_eq_true, Bool.not_eq_true', not_and, Bool.not_eq_false] at hc
          by_cases hd : y.isDyn = true
          · exact isDyn_noObj hd
          · exact equals_noObj acc y (hc (by simpa using hd)) ih.1
        · exact ih.2 y hy

theorem elemTyOf_noObj {vs : List Value} {t : Ty} (h : elemTyOf vs = some t) (hn : noObj t = true) :
    ∀ v ∈ vs, noObj v.ty = true := by
  intro v hv
  exact (elemTyAcc_noObj _ _ _ h hn).2 v.ty (List.mem_map.mpr ⟨v, hv, rfl⟩)

/-! ### the relation -/

mutual
theorem seen_subset_deep : ∀ (t : Ty) (p : Payload) (m : String), m ∈ seen t p → m ∈ p.marksDeep
  | t, .marked ms r, m, h => by
    simp only [seen] at h
    simp only [Payload.marksDeep]
    rcases CtyModel.mem_unionMarks.mp h with h | h
    · exact CtyModel.mem_unionMarks.mpr (.inl h)
    · exact CtyModel.mem_unionMarks.mpr (.inr (seen_subset_deep t r m h))
  | t, .seq ps, m, h => by
    cases t <;> simp only [seen] at h <;> first | (simp at h; done) | skip
    · exact seenAll_subset_deep _ ps m h
    · exact seenZip_subset_deep _ ps m h
  | t, .smap ks ps, m, h => by
    cases t <;> simp only [seen] at h <;> first | (simp at h; done) | skip
    · exact seenAll_subset_deep _ ps m h
    · exact seenZip_subset_deep _ ps m h
  | t, .sset _ _, m, h => by cases t <;> simp [seen] at h
  | t, .null, m, h => by cases t <;> simp [seen] at h
  | t, .unk _, m, h => by cases t <;> simp [seen] at h
  | t, .b _, m, h => by cases t <;> simp [seen] at h
  | t, .n _, m, h => by cases t <;> simp [seen] at h
  | t, .s _, m, h => by cases t <;> simp [seen] at h
  | t, .caps, m, h => by cases t <;> simp [seen] at h
  | t, .bad _, m, h => by cases t <;> simp [seen] at h
theorem seenAll_subset_deep : ∀ (e : Ty) (ps : List Payload) (m : String), m ∈ seenAll e ps → m ∈ Payload.marksDeepL ps
  | _, [], m, h => by simp [seenAll] at h
  | e, p :: ps, m, h => by
    simp only [seenAll] at h
    simp only [Payload.marksDeepL]
    rcases CtyModel.mem_unionMarks.mp h with h | h
    · exact CtyModel.mem_unionMarks.mpr (.inl (seen_subset_deep e p m h))
    · exact CtyModel.mem_unionMarks.mpr (.inr (seenAll_subset_deep e ps m h))
theorem seenZip_subset_deep : ∀ (ts : List Ty) (ps : List Payload) (m : String), m ∈ seenZip ts ps → m ∈ Payload.marksDeepL ps
  | [], _, m, h => by simp [seenZip] at h
  | _ :: _, [], m, h => by simp [seenZip] at h
  | t :: ts, p :: ps, m, h => by
    simp only [seenZip] at h
    simp only [Payload.marksDeepL]
    rcases CtyModel.mem_unionMarks.mp h with h | h
    · exact CtyModel.mem_unionMarks.mpr (.inl (seen_subset_deep t p m h))
    · exact CtyModel.mem_unionMarks.mpr (.inr (seenZip_subset_deep ts ps m h))
end

/-- every mark seen in `v` is a mark of `r`, provided `r`'s type names no object type -/
def KP (v r : Value) : Prop := noObj r.ty = true → ∀ m ∈ seen v.ty v.v, m ∈ r.marksDeep

theorem KP.self (v : Value) : KP v v := fun _ m hm => seen_subset_deep _ _ m hm

mutual
/-- plans made of the closures that rebuild their input element by element -/
def keeps : Plan → Bool
  | .nil => true
  | .wrap _ c => keeps c
  | .dynPass | .numToStr | .boolToStr | .strToNum | .strToBool => true
  | .collToList _ c => keeps c
  | .collToSet _ c => keeps c
  | .collToMap ety c => !isCollOrObj ety && keeps c
  | .tupToTup cs => keepsL cs
  | .tupToSet cs => keepsL cs
  | _ => false
def keepsL : List Plan → Bool
  | [] => true
  | c :: cs => keeps c && keepsL cs
end

theorem keepsL_mem : ∀ {cs : List Plan}, keepsL cs = true → ∀ c ∈ cs, keeps c = true
  | [], _, c, hc => by simp at hc
  | d :: ds, h, c, hc => by
    simp only [keepsL, Bool.and_eq_true] at h
    rcases List.mem_cons.mp hc with rfl | hc
    · exact h.1
    · exact keepsL_mem h.2 c hc

def KeptRec (rec : Rec) : Prop := ∀ p v r, keeps p = true → rec p v = .ok r → KP v r

theorem seen_leaf (t : Ty) {p : Payload} (h : p.isMarked = false) (hl : (!p.isKnown || p.isNull) = true) :
    seen t p = [] := by
  cases p <;> simp_all [Payload.isMarked, Payload.isKnown, Payload.isNull, Payload.unmark1] <;> cases t <;> simp [seen]

theorem seen_prim (t : Ty) {p : Payload} (h : (∃ x, p = .n x) ∨ (∃ x, p = .b x) ∨ (∃ x, p = .s x)) : seen t p = [] := by
  rcases h with ⟨x, rfl⟩ | ⟨x, rfl⟩ | ⟨x, rfl⟩ <;> cases t <;> simp [seen]

theorem stripNull_kept {e x : Value} (h : KP e x) : KP e (stripNull x) := by
  unfold stripNull
  split
  · rename_i hn
    intro hno m hm
    have hno' : noObj x.ty = true := by
      have : noObj x.ty.stripOpt = true := hno
      rwa [noObj_stripOpt] at this
    have hx := h hno' m hm
    have hnull : x.v.unmark1 = .null := by
      have : x.v.isNull = true := hn
      unfold Payload.isNull at this
      split at this
      · assumption
      · simp at this
    rcases (Payload.mem_marksDeep_iff x.v m).mp hx with h1 | h1
    · exact Value.mem_marksDeep_withMarks.mpr (.inl h1)
    · rw [hnull] at h1; simp [Payload.marksDeep] at h1
  · exact h

theorem mapRes_mem {α β} {f : α → Res β} : ∀ {xs : List α} {ys : List β}, mapRes f xs = .ok ys →
    ∀ x ∈ xs, ∃ y ∈ ys, f x = .ok y
  | [], ys, _, x, hx => by simp at hx
  | a :: as, ys, h, x, hx => by
    simp only [mapRes] at h
    obtain ⟨b, hb, h⟩ := D04C.bindOk h
    obtain ⟨bs, hbs, h⟩ := D04C.bindOk h
    simp at h; subst h
    rcases List.mem_cons.mp hx with rfl | hx
    · exact ⟨b, by simp, hb⟩
    · obtain ⟨y, hy, hf⟩ := mapRes_mem hbs x hx
      exact ⟨y, List.mem_cons_of_mem _ hy, hf⟩

theorem applyZip_mem {rec : Rec} {post : Value → Value} : ∀ {ps : List Plan} {vs rs : List Value},
    applyZip rec post ps vs = .ok rs → ∀ v ∈ vs, ∃ p ∈ ps, ∃ r0, applyOpt rec p v = .ok r0 ∧ post r0 ∈ rs
  | ps, [], rs, _, v, hv => by simp at hv
  | [], _ :: _, rs, h, _, _ => by simp [applyZip] at h
  | p :: ps, a :: as, rs, h, v, hv => by
    simp only [applyZip] at h
    obtain ⟨a', ha', h⟩ := D04C.bindOk h
    obtain ⟨as', has', h⟩ := D04C.bindOk h
    simp at h; subst h
    rcases List.mem_cons.mp hv with rfl | hv
    · exact ⟨p, by simp, a', ha', by simp⟩
    · obtain ⟨q, hq, r0, hr0, hmem⟩ := applyZip_mem has' v hv
      exact ⟨q, List.mem_cons_of_mem _ hq, r0, hr0, List.mem_cons_of_mem _ hmem⟩

theorem mem_marksOfAll_of {vs : List Value} {v : Value} (hv : v ∈ vs) {m : String} (hm : m ∈ v.marksDeep) :
    m ∈ marksOfAll vs := by
  induction vs with
  | nil => simp at hv
  | cons a as ih =>
    simp only [marksOfAll]
    rcases List.mem_cons.mp hv with rfl | hv
    · exact CtyModel.mem_unionMarks.mpr (.inl hm)
    · exact CtyModel.mem_unionMarks.mpr (.inr (ih hv))

theorem deep_of_member {vs : List Value} {v : Value} (hv : v ∈ vs) {m : String} (hm : m ∈ v.marksDeep) :
    m ∈ Payload.marksDeepL (vs.map (·.v)) :=
  Payload.marksDeepL_of_mem (List.mem_map.mpr ⟨v, hv, rfl⟩) hm

theorem noObjL_mem : ∀ {ts : List Ty}, noObjL ts = true → ∀ t ∈ ts, noObj t = true
  | [], _, t, ht => by simp at ht
  | a :: as, h, t, ht => by
    simp only [noObjL, Bool.and_eq_true] at h
    rcases List.mem_cons.mp ht with rfl | ht
    · exact h.1
    · exact noObjL_mem h.2 t ht

/-- assembling: if every mark seen in `v` is seen in some element of `es`, and each element's marks
are deep marks of some member of `rs` whose type names no object — then they are marks of anything
whose deep marks include those of the members of `rs` -/
theorem collect {v : Value} {es rs : List Value}
    (hsee : ∀ m ∈ seen v.ty v.v, ∃ e ∈ es, m ∈ seen e.ty e.v)
    (hconv : ∀ e ∈ es, ∃ r ∈ rs, KP e r) (hty : ∀ r ∈ rs, noObj r.ty = true) :
    ∀ m ∈ seen v.ty v.v, ∃ r ∈ rs, m ∈ r.marksDeep := by
  intro m hm
  obtain ⟨e, he, hme⟩ := hsee m hm
  obtain ⟨r, hr, hk⟩ := hconv e he
  exact ⟨r, hr, hk (hty r hr) m hme⟩

theorem lengthKnown_false_seen {v : Value} (h : lengthKnown v = false) : seen v.ty v.v = [] := by
  unfold lengthKnown at h
  split at h
  · rename_i ht hv
    rw [ht, hv]; simp [seen]
  · simp at h

section
variable {rec : Rec} (hrec : KeptRec rec)
include hrec

theorem applyOpt_kept {p : Plan} {v r : Value} (hk : keeps p = true) (h : applyOpt rec p v = .ok r) : KP v r := by
  cases p
  case nil => simp [applyOpt] at h; subst h; exact KP.self _
  all_goals exact hrec _ _ _ hk h

/-- the members of a rebuilt list / set / map: each element seen, converted, kept -/
theorem members_kept {conv : Plan} (hk : keeps conv = true) {post : Value → Value}
    (hpost : ∀ e x, KP e x → KP e (post x)) {es es' : List Value}
    (h : mapRes (fun e => (applyOpt rec conv e).map post) es = .ok es') : ∀ e ∈ es, ∃ r ∈ es', KP e r := by
  intro e he
  obtain ⟨y, hy, hf⟩ := mapRes_mem h e he
  obtain ⟨x, hx, rfl⟩ := D04C.mapOk hf
  exact ⟨_, hy, hpost e x (applyOpt_kept hrec hk hx)⟩

theorem zip_kept {convs : List Plan} (hk : keepsL convs = true) {post : Value → Value}
    (hpost : ∀ e x, KP e x → KP e (post x)) {es es' : List Value}
    (h : applyZip rec post convs es = .ok es') : ∀ e ∈ es, ∃ r ∈ es', KP e r := by
  intro e he
  obtain ⟨p, hp, r0, hr0, hmem⟩ := applyZip_mem h e he
  exact ⟨_, hmem, hpost e r0 (applyOpt_kept hrec (keepsL_mem hk p hp) hr0)⟩

/-- one closure body keeps the marks it sees if the nested calls do -/
theorem applyStep_kept (E : Env) : KeptRec (applyStep E rec) := by
  intro p v r hk h
  cases p with
  | nil => simp [applyStep] at h
  | impossible | absent | dynFixup _ | objToObj _ _ _ _ _ | emptyToSet _ | emptyToList _ | emptyToMap _
    | tupToList _ _ | objToMap _ _ _ _ | mapToObj _ _ _ _ => simp [keeps] at hk
  | dynPass => simp [applyStep] at h; subst h; exact KP.self _
  | numToStr | boolToStr | strToNum | strToBool =>
    simp only [applyStep] at h
    split at h
    · rename_i hv
      intro _ m hm
      rw [hv, seen_prim _ (by simp)] at hm
      simp at hm
    · simp at h
  | wrap out conv =>
    have hk' : keeps conv = true := by simpa [keeps] using hk
    simp only [applyStep] at h
    split at h
    · rename_i hm
      split at h
      · rename_i r0 hr0
        simp at h; subst h
        have ih := hrec _ _ _ hk hr0
        intro hno m hms
        obtain ⟨t, p⟩ := v
        cases p with
        | marked ms q =>
          simp only [seen] at hms
          rcases CtyModel.mem_unionMarks.mp hms with h1 | h1
          · exact Value.mem_marksDeep_withMarks.mpr (.inl h1)
          · exact Value.mem_marksDeep_withMarks.mpr (.inr (ih hno m h1))
        | _ => simp [Value.isMarked, Payload.isMarked] at hm
      · rename_i hne
        exact absurd h (fun hh => hne _ hh)
    · rename_i hm
      split at h
      · simp at h; subst h; exact KP.self _
      · split at h
        · rename_i hleaf
          intro _ m hms
          rw [seen_leaf _ (by simpa [Value.isMarked] using hm) hleaf] at hms
          simp at hms
        · exact hrec _ _ _ hk' h
  | tupToTup convs =>
    have hk' : keepsL convs = true := by simpa [keeps] using hk
    simp only [applyStep] at h
    obtain ⟨es, hes, h⟩ := D04C.bindOk h
    obtain ⟨es', hes', h⟩ := D04C.bindOk h
    simp at h; subst h
    intro hno m hm
    have hty : ∀ x ∈ es', noObj x.ty = true := by
      intro x hx
      have : noObjL (es'.map (·.ty)) = true := by simpa [tupleVal, noObj] using hno
      exact noObjL_mem this x.ty (List.mem_map.mpr ⟨x, hx, rfl⟩)
    obtain ⟨x, hx, hmx⟩ := collect (fun m hm => elemsOf_seen hes hm)
      (zip_kept hrec hk' (post := id) (fun _ _ hh => hh) hes') hty m hm
    exact deep_of_member hx hmx
  | tupToSet convs =>
    have hk' : keepsL convs = true := by simpa [keeps] using hk
    simp only [applyStep] at h
    obtain ⟨es, hes, h⟩ := D04C.bindOk h
    obtain ⟨es', hes', h⟩ := D04C.bindOk h
    split at h
    · simp at h
    · unfold setVal at h
      split at h
      · simp at h
      · split at h
        · simp at h
        · rename_i t ht
          obtain ⟨q, _, rfl⟩ := D04C.mapOk h
          intro hno m hm
          have hty : ∀ x ∈ es', noObj x.ty = true := elemTyOf_noObj ht (by simpa [Value.withMarks, noObj] using hno)
          obtain ⟨x, hx, hmx⟩ := collect (fun m hm => elemsOf_seen hes hm)
            (zip_kept hrec hk' (post := stripNull) (fun _ _ hh => stripNull_kept hh) hes') hty m hm
          exact Value.mem_marksDeep_withMarks.mpr (.inl (mem_marksOfAll_of hx hmx))
  | collToList ety conv =>
    have hk' : keeps conv = true := by simpa [keeps] using hk
    simp only [applyStep] at h
    split at h
    · rename_i hlk
      intro _ m hm
      rw [lengthKnown_false_seen (by simpa using hlk)] at hm
      simp at hm
    · obtain ⟨es, hes, h⟩ := D04C.bindOk h
      obtain ⟨es', hes', h⟩ := D04C.bindOk h
      have hmem := members_kept hrec hk' (post := stripNull) (fun _ _ hh => stripNull_kept hh) hes'
      split at h
      · rename_i hemp
        intro _ m hm
        obtain ⟨e, he, _⟩ := elemsOf_seen hes hm
        obtain ⟨x, hx, _⟩ := hmem e he
        have : es' = [] := by simpa using hemp
        rw [this] at hx; simp at hx
      · split at h
        · simp at h
        · unfold listVal at h
          split at h
          · simp at h
          · split at h
            · simp at h
            · rename_i t ht
              simp at h; subst h
              intro hno m hm
              have hty : ∀ x ∈ es', noObj x.ty = true := elemTyOf_noObj ht (by simpa [noObj] using hno)
              obtain ⟨x, hx, hmx⟩ := collect (fun m hm => elemsOf_seen hes hm) hmem hty m hm
              exact deep_of_member hx hmx
  | collToSet ety conv =>
    have hk' : keeps conv = true := by simpa [keeps] using hk
    simp only [applyStep] at h
    obtain ⟨es, hes, h⟩ := D04C.bindOk h
    obtain ⟨es', hes', h⟩ := D04C.bindOk h
    have hmem := members_kept hrec hk' (post := stripNull) (fun _ _ hh => stripNull_kept hh) hes'
    split at h
    · rename_i hemp
      intro _ m hm
      obtain ⟨e, he, _⟩ := elemsOf_seen hes hm
      obtain ⟨x, hx, _⟩ := hmem e he
      have : es' = [] := by simpa using hemp
      rw [this] at hx; simp at hx
    · split at h
      · simp at h
      · unfold setVal at h
        split at h
        · simp at h
        · split at h
          · simp at h
          · rename_i t ht
            obtain ⟨q, _, rfl⟩ := D04C.mapOk h
            intro hno m hm
            have hty : ∀ x ∈ es', noObj x.ty = true := elemTyOf_noObj ht (by simpa [Value.withMarks, noObj] using hno)
            obtain ⟨x, hx, hmx⟩ := collect (fun m hm => elemsOf_seen hes hm) hmem hty m hm
            exact Value.mem_marksDeep_withMarks.mpr (.inl (mem_marksOfAll_of hx hmx))
  | collToMap ety conv =>
    have hk' : isCollOrObj ety = false ∧ keeps conv = true := by simpa [keeps] using hk
    simp only [applyStep, hk'.1] at h
    obtain ⟨es, hes, h⟩ := D04C.bindOk h
    obtain ⟨es', hes', h⟩ := D04C.bindOk h
    have hes'' : mapRes (fun e => (applyOpt rec conv e).map id) es = .ok es' := by
      have : (fun e => (applyOpt rec conv e).map id) = fun e => applyOpt rec conv e := by
        funext e; cases applyOpt rec conv e <;> rfl
      rw [this]; exact hes'
    have hmem := members_kept hrec hk'.2 (post := id) (fun _ _ hh => hh) hes''
    split at h
    · rename_i hemp
      intro _ m hm
      obtain ⟨e, he, _⟩ := elemsOf_seen hes hm
      obtain ⟨x, hx, _⟩ := hmem e he
      have : es' = [] := by simpa using hemp
      rw [this] at hx; simp at hx
    · simp only [Bool.false_eq_true, if_false, Res.bind] at h
      split at h
      · simp at h
      · unfold mapVal at h
        split at h
        · simp at h
        · split at h
          · simp at h
          · rename_i t ht
            simp at h; subst h
            intro hno m hm
            have hty : ∀ x ∈ es', noObj x.ty = true := elemTyOf_noObj ht (by simpa [noObj] using hno)
            obtain ⟨x, hx, hmx⟩ := collect (fun m hm => elemsOf_seen hes hm) hmem hty m hm
            exact deep_of_member hx hmx

end

/-- **No loss at depth**: a plan of the keeping kind, any environment, fuel and value -/
theorem apply_kept (E : Env) : ∀ (n : Nat), KeptRec (apply E n)
  | 0 => fun _ _ _ _ h => by simp [apply] at h
  | n + 1 => applyStep_kept (apply_kept E n) E

/-! ### for a well-typed value whose sets are clean, everything is seen -/
mutual
theorem deep_subset_seen : ∀ (t : Ty) (p : Payload) (m : String), wtP t p = true → p.setsClean = true →
    m ∈ p.marksDeep → m ∈ seen t p
  | t, .marked ms r, m, hw, hc, hm => by
    simp only [wtP, Bool.and_eq_true] at hw
    simp only [Payload.setsClean] at hc
    simp only [Payload.marksDeep] at hm
    simp only [seen]
    rcases CtyModel.mem_unionMarks.mp hm with h | h
    · exact CtyModel.mem_unionMarks.mpr (.inl h)
    · exact CtyModel.mem_unionMarks.mpr (.inr (deep_subset_seen t r m hw.2 hc h))
  | t, .seq ps, m, hw, hc, hm => by
    simp only [Payload.setsClean] at hc
    simp only [Payload.marksDeep] at hm
    cases t <;> simp only [wtP] at hw <;> first | (simp at hw; done) | skip
    · simp only [seen]; exact deepAll_subset_seenAll _ ps m hw hc hm
    · simp only [seen]; exact deepZip_subset_seenZip _ ps m hw hc hm
  | t, .smap ks ps, m, hw, hc, hm => by
    simp only [Payload.setsClean] at hc
    simp only [Payload.marksDeep] at hm
    cases t <;> simp only [wtP, Bool.and_eq_true] at hw <;> first | (simp at hw; done) | skip
    · simp only [seen]; exact deepAll_subset_seenAll _ ps m hw.2 hc hm
    · simp only [seen]; exact deepZip_subset_seenZip _ ps m hw.2 hc hm
  | t, .sset _ ps, m, _, hc, hm => by
    simp only [Payload.setsClean, Bool.not_eq_true'] at hc
    simp only [Payload.marksDeep] at hm
    rw [Payload.marksDeepL_of_not_containsMarkedL ps hc] at hm
    simp at hm
  | _, .null, m, _, _, hm => by simp [Payload.marksDeep] at hm
  | _, .unk _, m, _, _, hm => by simp [Payload.marksDeep] at hm
  | _, .b _, m, _, _, hm => by simp [Payload.marksDeep] at hm
  | _, .n _, m, _, _, hm => by simp [Payload.marksDeep] at hm
  | _, .s _, m, _, _, hm => by simp [Payload.marksDeep] at hm
  | _, .caps, m, _, _, hm => by simp [Payload.marksDeep] at hm
  | _, .bad _, m, _, _, hm => by simp [Payload.marksDeep] at hm
theorem deepAll_subset_seenAll : ∀ (e : Ty) (ps : List Payload) (m : String), wtAll e ps = true →
    Payload.setsCleanL ps = true → m ∈ Payload.marksDeepL ps → m ∈ seenAll e ps
  | _, [], m, _, _, hm => by simp [Payload.marksDeepL] at hm
  | e, p :: ps, m, hw, hc, hm => by
    simp only [wtAll, Bool.and_eq_true] at hw
    simp only [Payload.setsCleanL, Bool.and_eq_true] at hc
    simp only [Payload.marksDeepL] at hm
    simp only [seenAll]
    rcases CtyModel.mem_unionMarks.mp hm with h | h
    · exact CtyModel.mem_unionMarks.mpr (.inl (deep_subset_seen e p m hw.1 hc.1 h))
    · exact CtyModel.mem_unionMarks.mpr (.inr (deepAll_subset_seenAll e ps m hw.2 hc.2 h))
theorem deepZip_subset_seenZip : ∀ (ts : List Ty) (ps : List Payload) (m : String), wtZip ts ps = true →
    Payload.setsCleanL ps = true → m ∈ Payload.marksDeepL ps → m ∈ seenZip ts ps
  | _, [], m, _, _, hm => by simp [Payload.marksDeepL] at hm
  | [], _ :: _, m, hw, _, _ => by simp [wtZip] at hw
  | t :: ts, p :: ps, m, hw, hc, hm => by
    simp only [wtZip, Bool.and_eq_true] at hw
    simp only [Payload.setsCleanL, Bool.and_eq_true] at hc
    simp only [Payload.marksDeepL] at hm
    simp only [seenZip]
    rcases CtyModel.mem_unionMarks.mp hm with h | h
    · exact CtyModel.mem_unionMarks.mpr (.inl (deep_subset_seen t p m hw.1 hc.1 h))
    · exact CtyModel.mem_unionMarks.mpr (.inr (deepZip_subset_seenZip ts ps m hw.2 hc.2 h))
end

end D08B
end CtyModel
