/-
C09 / d09b — ONE FUNCTION: the type component of the full model `unifyF` (type AND conversions,
Unify.lean) is `unifyTy` (ConvertUnify's type-only transliteration at sufficient fuel), for every
environment whose `unify` is `unifyTy` (`Env.std`, what the drivers run), every fuel ≥ 2, either
mode, lists of types of any length and depth whose object types are well-formed.

The two transliterations of unify.go are written differently (closures and a reused buffer vs.
Boolean existence checks; attribute columns looked up by name vs. by position; the preference
loop as a loop vs. `findSome?`); this file shows, function by function, that one activation of the
one has the type result of one activation of the other (`step_ty`), and closes the recursion with
`unifyTy_fixpoint`.
-/
import CtyModel.Lemmas.d09bTotal
import CtyModel.Lemmas.UnifyUnsafe
import CtyModel.Lemmas.Asc
namespace CtyModel
namespace Unify
open Convert Ty

/-- the type component of an answer of `unify` -/
def tyOf (o : UOut) : Option Ty := o.map (·.1)

/-! ## `getConversionKnown` looks at the environment through `unify` only -/

mutual
theorem gck_env {E E' : Env} (he : E.unify = E'.unify) : ∀ (inT out : Ty) (uns : Bool),
    gck E inT out uns = gck E' inT out uns
  | .bool, out, uns => by cases out <;> simp [gck, Ty.isDyn, isPrim]
  | .number, out, uns => by cases out <;> simp [gck, Ty.isDyn, isPrim]
  | .string, out, uns => by cases out <;> simp [gck, Ty.isDyn, isPrim]
  | .dyn, out, uns => by cases out <;> simp [gck, Ty.isDyn, isPrim]
  | .capsule _, out, uns => by cases out <;> simp [gck, Ty.isDyn, isPrim]
  | .list ie, out, uns => by
    have hr := fun o => gck_env he ie o uns
    cases out <;> simp [gck, Ty.isDyn, isPrim, hr]
  | .set ie, out, uns => by
    have hr := fun o => gck_env he ie o uns
    cases out <;> simp [gck, Ty.isDyn, isPrim, hr]
  | .map ie, out, uns => by
    have hr := fun o => gck_env he ie o uns
    cases out <;> simp [gck, Ty.isDyn, isPrim, hr]
  | .tuple its, out, uns => by
    have hz := fun os => gcZip_env he its os uns
    have ha := fun o => gcAll_env he its o uns
    have hs : ∀ oe, seqTargetEty E uns its oe = seqTargetEty E' uns its oe := by
      intro oe; simp only [seqTargetEty, Env.unifyG, he]
    cases out <;> simp [gck, Ty.isDyn, isPrim, hz, ha, hs]
  | .object inn it io, out, uns => by
    have ho := fun on ot oo => gcObj_env he inn it on ot oo uns
    have ha := fun o => gcAll_env he it o uns
    have hs : ∀ oe, mapTargetEty E uns it oe = mapTargetEty E' uns it oe := by
      intro oe; simp only [mapTargetEty, Env.unifyG, he]
    cases out <;> simp [gck, Ty.isDyn, isPrim, ho, ha, hs]
theorem gcAll_env {E E' : Env} (he : E.unify = E'.unify) : ∀ (ts : List Ty) (target : Ty) (uns : Bool),
    gcAll E ts target uns = gcAll E' ts target uns
  | [], _, _ => by simp [gcAll]
  | t :: ts, target, uns => by
    have h1 := gck_env he t target uns
    have h2 := gcAll_env he ts target uns
    simp [gcAll, h1, h2]
theorem gcZip_env {E E' : Env} (he : E.unify = E'.unify) : ∀ (ts os : List Ty) (uns : Bool),
    gcZip E ts os uns = gcZip E' ts os uns
  | [], _, _ => by simp [gcZip]
  | t :: ts, [], uns => by simp [gcZip]
  | t :: ts, o :: os, uns => by
    have h1 := gck_env he t o uns
    have h2 := gcZip_env he ts os uns
    simp [gcZip, h1, h2]
theorem gcObj_env {E E' : Env} (he : E.unify = E'.unify) : ∀ (ns : List String) (ts : List Ty) (on : List String)
    (ot : List Ty) (oo : List Bool) (uns : Bool), gcObj E ns ts on ot oo uns = gcObj E' ns ts on ot oo uns
  | [], _, _, _, _, _ => by simp [gcObj]
  | _ :: _, [], _, _, _, _ => by simp [gcObj]
  | n :: ns, t :: ts, on, ot, oo, uns => by
    have h1 := fun o => gck_env he t o uns
    have h2 := gcObj_env he ns ts on ot oo uns
    simp [gcObj, h1, h2]
end

section
variable {E : Env} {uns : Bool}

theorem convOk_slot (ty retTy : Ty) : convOk E.unify uns ty retTy = (slotOf E uns retTy ty).isSome := by
  have hg : gck (Env.ofUnify E.unify) ty retTy uns = gck E ty retTy uns :=
    gck_env (E := Env.ofUnify E.unify) (E' := E) rfl ty retTy uns
  simp only [convOk, slotOf, getConv, hg]
  cases ty.equals retTy <;> simp

theorem convLoop_isSome_eq (retTy : Ty) : ∀ (ts : List Ty),
    (convLoop E uns retTy ts).isSome = ts.all fun ty => convOk E.unify uns ty retTy
  | [] => rfl
  | t :: ts => by
    have ih := convLoop_isSome_eq retTy ts
    have hs := convOk_slot (E := E) (uns := uns) t retTy
    simp only [convLoop, List.all_cons, hs, slotOf, ← ih]
    split
    · simp
    · split <;> simp_all

/-- the tail shared by the `unify…Types` functions -/
theorem loopOut_ty (retTy : Ty) (types : List Ty) (out : UOut)
    (h : (match convLoop E uns retTy types with
      | none => Res.ok none
      | some cs => Res.ok (some (retTy, cs))) = .ok out) :
    tyOf out = if (types.all fun ty => convOk E.unify uns ty retTy) then some retTy else none := by
  rw [← convLoop_isSome_eq]
  split at h <;> (rename_i hc; simp only [Res.ok.injEq] at h; subst h; simp [hc, tyOf])

theorem unifyG_eq (L : List Ty) : E.unifyG uns L = unifyG' E.unify uns L := rfl

theorem mapRes_eq_map {α β} (f : α → Res β) (g : α → β) (hfg : ∀ a b, f a = .ok b → b = g a) :
    ∀ (l : List α) (r : List β), mapRes f l = .ok r → r = l.map g
  | [], r, h => by simp [mapRes] at h; subst h; rfl
  | x :: xs, r, h => by
    simp only [mapRes] at h
    obtain ⟨b, hb, h⟩ := Res.bind_eq_ok h
    obtain ⟨bs, hbs, h⟩ := Res.bind_eq_ok h
    simp at h; subst h
    simp [hfg x b hb, mapRes_eq_map f g hfg xs bs hbs]

theorem elementType_D {x e : Ty} (h : elementType x = .ok e) : e = elemTyD x := by
  cases x <;> simp [elementType] at h <;> simp [elemTyD, h]
theorem attrTysR_D {x : Ty} {ts : List Ty} (h : attrTysR x = .ok ts) : ts = attrTysD x := by
  cases x <;> simp [attrTysR] at h; simp [attrTysD, h]
theorem attrNamesR_D {x : Ty} {ns : List String} (h : attrNamesR x = .ok ns) : ns = attrNamesD x := by
  cases x <;> simp [attrNamesR] at h; simp [attrNamesD, h]
theorem tupleEtysR_D {x : Ty} {ts : List Ty} (h : tupleEtysR x = .ok ts) : ts = tupleEtysD x := by
  cases x <;> simp [tupleEtysR] at h; simp [tupleEtysD, h]

theorem collectionTypes_ty (mk : Ty → Ty) (types : List Ty) (hd : Bool) (out : UOut)
    (h : collectionTypes E uns mk types hd = .ok out) :
    tyOf out = unifyCollectionTypes E.unify uns mk types hd := by
  simp only [collectionTypes, unifyCollectionTypes] at h ⊢
  split at h
  · simp only [Res.ok.injEq] at h; subst h; simp [allAsDynamic, tyOf, *]
  · rename_i hdf
    obtain ⟨es, hes, h⟩ := Res.bind_eq_ok h
    have := mapRes_eq_map _ elemTyD (fun a b => elementType_D) _ _ hes
    subst this
    simp only [hdf, ← unifyG_eq]
    split at h
    · rename_i hg; simp only [Res.ok.injEq] at h; subst h; simp [hg, tyOf]
    · rename_i e hg
      simp only [hg]
      exact loopOut_ty _ _ _ h

theorem objectTypesToMap_ty (types : List Ty) (out : UOut) (h : objectTypesToMap E uns types = .ok out) :
    tyOf out = unifyObjectTypesToMap E.unify uns types := by
  simp only [objectTypesToMap, unifyObjectTypesToMap] at h ⊢
  obtain ⟨es, hes, h⟩ := Res.bind_eq_ok h
  have := mapRes_eq_map _ attrTysD (fun a b => attrTysR_D) _ _ hes
  subst this
  rw [List.flatMap_def, ← unifyG_eq]
  split at h
  · rename_i hg; simp only [Res.ok.injEq] at h; subst h; simp [hg, tyOf]
  · rename_i e hg
    simp only [hg]
    exact loopOut_ty _ _ _ h

theorem tupleTypesToList_ty (types : List Ty) (out : UOut) (h : tupleTypesToList E uns types = .ok out) :
    tyOf out = unifyTupleTypesToList E.unify uns types := by
  simp only [tupleTypesToList, unifyTupleTypesToList] at h ⊢
  obtain ⟨es, hes, h⟩ := Res.bind_eq_ok h
  have := mapRes_eq_map _ tupleEtysD (fun a b => tupleEtysR_D) _ _ hes
  subst this
  rw [List.flatMap_def, ← unifyG_eq]
  split at h
  · rename_i hg; simp only [Res.ok.injEq] at h; subst h; simp [hg, tyOf]
  · rename_i e hg
    simp only [hg]
    exact loopOut_ty _ _ _ h

theorem unifyColumns_eq : ∀ (cols : List (List Ty)), unifyColumns E uns cols = Convert.unifyColumns E.unify uns cols
  | [] => rfl
  | c :: cs => by
    simp only [unifyColumns, Convert.unifyColumns, unifyG_eq, unifyColumns_eq cs]
    cases unifyG' E.unify uns c <;> rfl
end

/-! ## object and tuple types: columns by name / by position -/

theorem mapRes_eq_map_mem {α β} (f : α → Res β) (g : α → β) :
    ∀ (l : List α) (r : List β), (∀ a ∈ l, ∀ b, f a = .ok b → b = g a) → mapRes f l = .ok r → r = l.map g
  | [], r, _, h => by simp [mapRes] at h; subst h; rfl
  | x :: xs, r, hfg, h => by
    simp only [mapRes] at h
    obtain ⟨b, hb, h⟩ := Res.bind_eq_ok h
    obtain ⟨bs, hbs, h⟩ := Res.bind_eq_ok h
    simp at h; subst h
    simp [hfg x (by simp) b hb, mapRes_eq_map_mem f g xs bs (fun a ha => hfg a (List.mem_cons_of_mem _ ha)) hbs]

theorem mapRes_eq_range {α β} (f : α → Res β) : ∀ (l : List α) (g : Nat → β) (r : List β),
    (∀ i a b, l[i]? = some a → f a = .ok b → b = g i) → mapRes f l = .ok r → r = (List.range l.length).map g
  | [], g, r, _, h => by simp [mapRes] at h; subst h; rfl
  | x :: xs, g, r, hfg, h => by
    simp only [mapRes] at h
    obtain ⟨b, hb, h⟩ := Res.bind_eq_ok h
    obtain ⟨bs, hbs, h⟩ := Res.bind_eq_ok h
    simp at h; subst h
    have ih := mapRes_eq_range f xs (fun i => g (i + 1)) bs (fun i a b hi hf => hfg (i + 1) a b (by simpa using hi) hf) hbs
    rw [ih, hfg 0 x b rfl hb]
    simp [List.range_succ_eq_map, List.map_map, Function.comp_def]

theorem find_at (k : String) : ∀ (ns : List String) (ts : List Ty) (os : List Bool) (i : Nat) (t : Ty) (o : Bool),
    strictAsc ns = true → ns[i]? = some k → Ty.find k ns ts os = some (t, o) → ts[i]? = some t
  | [], _, _, _, _, _, _, _, h => by simp [Ty.find] at h
  | _ :: _, [], _, _, _, _, _, _, h => by simp [Ty.find] at h
  | _ :: _, _ :: _, [], _, _, _, _, _, h => by simp [Ty.find] at h
  | n :: ns, t' :: ts, o' :: os, i, t, o, ha, hi, h => by
    obtain ⟨ha', hlt⟩ := strictAsc_cons ha
    simp only [Ty.find] at h
    cases i with
    | zero =>
      simp only [List.getElem?_cons_zero, Option.some.injEq] at hi
      simp only [hi, if_true, Option.some.injEq, Prod.mk.injEq] at h
      simp [h.1]
    | succ j =>
      simp only [List.getElem?_cons_succ] at hi
      have hne : ¬ n = k := by
        intro e; subst e
        exact absurd (hlt n (List.mem_of_getElem? hi)) (String.lt_irrefl n)
      simp only [hne, if_false] at h
      simpa using find_at k ns ts os j t o ha' hi h

theorem attrColumn_eq {names : List String} (hasc : strictAsc names = true) {i : Nat} {name : String}
    (hi : names[i]? = some name) {types col : List Ty}
    (hall : ∀ ty ∈ types, ∃ ts os, ty = .object names ts os)
    (h : attrColumn name types = .ok col) : col = types.map fun ty => (attrTysD ty).getD i .dyn := by
  refine mapRes_eq_map_mem _ _ types col ?_ h
  intro ty hty b hb
  obtain ⟨ts, os, rfl⟩ := hall ty hty
  simp only at hb
  split at hb
  · rename_i t o hf
    simp only [Res.ok.injEq] at hb; subst hb
    have := find_at name names ts os i t o hasc hi hf
    simp [attrTysD, List.getD_eq_getElem?_getD, this]
  · simp at hb

theorem tupleColumn_eq {idx : Nat} {types col : List Ty} (h : tupleColumn idx types = .ok col) :
    col = types.map fun ty => (tupleEtysD ty).getD idx .dyn := by
  refine mapRes_eq_map _ _ ?_ types col h
  intro ty b hb
  obtain ⟨es, hes, hb⟩ := Res.bind_eq_ok hb
  have := tupleEtysR_D hes; subst this
  simp only [idxR] at hb
  split at hb
  · rename_i x hx
    simp only [Res.ok.injEq] at hb; subst hb
    simp [List.getD_eq_getElem?_getD, hx]
  · simp at hb

theorem sameAttrNames_eq (first : List String) : ∀ (L : List Ty) (b : Bool), sameAttrNames first L = .ok b →
    b = L.all fun ty => (attrNamesD ty).length == first.length && (attrNamesD ty).all fun n => first.contains n
  | [], b, h => by simp [sameAttrNames] at h; simp [h]
  | ty :: rest, b, h => by
    simp only [sameAttrNames] at h
    obtain ⟨ns, hns, h⟩ := Res.bind_eq_ok h
    have := attrNamesR_D hns; subst this
    simp only [List.all_cons]
    split at h
    · rename_i hl
      simp only [Res.ok.injEq] at h
      simp_all
    · rename_i hl
      split at h
      · rename_i hc
        simp only [Res.ok.injEq] at h
        simp_all
      · rename_i hc
        rw [sameAttrNames_eq first rest b h]
        simp_all

theorem sameTupleLen_eq (n : Nat) : ∀ (L : List Ty) (b : Bool), sameTupleLen n L = .ok b →
    b = L.all fun ty => (tupleEtysD ty).length == n
  | [], b, h => by simp [sameTupleLen] at h; simp [h]
  | ty :: rest, b, h => by
    simp only [sameTupleLen] at h
    obtain ⟨es, hes, h⟩ := Res.bind_eq_ok h
    have := tupleEtysR_D hes; subst this
    simp only [List.all_cons]
    split at h
    · simp only [Res.ok.injEq] at h
      simp_all
    · rw [sameTupleLen_eq n rest b h]
      simp_all

section
variable {E : Env} {uns : Bool}

theorem idxR_zero {types : List Ty} {first : Ty} (h : idxR types 0 = .ok first) : ∃ tl, types = first :: tl := by
  cases types with
  | nil => simp [idxR] at h
  | cons a as => simp [idxR] at h; exact ⟨as, by rw [h]⟩

theorem objectTypes_ty (types : List Ty) (hd : Bool) (out : UOut)
    (hw : hd = false → ∀ ty ∈ types, isObjectTy ty = true ∧ ty.wf = true)
    (h : objectTypes E uns types hd = .ok out) :
    tyOf out = unifyObjectTypes E.unify uns types hd := by
  cases hd with
  | true => simp [objectTypes] at h; subst h; simp [unifyObjectTypes, allAsDynamic, tyOf]
  | false =>
    have hw := hw rfl
    simp only [objectTypes, Bool.false_eq_true, if_false] at h
    obtain ⟨first, hfirst, h⟩ := Res.bind_eq_ok h
    obtain ⟨names, hnames, h⟩ := Res.bind_eq_ok h
    obtain ⟨same, hsame, h⟩ := Res.bind_eq_ok h
    obtain ⟨tl, rfl⟩ := idxR_zero hfirst
    have := attrNamesR_D hnames; subst this
    have hsame' := sameAttrNames_eq _ _ _ hsame
    simp only [List.drop_one, List.tail_cons] at hsame' hsame
    have hfw := hw first (by simp)
    have hasc : strictAsc (attrNamesD first) = true := by
      obtain ⟨ho, hwf⟩ := hfw
      cases first <;> simp [isObjectTy] at ho
      simp only [wf, Bool.and_eq_true] at hwf
      exact hwf.1.2
    have hself : ((attrNamesD first).all fun n => (attrNamesD first).contains n) = true := by
      simp [List.all_eq_true]
    have hcond : ((first :: tl).all fun ty => (attrNamesD ty).length == (attrNamesD first).length &&
        (attrNamesD ty).all fun n => (attrNamesD first).contains n) = same := by
      rw [List.all_cons, ← hsame', hself]; simp
    simp only [unifyObjectTypes, Bool.false_eq_true, if_false, List.headD_cons, hcond]
    cases same with
    | false =>
      simp only [Bool.not_false, if_true] at h ⊢
      exact objectTypesToMap_ty _ _ h
    | true =>
      simp only [Bool.not_true, Bool.false_eq_true, if_false] at h ⊢
      obtain ⟨cols, hcols, h⟩ := Res.bind_eq_ok h
      have hall : ∀ ty ∈ first :: tl, ∃ ts os, ty = Ty.object (attrNamesD first) ts os := by
        intro ty hty
        rcases List.mem_cons.mp hty with rfl | hty
        · obtain ⟨ho, _⟩ := hfw
          cases ty <;> simp [isObjectTy] at ho
          exact ⟨_, _, rfl⟩
        · exact (sameAttrNames_spec _ hasc tl (fun x hx => hw x (List.mem_cons_of_mem _ hx))).2 hsame ty hty
      have hc := mapRes_eq_range _ _ (fun i => (first :: tl).map fun ty => (attrTysD ty).getD i .dyn) cols
        (fun i name col hi hcol => attrColumn_eq hasc hi hall hcol) hcols
      subst hc
      rw [unifyColumns_eq] at h
      split at h
      · rename_i hg; simp only [Res.ok.injEq] at h; subst h; rw [hg]; rfl
      · rename_i atys hg
        simp only [hg]
        split at h
        · rename_i hcl
          have hn : (convLoop E uns (Ty.object (attrNamesD first) atys (atys.map fun _ => false)) (first :: tl)).isSome = false := by
            simp [hcl]
          rw [convLoop_isSome_eq] at hn
          simp only [hn, Bool.false_eq_true, if_false]
          exact objectTypesToMap_ty _ _ h
        · rename_i cs hcl
          have hn : (convLoop E uns (Ty.object (attrNamesD first) atys (atys.map fun _ => false)) (first :: tl)).isSome = true := by
            simp [hcl]
          rw [convLoop_isSome_eq] at hn
          simp only [Res.ok.injEq] at h; subst h
          simp only [hn, if_true, tyOf, Option.map_some]

theorem tupleTypes_ty (types : List Ty) (hd : Bool) (out : UOut)
    (h : tupleTypes E uns types hd = .ok out) :
    tyOf out = unifyTupleTypes E.unify uns types hd := by
  cases hd with
  | true => simp [tupleTypes] at h; subst h; simp [unifyTupleTypes, allAsDynamic, tyOf]
  | false =>
    simp only [tupleTypes, Bool.false_eq_true, if_false] at h
    obtain ⟨first, hfirst, h⟩ := Res.bind_eq_ok h
    obtain ⟨etys0, hetys0, h⟩ := Res.bind_eq_ok h
    obtain ⟨same, hsame, h⟩ := Res.bind_eq_ok h
    obtain ⟨tl, rfl⟩ := idxR_zero hfirst
    have := tupleEtysR_D hetys0; subst this
    have hsame' := sameTupleLen_eq _ _ _ hsame
    simp only [List.drop_one, List.tail_cons] at hsame'
    have hcond : ((first :: tl).all fun ty => (tupleEtysD ty).length == (tupleEtysD first).length) = same := by
      rw [List.all_cons, ← hsame']; simp
    simp only [unifyTupleTypes, Bool.false_eq_true, if_false, List.headD_cons, hcond]
    cases same with
    | false =>
      simp only [Bool.not_false, if_true] at h ⊢
      exact tupleTypesToList_ty _ _ h
    | true =>
      simp only [Bool.not_true, Bool.false_eq_true, if_false] at h ⊢
      obtain ⟨cols, hcols, h⟩ := Res.bind_eq_ok h
      have hc := mapRes_eq_map _ (fun i => (first :: tl).map fun ty => (tupleEtysD ty).getD i .dyn)
        (fun i col hcol => tupleColumn_eq hcol) _ cols hcols
      subst hc
      rw [unifyColumns_eq] at h
      split at h
      · rename_i hg; simp only [Res.ok.injEq] at h; subst h; rw [hg]; rfl
      · rename_i etys hg
        simp only [hg]
        split at h
        · rename_i hcl
          have hn : (convLoop E uns (Ty.tuple etys) (first :: tl)).isSome = false := by simp [hcl]
          rw [convLoop_isSome_eq] at hn
          simp only [hn, Bool.false_eq_true, if_false]
          exact tupleTypesToList_ty _ _ h
        · rename_i cs hcl
          have hn : (convLoop E uns (Ty.tuple etys) (first :: tl)).isSome = true := by simp [hcl]
          rw [convLoop_isSome_eq] at hn
          simp only [Res.ok.injEq] at h; subst h
          simp only [hn, if_true, tyOf, Option.map_some]
end

/-! ## the preference loop -/

section
variable {E : Env} {uns : Bool}

theorem convOk_iff (ty retTy : Ty) :
    convOk E.unify uns ty retTy = true ↔ ty.equals retTy = true ∨ (getConv E ty retTy uns).isSome = true := by
  have hg : gck (Env.ofUnify E.unify) ty retTy uns = gck E ty retTy uns :=
    gck_env (E := Env.ofUnify E.unify) (E' := E) rfl ty retTy uns
  simp [convOk, getConv, hg]

theorem candOk_all (w : Nat) (want : Ty) (types : List Ty) :
    ((List.range types.length).all fun i => i == w || (match types[i]? with
        | some t => convOk E.unify uns t want
        | none => true)) = true ↔ CandOk E uns w want 0 types := by
  simp only [List.all_eq_true, List.mem_range, CandOk, Bool.or_eq_true, beq_iff_eq]
  constructor
  · intro h k ty hk
    have hk' : k < types.length := (List.getElem?_eq_some_iff.mp hk).1
    rcases h k hk' with e | h
    · left; omega
    · right
      rw [hk] at h
      exact (convOk_iff ty want).mp h
  · intro h i hi
    have hk : types[i]? = some types[i] := List.getElem?_eq_getElem hi
    rcases h i _ hk with e | h
    · left; omega
    · right
      rw [hk]
      exact (convOk_iff _ want).mpr h

theorem prefLoop_ty (types : List Ty) : ∀ (ws : List Nat) (buf : Convs) (out : UOut),
    prefLoop E uns types ws buf = .ok out →
    tyOf out = ws.findSome? fun wantIdx =>
      match types[wantIdx]? with
      | none => none
      | some want =>
        if (List.range types.length).all fun i =>
            i == wantIdx || (match types[i]? with
              | some t => convOk E.unify uns t want
              | none => true)
        then some want else none
  | [], _, out, h => by simp [prefLoop] at h; subst h; rfl
  | w :: ws, buf, out, h => by
    simp only [prefLoop] at h
    obtain ⟨want, hw, h⟩ := Res.bind_eq_ok h
    have hwant : types[w]? = some want := by
      unfold idxR at hw
      split at hw
      · simp at hw; subst hw; assumption
      · simp at hw
    rw [List.findSome?_cons]
    simp only [hwant]
    split at h
    · rename_i hok
      simp only [Res.ok.injEq] at h; subst h
      have := (candOk_all (E := E) (uns := uns) w want types).mpr ((tryCandidate_true_iff E uns w want types 0 buf).mp hok)
      simp only [this, if_true, tyOf, Option.map_some]
    · rename_i hnot
      have hn : ¬ ((List.range types.length).all fun i => i == w || (match types[i]? with
          | some t => convOk E.unify uns t want
          | none => true)) = true := by
        intro hc
        exact hnot ((tryCandidate_true_iff E uns w want types 0 buf).mpr ((candOk_all w want types).mp hc))
      simp only [hn, if_false]
      exact prefLoop_ty types ws _ out h

theorem general_ty (types : List Ty) (out : UOut) (h : general E uns types = .ok out) :
    tyOf out = unifyGeneral E.unify uns types :=
  prefLoop_ty types _ _ out h

/-! ## the re-entering sub-unifiers -/

theorem replaceAt_eq_map (p : Ty → Bool) (ty : Ty) (types : List Ty) :
    replaceAt (idxsOf p types) ty types = types.map fun t => if p t then ty else t := by
  apply List.ext_getElem?
  intro j
  rw [replaceAt_get, List.getElem?_map]
  cases hj : types[j]? with
  | none =>
    have : ¬ j < types.length := by
      intro hlt; rw [List.getElem?_eq_getElem hlt] at hj; simp at hj
    simp [this]
  | some y =>
    have hlt : j < types.length := (List.getElem?_eq_some_iff.mp hj).1
    by_cases hp : p y = true
    · have : j ∈ idxsOf p types := idxsOf_mem.mpr ⟨y, hj, hp⟩
      simp [this, hlt, hp]
    · have : j ∉ idxsOf p types := by
        intro hm
        obtain ⟨y', hy', hpy'⟩ := idxsOf_mem.mp hm
        rw [hj] at hy'; simp only [Option.some.injEq] at hy'; subst hy'
        exact hp hpy'
      simp [this, hp]

/-- what `step_ty` assumes of the re-entry: on the lists with the list / map type swapped in it has
the type result `U` answers -/
def SelfTy (E : Env) (uns : Bool) (self : Self) : Prop :=
  ∀ L out, collOnly L = true → self uns L = .ok out → tyOf out = unifyG' E.unify uns L

theorem tuplesAsList_ty {self : Self} (hs : SelfTy E uns self) (types : List Ty)
    (hall : ∀ x ∈ types, (isListTy x || isTupleTy x || x.isDyn) = true) (out : UOut)
    (h : tuplesAsList E uns self types = .ok out) : tyOf out = unifyTuplesAsList E.unify uns types := by
  simp only [tuplesAsList, reunify] at h
  obtain ⟨r, hr, h⟩ := Res.bind_eq_ok h
  have hrt := tupleTypesToList_ty _ _ hr
  simp only [unifyTuplesAsList, ← hrt]
  cases r with
  | none => simp only [Res.ok.injEq] at h; subst h; rfl
  | some p =>
    obtain ⟨ty, fc⟩ := p
    try simp only at h
    by_cases hl : isListTy ty = true
    · cases ty <;> simp [isListTy] at hl
      rename_i e
      simp only [show isListTy (Ty.list e) = true from rfl, Bool.not_true, Bool.false_eq_true, if_false] at h
      obtain ⟨r2, hr2, h⟩ := Res.bind_eq_ok h
      have hco := replaced_collOnly_list (ty := .list e) rfl hall
      have h2 := hs _ _ hco hr2
      rw [replaceAt_eq_map] at h2
      simp only [tyOf, Option.map_some, ← h2]
      cases r2 with
      | none => simp only [Res.ok.injEq] at h; subst h; rfl
      | some q =>
        obtain ⟨newTy, convs⟩ := q
        try simp only at h
        by_cases hl2 : isListTy newTy = true
        · cases newTy <;> simp [isListTy] at hl2
          rename_i e'
          simp only [show isListTy (Ty.list e') = true from rfl, Bool.not_true, Bool.false_eq_true, if_false] at h
          obtain ⟨convs', _, h⟩ := Res.bind_eq_ok h
          simp only [Res.ok.injEq] at h; subst h; rfl
        · have hl2' : isListTy newTy = false := by simpa using hl2
          simp only [hl2', Bool.not_false, if_true, Res.ok.injEq] at h
          subst h
          cases newTy <;> first | rfl | (simp [isListTy] at hl2')
    · have hl' : isListTy ty = false := by simpa using hl
      simp only [hl', Bool.not_false, if_true, Res.ok.injEq] at h
      subst h
      cases ty <;> first | rfl | (simp [isListTy] at hl')

theorem objectsAsMaps_ty {self : Self} (hs : SelfTy E uns self) (types : List Ty)
    (hall : ∀ x ∈ types, (isMapTy x || isObjectTy x || x.isDyn) = true) (out : UOut)
    (h : objectsAsMaps E uns self types = .ok out) : tyOf out = unifyObjectsAsMaps E.unify uns types := by
  simp only [objectsAsMaps, reunify] at h
  obtain ⟨r, hr, h⟩ := Res.bind_eq_ok h
  have hrt := objectTypesToMap_ty _ _ hr
  simp only [unifyObjectsAsMaps, ← hrt]
  cases r with
  | none => simp only [Res.ok.injEq] at h; subst h; rfl
  | some p =>
    obtain ⟨ty, fc⟩ := p
    try simp only at h
    by_cases hl : isMapTy ty = true
    · cases ty <;> simp [isMapTy] at hl
      rename_i e
      simp only [show isMapTy (Ty.map e) = true from rfl, Bool.not_true, Bool.false_eq_true, if_false] at h
      obtain ⟨r2, hr2, h⟩ := Res.bind_eq_ok h
      have hco := replaced_collOnly_map (ty := .map e) rfl hall
      have h2 := hs _ _ hco hr2
      rw [replaceAt_eq_map] at h2
      simp only [tyOf, Option.map_some, ← h2]
      cases r2 with
      | none => simp only [Res.ok.injEq] at h; subst h; rfl
      | some q =>
        obtain ⟨newTy, convs⟩ := q
        try simp only at h
        by_cases hl2 : isMapTy newTy = true
        · cases newTy <;> simp [isMapTy] at hl2
          rename_i e'
          simp only [show isMapTy (Ty.map e') = true from rfl, Bool.not_true, Bool.false_eq_true, if_false] at h
          obtain ⟨convs', _, h⟩ := Res.bind_eq_ok h
          simp only [Res.ok.injEq] at h; subst h; rfl
        · have hl2' : isMapTy newTy = false := by simpa using hl2
          simp only [hl2', Bool.not_false, if_true, Res.ok.injEq] at h
          subst h
          cases newTy <;> first | rfl | (simp [isMapTy] at hl2')
    · have hl' : isMapTy ty = false := by simpa using hl
      simp only [hl', Bool.not_false, if_true, Res.ok.injEq] at h
      subst h
      cases ty <;> first | rfl | (simp [isMapTy] at hl')

theorem asList_isList {U : UFn} {types : List Ty} {t : Ty} (h : unifyTuplesAsList U uns types = some t) :
    isListTy t = true := by
  simp only [unifyTuplesAsList] at h
  split at h
  · split at h
    · simp only [Option.some.injEq] at h; subst h; rfl
    · simp at h
  · simp at h

theorem asMaps_isMap {U : UFn} {types : List Ty} {t : Ty} (h : unifyObjectsAsMaps U uns types = some t) :
    isMapTy t = true := by
  simp only [unifyObjectsAsMaps] at h
  split at h
  · split at h
    · simp only [Option.some.injEq] at h; subst h; rfl
    · simp at h
  · simp at h
end

/-! ## one activation, and the recursion closed -/

section
variable {E : Env} {uns : Bool}

/-- ONE ACTIVATION of the full model has the type result of one activation of the type-only
transliteration, if the re-entry has -/
theorem step_ty {self : Self} (hs : SelfTy E uns self) (types : List Ty)
    (hw : ∀ ty ∈ types, isObjectTy ty = true → ty.wf = true) (out : UOut)
    (h : Unify.unifyStep E uns self types = .ok out) : tyOf out = Convert.unifyStep E.unify uns types := by
  simp only [Unify.unifyStep] at h
  simp only [Convert.unifyStep]
  split at h
  · rename_i he; simp only [Res.ok.injEq] at h; subst h; rw [if_pos he]; rfl
  rename_i he; rw [if_neg he]
  split at h
  · rename_i hc; rw [if_pos hc]; exact collectionTypes_ty _ _ _ _ h
  rename_i hc; rw [if_neg hc]
  split at h
  · rename_i hc; rw [if_pos hc]
    simp only [Bool.and_eq_true, decide_eq_true_eq, beq_iff_eq] at hc
    have hall := all_of_count3 disj_map_object disj_map_dyn disj_object_dyn hc.2
    obtain ⟨r, hr, h⟩ := Res.bind_eq_ok h
    have hrt := objectsAsMaps_ty hs types hall r hr
    rw [← hrt]
    cases r with
    | none => exact general_ty _ _ h
    | some p =>
      obtain ⟨ty, convs⟩ := p
      have hm : isMapTy ty = true := asMaps_isMap (uns := uns) hrt.symm
      simp only [hm, if_true, Res.ok.injEq] at h
      subst h; rfl
  rename_i hc; rw [if_neg hc]
  split at h
  · rename_i hc; rw [if_pos hc]; exact collectionTypes_ty _ _ _ _ h
  rename_i hc; rw [if_neg hc]
  split at h
  · rename_i hc; rw [if_pos hc]
    simp only [Bool.and_eq_true, decide_eq_true_eq, beq_iff_eq] at hc
    have hall := all_of_count3 disj_list_tuple disj_list_dyn disj_tuple_dyn hc.2
    obtain ⟨r, hr, h⟩ := Res.bind_eq_ok h
    have hrt := tuplesAsList_ty hs types hall r hr
    rw [← hrt]
    cases r with
    | none => exact general_ty _ _ h
    | some p =>
      obtain ⟨ty, convs⟩ := p
      have hm : isListTy ty = true := asList_isList (uns := uns) hrt.symm
      simp only [hm, if_true, Res.ok.injEq] at h
      subst h; rfl
  rename_i hc; rw [if_neg hc]
  split at h
  · rename_i hc; rw [if_pos hc]; exact collectionTypes_ty _ _ _ _ h
  rename_i hc; rw [if_neg hc]
  split at h
  · rename_i hc; rw [if_pos hc]
    simp only [Bool.and_eq_true, decide_eq_true_eq, beq_iff_eq] at hc
    refine objectTypes_ty _ _ _ ?_ h
    intro hd ty hty
    have ho := all_kind_of_counts hc.2 hd ty hty
    exact ⟨ho, hw ty hty ho⟩
  rename_i hc; rw [if_neg hc]
  split at h
  · rename_i hc; rw [if_pos hc]; exact tupleTypes_ty _ _ _ h
  rename_i hc; rw [if_neg hc]
  split at h
  · rename_i hc; rw [if_pos hc]; simp only [Res.ok.injEq] at h; subst h; rfl
  rename_i hc; rw [if_neg hc]
  exact general_ty _ _ h

theorem unifyStep_nil (U : UFn) : Convert.unifyStep U uns [] = none := by simp [Convert.unifyStep]

/-- on the lists of the re-entry one activation of the full model has the type result `unifyTy` -/
theorem unifyF_collOnly_ty (hE : E.unify = unifyTy) (n : Nat) (L : List Ty) (hco : collOnly L = true) (out : UOut)
    (h : unifyF E (n + 1) uns L = .ok out) : tyOf out = unifyG' E.unify uns L := by
  rw [unifyF_collOnly E n uns L hco] at h
  have hs : SelfTy E uns (unifyF E 0) := by intro L out _ h; simp [unifyF] at h
  have hw : ∀ ty ∈ L, isObjectTy ty = true → ty.wf = true := by
    intro ty hty ho
    have := collOnly_no_object hco
    exact absurd (List.mem_filter.mpr ⟨hty, ho⟩) (by rw [this]; simp)
  have := step_ty hs L hw out h
  rw [this, hE, unifyG']
  split
  · rename_i he
    have : L = [] := by simpa using he
    subst this; exact unifyStep_nil _
  · exact (unifyTy_fixpoint uns L).symm

/-- ONE FUNCTION: whenever the full model answers, the type it answers is `unifyTy` of the list
(NilType where `unifyTy` is `none`) -/
theorem unifyF_ty (hE : E.unify = unifyTy) (n : Nat) (types : List Ty)
    (hw : ∀ ty ∈ types, isObjectTy ty = true → ty.wf = true) (out : UOut)
    (h : unifyF E (n + 2) uns types = .ok out) : tyOf out = unifyTy uns types := by
  have hs : SelfTy E uns (unifyF E (n + 1)) := fun L out hco h => unifyF_collOnly_ty hE n L hco out h
  have := step_ty hs types hw out h
  rw [this, hE]
  exact (unifyTy_fixpoint uns types).symm
end

end Unify
end CtyModel
