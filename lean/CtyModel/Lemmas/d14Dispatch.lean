/-
d14 — what `format` hands to Go's fmt for the numeric verbs: the verb text WITHOUT its `[n]`
segment (`formatStripIndexSegment`), i.e. the same sentence with the index removed.
-/
import CtyModel.Lemmas.d14Fmt
namespace CtyModel
namespace StdNum

/-- neither bracket -/
def noBracket (c : Char) : Bool := c != '[' && c != ']'

theorem noBracket_of_toNat (c : Char) (h : c.toNat ≠ 91 ∧ c.toNat ≠ 93) : noBracket c = true := by
  simp only [noBracket, Bool.and_eq_true, bne_iff_ne, ne_eq, ← Char.toNat_inj]
  exact h

theorem flag_noBracket (c : Char) (h : isFlag c = true) : noBracket c = true := by
  rw [isFlag_iff] at h; apply noBracket_of_toNat; omega

theorem digit_noBracket (c : Char) (h : isDigit c = true) : noBracket c = true := by
  rw [isDigit_iff] at h; apply noBracket_of_toNat; omega

/-- the part of a sentence before its index: '%', flags, width, precision -/
def VerbSyn.head (g : VerbSyn) : List Char := '%' :: (g.flags ++ (g.width.getD [] ++ precTextOf g.prec))

theorem head_noBracket (g : VerbSyn) (hg : g.wf = true) : ∀ c ∈ g.head, noBracket c = true := by
  obtain ⟨fl, wd, pr, ix, md⟩ := g
  simp only [VerbSyn.wf, Bool.and_eq_true, List.all_eq_true] at hg
  obtain ⟨⟨⟨⟨hfl, hwd⟩, hpr⟩, _⟩, _⟩ := hg
  intro c hc
  simp only [VerbSyn.head, List.mem_cons, List.mem_append] at hc
  rcases hc with rfl | hc | hc | hc
  · decide
  · exact flag_noBracket c (hfl c hc)
  · cases wd with
    | none => simp at hc
    | some w => exact digit_noBracket c (isNum_digits hwd c (by simpa using hc))
  · cases pr with
    | none => simp [precTextOf] at hc
    | some p =>
      simp only [precTextOf, List.mem_cons] at hc
      rcases hc with rfl | hc
      · decide
      · have : ∀ d ∈ p, isDigit d = true := by simpa [wfDigitsOpt, List.all_eq_true] using hpr
        exact digit_noBracket c (this c hc)

theorem raw_split (g : VerbSyn) (offset nextArg : Nat) :
    (g.verb offset nextArg).raw = g.head ++ (idxTextOf g.idx ++ [g.mode]) := by
  rw [(verb_fields g offset nextArg).2.2.2.2.2.2.2]
  simp [VerbSyn.text, VerbSyn.head]

/-- **`formatStripIndexSegment` removes exactly the `[n]` segment**: the verb text handed to
`fmt.Sprintf` is the sentence itself when it has no index, and the same sentence without its
index otherwise. -/
theorem stripIndex_verb (g : VerbSyn) (hg : g.wf = true) (offset nextArg : Nat) :
    stripIndex (g.verb offset nextArg).raw = g.head ++ [g.mode] := by
  have hh := head_noBracket g hg
  have hmode : noBracket g.mode = true := by
    simp only [VerbSyn.wf, Bool.and_eq_true] at hg
    have := (isLetter_iff g.mode).mp hg.2
    apply noBracket_of_toNat; omega
  rw [raw_split]
  cases hi : g.idx with
  | none =>
    have hno : ∀ c ∈ g.head ++ ([] ++ [g.mode]), noBracket c = true := by
      intro c hc
      simp only [List.nil_append, List.mem_append, List.mem_singleton] at hc
      rcases hc with hc | rfl
      · exact hh c hc
      · exact hmode
    have : (g.head ++ ([] ++ [g.mode])).contains '[' = false := by
      cases hcon : (g.head ++ ([] ++ [g.mode])).contains '[' with
      | false => rfl
      | true =>
        have hm : '[' ∈ g.head ++ ([] ++ [g.mode]) := by simpa using hcon
        have := hno '[' hm
        revert this; decide
    have this' : (g.head ++ [g.mode]).contains '[' = false := by simpa using this
    simp only [idxTextOf, List.nil_append, stripIndex, this', Bool.false_and, Bool.false_eq_true, if_false]
  | some i =>
    have hiw : isNum i = true := by
      simp only [VerbSyn.wf, Bool.and_eq_true] at hg
      have := hg.1.2
      rw [hi] at this; exact this
    have hid : ∀ c ∈ i, noBracket c = true := fun c hc => digit_noBracket c (isNum_digits hiw c hc)
    have hc1 : (g.head ++ (idxTextOf (some i) ++ [g.mode])).contains '[' = true := by simp [idxTextOf]
    have hc2 : (g.head ++ (idxTextOf (some i) ++ [g.mode])).contains ']' = true := by simp [idxTextOf]
    have hp1 : ∀ c ∈ g.head, (c != '[') = true := by
      intro c hc
      have := hh c hc
      simp only [noBracket, Bool.and_eq_true] at this; exact this.1
    have hp2 : ∀ c ∈ g.head ++ '[' :: i, (c != ']') = true := by
      intro c hc
      simp only [List.mem_append, List.mem_cons] at hc
      rcases hc with hc | rfl | hc
      · have := hh c hc
        simp only [noBracket, Bool.and_eq_true] at this; exact this.2
      · decide
      · have := hid c hc
        simp only [noBracket, Bool.and_eq_true] at this; exact this.2
    have ht : (g.head ++ (idxTextOf (some i) ++ [g.mode])).takeWhile (· != '[') = g.head := by
      rw [List.takeWhile_append_of_pos hp1]
      simp [idxTextOf]
    have hd : (g.head ++ (idxTextOf (some i) ++ [g.mode])).dropWhile (· != ']') = ']' :: [g.mode] := by
      have e : g.head ++ (idxTextOf (some i) ++ [g.mode]) = (g.head ++ '[' :: i) ++ (']' :: [g.mode]) := by
        simp [idxTextOf]
      rw [e, List.dropWhile_append_of_pos hp2]
      simp [List.dropWhile]
    simp only [stripIndex, hc1, hc2, Bool.and_self, if_true, ht, hd, List.drop_succ_cons, List.drop_zero]

/-- **Dispatch of the integer verbs** `%b %d %o %x %X`: a whole number is rendered by
`fmt.Sprintf(<verb without [n]>, *big.Int)`, a fraction is the "an integer is required" error. -/
theorem formatAppend_integer (L : Lib) (v : Verb) (args : List Value) (x : Num) (h0 : v.argNum ≠ 0)
    (ha : args[v.argNum - 1]? = some (Value.numVal x))
    (hw : (v.hasWidth && decide (v.width > formatMaxWidthPrec)) = false)
    (hp : (v.hasPrec && decide (v.prec > formatMaxWidthPrec)) = false)
    (hm : v.mode = 'b' ∨ v.mode = 'd' ∨ v.mode = 'o' ∨ v.mode = 'x' ∨ v.mode = 'X') :
    (∀ i, (x.isInt || x.isZero) = true → x.truncInt = some i →
      formatAppend L v args = .ok (L.fmtInt (String.ofList (stripIndex v.raw)) i)) ∧
    ((x.isInt || x.isZero) = false → formatAppend L v args = .err "an integer is required") := by
  have h0' : (v.argNum == 0) = false := by simpa using h0
  constructor
  · intro i hi ht
    rcases hm with hm | hm | hm | hm | hm <;>
      simp [formatAppend, h0', ha, hw, hp, hm, Value.numVal, Value.isNull, Payload.isNull, Payload.unmark1, hi, ht]
  · intro hi
    rcases hm with hm | hm | hm | hm | hm <;>
      simp [formatAppend, h0', ha, hw, hp, hm, Value.numVal, Value.isNull, Payload.isNull, Payload.unmark1, hi]

/-- **Dispatch of the float verbs** `%e %E %f %g %G`: `fmt.Sprintf(<verb without [n]>, *big.Float)`. -/
theorem formatAppend_float (L : Lib) (v : Verb) (args : List Value) (x : Num) (h0 : v.argNum ≠ 0)
    (ha : args[v.argNum - 1]? = some (Value.numVal x))
    (hw : (v.hasWidth && decide (v.width > formatMaxWidthPrec)) = false)
    (hp : (v.hasPrec && decide (v.prec > formatMaxWidthPrec)) = false)
    (hm : v.mode = 'e' ∨ v.mode = 'E' ∨ v.mode = 'f' ∨ v.mode = 'g' ∨ v.mode = 'G') :
    formatAppend L v args = .ok (L.fmtFloat (String.ofList (stripIndex v.raw)) x) := by
  have h0' : (v.argNum == 0) = false := by simpa using h0
  rcases hm with hm | hm | hm | hm | hm <;>
    simp [formatAppend, h0', ha, hw, hp, hm, Value.numVal, Value.isNull, Payload.isNull, Payload.unmark1]

/-- **Dispatch of the string verbs**: `%s` cuts to the precision and pads to the width, both in
grapheme clusters; `%q` JSON-quotes the (re-normalised) cut string, then pads. -/
theorem formatAppend_string (L : Lib) (v : Verb) (args : List Value) (s : String) (h0 : v.argNum ≠ 0)
    (ha : args[v.argNum - 1]? = some (sv s))
    (hw : (v.hasWidth && decide (v.width > formatMaxWidthPrec)) = false)
    (hp : (v.hasPrec && decide (v.prec > formatMaxWidthPrec)) = false) :
    (v.mode = 's' → formatAppend L v args = .ok (padWidth L.clusters v (precCut L.clusters v s))) ∧
    (v.mode = 'q' → formatAppend L v args =
      .ok (padWidth L.clusters v (L.jsonStr (L.nfc (precCut L.clusters v s))))) := by
  have h0' : (v.argNum == 0) = false := by simpa using h0
  constructor <;> intro hm <;>
    simp [formatAppend, h0', ha, hw, hp, hm, sv, Value.isNull, Payload.isNull, Payload.unmark1]

end StdNum
end CtyModel
