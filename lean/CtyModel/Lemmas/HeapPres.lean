/-
C20 — every building block of the API programs leaves the library-owned objects of
a base heap `m0` alone (`Preserves m0 _`), provided the objects it writes in place
are not library-owned in `m0` (objects allocated after `m0` never are).
-/
import CtyModel.Lemmas.HeapFrame
namespace CtyModel
namespace Heap

theorem frozenObj_ge {m : Mem} {a : Addr} (h : m.length ≤ a) : frozenObj m a = false := by
  cases hf : frozenObj m a with
  | false => rfl
  | true => exact absurd (frozenObj_lt hf) (Nat.not_lt.mpr h)

/-- `m` extends the base heap `m0`, and every object of `m0` outside the write set
`W` is the same object in `m` (same body, same owner) -/
def Ext (W : Addr → Prop) (m0 m : Mem) : Prop :=
  m0.length ≤ m.length ∧ ∀ a, a < m0.length → ¬ W a → m[a]? = m0[a]?

/-- an address a step may write: in the write set, or allocated after `m0` -/
def Wr (W : Addr → Prop) (m0 : Mem) (a : Addr) : Prop := W a ∨ m0.length ≤ a

theorem Ext.refl (W : Addr → Prop) (m : Mem) : Ext W m m := ⟨Nat.le_refl _, fun _ _ _ => rfl⟩

theorem Ext.mono {W W' : Addr → Prop} {m0 m : Mem} (h : Ext W m0 m) (hw : ∀ a, W a → W' a) :
    Ext W' m0 m := ⟨h.1, fun a ha hn => h.2 a ha (fun hw' => hn (hw a hw'))⟩

/-- a step whose write set holds no library-owned object preserves them all -/
theorem Ext.preserves {W : Addr → Prop} {m0 m : Mem} (h : Ext W m0 m)
    (hw : ∀ a, W a → frozenObj m0 a = false) : Preserves m0 m :=
  ⟨h.1, fun a ha => h.2 a (frozenObj_lt ha) (fun hwa => by rw [hw a hwa] at ha; exact Bool.noConfusion ha)⟩

/-- relative frame rule for allocation -/
theorem pres_alloc {W : Addr → Prop} {m0 m : Mem} (h : Ext W m0 m) (o : Owner) (b : Body) :
    Ext W m0 (alloc m o b).1 :=
  ⟨Nat.le_trans h.1 (by simp [alloc]), fun a ha hn => by
    have := Nat.lt_of_lt_of_le ha h.1
    simp [alloc, List.getElem?_append_left this, h.2 a ha hn]⟩

@[simp] theorem alloc_fst_length (m : Mem) (o : Owner) (b : Body) :
    (alloc m o b).1.length = m.length + 1 := by simp [alloc]

@[simp] theorem alloc_snd (m : Mem) (o : Owner) (b : Body) : (alloc m o b).2 = m.length := rfl

@[simp] theorem setBody_length (m : Mem) (a : Addr) (b : Body) : (setBody m a b).length = m.length := by
  unfold setBody; split <;> simp

@[simp] theorem freeze_length (m : Mem) (a : Addr) : (freeze m a).length = m.length := by
  unfold freeze; split <;> simp

theorem setBody_get_ne {m : Mem} {a x : Addr} (b : Body) (h : a ≠ x) : (setBody m a b)[x]? = m[x]? := by
  unfold setBody; split
  · simp [List.getElem?_set_ne h]
  · rfl

theorem freeze_get_ne {m : Mem} {a x : Addr} (h : a ≠ x) : (freeze m a)[x]? = m[x]? := by
  unfold freeze; split
  · simp [List.getElem?_set_ne h]
  · rfl

/-- relative frame rule for an in-place write -/
theorem pres_setBody {W : Addr → Prop} {m0 m : Mem} (h : Ext W m0 m) {a : Addr} (b : Body)
    (ha : Wr W m0 a) : Ext W m0 (setBody m a b) :=
  ⟨by simpa using h.1, fun x hx hn => by
    have hne : a ≠ x := by
      intro e; subst e
      rcases ha with ha | ha
      · exact hn ha
      · exact Nat.not_lt.mpr ha hx
    rw [setBody_get_ne b hne, h.2 x hx hn]⟩

theorem pres_freeze {W : Addr → Prop} {m0 m : Mem} (h : Ext W m0 m) {a : Addr}
    (ha : Wr W m0 a) : Ext W m0 (freeze m a) :=
  ⟨by simpa using h.1, fun x hx hn => by
    have hne : a ≠ x := by
      intro e; subst e
      rcases ha with ha | ha
      · exact hn ha
      · exact Nat.not_lt.mpr ha hx
    rw [freeze_get_ne hne, h.2 x hx hn]⟩

theorem preserves_alloc' (W : Addr → Prop) (m : Mem) (o : Owner) (b : Body) : Ext W m (alloc m o b).1 :=
  pres_alloc (Ext.refl W m) o b

theorem not_frozen_of_owner {m : Mem} {a : Addr} {o : Owner} (h : ownerOf m a = some o)
    (h1 : o ≠ .lib) (h2 : ∀ b, o ≠ .bucket b) (h3 : o ≠ .libset := by simp) : frozenObj m a = false := by
  unfold frozenObj
  rw [h]
  cases o with
  | lib => exact absurd rfl h1
  | libset => exact absurd rfl h3
  | bucket b => exact absurd rfl (h2 b)
  | _ => rfl

@[simp] theorem publish_length (m : Mem) (a : Addr) : (publish m a).length = m.length := by
  unfold publish; split <;> simp

theorem publish_get_ne {m : Mem} {a x : Addr} (h : a ≠ x) : (publish m a)[x]? = m[x]? := by
  unfold publish; split
  · simp [List.getElem?_set_ne h]
  · rfl

theorem pres_publish {W : Addr → Prop} {m0 m : Mem} (h : Ext W m0 m) {a : Addr}
    (ha : Wr W m0 a) : Ext W m0 (publish m a) :=
  ⟨by simpa using h.1, fun x hx hn => by
    have hne : a ≠ x := by
      intro e; subst e
      rcases ha with ha | ha
      · exact hn ha
      · exact Nat.not_lt.mpr ha hx
    rw [publish_get_ne hne, h.2 x hx hn]⟩

/-- a documented transfer: writes (the owner tag of) a caller-owned object only -/
theorem pres_freezeCaller {W : Addr → Prop} (m : Mem) (a : Addr)
    (hw : ownerOf m a = some .caller → W a) : Ext W m (freezeCaller m a) := by
  unfold freezeCaller
  split
  · rename_i h
    exact pres_freeze (Ext.refl W m) (.inl (hw (by simpa using h)))
  · exact Ext.refl W m

/-- the slice is over an array the step may write -/
def SliceW (W : Addr → Prop) (m0 : Mem) (w : Word) : Prop :=
  ∀ arr off len cap, w = .slice arr off len cap → Wr W m0 arr

/-- `append`: writes the backing array in place (only when `len < cap`), or allocates -/
theorem pres_goAppend' {W : Addr → Prop} {m0 m m' : Mem} (h : Ext W m0 m) {own : Owner} {s x s' : Word}
    (hs : ∀ arr off len cap, s = .slice arr off len cap → len < cap → Wr W m0 arr)
    (he : goAppend m own s x = some (m', s')) :
    Ext W m0 m' ∧ SliceW W m0 s' := by
  cases s with
  | null =>
    simp only [goAppend] at he
    cases he
    refine ⟨pres_alloc h _ _, ?_⟩
    intro arr off len cap e
    cases e
    exact .inr h.1
  | slice arr off len cap =>
    simp only [goAppend] at he
    cases hc : cellsOf m arr with
    | none => simp [hc] at he
    | some cells =>
      simp only [hc] at he
      split at he
      · rename_i hlt
        cases he
        refine ⟨pres_setBody h _ (hs arr off len cap rfl hlt), ?_⟩
        intro arr' off' len' cap' e
        cases e
        exact hs arr off len cap rfl hlt
      · cases he
        refine ⟨pres_alloc h _ _, ?_⟩
        intro arr' off' len' cap' e
        cases e
        exact .inr h.1
  | _ => simp [goAppend] at he

theorem pres_goAppend {W : Addr → Prop} {m0 m m' : Mem} (h : Ext W m0 m) {own : Owner} {s x s' : Word}
    (hs : SliceW W m0 s) (he : goAppend m own s x = some (m', s')) :
    Ext W m0 m' ∧ SliceW W m0 s' :=
  pres_goAppend' h (fun arr off len cap e _ => hs arr off len cap e) he

/-- the storage of the set at `a` (as it is in `m`) may be written -/
def SetW (W : Addr → Prop) (m0 m : Mem) (a : Addr) : Prop :=
  Wr W m0 a ∧ ∀ kvs, kvsOf m a = some kvs → ∀ kv ∈ kvs, SliceW W m0 kv.2

theorem kvsOf_setBody_self {m : Mem} {a : Addr} {kvs kvs' : List (Key × Word)}
    (h : kvsOf m a = some kvs) : kvsOf (setBody m a (.gomap kvs')) a = some kvs' := by
  unfold kvsOf at h ⊢
  unfold setBody
  cases hm : m[a]? with
  | none => simp [hm] at h
  | some o =>
    have hlt := (List.getElem?_eq_some_iff.mp hm).1
    simp [List.getElem?_set_self hlt]

theorem kvsOf_setBody_some {m : Mem} {a : Addr} {kvs' l : List (Key × Word)}
    (h : kvsOf (setBody m a (.gomap kvs')) a = some l) : l = kvs' := by
  unfold kvsOf setBody at h
  cases hm : m[a]? with
  | none => simp [hm] at h
  | some o =>
    have hlt := (List.getElem?_eq_some_iff.mp hm).1
    simp [hm, List.getElem?_set_self hlt] at h
    exact h.symm

theorem mem_kvInsert {k : Key} {w : Word} {l : List (Key × Word)} {kv : Key × Word}
    (h : kv ∈ kvInsert k w l) : kv = (k, w) ∨ kv ∈ l := by
  induction l with
  | nil => simp [kvInsert] at h; exact .inl h
  | cons hd tl ih =>
    rcases hd with ⟨k', w'⟩
    simp only [kvInsert] at h
    split at h
    · rcases List.mem_cons.mp h with h | h
      · exact .inl h
      · exact .inr (List.mem_cons_of_mem _ h)
    · split at h
      · rcases List.mem_cons.mp h with h | h
        · exact .inl h
        · exact .inr h
      · rcases List.mem_cons.mp h with h | h
        · exact .inr (h ▸ List.mem_cons_self)
        · rcases ih h with h | h
          · exact .inl h
          · exact .inr (List.mem_cons_of_mem _ h)

theorem mem_kvDelete {k : Key} {l : List (Key × Word)} {kv : Key × Word}
    (h : kv ∈ kvDelete k l) : kv ∈ l := by
  induction l with
  | nil => simp [kvDelete] at h
  | cons hd tl ih =>
    rcases hd with ⟨k', w'⟩
    simp only [kvDelete] at h
    split at h
    · exact List.mem_cons_of_mem _ h
    · rcases List.mem_cons.mp h with h | h
      · exact h ▸ List.mem_cons_self
      · exact List.mem_cons_of_mem _ (ih h)

theorem mem_of_kvLookup {k : Key} {w : Word} {l : List (Key × Word)}
    (h : kvLookup k l = some w) : (k, w) ∈ l := by
  induction l with
  | nil => simp [kvLookup] at h
  | cons hd tl ih =>
    rcases hd with ⟨k', w'⟩
    simp only [kvLookup] at h
    split at h
    · rename_i e; cases h; subst e; exact List.mem_cons_self
    · exact List.mem_cons_of_mem _ (ih h)

/-- `kvsOf` of another object is not affected by allocation / writes elsewhere -/
theorem kvsOf_alloc {m : Mem} {a : Addr} (o : Owner) (b : Body) (h : a < m.length) :
    kvsOf (alloc m o b).1 a = kvsOf m a := by
  simp [kvsOf, alloc, List.getElem?_append_left h]

theorem kvsOf_setBody_ne {m : Mem} {a x : Addr} (b : Body) (h : a ≠ x) :
    kvsOf (setBody m a b) x = kvsOf m x := by
  simp [kvsOf, setBody_get_ne b h]

theorem kvsOf_lt {m : Mem} {a : Addr} {kvs : List (Key × Word)} (h : kvsOf m a = some kvs) :
    a < m.length := by
  unfold kvsOf at h
  cases hm : m[a]? with
  | none => simp [hm] at h
  | some o => exact (List.getElem?_eq_some_iff.mp hm).1

theorem cellsOf_lt {m : Mem} {a : Addr} {cs : List Word} (h : cellsOf m a = some cs) :
    a < m.length := by
  unfold cellsOf at h
  cases hm : m[a]? with
  | none => simp [hm] at h
  | some o => exact (List.getElem?_eq_some_iff.mp hm).1

/-- a bucket array is never the bucket map itself -/
theorem kvsOf_setBody_array {m : Mem} {arr a : Addr} {cs cs' : List Word}
    (hc : cellsOf m arr = some cs) : kvsOf (setBody m arr (.array cs')) a = kvsOf m a := by
  by_cases e : arr = a
  · subst e
    have hlt := cellsOf_lt hc
    unfold cellsOf at hc
    unfold kvsOf setBody
    cases hm : m[arr]? with
    | none => simp [hm] at hc
    | some o =>
      rcases o with ⟨ow, bd⟩
      cases bd <;> simp [hm] at hc
      simp [List.getElem?_set_self hlt]
  · exact kvsOf_setBody_ne _ e

theorem kvsOf_goAppend {m m' : Mem} {own : Owner} {s x s' : Word} {a : Addr}
    (he : goAppend m own s x = some (m', s')) (ha : a < m.length) : kvsOf m' a = kvsOf m a := by
  cases s with
  | null => simp only [goAppend] at he; cases he; exact kvsOf_alloc _ _ ha
  | slice arr off len cap =>
    simp only [goAppend] at he
    cases hc : cellsOf m arr with
    | none => simp [hc] at he
    | some cells =>
      simp only [hc] at he
      split at he
      · cases he; exact kvsOf_setBody_array hc
      · cases he; exact kvsOf_alloc _ _ ha
  | _ => simp [goAppend] at he

/-- `Set.Add` -/
theorem pres_setAdd {W : Addr → Prop} {m0 m m' : Mem} (h : Ext W m0 m) {eq : Equiv} {a : Addr} {x : Word} {hh : Int}
    (hw : SetW W m0 m a) (he : setAdd eq m a x hh = some m') :
    Ext W m0 m' ∧ SetW W m0 m' a := by
  unfold setAdd at he
  cases hk : kvsOf m a with
  | none => simp [hk] at he
  | some kvs =>
    simp only [hk] at he
    have halt := kvsOf_lt hk
    -- the (possibly just created) bucket
    have key : ∀ (m1 : Mem) (b : Word) (kvs1 : List (Key × Word)), Ext W m0 m1 → kvsOf m1 a = some kvs1 →
        (∀ kv ∈ kvs1, SliceW W m0 kv.2) → SliceW W m0 b →
        (match sliceElems m1 b with
          | none => none
          | some elems =>
            if elems.any (eq m1 x) then some m1
            else match goAppend m1 (.bucket a) b x with
              | none => none
              | some (m2, b') => match kvsOf m2 a with
                | none => none
                | some kvs2 => some (setBody m2 a (.gomap (kvInsert (.i hh) b' kvs2)))) = some m' →
        Ext W m0 m' ∧ SetW W m0 m' a := by
      intro m1 b kvs1 h1 hk1 hall hb he
      cases hse : sliceElems m1 b with
      | none => simp [hse] at he
      | some elems =>
        simp only [hse] at he
        split at he
        · cases he
          exact ⟨h1, hw.1, fun l hl kv hkv => by rw [hk1] at hl; cases hl; exact hall kv hkv⟩
        · cases hg : goAppend m1 (.bucket a) b x with
          | none => simp [hg] at he
          | some r =>
            rcases r with ⟨m2, b'⟩
            simp only [hg] at he
            obtain ⟨h2, hb'⟩ := pres_goAppend h1 hb hg
            have hk2 : kvsOf m2 a = some kvs1 := by
              rw [kvsOf_goAppend hg (kvsOf_lt hk1), hk1]
            simp only [hk2] at he
            cases he
            refine ⟨pres_setBody h2 _ hw.1, hw.1, fun l hl kv hkv => ?_⟩
            have := kvsOf_setBody_some hl
            subst this
            rcases mem_kvInsert hkv with e | e
            · subst e; exact hb'
            · exact hall kv e
    cases hl : kvLookup (.i hh) kvs with
    | some b =>
      simp only [hl] at he
      exact key m b kvs h hk (hw.2 kvs hk) (hw.2 kvs hk _ (mem_of_kvLookup hl)) he
    | none =>
      simp only [hl] at he
      have hnew : SliceW W m0 (.slice m.length 0 0 1) := by
        intro arr off len cap e; cases e; exact .inr h.1
      refine key _ _ (kvInsert (.i hh) (.slice m.length 0 0 1) kvs)
        (pres_setBody (pres_alloc h _ _) _ hw.1) ?_ ?_ hnew he
      · exact kvsOf_setBody_self (kvs := kvs) (by rw [kvsOf_alloc _ _ halt, hk])
      · intro kv hkv
        rcases mem_kvInsert hkv with e | e
        · subst e; exact hnew
        · exact hw.2 kvs hk kv e

theorem pres_setAddAll {W : Addr → Prop} {m0 : Mem} {eq : Equiv} {a : Addr} :
    ∀ (xs : List Word) (hs : List Int) (m m' : Mem), Ext W m0 m → SetW W m0 m a →
      setAddAll eq m a xs hs = some m' → Ext W m0 m' ∧ SetW W m0 m' a := by
  intro xs
  induction xs with
  | nil =>
    intro hs m m' h hw he
    cases hs with
    | nil => simp [setAddAll] at he; subst he; exact ⟨h, hw⟩
    | cons _ _ => simp [setAddAll] at he
  | cons x xs ih =>
    intro hs m m' h hw he
    cases hs with
    | nil => simp [setAddAll] at he
    | cons hh hs =>
      simp only [setAddAll] at he
      cases ha : setAdd eq m a x hh with
      | none => simp [ha] at he
      | some m1 =>
        simp only [ha] at he
        obtain ⟨h1, hw1⟩ := pres_setAdd h hw ha
        exact ih hs m1 m' h1 hw1 he

/-- `Set.Remove` -/
theorem pres_setRemove {W : Addr → Prop} {m0 m m' : Mem} (h : Ext W m0 m) {eq : Equiv} {a : Addr} {x : Word} {hh : Int}
    (hw : Wr W m0 a) (he : setRemove eq m a x hh = some m') : Ext W m0 m' := by
  unfold setRemove at he
  cases hk : kvsOf m a with
  | none => simp [hk] at he
  | some kvs =>
    simp only [hk] at he
    split at he
    · cases he; exact h
    · split at he
      · simp at he
      · split at he
        · cases he; exact h
        · split at he
          · cases he; exact pres_setBody h _ hw
          · cases he; exact pres_setBody (pres_alloc h _ _) _ hw

/-- the fresh set of a constructor / copy -/
theorem setW_new {W : Addr → Prop} {m0 m : Mem} (h : Ext W m0 m) (own : Owner) :
    SetW W m0 (setNew m own).1 (setNew m own).2 := by
  refine ⟨.inr h.1, fun kvs hk kv hkv => ?_⟩
  simp [setNew, alloc, kvsOf] at hk
  subst hk
  cases hkv

theorem pres_copyBuckets {W : Addr → Prop} {m0 : Mem} {a' : Addr} (ha' : Wr W m0 a') :
    ∀ (l : List (Key × Word)) (m m' : Mem), Ext W m0 m → copyBuckets m a' l = some m' →
      Ext W m0 m' := by
  intro l
  induction l with
  | nil => intro m m' h he; simp [copyBuckets] at he; subst he; exact h
  | cons kv r ih =>
    intro m m' h he
    rcases kv with ⟨k, b⟩
    simp only [copyBuckets] at he
    split at he
    · exact ih _ _ (pres_setBody (pres_alloc h _ _) _ ha') he
    · simp at he

theorem pres_setCopy {W : Addr → Prop} {m0 m m' : Mem} (h : Ext W m0 m) {own : Owner} {a a' : Addr}
    (he : setCopy m own a = some (m', a')) : Ext W m0 m' := by
  unfold setCopy at he
  cases hk : kvsOf m a with
  | none => simp [hk] at he
  | some kvs =>
    simp only [hk, setNew, Option.map_eq_some_iff] at he
    obtain ⟨m2, hc, e⟩ := he
    cases e
    exact pres_copyBuckets (.inr h.1) kvs _ _ (pres_alloc h _ _) hc

theorem pres_allocIdxKeys {W : Addr → Prop} {m0 : Mem} : ∀ (n i : Nat) (m : Mem), Ext W m0 m →
    Ext W m0 (allocIdxKeys m i n).1 := by
  intro n
  induction n with
  | zero => intro i m h; exact h
  | succ n ih => intro i m h; exact ih (i + 1) _ (pres_alloc h _ _)

/-- case analysis of a hypothesis `h : <Option program> = some _` -/
syntax "opt_cases " ident : tactic
macro_rules
  | `(tactic| opt_cases $h:ident) => `(tactic|
    repeat' (first
      | (cases $h:ident; done)
      | (simp only [Option.map_eq_some_iff, Option.bind_eq_bind, Option.bind_eq_some_iff, Option.pure_def,
          Option.bind_none, Option.bind_some] at $h:ident)
      | (obtain ⟨_, _, $h:ident⟩ := $h:ident)
      | (split at $h:ident)
      | (cases $h:ident)))

theorem pres_iterElems {W : Addr → Prop} {m0 m m' : Mem} (h : Ext W m0 m) {t v : Word} {perm : List Nat}
    {kes : List (Word × Word)} (he : iterElems m t v perm = some (m', kes)) : Ext W m0 m' := by
  unfold iterElems at he
  opt_cases he
  all_goals (first | exact h | exact pres_allocIdxKeys _ _ _ h)

theorem pres_walkChildren {W : Addr → Prop} {m0 m : Mem} (h : Ext W m0 m) (t v : Word) :
    Ext W m0 (walkChildren m t v).1 := by
  generalize he : walkChildren m t v = r
  unfold walkChildren at he
  simp only [] at he
  repeat' (split at he)
  all_goals (subst he)
  all_goals (first | exact h | (apply pres_iterElems h (kes := _); assumption) | skip)

end Heap
end CtyModel
