/-
C01, `Equals` on objects and maps whose attribute / element types are in the
fragment of Lemmas/OpsEquals.lean (primitives, lists, tuples, nested) and whose
members are weakened in place, at any depth, to unknowns with any refinement.

The object and map branches of `Equals` do not stop at the first comparison that is
unknown (Go ranges over a map, so a known-unequal attribute must decide whichever is
visited first): they go on, and answer "unknown" only if no attribute is known to
differ.  Soundness therefore needs that the comparisons the concrete call never made
(after its first False) still succeed on the weakened members: `eqF_total` (Equals is
total on wholly known operands of the fragment) and `eqF_sound`.
-/
import CtyModel.Lemmas.OpsEquals
namespace CtyModel
open Value Cov NumCmp

/-! ### Equals is total on wholly known operands of the fragment -/

def RecTotal (rec : EqRec) (d : Nat) : Prop :=
  ∀ (t : Ty) (o1 o2 : Payload), eqTy t = true → wt t o1 = true → wt t o2 = true →
    o1.whollyKnown = true → o2.whollyKnown = true → o1.depth ≤ d → o2.depth ≤ d → ∃ x, rec t o1 t o2 = .ok (boolVal x)

theorem equalsZip_total {rec : EqRec} {d : Nat} (ht : RecTotal rec d) :
    ∀ (ts : List Ty) (os1 os2 : List Payload), eqTyL ts = true → wtZip ts os1 = true → wtZip ts os2 = true →
    Payload.whollyKnownL os1 = true → Payload.whollyKnownL os2 = true → Payload.depthL os1 ≤ d → Payload.depthL os2 ≤ d →
    ∃ acc, equalsZip rec ts os1 os2 = .ok acc
  | [], _, _, _, _, _, _, _, _, _ => ⟨.t, by simp [equalsZip]⟩
  | _ :: _, [], _, _, h, _, _, _, _, _ => by simp [wtZip] at h
  | _ :: _, _ :: _, [], _, _, h, _, _, _, _ => by simp [wtZip] at h
  | t :: ts, o1 :: os1, o2 :: os2, hts, h1, h2, k1, k2, d1, d2 => by
    simp only [eqTyL, Bool.and_eq_true] at hts
    simp only [wtZip, Bool.and_eq_true] at h1 h2
    simp only [Payload.whollyKnownL, Bool.and_eq_true] at k1 k2
    simp only [Payload.depthL] at d1 d2
    obtain ⟨x, hx⟩ := ht t o1 o2 hts.1 h1.1 h2.1 k1.1 k2.1 (by omega) (by omega)
    simp only [equalsZip, hx, eqAccOf_boolVal]
    cases x
    · exact ⟨_, rfl⟩
    · exact equalsZip_total ht ts os1 os2 hts.2 h1.2 h2.2 k1.2 k2.2 (by omega) (by omega)

theorem equalsAll_total {rec : EqRec} {d : Nat} (ht : RecTotal rec d) (e : Ty) (he : eqTy e = true) :
    ∀ (os1 os2 : List Payload), wtAll e os1 = true → wtAll e os2 = true →
    Payload.whollyKnownL os1 = true → Payload.whollyKnownL os2 = true → Payload.depthL os1 ≤ d → Payload.depthL os2 ≤ d →
    ∃ acc, equalsAll rec e os1 os2 = .ok acc
  | [], _, _, _, _, _, _, _ => ⟨.t, by simp [equalsAll]⟩
  | _ :: _, [], _, _, _, _, _, _ => ⟨.t, by simp [equalsAll]⟩
  | o1 :: os1, o2 :: os2, h1, h2, k1, k2, d1, d2 => by
    simp only [wtAll, Bool.and_eq_true] at h1 h2
    simp only [Payload.whollyKnownL, Bool.and_eq_true] at k1 k2
    simp only [Payload.depthL] at d1 d2
    obtain ⟨x, hx⟩ := ht e o1 o2 he h1.1 h2.1 k1.1 k2.1 (by omega) (by omega)
    simp only [equalsAll, hx, eqAccOf_boolVal]
    cases x
    · exact ⟨_, rfl⟩
    · exact equalsAll_total ht e he os1 os2 h1.2 h2.2 k1.2 k2.2 (by omega) (by omega)

theorem ty_equals_self {t : Ty} (h : t.wf = true) : Ty.equals t t = true := (Ty.equals_iff_eq t t h h).mpr rfl

theorem eqF_total : ∀ n, RecTotal (equalsFuel n) n
  | 0 => fun _ o1 _ _ _ _ _ _ h _ => by have := depth_pos o1; omega
  | n + 1 => by
    intro t o1 o2 ht h1 h2 k1 k2 d1 d2
    have ih : RecTotal (equalsFuel n) n := eqF_total n
    have hko1 := pKnown_of_wk k1 h1
    have hko2 := pKnown_of_wk k2 h2
    unfold equalsFuel
    rw [equalsPre_both_known (isKnown_of_pKnown hko1) (isKnown_of_pKnown hko2)]
    simp only [isNull_val hko1, isNull_val hko2]
    by_cases hn1 : pNull o1 = true
    · simp only [hn1, if_true]; exact ⟨_, rfl⟩
    simp only [hn1, Bool.false_eq_true, if_false]
    by_cases hn2 : pNull o2 = true
    · simp only [hn2, if_true]; exact ⟨_, rfl⟩
    simp only [hn2, Bool.false_eq_true, if_false]
    simp only [hwkt_of_frag t o1 ht h1, hwkt_of_frag t o2 ht h2, Bool.not_true, Bool.or_self, Bool.false_eq_true, if_false,
      ty_equals_self (eqTy_wf t ht)]
    cases t with
    | number =>
      cases o1 <;> simp [wt, pNull, pKnown] at h1 hn1 hko1
      cases o2 <;> simp [wt, pNull, pKnown] at h2 hn2 hko2
      exact ⟨_, rfl⟩
    | bool =>
      cases o1 <;> simp [wt, pNull, pKnown] at h1 hn1 hko1
      cases o2 <;> simp [wt, pNull, pKnown] at h2 hn2 hko2
      exact ⟨_, rfl⟩
    | string =>
      cases o1 <;> simp [wt, pNull, pKnown] at h1 hn1 hko1
      cases o2 <;> simp [wt, pNull, pKnown] at h2 hn2 hko2
      exact ⟨_, rfl⟩
    | tuple ts =>
      obtain ⟨os1, rfl⟩ : ∃ xs, o1 = .seq xs := by
        cases o1 <;> simp [wt, pNull, pKnown] at h1 hn1 hko1; exact ⟨_, rfl⟩
      obtain ⟨os2, rfl⟩ : ∃ xs, o2 = .seq xs := by
        cases o2 <;> simp [wt, pNull, pKnown] at h2 hn2 hko2; exact ⟨_, rfl⟩
      simp only [wt] at h1 h2
      simp only [eqTy] at ht
      simp only [Payload.whollyKnown] at k1 k2
      simp only [Payload.depth] at d1 d2
      obtain ⟨acc, hacc⟩ := equalsZip_total ih ts os1 os2 ht h1 h2 k1 k2 (by omega) (by omega)
      simp only [hacc]
      cases acc
      · exact ⟨true, rfl⟩
      · exact ⟨false, rfl⟩
      · -- "unknown" cannot come out of wholly known members
        exfalso
        have := equalsFuel_conc_bool (fuel := n + 1) (ta := .tuple ts) (tb := .tuple ts) (a := .seq os1) (b := .seq os2)
          (r := unkBool) (by simpa [Payload.whollyKnown] using k1) (by simpa [Payload.whollyKnown] using k2)
          (by
            unfold equalsFuel
            rw [equalsPre_both_known (isKnown_of_pKnown hko1) (isKnown_of_pKnown hko2)]
            simp only [isNull_val hko1, isNull_val hko2, hn1, hn2, Bool.false_eq_true, if_false]
            simp only [hwkt_of_frag (.tuple ts) (.seq os1) (by simpa [eqTy] using ht) (by simpa [wt] using h1),
              hwkt_of_frag (.tuple ts) (.seq os2) (by simpa [eqTy] using ht) (by simpa [wt] using h2),
              Bool.not_true, Bool.or_self, Bool.false_eq_true, if_false,
              ty_equals_self (eqTy_wf (.tuple ts) (by simpa [eqTy] using ht)), hacc]
            rfl)
        obtain ⟨x, hx⟩ := this
        cases x <;> cases hx
    | list e =>
      obtain ⟨os1, rfl⟩ : ∃ xs, o1 = .seq xs := by
        cases o1 <;> simp [wt, pNull, pKnown] at h1 hn1 hko1; exact ⟨_, rfl⟩
      obtain ⟨os2, rfl⟩ : ∃ xs, o2 = .seq xs := by
        cases o2 <;> simp [wt, pNull, pKnown] at h2 hn2 hko2; exact ⟨_, rfl⟩
      simp only [wt] at h1 h2
      simp only [eqTy] at ht
      simp only [Payload.whollyKnown] at k1 k2
      simp only [Payload.depth] at d1 d2
      by_cases hl : (os1.length == os2.length) = true
      · simp only [hl, if_true]
        obtain ⟨acc, hacc⟩ := equalsAll_total ih e ht os1 os2 h1 h2 k1 k2 (by omega) (by omega)
        simp only [hacc]
        cases acc
        · exact ⟨true, rfl⟩
        · exact ⟨false, rfl⟩
        · exfalso
          have := equalsFuel_conc_bool (fuel := n + 1) (ta := .list e) (tb := .list e) (a := .seq os1) (b := .seq os2)
            (r := unkBool) (by simpa [Payload.whollyKnown] using k1) (by simpa [Payload.whollyKnown] using k2)
            (by
              unfold equalsFuel
              rw [equalsPre_both_known (isKnown_of_pKnown hko1) (isKnown_of_pKnown hko2)]
              simp only [isNull_val hko1, isNull_val hko2, hn1, hn2, Bool.false_eq_true, if_false]
              simp only [hwkt_of_frag (.list e) (.seq os1) (by simpa [eqTy] using ht) (by simpa [wt] using h1),
                hwkt_of_frag (.list e) (.seq os2) (by simpa [eqTy] using ht) (by simpa [wt] using h2),
                Bool.not_true, Bool.or_self, Bool.false_eq_true, if_false,
                ty_equals_self (eqTy_wf (.list e) (by simpa [eqTy] using ht)), hl, if_true, hacc]
              rfl)
          obtain ⟨x, hx⟩ := this
          cases x <;> cases hx
      · simp only [hl, Bool.false_eq_true, if_false]; exact ⟨_, rfl⟩
    | dyn => simp [eqTy] at ht
    | set _ => simp [eqTy] at ht
    | map _ => simp [eqTy] at ht
    | object _ _ _ => simp [eqTy] at ht
    | capsule _ => simp [eqTy] at ht

/-! ### the object branch -/

theorem eqAccOf_cases_weak {r' : Value} {x : Bool} (h : r' = unkBool ∨ r' = boolVal x) :
    eqAccOf (.ok r') = .ok .u ∨ eqAccOf (.ok r') = .ok (if x then .t else .f) := by
  rcases h with rfl | rfl
  · exact Or.inl eqAccOf_unkBool
  · exact Or.inr (eqAccOf_boolVal x)

/-- once an unknown comparison has been seen, the weakened object comparison still
terminates, with "unknown" or a definite False -/
theorem equalsObj_weak_tail {rec : EqRec} {d : Nat} (ih : EqIH rec) (htot : RecTotal rec d) :
    ∀ (ts : List Ty) (os1 os2 ws1 ws2 : List Payload), eqTyL ts = true →
    wtZip ts os1 = true → wtZip ts os2 = true → wtZip ts ws1 = true → wtZip ts ws2 = true →
    Payload.whollyKnownL os1 = true → Payload.whollyKnownL os2 = true →
    coversL true ws1 os1 = true → coversL true ws2 os2 = true → Payload.depthL os1 ≤ d → Payload.depthL os2 ≤ d →
    ∃ acc', equalsObj rec ts ws1 ws2 true = .ok acc' ∧ (acc' = .u ∨ acc' = .f)
  | [], _, _, ws1, ws2, _, _, _, _, _, _, _, _, _, _, _ => ⟨.u, by cases ws1 <;> cases ws2 <;> simp [equalsObj], Or.inl rfl⟩
  | _ :: _, [], _, _, _, _, h, _, _, _, _, _, _, _, _, _ => by simp [wtZip] at h
  | _ :: _, _ :: _, [], _, _, _, _, h, _, _, _, _, _, _, _, _ => by simp [wtZip] at h
  | _ :: _, _ :: _, _ :: _, [], _, _, _, _, h, _, _, _, _, _, _, _ => by simp [wtZip] at h
  | _ :: _, _ :: _, _ :: _, _ :: _, [], _, _, _, _, h, _, _, _, _, _, _ => by simp [wtZip] at h
  | t :: ts, o1 :: os1, o2 :: os2, w1 :: ws1, w2 :: ws2, ht, ho1, ho2, hw1, hw2, hk1, hk2, hc1, hc2, hd1, hd2 => by
    simp only [eqTyL, Bool.and_eq_true] at ht
    simp only [wtZip, Bool.and_eq_true] at ho1 ho2 hw1 hw2
    simp only [Payload.whollyKnownL, Bool.and_eq_true] at hk1 hk2
    simp only [coversL, Bool.and_eq_true] at hc1 hc2
    simp only [Payload.depthL] at hd1 hd2
    obtain ⟨x, hx⟩ := htot t o1 o2 ht.1 ho1.1 ho2.1 hk1.1 hk2.1 (by omega) (by omega)
    obtain ⟨r', hr', hor⟩ := ih t t o1 o2 w1 w2 _ ht.1 ht.1 ho1.1 ho2.1 hw1.1 hw2.1 hk1.1 hk2.1 hc1.1 hc2.1 hx
    have tail := equalsObj_weak_tail ih htot ts os1 os2 ws1 ws2 ht.2 ho1.2 ho2.2 hw1.2 hw2.2 hk1.2 hk2.2 hc1.2 hc2.2
      (by omega) (by omega)
    simp only [equalsObj, hr']
    rcases eqAccOf_cases_weak hor with h | h
    · rw [h]; exact tail
    · rw [h]
      cases x
      · exact ⟨.f, rfl, Or.inr rfl⟩
      · exact tail

theorem equalsObj_sound {rec : EqRec} {d : Nat} (ih : EqIH rec) (htot : RecTotal rec d) :
    ∀ (ts : List Ty) (os1 os2 ws1 ws2 : List Payload) (s s' : Bool) (acc : EqAcc), eqTyL ts = true →
    wtZip ts os1 = true → wtZip ts os2 = true → wtZip ts ws1 = true → wtZip ts ws2 = true →
    Payload.whollyKnownL os1 = true → Payload.whollyKnownL os2 = true →
    coversL true ws1 os1 = true → coversL true ws2 os2 = true → Payload.depthL os1 ≤ d → Payload.depthL os2 ≤ d →
    (s = true → s' = true) → equalsObj rec ts os1 os2 s = .ok acc →
    ∃ acc', equalsObj rec ts ws1 ws2 s' = .ok acc' ∧ (acc' = .u ∨ acc' = acc)
  | [], os1, os2, ws1, ws2, s, s', acc, _, _, _, _, _, _, _, _, _, _, _, hs, h => by
    have e1 : equalsObj rec [] os1 os2 s = .ok (if s then .u else .t) := by cases os1 <;> cases os2 <;> simp [equalsObj]
    have e2 : equalsObj rec [] ws1 ws2 s' = .ok (if s' then .u else .t) := by cases ws1 <;> cases ws2 <;> simp [equalsObj]
    rw [e1] at h; cases h
    rw [e2]
    cases s <;> cases s' <;> simp_all
  | _ :: _, [], _, _, _, _, _, _, _, h, _, _, _, _, _, _, _, _, _, _, _ => by simp [wtZip] at h
  | _ :: _, _ :: _, [], _, _, _, _, _, _, _, h, _, _, _, _, _, _, _, _, _, _ => by simp [wtZip] at h
  | _ :: _, _ :: _, _ :: _, [], _, _, _, _, _, _, _, h, _, _, _, _, _, _, _, _, _ => by simp [wtZip] at h
  | _ :: _, _ :: _, _ :: _, _ :: _, [], _, _, _, _, _, _, _, h, _, _, _, _, _, _, _, _ => by simp [wtZip] at h
  | t :: ts, o1 :: os1, o2 :: os2, w1 :: ws1, w2 :: ws2, s, s', acc, ht, ho1, ho2, hw1, hw2, hk1, hk2, hc1, hc2, hd1, hd2, hs, h => by
    simp only [eqTyL, Bool.and_eq_true] at ht
    simp only [wtZip, Bool.and_eq_true] at ho1 ho2 hw1 hw2
    simp only [Payload.whollyKnownL, Bool.and_eq_true] at hk1 hk2
    simp only [coversL, Bool.and_eq_true] at hc1 hc2
    simp only [Payload.depthL] at hd1 hd2
    obtain ⟨x, hx⟩ := htot t o1 o2 ht.1 ho1.1 ho2.1 hk1.1 hk2.1 (by omega) (by omega)
    obtain ⟨r', hr', hor⟩ := ih t t o1 o2 w1 w2 _ ht.1 ht.1 ho1.1 ho2.1 hw1.1 hw2.1 hk1.1 hk2.1 hc1.1 hc2.1 hx
    simp only [equalsObj, hx, eqAccOf_boolVal] at h
    simp only [equalsObj, hr']
    cases x
    · -- the concrete comparison is decided here: False
      simp only [Bool.false_eq_true, if_false, Res.ok.injEq] at h
      subst h
      rcases eqAccOf_cases_weak hor with e | e
      · rw [e]
        exact equalsObj_weak_tail ih htot ts os1 os2 ws1 ws2 ht.2 ho1.2 ho2.2 hw1.2 hw2.2 hk1.2 hk2.2 hc1.2 hc2.2 (by omega) (by omega)
      · rw [e]; exact ⟨.f, rfl, Or.inr rfl⟩
    · simp only [if_true] at h
      rcases eqAccOf_cases_weak hor with e | e
      · rw [e]
        exact equalsObj_sound ih htot ts os1 os2 ws1 ws2 s true acc ht.2 ho1.2 ho2.2 hw1.2 hw2.2 hk1.2 hk2.2 hc1.2 hc2.2
          (by omega) (by omega) (fun _ => rfl) h
      · rw [e]
        exact equalsObj_sound ih htot ts os1 os2 ws1 ws2 s s' acc ht.2 ho1.2 ho2.2 hw1.2 hw2.2 hk1.2 hk2.2 hc1.2 hc2.2
          (by omega) (by omega) hs h

theorem equalsObj_congr {rec rec' : EqRec} (dx dy : Nat)
    (h : ∀ t x y, eqTy t = true → x.depth ≤ dx → y.depth ≤ dy → rec t x t y = rec' t x t y) :
    ∀ (ts : List Ty) (xs ys : List Payload) (s : Bool), eqTyL ts = true → Payload.depthL xs ≤ dx → Payload.depthL ys ≤ dy →
      equalsObj rec ts xs ys s = equalsObj rec' ts xs ys s
  | [], xs, ys, s, _, _, _ => by cases xs <;> cases ys <;> simp [equalsObj]
  | t :: ts, [], ys, s, _, _, _ => by simp [equalsObj]
  | t :: ts, x :: xs, [], s, _, _, _ => by simp [equalsObj]
  | t :: ts, x :: xs, y :: ys, s, ht, hx, hy => by
    simp only [Payload.depthL] at hx hy
    simp only [eqTyL, Bool.and_eq_true] at ht
    simp only [equalsObj]
    rw [h t x y ht.1 (by omega) (by omega), equalsObj_congr dx dy h ts xs ys s ht.2 (by omega) (by omega),
      equalsObj_congr dx dy h ts xs ys true ht.2 (by omega) (by omega)]

/-- the object branch of `equalsFuel` on two known, non-null object payloads of one type -/
theorem equalsFuel_object {n : Nat} {ns : List String} {ts : List Ty} {opt : List Bool} {k1 k2 : List String}
    {xs ys : List Payload} (hwf : (Ty.object ns ts opt).wf = true) (hts : eqTyL ts = true)
    (h1 : wtZip ts xs = true) (h2 : wtZip ts ys = true) :
    equalsFuel (n + 1) (.object ns ts opt) (.smap k1 xs) (.object ns ts opt) (.smap k2 ys) =
      (equalsObj (equalsFuel n) ts xs ys false).map accVal := by
  unfold equalsFuel
  rw [equalsPre_both_known (isKnown_of_pKnown (by rfl)) (isKnown_of_pKnown (by rfl))]
  simp only [isNull_val (t := .object ns ts opt) (p := .smap k1 xs) (by rfl),
    isNull_val (t := .object ns ts opt) (p := .smap k2 ys) (by rfl), pNull, Bool.false_eq_true, if_false]
  simp only [hasWhollyKnownType, hwktZip_of_frag ts xs hts h1, hwktZip_of_frag ts ys hts h2, Bool.not_true, Bool.or_self,
    Bool.false_eq_true, if_false, ty_equals_self hwf]

theorem depth_smap (ks : List String) (vs : List Payload) : (Payload.smap ks vs).depth = Payload.depthL vs + 1 := by
  simp [Payload.depth]

/-- objects whose attribute types are in the fragment, members weakened in place -/
theorem equalsP_object_sound {ns : List String} {ts : List Ty} {opt : List Bool} {k1 k2 k1' k2' : List String}
    {xs ys ws1 ws2 : List Payload} {x : Bool} (hwf : (Ty.object ns ts opt).wf = true) (hts : eqTyL ts = true)
    (ho1 : wtZip ts xs = true) (ho2 : wtZip ts ys = true) (hw1 : wtZip ts ws1 = true) (hw2 : wtZip ts ws2 = true)
    (hk1 : Payload.whollyKnownL xs = true) (hk2 : Payload.whollyKnownL ys = true)
    (hc1 : coversL true ws1 xs = true) (hc2 : coversL true ws2 ys = true)
    (h : equalsP (.object ns ts opt) (.smap k1 xs) (.object ns ts opt) (.smap k2 ys) = .ok (boolVal x)) :
    ∃ r', equalsP (.object ns ts opt) (.smap k1' ws1) (.object ns ts opt) (.smap k2' ws2) = .ok r' ∧
      (r' = unkBool ∨ r' = boolVal x) := by
  unfold equalsP at h ⊢
  rw [equalsFuel_object hwf hts ho1 ho2] at h
  rw [equalsFuel_object hwf hts hw1 hw2]
  simp only [depth_smap] at h ⊢
  obtain ⟨acc, hacc, hx⟩ := res_map_ok h
  generalize hN : max (Payload.depthL xs + 1) (Payload.depthL ys + 1) = N at hacc
  generalize hN' : max (Payload.depthL ws1 + 1) (Payload.depthL ws2 + 1) = N'
  have stab : ∀ (a b : Nat) (t : Ty) (p q : Payload), eqTy t = true → p.depth ≤ a → q.depth ≤ a → p.depth ≤ b → q.depth ≤ b →
      equalsFuel a t p t q = equalsFuel b t p t q := fun a b t p q ht => equalsFuel_stable a b t p t q ht
  have c1 := equalsObj_congr (rec := equalsFuel N) (rec' := equalsFuel (max N N')) (Payload.depthL xs) (Payload.depthL ys)
    (fun t p q ht hp hq => stab N (max N N') t p q ht (by omega) (by omega) (by omega) (by omega)) ts xs ys false hts
    (Nat.le_refl _) (Nat.le_refl _)
  have c2 := equalsObj_congr (rec := equalsFuel N') (rec' := equalsFuel (max N N')) (Payload.depthL ws1) (Payload.depthL ws2)
    (fun t p q ht hp hq => stab N' (max N N') t p q ht (by omega) (by omega) (by omega) (by omega)) ts ws1 ws2 false hts
    (Nat.le_refl _) (Nat.le_refl _)
  rw [c1] at hacc
  rw [c2]
  obtain ⟨acc', hacc', hor⟩ := equalsObj_sound (eqF_sound (max N N')) (eqF_total (max N N')) ts xs ys ws1 ws2 false false acc hts
    ho1 ho2 hw1 hw2 hk1 hk2 hc1 hc2 (by omega) (by omega) (fun h => h) hacc
  rw [hacc']
  refine ⟨_, rfl, ?_⟩
  rcases hor with rfl | rfl
  · exact Or.inl rfl
  · exact Or.inr hx.symm

/-! ### from payloads to `Value.equals` -/

theorem equals_lift (o₁ o₂ w₁ w₂ r : Value) (hk₁ : o₁.whollyKnown = true) (hk₂ : o₂.whollyKnown = true)
    (hP : ∀ x, equalsP o₁.ty o₁.v.stripMarks o₂.ty o₂.v.stripMarks = .ok (boolVal x) →
      ∃ r', equalsP w₁.ty w₁.v.stripMarks w₂.ty w₂.v.stripMarks = .ok r' ∧ (r' = unkBool ∨ r' = boolVal x))
    (ho : Value.equals o₁ o₂ = .ok r) : ∃ r', Value.equals w₁ w₂ = .ok r' ∧ Covers r' r = true := by
  have hks1 : o₁.v.stripMarks.whollyKnown = true := by rw [wk_stripMarks]; exact hk₁
  have hks2 : o₂.v.stripMarks.whollyKnown = true := by rw [wk_stripMarks]; exact hk₂
  have hconc : ∃ x, equalsP o₁.ty o₁.v.stripMarks o₂.ty o₂.v.stripMarks = .ok (boolVal x) ∧
      (r = boolVal x ∨ ∃ ms, r = (boolVal x).withMarks ms) := by
    obtain ⟨ms, h | h⟩ := equals_strip o₁ o₂
    · rw [h] at ho
      obtain ⟨r0, h0, rfl⟩ := res_map_ok ho
      obtain ⟨x, rfl⟩ := equalsFuel_conc_bool hks1 hks2 h0
      exact ⟨x, h0, Or.inr ⟨ms, rfl⟩⟩
    · rw [h] at ho
      obtain ⟨x, rfl⟩ := equalsFuel_conc_bool hks1 hks2 ho
      exact ⟨x, ho, Or.inl rfl⟩
  obtain ⟨x, hX, hr⟩ := hconc
  obtain ⟨r', hr', hor⟩ := hP x hX
  have hcov : Covers r' (boolVal x) = true := by
    rcases hor with rfl | rfl
    · exact covers_unkBool_boolVal x
    · exact covers_boolVal_self x
  obtain ⟨ms, h | h⟩ := equals_strip w₁ w₂
  · refine ⟨r'.withMarks ms, by rw [h]; simp only [hr']; rfl, ?_⟩
    rw [covers_withMarks_left]
    rcases hr with rfl | ⟨ms', rfl⟩
    · exact hcov
    · rw [covers_withMarks_right]; exact hcov
  · refine ⟨r', by rw [h]; exact hr', ?_⟩
    rcases hr with rfl | ⟨ms', rfl⟩
    · exact hcov
    · rw [covers_withMarks_right]; exact hcov

/-- an object operand over the fragment: a well-formed object type whose attribute
types are primitives / lists / tuples, a known non-null payload with one member per
attribute, as the types dictate, numbers integers -/
def EqObjOperand (o : Value) : Prop :=
  ∃ ns ts opt ks vs, o.ty = .object ns ts opt ∧ (Ty.object ns ts opt).wf = true ∧ eqTyL ts = true ∧
    o.v.stripMarks = .smap ks vs ∧ wtZip ts vs = true

/-- its weakening in place: same type, a known payload whose members may be unknown (well-kinded refinements) -/
def EqObjWeak (w o : Value) : Prop :=
  w.ty = o.ty ∧ ∃ ks ws, w.v.stripMarks = .smap ks ws ∧ ∀ ns ts opt, o.ty = .object ns ts opt → wtZip ts ws = true

theorem equals_sound_object (o₁ o₂ w₁ w₂ r : Value) (hk₁ : o₁.whollyKnown = true) (hk₂ : o₂.whollyKnown = true)
    (hf₁ : EqObjOperand o₁) (hf₂ : EqObjOperand o₂) (hty : o₁.ty = o₂.ty) (hw₁ : EqObjWeak w₁ o₁) (hw₂ : EqObjWeak w₂ o₂)
    (hc₁ : CoversX w₁ o₁ = true) (hc₂ : CoversX w₂ o₂ = true) (ho : Value.equals o₁ o₂ = .ok r) :
    ∃ r', Value.equals w₁ w₂ = .ok r' ∧ Covers r' r = true := by
  obtain ⟨to1, po1⟩ := o₁
  obtain ⟨to2, po2⟩ := o₂
  obtain ⟨tw1, pw1⟩ := w₁
  obtain ⟨tw2, pw2⟩ := w₂
  obtain ⟨ns, ts, opt, k1, xs, e1, hwf, hts, p1, wt1⟩ := hf₁
  obtain ⟨ns2, ts2, opt2, k2, ys, e2, _, _, p2, wt2⟩ := hf₂
  obtain ⟨t1, k1', ws1, q1, wq1⟩ := hw₁
  obtain ⟨t2, k2', ws2, q2, wq2⟩ := hw₂
  simp only at e1 e2 hty t1 t2 p1 p2 q1 q2 wq1 wq2
  subst t1 t2 hty e1
  cases e2
  have hks1 : Payload.whollyKnownL xs = true := by
    have : po1.stripMarks.whollyKnown = true := by rw [wk_stripMarks]; exact hk₁
    rw [p1] at this; simpa [Payload.whollyKnown] using this
  have hks2 : Payload.whollyKnownL ys = true := by
    have : po2.stripMarks.whollyKnown = true := by rw [wk_stripMarks]; exact hk₂
    rw [p2] at this; simpa [Payload.whollyKnown] using this
  simp only [CoversX, CoversG, Bool.and_eq_true] at hc₁ hc₂
  have cl1 : coversL true ws1 xs = true := by
    have := hc₁.2; rw [q1, p1] at this; simp only [coversP, Bool.and_eq_true] at this; exact this.2
  have cl2 : coversL true ws2 ys = true := by
    have := hc₂.2; rw [q2, p2] at this; simp only [coversP, Bool.and_eq_true] at this; exact this.2
  apply equals_lift _ _ _ _ r hk₁ hk₂ _ ho
  intro x hX
  simp only [p1, p2] at hX
  simp only [q1, q2]
  exact equalsP_object_sound hwf hts wt1 wt2 (wq1 ns ts opt rfl) (wq2 ns ts opt rfl) hks1 hks2 cl1 cl2 hX

/-! ### the map branch -/

theorem lookup_wt {e : Ty} {k : String} : ∀ {ks : List String} {vs : List Payload} {p : Payload},
    wtAll e vs = true → lookupKey k ks vs = some p → wt e p = true
  | [], vs, p, _, h => by cases vs <;> simp [lookupKey] at h
  | _ :: _, [], p, _, h => by simp [lookupKey] at h
  | n :: ns, v :: vs, p, hw, h => by
    simp only [wtAll, Bool.and_eq_true] at hw
    simp only [lookupKey] at h
    split at h
    · cases h; exact hw.1
    · exact lookup_wt hw.2 h

theorem lookup_depth {k : String} : ∀ {ks : List String} {vs : List Payload} {p : Payload},
    lookupKey k ks vs = some p → p.depth ≤ Payload.depthL vs
  | [], vs, p, h => by cases vs <;> simp [lookupKey] at h
  | _ :: _, [], p, h => by simp [lookupKey] at h
  | n :: ns, v :: vs, p, h => by
    simp only [lookupKey] at h
    simp only [Payload.depthL]
    split at h
    · cases h; omega
    · have := lookup_depth h; omega

theorem equalsMap_weak_tail {rec : EqRec} {d : Nat} (ih : EqIH rec) (htot : RecTotal rec d) (e : Ty) (he : eqTy e = true)
    (ky : List String) (ys ws2 : List Payload) (hy : wtAll e ys = true) (hwy : wtAll e ws2 = true)
    (hky : Payload.whollyKnownL ys = true) (hcy : coversL true ws2 ys = true) (hdy : Payload.depthL ys ≤ d) :
    ∀ (kx : List String) (xs ws1 : List Payload), wtAll e xs = true → wtAll e ws1 = true →
    Payload.whollyKnownL xs = true → coversL true ws1 xs = true → Payload.depthL xs ≤ d →
    ∃ acc', equalsMap rec e kx ws1 ky ws2 true = .ok acc' ∧ (acc' = .u ∨ acc' = .f)
  | [], _, ws1, _, _, _, _, _ => ⟨.u, by cases ws1 <;> simp [equalsMap], Or.inl rfl⟩
  | _ :: _, _, [], _, _, _, _, _ => ⟨.u, by simp [equalsMap], Or.inl rfl⟩
  | k :: kx, [], _ :: _, _, _, _, hc, _ => by simp [coversL] at hc
  | k :: kx, x :: xs, w1 :: ws1, hx, hw, hk, hc, hd => by
    simp only [wtAll, Bool.and_eq_true] at hx hw
    simp only [Payload.whollyKnownL, Bool.and_eq_true] at hk
    simp only [coversL, Bool.and_eq_true] at hc
    simp only [Payload.depthL] at hd
    have tail := equalsMap_weak_tail ih htot e he ky ys ws2 hy hwy hky hcy hdy kx xs ws1 hx.2 hw.2 hk.2 hc.2 (by omega)
    simp only [equalsMap]
    have hl := coversL_lookup k (ks := ky) hcy
    cases hly : lookupKey k ky ys with
    | none =>
      rw [hly] at hl; simp only at hl
      rw [hl]; exact ⟨.f, rfl, Or.inr rfl⟩
    | some y =>
      rw [hly] at hl; simp only at hl
      obtain ⟨w2, hlw, hcw⟩ := hl
      rw [hlw]
      simp only
      have hyd := lookup_depth hly
      obtain ⟨b, hb⟩ := htot e x y he hx.1 (lookup_wt hy hly) hk.1 (wkL_lookupKey hky hly) (by omega) (by omega)
      obtain ⟨r', hr', hor⟩ := ih e e x y w1 w2 _ he he hx.1 (lookup_wt hy hly) hw.1 (lookup_wt hwy hlw) hk.1
        (wkL_lookupKey hky hly) hc.1 hcw hb
      rw [hr']
      rcases eqAccOf_cases_weak hor with h | h
      · rw [h]; exact tail
      · rw [h]
        cases b
        · exact ⟨.f, rfl, Or.inr rfl⟩
        · exact tail

theorem equalsMap_sound {rec : EqRec} {d : Nat} (ih : EqIH rec) (htot : RecTotal rec d) (e : Ty) (he : eqTy e = true)
    (ky : List String) (ys ws2 : List Payload) (hy : wtAll e ys = true) (hwy : wtAll e ws2 = true)
    (hky : Payload.whollyKnownL ys = true) (hcy : coversL true ws2 ys = true) (hdy : Payload.depthL ys ≤ d) :
    ∀ (kx : List String) (xs ws1 : List Payload) (s s' : Bool) (acc : EqAcc), wtAll e xs = true → wtAll e ws1 = true →
    Payload.whollyKnownL xs = true → coversL true ws1 xs = true → Payload.depthL xs ≤ d →
    (s = true → s' = true) → equalsMap rec e kx xs ky ys s = .ok acc →
    ∃ acc', equalsMap rec e kx ws1 ky ws2 s' = .ok acc' ∧ (acc' = .u ∨ acc' = acc)
  | [], xs, ws1, s, s', acc, _, _, _, _, _, hs, h => by
    have e1 : equalsMap rec e [] xs ky ys s = .ok (if s then .u else .t) := by cases xs <;> simp [equalsMap]
    have e2 : equalsMap rec e [] ws1 ky ws2 s' = .ok (if s' then .u else .t) := by cases ws1 <;> simp [equalsMap]
    rw [e1] at h; cases h
    rw [e2]
    cases s <;> cases s' <;> simp_all
  | k :: kx, [], ws1, s, s', acc, _, _, _, hc, _, hs, h => by
    cases ws1 <;> simp [coversL] at hc
    simp only [equalsMap, Res.ok.injEq] at h ⊢
    subst h
    cases s <;> cases s' <;> simp_all
  | k :: kx, x :: xs, [], _, _, _, _, _, _, hc, _, _, _ => by simp [coversL] at hc
  | k :: kx, x :: xs, w1 :: ws1, s, s', acc, hx, hw, hk, hc, hd, hs, h => by
    simp only [wtAll, Bool.and_eq_true] at hx hw
    simp only [Payload.whollyKnownL, Bool.and_eq_true] at hk
    simp only [coversL, Bool.and_eq_true] at hc
    simp only [Payload.depthL] at hd
    simp only [equalsMap] at h ⊢
    have hl := coversL_lookup k (ks := ky) hcy
    cases hly : lookupKey k ky ys with
    | none =>
      rw [hly] at hl h; simp only at hl h
      rw [hl]; exact ⟨.f, rfl, Or.inr (by cases h; rfl)⟩
    | some y =>
      rw [hly] at hl h; simp only at hl h
      obtain ⟨w2, hlw, hcw⟩ := hl
      rw [hlw]
      simp only
      have hyd := lookup_depth hly
      obtain ⟨b, hb⟩ := htot e x y he hx.1 (lookup_wt hy hly) hk.1 (wkL_lookupKey hky hly) (by omega) (by omega)
      obtain ⟨r', hr', hor⟩ := ih e e x y w1 w2 _ he he hx.1 (lookup_wt hy hly) hw.1 (lookup_wt hwy hlw) hk.1
        (wkL_lookupKey hky hly) hc.1 hcw hb
      rw [hb, eqAccOf_boolVal] at h
      rw [hr']
      cases b
      · simp only [Bool.false_eq_true, if_false, Res.ok.injEq] at h
        subst h
        rcases eqAccOf_cases_weak hor with e' | e'
        · rw [e']
          exact equalsMap_weak_tail ih htot e he ky ys ws2 hy hwy hky hcy hdy kx xs ws1 hx.2 hw.2 hk.2 hc.2 (by omega)
        · rw [e']; exact ⟨.f, rfl, Or.inr rfl⟩
      · simp only [if_true] at h
        rcases eqAccOf_cases_weak hor with e' | e'
        · rw [e']
          exact equalsMap_sound ih htot e he ky ys ws2 hy hwy hky hcy hdy kx xs ws1 s true acc hx.2 hw.2 hk.2 hc.2 (by omega)
            (fun _ => rfl) h
        · rw [e']
          exact equalsMap_sound ih htot e he ky ys ws2 hy hwy hky hcy hdy kx xs ws1 s s' acc hx.2 hw.2 hk.2 hc.2 (by omega) hs h

theorem equalsMap_congr {rec rec' : EqRec} (dx dy : Nat) (e : Ty) (he : eqTy e = true)
    (h : ∀ t x y, eqTy t = true → x.depth ≤ dx → y.depth ≤ dy → rec t x t y = rec' t x t y)
    (ky : List String) (ys : List Payload) (hys : Payload.depthL ys ≤ dy) :
    ∀ (kx : List String) (xs : List Payload) (s : Bool), Payload.depthL xs ≤ dx →
      equalsMap rec e kx xs ky ys s = equalsMap rec' e kx xs ky ys s
  | [], xs, s, _ => by cases xs <;> simp [equalsMap]
  | k :: kx, [], s, _ => by simp [equalsMap]
  | k :: kx, x :: xs, s, hx => by
    simp only [Payload.depthL] at hx
    simp only [equalsMap]
    cases hly : lookupKey k ky ys with
    | none => rfl
    | some y =>
      have := lookup_depth hly
      simp only
      rw [h e x y he (by omega) (by omega), equalsMap_congr dx dy e he h ky ys hys kx xs s (by omega),
        equalsMap_congr dx dy e he h ky ys hys kx xs true (by omega)]

theorem equalsFuel_map {n : Nat} {e : Ty} {k1 k2 : List String} {xs ys : List Payload} (he : eqTy e = true)
    (h1 : wtAll e xs = true) (h2 : wtAll e ys = true) :
    equalsFuel (n + 1) (.map e) (.smap k1 xs) (.map e) (.smap k2 ys) =
      (if xs.length == ys.length then (equalsMap (equalsFuel n) e k1 xs k2 ys false).map accVal else .ok (boolVal false)) := by
  unfold equalsFuel
  rw [equalsPre_both_known (isKnown_of_pKnown (by rfl)) (isKnown_of_pKnown (by rfl))]
  simp only [isNull_val (t := .map e) (p := .smap k1 xs) (by rfl),
    isNull_val (t := .map e) (p := .smap k2 ys) (by rfl), pNull, Bool.false_eq_true, if_false]
  have hwf : (Ty.map e).wf = true := by simpa [Ty.wf] using eqTy_wf e he
  simp only [hasWhollyKnownType, hwktAll_of_frag e xs he h1, hwktAll_of_frag e ys he h2, Bool.not_true, Bool.or_self,
    Bool.false_eq_true, if_false, ty_equals_self hwf]

/-- maps whose element type is in the fragment, elements weakened in place -/
theorem equalsP_map_sound {e : Ty} {k1 k2 : List String} {xs ys ws1 ws2 : List Payload} {x : Bool} (he : eqTy e = true)
    (ho1 : wtAll e xs = true) (ho2 : wtAll e ys = true) (hw1 : wtAll e ws1 = true) (hw2 : wtAll e ws2 = true)
    (hk1 : Payload.whollyKnownL xs = true) (hk2 : Payload.whollyKnownL ys = true)
    (hc1 : coversL true ws1 xs = true) (hc2 : coversL true ws2 ys = true)
    (h : equalsP (.map e) (.smap k1 xs) (.map e) (.smap k2 ys) = .ok (boolVal x)) :
    ∃ r', equalsP (.map e) (.smap k1 ws1) (.map e) (.smap k2 ws2) = .ok r' ∧ (r' = unkBool ∨ r' = boolVal x) := by
  unfold equalsP at h ⊢
  rw [equalsFuel_map he ho1 ho2] at h
  rw [equalsFuel_map he hw1 hw2]
  simp only [depth_smap] at h ⊢
  rw [coversL_length hc1, coversL_length hc2]
  by_cases hl : (xs.length == ys.length) = true
  · simp only [hl, if_true] at h ⊢
    obtain ⟨acc, hacc, hx⟩ := res_map_ok h
    generalize hN : max (Payload.depthL xs + 1) (Payload.depthL ys + 1) = N at hacc
    generalize hN' : max (Payload.depthL ws1 + 1) (Payload.depthL ws2 + 1) = N'
    have stab : ∀ (a b : Nat) (t : Ty) (p q : Payload), eqTy t = true → p.depth ≤ a → q.depth ≤ a → p.depth ≤ b → q.depth ≤ b →
        equalsFuel a t p t q = equalsFuel b t p t q := fun a b t p q ht => equalsFuel_stable a b t p t q ht
    have c1 := equalsMap_congr (rec := equalsFuel N) (rec' := equalsFuel (max N N')) (Payload.depthL xs) (Payload.depthL ys) e he
      (fun t p q ht hp hq => stab N (max N N') t p q ht (by omega) (by omega) (by omega) (by omega)) k2 ys (Nat.le_refl _)
      k1 xs false (Nat.le_refl _)
    have c2 := equalsMap_congr (rec := equalsFuel N') (rec' := equalsFuel (max N N')) (Payload.depthL ws1) (Payload.depthL ws2) e he
      (fun t p q ht hp hq => stab N' (max N N') t p q ht (by omega) (by omega) (by omega) (by omega)) k2 ws2 (Nat.le_refl _)
      k1 ws1 false (Nat.le_refl _)
    rw [c1] at hacc
    rw [c2]
    obtain ⟨acc', hacc', hor⟩ := equalsMap_sound (eqF_sound (max N N')) (eqF_total (max N N')) e he k2 ys ws2 ho2 hw2 hk2 hc2
      (by omega) k1 xs ws1 false false acc ho1 hw1 hk1 hc1 (by omega) (fun h => h) hacc
    rw [hacc']
    refine ⟨_, rfl, ?_⟩
    rcases hor with rfl | rfl
    · exact Or.inl rfl
    · exact Or.inr hx.symm
  · simp only [hl, Bool.false_eq_true, if_false] at h ⊢
    exact ⟨_, rfl, Or.inr (by cases h; rfl)⟩

/-- a map operand over the fragment: element type a primitive / list / tuple type, a
known non-null payload, elements as the type dictates, numbers integers -/
def EqMapOperand (o : Value) : Prop :=
  ∃ e ks vs, o.ty = .map e ∧ eqTy e = true ∧ o.v.stripMarks = .smap ks vs ∧ wtAll e vs = true

/-- its weakening in place: same type, a known payload whose elements may be unknown (well-kinded refinements) -/
def EqMapWeak (w o : Value) : Prop :=
  w.ty = o.ty ∧ ∃ ks ws, w.v.stripMarks = .smap ks ws ∧ ∀ e, o.ty = .map e → wtAll e ws = true

theorem equals_sound_map (o₁ o₂ w₁ w₂ r : Value) (hk₁ : o₁.whollyKnown = true) (hk₂ : o₂.whollyKnown = true)
    (hf₁ : EqMapOperand o₁) (hf₂ : EqMapOperand o₂) (hty : o₁.ty = o₂.ty) (hw₁ : EqMapWeak w₁ o₁) (hw₂ : EqMapWeak w₂ o₂)
    (hc₁ : CoversX w₁ o₁ = true) (hc₂ : CoversX w₂ o₂ = true) (ho : Value.equals o₁ o₂ = .ok r) :
    ∃ r', Value.equals w₁ w₂ = .ok r' ∧ Covers r' r = true := by
  obtain ⟨to1, po1⟩ := o₁
  obtain ⟨to2, po2⟩ := o₂
  obtain ⟨tw1, pw1⟩ := w₁
  obtain ⟨tw2, pw2⟩ := w₂
  obtain ⟨e, k1, xs, e1, he, p1, wt1⟩ := hf₁
  obtain ⟨e', k2, ys, e2, _, p2, wt2⟩ := hf₂
  obtain ⟨t1, k1', ws1, q1, wq1⟩ := hw₁
  obtain ⟨t2, k2', ws2, q2, wq2⟩ := hw₂
  simp only at e1 e2 hty t1 t2 p1 p2 q1 q2 wq1 wq2
  subst t1 t2 hty e1
  cases e2
  have hks1 : Payload.whollyKnownL xs = true := by
    have : po1.stripMarks.whollyKnown = true := by rw [wk_stripMarks]; exact hk₁
    rw [p1] at this; simpa [Payload.whollyKnown] using this
  have hks2 : Payload.whollyKnownL ys = true := by
    have : po2.stripMarks.whollyKnown = true := by rw [wk_stripMarks]; exact hk₂
    rw [p2] at this; simpa [Payload.whollyKnown] using this
  simp only [CoversX, CoversG, Bool.and_eq_true] at hc₁ hc₂
  have cl1 : k1' = k1 ∧ coversL true ws1 xs = true := by
    have := hc₁.2; rw [q1, p1] at this; simp only [coversP, Bool.and_eq_true, beq_iff_eq] at this; exact this
  have cl2 : k2' = k2 ∧ coversL true ws2 ys = true := by
    have := hc₂.2; rw [q2, p2] at this; simp only [coversP, Bool.and_eq_true, beq_iff_eq] at this; exact this
  obtain ⟨rfl, cl1⟩ := cl1
  obtain ⟨rfl, cl2⟩ := cl2
  apply equals_lift _ _ _ _ r hk₁ hk₂ _ ho
  intro x hX
  simp only [p1, p2] at hX
  simp only [q1, q2]
  exact equalsP_map_sound he wt1 wt2 (wq1 e rfl) (wq2 e rfl) hks1 hks2 cl1 cl2 hX

end CtyModel
