/-
C01 for the derived operations: `NotEqual` = `Equals(…).Not()`,
`LessThanOrEqualTo` / `GreaterThanOrEqualTo` = comparison `.Or(Equals(…))`.
Their soundness is the composition of the soundness of their parts; the
intermediate results are booleans (`Boolish`), for which exact coverage and
coverage coincide.
-/
import CtyModel.Lemmas.OpsEquals
namespace CtyModel
open Value Cov NumCmp


/-- a boolean answer of an operation: True, False or the not-null unknown boolean, possibly marked -/
def Boolish (r : Value) : Prop := ∃ r0, (r0 = unkBool ∨ ∃ x, r0 = boolVal x) ∧ (r = r0 ∨ ∃ ms, r = r0.withMarks ms)

theorem lessThanU_result {a b r : Value} (h : lessThanU a b = .ok r) : r = unkBool ∨ ∃ x, r = boolVal x := by
  unfold lessThanU at h
  obtain ⟨tc, _, h⟩ := Res.bind_eq_ok.mp h
  cases tc <;> simp only at h
  · obtain ⟨x, _, h⟩ := Res.bind_eq_ok.mp h
    obtain ⟨y, _, h⟩ := Res.bind_eq_ok.mp h
    cases h; exact Or.inr ⟨_, rfl⟩
  all_goals
    obtain ⟨s, _, h⟩ := Res.bind_eq_ok.mp h
    cases s <;> cases h <;> first | exact Or.inl rfl | exact Or.inr ⟨_, rfl⟩

theorem greaterThanU_result {a b r : Value} (h : greaterThanU a b = .ok r) : r = unkBool ∨ ∃ x, r = boolVal x := by
  rw [greaterThanU_eq] at h
  obtain ⟨tc, _, h⟩ := Res.bind_eq_ok.mp h
  cases tc <;> simp only at h
  · obtain ⟨x, _, h⟩ := Res.bind_eq_ok.mp h
    obtain ⟨y, _, h⟩ := Res.bind_eq_ok.mp h
    cases h; exact Or.inr ⟨_, rfl⟩
  all_goals
    unfold gtShort at h
    obtain ⟨ra, _, h⟩ := Res.bind_eq_ok.mp h
    obtain ⟨rb, _, h⟩ := Res.bind_eq_ok.mp h
    split at h
    · obtain ⟨a1, _, h⟩ := Res.bind_eq_ok.mp h
      obtain ⟨a2, _, h⟩ := Res.bind_eq_ok.mp h
      obtain ⟨a3, _, h⟩ := Res.bind_eq_ok.mp h
      obtain ⟨a4, _, h⟩ := Res.bind_eq_ok.mp h
      split at h
      · split at h
        · cases h; exact Or.inr ⟨_, rfl⟩
        · split at h <;> cases h <;> first | exact Or.inl rfl | exact Or.inr ⟨_, rfl⟩
      · cases h; exact Or.inl rfl
    · cases h; exact Or.inl rfl

theorem boolish_of_binMarks {f : Value → Value → Res Value} (hf : ∀ a b r, f a b = .ok r → r = unkBool ∨ ∃ x, r = boolVal x)
    {a b r : Value} (h : binMarks f a b = .ok r) : Boolish r := by
  rw [binMarks_eq] at h
  obtain ⟨r0, h0, rfl⟩ := res_map_ok h
  refine ⟨r0, hf _ _ _ h0, ?_⟩
  by_cases hm : (a.isMarked || b.isMarked) = true
  · exact Or.inr ⟨unionMarks a.marks b.marks, by simp [hm]⟩
  · exact Or.inl (by simp [hm])

theorem boolish_equals {a b r : Value} (h : Value.equals a b = .ok r) : Boolish r := by
  obtain ⟨ms, hs | hs⟩ := equals_strip a b
  · rw [hs] at h
    obtain ⟨r0, h0, rfl⟩ := res_map_ok h
    exact ⟨r0, equalsFuel_shape h0, Or.inr ⟨ms, rfl⟩⟩
  · rw [hs] at h
    exact ⟨r, equalsFuel_shape h, Or.inl rfl⟩

theorem wfc_boolish {r : Value} (h : Boolish r) : r.wfc = true := by
  obtain ⟨r0, h0, hr⟩ := h
  rcases h0 with rfl | ⟨x, rfl⟩ <;> rcases hr with rfl | ⟨ms, rfl⟩
  · decide
  · simp only [Value.withMarks, Payload.withMarks, unkBool]
    by_cases he : (unionMarks (Payload.unk (Rfn.nullable Tri.f)).marks1 ms).isEmpty = true <;>
      simp [he, Value.wfc, Value.flatMarks, Value.unmark, Payload.unmark1, Value.isMarked, Payload.isMarked, Ty.wf,
        Value.dynOK, Ty.isDyn, Value.lenFits, possibleLen]
  · cases x <;> decide
  · simp only [Value.withMarks, Payload.withMarks, boolVal]
    by_cases he : (unionMarks (Payload.b x).marks1 ms).isEmpty = true <;>
      simp [he, Value.wfc, Value.flatMarks, Value.unmark, Payload.unmark1, Value.isMarked, Payload.isMarked, Ty.wf,
        Value.dynOK, Ty.isDyn, Value.lenFits, possibleLen]

theorem coversX_of_covers_boolish {r' r : Value} (h' : Boolish r') (h : Boolish r) (hc : Covers r' r = true) :
    CoversX r' r = true := by
  obtain ⟨a, ha, hra⟩ := h'
  obtain ⟨b, hb, hrb⟩ := h
  have e1 : Covers r' r = Covers a b := by
    rcases hra with rfl | ⟨ms, rfl⟩ <;> rcases hrb with rfl | ⟨ms', rfl⟩ <;>
      simp [covers_withMarks_left, covers_withMarks_right]
  have e2 : CoversX r' r = CoversX a b := by
    rcases hra with rfl | ⟨ms, rfl⟩ <;> rcases hrb with rfl | ⟨ms', rfl⟩ <;>
      simp [CoversX, coversG_withMarks_left, coversG_withMarks_right]
  rw [e2]; rw [e1] at hc
  rcases ha with rfl | ⟨x, rfl⟩ <;> rcases hb with rfl | ⟨y, rfl⟩
  · decide
  · cases y <;> decide
  · cases x <;> simp [Covers, CoversG, boolVal, unkBool, Ty.matches, Payload.stripMarks, coversP] at hc
  · cases x <;> cases y <;> simp_all [Covers, CoversX, CoversG, boolVal, Ty.matches, Payload.stripMarks, coversP]


theorem eqTy_ne_dyn {t : Ty} (h : eqTy t = true) : t ≠ .dyn := by
  intro hd; subst hd; simp [eqTy] at h

/-- `LessThanOrEqualTo` / `GreaterThanOrEqualTo` = comparison `.Or(` equality `)`:
sound where both parts are -/
theorem orEqual_sound_partial (cmpOp : Value → Value → Res Value) (hs : Sound₂ cmpOp)
    (hbool : ∀ a b r, cmpOp a b = .ok r → Boolish r)
    (hknown : ∀ a b r, a.whollyKnown = true → b.whollyKnown = true → a.ty ≠ .dyn → b.ty ≠ .dyn → cmpOp a b = .ok r →
      r.whollyKnown = true)
    (o₁ o₂ w₁ w₂ r : Value) (hk₁ : o₁.whollyKnown = true) (hk₂ : o₂.whollyKnown = true)
    (hf₁ : o₁.wfc = true) (hf₂ : o₂.wfc = true) (hg₁ : w₁.wfc = true) (hg₂ : w₂.wfc = true)
    (he₁ : EqOperand o₁) (he₂ : EqOperand o₂) (hw₁ : EqWeak w₁ o₁) (hw₂ : EqWeak w₂ o₂)
    (hc₁ : CoversX w₁ o₁ = true) (hc₂ : CoversX w₂ o₂ = true)
    (ho : (do let l ← cmpOp o₁ o₂; let e ← Value.equals o₁ o₂; Value.or l e) = .ok r) :
    ∃ r', (do let l ← cmpOp w₁ w₂; let e ← Value.equals w₁ w₂; Value.or l e) = .ok r' ∧ Covers r' r = true := by
  obtain ⟨l, hl, ho⟩ := Res.bind_eq_ok.mp ho
  obtain ⟨e, he, ho⟩ := Res.bind_eq_ok.mp ho
  obtain ⟨l', hl', cl⟩ := hs o₁ o₂ w₁ w₂ l hk₁ hk₂ hf₁ hf₂ hg₁ hg₂ hc₁ hc₂ hl
  obtain ⟨e', he', ce⟩ := equals_sound_partial o₁ o₂ w₁ w₂ e hk₁ hk₂ he₁ he₂ hw₁ hw₂ hc₁ hc₂ he
  have bl := hbool _ _ _ hl
  have bl' := hbool _ _ _ hl'
  have be := boolish_equals he
  have be' := boolish_equals he'
  have kl := hknown o₁ o₂ l hk₁ hk₂ (eqTy_ne_dyn he₁.1) (eqTy_ne_dyn he₂.1) hl
  have ke := equals_knownInKnownOut o₁ o₂ e hk₁ hk₂ he
  obtain ⟨r', hr', cr⟩ := (sound_binMarks orU_sound.toW) l e l' e' r kl ke (wfc_boolish bl) (wfc_boolish be)
    (wfc_boolish bl') (wfc_boolish be') (coversX_of_covers_boolish bl' bl cl) (coversX_of_covers_boolish be' be ce) ho
  refine ⟨r', ?_, cr⟩
  rw [hl', Res.bind_ok, he', Res.bind_ok]
  exact hr'

theorem lessThanOrEqualTo_sound_partial (o₁ o₂ w₁ w₂ r : Value) (hk₁ : o₁.whollyKnown = true) (hk₂ : o₂.whollyKnown = true)
    (hf₁ : o₁.wfc = true) (hf₂ : o₂.wfc = true) (hg₁ : w₁.wfc = true) (hg₂ : w₂.wfc = true)
    (he₁ : EqOperand o₁) (he₂ : EqOperand o₂) (hw₁ : EqWeak w₁ o₁) (hw₂ : EqWeak w₂ o₂)
    (hc₁ : CoversX w₁ o₁ = true) (hc₂ : CoversX w₂ o₂ = true)
    (ho : Value.lessThanOrEqualTo o₁ o₂ = .ok r) :
    ∃ r', Value.lessThanOrEqualTo w₁ w₂ = .ok r' ∧ Covers r' r = true :=
  orEqual_sound_partial Value.lessThan (sound_binMarks lessThanU_sound.toW)
    (fun _ _ _ h => boolish_of_binMarks (fun _ _ _ h' => lessThanU_result h') h)
    (fun a b r ha hb hta htb h => lessThan_known_partial a b r ha hb hta htb h)
    o₁ o₂ w₁ w₂ r hk₁ hk₂ hf₁ hf₂ hg₁ hg₂ he₁ he₂ hw₁ hw₂ hc₁ hc₂ ho

theorem greaterThanOrEqualTo_sound_partial (o₁ o₂ w₁ w₂ r : Value) (hk₁ : o₁.whollyKnown = true) (hk₂ : o₂.whollyKnown = true)
    (hf₁ : o₁.wfc = true) (hf₂ : o₂.wfc = true) (hg₁ : w₁.wfc = true) (hg₂ : w₂.wfc = true)
    (he₁ : EqOperand o₁) (he₂ : EqOperand o₂) (hw₁ : EqWeak w₁ o₁) (hw₂ : EqWeak w₂ o₂)
    (hc₁ : CoversX w₁ o₁ = true) (hc₂ : CoversX w₂ o₂ = true)
    (ho : Value.greaterThanOrEqualTo o₁ o₂ = .ok r) :
    ∃ r', Value.greaterThanOrEqualTo w₁ w₂ = .ok r' ∧ Covers r' r = true :=
  orEqual_sound_partial Value.greaterThan (sound_binMarks greaterThanU_sound.toW)
    (fun _ _ _ h => boolish_of_binMarks (fun _ _ _ h' => greaterThanU_result h') h)
    (fun a b r ha hb hta htb h => greaterThan_known_partial a b r ha hb hta htb h)
    o₁ o₂ w₁ w₂ r hk₁ hk₂ hf₁ hf₂ hg₁ hg₂ he₁ he₂ hw₁ hw₂ hc₁ hc₂ ho

theorem notEqual_sound_partial (o₁ o₂ w₁ w₂ r : Value) (hk₁ : o₁.whollyKnown = true) (hk₂ : o₂.whollyKnown = true)
    (he₁ : EqOperand o₁) (he₂ : EqOperand o₂) (hw₁ : EqWeak w₁ o₁) (hw₂ : EqWeak w₂ o₂)
    (hc₁ : CoversX w₁ o₁ = true) (hc₂ : CoversX w₂ o₂ = true)
    (ho : Value.notEqual o₁ o₂ = .ok r) :
    ∃ r', Value.notEqual w₁ w₂ = .ok r' ∧ Covers r' r = true := by
  unfold Value.notEqual at ho ⊢
  obtain ⟨e, he, ho⟩ := Res.bind_eq_ok.mp ho
  obtain ⟨e', he', ce⟩ := equals_sound_partial o₁ o₂ w₁ w₂ e hk₁ hk₂ he₁ he₂ hw₁ hw₂ hc₁ hc₂ he
  have be := boolish_equals he
  have be' := boolish_equals he'
  have ke := equals_knownInKnownOut o₁ o₂ e hk₁ hk₂ he
  obtain ⟨r', hr', cr⟩ := (sound_unMarks notU_sound.toW) e e' r ke (wfc_boolish be) (wfc_boolish be')
    (coversX_of_covers_boolish be' be ce) ho
  exact ⟨r', by rw [he', Res.bind_ok]; exact hr', cr⟩
end CtyModel
