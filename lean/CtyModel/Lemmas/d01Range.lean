/-
C01, range arithmetic of Add / Subtract / Multiply on refined unknown numbers,
without the assumptions of Lemmas/OpsAddSub.lean and OpsMul.lean that no corner is
rounded and that every bound is finite:

* Multiply: cty multiplies every pair of numbers at 512 bits and keeps all bits of
  that product, so a corner product and the concrete product are rounded at the
  SAME precision; rounding is monotone (`rndV_mono`), so the order of the exact
  products is the order of the computed ones.  Bounds may be infinite (an unrefined
  or half-bounded unknown): `D01.Ext.box_lower/box_upper`.
* Add / Subtract: `big.Float.Add` rounds to the larger precision of its two
  operands.  The corner is below the concrete sum when the two roundings happen at
  the same precision, or when one of the two exact sums needs no rounding at either
  precision (`addSafe`).  Outside that the bound is false (Props/C01:
  `add_mixed_precision_counterexample`, `add_bound_finer_than_value_counterexample`).
-/
import CtyModel.Lemmas.d01Ext
import CtyModel.Lemmas.d01Arith
namespace CtyModel
open Value Cov NumCmp
namespace Num
open D01

/-- a number as an extended integer at exponent `E` -/
def extOf (E : Int) : Num → Ext
  | .inf true => .ninf
  | .inf false => .pinf
  | .fin n m e _ => .fin (scaleTo (sgnm n m) e E)

theorem cmp_le_ext {a b : Num} {E : Int} (h1 : E ≤ expOf a) (h2 : E ≤ expOf b) :
    cmp a b ≤ 0 ↔ Ext.le (extOf E a) (extOf E b) := by
  cases a with
  | inf na =>
    cases b with
    | inf nb => cases na <;> cases nb <;> simp [cmp, extOf, Ext.le]
    | fin _ _ _ _ => cases na <;> simp [cmp, extOf, Ext.le]
  | fin na ma ea pa =>
    cases b with
    | inf nb => cases nb <;> simp [cmp, extOf, Ext.le]
    | fin nb mb eb pb =>
      simp only [expOf] at h1 h2
      simp only [extOf, Ext.le]
      exact cmp_fin_le E h1 h2

/-- `c` is the extended integer `C` (at exponent `E`) rounded to 512 bits -/
def RndOf (E : Int) (C : Ext) (c : Num) : Prop :=
  match C with
  | .ninf => c = .inf true
  | .pinf => c = .inf false
  | .fin k => IsVal c (srnd k 512) E

theorem scaleTo_sign {n : Bool} {m : Nat} {e E : Int} (hm : m ≠ 0) :
    (n = true → scaleTo (sgnm n m) e E < 0) ∧ (n = false → 0 < scaleTo (sgnm n m) e E) := by
  have hpos : (0 : Int) < 2 ^ (e - E).toNat := Int.pow_pos (by decide)
  unfold scaleTo sgnm
  constructor
  · intro h; subst h
    simp only [if_true]
    have := Int.mul_pos (show (0 : Int) < (m : Int) by omega) hpos
    rw [Int.neg_mul]; omega
  · intro h; subst h
    simp only [Bool.false_eq_true, if_false]
    exact Int.mul_pos (by omega) hpos

theorem scaleTo_zero_m {n : Bool} {e E : Int} : scaleTo (sgnm n 0) e E = 0 := by
  rw [sgnm_zero, scaleTo_zero]

/-- cty's product of two numbers is the extended product rounded -/
theorem mulCty_ext {u1 u2 c : Num} {E1 E2 : Int} (h1 : E1 ≤ expOf u1) (h2 : E2 ≤ expOf u2)
    (h : mulCty u1 u2 = .ok c) : ∃ C, Ext.mul (extOf E1 u1) (extOf E2 u2) = some C ∧ RndOf (E1 + E2) C c := by
  cases u1 with
  | inf n1 =>
    cases u2 with
    | inf n2 =>
      simp only [mulCty, Res.ok.injEq] at h; subst h
      cases n1 <;> cases n2 <;> exact ⟨_, rfl, rfl⟩
    | fin n2 m2 e2 p2 =>
      simp only [mulCty] at h
      by_cases hm : m2 = 0
      · simp [hm] at h
      · simp only [hm, if_false, Res.ok.injEq] at h; subst h
        obtain ⟨s1, s2⟩ := scaleTo_sign (n := n2) (e := e2) (E := E2) hm
        cases n1 <;> cases n2 <;> simp only [extOf, Ext.mul]
        · exact ⟨_, Ext.sgnInf_pos (s2 rfl), rfl⟩
        · exact ⟨_, Ext.sgnInf_neg (s1 rfl), rfl⟩
        · exact ⟨_, Ext.sgnInf_neg (by have := s2 rfl; omega), rfl⟩
        · exact ⟨_, Ext.sgnInf_pos (by have := s1 rfl; omega), rfl⟩
  | fin n1 m1 e1 p1 =>
    cases u2 with
    | inf n2 =>
      simp only [mulCty] at h
      by_cases hm : m1 = 0
      · simp [hm] at h
      · simp only [hm, if_false, Res.ok.injEq] at h; subst h
        obtain ⟨s1, s2⟩ := scaleTo_sign (n := n1) (e := e1) (E := E1) hm
        cases n1 <;> cases n2 <;> simp only [extOf, Ext.mul]
        · exact ⟨_, Ext.sgnInf_pos (s2 rfl), rfl⟩
        · exact ⟨_, Ext.sgnInf_neg (by have := s2 rfl; omega), rfl⟩
        · exact ⟨_, Ext.sgnInf_neg (s1 rfl), rfl⟩
        · exact ⟨_, Ext.sgnInf_pos (by have := s1 rfl; omega), rfl⟩
    | fin n2 m2 e2 p2 =>
      simp only [expOf] at h1 h2
      exact ⟨_, rfl, mulCty_isVal h1 h2 h⟩

/-- rounding keeps the order of extended integers -/
theorem rndOf_mono {E : Int} {C Z : Ext} {c z : Num} (hc : RndOf E C c) (hz : RndOf E Z z) (h : Ext.le C Z) :
    cmp c z ≤ 0 := by
  cases C with
  | ninf => simp only [RndOf] at hc; subst hc; exact cmp_negInf_le z
  | pinf =>
    cases Z <;> simp [Ext.le] at h
    simp only [RndOf] at hc hz; subst hc hz; simp [cmp]
  | fin k =>
    cases Z with
    | ninf => simp [Ext.le] at h
    | pinf => simp only [RndOf] at hz; subst hz; exact cmp_posInf c
    | fin j =>
      simp only [Ext.le] at h
      simp only [RndOf] at hc hz
      exact (cmp_le_of_isVal hc hz).mpr (srnd_mono 512 h)

end Num

open D01 in
/-- Multiply: the smallest corner product is below the concrete product and the
largest above it — bounds finite or infinite, products rounded or not -/
theorem mul_range_cover_ext {l1 h1 l2 h2 x y z : Num} (b1 : Num.cmp l1 x ≤ 0) (c1 : Num.cmp x h1 ≤ 0)
    (b2 : Num.cmp l2 y ≤ 0) (c2 : Num.cmp y h2 ≤ 0) (hz : Num.mulCty x y = .ok z)
    (hcoh : ∀ m M, newMinOf Num.mulCty l1 h1 l2 h2 = some m → newMaxOf Num.mulCty l1 h1 l2 h2 = some M →
      Num.rawEqual m M = true → Num.cmp m M = 0) :
    Covers (numRangeResult (loOf (newMinOf Num.mulCty l1 h1 l2 h2)) (hiOf (newMaxOf Num.mulCty l1 h1 l2 h2))) (numVal z) = true := by
  let E1 := min (min (expOf l1) (expOf h1)) (expOf x)
  let E2 := min (min (expOf l2) (expOf h2)) (expOf y)
  have a1 := (Num.cmp_le_ext (E := E1) (by omega) (by omega)).mp b1
  have a2 := (Num.cmp_le_ext (E := E1) (by omega) (by omega)).mp c1
  have a3 := (Num.cmp_le_ext (E := E2) (by omega) (by omega)).mp b2
  have a4 := (Num.cmp_le_ext (E := E2) (by omega) (by omega)).mp c2
  obtain ⟨Z, hZ, rZ⟩ := Num.mulCty_ext (E1 := E1) (E2 := E2) (by omega) (by omega) hz
  -- all four corners are defined as soon as one of newMin / newMax is
  have corners : (∀ c ∈ cornersOf Num.mulCty l1 h1 l2 h2, c ≠ none) →
      ∃ c11 c12 c21 c22 C11 C12 C21 C22,
        cornerOf Num.mulCty l1 l2 = some c11 ∧ cornerOf Num.mulCty l1 h2 = some c12 ∧
        cornerOf Num.mulCty h1 l2 = some c21 ∧ cornerOf Num.mulCty h1 h2 = some c22 ∧
        Ext.mul (Num.extOf E1 l1) (Num.extOf E2 l2) = some C11 ∧ Num.RndOf (E1 + E2) C11 c11 ∧
        Ext.mul (Num.extOf E1 l1) (Num.extOf E2 h2) = some C12 ∧ Num.RndOf (E1 + E2) C12 c12 ∧
        Ext.mul (Num.extOf E1 h1) (Num.extOf E2 l2) = some C21 ∧ Num.RndOf (E1 + E2) C21 c21 ∧
        Ext.mul (Num.extOf E1 h1) (Num.extOf E2 h2) = some C22 ∧ Num.RndOf (E1 + E2) C22 c22 := by
    intro hall
    have get : ∀ u1 u2, cornerOf Num.mulCty u1 u2 ∈ cornersOf Num.mulCty l1 h1 l2 h2 → E1 ≤ expOf u1 → E2 ≤ expOf u2 →
        ∃ c C, cornerOf Num.mulCty u1 u2 = some c ∧ Ext.mul (Num.extOf E1 u1) (Num.extOf E2 u2) = some C ∧
          Num.RndOf (E1 + E2) C c := by
      intro u1 u2 hmem e1 e2
      cases hc : cornerOf Num.mulCty u1 u2 with
      | none => exact absurd hc (hall _ hmem)
      | some c =>
        obtain ⟨C, hC, rC⟩ := Num.mulCty_ext e1 e2 (cornerOf_some hc)
        exact ⟨c, C, rfl, hC, rC⟩
    obtain ⟨c11, C11, k11, m11, r11⟩ := get l1 l2 (by simp [cornersOf]) (by omega) (by omega)
    obtain ⟨c12, C12, k12, m12, r12⟩ := get l1 h2 (by simp [cornersOf]) (by omega) (by omega)
    obtain ⟨c21, C21, k21, m21, r21⟩ := get h1 l2 (by simp [cornersOf]) (by omega) (by omega)
    obtain ⟨c22, C22, k22, m22, r22⟩ := get h1 h2 (by simp [cornersOf]) (by omega) (by omega)
    exact ⟨c11, c12, c21, c22, C11, C12, C21, C22, k11, k12, k21, k22, m11, r11, m12, r12, m21, r21, m22, r22⟩
  refine covers_rangeResult ?_ ?_ hcoh
  · intro m hm
    obtain ⟨c11, c12, c21, c22, C11, C12, C21, C22, k11, k12, k21, k22, m11, r11, m12, r12, m21, r21, m22, r22⟩ :=
      corners (mostOf_some_all hm)
    have hmin := mostOf_min hm
    rcases Ext.box_lower a1 a2 a3 a4 m11 m12 m21 m22 hZ with h | h | h | h
    · exact cmp_le_trans (hmin c11 (by simp [cornersOf, k11])) (Num.rndOf_mono r11 rZ h)
    · exact cmp_le_trans (hmin c12 (by simp [cornersOf, k12])) (Num.rndOf_mono r12 rZ h)
    · exact cmp_le_trans (hmin c21 (by simp [cornersOf, k21])) (Num.rndOf_mono r21 rZ h)
    · exact cmp_le_trans (hmin c22 (by simp [cornersOf, k22])) (Num.rndOf_mono r22 rZ h)
  · intro M hM
    obtain ⟨c11, c12, c21, c22, C11, C12, C21, C22, k11, k12, k21, k22, m11, r11, m12, r12, m21, r21, m22, r22⟩ :=
      corners (mostOf_some_all hM)
    have hmax := mostOf_max hM
    rcases Ext.box_upper a1 a2 a3 a4 m11 m12 m21 m22 hZ with h | h | h | h
    · exact cmp_le_trans (Num.rndOf_mono rZ r11 h) (hmax c11 (by simp [cornersOf, k11]))
    · exact cmp_le_trans (Num.rndOf_mono rZ r12 h) (hmax c12 (by simp [cornersOf, k12]))
    · exact cmp_le_trans (Num.rndOf_mono rZ r21 h) (hmax c21 (by simp [cornersOf, k21]))
    · exact cmp_le_trans (Num.rndOf_mono rZ r22 h) (hmax c22 (by simp [cornersOf, k22]))

/-! ### Add / Subtract -/
namespace Num

/-- the exact sum of two finite numbers needs at most `p` bits -/
def addFitsP (a b : Num) (p : Nat) : Bool :=
  match a, b with
  | .fin na ma ea _, .fin nb mb eb _ =>
    decide (bitlen (scaleTo (sgnm na ma) ea (min ea eb) + scaleTo (sgnm nb mb) eb (min ea eb)).natAbs ≤ p)
  | _, _ => true

/-- the rounding of `u₁ + u₂` cannot overtake the rounding of `x + y` (in either
direction): both sums are rounded at the same precision; or one of the two exact sums
is representable at both precisions; or neither sum is rounded at all -/
def addSafe (u1 u2 x y : Num) : Bool :=
  let pc := max u1.prec u2.prec
  let pz := max x.prec y.prec
  !(isFin u1 && isFin u2 && isFin x && isFin y) ||
    pc == pz || (addFitsP u1 u2 pc && addFitsP u1 u2 pz) || (addFitsP x y pz && addFitsP x y pc) ||
    (addFitsP u1 u2 pc && addFitsP x y pz)

theorem addFits_eq (a b : Num) : addFits a b = addFitsP a b (max a.prec b.prec) := by
  cases a <;> cases b <;> rfl

theorem srnd_fits {v : Int} {p : Nat} (h : bitlen v.natAbs ≤ p) : srnd v p = v := by
  unfold srnd
  by_cases hp : p = 0
  · subst hp
    have : v.natAbs = 0 := by
      have := (bitlen_le_iff v.natAbs 0).mp h
      omega
    have hv : v = 0 := by omega
    subst hv; simp [rndV_prec0]
  · rw [rndV_fits (by omega) h]
    by_cases hv : v < 0 <;> simp only [hv, if_true, if_false] <;> omega

/-- the value (at exponent `E`) of a sum that fits `p` bits is not changed by rounding to `p` bits -/
theorem srnd_addFitsP {na nb : Bool} {ma mb : Nat} {ea eb : Int} {pa pb p : Nat} {E : Int} (h1 : E ≤ ea) (h2 : E ≤ eb)
    (h : addFitsP (.fin na ma ea pa) (.fin nb mb eb pb) p = true) :
    srnd (scaleTo (sgnm na ma) ea E + scaleTo (sgnm nb mb) eb E) p = scaleTo (sgnm na ma) ea E + scaleTo (sgnm nb mb) eb E := by
  simp only [addFitsP, decide_eq_true_eq] at h
  rw [scaleTo_shift (sgnm na ma) ea (min ea eb) E (by omega) (by omega),
      scaleTo_shift (sgnm nb mb) eb (min ea eb) E (by omega) (by omega), ← Int.add_mul, srnd_scale, srnd_fits h]

/-- addition is monotone as computed, under `addSafe` -/
theorem add_mono_safe {l1 l2 x y c z : Num} (h1 : cmp l1 x ≤ 0) (h2 : cmp l2 y ≤ 0)
    (hc : Num.add l1 l2 = .ok c) (hz : Num.add x y = .ok z) :
    (addSafe l1 l2 x y = true → cmp c z ≤ 0) := by
  intro hs
  cases l1 with
  | inf n1 =>
    cases n1
    · have := cmp_posInf_inv h1; subst this
      cases y with
      | inf ny => cases ny <;> simp [Num.add] at hz <;> subst hz <;> exact cmp_posInf c
      | fin _ _ _ _ => simp [Num.add] at hz; subst hz; exact cmp_posInf c
    · cases l2 with
      | inf n2 => cases n2 <;> simp [Num.add] at hc <;> subst hc <;> exact cmp_negInf_le z
      | fin _ _ _ _ => simp [Num.add] at hc; subst hc; exact cmp_negInf_le z
  | fin n1 m1 e1 p1 =>
    cases l2 with
    | inf n2 =>
      cases n2
      · have := cmp_posInf_inv h2; subst this
        cases x with
        | inf nx => cases nx <;> simp [Num.add] at hz <;> (try subst hz) <;> first | exact cmp_posInf c | (simp [cmp] at h1)
        | fin _ _ _ _ => simp [Num.add] at hz; subst hz; exact cmp_posInf c
      · simp [Num.add] at hc; subst hc; exact cmp_negInf_le z
    | fin n2 m2 e2 p2 =>
      cases x with
      | inf nx =>
        cases nx
        · cases y with
          | inf ny => cases ny <;> simp [Num.add] at hz <;> (try subst hz) <;> first | exact cmp_posInf c | (simp [cmp] at h2)
          | fin _ _ _ _ => simp [Num.add] at hz; subst hz; exact cmp_posInf c
        · simp [cmp] at h1
      | fin nx mx ex px =>
        cases y with
        | inf ny =>
          cases ny
          · simp [Num.add] at hz; subst hz; exact cmp_posInf c
          · simp [cmp] at h2
        | fin ny my ey py =>
          let E := min (min e1 e2) (min ex ey)
          have a1 := (cmp_fin_le (pa := p1) (pb := px) E (by omega) (by omega)).mp h1
          have a2 := (cmp_fin_le (pa := p2) (pb := py) E (by omega) (by omega)).mp h2
          have vc := add_isVal (E := E) (by omega) (by omega) hc
          have vz := add_isVal (E := E) (by omega) (by omega) hz
          rw [cmp_le_of_isVal vc vz]
          generalize hL : scaleTo (sgnm n1 m1) e1 E + scaleTo (sgnm n2 m2) e2 E = L at *
          generalize hX : scaleTo (sgnm nx mx) ex E + scaleTo (sgnm ny my) ey E = X at *
          have hLX : L ≤ X := by omega
          have fL : ∀ p, addFitsP (.fin n1 m1 e1 p1) (.fin n2 m2 e2 p2) p = true → srnd L p = L := by
            intro p hp; rw [← hL]; exact srnd_addFitsP (by omega) (by omega) hp
          have fX : ∀ p, addFitsP (.fin nx mx ex px) (.fin ny my ey py) p = true → srnd X p = X := by
            intro p hp; rw [← hX]; exact srnd_addFitsP (by omega) (by omega) hp
          simp only [addSafe, isFin, Bool.and_self, Bool.not_true, Bool.false_or, Bool.or_eq_true, Bool.and_eq_true,
            beq_iff_eq, prec] at hs
          rcases hs with ((hs | ⟨f1, f2⟩) | ⟨f1, f2⟩) | ⟨f1, f2⟩
          · rw [hs]; exact srnd_mono _ hLX
          · rw [fL _ f1, ← fL _ f2]; exact srnd_mono _ hLX
          · rw [fX _ f1, ← fX _ f2]; exact srnd_mono _ hLX
          · rw [fL _ f1, fX _ f2]; exact hLX

end Num

/-- Add: corner of the lower bounds below the concrete sum, corner of the upper bounds above -/
theorem add_range_cover_safe {l1 h1 l2 h2 x y z : Num} (b1 : Num.cmp l1 x ≤ 0) (c1 : Num.cmp x h1 ≤ 0)
    (b2 : Num.cmp l2 y ≤ 0) (c2 : Num.cmp y h2 ≤ 0) (hz : Num.add x y = .ok z)
    (fl : Num.addSafe l1 l2 x y = true) (fh : Num.addSafe x y h1 h2 = true)
    (hcoh : ∀ m M, newMinOf Num.add l1 h1 l2 h2 = some m → newMaxOf Num.add l1 h1 l2 h2 = some M →
      Num.rawEqual m M = true → Num.cmp m M = 0) :
    Covers (numRangeResult (loOf (newMinOf Num.add l1 h1 l2 h2)) (hiOf (newMaxOf Num.add l1 h1 l2 h2))) (numVal z) = true := by
  refine covers_rangeResult ?_ ?_ hcoh
  · intro m hm
    have hall := mostOf_some_all hm (cornerOf Num.add l1 l2) (by simp [cornersOf])
    cases hc : cornerOf Num.add l1 l2 with
    | none => exact absurd hc hall
    | some c =>
      have h1 := mostOf_min hm c (by simp [cornersOf, hc])
      exact cmp_le_trans h1 (Num.add_mono_safe b1 b2 (cornerOf_some hc) hz fl)
  · intro M hM
    have hall := mostOf_some_all hM (cornerOf Num.add h1 h2) (by simp [cornersOf])
    cases hc : cornerOf Num.add h1 h2 with
    | none => exact absurd hc hall
    | some c =>
      have h1 := mostOf_max hM c (by simp [cornersOf, hc])
      exact cmp_le_trans (Num.add_mono_safe c1 c2 hz (cornerOf_some hc) fh) h1

theorem sub_range_cover_safe {l1 h1 l2 h2 x y z : Num} (b1 : Num.cmp l1 x ≤ 0) (c1 : Num.cmp x h1 ≤ 0)
    (b2 : Num.cmp l2 y ≤ 0) (c2 : Num.cmp y h2 ≤ 0) (hz : Num.sub x y = .ok z)
    (fl : Num.addSafe l1 (Num.neg h2) x (Num.neg y) = true) (fh : Num.addSafe x (Num.neg y) h1 (Num.neg l2) = true)
    (hcoh : ∀ m M, newMinOf Num.sub l1 h1 l2 h2 = some m → newMaxOf Num.sub l1 h1 l2 h2 = some M →
      Num.rawEqual m M = true → Num.cmp m M = 0) :
    Covers (numRangeResult (loOf (newMinOf Num.sub l1 h1 l2 h2)) (hiOf (newMaxOf Num.sub l1 h1 l2 h2))) (numVal z) = true := by
  have n1 : Num.cmp (Num.neg h2) (Num.neg y) ≤ 0 := by rw [Num.cmp_neg]; exact c2
  have n2 : Num.cmp (Num.neg y) (Num.neg l2) ≤ 0 := by rw [Num.cmp_neg]; exact b2
  refine covers_rangeResult ?_ ?_ hcoh
  · intro m hm
    have hall := mostOf_some_all hm (cornerOf Num.sub l1 h2) (by simp [cornersOf])
    cases hc : cornerOf Num.sub l1 h2 with
    | none => exact absurd hc hall
    | some c =>
      have h1 := mostOf_min hm c (by simp [cornersOf, hc])
      exact cmp_le_trans h1 (Num.add_mono_safe b1 n1 (cornerOf_some hc) hz fl)
  · intro M hM
    have hall := mostOf_some_all hM (cornerOf Num.sub h1 l2) (by simp [cornersOf])
    cases hc : cornerOf Num.sub h1 l2 with
    | none => exact absurd hc hall
    | some c =>
      have h1 := mostOf_max hM c (by simp [cornersOf, hc])
      exact cmp_le_trans (Num.add_mono_safe c1 n2 hz (cornerOf_some hc) fh) h1

/-- the side condition of `sound_add`: see `Num.addSafe` (lower corner against the
concrete sum, concrete sum against the upper corner), and a result range that cty
collapses to a known number is a single value -/
def CornerSafeAdd (w₁ w₂ o₁ o₂ : Value) : Bool :=
  match asNum o₁, asNum o₂, numBounds w₁, numBounds w₂ with
  | .ok x, .ok y, some (l1, h1), some (l2, h2) =>
    Num.addSafe l1 l2 x y && Num.addSafe x y h1 h2 &&
      cohOK (newMinOf Num.add l1 h1 l2 h2) (newMaxOf Num.add l1 h1 l2 h2)
  | _, _, _, _ => true

def CornerSafeSub (w₁ w₂ o₁ o₂ : Value) : Bool :=
  match asNum o₁, asNum o₂, numBounds w₁, numBounds w₂ with
  | .ok x, .ok y, some (l1, h1), some (l2, h2) =>
    Num.addSafe l1 (Num.neg h2) x (Num.neg y) && Num.addSafe x (Num.neg y) h1 (Num.neg l2) &&
      cohOK (newMinOf Num.sub l1 h1 l2 h2) (newMaxOf Num.sub l1 h1 l2 h2)
  | _, _, _, _ => true

theorem addU_sound_safe (o₁ o₂ w₁ w₂ r : Value) (hk₁ : o₁.whollyKnown = true) (hk₂ : o₂.whollyKnown = true)
    (hmo₁ : o₁.isMarked = false) (hmo₂ : o₂.isMarked = false) (hmw₁ : w₁.isMarked = false) (hmw₂ : w₂.isMarked = false)
    (hc₁ : CoversX w₁ o₁ = true) (hc₂ : CoversX w₂ o₂ = true) (hside : CornerSafeAdd w₁ w₂ o₁ o₂ = true)
    (ho : addU o₁ o₂ = .ok r) : ∃ r', addU w₁ w₂ = .ok r' ∧ Covers r' r = true :=
  arithU_sound_partial Num.add addU CornerSafeAdd (fun _ _ => rfl)
    (by
      intro w₁ w₂ o₁ o₂ x y z l1 h1 l2 h2 hs hx hy nb1 nb2 b1 c1 b2 c2 hz
      simp only [CornerSafeAdd, hx, hy, nb1, nb2, Bool.and_eq_true] at hs
      exact add_range_cover_safe b1 c1 b2 c2 hz hs.1.1 hs.1.2 (cohOK_spec hs.2))
    o₁ o₂ w₁ w₂ r hk₁ hk₂ hmo₁ hmo₂ hmw₁ hmw₂ hc₁ hc₂ hside ho

theorem subU_sound_safe (o₁ o₂ w₁ w₂ r : Value) (hk₁ : o₁.whollyKnown = true) (hk₂ : o₂.whollyKnown = true)
    (hmo₁ : o₁.isMarked = false) (hmo₂ : o₂.isMarked = false) (hmw₁ : w₁.isMarked = false) (hmw₂ : w₂.isMarked = false)
    (hc₁ : CoversX w₁ o₁ = true) (hc₂ : CoversX w₂ o₂ = true) (hside : CornerSafeSub w₁ w₂ o₁ o₂ = true)
    (ho : subU o₁ o₂ = .ok r) : ∃ r', subU w₁ w₂ = .ok r' ∧ Covers r' r = true :=
  arithU_sound_partial Num.sub subU CornerSafeSub (fun _ _ => rfl)
    (by
      intro w₁ w₂ o₁ o₂ x y z l1 h1 l2 h2 hs hx hy nb1 nb2 b1 c1 b2 c2 hz
      simp only [CornerSafeSub, hx, hy, nb1, nb2, Bool.and_eq_true] at hs
      exact sub_range_cover_safe b1 c1 b2 c2 hz hs.1.1 hs.1.2 (cohOK_spec hs.2))
    o₁ o₂ w₁ w₂ r hk₁ hk₂ hmo₁ hmo₂ hmw₁ hmw₂ hc₁ hc₂ hside ho

end CtyModel
