/-
C01, HasElement: the POSITIVE part.  Replacing the set as a whole, or the candidate
element as a whole, by an unknown (of the same type, or `DynamicVal`) is sound: the
weakened call answers "unknown" (or the same definite False from the type guard).
Everything beyond that is not: a needle that is known but holds an unknown inside,
and type constraints holding the placeholder inside, are the two recorded findings
(Props/C01: `sound_hasElement_counterexample`); members of the set weakened in place
are the frontier (the harness searches them).
-/
import CtyModel.Lemmas.OpsSets
namespace CtyModel
open Value Cov

theorem hasElementU_result {v e r : Value} {h : Option Int} (hr : hasElementU v e h = .ok r) :
    r = unkBool ∨ ∃ b, r = boolVal b := by
  unfold hasElementU at hr
  simp only at hr
  repeat' split at hr
  all_goals first
    | (cases hr; done)
    | (cases hr; exact Or.inl rfl)
    | (cases hr; exact Or.inr ⟨_, rfl⟩)
    | (obtain ⟨found, _, rfl⟩ := res_map_ok hr
       cases found
       · simp only [Bool.false_eq_true, if_false]
         first | exact Or.inr ⟨_, rfl⟩ | exact Or.inl rfl | exact Or.inl trivial | (split <;> first | exact Or.inr ⟨_, rfl⟩ | exact Or.inl rfl)
       · exact Or.inr ⟨_, rfl⟩)

theorem isNull_of_not_isKnown {v : Value} (h : v.isKnown = false) : v.isNull = false := by
  obtain ⟨t, p⟩ := v
  simp only [Value.isKnown, Payload.isKnown, Value.isNull, Payload.isNull] at h ⊢
  split at h <;> simp_all

/-- an unknown set (or `DynamicVal` in its place): the answer is unknown -/
theorem hasElementU_unknown_set {v e : Value} (h : Option Int) (hk : v.isKnown = false) :
    hasElementU v e h = .ok unkBool := by
  unfold hasElementU
  simp [isNull_of_not_isKnown hk, hk]

/-- an unknown needle of the needle's type, or `DynamicVal`: the type guard answers as
before, everything else is unknown -/
theorem hasElementU_unknown_needle {v e e' r : Value} {h h' : Option Int} (hk : e'.isKnown = false)
    (ht : e'.ty = e.ty ∨ e'.ty = .dyn) (hr : hasElementU v e h = .ok r) :
    ∃ r', hasElementU v e' h' = .ok r' ∧ Covers r' r = true := by
  have hshape := hasElementU_result hr
  unfold hasElementU at hr ⊢
  simp only at hr ⊢
  by_cases hn : v.isNull = true
  · simp [hn] at hr
  simp only [hn, Bool.false_eq_true, if_false] at hr ⊢
  by_cases hvk : v.isKnown = true
  · simp only [hvk, Bool.not_true, Bool.false_eq_true, if_false] at hr ⊢
    cases hvt : v.ty with
    | set el =>
      simp only [hvt] at hr ⊢
      rcases ht with ht | ht
      · rw [ht]
        by_cases hearly : (!e.ty.isDyn && !el.isDyn && !(e.ty.equals el)) = true
        · simp only [hearly, if_true] at hr ⊢
          exact ⟨_, rfl, by cases hr; decide⟩
        · simp only [hearly, Bool.false_eq_true, if_false, hk, Bool.not_false, if_true] at hr ⊢
          exact ⟨_, rfl, covers_unkBool_of hshape⟩
      · simp only [ht, Ty.isDyn, Bool.not_true, Bool.false_and, Bool.false_eq_true, if_false, hk, Bool.not_false, if_true]
        exact ⟨_, rfl, covers_unkBool_of hshape⟩
    | _ => simp [hvt] at hr
  · have hvk' : v.isKnown = false := by simpa using hvk
    simp only [hvk', Bool.not_false, if_true] at hr ⊢
    exact ⟨_, rfl, by cases hr; decide⟩

theorem isKnown_unmarkDeep_flat {x : Value} (hf : x.flatMarks = true) : x.unmarkDeep.isKnown = x.isKnown := by
  obtain ⟨t, p⟩ := x
  cases p <;> simp [Value.unmarkDeep, Payload.stripMarks, Value.isKnown, Payload.isKnown, Payload.unmark1]
  rename_i ms q
  cases q <;> simp_all [Value.flatMarks, Value.unmark, Payload.unmark1, Value.isMarked, Payload.isMarked, Payload.stripMarks]

theorem isKnown_unmark_flat {x : Value} (hf : x.flatMarks = true) : x.unmark.isKnown = x.isKnown := by
  obtain ⟨t, p⟩ := x
  cases p <;> simp [Value.unmark, Value.isKnown, Payload.isKnown, Payload.unmark1]
  rename_i ms q
  cases q <;> simp_all [Value.flatMarks, Value.unmark, Payload.unmark1, Value.isMarked, Payload.isMarked]

/-- `HasElement` in terms of its body on unmarked operands -/
theorem hasElement_body (v e : Value) (h : Option Int) :
    ∃ f : Value → Value, (∀ x y, Covers (f x) y = Covers x y) ∧ (∀ x y, Covers y (f x) = Covers y x) ∧
      hasElement v e h = (hasElementU v.unmark e.unmarkDeep h).map f := by
  unfold hasElement
  by_cases hm : (v.isMarked || e.containsMarked) = true
  · simp only [hm, if_true]
    exact ⟨(·.withMarks _), fun x y => covers_withMarks_left x y _, fun x y => covers_withMarks_right y x _, rfl⟩
  · simp only [hm, Bool.false_eq_true, if_false]
    simp only [Bool.or_eq_true, not_or, Bool.not_eq_true] at hm
    refine ⟨id, fun _ _ => rfl, fun _ _ => rfl, ?_⟩
    rw [unmark_of_not_marked hm.1]
    have : e.unmarkDeep = e := by
      obtain ⟨t, p⟩ := e
      simp only [Value.unmarkDeep, Value.containsMarked] at hm ⊢
      rw [stripMarks_id p hm.2]
    rw [this]
    cases hasElementU v e h <;> rfl

/-- HasElement is sound when each operand is kept as it is or replaced AS A WHOLE by an
unknown: the set by any unknown / `DynamicVal`, the needle by an unknown of its own
type or by `DynamicVal`.  (`eh'`: the hash oracle of the weakened needle; it must be
the concrete one only when the needle is kept.) -/
theorem hasElement_sound_whole (s e ws we r : Value) (eh eh' : Option Int)
    (hfs : ws.flatMarks = true) (hfe : we.flatMarks = true)
    (hs : ws = s ∨ ws.isKnown = false)
    (he : (we = e ∧ eh' = eh) ∨ (we.isKnown = false ∧ (we.ty = e.ty ∨ we.ty = .dyn)))
    (ho : hasElement s e eh = .ok r) : ∃ r', hasElement ws we eh' = .ok r' ∧ Covers r' r = true := by
  obtain ⟨f, f1, f2, hf⟩ := hasElement_body s e eh
  obtain ⟨g, g1, g2, hg⟩ := hasElement_body ws we eh'
  rw [hf] at ho
  obtain ⟨r0, h0, rfl⟩ := res_map_ok ho
  rw [hg]
  rcases hs with rfl | hsk
  · rcases he with ⟨rfl, rfl⟩ | ⟨hek, het⟩
    · rw [h0]
      refine ⟨g r0, rfl, ?_⟩
      rw [g1, f2]
      rcases hasElementU_result h0 with rfl | ⟨b, rfl⟩
      · decide
      · cases b <;> decide
    · obtain ⟨r', h1, h2⟩ := hasElementU_unknown_needle (v := ws.unmark) (e := e.unmarkDeep) (e' := we.unmarkDeep) (h' := eh')
        (by rw [isKnown_unmarkDeep_flat hfe]; exact hek) (by simpa [Value.unmarkDeep] using het) h0
      rw [h1]
      exact ⟨g r', rfl, by rw [g1, f2]; exact h2⟩
  · rw [hasElementU_unknown_set eh' (by rw [isKnown_unmark_flat hfs]; exact hsk)]
    exact ⟨g unkBool, rfl, by rw [g1, f2]; exact covers_unkBool_of (hasElementU_result h0)⟩

/-! ### Equals: an unknown answer admits every answer Equals can give -/

/-- whatever `Equals` answers is a boolean, known or not, perhaps marked -/
theorem equals_result_boolish {a b r : Value} (h : Value.equals a b = .ok r) :
    ∃ (r0 : Value) (ms : List String), (r0 = unkBool ∨ ∃ x, r0 = boolVal x) ∧ (r = r0.withMarks ms ∨ r = r0) := by
  obtain ⟨ms, hs | hs⟩ := equals_strip a b
  · rw [hs] at h
    obtain ⟨r0, h0, rfl⟩ := res_map_ok h
    exact ⟨r0, ms, equalsFuel_shape h0, Or.inl rfl⟩
  · rw [hs] at h
    exact ⟨r, [], equalsFuel_shape h, Or.inr rfl⟩

theorem isKnown_withMarks_boolVal (x : Bool) (ms : List String) : ((boolVal x).withMarks ms).isKnown = true := by
  simp only [Value.withMarks, Payload.withMarks, boolVal]
  by_cases he : (unionMarks (Payload.b x).marks1 ms).isEmpty = true <;>
    simp [he, Value.isKnown, Payload.isKnown, Payload.unmark1]

/-- an answer of `Equals` that is not known admits every answer of `Equals` -/
theorem equals_unknown_covers {a b r a' b' r' : Value} (h : Value.equals a b = .ok r) (hk : r.isKnown = false)
    (h' : Value.equals a' b' = .ok r') : Covers r r' = true := by
  obtain ⟨r0, ms, hs0, hr0⟩ := equals_result_boolish h
  obtain ⟨r1, ms', hs1, hr1⟩ := equals_result_boolish h'
  have hu : r0 = unkBool := by
    rcases hs0 with rfl | ⟨x, rfl⟩
    · rfl
    · exfalso
      rcases hr0 with rfl | rfl
      · rw [isKnown_withMarks_boolVal] at hk; cases hk
      · simp [boolVal, Value.isKnown, Payload.isKnown, Payload.unmark1] at hk
  subst hu
  have base : Covers unkBool r1 = true := covers_unkBool_of hs1
  rcases hr0 with rfl | rfl <;> rcases hr1 with rfl | rfl <;>
    simp only [covers_withMarks_left, covers_withMarks_right, base]

end CtyModel
