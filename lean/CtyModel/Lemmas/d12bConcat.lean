/-
C12 / d12b: `concat` (sequence.go ConcatFunc): lists / tuples known at the top (the parameter refuses unknowns)
whose members are weakened are concatenated member by member.  `_partial`: in the list branch every argument
already has the result type, so that no `convert.Convert` is involved (the conversion is a parameter of the
model).
-/
import CtyModel.Lemmas.d12bZipmap
namespace CtyModel
namespace D12b
open Fn Stdlib C12L Cov

theorem covVals_append {ex : Bool} {a b c d : List Value} (h1 : CovVals ex a b) (h2 : CovVals ex c d) :
    CovVals ex (a ++ c) (b ++ d) := by
  constructor
  · rw [tysOf_eq_map, tysOf_eq_map, List.map_append, List.map_append, ← tysOf_eq_map, ← tysOf_eq_map, ← tysOf_eq_map,
      ← tysOf_eq_map, h1.1, h2.1]
  · rw [payloads_eq_map, payloads_eq_map, List.map_append, List.map_append, ← payloads_eq_map, ← payloads_eq_map,
      ← payloads_eq_map, ← payloads_eq_map]
    exact coversL_append _ _ _ _ h1.2 h2.2

theorem cleanVals_append {a b : List Value} (h1 : CleanVals a) (h2 : CleanVals b) : CleanVals (a ++ b) := by
  intro p hp
  rw [payloads_eq_map, List.map_append, List.mem_append, ← payloads_eq_map, ← payloads_eq_map] at hp
  rcases hp with h | h
  · exact h1 p h
  · exact h2 p h

/-- what the argument lists of a weakened and a concrete call have in common once `Impl` is reached: types kept,
nothing marked, every weakened argument known at the top and admitting the concrete one, none a set -/
def SeqArgs : List Value → List Value → Prop
  | [], [] => True
  | w :: ws, o :: os =>
    (w.ty = o.ty ∧ w.containsMarked = false ∧ o.containsMarked = false ∧ w.isKnown = true ∧ CoversX w o = true ∧
      isSetTy o.ty = false) ∧ SeqArgs ws os
  | _, _ => False

/-- the tuple branch of `Impl` -/
theorem concatTupleLoop_cov (E : Env) : ∀ (os ws : List Value) (vo vw : List Value) (ms : List (List String))
    (ro : List Value) (mo : List (List String)),
    SeqArgs ws os → CovVals true vw vo → CleanVals vw → CleanVals vo →
    concatTupleLoop E os vo ms = .ok (ro, mo) →
    ∃ rw, concatTupleLoop E ws vw ms = .ok (rw, mo) ∧ CovVals true rw ro ∧ CleanVals rw ∧ CleanVals ro
  | [], [], vo, vw, ms, ro, mo, _, hc, h1, h2, h => by
    simp only [concatTupleLoop, Res.ok.injEq, Prod.mk.injEq] at h
    obtain ⟨rfl, rfl⟩ := h
    exact ⟨vw, rfl, hc, h1, h2⟩
  | [], _ :: _, _, _, _, _, _, hs, _, _, _, _ => by cases hs
  | _ :: _, [], _, _, _, _, _, hs, _, _, _, _ => by cases hs
  | o :: os, w :: ws, vo, vw, ms, ro, mo, hs, hc, h1, h2, h => by
    obtain ⟨⟨hty, hmw, hmo, hkw, hcx, hns⟩, hrest⟩ := hs
    obtain ⟨huw, hmsw⟩ := clean_unmark hmw
    obtain ⟨huo, hmso⟩ := clean_unmark hmo
    simp only [concatTupleLoop, huw, hmsw, huo, hmso, List.length_nil, Nat.lt_irrefl, if_false, gt_iff_lt] at h ⊢
    cases he : elems E o with
    | ok eo =>
      rw [he] at h
      obtain ⟨ew, hew, hcv⟩ := elems_cov E hmw hmo hty hcx hkw hns he
      rw [hew]
      simp only at h ⊢
      exact concatTupleLoop_cov E os ws _ _ ms ro mo hrest (covVals_append hc hcv)
        (cleanVals_append h1 (elems_clean E hmw (by rw [hty]; exact hns) hew))
        (cleanVals_append h2 (elems_clean E hmo hns he)) h
    | err c => rw [he] at h; cases h
    | panic c => rw [he] at h; cases h
    | unmodelled => rw [he] at h; cases h

/-- the list branch of `Impl`, every argument of the result type already -/
theorem concatListLoop_cov (E : Env) (rt : Ty) : ∀ (os ws : List Value) (vo vw : List Value) (ms : List (List String))
    (ro : List Value) (mo : List (List String)),
    SeqArgs ws os → (∀ a ∈ os, a.ty.equals rt.stripOpt = true) → CovVals true vw vo → CleanVals vw → CleanVals vo →
    concatListLoop E rt os vo ms = .ok (ro, mo) →
    ∃ rw, concatListLoop E rt ws vw ms = .ok (rw, mo) ∧ CovVals true rw ro ∧ CleanVals rw ∧ CleanVals ro
  | [], [], vo, vw, ms, ro, mo, _, _, hc, h1, h2, h => by
    simp only [concatListLoop, Res.ok.injEq, Prod.mk.injEq] at h
    obtain ⟨rfl, rfl⟩ := h
    exact ⟨vw, rfl, hc, h1, h2⟩
  | [], _ :: _, _, _, _, _, _, hs, _, _, _, _, _ => by cases hs
  | _ :: _, [], _, _, _, _, _, hs, _, _, _, _, _ => by cases hs
  | o :: os, w :: ws, vo, vw, ms, ro, mo, hs, hsame, hc, h1, h2, h => by
    obtain ⟨⟨hty, hmw, hmo, hkw, hcx, hns⟩, hrest⟩ := hs
    obtain ⟨huw, hmsw⟩ := clean_unmark hmw
    obtain ⟨huo, hmso⟩ := clean_unmark hmo
    have heq := hsame o (by simp)
    have hcvo : convertTo E o rt = .ok o := by simp [convertTo, heq]
    have hcvw : convertTo E w rt = .ok w := by simp [convertTo, hty, heq]
    simp only [concatListLoop, hcvo, hcvw, huw, hmsw, huo, hmso, List.length_nil, Nat.lt_irrefl, if_false, gt_iff_lt] at h ⊢
    cases he : elems E o with
    | ok eo =>
      rw [he] at h
      obtain ⟨ew, hew, hcv⟩ := elems_cov E hmw hmo hty hcx hkw hns he
      rw [hew]
      simp only at h ⊢
      exact concatListLoop_cov E rt os ws _ _ ms ro mo hrest (fun a ha => hsame a (by simp [ha])) (covVals_append hc hcv)
        (cleanVals_append h1 (elems_clean E hmw (by rw [hty]; exact hns) hew))
        (cleanVals_append h2 (elems_clean E hmo hns he)) h
    | err c => rw [he] at h; cases h
    | panic c => rw [he] at h; cases h
    | unmodelled => rw [he] at h; cases h

theorem withMarkSets_nil0 (v : Value) : Stdlib.withMarkSets v [] = v := rfl

/-- **`concat`** at the level of the callback, for a given result type -/
theorem concatImpl_cov (E : Env) (rt : Ty) (os ws : List Value) (r : Value) (hs : SeqArgs ws os)
    (hsame : (∃ e, rt = .list e) → ∀ a ∈ os, a.ty.equals rt.stripOpt = true)
    (h : concatImpl E os rt = .ok r) :
    ∃ r', concatImpl E ws rt = .ok r' ∧ r'.ty = r.ty ∧ Covers r' r = true := by
  unfold concatImpl at h ⊢
  cases rt with
  | list e =>
    simp only at h ⊢
    cases hl : concatListLoop E (.list e) os [] [] with
    | ok p =>
      obtain ⟨ro, mo⟩ := p
      rw [hl] at h
      obtain ⟨rw', hlw, hcv, hc1, hc2⟩ := concatListLoop_cov E (.list e) os ws [] [] [] ro mo hs (hsame ⟨e, rfl⟩)
        covVals_nil cleanVals_nil cleanVals_nil hl
      rw [hlw]
      simp only at h ⊢
      rw [covVals_length hcv]
      split at h
      · rename_i h0
        simp only [h0, if_true, Res.ok.injEq] at h ⊢
        subst h
        refine ⟨_, rfl, ?_, ?_⟩
        · simp only [Stdlib.withMarkSets, Fn.withMarkSets]
        · simp only [Stdlib.withMarkSets, Fn.withMarkSets]
          split
          · simp [Covers, CoversG, listEmpty, Ty.matches_refl, Payload.stripMarks, Payload.stripMarksL, coversP, coversL]
          · rw [covers_withMarks_left, covers_withMarks_right]
            simp [Covers, CoversG, listEmpty, Ty.matches_refl, Payload.stripMarks, Payload.stripMarksL, coversP, coversL]
      · rename_i h0
        simp only [h0, if_false]
        obtain ⟨lv, hlv, rfl⟩ := res_map_ok h
        obtain ⟨lv', h1, h2, h3⟩ := listVal_cov hc1 hc2 hcv hlv
        rw [h1]
        refine ⟨_, rfl, ?_, ?_⟩
        · show (Stdlib.withMarkSets lv' mo).ty = (Stdlib.withMarkSets lv mo).ty
          simp only [Stdlib.withMarkSets, Fn.withMarkSets]
          split <;> first | exact h2 | (simp only [withMarks_ty]; exact h2)
        · show Covers (Stdlib.withMarkSets lv' mo) (Stdlib.withMarkSets lv mo) = true
          simp only [Stdlib.withMarkSets, Fn.withMarkSets]
          split
          · exact h3
          · rw [covers_withMarks_left, covers_withMarks_right]; exact h3
    | err c => rw [hl] at h; cases h
    | panic c => rw [hl] at h; cases h
    | unmodelled => rw [hl] at h; cases h
  | tuple ts =>
    simp only at h ⊢
    cases hl : concatTupleLoop E os [] [] with
    | ok p =>
      obtain ⟨ro, mo⟩ := p
      rw [hl] at h
      obtain ⟨rw', hlw, hcv, hc1, hc2⟩ := concatTupleLoop_cov E os ws [] [] [] ro mo hs covVals_nil cleanVals_nil cleanVals_nil hl
      rw [hlw]
      simp only [Res.ok.injEq] at h ⊢
      subst h
      obtain ⟨h2, h3⟩ := tupleVal_cov hc1 hc2 hcv
      refine ⟨_, rfl, ?_, ?_⟩
      · simp only [Stdlib.withMarkSets, Fn.withMarkSets]
        split <;> first | exact h2 | (simp only [withMarks_ty]; exact h2)
      · simp only [Stdlib.withMarkSets, Fn.withMarkSets]
        split
        · exact h3
        · rw [covers_withMarks_left, covers_withMarks_right]; exact h3
    | err c => rw [hl] at h; cases h
    | panic c => rw [hl] at h; cases h
    | unmodelled => rw [hl] at h; cases h
  | _ => simp at h

/-- pairwise: type kept, nothing marked, the weakened argument admits the concrete one -/
def PairArgs : List Value → List Value → Prop
  | [], [] => True
  | w :: ws, o :: os => (w.ty = o.ty ∧ w.containsMarked = false ∧ o.containsMarked = false ∧ CoversX w o = true) ∧ PairArgs ws os
  | _, _ => False

theorem unmarkDeep_clean {v : Value} (h : v.containsMarked = false) : v.unmarkDeep = v := by
  obtain ⟨t, p⟩ := v
  simp only [Value.unmarkDeep]
  rw [stripMarks_clean' p h]

theorem concatListTypes_eq : ∀ (ws os : List Value), PairArgs ws os → concatListTypes ws = concatListTypes os
  | [], [], _ => rfl
  | [], _ :: _, h => by cases h
  | _ :: _, [], h => by cases h
  | w :: ws, o :: os, h => by
    simp only [concatListTypes, h.1.1, concatListTypes_eq ws os h.2]

/-- the tuple-type loop of the `Type` callback under weakening: the same element types, or it gives up
(`cty.DynamicPseudoType`) at an unknown list -/
theorem concatElemTypes_weaken : ∀ (ws os : List Value) (ts : List Ty), PairArgs ws os →
    concatElemTypes os = .ok (some ts) →
    concatElemTypes ws = .ok (some ts) ∨ ((∃ w ∈ ws, w.isKnown = false) ∧ concatElemTypes ws = .ok none)
  | [], [], ts, _, h => Or.inl h
  | [], _ :: _, _, hp, _ => by cases hp
  | _ :: _, [], _, hp, _ => by cases hp
  | w :: ws, o :: os, ts, hp, h => by
    obtain ⟨⟨hty, hmw, hmo, hcx⟩, hrest⟩ := hp
    simp only [concatElemTypes, unmarkDeep_clean hmw, unmarkDeep_clean hmo, hty] at h ⊢
    have ih := concatElemTypes_weaken ws os
    cases hot : o.ty with
    | tuple tts =>
      rw [hot] at h
      simp only at h ⊢
      cases hr : concatElemTypes os with
      | ok x =>
        rw [hr] at h
        cases x with
        | none => simp at h
        | some more =>
          simp only [Res.ok.injEq, Option.some.injEq] at h
          subst h
          rcases ih more hrest hr with h' | ⟨⟨a, ha, hk⟩, h'⟩
          · left; rw [h']
          · right; exact ⟨⟨a, by simp [ha], hk⟩, by rw [h']⟩
      | err c => rw [hr] at h; cases h
      | panic c => rw [hr] at h; cases h
      | unmodelled => rw [hr] at h; cases h
    | list e =>
      rw [hot] at h
      simp only at h ⊢
      by_cases hkw : w.isKnown = true
      · obtain ⟨hko, _⟩ := known_shape hmw hmo hcx hkw
        simp only [hkw, hko, Bool.not_true, Bool.false_eq_true, if_false] at h ⊢
        cases hl : Stdlib.lengthInt o with
        | ok l =>
          rw [hl] at h
          rw [lengthInt_covers hmw hmo hty hcx hkw (by rw [hot]; rfl) hl]
          simp only [Res.map] at h ⊢
          cases hr : concatElemTypes os with
          | ok x =>
            rw [hr] at h
            cases x with
            | none => simp at h
            | some more =>
              simp only [Res.ok.injEq, Option.some.injEq] at h
              subst h
              rcases ih more hrest hr with h' | ⟨⟨a, ha, hk⟩, h'⟩
              · left; rw [h']
              · right; exact ⟨⟨a, by simp [ha], hk⟩, by rw [h']⟩
          | err c => rw [hr] at h; cases h
          | panic c => rw [hr] at h; cases h
          | unmodelled => rw [hr] at h; cases h
        | err c => rw [hl] at h; simp [Res.map] at h
        | panic c => rw [hl] at h; simp [Res.map] at h
        | unmodelled => rw [hl] at h; simp [Res.map] at h
      · right
        exact ⟨⟨w, by simp, by simpa using hkw⟩, by simp [hkw]⟩
    | _ => rw [hot] at h; simp at h

theorem concatElemTypes_known : ∀ (os : List Value), (∀ a ∈ os, a.containsMarked = false) → (∀ a ∈ os, a.isKnown = true) →
    concatElemTypes os ≠ .ok none
  | [], _, _ => by simp [concatElemTypes]
  | o :: os, hm, hk => by
    intro h
    simp only [concatElemTypes, unmarkDeep_clean (hm o (by simp))] at h
    have hko := hk o (by simp)
    have ih := concatElemTypes_known os (fun a ha => hm a (by simp [ha])) (fun a ha => hk a (by simp [ha]))
    cases hot : o.ty <;> rw [hot] at h <;> simp only [hko, Bool.not_true, Bool.false_eq_true, if_false] at h
    case tuple tts =>
      cases hr : concatElemTypes os with
      | ok x => rw [hr] at h; cases x <;> simp at h; exact ih hr
      | err c => rw [hr] at h; cases h
      | panic c => rw [hr] at h; cases h
      | unmodelled => rw [hr] at h; cases h
    case list e =>
      cases hl : Stdlib.lengthInt o with
      | ok l =>
        rw [hl] at h
        simp only [Res.map] at h
        cases hr : concatElemTypes os with
        | ok x => rw [hr] at h; cases x <;> simp at h; exact ih hr
        | err c => rw [hr] at h; cases h
        | panic c => rw [hr] at h; cases h
        | unmodelled => rw [hr] at h; cases h
      | err c => rw [hl] at h; simp [Res.map] at h
      | panic c => rw [hl] at h; simp [Res.map] at h
      | unmodelled => rw [hl] at h; simp [Res.map] at h
    all_goals cases h

theorem pairArgs_clean_o : ∀ {ws os : List Value}, PairArgs ws os → ∀ a ∈ os, a.containsMarked = false
  | [], [], _ => by simp
  | [], _ :: _, h => by cases h
  | _ :: _, [], h => by cases h
  | _ :: ws, o :: os, h => by
    intro a ha
    simp only [List.mem_cons] at ha
    rcases ha with rfl | ha
    · exact h.1.2.2.1
    · exact pairArgs_clean_o h.2 a ha

/-- the `Type` callback under weakening: the same type — or the placeholder, when the tuple way meets an unknown list -/
theorem concatType_weaken (E : Env) (ws os : List Value) (hp : PairArgs ws os) (hko : ∀ a ∈ os, a.isKnown = true)
    {t : Ty} (h : concatType E os = .ok t) :
    concatType E ws = .ok t ∨ ((∃ w ∈ ws, w.isKnown = false) ∧ concatType E ws = .ok .dyn) := by
  match ws, os, hp with
  | [], [], _ => exact Or.inl h
  | w :: ws, o :: os, hp =>
    have hlt := concatListTypes_eq (w :: ws) (o :: os) hp
    have hty : w.ty = o.ty := hp.1.1
    have hnone := concatElemTypes_known (o :: os) (pairArgs_clean_o hp) hko
    -- the tuple way of both calls
    have htw : ∀ t0, (match concatElemTypes (o :: os) with
          | .ok none => (.ok .dyn : Res Ty)
          | .ok (some etys) => .ok (.tuple etys)
          | r => Res.cast r) = .ok t0 →
        (match concatElemTypes (w :: ws) with
          | .ok none => (.ok .dyn : Res Ty)
          | .ok (some etys) => .ok (.tuple etys)
          | r => Res.cast r) = .ok t0 ∨
        ((∃ a ∈ w :: ws, a.isKnown = false) ∧ (match concatElemTypes (w :: ws) with
          | .ok none => (.ok .dyn : Res Ty)
          | .ok (some etys) => .ok (.tuple etys)
          | r => Res.cast r) = .ok .dyn) := by
      intro t0 h0
      cases hc : concatElemTypes (o :: os) with
      | ok x =>
        cases x with
        | none => exact absurd hc hnone
        | some etys =>
          rw [hc] at h0
          rcases concatElemTypes_weaken (w :: ws) (o :: os) etys hp hc with h' | ⟨hu, h'⟩
          · left; rw [h']; exact h0
          · right; exact ⟨hu, by rw [h']⟩
      | err c => rw [hc] at h0; simp [Res.cast] at h0
      | panic c => rw [hc] at h0; simp [Res.cast] at h0
      | unmodelled => rw [hc] at h0; simp [Res.cast] at h0
    simp only [concatType, hty, hlt] at h ⊢
    split at h
    · rename_i hl
      simp only [hl, if_true]
      cases hlt' : concatListTypes (o :: os) with
      | some tys =>
        rw [hlt'] at h
        simp only at h ⊢
        cases hu : E.unify tys with
        | ok x =>
          rw [hu] at h
          cases x with
          | some c => exact Or.inl h
          | none => exact htw t h
        | err c => rw [hu] at h; simp [Res.cast] at h
        | panic c => rw [hu] at h; simp [Res.cast] at h
        | unmodelled => rw [hu] at h; simp [Res.cast] at h
      | none =>
        rw [hlt'] at h
        exact htw t h
    · rename_i hl
      simp only [hl, if_false]
      exact htw t h

theorem pairArgs_seqArgs : ∀ {ws os : List Value}, PairArgs ws os → (∀ a ∈ ws, a.isKnown = true) →
    (∀ a ∈ os, isSetTy a.ty = false) → SeqArgs ws os
  | [], [], _, _, _ => trivial
  | [], _ :: _, h, _, _ => by cases h
  | _ :: _, [], h, _, _ => by cases h
  | w :: ws, o :: os, h, hk, hs =>
    ⟨⟨h.1.1, h.1.2.1, h.1.2.2.1, hk w (by simp), h.1.2.2.2, hs o (by simp)⟩,
      pairArgs_seqArgs h.2 (fun a ha => hk a (by simp [ha])) (fun a ha => hs a (by simp [ha]))⟩

theorem pairArgs_of : ∀ {ws os : List Value}, TyKeptS ws os → (∀ a ∈ ws, a.containsMarked = false) →
    (∀ a ∈ os, a.containsMarked = false) → coversAll ws os = true → PairArgs ws os
  | [], [], _, _, _, _ => trivial
  | [], _ :: _, h, _, _, _ => by cases h
  | _ :: _, [], h, _, _, _ => by cases h
  | w :: ws, o :: os, h, hw, ho, hc => by
    simp only [coversAll, Bool.and_eq_true] at hc
    exact ⟨⟨h.1, hw w (by simp), ho o (by simp), hc.1⟩,
      pairArgs_of h.2 (fun a ha => hw a (by simp [ha])) (fun a ha => ho a (by simp [ha])) hc.2⟩

theorem concatSpec_expand (n : Nat) : concatSpec.expand n = List.replicate n { ty := .dyn, allowMarked := true } := by
  simp [Spec.expand, concatSpec]

/-- **`concat`** relative to its `Type` callback -/
theorem concat_implSound (E : Env) (os ws : List Value) (hp : PairArgs ws os) (hko : ∀ a ∈ os, a.isKnown = true)
    (hkw : ∀ a ∈ ws, a.isKnown = true) (hns : ∀ a ∈ os, isSetTy a.ty = false)
    (hsame : ∀ e, concatType E os = .ok (.list e) → ∀ a ∈ os, a.ty.equals (Ty.list e).stripOpt = true) :
    ImplSoundAt (concatType E) (concatImpl E) os ws := by
  intro rt rt' r ho hw hio hconf _ _ _
  have : rt' = rt := by
    rcases concatType_weaken E ws os hp hko ho with h | ⟨⟨a, ha, hk⟩, _⟩
    · rw [h] at hw; cases hw; rfl
    · rw [hkw a ha] at hk; cases hk
  subst this
  obtain ⟨r', h1, h2, h3⟩ := concatImpl_cov E rt' os ws r (pairArgs_seqArgs hp hkw hns)
    (fun ⟨e, he⟩ => by subst he; exact hsame e ho) hio
  exact ⟨r', h1, by rw [h2]; exact hconf, h3⟩

end D12b
end CtyModel

namespace CtyModel
namespace D12b
open Fn Stdlib C12L Cov

/-- what `Call` (before the declared refinement) can return on mark-free arguments: `cty.DynamicVal`, the unknown
of the predicted type, or what `Impl` returned -/
theorem callUnrefined_result_cases (spec : Spec) (tf : TypeFn) (impl : ImplFn) (args : List Value) (u : Value)
    (hm : ∀ a ∈ args, a.containsMarked = false) (hr : (callUnrefined spec tf impl args).1 = .ok u) :
    u = Value.unknown .dyn ∨ (∃ rt, tf args = .ok rt ∧ u = Value.unknown rt) ∨ ∃ rt, tf args = .ok rt ∧ impl args rt = .ok u := by
  rw [callUnrefined_eq] at hr
  by_cases hc : spec.countOK args.length = true
  · simp only [hc, if_true] at hr
    obtain ⟨hta, hia, hua⟩ := unmarked_args hc hm
    cases hf : firstFail (spec.expand args.length) args with
    | some kf =>
      obtain ⟨k, f⟩ := kf
      rw [hf] at hr
      cases f with
      | null => simp at hr
      | nonconforming => simp at hr
      | dynamic =>
        left
        simp only [Out.ok.injEq, hua] at hr
        rw [← hr]; rfl
    | none =>
      rw [hf] at hr
      simp only [hta] at hr
      cases ht : tf args with
      | err c => rw [ht] at hr; simp at hr
      | panic w => rw [ht] at hr; simp at hr
      | unmodelled => rw [ht] at hr; simp at hr
      | ok rt =>
        rw [ht] at hr
        simp only at hr
        cases hu : (pass2 (spec.expand args.length) args).unknown with
        | true =>
          simp only [hu, if_true, Out.ok.injEq, hua] at hr
          right; left
          exact ⟨rt, rfl, by rw [← hr]; rfl⟩
        | false =>
          simp only [hu, Bool.false_eq_true, if_false, hia] at hr
          right; right
          refine ⟨rt, rfl, ?_⟩
          cases hi : impl args rt with
          | err c => rw [hi] at hr; simp at hr
          | panic w => rw [hi] at hr; simp at hr
          | unmodelled => rw [hi] at hr; simp at hr
          | ok v =>
            rw [hi] at hr
            simp only at hr
            split at hr
            · simp at hr
            · simp only [Out.ok.injEq] at hr
              have : withUnhandled spec args v = v := by
                unfold withUnhandled; simp [hua]
              rw [this] at hr
              rw [hr]
  · simp [hc] at hr

theorem numRangeResult_unmarked (lo hi : Option Num) : (Value.numRangeResult lo hi).v.isMarked = false := by
  unfold Value.numRangeResult
  split
  · split <;> rfl
  · rfl

theorem lengthU_unmarked {v r : Value} (h : Value.lengthU v = .ok r) : r.v.isMarked = false := by
  unfold Value.lengthU at h
  repeat' (first | split at h | (obtain ⟨_, _, h⟩ := Res.bind_eq_ok.mp h))
  all_goals (cases h <;> first | rfl | exact numRangeResult_unmarked _ _)

end D12b
end CtyModel
