/-
d14b — `regexall` never panics under the index-list law of the regexp package (the same law
`regex_never_panics` assumes, for every match of `FindAllStringSubmatchIndex`).
-/
import CtyModel.Lemmas.d14Regex
import CtyModel.Lemmas.ConvertBasic
import CtyModel.Lemmas.GoctyRT
namespace CtyModel
namespace StdNum
namespace D14b
open Value

theorem regexAllElems_no_panic (L : Lib) (names : List String) (str : String) (ety : Ty)
    (ht : ety = .string ∨ (∃ es, ety = .tuple es) ∨ (∃ ns ts os, ety = .object ns ts os)) :
    ∀ all : List (List Int), (∀ idxs ∈ all, IdxOK str.utf8ByteSize names.length idxs) →
      (regexAllElems L names str ety all).isPanic = false
  | [], _ => rfl
  | idxs :: rest, h => by
    have h1 := regexResult_no_panic L names str idxs ety (h idxs (by simp)) ht
    have h2 := regexAllElems_no_panic L names str ety ht rest (fun i hi => h i (by simp [hi]))
    simp only [regexAllElems]
    cases hr : regexResult L names str idxs ety with
    | ok v =>
      simp only [Res.bind_ok]
      cases hs : regexAllElems L names str ety rest with
      | ok vs => rfl
      | err e => rfl
      | panic w => rw [hs] at h2; simp [Res.isPanic] at h2
      | unmodelled => rfl
    | err e => rfl
    | panic w => rw [hr] at h1; simp [Res.isPanic] at h1
    | unmodelled => rfl

theorem regexElemTy_const (ety : Ty) (k : Nat) (a b : List Int) (ha : a.length = 2 * (k + 1)) (hb : b.length = 2 * (k + 1)) :
    regexElemTy ety a = regexElemTy ety b := by
  unfold regexElemTy
  cases ety <;> simp [ha, hb]

theorem wfL_strings : ∀ n : Nat, Ty.wfL (List.replicate n Ty.string) = true
  | 0 => rfl
  | n + 1 => by simp [List.replicate_succ, Ty.wfL, Ty.wf, wfL_strings n]

theorem wfL_map_string : ∀ ns : List String, Ty.wfL (ns.map fun _ => Ty.string) = true
  | [] => rfl
  | _ :: r => by simp [Ty.wfL, Ty.wf, wfL_map_string r]

theorem regexElemTy_wf (names : List String) (t : Ty) (h : regexResultType names = .ok t) (x : List Int) :
    (regexElemTy t x).wf = true := by
  unfold regexResultType at h
  simp only [] at h
  split at h
  · cases h; rfl
  · split at h
    · cases h
    · split at h
      · cases h; simp [regexElemTy, Ty.wf, wfL_strings]
      · cases h; simp [regexElemTy, Ty.wf, wfL_map_string, Gocty.strictAsc_sortNames]

theorem regexAllImpl_no_panic (L : Lib) (pat str : String)
    (hk : ∀ names, L.regexCompile pat = some names → ∀ idxs ∈ L.regexFindAll pat str,
      IdxOK str.utf8ByteSize names.length idxs) :
    (regexAllImpl L [sv pat, sv str]).isPanic = false := by
  simp only [regexAllImpl, arg0, arg1, Res.bind_ok, asString_sv]
  cases hc : L.regexCompile pat with
  | none => rfl
  | some names =>
    simp only
    have hp := regexResultType_no_panic names
    cases ht : regexResultType names with
    | err e => rfl
    | panic w => rw [ht] at hp; simp [Res.isPanic] at hp
    | unmodelled => rfl
    | ok t =>
      simp only [Res.bind_ok]
      split
      · rfl
      · have he := regexAllElems_no_panic L names str t (regexResultType_shape names t ht) _ (hk names hc)
        cases hs : regexAllElems L names str t (L.regexFindAll pat str) with
        | err e => rfl
        | panic w => rw [hs] at he; simp [Res.isPanic] at he
        | unmodelled => rfl
        | ok elems =>
          simp only [Res.bind_ok]
          have hall : (L.regexFindAll pat str).all (fun idxs =>
              (regexElemTy t idxs).equals (regexElemTy t ((L.regexFindAll pat str).headD []))) = true := by
            rw [List.all_eq_true]
            intro idxs hi
            cases hl : L.regexFindAll pat str with
            | nil => rw [hl] at hi; simp at hi
            | cons x r =>
              have hx := (hk names hc x (by rw [hl]; simp)).1
              have hi' := (hk names hc idxs hi).1
              rw [List.headD_cons, regexElemTy_const t names.length idxs x hi' hx]
              exact Convert.equals_self (regexElemTy_wf names t ht x)
          rw [hall]; rfl

end D14b
end StdNum
end CtyModel
