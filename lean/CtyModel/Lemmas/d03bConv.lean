/-
d03b — the converse of the injectivity of the hash text: `sameShape` values of a
set-free type have the SAME hash text.  So on set-free types the hash text
identifies values exactly up to `sameShape`.
-/
import CtyModel.Lemmas.d03bInj
namespace CtyModel
namespace D03b
open Value

theorem hashS_unmarked (sh : SetHashRec) (t : Ty) (p : Payload) : hashS sh t p = hashS sh t p.unmarked := by
  cases p <;> simp [Payload.unmarked, hashS]

mutual
theorem hashS_of_sameShape (sh sh' : SetHashRec) (ss : SetShapeRec) : ∀ (t : Ty) (a b : Payload), t.setFree = true →
    a.shaped t = true → b.shaped t = true → sameShape ss t a b = true → hashS sh t a = hashS sh' t b
  | t, .marked _ a', b, hp, wa, wb, h => by
    simp only [Payload.shaped, Bool.and_eq_true] at wa
    simp only [sameShape] at h
    simp only [hashS]
    exact hashS_of_sameShape sh sh' ss t a' b hp wa.2 wb h
  | t, .null, b, _, _, _, h => by
    rw [hashS_unmarked sh' t b]
    simp only [sameShape] at h
    generalize b.unmarked = b' at *
    cases b' <;> simp at h
    cases t <;> rfl
  | t, .unk _, b, _, _, _, h => by
    rw [hashS_unmarked sh' t b]
    simp only [sameShape] at h
    generalize b.unmarked = b' at *
    cases b' <;> simp at h
    cases t <;> rfl
  | t, .b x, b, _, wa, _, h => by
    simp only [Payload.shaped, Ty.isBool_iff] at wa; subst wa
    rw [hashS_unmarked sh' _ b]
    simp only [sameShape] at h
    generalize b.unmarked = b' at *
    cases b' <;> simp at h
    subst h; rfl
  | t, .s x, b, _, wa, _, h => by
    simp only [Payload.shaped, Ty.isString_iff] at wa; subst wa
    rw [hashS_unmarked sh' _ b]
    simp only [sameShape] at h
    generalize b.unmarked = b' at *
    cases b' <;> simp at h
    subst h; rfl
  | t, .n x, b, _, wa, _, h => by
    simp only [Payload.shaped, Ty.isNumber_iff] at wa; subst wa
    rw [hashS_unmarked sh' _ b]
    simp only [sameShape] at h
    generalize b.unmarked = b' at *
    cases b' <;> simp at h
    simp only [hashS, h]
  | t, .caps, b, _, wa, _, h => by
    cases t <;> simp [Payload.shaped] at wa
    rw [hashS_unmarked sh' _ b]
    simp only [sameShape] at h
    generalize b.unmarked = b' at *
    cases b' <;> simp at h
    rfl
  | _, .bad _, _, _, wa, _, _ => by simp [Payload.shaped] at wa
  | t, .sset _ _, _, hp, wa, _, _ => by
    cases t <;> simp [Payload.shaped] at wa
    simp [Ty.setFree] at hp
  | t, .seq xs, b, hp, wa, wb, h => by
    rw [hashS_unmarked sh' t b]
    obtain ⟨wb', mb'⟩ := shaped_unmarked wb
    simp only [sameShape] at h
    generalize b.unmarked = b' at *
    cases t <;> simp [Payload.shaped] at wa
    case list e =>
      cases b' <;> simp at h
      rename_i ys
      simp only [Ty.setFree] at hp
      simp only [Payload.shaped] at wb'
      simp only [hashS, hashAllS_of_sameShape sh sh' ss e xs ys hp wa wb' h.1 h.2]
    case tuple ts =>
      cases b' <;> simp at h
      rename_i ys
      simp only [Ty.setFree] at hp
      simp only [Payload.shaped] at wb'
      simp only [hashS, hashZipS_of_sameShape sh sh' ss ts xs ys hp wa wb' h]
  | t, .smap kx xs, b, hp, wa, wb, h => by
    rw [hashS_unmarked sh' t b]
    obtain ⟨wb', mb'⟩ := shaped_unmarked wb
    simp only [sameShape] at h
    generalize b.unmarked = b' at *
    cases t <;> simp [Payload.shaped] at wa
    case map e =>
      cases b' <;> simp at h
      rename_i ky ys
      simp only [Ty.setFree] at hp
      simp only [Payload.shaped, Bool.and_eq_true, beq_iff_eq] at wb'
      obtain ⟨⟨hk, hl⟩, hs⟩ := h
      subst hk
      simp only [hashS, hashMapS_of_sameShape sh sh' ss e kx xs ys hp wa.2 wb'.2 hl hs]
    case object ns ts os =>
      cases b' <;> simp at h
      rename_i ky ys
      simp only [Ty.setFree] at hp
      simp only [Payload.shaped, Bool.and_eq_true] at wb'
      simp only [hashS, hashZipS_of_sameShape sh sh' ss ts xs ys hp wa.2 wb'.2 h]
theorem hashAllS_of_sameShape (sh sh' : SetHashRec) (ss : SetShapeRec) : ∀ (e : Ty) (xs ys : List Payload),
    e.setFree = true → Payload.shapedAll e xs = true → Payload.shapedAll e ys = true → xs.length = ys.length →
    sameShapeAll ss e xs ys = true → hashAllS sh e xs = hashAllS sh' e ys
  | _, [], [], _, _, _, _, _ => rfl
  | _, [], _ :: _, _, _, _, hl, _ => by simp at hl
  | _, _ :: _, [], _, _, _, hl, _ => by simp at hl
  | e, x :: xs, y :: ys, hp, wa, wb, hl, h => by
    simp only [Payload.shapedAll, Bool.and_eq_true] at wa wb
    simp only [sameShapeAll, Bool.and_eq_true] at h
    simp only [hashAllS, hashS_of_sameShape sh sh' ss e x y hp wa.1 wb.1 h.1,
      hashAllS_of_sameShape sh sh' ss e xs ys hp wa.2 wb.2 (by simpa using hl) h.2]
theorem hashZipS_of_sameShape (sh sh' : SetHashRec) (ss : SetShapeRec) : ∀ (ts : List Ty) (xs ys : List Payload),
    Ty.setFreeL ts = true → Payload.shapedZip ts xs = true → Payload.shapedZip ts ys = true →
    sameShapeZip ss ts xs ys = true → hashZipS sh ts xs = hashZipS sh' ts ys
  | [], xs, ys, _, wa, wb, _ => by
    cases xs <;> cases ys <;> simp [Payload.shapedZip] at wa wb
    rfl
  | _ :: _, [], _, _, wa, _, _ => by simp [Payload.shapedZip] at wa
  | _ :: _, _ :: _, [], _, _, wb, _ => by simp [Payload.shapedZip] at wb
  | t :: ts, x :: xs, y :: ys, hp, wa, wb, h => by
    simp only [Payload.shapedZip, Ty.setFreeL, Bool.and_eq_true] at wa wb hp
    simp only [sameShapeZip, Bool.and_eq_true] at h
    simp only [hashZipS, hashS_of_sameShape sh sh' ss t x y hp.1 wa.1 wb.1 h.1,
      hashZipS_of_sameShape sh sh' ss ts xs ys hp.2 wa.2 wb.2 h.2]
theorem hashMapS_of_sameShape (sh sh' : SetHashRec) (ss : SetShapeRec) : ∀ (e : Ty) (ks : List String)
    (xs ys : List Payload), e.setFree = true → Payload.shapedAll e xs = true → Payload.shapedAll e ys = true →
    xs.length = ys.length → sameShapeAll ss e xs ys = true → hashMapS sh e ks xs = hashMapS sh' e ks ys
  | _, [], xs, ys, _, _, _, _, _ => by cases xs <;> cases ys <;> simp [hashMapS]
  | _, _ :: _, [], [], _, _, _, _, _ => by simp [hashMapS]
  | _, _ :: _, [], _ :: _, _, _, _, hl, _ => by simp at hl
  | _, _ :: _, _ :: _, [], _, _, _, hl, _ => by simp at hl
  | e, k :: ks, x :: xs, y :: ys, hp, wa, wb, hl, h => by
    simp only [Payload.shapedAll, Bool.and_eq_true] at wa wb
    simp only [sameShapeAll, Bool.and_eq_true] at h
    simp only [hashMapS, hashS_of_sameShape sh sh' ss e x y hp wa.1 wb.1 h.1,
      hashMapS_of_sameShape sh sh' ss e ks xs ys hp wa.2 wb.2 (by simpa using hl) h.2]
end

/-- stated on `makeSetHashBytes` of two values of one type -/
theorem hashBytes_of_sameShape {t : Ty} {a b : Payload} (hw : t.wf = true) (hp : t.setFree = true)
    (wa : a.shaped t = true) (wb : b.shaped t = true) (h : Value.sameShape ⟨t, a⟩ ⟨t, b⟩ = true) :
    hashBytes ⟨t, a⟩ = hashBytes ⟨t, b⟩ := by
  simp only [Value.sameShape, Ty.equals_self hw, sameShapeLvl, Bool.true_and] at h
  show hashBytesP t a = hashBytesP t b
  rw [hashBytesP_eq, hashBytesP_eq]
  exact hashS_of_sameShape _ _ _ t a b hp wa wb h

end D03b
end CtyModel
