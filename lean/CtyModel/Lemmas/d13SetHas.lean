/-
`sethaselement` = membership up to `RawEquals`, for a set value whose members are
filed under their hashes (the layout `cty.SetVal` and the set algebra produce).
-/
import CtyModel.Lemmas.d13SetAlg
namespace CtyModel
namespace Stdlib
open Value SetImpl

/-- every member is filed under the hash the environment answers for it -/
inductive FiledUnder (E : Env) (ety : Ty) : List Int → List Payload → Prop
  | nil : FiledUnder E ety [] []
  | cons {i : Int} {p : Payload} {is : List Int} {ps : List Payload} :
      E.hash ety p = some i → FiledUnder E ety is ps → FiledUnder E ety (i :: is) (p :: ps)

theorem d13_isKnown_of_whollyKnown {t : Ty} {p : Payload} (h : p.whollyKnown = true) (hm : p.containsMarked = false) :
    (⟨t, p⟩ : Value).isKnown = true := by
  cases p <;> simp_all [Payload.whollyKnown, Value.isKnown, Payload.isKnown, Payload.unmark1, Payload.containsMarked]

theorem member_parts {e : Ty} {ns : List Num} {a : Payload} (ha : a.member e ns = true) :
    a.shaped e = true ∧ a.whollyKnown = true ∧ a.containsMarked = false ∧ a.numsIn ns = true := by
  simp only [Payload.member, Bool.and_eq_true, Bool.not_eq_true'] at ha
  exact ⟨ha.1.1.1, ha.1.1.2, ha.1.2, ha.2⟩

/-- `Equals` of two admitted members, as `equalsP` answers it -/
theorem equalsP_members {e : Ty} (hw : e.wf = true) (hp : e.plain = true) {ns : List Num} {a b : Payload}
    (ha : a.member e ns = true) (hb : b.member e ns = true) :
    Value.equalsP e a e b = .ok (boolVal (rawB e a b)) := by
  obtain ⟨wa, ka, ma, _⟩ := member_parts ha
  obtain ⟨wb, kb, mb, _⟩ := member_parts hb
  have h := equals_of_members hw hp wa ka ma wb kb mb
  simpa only [Value.equals, Value.containsMarked, ma, mb, Bool.or_self, Bool.false_eq_true, if_false] using h

/-- the bucket scan of `Has`: members filed under another hash cannot be equal -/
theorem setHas_filed (E : Env) (ety : Ty) (ns : List Num) (hw : ety.wf = true) (hp : ety.plain = true)
    (hc : HashCoherentNums ns = true) (q : Payload) (h : Int) (hq : q.member ety ns = true)
    (hhq : E.hashAgrees ety q) (hqh : E.hash ety q = some h) :
    ∀ (ids : List Int) (vs : List Payload), FiledUnder E ety ids vs →
      (∀ p ∈ vs, p.member ety ns = true) → (∀ p ∈ vs, E.hashAgrees ety p) →
      setHas Value.equalsP ety h q ids vs = .ok (vs.any fun m => rawB ety q m) := by
  intro ids vs hf
  induction hf with
  | nil => intro _ _; rfl
  | @cons i p is ps hi _ ih =>
    intro hm hh
    have hpm := hm p (by simp)
    have ih' := ih (fun x hx => hm x (by simp [hx])) (fun x hx => hh x (by simp [hx]))
    simp only [setHas, List.any_cons]
    by_cases hij : (h == i) = true
    · simp only [hij, if_true, equalsP_members hw hp hq hpm]
      cases hr : rawB ety q p
      · simpa [boolVal, Value.isTrue] using ih'
      · simp [boolVal, Value.isTrue]
    · simp only [hij, Bool.false_eq_true, if_false]
      have hne : rawB ety q p = false := by
        cases hr : rawB ety q p with
        | false => rfl
        | true =>
          have hR := setRules_lawfulOn E ety ns hw hp hc
          have heq : (setRules E ety).equiv q p = true := by
            rw [setRules_equiv_eq E hw hp hq hpm]; exact hr
          have := hR.hash_eq q p ⟨hq, hhq⟩ ⟨hpm, hh p (by simp)⟩ heq
          simp only [setRules, hqh, hi, Option.getD_some] at this
          exact absurd (by simpa using this) hij
      simpa [hne] using ih'

/-- **sethaselement = membership.**  For a known set of admitted members filed under
their hashes and an admitted needle of the element type: `true` iff some member is
`RawEquals` (= `Equals`) to the needle. -/
theorem setHasElementImpl_member (E : Env) (ety : Ty) (ns : List Num) (hw : ety.wf = true) (hp : ety.plain = true)
    (hc : HashCoherentNums ns = true) (ids : List Int) (vs : List Payload) (q : Payload) (retTy : Ty)
    (hf : FiledUnder E ety ids vs)
    (hm : ∀ p ∈ vs, p.member ety ns = true) (hh : ∀ p ∈ vs, E.hashAgrees ety p)
    (hq : q.member ety ns = true) (hhq : E.hashAgrees ety q) :
    setHasElementImpl E [⟨.set ety, .sset ids vs⟩, ⟨ety, q⟩] retTy =
      .ok (boolVal (vs.any fun m => rawB ety q m)) := by
  obtain ⟨h, _, hqh⟩ := hhq
  obtain ⟨_, kq, mq, _⟩ := member_parts hq
  have hkq : (⟨ety, q⟩ : Value).isKnown = true := d13_isKnown_of_whollyKnown kq mq
  have hwk : Payload.whollyKnownL vs = true :=
    d13_whollyKnownL_of_forall vs fun p hp' => (member_parts (hm p hp')).2.1
  have hee : ety.equals ety = true := Ty.equals_self hw
  have hscan := setHas_filed E ety ns hw hp hc q h hq ⟨h, ‹_›, hqh⟩ hqh ids vs hf hm hh
  have hks : (⟨.set ety, .sset ids vs⟩ : Value).isKnown = true := rfl
  have hns : (⟨.set ety, .sset ids vs⟩ : Value).isNull = false := rfl
  have hms : (⟨.set ety, .sset ids vs⟩ : Value).isMarked = false := rfl
  have hws : (⟨.set ety, .sset ids vs⟩ : Value).whollyKnown = true := by
    simp [Value.whollyKnown, Payload.whollyKnown, hwk]
  have hmq : (⟨ety, q⟩ : Value).containsMarked = false := mq
  simp only [setHasElementImpl, Value.hasElement, hms, hmq, Bool.or_self, Bool.false_eq_true, if_false,
    Value.hasElementU, hns, hks, hkq, Bool.not_true, hee, Bool.and_false, hqh, hscan, Res.map, hws, if_true]
  cases vs.any fun m => rawB ety q m <;> rfl

end Stdlib
end CtyModel

namespace CtyModel
namespace Stdlib
open Value SetImpl

/-- a representation under the invariant, flattened into a set value, files every
member under its hash -/
theorem filedUnder_buckets (E : Env) (ety : Ty) : ∀ (bs : List (Int × List Payload)),
    (∀ p ∈ bs, ∀ m ∈ p.2, E.hash ety m = some p.1) → FiledUnder E ety (bucketIds bs) (bucketVals bs)
  | [], _ => by simp only [bucketIds, bucketVals, List.flatMap_nil]; exact .nil
  | (i, b) :: rest, h => by
    have ih := filedUnder_buckets E ety rest (fun p hp => h p (List.mem_cons_of_mem _ hp))
    have hb : ∀ m ∈ b, E.hash ety m = some i := fun m hm => h (i, b) (by simp) m hm
    simp only [bucketIds, bucketVals, List.flatMap_cons]
    simp only [bucketIds, bucketVals] at ih
    clear h
    induction b with
    | nil => simpa using ih
    | cons m ms ihb =>
      simp only [List.map_cons, List.cons_append]
      exact .cons (hb m (by simp)) (ihb (fun x hx => hb x (by simp [hx])))

theorem filedUnder_ofSetImpl (E : Env) (ety : Ty) (s : SetImpl Payload) (hinv : Inv (setRules E ety) s)
    (hs : ∀ m ∈ values s, (E.hash ety m).isSome = true) :
    FiledUnder E ety (bucketIds s.buckets) (bucketVals s.buckets) := by
  apply filedUnder_buckets
  intro p hp m hm
  have h1 := hinv.hashed p hp m hm
  have h2 := hs m (mem_values.mpr ⟨p, hp, hm⟩)
  simp only [setRules] at h1
  cases he : E.hash ety m with
  | none => simp [he] at h2
  | some x => simp only [he, Option.getD_some] at h1; rw [h1]

/-- membership up to `Equivalent`, as a Boolean scan with `RawEquals` -/
theorem memBy_iff_any (E : Env) {ety : Ty} (hw : ety.wf = true) (hp : ety.plain = true) {ns : List Num}
    (l : List Payload) (hl : ∀ z ∈ l, z.member ety ns = true) {y : Payload} (hy : y.member ety ns = true) :
    Spec.memBy (setRules E ety).equiv l y ↔ (l.any fun m => rawB ety y m) = true := by
  simp only [Spec.memBy, List.any_eq_true]
  constructor
  · rintro ⟨z, hz, he⟩; exact ⟨z, hz, by rw [← setRules_equiv_eq E hw hp hy (hl z hz)]; exact he⟩
  · rintro ⟨z, hz, he⟩; exact ⟨z, hz, by rw [setRules_equiv_eq E hw hp hy (hl z hz)]; exact he⟩

end Stdlib
end CtyModel
