/-
C06 (production sites), part 2b: about the hypothesis `SetLaws` of the
`Transform` theorems (`d06Walk.lean`).

`SetLaws X nfc` has two halves.  The first — `Equivalent` is symmetric on
well-formed mark-free members — is a statement about the model's `Equals` only;
for element types without set and capsule types (`Ty.plain`) it is a theorem
(C03 `equals_symm_of_wf`), shown here through the bridge "C06-well-formed ⇒
C03-shaped".  The second — equivalent members hash alike — is a law of the hash
oracle (of `setRules.Hash`); it is known to FAIL in go-cty for some numbers
(C03 `HashCoherentNums`), which is why it stays a hypothesis.
-/
import CtyModel.Lemmas.d06Walk
import CtyModel.Lemmas.ValEqSymm
set_option linter.unusedSimpArgs false
set_option linter.unusedVariables false
namespace CtyModel
namespace D06Prod
variable {nfc : String → Bool}

theorem fits_of_kindOk {t : Ty} {r : Rfn} (h : Refine.kindOk t r = true) : r.fits t = true := by
  cases r <;> cases t <;> simp_all [Refine.kindOk, Rfn.fits]

/-! C06 well-formedness of a payload implies the shape predicate of C03 -/
mutual
theorem shaped_of_wfP : ∀ (t : Ty) (p : Payload), Payload.wfP nfc t p = true → Payload.shaped t p = true
  | t, .marked ms r, h => by
    simp only [Payload.wfP_marked, Bool.and_eq_true] at h
    simp only [Payload.shaped, Bool.and_eq_true]
    exact ⟨h.1, shaped_of_wfP t r h.2⟩
  | t, .null, _ => by simp [Payload.shaped]
  | t, .unk r, h => by
    simp only [Payload.wfP_unk] at h
    simp only [Payload.shaped]; exact fits_of_kindOk h
  | t, .b _, h => by cases t <;> simp [Payload.wfP] at h <;> simp [Payload.shaped, Ty.isBool]
  | t, .n _, h => by cases t <;> simp [Payload.wfP] at h <;> simp [Payload.shaped, Ty.isNumber]
  | t, .s _, h => by cases t <;> simp [Payload.wfP] at h <;> simp [Payload.shaped, Ty.isString]
  | t, .seq vs, h => by
    cases t <;> simp [Payload.wfP] at h
    · simp only [Payload.shaped]; exact shapedAll_of_wfAll _ vs h
    · simp only [Payload.shaped]; exact shapedZip_of_wfZip _ vs h.1 h.2
  | t, .smap ks vs, h => by
    cases t <;> simp [Payload.wfP] at h
    · simp only [Payload.shaped, Bool.and_eq_true, beq_iff_eq]
      exact ⟨⟨h.1.1.1, h.1.1.2⟩, shapedAll_of_wfAll _ vs h.2⟩
    · simp only [Payload.shaped, Bool.and_eq_true, decide_eq_true_eq]
      exact ⟨h.1.1, shapedZip_of_wfZip _ vs h.1.2 h.2⟩
  | t, .sset ids vs, h => by
    cases t <;> simp [Payload.wfP] at h
    simp only [Payload.shaped, Bool.and_eq_true, beq_iff_eq]
    exact ⟨h.1.1.1.1, shapedAll_of_wfAll _ vs h.2⟩
  | t, .caps, h => by cases t <;> simp [Payload.wfP] at h <;> simp [Payload.shaped]
  | t, .bad _, h => by cases t <;> simp [Payload.wfP] at h
theorem shapedAll_of_wfAll : ∀ (e : Ty) (vs : List Payload), Payload.wfAll nfc e vs = true →
    Payload.shapedAll e vs = true
  | _, [], _ => rfl
  | e, v :: vs, h => by
    simp only [Payload.wfAll, Bool.and_eq_true] at h
    simp [Payload.shapedAll, shaped_of_wfP e v h.1, shapedAll_of_wfAll e vs h.2]
theorem shapedZip_of_wfZip : ∀ (ts : List Ty) (vs : List Payload), ts.length = vs.length →
    Payload.wfZip nfc ts vs = true → Payload.shapedZip ts vs = true
  | [], [], _, _ => rfl
  | [], _ :: _, hl, _ => by simp at hl
  | _ :: _, [], hl, _ => by simp at hl
  | t :: ts, v :: vs, hl, h => by
    simp only [Payload.wfZip, Bool.and_eq_true] at h
    simp [Payload.shapedZip, shaped_of_wfP t v h.1, shapedZip_of_wfZip ts vs (by simpa using hl) h.2]
end

/-- `setRules.Equivalent` is symmetric on well-formed mark-free members of an element type without
set and capsule types -/
theorem equivP_symm_plain {e : Ty} {a b : Payload} (he : e.ok nfc = true) (hp : e.plain = true)
    (ha : Payload.wfP nfc e a = true) (hb : Payload.wfP nfc e b = true)
    (ma : a.containsMarked = false) (mb : b.containsMarked = false) : equivP e a b = equivP e b a := by
  have hwf : e.wf = true := by simp only [Ty.ok, Bool.and_eq_true] at he; exact he.1.1
  have := equals_symm_of_wf ⟨e, a⟩ ⟨e, b⟩ (by simp [Value.shaped, hwf, shaped_of_wfP e a ha])
    (by simp [Value.shaped, hwf, shaped_of_wfP e b hb]) hp hp ma mb
  simp only [Value.equals, Value.containsMarked, ma, mb, Bool.or_self, Bool.false_eq_true, if_false] at this
  simp only [equivP, this]

/-- for element types without set and capsule types the first half of `SetLaws` holds outright: what
remains is the hash law of the oracle -/
theorem setLaws_plain_of_hash {X : SetOracle}
    (hcoh : ∀ (e : Ty) (a b : Payload), equivP e a b = true → X.hash e a = X.hash e b) :
    ∀ (e : Ty) (a b : Payload), e.plain = true → e.ok nfc = true → Payload.wfP nfc e a = true →
      Payload.wfP nfc e b = true → a.containsMarked = false → b.containsMarked = false →
      equivP e a b = equivP e b a ∧ (equivP e a b = true → X.hash e a = X.hash e b) :=
  fun e a b hp he ha hb ma mb => ⟨equivP_symm_plain he hp ha hb ma mb, hcoh e a b⟩

/-- … and the oracle with one bucket (`SetOracle.storage` with its default hash) satisfies the hash law -/
example : ∀ (e : Ty) (a b : Payload), equivP e a b = true →
    (SetOracle.storage).hash e a = (SetOracle.storage).hash e b := fun _ _ _ _ => rfl

end D06Prod

namespace D06Thm
open Walk Value D06Prod

/-! ### without the hash law the `Transform` theorem is false on sets -/

/-- the hashes the real `setRules.Hash` computes for the two numbers of `C06.dupMembers` (5·2⁻⁴ at 4 bits,
19·2⁻⁶ at 5 bits: `Equals` true, hashes differ); storage-order iteration -/
def d06_dupX : SetOracle :=
  ⟨fun _ p => match p with
      | .n (.fin _ m _ _) => if m = 5 then 3082649553 else if m = 19 then 2741159366 else 0
      | _ => 0,
   fun _ _ ms => ms⟩

def d06_dupSet : Value := ⟨.set .string, .sset [0, 0] [.s "a", .s "b"]⟩

/-- a callback that maps the two members to the two numbers and leaves everything else alone -/
def d06_dupCb : TCb := fun _ _ v =>
  match v.v with
  | .s x => if x = "a" then .ok ⟨.number, .n (.fin false 5 (-4) 4)⟩ else .ok ⟨.number, .n (.fin false 19 (-6) 5)⟩
  | _ => .ok v

theorem d06_dupCb_ok : ∀ log p v w, v.WF (fun _ => true) = true → d06_dupCb log p v = .ok w →
    w.WF (fun _ => true) = true := by
  intro log p v w hv h
  unfold d06_dupCb at h
  split at h
  · split at h <;> (simp only [Res.ok.injEq] at h; subst h; decide)
  · simp only [Res.ok.injEq] at h; subst h; exact hv

/-- `cty.Transform` with a callback that maps well-formed values to well-formed values, on a well-formed
set, returns a set that holds two `Equivalent` members (C06 "sets hold no duplicate members" fails): the
statement of `d06_transform_wf` without `SetLaws` is false.  Same root cause as `C06.setValWF_false`
(`setRules.Hash` is not coherent with `setRules.Equivalent` on numbers). -/
theorem d06_transform_set_counterexample :
    IterPerm d06_dupX ∧ d06_dupSet.WF (fun _ => true) = true ∧
    ∃ r, (transform d06_dupX Sched.sorted d06_dupCb d06_dupSet).2 = .ok r ∧ r.WF (fun _ => true) = false := by
  refine ⟨fun _ _ _ => List.Perm.refl _, by decide, ?_⟩
  have hok : (match (transform d06_dupX Sched.sorted d06_dupCb d06_dupSet).2 with
      | .ok r => !r.WF (fun _ => true)
      | _ => false) = true := by decide
  cases h : (transform d06_dupX Sched.sorted d06_dupCb d06_dupSet).2 with
  | ok r => rw [h] at hok; exact ⟨r, rfl, by simpa using hok⟩
  | err _ => rw [h] at hok; cases hok
  | panic _ => rw [h] at hok; cases hok
  | unmodelled => rw [h] at hok; cases hok

end D06Thm
end CtyModel
