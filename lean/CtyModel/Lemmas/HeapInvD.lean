/-
C20 — PathSet.List, Walk and the caller's own actions keep the state invariant;
all steps together; receivers are in order.
-/
import CtyModel.Lemmas.HeapInvC
namespace CtyModel
namespace Heap

theorem inv_psList {st st' : St} {g : Nat} {perm : List Nat} (hi : Inv st)
    (h : stepApi st (.psList g perm) = some st') : Inv st' := by
  simp only [stepApi] at h
  opt_cases h
  · exact inv_pushGo' hi trivial
  · rename_i _ a hg xs hxs ys hys _
    exact inv_newSlice hi (fun y hy => setMembers_frozen hi.heap hxs y (applyPerm_mem hys y hy)) _ _ _ _

theorem inv_walkBegin {st st' : St} {v : Nat} (hi : Inv st)
    (h : stepApi st (.walkBegin v) = some st') : Inv st' := by
  simp only [stepApi] at h
  opt_cases h
  rename_i tp htp
  obtain ⟨ht, hp⟩ := val_frozen hi (t := tp.1) (p := tp.2) htp
  have hpair : FrozenAll st.mem (.pair tp.1 tp.2) := frozenAll_pair.mpr ⟨ht, hp⟩
  refine ⟨hi.heap, ?_, ?_, ?_⟩
  · intro w hw
    rcases List.mem_append.mp hw with hw | hw
    · exact hi.vals w hw
    · simp at hw; subst hw; exact hpair
  · intro w hw
    rcases List.mem_append.mp hw with hw | hw
    · exact hi.gos w hw
    · simp at hw; subst hw; trivial
  · intro wk hwk
    rcases List.mem_append.mp hwk with hwk | hwk
    · exact hi.wks wk hwk
    · simp at hwk; subst hwk
      refine ⟨fun p n hpn => ?_, fun fr hfr => by cases hfr⟩
      simp at hpn
      obtain ⟨rfl, rfl⟩ := hpn
      exact ⟨.inl rfl, hpair⟩

/-- the callback returns: the node is entered -/
theorem good_expandPending {m0 m : Mem} (h : Good m0 m) {wk : Walker} (hw : WalkerOK m wk) :
    Good2 m0 m (expandPending m wk).1 ∧
      ∀ fr ∈ (expandPending m wk).2, PathOK (expandPending m wk).1 fr.path ∧
        ∀ sc ∈ fr.todo, FrozenAll (expandPending m wk).1 sc.1 ∧ FrozenAll (expandPending m wk).1 sc.2 := by
  unfold expandPending
  split
  · rename_i path t p hp
    obtain ⟨hpath, hnode⟩ := hw.1 _ _ hp
    obtain ⟨hft, hfp⟩ := frozenAll_pair.mp hnode
    obtain ⟨h2, hk⟩ := good_walkChildren h hft hfp
    refine ⟨h2, fun fr hfr => ?_⟩
    rcases List.mem_cons.mp hfr with e | e
    · subst e; exact ⟨pathOK_stable h2.mono hpath, hk⟩
    · have := (walkerOK_stable h2.mono h2.pres hw).2 fr e
      exact this
  · exact ⟨Good2.refl h, hw.2⟩

theorem mem_set {α : Type} {l : List α} {i : Nat} {x y : α} (h : y ∈ l.set i x) : y = x ∨ y ∈ l := by
  rcases List.mem_or_eq_of_mem_set h with h | h
  · exact .inr h
  · exact .inl h

theorem inv_walkNext {st st' : St} {w : Nat} (hi : Inv st)
    (h : stepApi st (.walkNext w) = some st') : Inv st' := by
  simp only [stepApi] at h
  opt_cases h
  · -- the walk is over
    rename_i wk hwk _ hpop
    have hwok := hi.wks wk (List.mem_of_getElem? hwk)
    obtain ⟨h1, _⟩ := good_expandPending (Good.refl hi.heap) hwok
    have base := inv_step (nv := []) (ng := []) (outs := st.outs ++ [[.o "done", .c]]) hi h1
      (fun w hw => by cases hw) (fun w hw => by cases hw)
    simp only [List.append_nil] at base
    refine ⟨base.heap, base.vals, base.gos, fun wk' hwk' => ?_⟩
    rcases mem_set hwk' with e | e
    · subst e
      exact ⟨fun p n hpn => by simp at hpn, fun fr hfr => by cases hfr⟩
    · exact base.wks wk' e
  · rename_i wk hwk _ path step child todo rest hpop r hg
    have hwok := hi.wks wk (List.mem_of_getElem? hwk)
    obtain ⟨h1, hfr⟩ := good_expandPending (Good.refl hi.heap) hwok
    have hmem : ∀ fr ∈ (⟨path, (step, child) :: todo⟩ : Frame) :: rest, fr ∈ (expandPending st.mem wk).2 :=
      fun fr hfrm => popFrames_subset _ _ (by rw [hpop]; exact hfrm)
    obtain ⟨hpath0, htodo0⟩ := hfr _ (hmem _ List.mem_cons_self)
    have hpath : PathOK (expandPending st.mem wk).1 path := hpath0
    have htodo : ∀ sc ∈ (step, child) :: todo,
        FrozenAll (expandPending st.mem wk).1 sc.1 ∧ FrozenAll (expandPending st.mem wk).1 sc.2 := htodo0
    have hstep : FrozenAll (expandPending st.mem wk).1 step := (htodo _ List.mem_cons_self).1
    have hchild : FrozenAll (expandPending st.mem wk).1 child := (htodo _ List.mem_cons_self).2
    obtain ⟨h2, ⟨arr', off', len', cap', cells', es', harr'⟩, _⟩ :=
      good_goAppend h1.good (own := .scratch) (s := path) (x := step) (by
        intro arr off len cap e _
        rcases hpath with hp | ⟨arr2, off2, len2, cap2, cells2, e2, hm2⟩
        · rw [hp] at e; cases e
        · rw [e2] at e; cases e
          exact ⟨not_frozen_of_owner (o := .scratch) (by simp [ownerOf, hm2]) (by simp) (by simp),
            by simp [ownerOf, hm2]⟩) hstep (s' := r.2) hg
    have h12 := h1.trans h2
    have base := inv_step (nv := [child]) (ng := [r.2]) (outs := st.outs) hi h12
      (fun w hw => by simp at hw; subst hw; exact frozenAll_stable h2.pres hchild)
      (fun w hw => by simp at hw; subst hw; rw [es']; trivial)
    refine ⟨base.heap, base.vals, base.gos, fun wk' hwk' => ?_⟩
    rcases mem_set hwk' with e | e
    · subst e
      refine ⟨fun p n hpn => ?_, fun fr hfrm => ?_⟩
      · simp at hpn
        obtain ⟨rfl, rfl⟩ := hpn
        exact ⟨.inr ⟨arr', off', len', cap', cells', es', harr'⟩, frozenAll_stable h2.pres hchild⟩
      · rcases List.mem_cons.mp hfrm with e | e
        · subst e
          refine ⟨pathOK_stable h2.mono hpath, fun sc hsc => ?_⟩
          have := htodo sc (List.mem_cons_of_mem _ hsc)
          exact ⟨frozenAll_stable h2.pres this.1, frozenAll_stable h2.pres this.2⟩
        · have := hfr fr (hmem fr (List.mem_cons_of_mem _ e))
          exact ⟨pathOK_stable h2.mono this.1, fun sc hsc =>
            ⟨frozenAll_stable h2.pres (this.2 sc hsc).1, frozenAll_stable h2.pres (this.2 sc hsc).2⟩⟩
    · exact base.wks wk' e

end Heap
end CtyModel
