/- Lemmas for C14: signum, abs, min/max, parseint, comparison wrappers, coalesce. -/
import CtyModel.Lemmas.StdNumInt
import CtyModel.Lemmas.NumCmp
namespace CtyModel
namespace StdNum
open Num Value NumCmp

/-! ### the operation methods on known numbers -/

theorem lessThan_num (x y : Num) :
    Value.lessThan (numVal x) (numVal y) = .ok (boolVal (decide (Num.cmp x y < 0))) := by
  simp [Value.lessThan, binMarks, Value.isMarked, Payload.isMarked, numVal, lessThanU, typeCheck, typeCheckAux,
    Ty.equals, Ty.isDyn, Value.isUnk, asNum]

theorem greaterThan_num (x y : Num) :
    Value.greaterThan (numVal x) (numVal y) = .ok (boolVal (decide (Num.cmp x y > 0))) := by
  simp [Value.greaterThan, binMarks, Value.isMarked, Payload.isMarked, numVal, greaterThanU, typeCheck, typeCheckAux,
    Ty.equals, Ty.isDyn, Value.isUnk, asNum]

theorem abs_num (x : Num) : Value.abs (numVal x) = .ok (numVal x.abs) := by
  simp [Value.abs, unMarks, Value.isMarked, Payload.isMarked, numVal, absU, typeCheck, typeCheckAux,
    Ty.equals, Ty.isDyn, Value.isUnk, asNum]

theorem neg_num (x : Num) : Value.neg (numVal x) = .ok (numVal x.neg) := by
  simp [Value.neg, unMarks, Value.isMarked, Payload.isMarked, numVal, negU, typeCheck, typeCheckAux,
    Ty.equals, Ty.isDyn, Value.isUnk, asNum]

@[simp] theorem isTrueV_bool (b : Bool) : isTrueV (boolVal b) = .ok b := by
  simp [isTrueV, boolVal, Value.isMarked, Payload.isMarked, Ty.isBool]

/-! ### min / max as folds over numbers -/

def minNum : List Num → Num → Num
  | [], m => m
  | x :: xs, m => if Num.cmp x m < 0 then minNum xs x else minNum xs m

def maxNum : List Num → Num → Num
  | [], m => m
  | x :: xs, m => if Num.cmp x m > 0 then maxNum xs x else maxNum xs m

theorem minLoop_num (xs : List Num) (m : Num) :
    minLoop (xs.map numVal) (numVal m) = .ok (numVal (minNum xs m)) := by
  induction xs generalizing m with
  | nil => rfl
  | cons x xs ih =>
    simp only [List.map_cons, minLoop, lessThan_num, Res.bind_ok, isTrueV_bool, minNum]
    by_cases h : Num.cmp x m < 0 <;> simp [h, ih]

theorem maxLoop_num (xs : List Num) (m : Num) :
    maxLoop (xs.map numVal) (numVal m) = .ok (numVal (maxNum xs m)) := by
  induction xs generalizing m with
  | nil => rfl
  | cons x xs ih =>
    simp only [List.map_cons, maxLoop, greaterThan_num, Res.bind_ok, isTrueV_bool, maxNum]
    by_cases h : Num.cmp x m > 0 <;> simp [h, ih]

theorem minNum_mem (xs : List Num) (m : Num) : minNum xs m = m ∨ minNum xs m ∈ xs := by
  induction xs generalizing m with
  | nil => left; rfl
  | cons x xs ih =>
    simp only [minNum]
    split
    · rcases ih x with h | h
      · right; rw [h]; exact List.mem_cons_self
      · right; exact List.mem_cons_of_mem _ h
    · rcases ih m with h | h
      · left; exact h
      · right; exact List.mem_cons_of_mem _ h

theorem minNum_le (xs : List Num) (m : Num) :
    Num.cmp (minNum xs m) m ≤ 0 ∧ ∀ x ∈ xs, Num.cmp (minNum xs m) x ≤ 0 := by
  induction xs generalizing m with
  | nil => exact ⟨by simp [minNum, maxNum, cmp_self], by simp⟩
  | cons x xs ih =>
    simp only [minNum]
    split
    · rename_i hlt
      obtain ⟨h1, h2⟩ := ih x
      refine ⟨cmp_le_trans h1 (by omega), ?_⟩
      intro y hy
      rcases List.mem_cons.mp hy with rfl | hy
      · exact h1
      · exact h2 y hy
    · rename_i hge
      obtain ⟨h1, h2⟩ := ih m
      refine ⟨h1, ?_⟩
      intro y hy
      rcases List.mem_cons.mp hy with rfl | hy
      · have : Num.cmp m y ≤ 0 := by rw [cmp_swap y m]; omega
        exact cmp_le_trans h1 this
      · exact h2 y hy

theorem maxNum_mem (xs : List Num) (m : Num) : maxNum xs m = m ∨ maxNum xs m ∈ xs := by
  induction xs generalizing m with
  | nil => left; rfl
  | cons x xs ih =>
    simp only [maxNum]
    split
    · rcases ih x with h | h
      · right; rw [h]; exact List.mem_cons_self
      · right; exact List.mem_cons_of_mem _ h
    · rcases ih m with h | h
      · left; exact h
      · right; exact List.mem_cons_of_mem _ h

theorem maxNum_ge (xs : List Num) (m : Num) :
    Num.cmp m (maxNum xs m) ≤ 0 ∧ ∀ x ∈ xs, Num.cmp x (maxNum xs m) ≤ 0 := by
  induction xs generalizing m with
  | nil => exact ⟨by simp [minNum, maxNum, cmp_self], by simp⟩
  | cons x xs ih =>
    simp only [maxNum]
    split
    · rename_i hgt
      obtain ⟨h1, h2⟩ := ih x
      have hmx : Num.cmp m x ≤ 0 := by rw [cmp_swap x m]; omega
      refine ⟨cmp_le_trans hmx h1, ?_⟩
      intro y hy
      rcases List.mem_cons.mp hy with rfl | hy
      · exact h1
      · exact h2 y hy
    · rename_i hle
      obtain ⟨h1, h2⟩ := ih m
      refine ⟨h1, ?_⟩
      intro y hy
      rcases List.mem_cons.mp hy with rfl | hy
      · exact cmp_le_trans (by omega) h1
      · exact h2 y hy

/-! ### parseint: the digit scanner -/

theorem scanDigits_all (base : Nat) (ds : List Char) (acc cnt : Nat) (h : ∀ c ∈ ds, digitVal base c < base) :
    scanDigits base ds acc cnt =
      (ds.foldl (fun a c => a * base + digitVal base c) acc, cnt + ds.length, []) := by
  induction ds generalizing acc cnt with
  | nil => simp [scanDigits]
  | cons c cs ih =>
    have hc : ¬ digitVal base c ≥ base := by have := h c List.mem_cons_self; omega
    simp only [scanDigits, hc, if_false, List.foldl_cons, List.length_cons]
    rw [ih _ _ (fun d hd => h d (List.mem_cons_of_mem _ hd))]
    simp; omega

theorem scanDigits_bad (base : Nat) (ds : List Char) (acc cnt : Nat) (h : ∃ c ∈ ds, digitVal base c ≥ base) :
    (scanDigits base ds acc cnt).2.2 ≠ [] := by
  induction ds generalizing acc cnt with
  | nil => simp at h
  | cons c cs ih =>
    simp only [scanDigits]
    split
    · simp
    · rename_i hc
      obtain ⟨d, hd, hbad⟩ := h
      rcases List.mem_cons.mp hd with rfl | hd
      · exact absurd hbad hc
      · exact ih _ _ ⟨d, hd, hbad⟩

/-- `SetString` on a sign-free body: succeeds exactly on a non-empty string of
digits of the base, with the value the digits denote -/
theorem scan_body (base : Nat) (body : List Char) :
    (body ≠ [] ∧ (∀ c ∈ body, digitVal base c < base) →
      (scanDigits base body 0 0).2.1 ≠ 0 ∧ (scanDigits base body 0 0).2.2 = [] ∧
      (scanDigits base body 0 0).1 = digitsVal base body) ∧
    (body = [] ∨ (∃ c ∈ body, digitVal base c ≥ base) →
      (scanDigits base body 0 0).2.1 = 0 ∨ (scanDigits base body 0 0).2.2 ≠ []) := by
  constructor
  · rintro ⟨hne, hall⟩
    rw [scanDigits_all base body 0 0 hall]
    refine ⟨?_, rfl, rfl⟩
    cases body with
    | nil => contradiction
    | cons c cs => simp
  · rintro (rfl | hbad)
    · left; rfl
    · right; exact scanDigits_bad base body 0 0 hbad

/-! ### signs are no digits -/

theorem digitVal_minus (base : Nat) : digitVal base '-' = 63 := by
  simp [digitVal]

theorem digitVal_plus (base : Nat) : digitVal base '+' = 63 := by
  simp [digitVal]

/-- a body that starts with a digit of a base ≤ 62 carries no sign -/
theorem scanSign_digits (base : Nat) (hb : base ≤ 62) (body : List Char)
    (hall : ∀ c ∈ body, digitVal base c < base) : scanSign body = (false, body) := by
  cases body with
  | nil => rfl
  | cons c cs =>
    have hc := hall c List.mem_cons_self
    have h1 : c ≠ '-' := by intro h; rw [h, digitVal_minus] at hc; omega
    have h2 : c ≠ '+' := by intro h; rw [h, digitVal_plus] at hc; omega
    unfold scanSign
    split
    · rename_i heq; cases heq; exact absurd rfl h1
    · rename_i heq; cases heq; exact absurd rfl h2
    · rfl

/-! ### coalesce -/

theorem coalesceLoop_skip (t : Ty) (nulls : List Value) (tail : List Value)
    (hn : ∀ n ∈ nulls, n.isKnown = true ∧ n.isNull = true) :
    coalesceLoop t (nulls ++ tail) = coalesceLoop t tail := by
  induction nulls with
  | nil => rfl
  | cons n ns ih =>
    obtain ⟨h1, h2⟩ := hn n List.mem_cons_self
    simp only [List.cons_append, coalesceLoop, h1, h2, Bool.not_true, Bool.false_eq_true, if_false, if_true]
    exact ih (fun m hm => hn m (List.mem_cons_of_mem _ hm))

end StdNum
end CtyModel
