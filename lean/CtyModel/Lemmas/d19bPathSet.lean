/-
d19b — the set algebra of `PathSet` with an EMPTY operand.

`PathSet.Union` / `Subtract` forward to `set.Set.Union` / `Subtract`, which always
build a NEW set by `Add`ing into `NewSet(rules)` — also when one operand is empty.
A seeded change (`seeded/C19-pathset-union-subtract-empty-operand-aliases-result`)
returned the non-empty operand itself.  That is an ALIASING change: the value
returned is the right mathematical set at the moment it is returned, so no
statement about values (`abs`) can tell the two apart; what differs is that a later
`Add` / `Remove` on the result also changes the operand (the C20 heap model is
where sharing lives).  What can be said here:

* the refinement clauses with an empty operand, explicitly (not only as instances
  of the general ones): the result satisfies the invariant and stands for the
  other operand's set / for the empty set;
* how the result is BUILT in the transliteration (and, by the `rfl` tie
  `PathFnsTie.union_eq` / `subtract_eq`, in the translated source): it is
  `fromList` of the operand's iteration — every member re-`Add`ed into a fresh
  empty set — never the operand value passed through;
* in the register semantics a later `Add` on the result leaves the operand alone —
  true by construction of the model, stated because it is the spec the harness
  predicate (`pathset-*` after `union` / `sub` with an empty register) judges.
-/
import CtyModel.Lemmas.WalkPathSet
namespace CtyModel
namespace PathSet
open SetImpl

variable {α : Type}

theorem iter_empty (R : Rules α) : iter R (empty : SetImpl α) = [] := by
  simp only [iter]
  split <;> simp [values, valuesSorted, sortStable, empty]

theorem has_empty (R : Rules α) (x : α) : has R (empty : SetImpl α) x = false := by
  simp [has, empty, lookup]

/-- `s.Union(empty)` re-adds every member of `s` to a fresh set -/
theorem union_empty_right_eq (R : Rules α) (s : SetImpl α) :
    union R s empty = fromList R (iter R s) := by
  simp [union, fromList, iter_empty, addWhere]

/-- `empty.Union(s)` re-adds every member of `s` to a fresh set -/
theorem union_empty_left_eq (R : Rules α) (s : SetImpl α) :
    union R empty s = fromList R (iter R s) := by
  simp [union, fromList, iter_empty, addWhere]

/-- `s.Subtract(empty)` re-adds every member of `s` to a fresh set -/
theorem subtract_empty_right_eq (R : Rules α) (s : SetImpl α) :
    subtract R s empty = fromList R (iter R s) := by
  simp [subtract, fromList, has_empty]

theorem subtract_empty_left_eq (R : Rules α) (s : SetImpl α) :
    subtract R empty s = empty := by
  simp [subtract, iter_empty, addWhere]

/-- the refinement clauses of `Union` with an empty operand -/
theorem union_empty_refines {R : Rules α} (hR : R.Lawful) (s : SetImpl α) :
    InvB R (union R s empty) ∧ InvB R (union R empty s) ∧
    (∀ y, abs R (union R s empty) y ↔ abs R s y) ∧ (∀ y, abs R (union R empty s) y ↔ abs R s y) := by
  refine ⟨invB_union hR _ _, invB_union hR _ _, fun y => ?_, fun y => ?_⟩
  · rw [abs_union hR]
    exact ⟨fun h => h.elim id (fun h' => absurd h' (abs_empty R y)), Or.inl⟩
  · rw [abs_union hR]
    exact ⟨fun h => h.elim (fun h' => absurd h' (abs_empty R y)) id, Or.inr⟩

/-- the refinement clauses of `Subtract` with an empty operand -/
theorem subtract_empty_refines {R : Rules α} (hR : R.Lawful) (s : SetImpl α) :
    InvB R (subtract R s empty) ∧ InvB R (subtract R empty s) ∧
    (∀ y, abs R (subtract R s empty) y ↔ abs R s y) ∧ (∀ y, ¬ abs R (subtract R empty s) y) := by
  refine ⟨invB_subtract hR _ _, invB_subtract hR _ _, fun y => ?_, fun y => ?_⟩
  · rw [abs_subtract hR s (invB_empty R)]
    exact ⟨fun h => h.1, fun h => ⟨h, abs_empty R y⟩⟩
  · rw [subtract_empty_left_eq]
    exact abs_empty R y

end PathSet
end CtyModel
