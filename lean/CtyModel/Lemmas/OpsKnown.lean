/-
Results of the operation methods are never null, and wholly known operands of
a real (non-placeholder) type give wholly known results.
-/
import CtyModel.Lemmas.OpsArith
namespace CtyModel
open Value

/-! ### lifting through the marks prologue -/
theorem unMarks_lift (P : Value → Prop) (hP : ∀ r ms, P r → P (r.withMarks ms))
    {f : Value → Res Value} {a r : Value}
    (hf : ∀ r, f a.unmark = .ok r → P r) (h : unMarks f a = .ok r) : P r := by
  rw [unMarks_eq] at h
  obtain ⟨r0, h0, rfl⟩ := res_map_ok h
  have := hf r0 h0
  by_cases hm : a.isMarked = true
  · simp only [hm, if_true]; exact hP _ _ this
  · simp only [hm]; exact this

theorem binMarks_lift (P : Value → Prop) (hP : ∀ r ms, P r → P (r.withMarks ms))
    {f : Value → Value → Res Value} {a b r : Value}
    (hf : ∀ r, f a.unmark b.unmark = .ok r → P r) (h : binMarks f a b = .ok r) : P r := by
  rw [binMarks_eq] at h
  obtain ⟨r0, h0, rfl⟩ := res_map_ok h
  have := hf r0 h0
  by_cases hm : (a.isMarked || b.isMarked) = true
  · simp only [hm, if_true]; exact hP _ _ this
  · simp only [hm]; exact this

theorem nn_withMarks : ∀ (r : Value) (ms : List String), r.isNull = false → (r.withMarks ms).isNull = false := by
  intro r ms h; rw [isNull_withMarks]; exact h
theorem wk_withMarks : ∀ (r : Value) (ms : List String), r.whollyKnown = true → (r.withMarks ms).whollyKnown = true := by
  intro r ms h; rw [whollyKnown_withMarks]; exact h

@[simp] theorem isNull_boolVal (x : Bool) : (boolVal x).isNull = false := rfl
@[simp] theorem isNull_unkBool : unkBool.isNull = false := rfl
@[simp] theorem isNull_numVal (x : Num) : (numVal x).isNull = false := rfl
@[simp] theorem isNull_intVal (x : Int) : (intVal x).isNull = false := rfl
@[simp] theorem isNull_unkNumNotNull : unkNumNotNull.isNull = false := rfl
@[simp] theorem isNull_accVal (x : EqAcc) : (accVal x).isNull = false := by cases x <;> rfl
@[simp] theorem isNull_numRangeResult (lo hi : Option Num) : (numRangeResult lo hi).isNull = false := by
  unfold numRangeResult
  split
  · split <;> rfl
  · rfl

@[simp] theorem wk_boolVal (x : Bool) : (boolVal x).whollyKnown = true := rfl
@[simp] theorem wk_numVal (x : Num) : (numVal x).whollyKnown = true := rfl
@[simp] theorem wk_intVal (x : Int) : (intVal x).whollyKnown = true := rfl

/-! ### A. results are never null: unmarked level -/
theorem notU_nn {a r : Value} (h : notU a = .ok r) : r.isNull = false := by
  unfold notU at h
  obtain ⟨tc, htc, h⟩ := Res.bind_eq_ok.mp h
  rcases tc_cases tc with rfl | rfl | rfl <;> simp only at h
  · obtain ⟨x, hx, h⟩ := Res.bind_eq_ok.mp h
    simp only [pure, Res.ok.injEq] at h; subst h; rfl
  · simp only [pure, Res.ok.injEq] at h; subst h; rfl
  · simp only [pure, Res.ok.injEq] at h; subst h; rfl

theorem andU_nn {a b r : Value} (h : andU a b = .ok r) : r.isNull = false := by
  unfold andU at h
  obtain ⟨tc, htc, h⟩ := Res.bind_eq_ok.mp h
  rcases tc_cases tc with rfl | rfl | rfl <;> simp only at h
  · obtain ⟨x, hx, h⟩ := Res.bind_eq_ok.mp h
    split at h
    · simp only [pure, Res.ok.injEq] at h; subst h; rfl
    · obtain ⟨y, hy, h⟩ := Res.bind_eq_ok.mp h
      simp only [pure, Res.ok.injEq] at h; subst h; rfl
  · split at h <;> (simp only [pure, Res.ok.injEq] at h; subst h; rfl)
  · split at h <;> (simp only [pure, Res.ok.injEq] at h; subst h; rfl)

theorem orU_nn {a b r : Value} (h : orU a b = .ok r) : r.isNull = false := by
  unfold orU at h
  obtain ⟨tc, htc, h⟩ := Res.bind_eq_ok.mp h
  rcases tc_cases tc with rfl | rfl | rfl <;> simp only at h
  · obtain ⟨x, hx, h⟩ := Res.bind_eq_ok.mp h
    split at h
    · simp only [pure, Res.ok.injEq] at h; subst h; rfl
    · obtain ⟨y, hy, h⟩ := Res.bind_eq_ok.mp h
      simp only [pure, Res.ok.injEq] at h; subst h; rfl
  · split at h <;> (simp only [pure, Res.ok.injEq] at h; subst h; rfl)
  · split at h <;> (simp only [pure, Res.ok.injEq] at h; subst h; rfl)

theorem lessThanU_nn {a b r : Value} (h : lessThanU a b = .ok r) : r.isNull = false := by
  unfold lessThanU at h
  obtain ⟨tc, htc, h⟩ := Res.bind_eq_ok.mp h
  have short : ∀ {r}, (do match ← rangeLess a b with
          | some r => pure (boolVal r)
          | none => pure unkBool) = Res.ok r → r.isNull = false := by
    intro r h
    obtain ⟨s, hs, h⟩ := Res.bind_eq_ok.mp h
    cases s <;> (simp only [pure, Res.ok.injEq] at h; subst h; rfl)
  rcases tc_cases tc with rfl | rfl | rfl <;> simp only at h
  · obtain ⟨x, hx, h⟩ := Res.bind_eq_ok.mp h
    obtain ⟨y, hy, h⟩ := Res.bind_eq_ok.mp h
    simp only [pure, Res.ok.injEq] at h; subst h; rfl
  · exact short h
  · exact short h

theorem gtShort_nn {a b r : Value} (h : gtShort a b = .ok r) : r.isNull = false := by
  unfold gtShort at h
  obtain ⟨ra, hra, h⟩ := Res.bind_eq_ok.mp h
  obtain ⟨rb, hrb, h⟩ := Res.bind_eq_ok.mp h
  split at h
  · obtain ⟨x1, _, h⟩ := Res.bind_eq_ok.mp h
    obtain ⟨x2, _, h⟩ := Res.bind_eq_ok.mp h
    obtain ⟨x3, _, h⟩ := Res.bind_eq_ok.mp h
    obtain ⟨x4, _, h⟩ := Res.bind_eq_ok.mp h
    split at h
    · split at h
      · simp only [pure, Res.ok.injEq] at h; subst h; rfl
      · split at h <;> (simp only [pure, Res.ok.injEq] at h; subst h; rfl)
    · simp only [pure, Res.ok.injEq] at h; subst h; rfl
  · simp only [pure, Res.ok.injEq] at h; subst h; rfl

theorem greaterThanU_nn {a b r : Value} (h : greaterThanU a b = .ok r) : r.isNull = false := by
  rw [greaterThanU_eq] at h
  obtain ⟨tc, htc, h⟩ := Res.bind_eq_ok.mp h
  rcases tc_cases tc with rfl | rfl | rfl <;> simp only at h
  · obtain ⟨x, hx, h⟩ := Res.bind_eq_ok.mp h
    obtain ⟨y, hy, h⟩ := Res.bind_eq_ok.mp h
    simp only [pure, Res.ok.injEq] at h; subst h; rfl
  · exact gtShort_nn h
  · exact gtShort_nn h

theorem rangeArithC_shape {corner : Option Num → Option Num → Option Num} {a b r : Value}
    (h : rangeArithC corner a b = .ok r) : ∃ lo hi, r = numRangeResult lo hi := by
  unfold rangeArithC at h
  obtain ⟨x1, _, h⟩ := Res.bind_eq_ok.mp h
  obtain ⟨x2, _, h⟩ := Res.bind_eq_ok.mp h
  obtain ⟨x3, _, h⟩ := Res.bind_eq_ok.mp h
  obtain ⟨x4, _, h⟩ := Res.bind_eq_ok.mp h
  obtain ⟨x5, _, h⟩ := Res.bind_eq_ok.mp h
  obtain ⟨x6, _, h⟩ := Res.bind_eq_ok.mp h
  simp only [pure, Res.ok.injEq] at h
  exact ⟨_, _, h.symm⟩

theorem rangeArithC_nn {corner : Option Num → Option Num → Option Num} {a b r : Value}
    (h : rangeArithC corner a b = .ok r) : r.isNull = false := by
  obtain ⟨lo, hi, rfl⟩ := rangeArithC_shape h
  exact isNull_numRangeResult _ _
theorem rangeArith_shape {op : Num → Num → Res Num} {a b r : Value} (h : rangeArith op a b = .ok r) :
    ∃ lo hi, r = numRangeResult lo hi := rangeArithC_shape h
theorem rangeArith_nn {op : Num → Num → Res Num} {a b r : Value} (h : rangeArith op a b = .ok r) : r.isNull = false :=
  rangeArithC_nn h

theorem addU_nn {a b r : Value} (h : addU a b = .ok r) : r.isNull = false := by
  unfold addU at h
  obtain ⟨tc, htc, h⟩ := Res.bind_eq_ok.mp h
  rcases tc_cases tc with rfl | rfl | rfl <;> simp only at h
  · obtain ⟨x, hx, h⟩ := Res.bind_eq_ok.mp h
    obtain ⟨y, hy, h⟩ := Res.bind_eq_ok.mp h
    obtain ⟨z, hz, h⟩ := Res.bind_eq_ok.mp h
    simp only [pure, Res.ok.injEq] at h; subst h; rfl
  · exact rangeArith_nn h
  · exact rangeArith_nn h

theorem subU_nn {a b r : Value} (h : subU a b = .ok r) : r.isNull = false := by
  unfold subU at h
  obtain ⟨tc, htc, h⟩ := Res.bind_eq_ok.mp h
  rcases tc_cases tc with rfl | rfl | rfl <;> simp only at h
  · obtain ⟨x, hx, h⟩ := Res.bind_eq_ok.mp h
    obtain ⟨y, hy, h⟩ := Res.bind_eq_ok.mp h
    obtain ⟨z, hz, h⟩ := Res.bind_eq_ok.mp h
    simp only [pure, Res.ok.injEq] at h; subst h; rfl
  · exact rangeArith_nn h
  · exact rangeArith_nn h

theorem mulU_nn {a b r : Value} (h : mulU a b = .ok r) : r.isNull = false := by
  unfold mulU at h
  obtain ⟨tc, htc, h⟩ := Res.bind_eq_ok.mp h
  rcases tc_cases tc with rfl | rfl | rfl <;> simp only at h
  · obtain ⟨x, hx, h⟩ := Res.bind_eq_ok.mp h
    obtain ⟨y, hy, h⟩ := Res.bind_eq_ok.mp h
    obtain ⟨z, hz, h⟩ := Res.bind_eq_ok.mp h
    simp only [pure, Res.ok.injEq] at h; subst h; rfl
  all_goals
    split at h
    · simp only [pure, Res.ok.injEq] at h; subst h; rfl
    · exact rangeArithC_nn h

theorem divU_nn {a b r : Value} (h : divU a b = .ok r) : r.isNull = false := by
  unfold divU at h
  obtain ⟨tc, htc, h⟩ := Res.bind_eq_ok.mp h
  rcases tc_cases tc with rfl | rfl | rfl <;> simp only at h
  · obtain ⟨x, hx, h⟩ := Res.bind_eq_ok.mp h
    obtain ⟨y, hy, h⟩ := Res.bind_eq_ok.mp h
    obtain ⟨z, hz, h⟩ := Res.bind_eq_ok.mp h
    simp only [pure, Res.ok.injEq] at h; subst h; rfl
  · simp only [pure, Res.ok.injEq] at h; subst h; rfl
  · simp only [pure, Res.ok.injEq] at h; subst h; rfl

theorem negU_nn {a r : Value} (h : negU a = .ok r) : r.isNull = false := by
  unfold negU at h
  obtain ⟨tc, htc, h⟩ := Res.bind_eq_ok.mp h
  rcases tc_cases tc with rfl | rfl | rfl <;> simp only at h
  · obtain ⟨x, hx, h⟩ := Res.bind_eq_ok.mp h
    simp only [pure, Res.ok.injEq] at h; subst h; rfl
  · simp only [pure, Res.ok.injEq] at h; subst h; rfl
  · simp only [pure, Res.ok.injEq] at h; subst h; rfl

theorem absU_nn {a r : Value} (h : absU a = .ok r) : r.isNull = false := by
  unfold absU at h
  obtain ⟨tc, htc, h⟩ := Res.bind_eq_ok.mp h
  rcases tc_cases tc with rfl | rfl | rfl <;> simp only at h
  · obtain ⟨x, hx, h⟩ := Res.bind_eq_ok.mp h
    simp only [pure, Res.ok.injEq] at h; subst h; rfl
  · simp only [pure, Res.ok.injEq] at h; subst h; rfl
  · simp only [pure, Res.ok.injEq] at h; subst h; rfl

theorem not_never_null (a r : Value) (h : Value.not a = .ok r) : r.isNull = false :=
  unMarks_lift _ nn_withMarks (fun _ => notU_nn) h
theorem and_never_null (a b r : Value) (h : Value.and a b = .ok r) : r.isNull = false :=
  binMarks_lift _ nn_withMarks (fun _ => andU_nn) h
theorem or_never_null (a b r : Value) (h : Value.or a b = .ok r) : r.isNull = false :=
  binMarks_lift _ nn_withMarks (fun _ => orU_nn) h
theorem lessThan_never_null (a b r : Value) (h : Value.lessThan a b = .ok r) : r.isNull = false :=
  binMarks_lift _ nn_withMarks (fun _ => lessThanU_nn) h
theorem greaterThan_never_null (a b r : Value) (h : Value.greaterThan a b = .ok r) : r.isNull = false :=
  binMarks_lift _ nn_withMarks (fun _ => greaterThanU_nn) h
theorem add_never_null (a b r : Value) (h : Value.add a b = .ok r) : r.isNull = false :=
  binMarks_lift _ nn_withMarks (fun _ => addU_nn) h
theorem sub_never_null (a b r : Value) (h : Value.sub a b = .ok r) : r.isNull = false :=
  binMarks_lift _ nn_withMarks (fun _ => subU_nn) h
theorem mul_never_null (a b r : Value) (h : Value.mul a b = .ok r) : r.isNull = false :=
  binMarks_lift _ nn_withMarks (fun _ => mulU_nn) h
theorem div_never_null (a b r : Value) (h : Value.div a b = .ok r) : r.isNull = false :=
  binMarks_lift _ nn_withMarks (fun _ => divU_nn) h
theorem neg_never_null (a r : Value) (h : Value.neg a = .ok r) : r.isNull = false :=
  unMarks_lift _ nn_withMarks (fun _ => negU_nn) h
theorem abs_never_null (a r : Value) (h : Value.abs a = .ok r) : r.isNull = false :=
  unMarks_lift _ nn_withMarks (fun _ => absU_nn) h

theorem lengthU_nn {v r : Value} (h : lengthU v = .ok r) : r.isNull = false := by
  unfold lengthU at h
  repeat' (first | split at h | (obtain ⟨_, _, h⟩ := Res.bind_eq_ok.mp h))
  all_goals (cases h <;> simp)

theorem hasIndexU_nn {v k r : Value} (h : hasIndexU v k = .ok r) : r.isNull = false := by
  unfold hasIndexU at h
  repeat' (first | split at h | (obtain ⟨_, _, h⟩ := Res.bind_eq_ok.mp h))
  all_goals (cases h <;> simp)

theorem hasElementU_nn {v e r : Value} {eh : Option Int} (h : hasElementU v e eh = .ok r) : r.isNull = false := by
  unfold hasElementU at h
  simp only at h
  repeat' split at h
  all_goals first
    | (cases h <;> simp)
    | (obtain ⟨f, _, rfl⟩ := res_map_ok h; cases f <;> simp)

theorem length_never_null (a r : Value) (h : Value.length a = .ok r) : r.isNull = false :=
  unMarks_lift _ nn_withMarks (fun _ => lengthU_nn) h
theorem hasIndex_never_null (a b r : Value) (h : Value.hasIndex a b = .ok r) : r.isNull = false :=
  binMarks_lift _ nn_withMarks (fun _ => hasIndexU_nn) h
theorem hasElement_never_null (a b r : Value) (eh : Option Int) (h : Value.hasElement a b eh = .ok r) :
    r.isNull = false := by
  unfold Value.hasElement at h
  split at h
  · obtain ⟨r0, h0, rfl⟩ := res_map_ok h
    rw [isNull_withMarks]; exact hasElementU_nn h0
  · exact hasElementU_nn h

/-! ### Equals is never null -/
theorem equalsPre_shape {a b r : Value} (h : equalsPre a b = .ok (some r)) : (∃ x, r = boolVal x) ∨ r = unkBool := by
  unfold equalsPre at h
  simp only at h
  repeat' (first | split at h | (obtain ⟨_, _, h⟩ := Res.bind_eq_ok.mp h))
  all_goals first
    | (cases h; done)
    | (cases h; exact Or.inl ⟨_, rfl⟩)
    | (cases h; exact Or.inr rfl)

theorem equalsFuel_nn {fuel : Nat} {ta tb : Ty} {a b : Payload} {r : Value}
    (h : equalsFuel fuel ta a tb b = .ok r) : r.isNull = false := by
  cases fuel with
  | zero => cases h
  | succ n =>
    unfold equalsFuel at h
    split at h
    · rename_i r' hp
      cases h
      rcases equalsPre_shape hp with ⟨x, rfl⟩ | rfl <;> rfl
    · cases h
    · cases h
    · cases h
    · simp only at h
      repeat' split at h
      all_goals first
        | (cases h <;> simp)
        | (obtain ⟨acc, _, rfl⟩ := res_map_ok h; simp)

theorem equals_never_null (a b r : Value) (h : Value.equals a b = .ok r) : r.isNull = false := by
  unfold Value.equals at h
  split at h
  · obtain ⟨r0, h0, rfl⟩ := res_map_ok h
    rw [isNull_withMarks]; exact equalsFuel_nn h0
  · exact equalsFuel_nn h

theorem notEqual_never_null (a b r : Value) (h : Value.notEqual a b = .ok r) : r.isNull = false := by
  unfold Value.notEqual at h
  obtain ⟨e, _, h⟩ := Res.bind_eq_ok.mp h
  exact not_never_null _ _ h
theorem lessThanOrEqualTo_never_null (a b r : Value) (h : Value.lessThanOrEqualTo a b = .ok r) : r.isNull = false := by
  unfold Value.lessThanOrEqualTo at h
  obtain ⟨l, _, h⟩ := Res.bind_eq_ok.mp h
  obtain ⟨e, _, h⟩ := Res.bind_eq_ok.mp h
  exact or_never_null _ _ _ h
theorem greaterThanOrEqualTo_never_null (a b r : Value) (h : Value.greaterThanOrEqualTo a b = .ok r) : r.isNull = false := by
  unfold Value.greaterThanOrEqualTo at h
  obtain ⟨l, _, h⟩ := Res.bind_eq_ok.mp h
  obtain ⟨e, _, h⟩ := Res.bind_eq_ok.mp h
  exact or_never_null _ _ _ h

/-! ### Modulo: the receiver comes back when the divisor is zero -/
theorem modBody_shape {a b r : Value} (h : modBody a b = .ok r) : (∃ x, r = numVal x) ∨ r = a := by
  unfold modBody at h
  simp only at h
  repeat' (first | split at h | (obtain ⟨_, _, h⟩ := Res.bind_eq_ok.mp h))
  all_goals first
    | (cases h; done)
    | (cases h; exact Or.inl ⟨_, rfl⟩)
    | (cases h; exact Or.inr rfl)

theorem modU_shape {a b r : Value} (h : modU a b = .ok r) : (∃ x, r = numVal x) ∨ r = a ∨ r = unkNumNotNull := by
  rw [modU_eq] at h
  obtain ⟨tc, htc, h⟩ := Res.bind_eq_ok.mp h
  rcases tc_cases tc with rfl | rfl | rfl <;> simp only at h
  · rcases modBody_shape h with h | h
    · exact Or.inl h
    · exact Or.inr (Or.inl h)
  · cases h; exact Or.inr (Or.inr rfl)
  · cases h; exact Or.inr (Or.inr rfl)

def ModNeverNull : Prop := ∀ a b r, Value.mod a b = .ok r → r.isNull = false

/-- NOTE the hypothesis is about the operand below its top-level marker: for a
payload with two stacked markers (which the implementation never builds)
`a.isNull = false` does not imply `a.unmark.isNull = false`. -/
theorem mod_never_null_unmark (a b r : Value) (hn : a.unmark.isNull = false) (h : Value.mod a b = .ok r) :
    r.isNull = false := by
  refine binMarks_lift _ nn_withMarks (fun r h => ?_) h
  rcases modU_shape h with ⟨x, rfl⟩ | rfl | rfl
  · rfl
  · exact hn
  · rfl

theorem isNull_unmark_of_flat {a : Value} (hf : a.unmark.isMarked = false) : a.unmark.isNull = a.isNull := by
  obtain ⟨t, p⟩ := a
  cases p <;> simp_all [Value.unmark, Value.isNull, Value.isMarked, Payload.isNull, Payload.unmark1, Payload.isMarked]
  rename_i ms q
  cases q <;> simp_all

theorem mod_never_null_partial (a b r : Value) (hf : a.unmark.isMarked = false) (hn : a.isNull = false)
    (h : Value.mod a b = .ok r) : r.isNull = false :=
  mod_never_null_unmark a b r (by rw [isNull_unmark_of_flat hf]; exact hn) h

theorem mod_null_zero_counterexample : Value.mod ⟨.number, .null⟩ (intVal 0) = .ok ⟨.number, .null⟩ := by rfl

/-- without `hf` the partial statement fails on a payload with stacked markers -/
theorem mod_stacked_marker_counterexample :
    (⟨.number, .marked ["x"] (.marked ["y"] .null)⟩ : Value).isNull = false ∧
    Value.mod ⟨.number, .marked ["x"] (.marked ["y"] .null)⟩ (intVal 0) = .ok ⟨.number, .marked ["x", "y"] .null⟩ :=
  ⟨rfl, by rfl⟩

theorem modNeverNull_false : ¬ ModNeverNull := by
  intro h
  have := h _ _ _ mod_null_zero_counterexample
  cases this

/-! ### B. wholly known operands of a real type give wholly known results -/
def KnownInKnownOut₁ (op : Value → Res Value) : Prop :=
  ∀ a r, a.whollyKnown = true → op a = .ok r → r.whollyKnown = true
def KnownInKnownOut₂ (op : Value → Value → Res Value) : Prop :=
  ∀ a b r, a.whollyKnown = true → b.whollyKnown = true → op a b = .ok r → r.whollyKnown = true

theorem isKnown_of_wk {v : Value} (h : v.whollyKnown = true) : v.isKnown = true := by
  obtain ⟨t, p⟩ := v
  cases p <;> simp_all [Value.whollyKnown, Payload.whollyKnown, Value.isKnown, Payload.isKnown, Payload.unmark1]
  rename_i ms q
  cases q <;> simp_all [Payload.whollyKnown]

theorem isDyn_false {t : Ty} (h : t ≠ .dyn) : t.isDyn = false := by
  cases hd : t.isDyn
  · rfl
  · exact absurd (isDyn_iff.mp hd) h

theorem tc1_none {req : Ty} {a : Value} {tc : TC} (hk : a.whollyKnown = true) (ht : a.ty ≠ .dyn)
    (h : typeCheck req [a] = .ok tc) : tc = .none := by
  rw [typeCheck1] at h
  simp only [isDyn_false ht, isUnk_of_whollyKnown hk, Bool.false_eq_true, if_false] at h
  split at h
  · cases h
  · cases h; rfl

theorem tc2_none {req : Ty} {a b : Value} {tc : TC} (ha : a.whollyKnown = true) (hb : b.whollyKnown = true)
    (hta : a.ty ≠ .dyn) (htb : b.ty ≠ .dyn) (h : typeCheck req [a, b] = .ok tc) : tc = .none := by
  rw [typeCheck2] at h
  simp only [isDyn_false hta, isDyn_false htb, isUnk_of_whollyKnown ha, isUnk_of_whollyKnown hb,
    Bool.false_or, Bool.or_self, Bool.false_eq_true, if_false] at h
  split at h
  · cases h
  · split at h
    · cases h
    · cases h; rfl

theorem notU_wk {a r : Value} (ha : a.whollyKnown = true)
    (hta : a.ty ≠ .dyn) (h : notU a = .ok r) : r.whollyKnown = true := by
  unfold notU at h
  obtain ⟨tc, htc, h⟩ := Res.bind_eq_ok.mp h
  have := tc1_none ha hta htc; subst this
  simp only at h
  obtain ⟨x0, _, h⟩ := Res.bind_eq_ok.mp h
  cases h; rfl

theorem negU_wk {a r : Value} (ha : a.whollyKnown = true)
    (hta : a.ty ≠ .dyn) (h : negU a = .ok r) : r.whollyKnown = true := by
  unfold negU at h
  obtain ⟨tc, htc, h⟩ := Res.bind_eq_ok.mp h
  have := tc1_none ha hta htc; subst this
  simp only at h
  obtain ⟨x0, _, h⟩ := Res.bind_eq_ok.mp h
  cases h; rfl

theorem absU_wk {a r : Value} (ha : a.whollyKnown = true)
    (hta : a.ty ≠ .dyn) (h : absU a = .ok r) : r.whollyKnown = true := by
  unfold absU at h
  obtain ⟨tc, htc, h⟩ := Res.bind_eq_ok.mp h
  have := tc1_none ha hta htc; subst this
  simp only at h
  obtain ⟨x0, _, h⟩ := Res.bind_eq_ok.mp h
  cases h; rfl

theorem lessThanU_wk {a b r : Value} (ha : a.whollyKnown = true) (hb : b.whollyKnown = true)
    (hta : a.ty ≠ .dyn) (htb : b.ty ≠ .dyn) (h : lessThanU a b = .ok r) : r.whollyKnown = true := by
  unfold lessThanU at h
  obtain ⟨tc, htc, h⟩ := Res.bind_eq_ok.mp h
  have := tc2_none ha hb hta htb htc; subst this
  simp only at h
  obtain ⟨x0, _, h⟩ := Res.bind_eq_ok.mp h
  obtain ⟨x1, _, h⟩ := Res.bind_eq_ok.mp h
  cases h; rfl

theorem greaterThanU_wk {a b r : Value} (ha : a.whollyKnown = true) (hb : b.whollyKnown = true)
    (hta : a.ty ≠ .dyn) (htb : b.ty ≠ .dyn) (h : greaterThanU a b = .ok r) : r.whollyKnown = true := by
  unfold greaterThanU at h
  obtain ⟨tc, htc, h⟩ := Res.bind_eq_ok.mp h
  have := tc2_none ha hb hta htb htc; subst this
  simp only at h
  obtain ⟨x0, _, h⟩ := Res.bind_eq_ok.mp h
  obtain ⟨x1, _, h⟩ := Res.bind_eq_ok.mp h
  cases h; rfl

theorem addU_wk {a b r : Value} (ha : a.whollyKnown = true) (hb : b.whollyKnown = true)
    (hta : a.ty ≠ .dyn) (htb : b.ty ≠ .dyn) (h : addU a b = .ok r) : r.whollyKnown = true := by
  unfold addU at h
  obtain ⟨tc, htc, h⟩ := Res.bind_eq_ok.mp h
  have := tc2_none ha hb hta htb htc; subst this
  simp only at h
  obtain ⟨x0, _, h⟩ := Res.bind_eq_ok.mp h
  obtain ⟨x1, _, h⟩ := Res.bind_eq_ok.mp h
  obtain ⟨x2, _, h⟩ := Res.bind_eq_ok.mp h
  cases h; rfl

theorem subU_wk {a b r : Value} (ha : a.whollyKnown = true) (hb : b.whollyKnown = true)
    (hta : a.ty ≠ .dyn) (htb : b.ty ≠ .dyn) (h : subU a b = .ok r) : r.whollyKnown = true := by
  unfold subU at h
  obtain ⟨tc, htc, h⟩ := Res.bind_eq_ok.mp h
  have := tc2_none ha hb hta htb htc; subst this
  simp only at h
  obtain ⟨x0, _, h⟩ := Res.bind_eq_ok.mp h
  obtain ⟨x1, _, h⟩ := Res.bind_eq_ok.mp h
  obtain ⟨x2, _, h⟩ := Res.bind_eq_ok.mp h
  cases h; rfl

theorem mulU_wk {a b r : Value} (ha : a.whollyKnown = true) (hb : b.whollyKnown = true)
    (hta : a.ty ≠ .dyn) (htb : b.ty ≠ .dyn) (h : mulU a b = .ok r) : r.whollyKnown = true := by
  unfold mulU at h
  obtain ⟨tc, htc, h⟩ := Res.bind_eq_ok.mp h
  have := tc2_none ha hb hta htb htc; subst this
  simp only at h
  obtain ⟨x0, _, h⟩ := Res.bind_eq_ok.mp h
  obtain ⟨x1, _, h⟩ := Res.bind_eq_ok.mp h
  obtain ⟨x2, _, h⟩ := Res.bind_eq_ok.mp h
  cases h; rfl

theorem divU_wk {a b r : Value} (ha : a.whollyKnown = true) (hb : b.whollyKnown = true)
    (hta : a.ty ≠ .dyn) (htb : b.ty ≠ .dyn) (h : divU a b = .ok r) : r.whollyKnown = true := by
  unfold divU at h
  obtain ⟨tc, htc, h⟩ := Res.bind_eq_ok.mp h
  have := tc2_none ha hb hta htb htc; subst this
  simp only at h
  obtain ⟨x0, _, h⟩ := Res.bind_eq_ok.mp h
  obtain ⟨x1, _, h⟩ := Res.bind_eq_ok.mp h
  obtain ⟨x2, _, h⟩ := Res.bind_eq_ok.mp h
  cases h; rfl


theorem andU_wk {a b r : Value} (ha : a.whollyKnown = true) (hb : b.whollyKnown = true)
    (hta : a.ty ≠ .dyn) (htb : b.ty ≠ .dyn) (h : andU a b = .ok r) : r.whollyKnown = true := by
  unfold andU at h
  obtain ⟨tc, htc, h⟩ := Res.bind_eq_ok.mp h
  have := tc2_none ha hb hta htb htc; subst this
  simp only at h
  obtain ⟨x, _, h⟩ := Res.bind_eq_ok.mp h
  split at h
  · cases h; rfl
  · obtain ⟨y, _, h⟩ := Res.bind_eq_ok.mp h
    cases h; rfl

theorem orU_wk {a b r : Value} (ha : a.whollyKnown = true) (hb : b.whollyKnown = true)
    (hta : a.ty ≠ .dyn) (htb : b.ty ≠ .dyn) (h : orU a b = .ok r) : r.whollyKnown = true := by
  unfold orU at h
  obtain ⟨tc, htc, h⟩ := Res.bind_eq_ok.mp h
  have := tc2_none ha hb hta htb htc; subst this
  simp only at h
  obtain ⟨x, _, h⟩ := Res.bind_eq_ok.mp h
  split at h
  · cases h; rfl
  · obtain ⟨y, _, h⟩ := Res.bind_eq_ok.mp h
    cases h; rfl

theorem modU_wk {a b r : Value} (ha : a.whollyKnown = true) (hb : b.whollyKnown = true)
    (hta : a.ty ≠ .dyn) (htb : b.ty ≠ .dyn) (h : modU a b = .ok r) : r.whollyKnown = true := by
  rw [modU_eq] at h
  obtain ⟨tc, htc, h⟩ := Res.bind_eq_ok.mp h
  have := tc2_none ha hb hta htb htc; subst this
  simp only at h
  rcases modBody_shape h with ⟨x, rfl⟩ | rfl
  · rfl
  · exact ha

theorem lengthU_wk {v r : Value} (hk : v.whollyKnown = true) (h : lengthU v = .ok r) : r.whollyKnown = true := by
  unfold lengthU at h
  have hkn := isKnown_of_wk hk
  simp only [hkn, Bool.not_true, Bool.false_eq_true, if_false] at h
  repeat' split at h
  all_goals first
    | (cases h; done)
    | (cases h; rfl)
    | (rename_i hv hc
       exfalso; apply hc
       simp only [Value.whollyKnown, hv, Payload.whollyKnown] at hk
       simp [hk])

theorem hasIndexU_wk {v k r : Value} (hv : v.whollyKnown = true) (hk : k.whollyKnown = true)
    (htv : v.ty ≠ .dyn) (htk : k.ty ≠ .dyn) (h : hasIndexU v k = .ok r) : r.whollyKnown = true := by
  unfold hasIndexU at h
  simp only [isKnown_of_wk hv, isKnown_of_wk hk, isDyn_false htv, isDyn_false htk,
    Bool.not_true, Bool.false_eq_true, if_false] at h
  repeat' (first | split at h | (obtain ⟨_, _, h⟩ := Res.bind_eq_ok.mp h))
  all_goals first
    | (cases h; done)
    | (cases h; rfl)

theorem hasElementU_wk {v e r : Value} {eh : Option Int} (hv : v.whollyKnown = true) (he : e.isKnown = true)
    (h : hasElementU v e eh = .ok r) : r.whollyKnown = true := by
  unfold hasElementU at h
  simp only [isKnown_of_wk hv, he, hv, Bool.not_true, Bool.false_eq_true, if_false, if_true] at h
  repeat' split at h
  all_goals first
    | (cases h; done)
    | (cases h; rfl)
    | (obtain ⟨found, _, rfl⟩ := res_map_ok h; cases found <;> rfl)

theorem wkL_getElem {vs : List Payload} {i : Nat} {p : Payload} (h : Payload.whollyKnownL vs = true)
    (hp : vs[i]? = some p) : p.whollyKnown = true := by
  induction vs generalizing i with
  | nil => simp at hp
  | cons v vs ih =>
    simp only [Payload.whollyKnownL, Bool.and_eq_true] at h
    cases i with
    | zero => simp at hp; subst hp; exact h.1
    | succ j => simp at hp; exact ih h.2 hp

theorem wkL_lookupKey {k : String} {ks : List String} {vs : List Payload} {p : Payload}
    (h : Payload.whollyKnownL vs = true) (hp : lookupKey k ks vs = some p) : p.whollyKnown = true := by
  induction ks generalizing vs with
  | nil => simp [lookupKey] at hp
  | cons n ns ih =>
    cases vs with
    | nil => simp [lookupKey] at hp
    | cons v vs =>
      simp only [Payload.whollyKnownL, Bool.and_eq_true] at h
      simp only [lookupKey] at hp
      split at hp
      · cases hp; exact h.1
      · exact ih h.2 hp

theorem wk_seq_get {v : Value} {e : Ty} {vs : List Payload} {i : Nat} {p : Payload} (hk : v.whollyKnown = true)
    (hv : v.v = .seq vs) (hp : vs[i]? = some p) : Value.whollyKnown ⟨e, p⟩ = true := by
  simp only [Value.whollyKnown, hv, Payload.whollyKnown] at hk
  exact wkL_getElem hk hp

theorem wk_smap_get {v : Value} {e : Ty} {k : String} {ks : List String} {vs : List Payload} (hk : v.whollyKnown = true)
    (hv : v.v = .smap ks vs) : Value.whollyKnown ⟨e, (lookupKey k ks vs).getD .null⟩ = true := by
  simp only [Value.whollyKnown, hv, Payload.whollyKnown] at hk
  cases hl : lookupKey k ks vs with
  | none => rfl
  | some p => exact wkL_lookupKey hk hl

theorem wk_smap_lookup {v : Value} {e : Ty} {k : String} {ks : List String} {vs : List Payload} {p : Payload}
    (hk : v.whollyKnown = true) (hv : v.v = .smap ks vs) (hl : lookupKey k ks vs = some p) :
    Value.whollyKnown ⟨e, p⟩ = true := by
  simp only [Value.whollyKnown, hv, Payload.whollyKnown] at hk
  exact wkL_lookupKey hk hl

theorem indexU_wk {v k r : Value} (hv : v.whollyKnown = true) (hk : k.whollyKnown = true)
    (htv : v.ty ≠ .dyn) (htk : k.ty ≠ .dyn) (h : indexU v k = .ok r) : r.whollyKnown = true := by
  unfold indexU at h
  simp only [isKnown_of_wk hv, isKnown_of_wk hk, isDyn_false htv, isDyn_false htk,
    Bool.not_true, Bool.false_eq_true, if_false] at h
  repeat' (first | split at h | (obtain ⟨_, _, h⟩ := Res.bind_eq_ok.mp h))
  all_goals first
    | (cases h; done)
    | (cases h; exact wk_seq_get hv (by assumption) (by assumption))
    | (cases h; exact wk_smap_get hv (by assumption))

theorem getAttrU_wk {v r : Value} {name : String} (hv : v.whollyKnown = true)
    (htv : v.ty ≠ .dyn) (h : getAttrU v name = .ok r) : r.whollyKnown = true := by
  unfold getAttrU at h
  simp only [isKnown_of_wk hv, isDyn_false htv, Bool.not_true, Bool.false_eq_true, if_false] at h
  repeat' split at h
  all_goals first
    | (cases h; done)
    | (cases h; rfl)
    | (cases h; exact wk_smap_lookup hv (by assumption) (by assumption))

mutual
theorem wk_stripMarks : ∀ p : Payload, p.stripMarks.whollyKnown = p.whollyKnown
  | .marked _ r => by simp only [Payload.stripMarks, Payload.whollyKnown]; exact wk_stripMarks r
  | .seq vs => by simp only [Payload.stripMarks, Payload.whollyKnown]; exact wk_stripMarksL vs
  | .smap _ vs => by simp only [Payload.stripMarks, Payload.whollyKnown]; exact wk_stripMarksL vs
  | .sset _ vs => by simp only [Payload.stripMarks, Payload.whollyKnown]; exact wk_stripMarksL vs
  | .null => rfl
  | .unk _ => rfl
  | .b _ => rfl
  | .n _ => rfl
  | .s _ => rfl
  | .caps => rfl
  | .bad _ => rfl
theorem wk_stripMarksL : ∀ vs : List Payload, Payload.whollyKnownL (Payload.stripMarksL vs) = Payload.whollyKnownL vs
  | [] => rfl
  | v :: vs => by
    simp only [Payload.stripMarksL, Payload.whollyKnownL]
    rw [wk_stripMarks v, wk_stripMarksL vs]
end

theorem whollyKnown_unmarkDeep (v : Value) : v.unmarkDeep.whollyKnown = v.whollyKnown :=
  wk_stripMarks v.v

/-! ### B. top level -/
theorem not_known_partial (a r : Value) (hk : a.whollyKnown = true) (ht : a.ty ≠ .dyn)
    (h : Value.not a = .ok r) : r.whollyKnown = true :=
  unMarks_lift _ wk_withMarks (fun _ => notU_wk (by rw [whollyKnown_unmark]; exact hk) ht) h
theorem neg_known_partial (a r : Value) (hk : a.whollyKnown = true) (ht : a.ty ≠ .dyn)
    (h : Value.neg a = .ok r) : r.whollyKnown = true :=
  unMarks_lift _ wk_withMarks (fun _ => negU_wk (by rw [whollyKnown_unmark]; exact hk) ht) h
theorem abs_known_partial (a r : Value) (hk : a.whollyKnown = true) (ht : a.ty ≠ .dyn)
    (h : Value.abs a = .ok r) : r.whollyKnown = true :=
  unMarks_lift _ wk_withMarks (fun _ => absU_wk (by rw [whollyKnown_unmark]; exact hk) ht) h
theorem and_known_partial (a b r : Value) (ha : a.whollyKnown = true) (hb : b.whollyKnown = true)
    (hta : a.ty ≠ .dyn) (htb : b.ty ≠ .dyn) (h : Value.and a b = .ok r) : r.whollyKnown = true :=
  binMarks_lift _ wk_withMarks (fun _ => andU_wk (by rw [whollyKnown_unmark]; exact ha)
    (by rw [whollyKnown_unmark]; exact hb) hta htb) h
theorem or_known_partial (a b r : Value) (ha : a.whollyKnown = true) (hb : b.whollyKnown = true)
    (hta : a.ty ≠ .dyn) (htb : b.ty ≠ .dyn) (h : Value.or a b = .ok r) : r.whollyKnown = true :=
  binMarks_lift _ wk_withMarks (fun _ => orU_wk (by rw [whollyKnown_unmark]; exact ha)
    (by rw [whollyKnown_unmark]; exact hb) hta htb) h
theorem lessThan_known_partial (a b r : Value) (ha : a.whollyKnown = true) (hb : b.whollyKnown = true)
    (hta : a.ty ≠ .dyn) (htb : b.ty ≠ .dyn) (h : Value.lessThan a b = .ok r) : r.whollyKnown = true :=
  binMarks_lift _ wk_withMarks (fun _ => lessThanU_wk (by rw [whollyKnown_unmark]; exact ha)
    (by rw [whollyKnown_unmark]; exact hb) hta htb) h
theorem greaterThan_known_partial (a b r : Value) (ha : a.whollyKnown = true) (hb : b.whollyKnown = true)
    (hta : a.ty ≠ .dyn) (htb : b.ty ≠ .dyn) (h : Value.greaterThan a b = .ok r) : r.whollyKnown = true :=
  binMarks_lift _ wk_withMarks (fun _ => greaterThanU_wk (by rw [whollyKnown_unmark]; exact ha)
    (by rw [whollyKnown_unmark]; exact hb) hta htb) h
theorem add_known_partial (a b r : Value) (ha : a.whollyKnown = true) (hb : b.whollyKnown = true)
    (hta : a.ty ≠ .dyn) (htb : b.ty ≠ .dyn) (h : Value.add a b = .ok r) : r.whollyKnown = true :=
  binMarks_lift _ wk_withMarks (fun _ => addU_wk (by rw [whollyKnown_unmark]; exact ha)
    (by rw [whollyKnown_unmark]; exact hb) hta htb) h
theorem sub_known_partial (a b r : Value) (ha : a.whollyKnown = true) (hb : b.whollyKnown = true)
    (hta : a.ty ≠ .dyn) (htb : b.ty ≠ .dyn) (h : Value.sub a b = .ok r) : r.whollyKnown = true :=
  binMarks_lift _ wk_withMarks (fun _ => subU_wk (by rw [whollyKnown_unmark]; exact ha)
    (by rw [whollyKnown_unmark]; exact hb) hta htb) h
theorem mul_known_partial (a b r : Value) (ha : a.whollyKnown = true) (hb : b.whollyKnown = true)
    (hta : a.ty ≠ .dyn) (htb : b.ty ≠ .dyn) (h : Value.mul a b = .ok r) : r.whollyKnown = true :=
  binMarks_lift _ wk_withMarks (fun _ => mulU_wk (by rw [whollyKnown_unmark]; exact ha)
    (by rw [whollyKnown_unmark]; exact hb) hta htb) h
theorem div_known_partial (a b r : Value) (ha : a.whollyKnown = true) (hb : b.whollyKnown = true)
    (hta : a.ty ≠ .dyn) (htb : b.ty ≠ .dyn) (h : Value.div a b = .ok r) : r.whollyKnown = true :=
  binMarks_lift _ wk_withMarks (fun _ => divU_wk (by rw [whollyKnown_unmark]; exact ha)
    (by rw [whollyKnown_unmark]; exact hb) hta htb) h
theorem mod_known_partial (a b r : Value) (ha : a.whollyKnown = true) (hb : b.whollyKnown = true)
    (hta : a.ty ≠ .dyn) (htb : b.ty ≠ .dyn) (h : Value.mod a b = .ok r) : r.whollyKnown = true :=
  binMarks_lift _ wk_withMarks (fun _ => modU_wk (by rw [whollyKnown_unmark]; exact ha)
    (by rw [whollyKnown_unmark]; exact hb) hta htb) h
theorem hasIndex_known_partial (a b r : Value) (ha : a.whollyKnown = true) (hb : b.whollyKnown = true)
    (hta : a.ty ≠ .dyn) (htb : b.ty ≠ .dyn) (h : Value.hasIndex a b = .ok r) : r.whollyKnown = true :=
  binMarks_lift _ wk_withMarks (fun _ => hasIndexU_wk (by rw [whollyKnown_unmark]; exact ha)
    (by rw [whollyKnown_unmark]; exact hb) hta htb) h
theorem index_known_partial (a b r : Value) (ha : a.whollyKnown = true) (hb : b.whollyKnown = true)
    (hta : a.ty ≠ .dyn) (htb : b.ty ≠ .dyn) (h : Value.index a b = .ok r) : r.whollyKnown = true :=
  binMarks_lift _ wk_withMarks (fun _ => indexU_wk (by rw [whollyKnown_unmark]; exact ha)
    (by rw [whollyKnown_unmark]; exact hb) hta htb) h

theorem length_known_partial (a r : Value) (hk : a.whollyKnown = true) (_ht : a.ty ≠ .dyn)
    (h : Value.length a = .ok r) : r.whollyKnown = true :=
  unMarks_lift _ wk_withMarks (fun _ => lengthU_wk (by rw [whollyKnown_unmark]; exact hk)) h

theorem getAttr_known_partial (a : Value) (name : String) (r : Value) (hk : a.whollyKnown = true) (ht : a.ty ≠ .dyn)
    (h : Value.getAttr a name = .ok r) : r.whollyKnown = true := by
  unfold Value.getAttr at h
  have hu : a.unmark.whollyKnown = true := by rw [whollyKnown_unmark]; exact hk
  split at h
  · obtain ⟨r0, h0, rfl⟩ := res_map_ok h
    rw [whollyKnown_withMarks]; exact getAttrU_wk hu ht h0
  · exact getAttrU_wk hk ht h

theorem hasElement_known_partial (a b r : Value) (eh : Option Int) (ha : a.whollyKnown = true) (hb : b.whollyKnown = true)
    (_hta : a.ty ≠ .dyn) (_htb : b.ty ≠ .dyn) (h : Value.hasElement a b eh = .ok r) : r.whollyKnown = true := by
  unfold Value.hasElement at h
  split at h
  · obtain ⟨r0, h0, rfl⟩ := res_map_ok h
    rw [whollyKnown_withMarks]
    exact hasElementU_wk (by rw [whollyKnown_unmark]; exact ha)
      (isKnown_of_wk (by rw [whollyKnown_unmarkDeep]; exact hb)) h0
  · exact hasElementU_wk ha (isKnown_of_wk hb) h

/-! ### counterexamples to the unrestricted statement: a null of the placeholder type -/
theorem not_null_dyn_counterexample : Value.not ⟨.dyn, .null⟩ = .ok unkBool := by rfl
theorem neg_null_dyn_counterexample : Value.neg ⟨.dyn, .null⟩ = .ok unkNumNotNull := by rfl
theorem getAttr_null_dyn_counterexample : Value.getAttr ⟨.dyn, .null⟩ "a" = .ok dynVal := by rfl
theorem knownInKnownOut_not_false : ¬ KnownInKnownOut₁ Value.not := by
  intro h
  have := h _ _ rfl not_null_dyn_counterexample
  cases this

/-! ### Equals on wholly known operands never answers "unknown" -/
theorem equalsPre_known {a b r : Value} (ha : a.isKnown = true) (hb : b.isKnown = true)
    (h : equalsPre a b = .ok (some r)) : ∃ x, r = boolVal x := by
  unfold equalsPre at h
  simp only [ha, hb, Bool.not_true, Bool.and_false, Bool.and_self, Bool.false_eq_true, if_false] at h
  repeat' split at h
  all_goals first
    | (cases h; done)
    | (cases h; exact ⟨_, rfl⟩)

mutual
theorem hwkt_of_wk : ∀ (t : Ty) (p : Payload), p.whollyKnown = true → hasWhollyKnownType t p = true
  | t, .null, _ => by cases t <;> rfl
  | t, .unk _, h => by simp [Payload.whollyKnown] at h
  | t, .seq vs, h => by
    simp only [Payload.whollyKnown] at h
    cases t <;> first
      | rfl
      | (simp only [hasWhollyKnownType]; exact hwktAll_of_wk _ vs h)
      | (simp only [hasWhollyKnownType]; exact hwktZip_of_wk _ vs h)
  | t, .smap _ vs, h => by
    simp only [Payload.whollyKnown] at h
    cases t <;> first
      | rfl
      | (simp only [hasWhollyKnownType]; exact hwktAll_of_wk _ vs h)
      | (simp only [hasWhollyKnownType]; exact hwktZip_of_wk _ vs h)
  | t, .sset _ vs, h => by
    simp only [Payload.whollyKnown] at h
    cases t <;> first
      | rfl
      | (simp only [hasWhollyKnownType]; exact hwktAll_of_wk _ vs h)
  | t, .b _, _ => by cases t <;> rfl
  | t, .n _, _ => by cases t <;> rfl
  | t, .s _, _ => by cases t <;> rfl
  | t, .caps, _ => by cases t <;> rfl
  | t, .marked _ _, _ => by cases t <;> rfl
  | t, .bad _, _ => by cases t <;> rfl
theorem hwktAll_of_wk : ∀ (e : Ty) (vs : List Payload), Payload.whollyKnownL vs = true → hwktAll e vs = true
  | _, [], _ => by simp only [hwktAll]
  | e, v :: vs, h => by
    simp only [Payload.whollyKnownL, Bool.and_eq_true] at h
    simp only [hwktAll, Bool.and_eq_true]
    exact ⟨hwkt_of_wk e v h.1, hwktAll_of_wk e vs h.2⟩
theorem hwktZip_of_wk : ∀ (ts : List Ty) (vs : List Payload), Payload.whollyKnownL vs = true → hwktZip ts vs = true
  | [], _, _ => by simp only [hwktZip]
  | _ :: _, [], _ => by simp only [hwktZip]
  | t :: ts, v :: vs, h => by
    simp only [Payload.whollyKnownL, Bool.and_eq_true] at h
    simp only [hwktZip, Bool.and_eq_true]
    exact ⟨hwkt_of_wk t v h.1, hwktZip_of_wk ts vs h.2⟩
end

/-- the recursive occurrence answers "known" on wholly known members -/
def RecWK (rec : EqRec) : Prop :=
  ∀ ta a tb b r, Payload.whollyKnown a = true → Payload.whollyKnown b = true → rec ta a tb b = .ok r → r.whollyKnown = true

theorem eqAccOf_wk {rec : EqRec} (hrec : RecWK rec) {t : Ty} {x y : Payload} {acc : EqAcc}
    (hx : x.whollyKnown = true) (hy : y.whollyKnown = true)
    (h : eqAccOf (rec t x t y) = .ok acc) : acc ≠ .u := by
  cases hr : rec t x t y with
  | ok v =>
    have hk := isKnown_of_wk (hrec _ _ _ _ _ hx hy hr)
    rw [hr] at h
    simp only [eqAccOf, hk, Bool.not_true, Bool.false_eq_true, if_false] at h
    split at h <;> (cases h; simp)
  | err c => rw [hr] at h; simp [eqAccOf] at h
  | panic w => rw [hr] at h; simp [eqAccOf] at h
  | unmodelled => rw [hr] at h; simp [eqAccOf] at h

theorem equalsZip_wk {rec : EqRec} (hrec : RecWK rec) (ts : List Ty) : ∀ (xs ys : List Payload) (acc : EqAcc),
    Payload.whollyKnownL xs = true → Payload.whollyKnownL ys = true →
    equalsZip rec ts xs ys = .ok acc → acc ≠ .u := by
  induction ts with
  | nil => intro xs ys acc _ _ h; simp [equalsZip] at h; subst h; simp
  | cons t ts ih =>
    intro xs ys acc hx hy h
    cases xs with
    | nil => simp [equalsZip] at h; subst h; simp
    | cons x xs =>
      cases ys with
      | nil => simp [equalsZip] at h; subst h; simp
      | cons y ys =>
        simp only [Payload.whollyKnownL, Bool.and_eq_true] at hx hy
        simp only [equalsZip] at h
        split at h
        · exact ih xs ys acc hx.2 hy.2 h
        · exact eqAccOf_wk hrec hx.1 hy.1 h

theorem equalsAll_wk {rec : EqRec} (hrec : RecWK rec) (e : Ty) (xs : List Payload) : ∀ (ys : List Payload) (acc : EqAcc),
    Payload.whollyKnownL xs = true → Payload.whollyKnownL ys = true →
    equalsAll rec e xs ys = .ok acc → acc ≠ .u := by
  induction xs with
  | nil => intro ys acc _ _ h; simp [equalsAll] at h; subst h; simp
  | cons x xs ih =>
    intro ys acc hx hy h
    cases ys with
    | nil => simp [equalsAll] at h; subst h; simp
    | cons y ys =>
      simp only [Payload.whollyKnownL, Bool.and_eq_true] at hx hy
      simp only [equalsAll] at h
      split at h
      · exact ih ys acc hx.2 hy.2 h
      · exact eqAccOf_wk hrec hx.1 hy.1 h

theorem equalsObj_wk {rec : EqRec} (hrec : RecWK rec) (ts : List Ty) : ∀ (xs ys : List Payload) (acc : EqAcc),
    Payload.whollyKnownL xs = true → Payload.whollyKnownL ys = true →
    equalsObj rec ts xs ys false = .ok acc → acc ≠ .u := by
  induction ts with
  | nil => intro xs ys acc _ _ h; simp [equalsObj] at h; subst h; simp
  | cons t ts ih =>
    intro xs ys acc hx hy h
    cases xs with
    | nil => simp [equalsObj] at h; subst h; simp
    | cons x xs =>
      cases ys with
      | nil => simp [equalsObj] at h; subst h; simp
      | cons y ys =>
        simp only [Payload.whollyKnownL, Bool.and_eq_true] at hx hy
        simp only [equalsObj] at h
        split at h
        · exact ih xs ys acc hx.2 hy.2 h
        · rename_i he
          exact absurd rfl (eqAccOf_wk hrec hx.1 hy.1 he)
        · exact eqAccOf_wk hrec hx.1 hy.1 h

theorem equalsMap_wk {rec : EqRec} (hrec : RecWK rec) (e : Ty) (ky : List String) (ys : List Payload)
    (hy : Payload.whollyKnownL ys = true) (ks : List String) : ∀ (xs : List Payload) (acc : EqAcc),
    Payload.whollyKnownL xs = true →
    equalsMap rec e ks xs ky ys false = .ok acc → acc ≠ .u := by
  induction ks with
  | nil => intro xs acc _ h; simp [equalsMap] at h; subst h; simp
  | cons k ks ih =>
    intro xs acc hx h
    cases xs with
    | nil => simp [equalsMap] at h; subst h; simp
    | cons x xs =>
      simp only [Payload.whollyKnownL, Bool.and_eq_true] at hx
      simp only [equalsMap] at h
      split at h
      · cases h; simp
      · rename_i y hl
        have hyk := wkL_lookupKey hy hl
        split at h
        · exact ih xs acc hx.2 h
        · rename_i he
          exact absurd rfl (eqAccOf_wk hrec hx.1 hyk he)
        · exact eqAccOf_wk hrec hx.1 hyk h

theorem any_isUnk_of_wk : ∀ (vs : List Payload), Payload.whollyKnownL vs = true → vs.any isUnkPayload = false
  | [], _ => rfl
  | v :: vs, h => by
    simp only [Payload.whollyKnownL, Bool.and_eq_true] at h
    simp only [List.any_cons, any_isUnk_of_wk vs h.2, Bool.or_false]
    cases v <;> first | rfl | (simp [Payload.whollyKnown] at h)

/-- over wholly known members the set loop never answers "unknown" -/
theorem setInclWK_wk (rec : EqRec) (e : Ty) : ∀ (ix : List Int) (xs : List Payload) (iy : List Int) (ys : List Payload)
    (o : Option Bool), Payload.whollyKnownL xs = true → setInclWK rec e ix xs iy ys = .ok o → o ≠ none
  | [], xs, iy, ys, o, _, h => by cases xs <;> simp [setInclWK] at h <;> subst h <;> simp
  | i :: is, [], iy, ys, o, _, h => by simp [setInclWK] at h; subst h; simp
  | i :: is, x :: xs, iy, ys, o, hk, h => by
    simp only [Payload.whollyKnownL, Bool.and_eq_true] at hk
    simp only [setInclWK, hk.1, Bool.not_true, Bool.false_eq_true, if_false] at h
    cases hh : setHas rec e i x iy ys <;> simp only [hh] at h <;> try (cases h; done)
    cases hr : setInclWK rec e is xs iy ys with
    | ok o' =>
      have := setInclWK_wk rec e is xs iy ys o' hk.2 hr
      cases o' with
      | none => exact absurd rfl this
      | some r => simp only [hr] at h; cases h; simp
    | err c => simp only [hr] at h; cases h
    | panic w => simp only [hr] at h; cases h
    | unmodelled => simp only [hr] at h; cases h

theorem wk_accVal {acc : EqAcc} (h : acc ≠ .u) : (accVal acc).whollyKnown = true := by
  cases acc
  · rfl
  · rfl
  · exact absurd rfl h

theorem equalsFuel_wk : ∀ fuel, RecWK (equalsFuel fuel) := by
  intro fuel
  induction fuel with
  | zero => intro ta a tb b r _ _ h; cases h
  | succ n ih =>
    intro ta a tb b r ha hb h
    unfold equalsFuel at h
    split at h
    · rename_i r' hp
      cases h
      obtain ⟨x, rfl⟩ := equalsPre_known (isKnown_of_wk (v := ⟨ta, a⟩) ha) (isKnown_of_wk (v := ⟨tb, b⟩) hb) hp
      rfl
    · cases h
    · cases h
    · cases h
    · simp only [hwkt_of_wk ta a ha, hwkt_of_wk tb b hb, Bool.not_true, Bool.or_self, Bool.false_eq_true, if_false] at h
      split at h
      · cases h; rfl
      · split at h
        · cases h; rfl
        · cases h; rfl
        · cases h; rfl
        · obtain ⟨acc, hacc, rfl⟩ := res_map_ok h
          simp only [Payload.whollyKnown] at ha hb
          exact wk_accVal (equalsObj_wk ih _ _ _ _ ha hb hacc)
        · obtain ⟨acc, hacc, rfl⟩ := res_map_ok h
          simp only [Payload.whollyKnown] at ha hb
          exact wk_accVal (equalsZip_wk ih _ _ _ _ ha hb hacc)
        · simp only [Payload.whollyKnown] at ha hb
          split at h
          · obtain ⟨acc, hacc, rfl⟩ := res_map_ok h
            exact wk_accVal (equalsAll_wk ih _ _ _ _ ha hb hacc)
          · cases h; rfl
        · simp only [Payload.whollyKnown] at ha hb
          split at h
          · obtain ⟨acc, hacc, rfl⟩ := res_map_ok h
            exact wk_accVal (equalsMap_wk ih _ _ _ hb _ _ _ ha hacc)
          · cases h; rfl
        · simp only [Payload.whollyKnown] at ha hb
          split at h
          · rename_i h1
            exact absurd rfl (setInclWK_wk _ _ _ _ _ _ _ ha h1)
          · split at h
            · rename_i h2
              exact absurd rfl (setInclWK_wk _ _ _ _ _ _ _ hb h2)
            · cases h; rfl
            · cases h
            · cases h
            · cases h
          · cases h
          · cases h
          · cases h
        · cases h
        · cases h

/-- Equals needs no restriction on the operand types -/
theorem equals_knownInKnownOut : KnownInKnownOut₂ Value.equals := by
  intro a b r ha hb h
  unfold Value.equals at h
  split at h
  · obtain ⟨r0, h0, rfl⟩ := res_map_ok h
    rw [whollyKnown_withMarks]
    exact equalsFuel_wk _ _ _ _ _ _ (by rw [wk_stripMarks]; exact ha) (by rw [wk_stripMarks]; exact hb) h0
  · exact equalsFuel_wk _ _ _ _ _ _ ha hb h

theorem equals_known_partial (a b r : Value) (ha : a.whollyKnown = true) (hb : b.whollyKnown = true)
    (_hta : a.ty ≠ .dyn) (_htb : b.ty ≠ .dyn) (h : Value.equals a b = .ok r) : r.whollyKnown = true :=
  equals_knownInKnownOut a b r ha hb h

theorem length_knownInKnownOut : KnownInKnownOut₁ Value.length := by
  intro a r hk h
  exact unMarks_lift _ wk_withMarks (fun _ => lengthU_wk (by rw [whollyKnown_unmark]; exact hk)) h

/-! ### the comparisons and Equals answer with a boolean-typed value -/
theorem ty_withMarks : ∀ (r : Value) (ms : List String), r.ty = .bool → (r.withMarks ms).ty = .bool :=
  fun _ _ h => h

theorem lessThanU_ty {a b r : Value} (h : lessThanU a b = .ok r) : r.ty = .bool := by
  unfold lessThanU at h
  obtain ⟨tc, htc, h⟩ := Res.bind_eq_ok.mp h
  have short : ∀ {r}, (do match ← rangeLess a b with
          | some r => pure (boolVal r)
          | none => pure unkBool) = Res.ok r → r.ty = .bool := by
    intro r h
    obtain ⟨s, hs, h⟩ := Res.bind_eq_ok.mp h
    cases s <;> (cases h; rfl)
  rcases tc_cases tc with rfl | rfl | rfl <;> simp only at h
  · obtain ⟨x, hx, h⟩ := Res.bind_eq_ok.mp h
    obtain ⟨y, hy, h⟩ := Res.bind_eq_ok.mp h
    cases h; rfl
  · exact short h
  · exact short h

theorem gtShort_ty {a b r : Value} (h : gtShort a b = .ok r) : r.ty = .bool := by
  unfold gtShort at h
  repeat' (first | split at h | (obtain ⟨_, _, h⟩ := Res.bind_eq_ok.mp h))
  all_goals (cases h; rfl)

theorem greaterThanU_ty {a b r : Value} (h : greaterThanU a b = .ok r) : r.ty = .bool := by
  rw [greaterThanU_eq] at h
  obtain ⟨tc, htc, h⟩ := Res.bind_eq_ok.mp h
  rcases tc_cases tc with rfl | rfl | rfl <;> simp only at h
  · obtain ⟨x, hx, h⟩ := Res.bind_eq_ok.mp h
    obtain ⟨y, hy, h⟩ := Res.bind_eq_ok.mp h
    cases h; rfl
  · exact gtShort_ty h
  · exact gtShort_ty h

theorem ty_accVal (acc : EqAcc) : (accVal acc).ty = .bool := by cases acc <;> rfl

theorem equalsFuel_ty {fuel : Nat} {ta tb : Ty} {a b : Payload} {r : Value}
    (h : equalsFuel fuel ta a tb b = .ok r) : r.ty = .bool := by
  cases fuel with
  | zero => cases h
  | succ n =>
    unfold equalsFuel at h
    split at h
    · rename_i r' hp
      cases h
      rcases equalsPre_shape hp with ⟨x, rfl⟩ | rfl <;> rfl
    · cases h
    · cases h
    · cases h
    · simp only at h
      repeat' split at h
      all_goals first
        | (cases h; done)
        | (cases h; rfl)
        | (obtain ⟨acc, _, rfl⟩ := res_map_ok h; exact ty_accVal _)

theorem lessThan_ty {a b r : Value} (h : Value.lessThan a b = .ok r) : r.ty = .bool :=
  binMarks_lift _ ty_withMarks (fun _ => lessThanU_ty) h
theorem greaterThan_ty {a b r : Value} (h : Value.greaterThan a b = .ok r) : r.ty = .bool :=
  binMarks_lift _ ty_withMarks (fun _ => greaterThanU_ty) h
theorem equals_ty {a b r : Value} (h : Value.equals a b = .ok r) : r.ty = .bool := by
  unfold Value.equals at h
  split at h
  · obtain ⟨r0, h0, rfl⟩ := res_map_ok h
    exact ty_withMarks _ _ (equalsFuel_ty h0)
  · exact equalsFuel_ty h

theorem bool_ne_dyn {r : Value} (h : r.ty = .bool) : r.ty ≠ .dyn := by
  rw [h]; intro h'; cases h'

theorem notEqual_known_partial (a b r : Value) (ha : a.whollyKnown = true) (hb : b.whollyKnown = true)
    (_hta : a.ty ≠ .dyn) (_htb : b.ty ≠ .dyn) (h : Value.notEqual a b = .ok r) : r.whollyKnown = true := by
  unfold Value.notEqual at h
  obtain ⟨e, he, h⟩ := Res.bind_eq_ok.mp h
  exact not_known_partial e r (equals_knownInKnownOut a b e ha hb he) (bool_ne_dyn (equals_ty he)) h

theorem notEqual_knownInKnownOut : KnownInKnownOut₂ Value.notEqual := by
  intro a b r ha hb h
  unfold Value.notEqual at h
  obtain ⟨e, he, h⟩ := Res.bind_eq_ok.mp h
  exact not_known_partial e r (equals_knownInKnownOut a b e ha hb he) (bool_ne_dyn (equals_ty he)) h

theorem lessThanOrEqualTo_known_partial (a b r : Value) (ha : a.whollyKnown = true) (hb : b.whollyKnown = true)
    (hta : a.ty ≠ .dyn) (htb : b.ty ≠ .dyn) (h : Value.lessThanOrEqualTo a b = .ok r) : r.whollyKnown = true := by
  unfold Value.lessThanOrEqualTo at h
  obtain ⟨l, hl, h⟩ := Res.bind_eq_ok.mp h
  obtain ⟨e, he, h⟩ := Res.bind_eq_ok.mp h
  exact or_known_partial l e r (lessThan_known_partial a b l ha hb hta htb hl) (equals_knownInKnownOut a b e ha hb he)
    (bool_ne_dyn (lessThan_ty hl)) (bool_ne_dyn (equals_ty he)) h

theorem greaterThanOrEqualTo_known_partial (a b r : Value) (ha : a.whollyKnown = true) (hb : b.whollyKnown = true)
    (hta : a.ty ≠ .dyn) (htb : b.ty ≠ .dyn) (h : Value.greaterThanOrEqualTo a b = .ok r) : r.whollyKnown = true := by
  unfold Value.greaterThanOrEqualTo at h
  obtain ⟨g, hg, h⟩ := Res.bind_eq_ok.mp h
  obtain ⟨e, he, h⟩ := Res.bind_eq_ok.mp h
  exact or_known_partial g e r (greaterThan_known_partial a b g ha hb hta htb hg) (equals_knownInKnownOut a b e ha hb he)
    (bool_ne_dyn (greaterThan_ty hg)) (bool_ne_dyn (equals_ty he)) h

end CtyModel
