/-
Fuel adequacy of the conversion model (audit C08 item 3 / brief item 2): a conversion offered
in SAFE mode, applied to a well-typed wholly-known value with fuel at least twice the nesting
depth of the value's payload, does not run out of fuel — provided the set parameters themselves
answer (`SetTotal`).  Together with `ConvertTotal.lean` (no panic, no error in safe mode) the
outcome is a value.  `ConvertD08Mono.lean` shows the result then stays the same for every
larger fuel.

(Unsafe mode is excluded for a reason that has nothing to do with fuel: `parseNumber` is
`.unmodelled` for exponents beyond `parseBound`.)

The chain mirrors `ConvertTotal.lean`; "wholly known" is strengthened to "wholly known and of
depth at most d / 2" (`wkD d`), which members inherit from their container with `d - 2`.
-/
import CtyModel.Lemmas.ConvertTotal
set_option linter.unusedSimpArgs false
set_option linter.unusedVariables false
namespace CtyModel
namespace Convert
open Ty

/-- finished: the model did not give up -/
def Fin {α} (r : Res α) : Prop := r ≠ .unmodelled

theorem Fin.ok {α} (a : α) : Fin (Res.ok a) := by simp [Fin]
theorem Fin.err {α} (c : String) : Fin (Res.err c : Res α) := by simp [Fin]

theorem Fin.bind {α β} {r : Res α} {f : α → Res β} (hr : Fin r) (hf : ∀ a, r = .ok a → Fin (f a)) :
    Fin (r.bind f) := by
  cases r with
  | ok a => exact hf a rfl
  | err c => simp [Fin, Res.bind]
  | panic w => simp [Fin, Res.bind]
  | unmodelled => exact absurd rfl hr

theorem Fin.map {α β} {r : Res α} {f : α → β} (hr : Fin r) : Fin (r.map f) := by
  cases r with
  | unmodelled => exact absurd rfl hr
  | _ => simp [Fin, Res.map]

theorem mapRes_Fin {α β} {f : α → Res β} : ∀ (xs : List α), (∀ x ∈ xs, Fin (f x)) → Fin (mapRes f xs)
  | [], _ => Fin.ok _
  | x :: xs, h => by
    simp only [mapRes]
    refine Fin.bind (h x (by simp)) fun b _ => Fin.bind (mapRes_Fin xs fun y hy => h y (by simp [hy])) fun bs _ => Fin.ok _

/-! ### wholly known and shallow -/

/-- wholly known, nesting depth at most `d / 2` -/
def wkD (d : Nat) (p : Payload) : Bool := p.whollyKnown && decide (2 * p.depth ≤ d)

def wkDL (d : Nat) : List Payload → Bool
  | [] => true
  | p :: ps => wkD d p && wkDL d ps

theorem wkD_wk {d : Nat} {p : Payload} (h : wkD d p = true) : p.whollyKnown = true := by
  simp only [wkD, Bool.and_eq_true] at h; exact h.1

theorem wkDL_wk {d : Nat} : ∀ {ps : List Payload}, wkDL d ps = true → Payload.whollyKnownL ps = true
  | [], _ => rfl
  | p :: ps, h => by
    simp only [wkDL, Bool.and_eq_true] at h
    simp [Payload.whollyKnownL, wkD_wk h.1, wkDL_wk h.2]

theorem wkDL_mem {d : Nat} : ∀ {ps : List Payload}, wkDL d ps = true → ∀ p ∈ ps, wkD d p = true
  | [], _, _, hp => by simp at hp
  | q :: qs, h, p, hp => by
    simp only [wkDL, Bool.and_eq_true] at h
    rcases List.mem_cons.mp hp with rfl | hp
    · exact h.1
    · exact wkDL_mem h.2 p hp

theorem wkDL_of {d : Nat} : ∀ (ps : List Payload), Payload.whollyKnownL ps = true → 2 * Payload.depthL ps ≤ d →
    wkDL d ps = true
  | [], _, _ => rfl
  | p :: ps, hk, hd => by
    simp only [Payload.whollyKnownL, Bool.and_eq_true] at hk
    simp only [Payload.depthL] at hd
    have h1 := Nat.le_max_left p.depth (Payload.depthL ps)
    have h2 := Nat.le_max_right p.depth (Payload.depthL ps)
    simp only [wkDL, wkD, Bool.and_eq_true, decide_eq_true_eq]
    exact ⟨⟨hk.1, by omega⟩, wkDL_of ps hk.2 (by omega)⟩

/-- the members of a container inherit the bound with two units of fuel less -/
theorem wkD_children {d : Nat} {p : Payload} (h : wkD (d + 2) p = true) :
    ∀ ps, (p = .seq ps ∨ (∃ ks, p = .smap ks ps) ∨ (∃ ids, p = .sset ids ps)) → wkDL d ps = true := by
  intro ps hp
  simp only [wkD, Bool.and_eq_true, decide_eq_true_eq] at h
  rcases hp with rfl | ⟨ks, rfl⟩ | ⟨ids, rfl⟩ <;>
    (simp only [Payload.whollyKnown, Payload.depth] at h; exact wkDL_of ps h.1 (by have := h.2; omega))

theorem wkD_seq {d : Nat} {ps : List Payload} (h : wkD (d + 2) (.seq ps) = true) : wkDL d ps = true :=
  wkD_children h ps (.inl rfl)
theorem wkD_smap {d : Nat} {ks : List String} {ps : List Payload} (h : wkD (d + 2) (.smap ks ps) = true) :
    wkDL d ps = true := wkD_children h ps (.inr (.inl ⟨ks, rfl⟩))
theorem wkD_sset {d : Nat} {ids : List Int} {ps : List Payload} (h : wkD (d + 2) (.sset ids ps) = true) :
    wkDL d ps = true := wkD_children h ps (.inr (.inr ⟨ids, rfl⟩))

theorem wkD_unmark {d : Nat} {p : Payload} (hm : p.isMarked = true) (h : wkD (d + 1) p = true) :
    wkD d p.unmark1 = true := by
  cases p with
  | marked ms r =>
    simp only [wkD, Bool.and_eq_true, decide_eq_true_eq, Payload.whollyKnown, Payload.depth] at h
    have h2 := of_decide_eq_true h.2
    simp only [Payload.unmark1, wkD, Bool.and_eq_true]
    exact ⟨h.1, decide_eq_true (by omega)⟩
  | _ => simp [Payload.isMarked] at hm

/-! ### the set parameters answer -/

/-- the set parameters answer (no `.unmodelled`) on well-typed, mark-free, wholly-known members:
true of `Env.simple`; of the driver's `hashC` / `equivC` it fails only for strings outside the
modelled `%q` range and for capsule members -/
structure SetTotal (E : Env) : Prop where
  hash_ok : ∀ t p, t.wf = true → memberOK t p = true → ∃ h, E.hash t p = .ok h
  equiv_ok : ∀ t a b, t.wf = true → memberOK t a = true → memberOK t b = true → ∃ r, E.equiv t a b = .ok r

theorem setTotal_simple : SetTotal Env.simple where
  hash_ok := fun _ _ _ _ => ⟨0, rfl⟩
  equiv_ok := fun _ _ _ _ _ _ => ⟨false, rfl⟩

theorem listVal_Fin {t : Ty} (hw : wf t = true) (hd : t.isDyn = false) {vs : List Value}
    (hne : vs ≠ []) (h : ∀ v ∈ vs, v.ty = t) : Fin (listVal vs) := by
  unfold listVal
  have : vs.isEmpty = false := by cases vs <;> simp at hne ⊢
  simp only [this, elemTyOf_same hw hd hne h]
  exact Fin.ok _

theorem mapVal_Fin {t : Ty} (hw : wf t = true) (hd : t.isDyn = false) {ks : List String}
    {vs : List Value} (hne : vs ≠ []) (h : ∀ v ∈ vs, v.ty = t) : Fin (mapVal ks vs) := by
  unfold mapVal
  have : vs.isEmpty = false := by cases vs <;> simp at hne ⊢
  simp only [this, elemTyOf_same hw hd hne h]
  exact Fin.ok _

theorem setAdd_Fin {E : Env} (hS : SetTotal E) (ety : Ty) (hw : wf ety = true) (h : Int) (x : Payload)
    (hx : memberOK ety x = true) :
    ∀ (l : List (Int × Payload)), (∀ y ∈ l, memberOK ety y.2 = true) → Fin (setAdd E ety h x l)
  | [], _ => Fin.ok _
  | (j, y) :: rest, hl => by
    have hrest : ∀ z ∈ rest, memberOK ety z.2 = true := fun z hz => hl z (List.mem_cons_of_mem _ hz)
    simp only [setAdd]
    split
    · exact Fin.map (setAdd_Fin hS ety hw h x hx rest hrest)
    · split
      · obtain ⟨r, hr⟩ := hS.equiv_ok ety x y hw hx (hl (j, y) (by simp))
        rw [hr]
        cases r
        · exact Fin.map (setAdd_Fin hS ety hw h x hx rest hrest)
        · exact Fin.ok _
      · exact Fin.ok _

theorem newSetAcc_Fin {E : Env} (hS : SetTotal E) (ety : Ty) (hw : wf ety = true) :
    ∀ (xs : List Payload) (acc : List (Int × Payload)), (∀ x ∈ xs, memberOK ety x = true) →
    (∀ y ∈ acc, memberOK ety y.2 = true) → Fin (newSetAcc E ety xs acc)
  | [], _, _, _ => Fin.ok _
  | x :: xs, acc, hxs, hacc => by
    simp only [newSetAcc]
    have hx := hxs x (by simp)
    obtain ⟨h, hh⟩ := hS.hash_ok ety x hw hx
    rw [hh]
    simp only
    have := setAdd_Fin hS ety hw h x hx acc hacc
    cases hsa : setAdd E ety h x acc with
    | ok acc' =>
      refine newSetAcc_Fin hS ety hw xs acc' (fun y hy => hxs y (List.mem_cons_of_mem _ hy)) ?_
      intro y hy
      rcases setAdd_mem hsa y hy with h1 | h1
      · rw [h1]; exact hx
      · exact hacc y h1
    | err c => simp [Fin]
    | panic w => simp [Fin]
    | unmodelled => exact absurd hsa this

theorem setVal_Fin {E : Env} (hS : SetTotal E) {t : Ty} (hw : wf t = true) (hd : t.isDyn = false)
    {vs : List Value} (hne : vs ≠ []) (h : ∀ v ∈ vs, v.ty = t) (hg : ∀ v ∈ vs, vgood true v) :
    Fin (setVal E vs) := by
  unfold setVal
  have : vs.isEmpty = false := by cases vs <;> simp at hne ⊢
  simp only [this, elemTyOf_same hw hd hne h]
  refine Fin.map (Fin.map (newSetAcc_Fin hS t hw _ [] ?_ (by simp)))
  intro x hx
  obtain ⟨v, hv, rfl⟩ := List.mem_map.mp hx
  have h1 := (hg v hv).1
  rw [h v hv] at h1
  simp [memberOK, wtP_stripMarks t _ h1, stripMarks_noMarks, wk_stripMarks, (hg v hv).2 rfl]

/-! ### the recursive calls do nothing bad on wholly-known members -/

/-- the recursive calls finish on wholly-known members of depth at most `d / 2` (safe mode) -/
def RecFin (d : Nat) (E : Env) (rec : Rec) : Prop :=
  ∀ (inT out : Ty) (c : Plan) (v : Value), gck E inT out false = some c →
    Conds inT out v → wkD d v.v = true → Fin (rec (.wrap out c) v)

/-- members of a collection: same type, well-typed, wholly known and shallow -/
def MembersD (d : Nat) (es : List Value) (ie : Ty) : Prop :=
  ∀ e ∈ es, e.ty = ie ∧ wtP ie e.v = true ∧ wkD d e.v = true

section Bodies
variable {E : Env} {d : Nat} (hU : UnifyLaws E) (hS : SetTotal E) {rec : Rec} (hrec : RecOK E rec) (hfin : RecFin d E rec)
  (hwt : RecWT E rec)
include hU hS hrec hfin hwt

omit hU hS hrec hwt in
theorem planFor_Fin {it ot : Ty} {p : Plan} {e : Value} (hp : PlanFor E false it ot p)
    (hc : Conds it ot e) (hk : wkD d e.v = true) : Fin (applyOpt rec p e) := by
  rcases hp with ⟨rfl, _⟩ | ⟨c, rfl, hg⟩
  · exact Fin.ok _
  · exact hfin it ot c e hg hc hk

omit hU hS hrec hwt in
theorem members_Fin {ie oe conv} {post : Value → Value}
    (hpf : PlanFor E false ie oe conv) (hwi : wf ie = true) (hoi : hasOpt ie = false)
    (hwo : wf oe = true) (hdo : hasDyn oe = false)
    {es : List Value} (hes : MembersD d es ie) :
    Fin (mapRes (fun e => (applyOpt rec conv e).map post) es) := by
  apply mapRes_Fin
  intro e he
  obtain ⟨h1, h2, h3⟩ := hes e he
  exact Fin.map (planFor_Fin hfin hpf ⟨h1, hwi, hwo, hoi, hdo, h2⟩ h3)

omit hS hwt in
theorem collToList_Fin {ie oe conv} {v : Value} {es : List Value}
    (hpf : PlanFor E false ie oe conv) (hwi : wf ie = true) (hoi : hasOpt ie = false)
    (hwo : wf oe = true) (hdo : hasDyn oe = false)
    (hes : elemsOf E v = .ok es) (hm : MembersD d es ie) :
    Fin (applyStep E rec (.collToList oe conv) v) := by
  have hnd : oe.isDyn = false := not_isDyn_of_noDyn hdo
  simp only [applyStep, hnd, hdo, hes]
  split
  · exact Fin.ok _
  · refine Fin.bind (Fin.ok _) fun es0 h0 => ?_
    simp at h0; subst h0
    refine Fin.bind (members_Fin hfin hpf hwi hoi hwo hdo hm) fun es' hes' => ?_
    have hty := converted_members hU hrec (post := stripNull) (fun _ hv => stripNull_ty' hv)
      hpf hwi hoi hwo hdo (fun e he => ⟨(hm e he).1, (hm e he).2.1⟩) hes'
    split
    · exact Fin.ok _
    · rename_i hne
      have hne' : es' ≠ [] := by simpa using hne
      have hT := wf_stripOpt oe hwo
      have hTd : (stripOpt oe).isDyn = false := not_isDyn_of_noDyn (by rw [stripOpt_hasDyn]; exact hdo)
      simp only [canCollVal_same hT hTd hne' hty.2]
      exact listVal_Fin hT hTd hne' hty.2

theorem collToSet_Fin {ie oe conv} {v : Value} {es : List Value}
    (hpf : PlanFor E false ie oe conv) (hwi : wf ie = true) (hoi : hasOpt ie = false)
    (hwo : wf oe = true) (hdo : hasDyn oe = false)
    (hes : elemsOf E v = .ok es) (hm : MembersD d es ie) :
    Fin (applyStep E rec (.collToSet oe conv) v) := by
  have hnd : oe.isDyn = false := not_isDyn_of_noDyn hdo
  simp only [applyStep, hnd, hdo, hes]
  refine Fin.bind (Fin.ok _) fun es0 h0 => ?_
  simp at h0; subst h0
  refine Fin.bind (members_Fin hfin hpf hwi hoi hwo hdo hm) fun es' hes' => ?_
  have hty := converted_members hU hrec (post := stripNull) (fun _ hv => stripNull_ty' hv)
    hpf hwi hoi hwo hdo (fun e he => ⟨(hm e he).1, (hm e he).2.1⟩) hes'
  split
  · exact Fin.ok _
  · rename_i hne
    have hne' : es' ≠ [] := by simpa using hne
    have hT := wf_stripOpt oe hwo
    have hTd : (stripOpt oe).isDyn = false := not_isDyn_of_noDyn (by rw [stripOpt_hasDyn]; exact hdo)
    simp only [canCollVal_same hT hTd hne' hty.2]
    have hg := members_good hwt (k := true) (post := stripNull) (fun _ hv => vgood_stripNull hv)
      hpf hwi hoi hwo hdo (fun e he => ⟨(hm e he).1, (hm e he).2.1, fun _ => wkD_wk (hm e he).2.2⟩) hes'
    exact setVal_Fin hS hT hTd hne' hty.2 hg

omit hS hwt in
theorem collToMap_Fin {ie oe conv} {v : Value} {es : List Value}
    (hpf : PlanFor E false ie oe conv) (hwi : wf ie = true) (hoi : hasOpt ie = false)
    (hwo : wf oe = true) (hdo : hasDyn oe = false)
    (hes : elemsOf E v = .ok es) (hm : MembersD d es ie) :
    Fin (applyStep E rec (.collToMap oe conv) v) := by
  have hnd : oe.isDyn = false := not_isDyn_of_noDyn hdo
  simp only [applyStep, hnd, hdo, hes]
  refine Fin.bind (Fin.ok _) fun es0 h0 => ?_
  simp at h0; subst h0
  have hfun : (fun e => applyOpt rec conv e) = fun e => (applyOpt rec conv e).map id := by
    funext e; cases applyOpt rec conv e <;> rfl
  rw [hfun]
  refine Fin.bind (members_Fin hfin hpf hwi hoi hwo hdo hm) fun es' hes' => ?_
  have hty := converted_members hU hrec (post := id) (fun _ hv => hv)
    hpf hwi hoi hwo hdo (fun e he => ⟨(hm e he).1, (hm e he).2.1⟩) hes'
  split
  · exact Fin.ok _
  · rename_i hne
    have hne' : es' ≠ [] := by simpa using hne
    have hT := wf_stripOpt oe hwo
    have hTd : (stripOpt oe).isDyn = false := not_isDyn_of_noDyn (by rw [stripOpt_hasDyn]; exact hdo)
    have hun : (if isCollOrObj oe = true then unifyElems E rec false es' else Res.ok es') = .ok es' := by
      split
      · exact unifyElems_same hU hT (stripOpt_noOpt oe) hne' hty.2
      · rfl
    rw [hun]
    simp only [Res.bind, canCollVal_same hT hTd hne' hty.2]
    exact mapVal_Fin hT hTd hne' hty.2

omit hU hS hrec hwt in
theorem applyZip_all_Fin {t : Ty} (post : Value → Value) (hwt : wf t = true) (hdt : hasDyn t = false) :
    ∀ (its : List Ty) (cs : List Plan) (ps : List Payload),
    All2 (fun it p => PlanFor E false it t p) its cs → wtZip its ps = true → wkDL d ps = true →
    (∀ it ∈ its, wf it = true ∧ hasOpt it = false) →
    Fin (applyZip rec post cs (zipTys its ps))
  | [], _, [], .nil, _, _, _ => by simp only [zipTys, applyZip]; exact Fin.ok _
  | [], _, _ :: _, _, hw, _, _ => by simp [wtZip] at hw
  | _ :: _, _, [], _, hw, _, _ => by simp [wtZip] at hw
  | it :: its, _, p :: ps, .cons hp hps, hw, hk, hall => by
    simp only [wtZip, Bool.and_eq_true] at hw
    simp only [wkDL, Bool.and_eq_true] at hk
    simp only [zipTys, applyZip]
    obtain ⟨hwi, hoi⟩ := hall it (by simp)
    refine Fin.bind (planFor_Fin hfin hp ⟨rfl, hwi, hwt, hoi, hdt, hw.1⟩ hk.1) fun v' _ => ?_
    refine Fin.bind (applyZip_all_Fin post hwt hdt its _ ps hps hw.2 hk.2 fun x hx => hall x (by simp [hx]))
      fun vs' _ => Fin.ok _

omit hU hS hrec hwt in
theorem applyZip_zip_Fin :
    ∀ (its ots : List Ty) (cs : List Plan) (ps : List Payload),
    All3 (fun it ot p => PlanFor E false it ot p) its ots cs → wtZip its ps = true →
    wkDL d ps = true →
    wfL its = true → hasOptL its = false → wfL ots = true → hasDynL ots = false →
    Fin (applyZip rec id cs (zipTys its ps))
  | [], _, _, [], .nil, _, _, _, _, _, _ => by simp only [zipTys, applyZip]; exact Fin.ok _
  | [], _, _, _ :: _, _, hw, _, _, _, _, _ => by simp [wtZip] at hw
  | _ :: _, _, _, [], _, hw, _, _, _, _, _ => by simp [wtZip] at hw
  | it :: its, ot :: ots, c :: cs, p :: ps, .cons hp hps, hw, hk, hwi, hoi, hwo, hdo => by
    simp only [wtZip, Bool.and_eq_true] at hw
    simp only [wkDL, Bool.and_eq_true] at hk
    simp only [wfL, Bool.and_eq_true] at hwi hwo
    simp only [hasOptL, Bool.or_eq_false_iff] at hoi
    simp only [hasDynL, Bool.or_eq_false_iff] at hdo
    simp only [zipTys, applyZip]
    refine Fin.bind (planFor_Fin hfin hp ⟨rfl, hwi.1, hwo.1, hoi.1, hdo.1, hw.1⟩ hk.1) fun v' _ => ?_
    refine Fin.bind (applyZip_zip_Fin its ots cs ps hps hw.2 hk.2 hwi.2 hoi.2 hwo.2 hdo.2)
      fun vs' _ => Fin.ok _

omit hS hwt in
theorem tupToList_Fin {its : List Ty} {oe : Ty} {cs : List Plan} {ps : List Payload}
    (hpl : All2 (fun it p => PlanFor E false it oe p) its cs) (hne : its ≠ []) (hw : wtZip its ps = true)
    (hk : wkDL d ps = true)
    (hall : ∀ it ∈ its, wf it = true ∧ hasOpt it = false)
    (hwo : wf oe = true) (hdo : hasDyn oe = false) :
    Fin (applyStep E rec (.tupToList cs false) ⟨.tuple its, .seq ps⟩) := by
  simp only [applyStep, elemsOf]
  refine Fin.bind (Fin.ok _) fun es0 h0 => ?_
  simp at h0; subst h0
  refine Fin.bind (applyZip_all_Fin hfin id hwo hdo its cs ps hpl hw hk hall) fun es' hes' => ?_
  have hm := applyZip_all hrec id (fun _ hv => hv) hwo hdo its cs ps es' hpl hw hall hes'
  have hne' : es' ≠ [] := by
    intro he; rw [he] at hm
    have h0 := hm.1
    simp at h0
    exact hne (List.length_eq_zero_iff.mp h0.symm)
  have hT := wf_stripOpt oe hwo
  have hTd : (stripOpt oe).isDyn = false := not_isDyn_of_noDyn (by rw [stripOpt_hasDyn]; exact hdo)
  rw [unifyElems_same hU hT (stripOpt_noOpt oe) hne' hm.2]
  simp only [Res.bind, canCollVal_same hT hTd hne' hm.2]
  exact listVal_Fin hT hTd hne' hm.2

omit hU in
theorem tupToSet_Fin {its : List Ty} {oe : Ty} {cs : List Plan} {ps : List Payload}
    (hpl : All2 (fun it p => PlanFor E false it oe p) its cs) (hne : its ≠ []) (hw : wtZip its ps = true)
    (hk : wkDL d ps = true)
    (hall : ∀ it ∈ its, wf it = true ∧ hasOpt it = false)
    (hwo : wf oe = true) (hdo : hasDyn oe = false) :
    Fin (applyStep E rec (.tupToSet cs) ⟨.tuple its, .seq ps⟩) := by
  simp only [applyStep, elemsOf]
  refine Fin.bind (Fin.ok _) fun es0 h0 => ?_
  simp at h0; subst h0
  refine Fin.bind (applyZip_all_Fin hfin stripNull hwo hdo its cs ps hpl hw hk hall) fun es' hes' => ?_
  have hm := applyZip_all hrec stripNull (fun _ hv => stripNull_ty' hv) hwo hdo its cs ps es' hpl hw hall hes'
  have hne' : es' ≠ [] := by
    intro he; rw [he] at hm
    have h0 := hm.1
    simp at h0
    exact hne (List.length_eq_zero_iff.mp h0.symm)
  have hT := wf_stripOpt oe hwo
  have hTd : (stripOpt oe).isDyn = false := not_isDyn_of_noDyn (by rw [stripOpt_hasDyn]; exact hdo)
  simp only [canCollVal_same hT hTd hne' hm.2]
  have hg := applyZip_all_good hwt (k := true) stripNull (fun _ hv => vgood_stripNull hv) hwo hdo its cs ps es'
    hpl hw (fun _ => wkDL_wk hk) hall hes'
  exact setVal_Fin hS hT hTd hne' hm.2 hg

omit hS hwt in
theorem objToMap_Fin {inn : List String} {its : List Ty} {ios : List Bool} {oe : Ty}
    {cs : List Plan} {ps : List Payload}
    (hpl : All2 (fun it p => PlanFor E false it oe p) its cs) (hne : its ≠ []) (hw : wtZip its ps = true)
    (hk : wkDL d ps = true) (hnd : inn.Nodup) (hln : inn.length = its.length)
    (hall : ∀ it ∈ its, wf it = true ∧ hasOpt it = false)
    (hwo : wf oe = true) (hdo : hasDyn oe = false) :
    Fin (applyStep E rec (.objToMap inn cs oe false) ⟨.object inn its ios, .smap inn ps⟩) := by
  simp only [applyStep, elemsOf, keysOf]
  refine Fin.bind (Fin.ok _) fun es0 h0 => ?_
  simp at h0; subst h0
  have hlc : inn.length = cs.length := by rw [hln]; exact hpl.length
  have hself := lookup_map_self [] [] inn cs rfl hlc (by simp) hnd
  simp only [List.nil_append] at hself
  rw [hself]
  refine Fin.bind (applyZip_all_Fin hfin id hwo hdo its cs ps hpl hw hk hall) fun es' hes' => ?_
  have hm := applyZip_all hrec id (fun _ hv => hv) hwo hdo its cs ps es' hpl hw hall hes'
  have hne' : es' ≠ [] := by
    intro he; rw [he] at hm
    have h0 := hm.1
    simp at h0
    exact hne (List.length_eq_zero_iff.mp h0.symm)
  have hT := wf_stripOpt oe hwo
  have hTd : (stripOpt oe).isDyn = false := not_isDyn_of_noDyn (by rw [stripOpt_hasDyn]; exact hdo)
  have hun : (if isCollOrObj oe = true then unifyElems E rec false es' else Res.ok es') = .ok es' := by
    split
    · exact unifyElems_same hU hT (stripOpt_noOpt oe) hne' hm.2
    · rfl
  rw [hun]
  simp only [Res.bind, canCollVal_same hT hTd hne' hm.2]
  exact mapVal_Fin hT hTd hne' hm.2

omit hU hS hrec hwt in
theorem tupToTup_Fin {its ots : List Ty} {cs : List Plan} {ps : List Payload}
    (hpl : All3 (fun it ot p => PlanFor E false it ot p) its ots cs) (hw : wtZip its ps = true)
    (hk : wkDL d ps = true)
    (hwi : wfL its = true) (hoi : hasOptL its = false) (hwo : wfL ots = true) (hdo : hasDynL ots = false)
    :
    Fin (applyStep E rec (.tupToTup cs) ⟨.tuple its, .seq ps⟩) := by
  simp only [applyStep, elemsOf]
  refine Fin.bind (Fin.ok _) fun es0 h0 => ?_
  simp at h0; subst h0
  exact Fin.bind (applyZip_zip_Fin hfin its ots cs ps hpl hw hk hwi hoi hwo hdo) fun _ _ => Fin.ok _

omit hU hS hrec hwt in
theorem objAttrLoop_Fin {on : List String} {ot : List Ty} {oo : List Bool} {keys : List String}
    {convs : List Plan} :
    ∀ (ns : List String) (its : List Ty) (cs : List Plan) (ps : List Payload),
    All3 (AttrOK E false on ot oo keys convs) ns its cs → wtZip its ps = true →
    wkDL d ps = true → Fin (objAttrLoop rec keys convs ns (zipTys its ps))
  | [], [], [], [], .nil, _, _ => by simp only [zipTys, objAttrLoop]; exact Fin.ok _
  | _ :: _, _ :: _, _ :: _, [], _, hw, _ => by simp [wtZip] at hw
  | n :: ns, it :: its, c :: cs, p :: ps, .cons hok hoks, hw, hk => by
    simp only [wtZip, Bool.and_eq_true] at hw
    simp only [wkDL, Bool.and_eq_true] at hk
    obtain ⟨hlk, hap, hwi, hoi, hout⟩ := hok
    simp only [zipTys, objAttrLoop, hlk]
    have ih := objAttrLoop_Fin ns its cs ps hoks hw.2 hk.2
    rcases hap with ⟨rfl, _⟩ | ⟨oty, o, hf, hpf⟩
    · exact ih
    · have hc : Conds it oty ⟨it, p⟩ :=
        ⟨rfl, hwi, (hout oty o hf).1, hoi, (hout oty o hf).2, hw.1⟩
      have hstep := planFor_Fin hfin hpf hc hk.1
      rcases hpf with ⟨rfl, _⟩ | ⟨c', rfl, _⟩ <;>
        exact Fin.bind hstep fun _ _ => Fin.bind ih fun _ _ => Fin.ok _

omit hU hS hrec hwt in
theorem objToObj_Fin {inn : List String} {its : List Ty} {ios : List Bool} {on : List String}
    {ot : List Ty} {oo : List Bool} {cs : List Plan} {ps : List Payload}
    (hpl : All3 (AttrPlan E false on ot oo) inn its cs) (hw : wtZip its ps = true)
    (hk : wkDL d ps = true)
    (hwfI : wf (.object inn its ios) = true) (hoI : hasOpt (.object inn its ios) = false)
    (hwfO : wf (.object on ot oo) = true) (hdO : hasDyn (.object on ot oo) = false)
    :
    Fin (applyStep E rec (.objToObj inn cs on ot oo) ⟨.object inn its ios, .smap inn ps⟩) := by
  simp only [wf, Bool.and_eq_true, beq_iff_eq] at hwfI hwfO
  simp only [hasOpt, Bool.or_eq_false_iff] at hoI
  simp only [hasDyn] at hdO
  simp only [applyStep, elemsOf, keysOf]
  refine Fin.bind (Fin.ok _) fun es0 h0 => ?_
  simp at h0; subst h0
  have hndI := strictAsc_nodup hwfI.1.2
  have hok := attrOK_build (E := E) (uns := false) (on := on) (ot := ot) (oo := oo) [] [] [] [] inn its ios cs
    rfl rfl rfl hwfI.1.1.2 (by simp) hndI hpl (by
      intro n it b hf
      simp only [List.nil_append] at hf
      refine ⟨wfL_mem hwfI.2 it (find_mem_ty hf), hasOptL_mem hoI.2 it (find_mem_ty hf), ?_⟩
      intro oty o hfo
      exact ⟨wfL_mem hwfO.2 oty (find_mem_ty hfo), hasDynL_mem hdO oty (find_mem_ty hfo)⟩)
  simp only [List.nil_append] at hok
  exact Fin.bind (objAttrLoop_Fin hfin inn its cs ps hok hw hk) fun _ _ => Fin.ok _


end Bodies

theorem inner_Fin {E : Env} {d : Nat} (hU : UnifyLaws E) (hS : SetTotal E) {rec : Rec} (hrec : RecOK E rec)
    (hfin : RecFin d E rec) (hwt' : RecWT E rec) (inT out : Ty) (c : Plan) (v : Value)
    (hg : gck E inT out false = some c) (hc : Conds inT out v) (hp : plain v.v)
    (hk : wkD (d + 2) v.v = true) : Fin (applyStep E rec c v) := by
  obtain ⟨hty, hwI, hwO, hoI, hdO, hwt⟩ := hc
  obtain ⟨vt, vp⟩ := v
  simp only at hty hwt hp hk
  subst hty
  have hid : vt.isDyn = false := by
    cases vt <;> simp [Ty.isDyn]
    exact (shape_prim_dyn hp hwt).elim
  cases out with
  | dyn => simp [hasDyn] at hdO
  | bool =>
    cases vt <;> simp [gck, Ty.isDyn, isPrim, primSafe, primUnsafe] at hg hid
  | number =>
    cases vt <;> simp [gck, Ty.isDyn, isPrim, primSafe, primUnsafe] at hg hid
  | string =>
    cases vt <;> simp [gck, Ty.isDyn, isPrim, primSafe, primUnsafe] at hg hid
    · subst hg
      obtain ⟨x, rfl⟩ := shape_bool hp hwt
      exact Fin.ok _
    · subst hg
      obtain ⟨x, rfl⟩ := shape_number hp hwt
      exact Fin.ok _
  | capsule i =>
    cases vt <;> simp [gck, Ty.isDyn, isPrim, primSafe, primUnsafe] at hg hid
  | list oe =>
    have hwo : wf oe = true := by simpa [wf] using hwO
    have hdo : hasDyn oe = false := by simpa [hasDyn] using hdO
    cases vt <;> simp [gck, Ty.isDyn, isPrim] at hg hid
    case list ie =>
      have hwi : wf ie = true := by simpa [wf] using hwI
      have hoi : hasOpt ie = false := by simpa [hasOpt] using hoI
      obtain ⟨ps, rfl, hps⟩ := shape_list hp hwt
      have hkl : wkDL d ps = true := (by first | exact wkD_seq hk | exact wkD_smap hk | exact wkD_sset hk)
      have hm : MembersD d (ps.map fun p => (⟨ie, p⟩ : Value)) ie := by
        intro e he
        obtain ⟨p, hpm, rfl⟩ := List.mem_map.mp he
        exact ⟨rfl, wtAll_mem hps p hpm, wkDL_mem hkl p hpm⟩
      have hpf : ∃ conv, c = .collToList oe conv ∧ PlanFor E false ie oe conv := by
        split at hg
        · rename_i he; simp at hg; exact ⟨.nil, hg.symm, .inl ⟨rfl, he⟩⟩
        · obtain ⟨c', hc', rfl⟩ := Option.map_eq_some_iff.mp hg
          exact ⟨_, rfl, .inr ⟨c', rfl, hc'⟩⟩
      obtain ⟨conv, rfl, hpf⟩ := hpf
      exact collToList_Fin hU hrec hfin hpf hwi hoi hwo hdo rfl hm
    case set ie =>
      have hwi : wf ie = true := by simpa [wf] using hwI
      have hoi : hasOpt ie = false := by simpa [hasOpt] using hoI
      obtain ⟨ids, ps, rfl, hps⟩ := shape_set hp hwt
      have hkl : wkDL d ps = true := (by first | exact wkD_seq hk | exact wkD_smap hk | exact wkD_sset hk)
      have hm : MembersD d ((setValues E ie ps).map fun p => (⟨ie, p⟩ : Value)) ie := by
        intro e he
        obtain ⟨p, hpm, rfl⟩ := List.mem_map.mp he
        exact ⟨rfl, wtAll_mem hps p (setValues_mem hpm), wkDL_mem hkl p (setValues_mem hpm)⟩
      have hpf : ∃ conv, c = .collToList oe conv ∧ PlanFor E false ie oe conv := by
        split at hg
        · rename_i he; simp at hg; exact ⟨.nil, hg.symm, .inl ⟨rfl, he⟩⟩
        · obtain ⟨c', hc', rfl⟩ := Option.map_eq_some_iff.mp hg
          exact ⟨_, rfl, .inr ⟨c', rfl, hc'⟩⟩
      obtain ⟨conv, rfl, hpf⟩ := hpf
      exact collToList_Fin hU hrec hfin hpf hwi hoi hwo hdo rfl hm
    case tuple its =>
      have hwi : wfL its = true := by simpa [wf] using hwI
      have hoi : hasOptL its = false := by simpa [hasOpt] using hoI
      obtain ⟨ps, rfl, hps⟩ := shape_tuple hp hwt
      have hkl : wkDL d ps = true := (by first | exact wkD_seq hk | exact wkD_smap hk | exact wkD_sset hk)
      split at hg
      · simp at hg; subst hg
        simp only [applyStep]
        exact Fin.ok _
      · rename_i hne
        have hnd : oe.isDyn = false := not_isDyn_of_noDyn hdo
        simp only [seqTargetEty, hnd] at hg
        obtain ⟨cs, hcs, rfl⟩ := Option.map_eq_some_iff.mp hg
        have hpl := gcAll_inv E false oe hcs
        exact tupToList_Fin hU hrec hfin hpl hne hps hkl
          (fun it hit => ⟨wfL_mem hwi it hit, hasOptL_mem hoi it hit⟩) hwo hdo
  | set oe =>
    have hwo : wf oe = true := by simpa [wf] using hwO
    have hdo : hasDyn oe = false := by simpa [hasDyn] using hdO
    cases vt <;> simp [gck, Ty.isDyn, isPrim] at hg hid
    case set ie =>
      have hwi : wf ie = true := by simpa [wf] using hwI
      have hoi : hasOpt ie = false := by simpa [hasOpt] using hoI
      obtain ⟨ids, ps, rfl, hps⟩ := shape_set hp hwt
      have hkl : wkDL d ps = true := (by first | exact wkD_seq hk | exact wkD_smap hk | exact wkD_sset hk)
      have hm : MembersD d ((setValues E ie ps).map fun p => (⟨ie, p⟩ : Value)) ie := by
        intro e he
        obtain ⟨p, hpm, rfl⟩ := List.mem_map.mp he
        exact ⟨rfl, wtAll_mem hps p (setValues_mem hpm), wkDL_mem hkl p (setValues_mem hpm)⟩
      have hpf : ∃ conv, c = .collToSet oe conv ∧ PlanFor E false ie oe conv := by
        split at hg
        · rename_i he; simp at hg; exact ⟨.nil, hg.symm, .inl ⟨rfl, he⟩⟩
        · obtain ⟨c', hc', rfl⟩ := Option.map_eq_some_iff.mp hg
          exact ⟨_, rfl, .inr ⟨c', rfl, hc'⟩⟩
      obtain ⟨conv, rfl, hpf⟩ := hpf
      exact collToSet_Fin hU hS hrec hfin hwt' hpf hwi hoi hwo hdo rfl hm
    case tuple its =>
      have hwi : wfL its = true := by simpa [wf] using hwI
      have hoi : hasOptL its = false := by simpa [hasOpt] using hoI
      obtain ⟨ps, rfl, hps⟩ := shape_tuple hp hwt
      have hkl : wkDL d ps = true := (by first | exact wkD_seq hk | exact wkD_smap hk | exact wkD_sset hk)
      split at hg
      · simp at hg; subst hg
        simp only [applyStep]
        exact Fin.ok _
      · rename_i hne
        have hnd : oe.isDyn = false := not_isDyn_of_noDyn hdo
        simp only [seqTargetEty, hnd] at hg
        obtain ⟨cs, hcs, rfl⟩ := Option.map_eq_some_iff.mp hg
        have hpl := gcAll_inv E false oe hcs
        exact tupToSet_Fin hS hrec hfin hwt' hpl hne hps hkl
          (fun it hit => ⟨wfL_mem hwi it hit, hasOptL_mem hoi it hit⟩) hwo hdo
  | map oe =>
    have hwo : wf oe = true := by simpa [wf] using hwO
    have hdo : hasDyn oe = false := by simpa [hasDyn] using hdO
    cases vt <;> simp [gck, Ty.isDyn, isPrim] at hg hid
    case map ie =>
      have hwi : wf ie = true := by simpa [wf] using hwI
      have hoi : hasOpt ie = false := by simpa [hasOpt] using hoI
      obtain ⟨ks, ps, rfl, _, hps⟩ := shape_map hp hwt
      have hkl : wkDL d ps = true := (by first | exact wkD_seq hk | exact wkD_smap hk | exact wkD_sset hk)
      have hm : MembersD d (ps.map fun p => (⟨ie, p⟩ : Value)) ie := by
        intro e he
        obtain ⟨p, hpm, rfl⟩ := List.mem_map.mp he
        exact ⟨rfl, wtAll_mem hps p hpm, wkDL_mem hkl p hpm⟩
      obtain ⟨c', hc', rfl⟩ := hg
      exact collToMap_Fin hU hrec hfin (.inr ⟨c', rfl, hc'⟩) hwi hoi hwo hdo rfl hm
    case object inn its ios =>
      have hwi : wfL its = true := by
        simp only [wf, Bool.and_eq_true] at hwI; exact hwI.2
      have hoi : hasOptL its = false := by
        simp only [hasOpt, Bool.or_eq_false_iff] at hoI; exact hoI.2
      obtain ⟨ps, rfl, hps⟩ := shape_object hp hwt
      have hkl : wkDL d ps = true := (by first | exact wkD_seq hk | exact wkD_smap hk | exact wkD_sset hk)
      split at hg
      · simp at hg; subst hg
        simp only [applyStep]
        exact Fin.ok _
      · rename_i hne
        have hnd : oe.isDyn = false := not_isDyn_of_noDyn hdo
        simp only [mapTargetEty, hnd] at hg
        obtain ⟨cs, hcs, rfl⟩ := Option.map_eq_some_iff.mp hg
        have hpl := gcAll_inv E false oe hcs
        simp only [wf, Bool.and_eq_true, beq_iff_eq] at hwI
        exact objToMap_Fin hU hrec hfin hpl hne hps hkl (strictAsc_nodup hwI.1.2) hwI.1.1.1
          (fun it hit => ⟨wfL_mem hwi it hit, hasOptL_mem hoi it hit⟩) hwo hdo
  | tuple ots =>
    cases vt <;> simp [gck, Ty.isDyn, isPrim] at hg hid
    case tuple its =>
      obtain ⟨hlen, cs, hcs, rfl⟩ := hg
      obtain ⟨ps, rfl, hps⟩ := shape_tuple hp hwt
      have hkl : wkDL d ps = true := (by first | exact wkD_seq hk | exact wkD_smap hk | exact wkD_sset hk)
      have hpl := gcZip_inv E false hlen hcs
      exact tupToTup_Fin hfin hpl hps hkl (by simpa [wf] using hwI) (by simpa [hasOpt] using hoI)
        (by simpa [wf] using hwO) (by simpa [hasDyn] using hdO)
  | object on ot oo =>
    cases vt <;> simp [gck, Ty.isDyn, isPrim] at hg hid
    case object inn its ios =>
      obtain ⟨hreq, cs, hcs, rfl⟩ := hg
      obtain ⟨ps, rfl, hps⟩ := shape_object hp hwt
      have hkl : wkDL d ps = true := (by first | exact wkD_seq hk | exact wkD_smap hk | exact wkD_sset hk)
      have hwI' := hwI
      simp only [wf, Bool.and_eq_true, beq_iff_eq] at hwI'
      have hpl := gcObj_inv E false on ot oo hwI'.1.1.1 hcs
      exact objToObj_Fin hfin hpl hps hkl hwI hoI hwO hdO


/-! ### the wrapper, and every fuel -/

theorem depth_ge_one (p : Payload) : 1 ≤ p.depth := by
  cases p <;> simp [Payload.depth]

theorem wkD_depth {d : Nat} {p : Payload} (h : wkD d p = true) : 2 ≤ d := by
  simp only [wkD, Bool.and_eq_true] at h
  have := of_decide_eq_true h.2
  have := depth_ge_one p
  omega

theorem recFin_apply {E : Env} (hU : UnifyLaws E) (hS : SetTotal E) : ∀ n, RecFin n E (apply E n) := by
  intro n
  induction n using Nat.strongRecOn with
  | _ n ih =>
    intro inT out c v hg hc hk
    have hn2 := wkD_depth hk
    cases n with
    | zero => omega
    | succ n =>
      have hnd : out.isDyn = false := not_isDyn_of_noDyn hc.dynO
      simp only [apply, applyStep]
      split
      · rename_i hm
        have hc' : Conds inT out v.unmark :=
          ⟨hc.ty, hc.wfI, hc.wfO, hc.optI, hc.dynO, unmark_wt hm hc.wt⟩
        have := ih n (Nat.lt_succ_self n) inT out c v.unmark hg hc' (wkD_unmark hm hk)
        cases hres : apply E n (.wrap out c) v.unmark with
        | ok r => exact Fin.ok _
        | err e => simp [Fin]
        | panic w => simp [Fin]
        | unmodelled => exact absurd hres this
      · rename_i hm
        have hm' : v.isMarked = false := by simpa using hm
        have hkn := known_of_whollyKnown hm' (wkD_wk hk)
        simp only [hnd, Bool.false_eq_true, if_false, hkn, Bool.not_true, Bool.false_or]
        split
        · have hrepl := dynRepl_id E inT out hc.dynO hc.wfO
          rw [hc.ty, hrepl]
          exact Fin.ok _
        · rename_i hnn
          cases n with
          | zero => omega
          | succ m =>
            simp only [apply]
            exact inner_Fin hU hS (recOK_apply hU m) (ih m (by omega)) (recWT_apply hU m) inT out c v hg hc
              ⟨hm', hkn, (by simpa using hnn : v.isNull = false)⟩ hk

/-- **Fuel adequacy**: a conversion offered by `GetConversion` (safe mode), applied to a well-typed
wholly-known value with fuel at least twice the nesting depth of its payload, does not run out of fuel. -/
theorem apply_safe_fin {E : Env} (hU : UnifyLaws E) (hS : SetTotal E) {v : Value} {want : Ty} {p : Plan}
    {fuel : Nat} (hp : RegularPair v want) (hk : Payload.whollyKnown v.v = true)
    (hg : getConv E v.ty want false = some p) (hf : 2 * v.v.depth ≤ fuel) :
    apply E fuel p v ≠ .unmodelled := by
  obtain ⟨c, hc, rfl⟩ := Option.map_eq_some_iff.mp hg
  exact recFin_apply hU hS fuel v.ty want c v hc hp.conds (by simp [wkD, hk, hf])

end Convert
end CtyModel
