/-
d03b — `strconv.Quote` (the model's `quoteChars`) is a PREFIX CODE: a decoder
`unq` reads one escaped rune back from the front of any text that starts with its
escape, so two quoted strings followed by their closing `"` can only coincide if
the strings do.  This is what makes the delimiters of the set hash text
unambiguous (they never occur unescaped inside a `%q`-quoted string).
-/
import CtyModel.SetRulesD03b
namespace CtyModel
namespace D03b

/-- value of one lower-case hex digit -/
def hv (c : Char) : Nat :=
  if c.toNat ≤ 57 then c.toNat - 48 else c.toNat - 87

theorem hv_hexDigit : ∀ k : Fin 16, hv (Sexp.hexDigit k.val) = k.val := by decide

theorem hv_hex (k : Nat) (h : k < 16) : hv (Sexp.hexDigit k) = k := hv_hexDigit ⟨k, h⟩

/-- read one rune (its code point) of a quoted text back -/
def unq : List Char → Option (Nat × List Char)
  | [] => none
  | c :: s =>
    if c ≠ '\\' then some (c.toNat, s)
    else match s with
      | [] => none
      | e :: s =>
        if e = 'a' then some (7, s) else if e = 'b' then some (8, s) else if e = 'f' then some (12, s)
        else if e = 'n' then some (10, s) else if e = 'r' then some (13, s) else if e = 't' then some (9, s)
        else if e = 'v' then some (11, s)
        else if e = 'x' then
          match s with
          | a :: b :: s => some (hv a * 16 + hv b, s)
          | _ => none
        else if e = 'u' then
          match s with
          | a :: b :: c :: d :: s => some (((hv a * 16 + hv b) * 16 + hv c) * 16 + hv d, s)
          | _ => none
        else if e = 'U' then
          match s with
          | a :: b :: c :: d :: a' :: b' :: c' :: d' :: s =>
            some ((((((( hv a * 16 + hv b) * 16 + hv c) * 16 + hv d) * 16 + hv a') * 16 + hv b') * 16 + hv c') * 16 + hv d', s)
          | _ => none
        else some (e.toNat, s)

theorem hexFixed2 (n : Nat) : hexFixed 2 n = [Sexp.hexDigit (n / 16 % 16), Sexp.hexDigit (n % 16)] := by
  simp [hexFixed]

theorem hexFixed4 (n : Nat) : hexFixed 4 n =
    [Sexp.hexDigit (n / 16 / 16 / 16 % 16), Sexp.hexDigit (n / 16 / 16 % 16), Sexp.hexDigit (n / 16 % 16),
      Sexp.hexDigit (n % 16)] := by
  simp [hexFixed]

theorem hexFixed8 (n : Nat) : hexFixed 8 n =
    [Sexp.hexDigit (n / 16 / 16 / 16 / 16 / 16 / 16 / 16 % 16), Sexp.hexDigit (n / 16 / 16 / 16 / 16 / 16 / 16 % 16),
      Sexp.hexDigit (n / 16 / 16 / 16 / 16 / 16 % 16), Sexp.hexDigit (n / 16 / 16 / 16 / 16 % 16),
      Sexp.hexDigit (n / 16 / 16 / 16 % 16), Sexp.hexDigit (n / 16 / 16 % 16), Sexp.hexDigit (n / 16 % 16),
      Sexp.hexDigit (n % 16)] := by
  simp [hexFixed]

/-- **one rune**: the decoder reads the escape of `c` back, whatever follows; and
no escape starts with the closing quote -/
theorem quoteChar_spec {c : Char} {q : List Char} (h : quoteChar c = some q) :
    (∀ s, unq (q ++ s) = some (c.toNat, s)) ∧ ∃ x tl, q = x :: tl ∧ x ≠ '"' := by
  unfold quoteChar at h
  split at h
  · rename_i hc
    injection h with h; subst h
    refine ⟨fun s => ?_, _, _, rfl, by decide⟩
    rcases hc with hc | hc <;> subst hc <;> simp [unq]
  · rename_i hc
    have h1 : c ≠ '"' := fun e => hc (Or.inl e)
    have h2 : c ≠ '\\' := fun e => hc (Or.inr e)
    split at h
    · cases h
    · injection h with h; subst h
      exact ⟨fun s => by simp [unq, h2], _, _, rfl, h1⟩
    · injection h with h; subst h
      split
      all_goals try (rename_i hn; refine ⟨fun s => by simp [unq, hn], _, _, rfl, by decide⟩)
      rename_i n _ _ _ _ _ _ _
      have hv : c.val.toNat < 0x110000 := by
        have := c.valid
        rcases this with h | ⟨_, h⟩ <;> simp only [UInt32.toNat] at * <;> omega
      split
      · rename_i hlt
        refine ⟨fun s => ?_, _, _, rfl, by decide⟩
        have hb : c.toNat < 256 := by omega
        simp only [hexFixed2, List.cons_append, List.nil_append, unq]
        simp only [ne_eq, not_true_eq_false, if_false, show ('x' : Char) ≠ 'a' by decide, show ('x' : Char) ≠ 'b' by decide,
          show ('x' : Char) ≠ 'f' by decide, show ('x' : Char) ≠ 'n' by decide, show ('x' : Char) ≠ 'r' by decide,
          show ('x' : Char) ≠ 't' by decide, show ('x' : Char) ≠ 'v' by decide, if_true]
        rw [hv_hex _ (by omega), hv_hex _ (by omega)]
        congr 2; omega
      · split
        · rename_i hlt
          refine ⟨fun s => ?_, _, _, rfl, by decide⟩
          simp only [hexFixed4, List.cons_append, List.nil_append, unq]
          simp only [ne_eq, not_true_eq_false, if_false, show ('u' : Char) ≠ 'a' by decide, show ('u' : Char) ≠ 'b' by decide,
            show ('u' : Char) ≠ 'f' by decide, show ('u' : Char) ≠ 'n' by decide, show ('u' : Char) ≠ 'r' by decide,
            show ('u' : Char) ≠ 't' by decide, show ('u' : Char) ≠ 'v' by decide, show ('u' : Char) ≠ 'x' by decide, if_true]
          rw [hv_hex _ (by omega), hv_hex _ (by omega), hv_hex _ (by omega), hv_hex _ (by omega)]
          congr 2; omega
        · refine ⟨fun s => ?_, _, _, rfl, by decide⟩
          simp only [hexFixed8, List.cons_append, List.nil_append, unq]
          simp only [ne_eq, not_true_eq_false, if_false, show ('U' : Char) ≠ 'a' by decide, show ('U' : Char) ≠ 'b' by decide,
            show ('U' : Char) ≠ 'f' by decide, show ('U' : Char) ≠ 'n' by decide, show ('U' : Char) ≠ 'r' by decide,
            show ('U' : Char) ≠ 't' by decide, show ('U' : Char) ≠ 'v' by decide, show ('U' : Char) ≠ 'x' by decide,
            show ('U' : Char) ≠ 'u' by decide, if_true]
          rw [hv_hex _ (by omega), hv_hex _ (by omega), hv_hex _ (by omega), hv_hex _ (by omega),
            hv_hex _ (by omega), hv_hex _ (by omega), hv_hex _ (by omega), hv_hex _ (by omega)]
          congr 2
          have : c.toNat = c.val.toNat := rfl
          omega

end D03b
end CtyModel

namespace CtyModel
namespace D03b

theorem quoteChars_cons {c : Char} {cs q : List Char} (h : quoteChars (c :: cs) = some q) :
    ∃ qc qs, quoteChar c = some qc ∧ quoteChars cs = some qs ∧ q = qc ++ qs := by
  simp only [quoteChars] at h
  split at h
  · rename_i a b ha hb
    injection h with h
    exact ⟨a, b, ha, hb, h.symm⟩
  · cases h

/-- **`quoteChars` is a prefix code up to the closing quote** -/
theorem quoteChars_prefix : ∀ (a b : List Char) (ca cb r1 r2 : List Char), quoteChars a = some ca →
    quoteChars b = some cb → ca ++ '"' :: r1 = cb ++ '"' :: r2 → a = b ∧ r1 = r2
  | [], [], ca, cb, r1, r2, ha, hb, h => by
    simp only [quoteChars, Option.some.injEq] at ha hb
    subst ha; subst hb
    simpa using h
  | [], d :: b, ca, cb, r1, r2, ha, hb, h => by
    simp only [quoteChars, Option.some.injEq] at ha
    subst ha
    obtain ⟨qd, qs, hd, _, rfl⟩ := quoteChars_cons hb
    obtain ⟨_, x, tl, rfl, hx⟩ := quoteChar_spec hd
    simp only [List.nil_append, List.cons_append, List.cons.injEq] at h
    exact absurd h.1.symm hx
  | c :: a, [], ca, cb, r1, r2, ha, hb, h => by
    simp only [quoteChars, Option.some.injEq] at hb
    subst hb
    obtain ⟨qc, qs, hc, _, rfl⟩ := quoteChars_cons ha
    obtain ⟨_, x, tl, rfl, hx⟩ := quoteChar_spec hc
    simp only [List.nil_append, List.cons_append, List.cons.injEq] at h
    exact absurd h.1 hx
  | c :: a, d :: b, ca, cb, r1, r2, ha, hb, h => by
    obtain ⟨qc, qa, hc, ha', rfl⟩ := quoteChars_cons ha
    obtain ⟨qd, qb, hd, hb', rfl⟩ := quoteChars_cons hb
    have h1 := (quoteChar_spec hc).1 (qa ++ '"' :: r1)
    have h2 := (quoteChar_spec hd).1 (qb ++ '"' :: r2)
    simp only [List.append_assoc] at h
    rw [h, h2] at h1
    simp only [Option.some.injEq, Prod.mk.injEq] at h1
    have hcd : c = d := (Char.toNat_inj.mp h1.1).symm
    obtain ⟨hab, hr⟩ := quoteChars_prefix a b qa qb r1 r2 ha' hb' h1.2.symm
    exact ⟨by rw [hcd, hab], hr⟩

end D03b
end CtyModel
