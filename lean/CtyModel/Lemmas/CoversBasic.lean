/-
Basic facts about `Covers`: marks play no part; what a value that covers a known
boolean / number can look like; the results of the logical and comparison
operations cover each other as expected.
-/
import CtyModel.Covers
import CtyModel.Lemmas.NumCmp
namespace CtyModel
open Value Cov

/-! ### inversion of `Ty.matches` -/
theorem matches_dyn_right {c : Ty} (h : Ty.matches c .dyn = true) : c = .dyn := by
  cases c <;> simp_all [Ty.matches]
theorem matches_bool_right {c : Ty} (h : Ty.matches c .bool = true) : c = .dyn ∨ c = .bool := by
  cases c <;> simp_all [Ty.matches]
theorem matches_number_right {c : Ty} (h : Ty.matches c .number = true) : c = .dyn ∨ c = .number := by
  cases c <;> simp_all [Ty.matches]
theorem matches_string_right {c : Ty} (h : Ty.matches c .string = true) : c = .dyn ∨ c = .string := by
  cases c <;> simp_all [Ty.matches]
theorem matches_list_right {c e : Ty} (h : Ty.matches c (.list e) = true) :
    c = .dyn ∨ ∃ e', c = .list e' ∧ Ty.matches e' e = true := by
  cases c <;> simp_all [Ty.matches]
theorem matches_set_right {c e : Ty} (h : Ty.matches c (.set e) = true) :
    c = .dyn ∨ ∃ e', c = .set e' ∧ Ty.matches e' e = true := by
  cases c <;> simp_all [Ty.matches]
theorem matches_map_right {c e : Ty} (h : Ty.matches c (.map e) = true) :
    c = .dyn ∨ ∃ e', c = .map e' ∧ Ty.matches e' e = true := by
  cases c <;> simp_all [Ty.matches]
theorem matches_tuple_right {c : Ty} {es : List Ty} (h : Ty.matches c (.tuple es) = true) :
    c = .dyn ∨ ∃ es', c = .tuple es' ∧ Ty.matchesL es' es = true := by
  cases c <;> simp_all [Ty.matches]
theorem matches_object_right {c : Ty} {ns : List String} {ts : List Ty} {os : List Bool}
    (h : Ty.matches c (.object ns ts os) = true) :
    c = .dyn ∨ ∃ ts' os', c = .object ns ts' os' ∧ Ty.matchesL ts' ts = true := by
  cases c <;> simp_all [Ty.matches]
theorem matches_capsule_right {c : Ty} {i : Nat} (h : Ty.matches c (.capsule i) = true) :
    c = .dyn ∨ c = .capsule i := by
  cases c <;> simp_all [Ty.matches]

theorem equals_number {t : Ty} (h : Ty.equals t .number = true) : t = .number := by
  cases t <;> simp_all [Ty.equals]
theorem equals_bool {t : Ty} (h : Ty.equals t .bool = true) : t = .bool := by
  cases t <;> simp_all [Ty.equals]

/-! ### marks play no part -/
namespace Payload
theorem stripMarks_unmark1 (p : Payload) : p.unmark1.stripMarks = p.stripMarks := by
  cases p <;> simp [unmark1, stripMarks]
theorem stripMarks_withMarks (p : Payload) (ms : List String) : (p.withMarks ms).stripMarks = p.stripMarks := by
  unfold withMarks
  simp only
  split
  · rfl
  · simp [stripMarks, stripMarks_unmark1]
theorem whollyKnown_unmark1 (p : Payload) : p.unmark1.whollyKnown = p.whollyKnown := by
  cases p <;> simp [unmark1, whollyKnown]
theorem whollyKnown_withMarks (p : Payload) (ms : List String) : (p.withMarks ms).whollyKnown = p.whollyKnown := by
  unfold withMarks
  simp only
  split
  · rfl
  · simp [whollyKnown, whollyKnown_unmark1]
theorem isNull_withMarks (p : Payload) (ms : List String) : (p.withMarks ms).isNull = p.isNull := by
  unfold withMarks
  simp only
  split
  · rfl
  · cases p <;> simp [isNull, unmark1]
end Payload

theorem coversG_unmark_left (ex : Bool) (w o : Value) : CoversG ex w.unmark o = CoversG ex w o := by
  simp [CoversG, Value.unmark, Payload.stripMarks_unmark1]
theorem coversG_unmark_right (ex : Bool) (w o : Value) : CoversG ex w o.unmark = CoversG ex w o := by
  simp [CoversG, Value.unmark, Payload.stripMarks_unmark1]
theorem coversG_withMarks_left (ex : Bool) (w o : Value) (ms : List String) :
    CoversG ex (w.withMarks ms) o = CoversG ex w o := by
  simp [CoversG, Value.withMarks, Payload.stripMarks_withMarks]
theorem coversG_withMarks_right (ex : Bool) (w o : Value) (ms : List String) :
    CoversG ex w (o.withMarks ms) = CoversG ex w o := by
  simp [CoversG, Value.withMarks, Payload.stripMarks_withMarks]
theorem covers_unmark_left (w o : Value) : Covers w.unmark o = Covers w o := coversG_unmark_left _ _ _
theorem covers_unmark_right (w o : Value) : Covers w o.unmark = Covers w o := coversG_unmark_right _ _ _
theorem covers_withMarks_left (w o : Value) (ms : List String) : Covers (w.withMarks ms) o = Covers w o :=
  coversG_withMarks_left _ _ _ _
theorem covers_withMarks_right (w o : Value) (ms : List String) : Covers w (o.withMarks ms) = Covers w o :=
  coversG_withMarks_right _ _ _ _
theorem coversX_unmark_left (w o : Value) : CoversX w.unmark o = CoversX w o := coversG_unmark_left _ _ _
theorem coversX_unmark_right (w o : Value) : CoversX w o.unmark = CoversX w o := coversG_unmark_right _ _ _
theorem whollyKnown_unmark (v : Value) : v.unmark.whollyKnown = v.whollyKnown := by
  simp [Value.whollyKnown, Value.unmark, Payload.whollyKnown_unmark1]
theorem whollyKnown_withMarks (v : Value) (ms : List String) : (v.withMarks ms).whollyKnown = v.whollyKnown := by
  simp [Value.whollyKnown, Value.withMarks, Payload.whollyKnown_withMarks]
theorem isNull_withMarks (v : Value) (ms : List String) : (v.withMarks ms).isNull = v.isNull := by
  simp [Value.isNull, Value.withMarks, Payload.isNull_withMarks]

/-! ### the marks prologue of the operation methods -/
theorem unMarks_eq (f : Value → Res Value) (a : Value) :
    unMarks f a = (f a.unmark).map (fun r => if a.isMarked then r.withMarks a.marks else r) := by
  unfold unMarks
  by_cases h : a.isMarked = true
  · simp [h]
  · have hu : a.unmark = a := by
      obtain ⟨t, p⟩ := a
      cases p <;> simp_all [Value.unmark, Payload.unmark1, Value.isMarked, Payload.isMarked]
    simp only [h, hu]
    cases f a <;> simp [Res.map]

theorem binMarks_eq (f : Value → Value → Res Value) (a b : Value) :
    binMarks f a b = (f a.unmark b.unmark).map
      (fun r => if a.isMarked || b.isMarked then r.withMarks (unionMarks a.marks b.marks) else r) := by
  unfold binMarks
  by_cases h : (a.isMarked || b.isMarked) = true
  · simp [h]
  · have ha : a.unmark = a := by
      obtain ⟨t, p⟩ := a
      cases p <;> simp_all [Value.unmark, Payload.unmark1, Value.isMarked, Payload.isMarked]
    have hb : b.unmark = b := by
      obtain ⟨t, p⟩ := b
      cases p <;> simp_all [Value.unmark, Payload.unmark1, Value.isMarked, Payload.isMarked]
    simp only [h, ha, hb]
    cases f a b <;> simp [Res.map]

theorem res_map_ok {α β} {f : α → β} {x : Res α} {r : β} (h : x.map f = .ok r) : ∃ a, x = .ok a ∧ r = f a := by
  cases x <;> simp_all [Res.map]

/-- soundness of an operation on operands without a marker at the top -/
def SoundU₁ (f : Value → Res Value) : Prop :=
  ∀ o w r, o.whollyKnown = true → o.isMarked = false → w.isMarked = false → CoversX w o = true → f o = .ok r →
    ∃ r', f w = .ok r' ∧ Covers r' r = true
def SoundU₂ (f : Value → Value → Res Value) : Prop :=
  ∀ o₁ o₂ w₁ w₂ r, o₁.whollyKnown = true → o₂.whollyKnown = true →
    o₁.isMarked = false → o₂.isMarked = false → w₁.isMarked = false → w₂.isMarked = false →
    CoversX w₁ o₁ = true → CoversX w₂ o₂ = true → f o₁ o₂ = .ok r →
    ∃ r', f w₁ w₂ = .ok r' ∧ Covers r' r = true

theorem flat_unmark {w : Value} (h : w.flatMarks = true) : w.unmark.isMarked = false := by
  simpa [Value.flatMarks] using h

theorem wfc_flat {w : Value} (h : w.wfc = true) : w.flatMarks = true := by
  simp only [Value.wfc, Bool.and_eq_true] at h; exact h.1.1.1
theorem wfc_ty {w : Value} (h : w.wfc = true) : w.ty.wf = true := by
  simp only [Value.wfc, Bool.and_eq_true] at h; exact h.1.1.2
theorem wfc_dynOK {w : Value} (h : w.wfc = true) : w.dynOK = true := by
  simp only [Value.wfc, Bool.and_eq_true] at h; exact h.1.2
theorem wfc_lenFits {w : Value} (h : w.wfc = true) : w.lenFits = true := by
  simp only [Value.wfc, Bool.and_eq_true] at h; exact h.2

theorem unmark_of_not_marked {a : Value} (h : a.isMarked = false) : a.unmark = a := by
  obtain ⟨t, p⟩ := a
  cases p <;> simp_all [Value.unmark, Payload.unmark1, Value.isMarked, Payload.isMarked]

theorem wfc_unmark {w : Value} (h : w.wfc = true) : w.unmark.wfc = true := by
  have hf := flat_unmark (wfc_flat h)
  have hty := wfc_ty h
  have hd := wfc_dynOK h
  have hl := wfc_lenFits h
  simp only [Value.wfc, Bool.and_eq_true]
  refine ⟨⟨⟨?_, hty⟩, ?_⟩, ?_⟩
  · simp [Value.flatMarks, unmark_of_not_marked hf, hf]
  · obtain ⟨t, p⟩ := w
    cases p <;> try (simpa [Value.dynOK, Value.unmark, Payload.unmark1, Value.isKnown, Payload.isKnown, Value.isNull, Payload.isNull] using hd)
    rename_i ms r
    cases r <;> simp_all [Value.dynOK, Value.unmark, Payload.unmark1, Value.isKnown, Payload.isKnown, Value.isNull,
      Payload.isNull, Value.isMarked, Payload.isMarked]
  · obtain ⟨t, p⟩ := w
    cases p <;> try (simpa [Value.lenFits, Value.unmark, Payload.unmark1] using hl)
    rename_i ms r
    cases r <;> simp_all [Value.lenFits, Value.unmark, Payload.unmark1, Value.isMarked, Payload.isMarked]

/-- soundness on operands without a marker at the top, given the representation invariants -/
def SoundUW₁ (f : Value → Res Value) : Prop :=
  ∀ o w r, o.whollyKnown = true → o.isMarked = false → w.isMarked = false → o.wfc = true → w.wfc = true →
    CoversX w o = true → f o = .ok r → ∃ r', f w = .ok r' ∧ Covers r' r = true
def SoundUW₂ (f : Value → Value → Res Value) : Prop :=
  ∀ o₁ o₂ w₁ w₂ r, o₁.whollyKnown = true → o₂.whollyKnown = true →
    o₁.isMarked = false → o₂.isMarked = false → w₁.isMarked = false → w₂.isMarked = false →
    o₁.wfc = true → o₂.wfc = true → w₁.wfc = true → w₂.wfc = true →
    CoversX w₁ o₁ = true → CoversX w₂ o₂ = true → f o₁ o₂ = .ok r →
    ∃ r', f w₁ w₂ = .ok r' ∧ Covers r' r = true

theorem SoundU₁.toW {f : Value → Res Value} (h : SoundU₁ f) : SoundUW₁ f :=
  fun o w r hk hmo hmw _ _ hc ho => h o w r hk hmo hmw hc ho
theorem SoundU₂.toW {f : Value → Value → Res Value} (h : SoundU₂ f) : SoundUW₂ f :=
  fun o₁ o₂ w₁ w₂ r hk₁ hk₂ a b c d _ _ _ _ hc₁ hc₂ ho => h o₁ o₂ w₁ w₂ r hk₁ hk₂ a b c d hc₁ hc₂ ho

theorem sound_unMarks {f : Value → Res Value} (h : SoundUW₁ f) : Sound₁ (unMarks f) := by
  intro o w r hk hfo hf hc ho
  rw [unMarks_eq] at ho ⊢
  obtain ⟨r0, h0, rfl⟩ := res_map_ok ho
  obtain ⟨r', h1, h2⟩ := h o.unmark w.unmark r0 (by rw [whollyKnown_unmark]; exact hk)
    (flat_unmark (wfc_flat hfo)) (flat_unmark (wfc_flat hf)) (wfc_unmark hfo) (wfc_unmark hf)
    (by rw [coversX_unmark_left, coversX_unmark_right]; exact hc) h0
  refine ⟨_, by rw [h1]; rfl, ?_⟩
  by_cases ha : o.isMarked = true <;> by_cases hb : w.isMarked = true <;>
    simp [ha, hb, covers_withMarks_left, covers_withMarks_right, h2]

theorem sound_binMarks {f : Value → Value → Res Value} (h : SoundUW₂ f) : Sound₂ (binMarks f) := by
  intro o₁ o₂ w₁ w₂ r hk₁ hk₂ hfo₁ hfo₂ hf₁ hf₂ hc₁ hc₂ ho
  rw [binMarks_eq] at ho ⊢
  obtain ⟨r0, h0, rfl⟩ := res_map_ok ho
  obtain ⟨r', h1, h2⟩ := h o₁.unmark o₂.unmark w₁.unmark w₂.unmark r0
    (by rw [whollyKnown_unmark]; exact hk₁) (by rw [whollyKnown_unmark]; exact hk₂)
    (flat_unmark (wfc_flat hfo₁)) (flat_unmark (wfc_flat hfo₂)) (flat_unmark (wfc_flat hf₁)) (flat_unmark (wfc_flat hf₂))
    (wfc_unmark hfo₁) (wfc_unmark hfo₂) (wfc_unmark hf₁) (wfc_unmark hf₂)
    (by rw [coversX_unmark_left, coversX_unmark_right]; exact hc₁)
    (by rw [coversX_unmark_left, coversX_unmark_right]; exact hc₂) h0
  refine ⟨_, by rw [h1]; rfl, ?_⟩
  by_cases ha : (o₁.isMarked || o₂.isMarked) = true <;> by_cases hb : (w₁.isMarked || w₂.isMarked) = true <;>
    simp_all [covers_withMarks_left, covers_withMarks_right]

end CtyModel
