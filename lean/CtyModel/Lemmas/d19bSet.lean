/-
d19b — `Transform` whose callback replaces one member BELOW A SET.

cty/walk.go `transform`, set case: every member is transformed in iteration order,
the results are collected in `elems`, and the new value is `SetVal(elems)` with the
set's own marks re-applied — always, whether or not any member changed.  (A seeded
change, `seeded/C19-transform-set-reuse-when-last-member-unchanged`, returned the
ORIGINAL set whenever the member iterated last came back unchanged.)  Paths cannot
address the result below a set (`transform_replace_one` excludes such positions),
so the statement is about the whole result: it is `setVal` of the transformed
members — the member on the way to the replaced position with that position
replaced, every other member itself — marks hoisted by `SetVal`, the set's marks
re-applied, then handed to the callback.
-/
import CtyModel.Lemmas.d19bEnter
namespace CtyModel
namespace Walk
open Value

theorem map_ite_eq_set' {α β : Type} [DecidableEq α] : ∀ (l : List α) (i : Nat) (a : α),
    l[i]? = some a → (∀ j, j ≠ i → l[j]? ≠ some a) → ∀ (f : α → β) (b : β),
    l.map (fun c => if c = a then b else f c) = (l.map f).set i b
  | [], _, _, h, _, _, _ => by simp at h
  | c :: l, 0, a, h, hne, f, b => by
    simp only [List.getElem?_cons_zero, Option.some.injEq] at h
    subst h
    simp only [List.map_cons, if_true, List.set_cons_zero, List.cons.injEq, true_and]
    apply List.map_congr_left
    intro x hx
    obtain ⟨j, hj⟩ := List.getElem?_of_mem hx
    have : x ≠ c := fun h => hne (j + 1) (by omega) (by simpa [h] using hj)
    simp [this]
  | c :: l, i + 1, a, h, hne, f, b => by
    simp only [List.getElem?_cons_succ] at h
    have hca : c ≠ a := fun hc => hne 0 (by omega) (by simp [hc])
    simp only [List.map_cons, hca, if_false, List.set_cons_succ, List.cons.injEq, true_and]
    exact map_ite_eq_set' l i a h (fun j hj => by
      have := hne (j + 1) (by omega)
      simpa using this) f b

/-- a member of a set is its own step key -/
theorem setKids_fst_eq (e : Ty) : ∀ (ms : List Payload) (c : PathStep × Value),
    c ∈ setKids e ms → c.1 = .index c.2
  | [], _, h => by simp [setKids] at h
  | m :: ms, c, h => by
    simp only [setKids, List.mem_cons] at h
    rcases h with rfl | h
    · rfl
    · exact setKids_fst_eq e ms c h

theorem kids_set_fst_eq {X : SetOracle} {v : Value} {e : Ty} (hty : v.ty = .set e)
    (c : PathStep × Value) (hc : c ∈ kids X v) : c.1 = .index c.2 := by
  simp only [kids] at hc
  split at hc
  · cases hc
  · obtain ⟨t, p⟩ := v
    simp only at hty
    subst hty
    simp only [Value.unmark, children] at hc
    split at hc <;> first
      | exact setKids_fst_eq _ _ c hc
      | cases hc
      | (rename_i h _; cases h)

open Classical in
/-- **replace one member below a set.**  `v` is a set value (marked or not); the
callback returns `x` at the path of position `i :: r` — inside the set's `i`-th
member in iteration order, `r` not passing through a further set — and what it is
given at the path of every other position.  Then `Transform` yields exactly what
`SetVal` makes of the transformed members, with the set's marks re-applied —
success, panic (`SetVal` on inconsistent element types) or a member outside the
model alike.  Nothing is reused from the original set. -/
theorem transformFuel_replace_below_set {X : SetOracle} (hX : IterPerm X) {σ : Sched} (hσ : SchedOk σ)
    (cb : TCb) (x : Value) (f : Nat) (v : Value) (hd : v.v.depth < f) (hg : Good X v) (e : Ty)
    (hty : v.ty = .set e) (i : Nat) (r : Pos) (path q0' : Path) (ci : PathStep × Value) (n : Value)
    (hci : (kids X v)[i]? = some ci) (hn : nodeAt X ci.2 r = some n)
    (hq : pathAt X ci.2 r = some q0') (hns : noSetAt X ci.2 r = true) (hx : x.ty = n.ty)
    (hrep : ∀ log v', cb log (path ++ ci.1 :: q0') v' = .ok x)
    (hid : ∀ r' q, r' ≠ i :: r → pathAt X v r' = some q → ∀ log v', cb log (path ++ q) v' = .ok v') :
    ∃ evs, ∀ log, transformFuel X σ (postorder cb) f log path v =
      (log ++ evs, (setVal X (((kids X v).map (·.2)).set i (replaceAt X ci.2 r x))).map
        (·.withMarks v.marks)) := by
  cases f with
  | zero => omega
  | succ f =>
    have hcim : ci ∈ kids X v := List.mem_of_getElem? hci
    obtain ⟨hnull, hknown, hk⟩ := kids_eq_children hci
    -- no other member has the step of the `i`-th (else one path would have to be answered in two ways)
    have huniq : ∀ j, j ≠ i → (kids X v)[j]? ≠ some ci := by
      intro j hji hj
      have h1 := hid (j :: r) (ci.1 :: q0') (by simp [hji]) (by rw [pathAt_cons hj, hq]; rfl) []
      have ht := h1 ⟨.bool, .b true⟩
      have hf := h1 ⟨.bool, .b false⟩
      rw [hrep] at ht hf
      have := ht.symm.trans hf
      simp at this
    -- the member on the way to the target
    obtain ⟨evi, hevi⟩ := transformFuel_replace hX hσ cb x f ci.2
      (by have := kids_depth_lt hX v ci hcim; omega) (kids_good hX v hg ci hcim) r
      (path ++ [ci.1]) n hn hns hx
      (by
        intro q0 hq0 log v'
        rw [hq] at hq0
        cases hq0
        have := hrep log v'
        simpa [List.append_assoc] using this)
      (by
        intro r' q hne hq' log v'
        have := hid (i :: r') (ci.1 :: q) (by simpa using hne) (by rw [pathAt_cons hci, hq']; rfl) log v'
        simpa [List.append_assoc] using this)
    let g : PathStep × Value → Value := fun c =>
      if c = ci then replaceAt X ci.2 r x else c.2
    let ev : PathStep × Value → List Ev := fun c =>
      if c = ci then evi else idEvs X σ f (path ++ [c.1]) c.2
    have ih : ∀ c ∈ kids X v, ∀ log,
        transformFuel X σ (postorder cb) f log (path ++ [c.1]) c.2 = (log ++ ev c, .ok (g c)) := by
      intro c hc log
      by_cases hcc : c = ci
      · subst hcc
        simp only [g, ev, if_true]
        exact hevi log
      · simp only [g, ev, hcc, if_false]
        obtain ⟨j, hj⟩ := List.getElem?_of_mem hc
        have hji : j ≠ i := by
          intro h; subst h; rw [hci] at hj; exact hcc (Option.some.inj hj).symm
        refine transformFuel_idOn hX hσ cb f c.2 (by have := kids_depth_lt hX v c hc; omega)
          (kids_good hX v hg c hc) _ ?_ log
        intro r' q hq' log v'
        have := hid (j :: r') (c.1 :: q) (by simp [hji]) (by rw [pathAt_cons hj, hq']; rfl) log v'
        simpa [List.append_assoc] using this
    have hmg : (kids X v).map g = ((kids X v).map (·.2)).set i (replaceAt X ci.2 r x) := by
      simp only [g]
      exact map_ite_eq_set' (kids X v) i ci hci huniq (fun c => c.2) (replaceAt X ci.2 r x)
    have hen : ∀ l, (postorder cb).enter l path v = .ok v := fun _ => rfl
    have hex : ∀ l w, (postorder cb).exit l path w = .ok w := fun l w => by
      have := hid [] [] (by simp) rfl l w
      simpa [postorder] using this
    have hne : (children X v.unmark).isEmpty = false := by
      rw [← hk]
      cases hkk : kids X v with
      | nil => rw [hkk] at hcim; cases hcim
      | cons _ _ => rfl
    have hreb : ∀ log, rebuild X σ (transformFuel X σ (postorder cb) f) log path v =
        (log ++ mapEvKids ev (kids X v), (setVal X ((kids X v).map g)).map (·.withMarks v.marks)) := by
      intro log
      obtain ⟨t, p⟩ := v
      simp only at hty
      subst hty
      simp only [rebuild, hnull, hknown, Bool.not_true, Bool.or_self, Bool.false_eq_true, if_false, hne]
      rw [← hk, transformKids_map _ ev g path _ log ih]
    rw [hmg] at hreb
    cases hsv : setVal X (((kids X v).map (·.2)).set i (replaceAt X ci.2 r x)) with
    | ok s =>
      refine ⟨.enter path v :: (mapEvKids ev (kids X v) ++ [.exit path (s.withMarks v.marks)]), fun log => ?_⟩
      simp only [transformFuel, hen, hreb, hsv, Res.map, hex]
      simp [List.append_assoc]
    | err c =>
      refine ⟨.enter path v :: mapEvKids ev (kids X v), fun log => ?_⟩
      simp only [transformFuel, hen, hreb, hsv, Res.map]
      simp [List.append_assoc]
    | panic w =>
      refine ⟨.enter path v :: mapEvKids ev (kids X v), fun log => ?_⟩
      simp only [transformFuel, hen, hreb, hsv, Res.map]
      simp [List.append_assoc]
    | unmodelled =>
      refine ⟨.enter path v :: mapEvKids ev (kids X v), fun log => ?_⟩
      simp only [transformFuel, hen, hreb, hsv, Res.map]
      simp [List.append_assoc]

/-- what `SetVal` returns is a set value: a `sset` payload of one element type, one bucket id per
member, under the hoisted marks -/
theorem setVal_shape {X : SetOracle} {ws : List Value} {r : Value} (h : setVal X ws = .ok r) :
    ∃ e ids vs ms, r = (⟨.set e, .sset ids vs⟩ : Value).withMarks ms ∧ ids.length = vs.length := by
  unfold setVal at h
  split at h
  · cases h
  · simp only at h
    split at h <;> try cases h
    rename_i et he
    split at h
    · cases h
    · simp only [Res.ok.injEq] at h
      refine ⟨et, _, _, _, h.symm, ?_⟩
      generalize (SetImpl.fromList (setRules X et) (List.map (fun x => x.v) (List.map unmarkDeep ws))).buckets = bs
      induction bs with
      | nil => rfl
      | cons kv bs ih =>
        simp only [ofBuckets, List.flatMap_cons, List.length_append, List.length_map] at ih ⊢
        omega

end Walk
end CtyModel
