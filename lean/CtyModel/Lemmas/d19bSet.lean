/-
d19b — `Transform` whose callback replaces one member BELOW A SET.

cty/walk.go `transform`, set case: every member is transformed in iteration order,
the results are collected in `elems`, and the new value is `SetVal(elems)` with the
set's own marks re-applied — always, whether or not any member changed.  (A seeded
change, `seeded/C19-transform-set-reuse-when-last-member-unchanged`, returned the
ORIGINAL set whenever the member iterated last came back unchanged.)  Paths cannot
address the result below a set (`transform_replace_one` excludes such positions),
so the statement is about the whole result: it is `setVal` of the transformed
members — the member on the way to the replaced position with that position
replaced, every other member itself — marks hoisted by `SetVal`, the set's marks
re-applied, then handed to the callback.
-/
import CtyModel.Lemmas.d19bEnter
namespace CtyModel
namespace Walk
open Value

theorem map_ite_eq_set' {α β : Type} [DecidableEq α] : ∀ (l : List α) (i : Nat) (a : α),
    l[i]? = some a → (∀ j, j ≠ i → l[j]? ≠ some a) → ∀ (f : α → β) (b : β),
    l.map (fun c => if c = a then b else f c) = (l.map f).set i b
  | [], _, _, h, _, _, _ => by simp at h
  | c :: l, 0, a, h, hne, f, b => by
    simp only [List.getElem?_cons_zero, Option.some.injEq] at h
    subst h
    simp only [List.map_cons, if_true, List.set_cons_zero, List.cons.injEq, true_and]
    apply List.map_congr_left
    intro x hx
    obtain ⟨j, hj⟩ := List.getElem?_of_mem hx
    have : x ≠ c := fun h => hne (j + 1) (by omega) (by simpa [h] using hj)
    simp [this]
  | c :: l, i + 1, a, h, hne, f, b => by
    simp only [List.getElem?_cons_succ] at h
    have hca : c ≠ a := fun hc => hne 0 (by omega) (by simp [hc])
    simp only [List.map_cons, hca, if_false, List.set_cons_succ, List.cons.injEq, true_and]
    exact map_ite_eq_set' l i a h (fun j hj => by
      have := hne (j + 1) (by omega)
      simpa using this) f b

/-- a member of a set is its own step key -/
theorem setKids_fst_eq (e : Ty) : ∀ (ms : List Payload) (c : PathStep × Value),
    c ∈ setKids e ms → c.1 = .index c.2
  | [], _, h => by simp [setKids] at h
  | m :: ms, c, h => by
    simp only [setKids, List.mem_cons] at h
    rcases h with rfl | h
    · rfl
    · exact setKids_fst_eq e ms c h

theorem kids_set_fst_eq {X : SetOracle} {v : Value} {e : Ty} (hty : v.ty = .set e)
    (c : PathStep × Value) (hc : c ∈ kids X v) : c.1 = .index c.2 := by
  simp only [kids] at hc
  split at hc
  · cases hc
  · obtain ⟨t, p⟩ := v
    simp only at hty
    subst hty
    simp only [Value.unmark, children] at hc
    split at hc <;> first
      | exact setKids_fst_eq _ _ c hc
      | cases hc
      | (rename_i h _; cases h)

open Classical in
/-- **replace one member below a set.**  `v` is a set value (marked or not); the
callback returns `x` at the path of position `i :: r` — inside the set's `i`-th
member in iteration order, `r` not passing through a further set — and what it is
given at the path of every other position.  Then `Transform` yields exactly what
`SetVal` makes of the transformed members, with the set's marks re-applied —
success, panic (`SetVal` on inconsistent element types) or a member outside the
model alike.  Nothing is reused from the original set. -/
theorem transformFuel_replace_below_set {X : SetOracle} (hX : IterPerm X) {σ : Sched} (hσ : SchedOk σ)
    (cb : TCb) (x : Value) (f : Nat) (v : Value) (hd : v.v.depth < f) (hg : Good X v) (e : Ty)
    (hty : v.ty = .set e) (i : Nat) (r : Pos) (path q0' : Path) (ci : PathStep × Value) (n : Value)
    (hci : (kids X v)[i]? = some ci) (hn : nodeAt X ci.2 r = some n)
    (hq : pathAt X ci.2 r = some q0') (hns : noSetAt X ci.2 r = true) (hx : x.ty = n.ty)
    (hrep : ∀ log v', cb log (path ++ ci.1 :: q0') v' = .ok x)
    (hid : ∀ r' q, r' ≠ i :: r → pathAt X v r' = some q → ∀ log v', cb log (path ++ q) v' = .ok v') :
    ∃ evs, ∀ log, transformFuel X σ (postorder cb) f log path v =
      (log ++ evs, (setVal X (((kids X v).map (·.2)).set i (replaceAt X ci.2 r x))).map
        (·.withMarks v.marks)) := by
  cases f with
  | zero => omega
  | succ f =>
    have hcim : ci ∈ kids X v := List.mem_of_getElem? hci
    obtain ⟨hnull, hknown, hk⟩ := kids_eq_children hci
    -- no other member has the step of the `i`-th (else one path would have to be answered in two ways)
    have huniq : ∀ j, j ≠ i → (kids X v)[j]? ≠ some ci := by
      intro j hji hj
      have h1 := hid (j :: r) (ci.1 :: q0') (by simp [hji]) (by rw [pathAt_cons hj, hq]; rfl) []
      have ht := h1 ⟨.bool, .b true⟩
      have hf := h1 ⟨.bool, .b false⟩
      rw [hrep] at ht hf
      have := ht.symm.trans hf
      simp at this
    -- the member on the way to the target
    obtain ⟨evi, hevi⟩ := transformFuel_replace hX hσ cb x f ci.2
      (by have := kids_depth_lt hX v ci hcim; omega) (kids_good hX v hg ci hcim) r
      (path ++ [ci.1]) n hn hns hx
      (by
        intro q0 hq0 log v'
        rw [hq] at hq0
        cases hq0
        have := hrep log v'
        simpa [List.append_assoc] using this)
      (by
        intro r' q hne hq' log v'
        have := hid (i :: r') (ci.1 :: q) (by simpa using hne) (by rw [pathAt_cons hci, hq']; rfl) log v'
        simpa [List.append_assoc] using this)
    let g : PathStep × Value → Value := fun c =>
      if c = ci then replaceAt X ci.2 r x else c.2
    let ev : PathStep × Value → List Ev := fun c =>
      if c = ci then evi else idEvs X σ f (path ++ [c.1]) c.2
    have ih : ∀ c ∈ kids X v, ∀ log,
        transformFuel X σ (postorder cb) f log (path ++ [c.1]) c.2 = (log ++ ev c, .ok (g c)) := by
      intro c hc log
      by_cases hcc : c = ci
      · subst hcc
        simp only [g, ev, if_true]
        exact hevi log
      · simp only [g, ev, hcc, if_false]
        obtain ⟨j, hj⟩ := List.getElem?_of_mem hc
        have hji : j ≠ i := by
          intro h; subst h; rw [hci] at hj; exact hcc (Option.some.inj hj).symm
        refine transformFuel_idOn hX hσ cb f c.2 (by have := kids_depth_lt hX v c hc; omega)
          (kids_good hX v hg c hc) _ ?_ log
        intro r' q hq' log v'
        have := hid (j :: r') (c.1 :: q) (by simp [hji]) (by rw [pathAt_cons hj, hq']; rfl) log v'
        simpa [List.append_assoc] using this
    have hmg : (kids X v).map g = ((kids X v).map (·.2)).set i (replaceAt X ci.2 r x) := by
      simp only [g]
      exact map_ite_eq_set' (kids X v) i ci hci huniq (fun c => c.2) (replaceAt X ci.2 r x)
    have hen : ∀ l, (postorder cb).enter l path v = .ok v := fun _ => rfl
    have hex : ∀ l w, (postorder cb).exit l path w = .ok w := fun l w => by
      have := hid [] [] (by simp) rfl l w
      simpa [postorder] using this
    have hne : (children X v.unmark).isEmpty = false := by
      rw [← hk]
      cases hkk : kids X v with
      | nil => rw [hkk] at hcim; cases hcim
      | cons _ _ => rfl
    have hreb : ∀ log, rebuild X σ (transformFuel X σ (postorder cb) f) log path v =
        (log ++ mapEvKids ev (kids X v), (setVal X ((kids X v).map g)).map (·.withMarks v.marks)) := by
      intro log
      obtain ⟨t, p⟩ := v
      simp only at hty
      subst hty
      simp only [rebuild, hnull, hknown, Bool.not_true, Bool.or_self, Bool.false_eq_true, if_false, hne]
      rw [← hk, transformKids_map _ ev g path _ log ih]
    rw [hmg] at hreb
    cases hsv : setVal X (((kids X v).map (·.2)).set i (replaceAt X ci.2 r x)) with
    | ok s =>
      refine ⟨.enter path v :: (mapEvKids ev (kids X v) ++ [.exit path (s.withMarks v.marks)]), fun log => ?_⟩
      simp only [transformFuel, hen, hreb, hsv, Res.map, hex]
      simp [List.append_assoc]
    | err c =>
      refine ⟨.enter path v :: mapEvKids ev (kids X v), fun log => ?_⟩
      simp only [transformFuel, hen, hreb, hsv, Res.map]
      simp [List.append_assoc]
    | panic w =>
      refine ⟨.enter path v :: mapEvKids ev (kids X v), fun log => ?_⟩
      simp only [transformFuel, hen, hreb, hsv, Res.map]
      simp [List.append_assoc]
    | unmodelled =>
      refine ⟨.enter path v :: mapEvKids ev (kids X v), fun log => ?_⟩
      simp only [transformFuel, hen, hreb, hsv, Res.map]
      simp [List.append_assoc]

/-- what `SetVal` returns is a set value: a `sset` payload of one element type, one bucket id per
member, under the hoisted marks -/
theorem setVal_shape {X : SetOracle} {ws : List Value} {r : Value} (h : setVal X ws = .ok r) :
    ∃ e ids vs ms, r = (⟨.set e, .sset ids vs⟩ : Value).withMarks ms ∧ ids.length = vs.length := by
  unfold setVal at h
  split at h
  · cases h
  · simp only at h
    split at h <;> try cases h
    rename_i et he
    split at h
    · cases h
    · simp only [Res.ok.injEq] at h
      refine ⟨et, _, _, _, h.symm, ?_⟩
      generalize (SetImpl.fromList (setRules X et) (List.map (fun x => x.v) (List.map unmarkDeep ws))).buckets = bs
      induction bs with
      | nil => rfl
      | cons kv bs ih =>
        simp only [ofBuckets, List.flatMap_cons, List.length_append, List.length_map] at ih ⊢
        omega

/-- `atPathCb` — the harness rule `(at q0 (ret x))` — meets both hypotheses of
`transformFuel_replace_below_set` when no two members of the set have the same step
(the members of a set are pairwise different values) -/
theorem atPathCb_hyps_below_set {X : SetOracle} (hX : IterPerm X) (v x : Value)
    (hs : shapedV v = true) (hnd : ((kids X v).map (·.1)).Nodup) (i : Nat) (r : Pos) (q0' : Path)
    (ci : PathStep × Value) (hci : (kids X v)[i]? = some ci) (hq : pathAt X ci.2 r = some q0')
    (hns : noSetAt X ci.2 r = true) :
    (∀ log v', atPathCb (ci.1 :: q0') x log (ci.1 :: q0') v' = .ok x) ∧
    (∀ r' q, r' ≠ i :: r → pathAt X v r' = some q → ∀ log v', atPathCb (ci.1 :: q0') x log q v' = .ok v') := by
  refine ⟨fun log v' => by simp [atPathCb], fun r' q hne hq' log v' => ?_⟩
  have hne' : q ≠ ci.1 :: q0' := by
    intro h
    subst h
    cases r' with
    | nil => simp [pathAt] at hq'
    | cons j r'' =>
      simp only [pathAt] at hq'
      cases hj : (kids X v)[j]? with
      | none => simp [hj] at hq'
      | some c =>
        simp only [hj, Option.map_eq_some_iff, List.cons.injEq] at hq'
        obtain ⟨q', hq'', hst, rfl⟩ := hq'
        have hji : j = i := nodup_map_getElem?_inj (·.1) (kids X v) hnd j i c ci hj hci hst
        subst hji
        rw [hci] at hj
        cases hj
        have := pathAt_inj_noSet hX r r'' ci.2 q' (kids_shaped hX v hs ci (List.mem_of_getElem? hci))
          hns hq hq''
        exact hne (by rw [this])
  simp [atPathCb, hne']

/-! ### which members and which marks `SetVal` keeps — without any law on the rules -/

theorem mem_values_setBucket_sub {α : Type} (h : Int) (b : List α) (m : α) :
    ∀ (bs : List (Int × List α)), m ∈ SetImpl.values ⟨SetImpl.setBucket bs h b⟩ →
      m ∈ b ∨ m ∈ SetImpl.values ⟨bs⟩
  | [], hm => by simpa [SetImpl.setBucket, SetImpl.values] using hm
  | (k, c) :: rest, hm => by
    simp only [SetImpl.setBucket] at hm
    split at hm
    · simp only [SetImpl.values, List.flatMap_cons, List.mem_append] at hm ⊢
      rcases hm with hm | hm | hm
      · exact Or.inl hm
      · exact Or.inr (Or.inl hm)
      · exact Or.inr (Or.inr hm)
    · split at hm
      · simp only [SetImpl.values, List.flatMap_cons, List.mem_append] at hm ⊢
        rcases hm with hm | hm
        · exact Or.inl hm
        · exact Or.inr (Or.inr hm)
      · simp only [SetImpl.values, List.flatMap_cons, List.mem_append] at hm ⊢
        rcases hm with hm | hm
        · exact Or.inr (Or.inl hm)
        · rcases mem_values_setBucket_sub h b m rest (by simpa [SetImpl.values] using hm) with h1 | h1
          · exact Or.inl h1
          · exact Or.inr (Or.inr (by simpa [SetImpl.values] using h1))

theorem lookup_mem_values {α : Type} (h : Int) (m : α) :
    ∀ (bs : List (Int × List α)) (c : List α), SetImpl.lookup bs h = some c → m ∈ c →
      m ∈ SetImpl.values ⟨bs⟩
  | [], _, hl, _ => by simp [SetImpl.lookup] at hl
  | (k, c') :: rest, c, hl, hm => by
    simp only [SetImpl.lookup] at hl
    simp only [SetImpl.values, List.flatMap_cons, List.mem_append]
    split at hl
    · cases hl; exact Or.inl hm
    · exact Or.inr (by simpa [SetImpl.values] using lookup_mem_values h m rest c hl hm)

/-- `Set.Add` adds at most its argument -/
theorem mem_values_add_sub {α : Type} (R : Rules α) (s : SetImpl α) (x m : α)
    (hm : m ∈ SetImpl.values (SetImpl.add R s x)) : m ∈ SetImpl.values s ∨ m = x := by
  simp only [SetImpl.add] at hm
  split at hm
  · exact Or.inl hm
  · rcases mem_values_setBucket_sub _ _ m s.buckets hm with h1 | h1
    · rcases List.mem_append.mp h1 with h2 | h2
      · cases hl : SetImpl.lookup s.buckets (R.hash x) with
        | none => simp [hl] at h2
        | some c =>
          simp only [hl, Option.getD_some] at h2
          exact Or.inl (lookup_mem_values _ m s.buckets c hl h2)
      · exact Or.inr (by simpa using h2)
    · exact Or.inl h1

theorem mem_values_addWhere_sub {α : Type} (R : Rules α) (p : α → Bool) (m : α) :
    ∀ (l : List α) (rs : SetImpl α), m ∈ SetImpl.values (SetImpl.addWhere R p rs l) →
      m ∈ SetImpl.values rs ∨ m ∈ l
  | [], _, hm => Or.inl hm
  | x :: l, rs, hm => by
    simp only [SetImpl.addWhere, List.foldl_cons] at hm
    have := mem_values_addWhere_sub R p m l _ hm
    rcases this with h1 | h1
    · split at h1
      · rcases mem_values_add_sub R rs x m h1 with h2 | h2
        · exact Or.inl h2
        · exact Or.inr (by simp [h2])
      · exact Or.inl h1
    · exact Or.inr (List.mem_cons_of_mem _ h1)

/-- **the members and the marks of what `SetVal` returns**: every member kept is one of
the arguments with its marks removed at every depth (no member is invented; which of
several `Equivalent` arguments is kept is the first in argument order), and the marks of
the result are exactly the marks found anywhere in the arguments (hoisted to the set) -/
theorem setVal_members_marks {X : SetOracle} {ws : List Value} {r : Value} (h : setVal X ws = .ok r) :
    ∃ e ids vs, r.unmark = ⟨.set e, .sset ids vs⟩ ∧ ids.length = vs.length ∧
      (∀ m ∈ vs, ∃ w ∈ ws, m = w.unmarkDeep.v) ∧
      (∀ k, k ∈ r.marks ↔ ∃ w ∈ ws, k ∈ w.marksDeep) := by
  unfold setVal at h
  split at h
  · cases h
  · simp only at h
    split at h <;> try cases h
    rename_i et he
    split at h
    · cases h
    · simp only [Res.ok.injEq] at h
      subst h
      refine ⟨et,
        (ofBuckets (SetImpl.fromList (setRules X et) (List.map (fun x => x.v) (List.map unmarkDeep ws))).buckets).1,
        (ofBuckets (SetImpl.fromList (setRules X et) (List.map (fun x => x.v) (List.map unmarkDeep ws))).buckets).2,
        ?_, ?_, ?_, ?_⟩
      · simp only [Value.unmark, Value.withMarks, unmark1_withMarks]
        rfl
      · generalize (SetImpl.fromList (setRules X et) (List.map (fun x => x.v) (List.map unmarkDeep ws))).buckets = bs
        induction bs with
        | nil => rfl
        | cons kv bs ih =>
          simp only [ofBuckets, List.flatMap_cons, List.length_append, List.length_map] at ih ⊢
          omega
      · intro m hm
        have hm' : m ∈ SetImpl.values (SetImpl.fromList (setRules X et) (List.map (fun x => x.v) (List.map unmarkDeep ws))) := by
          simpa [ofBuckets, SetImpl.values] using hm
        rcases mem_values_addWhere_sub _ _ m _ _ hm' with h1 | h1
        · simp [SetImpl.values, SetImpl.empty] at h1
        · simp only [List.map_map, List.mem_map, Function.comp] at h1
          obtain ⟨w, hw, rfl⟩ := h1
          exact ⟨w, hw, rfl⟩
      · intro k
        simp only [Value.marks, Value.withMarks]
        rw [marks1_withMarks]
        simp only [Payload.marks1, List.not_mem_nil, false_or]
        suffices hf : ∀ (l : List Value) (acc : List String),
            k ∈ l.foldl (fun acc v => unionMarks acc v.marksDeep) acc ↔ k ∈ acc ∨ ∃ w ∈ l, k ∈ w.marksDeep by
          simpa using hf ws []
        intro l
        induction l with
        | nil => intro acc; simp
        | cons w l ih =>
          intro acc
          simp only [List.foldl_cons, ih, mem_unionMarks, List.mem_cons, exists_eq_or_imp]
          constructor
          · rintro ((h1 | h1) | h1)
            · exact Or.inl h1
            · exact Or.inr (Or.inl h1)
            · exact Or.inr (Or.inr h1)
          · rintro (h1 | h1 | h1)
            · exact Or.inl (Or.inl h1)
            · exact Or.inl (Or.inr h1)
            · exact Or.inr h1

end Walk
end CtyModel
