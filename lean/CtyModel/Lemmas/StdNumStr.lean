/- Lemmas for the cluster-list functions of C14 (strlen, reverse, substr). -/
import CtyModel.Stdlib.NumberSpec
namespace CtyModel
namespace StdNum

theorem countLoop_eq (cs : List String) (l : Nat) : countLoop cs l = l + cs.length := by
  induction cs generalizing l with
  | nil => simp [countLoop]
  | cons c rest ih => simp [countLoop, ih]; omega

theorem strlenClusters_eq (cs : List String) : strlenClusters cs = cs.length := by
  simp [strlenClusters, countLoop_eq]

theorem reverseLoop_eq (cs acc : List String) : reverseLoop cs acc = cs.reverse ++ acc := by
  induction cs generalizing acc with
  | nil => simp [reverseLoop]
  | cons c rest ih => simp [reverseLoop, ih]

/-- the take loop keeps `length - pos` clusters -/
theorem takeLoop_eq (length : Int) (sub : List String) (pos : Int) (h : pos < length) :
    takeLoop length sub pos = sub.take (length - pos).toNat := by
  induction sub generalizing pos with
  | nil => simp [takeLoop]
  | cons c rest ih =>
    simp only [takeLoop]
    by_cases h1 : pos + 1 = length
    · have : (length - pos).toNat = 1 := by omega
      simp [h1, this]
    · have hlt : pos + 1 < length := by omega
      have : (length - pos).toNat = (length - (pos + 1)).toNat + 1 := by omega
      simp [h1, ih (pos + 1) hlt, this]

/-- with `length = 0` the take loop keeps everything (`pos == length` is never met) -/
theorem takeLoop_zero (sub : List String) (pos : Int) (h : 0 ≤ pos) : takeLoop 0 sub pos = sub := by
  induction sub generalizing pos with
  | nil => simp [takeLoop]
  | cons c rest ih =>
    have h1 : ¬ (pos + 1 = 0) := by omega
    simp [takeLoop, h1, ih (pos + 1) (by omega)]

/-- the skip loop drops `offset - pos` clusters, or reports that the input is used up first -/
theorem skipLoop_eq (offset : Int) (cs : List String) (pos : Int) (h : pos < offset) :
    skipLoop offset cs pos =
      if cs = [] then some []
      else if (offset - pos).toNat ≤ cs.length then some (cs.drop (offset - pos).toNat) else none := by
  induction cs generalizing pos with
  | nil => simp [skipLoop]
  | cons c rest ih =>
    simp only [skipLoop]
    by_cases h1 : pos + 1 = offset
    · have : (offset - pos).toNat = 1 := by omega
      simp [h1, this]
    · have hlt : pos + 1 < offset := by omega
      have hk : (offset - pos).toNat = (offset - (pos + 1)).toNat + 1 := by omega
      simp only [h1, if_false, reduceCtorEq, beq_iff_eq]
      by_cases hr : rest = []
      · subst hr
        simp [hk]
        omega
      · have hne : rest.isEmpty = false := by simp [hr]
        simp only [hne, Bool.false_eq_true, if_false, ih (pos + 1) hlt, hr, hk, List.length_cons,
          Nat.add_le_add_iff_right, List.drop_succ_cons]

/-- `substr` as written is take/drop on the cluster list -/
theorem substrClusters_eq (cs : List String) (offset length : Int) :
    substrClusters cs offset length = substrSpec cs offset length := by
  unfold substrClusters substrSpec
  simp only [strlenClusters_eq]
  by_cases hA : length = 0
  · subst hA; simp
  · simp only [hA, if_false]
    -- the tail common to all branches
    have tail : ∀ sub : List String,
        (if length < 0 then sub else takeLoop length sub 0) =
          (if length < 0 then sub else sub.take length.toNat) := by
      intro sub
      by_cases hn : length < 0
      · simp [hn]
      · have hp : 0 < length := by omega
        simp only [hn, if_false]
        rw [takeLoop_eq length sub 0 hp]; simp
    generalize hoff : (if offset < 0 then offset + (cs.length : Int) else offset) = off'
    have hstart : (if offset < 0 then max 0 (offset + (cs.length : Int)) else offset).toNat = off'.toNat := by
      by_cases ho : offset < 0
      · simp only [ho, if_true] at hoff ⊢; subst hoff; omega
      · simp only [ho, if_false] at hoff ⊢; subst hoff; rfl
    rw [hstart]
    by_cases hp : off' > 0
    · simp only [hp, if_true]
      rw [skipLoop_eq off' cs 0 hp]
      by_cases hcs : cs = []
      · subst hcs; simp [tail]
      · simp only [hcs, if_false, Int.sub_zero]
        by_cases hle : off'.toNat ≤ cs.length
        · simp only [hle, if_true]; exact tail _
        · simp only [hle, if_false]
          have : cs.drop off'.toNat = [] := List.drop_eq_nil_of_le (by omega)
          simp [this]
    · simp only [hp, if_false]
      have : off'.toNat = 0 := by omega
      rw [this, List.drop_zero]; exact tail cs

theorem substrSpec_infix (cs : List String) (offset length : Int) : substrSpec cs offset length <:+: cs := by
  unfold substrSpec
  simp only []
  split
  · exact (List.drop_suffix _ _).isInfix
  · exact (List.take_prefix _ _).isInfix.trans (List.drop_suffix _ _).isInfix

@[simp] theorem asString_sv (s : String) : asString (sv s) = .ok s := by
  simp [asString, Value.isMarked, Payload.isMarked, Ty.isString]

/-- the date verbs never panic -/
theorem verbText_no_panic (t : Time) (c : Char) (n : Nat) : (verbText t c n).isPanic = false := by
  unfold verbText
  repeat' split
  all_goals rfl

theorem tokenText_no_panic (t : Time) (tok : List Char) : (tokenText t tok).isPanic = false := by
  unfold tokenText
  split
  · rfl
  · repeat' split
    all_goals first | rfl | exact verbText_no_panic _ _ _

theorem formatTokens_no_panic (t : Time) (toks : List (List Char)) (buf : String) :
    (formatTokens t toks buf).isPanic = false := by
  induction toks generalizing buf with
  | nil => rfl
  | cons tok rest ih =>
    simp only [formatTokens]
    have h := tokenText_no_panic t tok
    cases hx : tokenText t tok with
    | ok s => simp [ih]
    | err c => rfl
    | panic w => rw [hx] at h; simp [Res.isPanic] at h
    | unmodelled => rfl

theorem whollyKnownL_strings (xs : List String) : Payload.whollyKnownL (xs.map Payload.s) = true := by
  induction xs with
  | nil => simp [Payload.whollyKnownL]
  | cons x xs ih => simp [Payload.whollyKnownL, Payload.whollyKnown, ih]

theorem joinItems_strings (xs : List String) : joinItems (xs.map Payload.s) = some xs := by
  induction xs with
  | nil => rfl
  | cons x xs ih => simp [joinItems, ih]

end StdNum
end CtyModel
