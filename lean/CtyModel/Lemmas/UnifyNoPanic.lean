/-
`unify` never panics: none of the `.panic` branches of the model (a kind-specific
accessor on a type of another kind, `types[0]` / `convs[idx]` / `tupleConvs[i]` /
`types[wantTypeIdx]` out of range, a missing attribute) is reachable, for well-formed
input types, any environment, fuel and mode.
-/
import CtyModel.Lemmas.UnifySlots
import CtyModel.Lemmas.UnifySort
namespace CtyModel
namespace Unify
open Convert Ty

/-- the outcome is not a panic -/
def NP {α} (r : Res α) : Prop := ∀ w, r ≠ .panic w

theorem NP.ok {α} (a : α) : NP (Res.ok a) := by intro w; simp
theorem NP.bind {α β} {r : Res α} {f : α → Res β} (hr : NP r) (hf : ∀ a, r = .ok a → NP (f a)) : NP (r.bind f) := by
  intro w
  cases r with
  | ok a => exact hf a rfl w
  | err c => simp [Res.bind]
  | panic w' => exact absurd rfl (hr w')
  | unmodelled => simp [Res.bind]

theorem NP_of_ok {α} {r : Res α} {a : α} (h : r = .ok a) : NP r := by rw [h]; exact NP.ok a

theorem mapRes_NP {α β} (f : α → Res β) (l : List α) (h : ∀ x ∈ l, ∃ b, f x = .ok b) : NP (mapRes f l) := by
  obtain ⟨r, hr⟩ := mapRes_no_panic f l h
  exact NP_of_ok hr

theorem idxR_ok {α} (xs : List α) (i : Nat) (h : i < xs.length) : idxR xs i = .ok xs[i] := by
  simp [idxR, List.getElem?_eq_getElem h]

/-! ### the five `unify…Types` functions -/

theorem collectionTypes_NP (E : Env) (uns : Bool) (mk : Ty → Ty) (types : List Ty) (hd : Bool)
    (h : hd = true ∨ ∀ ty ∈ types, ∃ e, elementType ty = .ok e) : NP (collectionTypes E uns mk types hd) := by
  unfold collectionTypes
  split
  · exact NP.ok _
  · rename_i hn
    have hall := h.resolve_left hn
    apply NP.bind (mapRes_NP _ _ hall)
    intro ets _
    split
    · exact NP.ok _
    · simp only
      split <;> exact NP.ok _

theorem objectTypesToMap_NP (E : Env) (uns : Bool) (types : List Ty)
    (h : ∀ ty ∈ types, isObjectTy ty = true) : NP (objectTypesToMap E uns types) := by
  unfold objectTypesToMap
  apply NP.bind
  · apply mapRes_NP
    intro x hx
    have := h x hx
    cases x <;> simp [isObjectTy] at this
    exact ⟨_, rfl⟩
  · intro ats _
    split
    · exact NP.ok _
    · simp only
      split <;> exact NP.ok _

theorem tupleTypesToList_NP (E : Env) (uns : Bool) (types : List Ty)
    (h : ∀ ty ∈ types, isTupleTy ty = true) : NP (tupleTypesToList E uns types) := by
  unfold tupleTypesToList
  apply NP.bind
  · apply mapRes_NP
    intro x hx
    have := h x hx
    cases x <;> simp [isTupleTy] at this
    exact ⟨_, rfl⟩
  · intro ats _
    split
    · exact NP.ok _
    · simp only
      split <;> exact NP.ok _

theorem find_some_of_mem {k : String} : ∀ {ns : List String} {ts : List Ty} {os : List Bool},
    k ∈ ns → ns.length = ts.length → os.length = ts.length → ∃ r, Ty.find k ns ts os = some r
  | [], _, _, h, _, _ => by simp at h
  | _ :: _, [], _, _, h, _ => by simp at h
  | _ :: _, _ :: _, [], _, _, h => by simp at h
  | n :: ns, t :: ts, o :: os, h, h1, h2 => by
    simp only [Ty.find]
    split
    · exact ⟨_, rfl⟩
    · rename_i hne
      rcases List.mem_cons.mp h with rfl | h
      · exact absurd rfl hne
      · exact find_some_of_mem h (by simpa using h1) (by simpa using h2)

/-- what the first loop of unifyObjectTypes establishes -/
theorem sameAttrNames_spec (first : List String) (hf : strictAsc first = true) :
    ∀ (types : List Ty), (∀ ty ∈ types, isObjectTy ty = true ∧ ty.wf = true) →
      (∃ b, sameAttrNames first types = .ok b) ∧
      (sameAttrNames first types = .ok true → ∀ ty ∈ types, ∃ ts os, ty = .object first ts os)
  | [], _ => ⟨⟨true, rfl⟩, fun _ ty hty => by simp at hty⟩
  | ty :: rest, h => by
    obtain ⟨ho, hw⟩ := h ty (by simp)
    obtain ⟨⟨b, hb⟩, ih⟩ := sameAttrNames_spec first hf rest (fun x hx => h x (List.mem_cons_of_mem _ hx))
    cases ty <;> simp [isObjectTy] at ho
    rename_i ns ts os
    simp only [wf, Bool.and_eq_true, beq_iff_eq] at hw
    simp only [sameAttrNames, attrNamesR, Res.bind]
    split
    · exact ⟨⟨false, rfl⟩, by simp⟩
    · rename_i hlen
      split
      · exact ⟨⟨false, rfl⟩, by simp⟩
      · rename_i hall
        refine ⟨⟨b, hb⟩, ?_⟩
        intro hs x hx
        rcases List.mem_cons.mp hx with rfl | hx
        · have hsub : ∀ n ∈ ns, n ∈ first := by
            simp only [Bool.not_eq_true, Bool.not_eq_false, List.all_eq_true, List.contains_iff_mem] at hall
            simpa using hall
          have hl : ns.length = first.length := by simpa using hlen
          have := asc_subset_eq ns first hw.1.2 hf hl hsub
          exact ⟨ts, os, by rw [this]⟩
        · exact ih hs x hx

theorem attrColumn_ok (name : String) (first : List String) (hn : name ∈ first) (types : List Ty)
    (h : ∀ ty ∈ types, ty.wf = true ∧ ∃ ts os, ty = .object first ts os) : ∃ r, attrColumn name types = .ok r := by
  unfold attrColumn
  apply mapRes_no_panic
  intro x hx
  obtain ⟨hw, ts, os, rfl⟩ := h x hx
  simp only [wf, Bool.and_eq_true, beq_iff_eq] at hw
  obtain ⟨r, hr⟩ := find_some_of_mem hn hw.1.1.1 hw.1.1.2
  exact ⟨r.1, by simp [hr]⟩

theorem objectTypes_NP (E : Env) (uns : Bool) (types : List Ty) (hd : Bool) (hne : types ≠ [])
    (h : hd = true ∨ ∀ ty ∈ types, isObjectTy ty = true) (hw' : ∀ ty ∈ types, isObjectTy ty = true → ty.wf = true) :
    NP (objectTypes E uns types hd) := by
  unfold objectTypes
  split
  · exact NP.ok _
  · rename_i hn
    have hall := h.resolve_left hn
    have hw : ∀ ty ∈ types, ty.wf = true := fun ty hty => hw' ty hty (hall ty hty)
    have hpos : 0 < types.length := List.length_pos_iff.mpr hne
    rw [idxR_ok types 0 hpos]
    simp only [Res.bind]
    have hfirst := hall types[0] (List.getElem_mem hpos)
    have hwf := hw types[0] (List.getElem_mem hpos)
    cases hf : types[0] <;> simp [hf, isObjectTy] at hfirst
    rename_i ns ts os
    rw [hf] at hwf
    simp only [wf, Bool.and_eq_true, beq_iff_eq] at hwf
    simp only [attrNamesR]
    have hrest : ∀ ty ∈ types.drop 1, isObjectTy ty = true ∧ ty.wf = true :=
      fun ty hty => ⟨hall ty (List.mem_of_mem_drop hty), hw ty (List.mem_of_mem_drop hty)⟩
    obtain ⟨⟨b, hb⟩, hspec⟩ := sameAttrNames_spec ns hwf.1.2 (types.drop 1) hrest
    rw [hb]
    cases b with
    | false => simpa using objectTypesToMap_NP E uns types hall
    | true =>
      simp only [Bool.not_true, Bool.false_eq_true, if_false]
      have hallObj : ∀ ty ∈ types, ty.wf = true ∧ ∃ ts os, ty = .object ns ts os := by
        intro ty hty
        refine ⟨hw ty hty, ?_⟩
        obtain ⟨i, hi⟩ := List.mem_iff_getElem?.mp hty
        cases i with
        | zero =>
          rw [List.getElem?_eq_getElem hpos, hf] at hi
          simp only [Option.some.injEq] at hi
          exact ⟨ts, os, hi.symm⟩
        | succ i =>
          have : ty ∈ types.drop 1 := by
            apply List.mem_iff_getElem?.mpr
            exact ⟨i, by rw [List.getElem?_drop]; rw [Nat.add_comm]; exact hi⟩
          exact hspec hb ty this
      apply NP.bind
      · apply mapRes_NP
        intro name hname
        exact attrColumn_ok name ns hname types hallObj
      · intro cols _
        split
        · exact NP.ok _
        · split
          · exact objectTypesToMap_NP E uns types hall
          · exact NP.ok _

theorem sameTupleLen_spec (n : Nat) : ∀ (types : List Ty), (∀ ty ∈ types, isTupleTy ty = true) →
    (∃ b, sameTupleLen n types = .ok b) ∧
    (sameTupleLen n types = .ok true → ∀ ty ∈ types, ∃ es, ty = .tuple es ∧ es.length = n)
  | [], _ => ⟨⟨true, rfl⟩, fun _ ty hty => by simp at hty⟩
  | ty :: rest, h => by
    have ho := h ty (by simp)
    obtain ⟨⟨b, hb⟩, ih⟩ := sameTupleLen_spec n rest (fun x hx => h x (List.mem_cons_of_mem _ hx))
    cases ty <;> simp [isTupleTy] at ho
    rename_i es
    simp only [sameTupleLen, tupleEtysR, Res.bind]
    split
    · exact ⟨⟨false, rfl⟩, by simp⟩
    · rename_i hlen
      refine ⟨⟨b, hb⟩, ?_⟩
      intro hs x hx
      rcases List.mem_cons.mp hx with rfl | hx
      · exact ⟨es, rfl, by simpa using hlen⟩
      · exact ih hs x hx

theorem tupleTypes_NP (E : Env) (uns : Bool) (types : List Ty) (hd : Bool) (hne : types ≠ [])
    (h : hd = true ∨ ∀ ty ∈ types, isTupleTy ty = true) : NP (tupleTypes E uns types hd) := by
  unfold tupleTypes
  split
  · exact NP.ok _
  · rename_i hn
    have hall := h.resolve_left hn
    have hpos : 0 < types.length := List.length_pos_iff.mpr hne
    rw [idxR_ok types 0 hpos]
    simp only [Res.bind]
    have hfirst := hall types[0] (List.getElem_mem hpos)
    cases hf : types[0] <;> simp [hf, isTupleTy] at hfirst
    rename_i es
    simp only [tupleEtysR]
    have hrest : ∀ ty ∈ types.drop 1, isTupleTy ty = true := fun ty hty => hall ty (List.mem_of_mem_drop hty)
    obtain ⟨⟨b, hb⟩, hspec⟩ := sameTupleLen_spec es.length (types.drop 1) hrest
    rw [hb]
    cases b with
    | false => simpa using tupleTypesToList_NP E uns types hall
    | true =>
      simp only [Bool.not_true, Bool.false_eq_true, if_false]
      have hallT : ∀ ty ∈ types, ∃ es', ty = .tuple es' ∧ es'.length = es.length := by
        intro ty hty
        obtain ⟨i, hi⟩ := List.mem_iff_getElem?.mp hty
        cases i with
        | zero =>
          rw [List.getElem?_eq_getElem hpos, hf] at hi
          simp only [Option.some.injEq] at hi
          exact ⟨es, hi.symm, rfl⟩
        | succ i =>
          have : ty ∈ types.drop 1 := by
            apply List.mem_iff_getElem?.mpr
            exact ⟨i, by rw [List.getElem?_drop]; rw [Nat.add_comm]; exact hi⟩
          exact hspec hb ty this
      apply NP.bind
      · apply mapRes_NP
        intro idx hidx
        have hlt : idx < es.length := List.mem_range.mp hidx
        unfold tupleColumn
        obtain ⟨r, hr⟩ := mapRes_no_panic (fun ty => (tupleEtysR ty).bind fun es => idxR es idx) types (by
          intro x hx
          obtain ⟨es', rfl, hl⟩ := hallT x hx
          exact ⟨es'[idx]'(by omega), by simp [tupleEtysR, Res.bind, idxR_ok es' idx (by omega)]⟩)
        exact ⟨r, hr⟩
      · intro cols _
        split
        · exact NP.ok _
        · split
          · exact tupleTypesToList_NP E uns types hall
          · exact NP.ok _

/-! ### the general path -/

theorem prefLoop_NP (E : Env) (uns : Bool) (types : List Ty) :
    ∀ (ws : List Nat) (buf : Convs), (∀ w ∈ ws, w < types.length) → NP (prefLoop E uns types ws buf)
  | [], _, _ => NP.ok _
  | w :: ws, buf, h => by
    simp only [prefLoop]
    rw [idxR_ok types w (h w (by simp))]
    simp only [Res.bind]
    split
    · exact NP.ok _
    · exact prefLoop_NP E uns types ws _ (fun x hx => h x (List.mem_cons_of_mem _ hx))

theorem general_NP (E : Env) (uns : Bool) (types : List Ty) (hne : types ≠ []) : NP (general E uns types) :=
  prefLoop_NP E uns types _ _ (sortTypes_lt types hne)

/-! ### unifyTuplesAsList / unifyObjectsAsMaps -/

theorem wrapLoop_NP (fc : Convs) : ∀ (idxs : List Nat) (i : Nat) (convs : Convs),
    (∀ idx ∈ idxs, idx < convs.length) → i + idxs.length ≤ fc.length → NP (wrapLoop fc i idxs convs)
  | [], _, _, _, _ => NP.ok _
  | idx :: rest, i, convs, h1, h2 => by
    simp only [wrapLoop]
    rw [idxR_ok convs idx (h1 idx (by simp)), idxR_ok fc i (by simp at h2; omega)]
    simp only [Res.bind]
    split
    · exact wrapLoop_NP fc rest (i + 1) _ (by simpa using fun x hx => h1 x (List.mem_cons_of_mem _ hx))
        (by simp at h2 ⊢; omega)
    · exact wrapLoop_NP fc rest (i + 1) _ (by simpa using fun x hx => h1 x (List.mem_cons_of_mem _ hx))
        (by simp at h2 ⊢; omega)

theorem reunify_NP {E : Env} {uns : Bool} {self : Bool → List Ty → Res UOut}
    {isStruct isColl : Ty → Bool} {toColl : List Ty → Res UOut} {types : List Ty}
    (hw : ∀ ty ∈ types, isObjectTy ty = true → ty.wf = true)
    (hselfNP : ∀ ts, (∀ ty ∈ ts, isObjectTy ty = true → ty.wf = true) → NP (self uns ts))
    (hself : ∀ ts t cs, self uns ts = .ok (some (t, cs)) → SlotsRel E uns t ts cs)
    (hto : ∀ ss ty fc, toColl ss = .ok (some (ty, fc)) → convLoop E uns ty ss = some fc)
    (htoNP : ∀ ss, (∀ x ∈ ss, isStruct x = true) → NP (toColl ss))
    (hco : ∀ x, isColl x = true → isObjectTy x = false) :
    NP (reunify uns self isStruct isColl toColl types) := by
  unfold reunify
  simp only
  apply NP.bind (htoNP _ (fun x hx => (List.mem_filter.mp hx).2))
  intro r hr
  cases r with
  | none => exact NP.ok _
  | some r =>
    obtain ⟨mid, fc⟩ := r
    simp only
    split
    · exact NP.ok _
    · rename_i hmid
      simp only [Bool.not_eq_true, Bool.not_eq_eq_eq_not, Bool.not_true, Bool.not_eq_false] at hmid
      apply NP.bind (hselfNP _ (by
        intro ty hty hobj
        obtain ⟨j, hj⟩ := List.mem_iff_getElem?.mp hty
        rw [replaceAt_get] at hj
        split at hj
        · simp only [Option.some.injEq] at hj; subst hj
          rw [hco _ hmid] at hobj; simp at hobj
        · exact hw ty (List.mem_of_getElem? hj) hobj))
      intro r2 hr2
      cases r2 with
      | none => exact NP.ok _
      | some r2 =>
        obtain ⟨newTy, convs⟩ := r2
        simp only
        split
        · exact NP.ok _
        · apply NP.bind
          · have hl := (hself _ _ _ hr2).1
            rw [replaceAt_length] at hl
            have hfl := convLoop_length (hto _ _ _ hr)
            apply wrapLoop_NP
            · intro idx hidx; rw [hl]; exact idxsOf_lt hidx
            · rw [hfl, idxsOf_length]; omega
          · intro _ _; exact NP.ok _

/-! ### `unify` -/

theorem count_split2 {p q : Ty → Bool} {types : List Ty} (h : count p types + count q types = types.length)
    (hq : count q types = 0) : ∀ ty ∈ types, p ty = true := by
  apply all_of_count
  omega

theorem unifyStep_NP {E : Env} {uns : Bool} {self : Bool → List Ty → Res UOut} {types : List Ty}
    (hw : ∀ ty ∈ types, isObjectTy ty = true → ty.wf = true)
    (hselfNP : ∀ ts, (∀ ty ∈ ts, isObjectTy ty = true → ty.wf = true) → NP (self uns ts))
    (hself : ∀ ts t cs, self uns ts = .ok (some (t, cs)) → SlotsRel E uns t ts cs) :
    NP (unifyStep E uns self types) := by
  unfold unifyStep
  split
  · exact NP.ok _
  · rename_i hne
    have hne' : types ≠ [] := by intro e; subst e; simp at hne
    simp only
    -- dynamicCt > 0 is `hasDynamic`; otherwise the counted kind covers the whole list
    have hdyn : ∀ (p : Ty → Bool), count p types + count Ty.isDyn types = types.length →
        (decide (count Ty.isDyn types > 0) = true ∨ ∀ ty ∈ types, p ty = true) := by
      intro p hsum
      by_cases hz : count Ty.isDyn types = 0
      · exact .inr (count_split2 hsum hz)
      · exact .inl (by simp; omega)
    split
    · rename_i hc
      simp only [Bool.and_eq_true, decide_eq_true_eq, beq_iff_eq] at hc
      apply collectionTypes_NP
      rcases hdyn isMapTy hc.2 with h | h
      · exact .inl h
      · refine .inr (fun ty hty => ?_)
        have := h ty hty
        cases ty <;> simp [isMapTy] at this
        exact ⟨_, rfl⟩
    · split
      · apply NP.bind
        · exact reunify_NP hw hselfNP hself (fun _ _ _ => objectTypesToMap_loop)
            (fun ss hss => objectTypesToMap_NP E uns ss hss)
            (fun x hx => by cases x <;> simp [isMapTy] at hx; rfl)
        · intro r _
          cases r with
          | none => exact general_NP E uns types hne'
          | some r =>
            simp only
            split
            · exact NP.ok _
            · exact general_NP E uns types hne'
      · split
        · rename_i hc
          simp only [Bool.and_eq_true, decide_eq_true_eq, beq_iff_eq] at hc
          apply collectionTypes_NP
          rcases hdyn isListTy hc.2 with h | h
          · exact .inl h
          · refine .inr (fun ty hty => ?_)
            have := h ty hty
            cases ty <;> simp [isListTy] at this
            exact ⟨_, rfl⟩
        · split
          · apply NP.bind
            · exact reunify_NP hw hselfNP hself (fun _ _ _ => tupleTypesToList_loop)
                (fun ss hss => tupleTypesToList_NP E uns ss hss)
                (fun x hx => by cases x <;> simp [isListTy] at hx; rfl)
            · intro r _
              cases r with
              | none => exact general_NP E uns types hne'
              | some r =>
                simp only
                split
                · exact NP.ok _
                · exact general_NP E uns types hne'
          · split
            · rename_i hc
              simp only [Bool.and_eq_true, decide_eq_true_eq, beq_iff_eq] at hc
              apply collectionTypes_NP
              rcases hdyn isSetTy hc.2 with h | h
              · exact .inl h
              · refine .inr (fun ty hty => ?_)
                have := h ty hty
                cases ty <;> simp [isSetTy] at this
                exact ⟨_, rfl⟩
            · split
              · rename_i hc
                simp only [Bool.and_eq_true, decide_eq_true_eq, beq_iff_eq] at hc
                exact objectTypes_NP E uns types _ hne' (hdyn isObjectTy hc.2) hw
              · split
                · rename_i hc
                  simp only [Bool.and_eq_true, decide_eq_true_eq, beq_iff_eq] at hc
                  exact tupleTypes_NP E uns types _ hne' (hdyn isTupleTy hc.2)
                · split
                  · exact NP.ok _
                  · exact general_NP E uns types hne'

/-- `unify` never panics (the object types among the inputs well-formed, as every
`cty.Object` is; any environment, fuel, mode) -/
theorem unifyF_NP (E : Env) : ∀ (fuel : Nat) (uns : Bool) (types : List Ty),
    (∀ ty ∈ types, isObjectTy ty = true → ty.wf = true) → NP (unifyF E fuel uns types)
  | 0, _, _, _ => by intro w; simp [unifyF]
  | fuel + 1, uns, types, hw => by
    simp only [unifyF]
    exact unifyStep_NP hw (fun ts hts => unifyF_NP E fuel uns ts hts)
      (fun ts t cs hs => unifyF_slots E fuel uns ts t cs hs)

end Unify
end CtyModel
