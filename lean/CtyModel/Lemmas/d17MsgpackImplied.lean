/-
C17 (MessagePack half) — a type `msgpack.ImpliedType` returns is well-formed (attribute names
strictly ascending, one type and one flag per name), has no optional-attribute annotation, and its
attribute names are fixed points of `norm`: every item tree, every `Ext`.
-/
import CtyModel.Lemmas.d17MsgpackConf
namespace CtyModel
namespace D17
open Msgpack Ty

theorem insertKV_asc {α} (k : String) (v : α) : ∀ (ns : List String) (us : List α), ns.length = us.length →
    Ty.strictAsc ns = true →
    Ty.strictAsc (insertKV k v ns us).1 = true ∧ (insertKV k v ns us).1.length = (insertKV k v ns us).2.length ∧
    (∀ x ∈ (insertKV k v ns us).1, x = k ∨ x ∈ ns)
  | [], [], _, _ => by simp [insertKV, Ty.strictAsc]
  | [], _ :: _, h, _ => by simp at h
  | _ :: _, [], h, _ => by simp at h
  | n :: ns, u :: us, hl, ha => by
    have ⟨ha', hlt⟩ := Ty.strictAsc_cons ha
    simp only [insertKV]
    split
    · rename_i hkn
      refine ⟨Ty.strictAsc_of ha ?_, by simpa using hl, by intro x hx; simpa using hx⟩
      intro x hx
      rcases List.mem_cons.mp hx with rfl | hx
      · exact hkn
      · exact String.lt_trans hkn (hlt x hx)
    · rename_i hkn
      split
      · exact ⟨ha, by simpa using hl, fun x hx => Or.inr hx⟩
      · rename_i hne
        obtain ⟨i1, i2, i3⟩ := insertKV_asc k v ns us (by simpa using hl) ha'
        refine ⟨Ty.strictAsc_of i1 ?_, by simpa using i2, ?_⟩
        · intro x hx
          rcases i3 x hx with rfl | hx
          · exact JsonVal.str_lt_of_not _ _ hkn hne
          · exact hlt x hx
        · intro x hx
          rcases List.mem_cons.mp hx with rfl | hx
          · exact Or.inr (by simp)
          · rcases i3 x hx with h | h
            · exact Or.inl h
            · exact Or.inr (by simp [h])

theorem map_fix_all (f : String → String) : ∀ ks : List String, (ks.map f != ks) = false →
    ks.all (C17Json.nfcOf f) = true
  | [], _ => rfl
  | k :: ks, h => by
    simp only [List.map, bne_eq_false_iff_eq, List.cons.injEq] at h
    simp [C17Json.nfcOf, h.1, map_fix_all f ks (by simpa using h.2)]

/-- what is shown of an implied type -/
def ImpGood (E : Ext) (t : Ty) : Prop :=
  Ty.wf t = true ∧ Ty.hasOpt t = false ∧ Ty.namesAll (C17Json.nfcOf E.norm) t = true

theorem impGoodL {E : Ext} {ts : List Ty} (h : ∀ t ∈ ts, ImpGood E t) :
    Ty.wfL ts = true ∧ Ty.hasOptL ts = false ∧ Ty.namesAllL (C17Json.nfcOf E.norm) ts = true :=
  ⟨C17Json.wfL_of_mem' (fun t ht => (h t ht).1), JsonVal.hasOptL_of_mem (fun t ht => (h t ht).2.1),
   C17Json.namesAllL_of_mem (fun t ht => (h t ht).2.2)⟩

mutual
theorem impliedType_good (E : Ext) : ∀ (it : Item) (t : Ty), impliedType E it = .ok t → ImpGood E t
  | .nil, _, h | .ext _ _ _ _, _, h | .bool _, _, h | .int _, _, h | .uint _, _, h | .f32 _, _, h | .f64 _, _, h
  | .fnan, _, h | .str _, _, h => by
    simp only [impliedType] at h; cases h; exact ⟨rfl, rfl, rfl⟩
  | .bin _, _, h | .binj _, _, h => by simp [impliedType] at h
  | .arr xs, t, h => by
    simp only [impliedType] at h
    split at h
    · cases h; exact ⟨rfl, rfl, rfl⟩
    · obtain ⟨ts, hts, rfl⟩ := map_ok h
      obtain ⟨i1, i2, i3⟩ := impGoodL (impliedAll_good E xs ts hts)
      exact ⟨by simpa [Ty.wf] using i1, by simpa [Ty.hasOpt] using i2, by simpa [Ty.namesAll] using i3⟩
  | .map ks vs, t, h => by
    simp only [impliedType] at h
    obtain ⟨r, hr, h2⟩ := bind_ok h
    obtain ⟨a1, a2, a3⟩ := impliedAttrs_good E ks vs [] [] r rfl (by simp [Ty.strictAsc]) (by intro t ht; simp at ht) hr
    split at h2
    · cases h2
    · rename_i hc
      cases h2
      obtain ⟨i1, i2, i3⟩ := impGoodL a3
      have hfix : (r.1.map E.norm != r.1) = false := by
        simp only [Bool.or_eq_true, not_or, Bool.not_eq_true] at hc; exact hc.2
      refine ⟨?_, ?_, ?_⟩
      · simp [Ty.wf, a1, a2, i1]
      · simp [Ty.hasOpt, i2, JsonVal.hasOpt_map_false]
      · simp [Ty.namesAll, i3, map_fix_all E.norm r.1 hfix]
theorem impliedAll_good (E : Ext) : ∀ (xs : List Item) (ts : List Ty), impliedAll E xs = .ok ts → ∀ t ∈ ts, ImpGood E t
  | [], ts, h => by simp [impliedAll] at h; subst h; intro t ht; simp at ht
  | x :: xs, ts, h => by
    simp only [impliedAll] at h
    split at h
    · rename_i t0 h0
      obtain ⟨ts', hts', rfl⟩ := map_ok h
      intro t ht
      rcases List.mem_cons.mp ht with rfl | ht
      · exact impliedType_good E x _ h0
      · exact impliedAll_good E xs ts' hts' t ht
    all_goals cases h
theorem impliedAttrs_good (E : Ext) : ∀ (ks vs : List Item) (accK : List String) (accT : List Ty)
    (r : List String × List Ty), accK.length = accT.length → Ty.strictAsc accK = true → (∀ t ∈ accT, ImpGood E t) →
    impliedAttrs E ks vs accK accT = .ok r →
    r.1.length = r.2.length ∧ Ty.strictAsc r.1 = true ∧ (∀ t ∈ r.2, ImpGood E t)
  | [], _, _, _, r, hl, ha, hg, h => by simp [impliedAttrs] at h; subst h; exact ⟨hl, ha, hg⟩
  | _ :: _, [], _, _, r, hl, ha, hg, h => by simp [impliedAttrs] at h; subst h; exact ⟨hl, ha, hg⟩
  | k :: ks, v :: vs, accK, accT, r, hl, ha, hg, h => by
    simp only [impliedAttrs] at h
    split at h
    · rename_i key _
      split at h
      · rename_i t0 h0
        have g := impliedType_good E v t0 h0
        obtain ⟨j1, j2, _⟩ := insertKV_asc key t0 accK accT hl ha
        have j4 := (insertKV_vals key t0 accK accT).2
        exact impliedAttrs_good E ks vs _ _ r j2 j1 (by
          intro t ht
          rcases j4 t ht with rfl | ht
          · exact g
          · exact hg t ht) h
      all_goals cases h
    all_goals cases h
end

end D17
end CtyModel
