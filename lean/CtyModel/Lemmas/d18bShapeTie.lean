/-
Slice d18b — the REGENERATED-MODEL tie for the shape checks of cty/gocty/out.go: the definitions that
`extract/translate_gocty_shape.go` regenerates on every check (`Generated/GoctyShapeFns.lean`: `fromCtyList`,
`fromCtySet`, `fromCtyMap`, `fromCtyTuple`) compute what the corresponding cases of the hand-written model
`Gocty.fromCtyP` compute, when the recursive call is the model itself (`recS S`):

* `fromCtyList_tie`   a null or known list (with the marks pushed down to it), EVERY non-pointer target type
* `fromCtySet_tie`    a known set (a null set never reaches `fromCtySet`: `fromCtyValue` handles it)
* `fromCtyMap_tie`    a null or known map
* `fromCtyTuple_tie`  a known, unmarked tuple whose payload has the length of its type

Outcomes are compared up to the text of an error or panic (`er`).  So the kind dispatch, the null guards, the
marked-container panic, the array length rule and the tuple's field-count rule of the model are re-checked against
what the source says now; a change of meaning in the translated text makes this file fail to build.
-/
import CtyModel.Generated.GoctyShapeFns
import CtyModel.Lemmas.GoctyFnsTie
set_option linter.unusedSimpArgs false
set_option linter.unusedVariables false
namespace CtyModel
namespace D18bTie
open Gocty GoctyGo GoctyFnsTie Generated.GoctyFns Generated.GoctyShapeFns

/-- the recursive call = the hand-written model of `fromCtyValue` under the schedule `S` -/
def recS (S : Sched) : Rec := fun v E => fromCtyS S v E

theorem decodeAll_recS (S : Sched) (ety : Ty) (E : GoTy) : ∀ cs : List Payload,
    (cs.map fun c => recS S ⟨ety, c⟩ E) = fromCtyL S ety cs E
  | [] => rfl
  | c :: cs => by simp only [List.map_cons, fromCtyL, decodeAll_recS S ety E cs]; rfl

theorem pushMarks_seq (ms : List String) (cs : List Payload) :
    pushMarks ms (.seq cs) = if ms.isEmpty then .seq cs else .marked ms (.seq cs) :=
  pushMarks_scalar ms (.seq cs) rfl rfl
theorem pushMarks_null (ms : List String) :
    pushMarks ms .null = if ms.isEmpty then .null else .marked ms .null :=
  pushMarks_scalar ms .null rfl rfl
theorem pushMarks_smap (ms : List String) (ks : List String) (cs : List Payload) :
    pushMarks ms (.smap ks cs) = if ms.isEmpty then .smap ks cs else .marked ms (.smap ks cs) :=
  pushMarks_scalar ms (.smap ks cs) rfl rfl
theorem pushMarks_sset (ms : List String) (ids : List Int) (cs : List Payload) :
    pushMarks ms (.sset ids cs) = if ms.isEmpty then .sset ids cs else .marked ms (.sset ids cs) :=
  pushMarks_scalar ms (.sset ids cs) rfl rfl

theorem mapRes_comp_wrap0 (f : List GoVal → GoVal) (r : Res (List GoVal)) :
    mapRes (fun gs => wrapPtr 0 (f gs)) r = mapRes f r := by cases r <;> rfl

theorem er_mapRes_unmodelled_ite {α β} (f : α → β) (c : Bool) (x : Res α) :
    mapRes f (if c = true then Res.unmodelled else x) = if c = true then Res.unmodelled else mapRes f x := by
  cases c <;> rfl

/-- unfolds the translated text and the given API on concrete constructors -/
macro "shape_simp" "[" ts:Lean.Parser.Tactic.simpLemma,* "]" : tactic => `(tactic|
  simp [kindOf, er_likely, valIsNull, Value.isNull, Payload.isNull, Payload.unmark1, lengthInt, Value.isMarked,
    Payload.isMarked, setZero, zeroVal, wrapPtr, targetLen, typeKey, mapRes_comp_wrap0, $ts,*])

/-- `fromCtyList` as written in the source = the list case of the model of `fromCtyValue`, null and marks included -/
theorem fromCtyList_tie (S : Sched) (ms : List String) (ety : Ty) (p : Payload) (T : GoTy) (tv : GoVal)
    (hd : T.depth = 0) (hc : T.isCval = false) (hp : p = .null ∨ ∃ cs, p = .seq cs) :
    er (fromCtyList (recS S) ⟨.list ety, pushMarks ms p⟩ T tv) = er (fromCtyP S ms (.list ety) p T) := by
  have hb := base_of_depth0 hd
  rcases hp with rfl | ⟨cs, rfl⟩
  · rw [pushMarks_null]
    unfold fromCtyP
    simp only [hb, hc, hd, Bool.false_eq_true, if_false, nullViaPtr]
    by_cases hm : ms.isEmpty = true <;>
      cases T with
      | int w s => cases w <;> cases s <;> shape_simp [hm, fromCtyList]
      | float is32 => cases is32 <;> shape_simp [hm, fromCtyList]
      | _ => shape_simp [hm, fromCtyList]
  · rw [pushMarks_seq]
    unfold fromCtyP
    simp only [hb, hc, hd, Bool.false_eq_true, if_false]
    by_cases hm : ms.isEmpty = true
    · cases T with
      | int w s => cases w <;> cases s <;> shape_simp [hm, fromCtyList]
      | float is32 => cases is32 <;> shape_simp [hm, fromCtyList]
      | slice E =>
        shape_simp [hm, fromCtyList, listIntoSlice, decodeAll, decodeAll_recS]
        cases seqAll (fromCtyL S ety cs E) <;> rfl
      | array n E =>
        shape_simp [hm, fromCtyList, listIntoArray, decodeAll, decodeAll_recS]
        by_cases hl : cs.length = n
        · simp [hl]; cases seqAll (fromCtyL S ety cs E) <;> rfl
        · have hl' : ¬ ((cs.length : Int) = (n : Int)) := fun h => hl (Int.ofNat_inj.mp h)
          simp [hl, hl']
      | _ => shape_simp [hm, fromCtyList]
    · cases T with
      | int w s => cases w <;> cases s <;> shape_simp [hm, fromCtyList]
      | float is32 => cases is32 <;> shape_simp [hm, fromCtyList]
      | _ => shape_simp [hm, fromCtyList]

/-- `fromCtySet` as written in the source = the set case of the model (a known set; a null set is handled by
`fromCtyValue` and never reaches `fromCtySet`) -/
theorem fromCtySet_tie (S : Sched) (ms : List String) (ety : Ty) (ids : List Int) (cs : List Payload) (T : GoTy) (tv : GoVal)
    (hd : T.depth = 0) (hc : T.isCval = false) :
    er (fromCtySet (recS S) ⟨.set ety, pushMarks ms (.sset ids cs)⟩ T tv) = er (fromCtyP S ms (.set ety) (.sset ids cs) T) := by
  have hb := base_of_depth0 hd
  rw [pushMarks_sset]
  unfold fromCtyP
  simp only [hb, hc, hd, Bool.false_eq_true, if_false]
  by_cases hm : ms.isEmpty = true
  · cases T with
    | int w s => cases w <;> cases s <;> shape_simp [hm, fromCtySet]
    | float is32 => cases is32 <;> shape_simp [hm, fromCtySet]
    | slice E =>
      shape_simp [hm, fromCtySet, setIntoSlice, decodeSet, decodeAll_recS]
      split
      · rfl
      · cases seqAll (setOrder ety cs (fromCtyL S ety cs E)) <;> rfl
    | array n E =>
      shape_simp [hm, fromCtySet, setIntoArray, decodeSet, decodeAll_recS]
      by_cases hl : cs.length = n
      · simp [hl]
        split
        · rfl
        · cases seqAll (setOrder ety cs (fromCtyL S ety cs E)) <;> rfl
      · have hl' : ¬ ((cs.length : Int) = (n : Int)) := fun h => hl (Int.ofNat_inj.mp h)
        simp [hl, hl']
    | _ => shape_simp [hm, fromCtySet]
  · cases T with
    | int w s => cases w <;> cases s <;> shape_simp [hm, fromCtySet]
    | float is32 => cases is32 <;> shape_simp [hm, fromCtySet]
    | _ => shape_simp [hm, fromCtySet]

/-- `fromCtyMap` as written in the source = the map case of the model, null and marks included -/
theorem fromCtyMap_tie (S : Sched) (ms : List String) (ety : Ty) (p : Payload) (T : GoTy) (tv : GoVal)
    (hd : T.depth = 0) (hc : T.isCval = false) (hp : p = .null ∨ ∃ ks cs, p = .smap ks cs) :
    er (fromCtyMap (recS S) ⟨.map ety, pushMarks ms p⟩ T tv) = er (fromCtyP S ms (.map ety) p T) := by
  have hb := base_of_depth0 hd
  rcases hp with rfl | ⟨ks, cs, rfl⟩
  · rw [pushMarks_null]
    unfold fromCtyP
    simp only [hb, hc, hd, Bool.false_eq_true, if_false, nullViaPtr]
    by_cases hm : ms.isEmpty = true <;>
      cases T with
      | int w s => cases w <;> cases s <;> shape_simp [hm, fromCtyMap]
      | float is32 => cases is32 <;> shape_simp [hm, fromCtyMap]
      | _ => shape_simp [hm, fromCtyMap]
  · rw [pushMarks_smap]
    unfold fromCtyP
    simp only [hb, hc, hd, Bool.false_eq_true, if_false]
    by_cases hm : ms.isEmpty = true
    · cases T with
      | int w s => cases w <;> cases s <;> shape_simp [hm, fromCtyMap]
      | float is32 => cases is32 <;> shape_simp [hm, fromCtyMap]
      | map E =>
        shape_simp [hm, fromCtyMap, mapIntoMap, decodeAll, decodeAll_recS]
        cases seqAll (fromCtyL S ety cs E) <;> rfl
      | _ => shape_simp [hm, fromCtyMap]
    · cases T with
      | int w s => cases w <;> cases s <;> shape_simp [hm, fromCtyMap]
      | float is32 => cases is32 <;> shape_simp [hm, fromCtyMap]
      | _ => shape_simp [hm, fromCtyMap, mapIntoMap]

/-! ### marks pushed down to a member -/

theorem insertMark_ne_nil (m : String) : ∀ l : List String, insertMark m l ≠ []
  | [] => by simp [insertMark]
  | x :: xs => by
    simp only [insertMark]
    split
    · simp
    · split <;> simp

theorem unionMarks_isEmpty (a b : List String) (hb : b.isEmpty = false) : (unionMarks a b).isEmpty = false := by
  unfold unionMarks
  induction a with
  | nil => simpa using hb
  | cons x xs ih =>
    simp only [List.foldr_cons]
    cases h : insertMark x (List.foldr insertMark b xs) with
    | nil => exact absurd h (insertMark_ne_nil _ _)
    | cons _ _ => rfl

theorem fromCtyP_of_cval (S : Sched) (ms : List String) (ty : Ty) (p : Payload) (T : GoTy) (hc : T.base.isCval = true) :
    fromCtyP S ms ty p T = .ok (wrapPtr T.depth (.cval ⟨ty, pushMarks ms p⟩)) := by
  unfold fromCtyP; simp [hc]

theorem fromCtyP_marked (S : Sched) (ms m : List String) (ty : Ty) (r : Payload) (T : GoTy) (hc : T.base.isCval = false) :
    fromCtyP S ms ty (.marked m r) T = fromCtyP S (mergeMarks m ms) ty r T := by
  conv => lhs; unfold fromCtyP
  simp [hc]

/-- a member taken out of a marked container (`GetAttr` / `Index` merge the container's marks in) is decoded as the
model decodes the bare member with those marks still to be merged -/
theorem fromCtyP_pushMarks (S : Sched) (ms : List String) (ety : Ty) (c : Payload) (T : GoTy) :
    fromCtyP S [] ety (pushMarks ms c) T = fromCtyP S ms ety c T := by
  by_cases hm : ms.isEmpty = true
  · have : ms = [] := List.isEmpty_iff.mp hm
    subst this; rfl
  · have hm' : ms.isEmpty = false := by simpa using hm
    have hpp : ∀ q : Payload, pushMarks [] q = q := fun _ => rfl
    by_cases hc : T.base.isCval = true
    · rw [fromCtyP_of_cval S [] ety _ T hc, fromCtyP_of_cval S ms ety c T hc, hpp]
    · have hc' : T.base.isCval = false := by simpa using hc
      cases c with
      | marked m r =>
        have hall := unionMarks_isEmpty m ms hm'
        have hp : pushMarks ms (.marked m r) = .marked (unionMarks m ms) r := by
          simp [pushMarks, hm', Payload.withMarks, Payload.marks1, Payload.unmark1, hall]
        rw [hp, fromCtyP_marked S [] _ ety r T hc', fromCtyP_marked S ms m ety r T hc']
        simp [mergeMarks, hm']
      | _ =>
        simp only [pushMarks, hm', Payload.withMarks, Payload.marks1, Payload.unmark1, unionMarks, List.foldr_nil, Bool.false_eq_true, if_false]
        rw [fromCtyP_marked S [] ms ety _ T hc']
        simp [mergeMarks]


/-! ### the positional loop of `fromCtyTuple` -/

theorem seqAll_cons_ok {α} (a : α) (rs : List (Res α)) :
    seqAll (Res.ok a :: rs) = mapRes (fun as => a :: as) (seqAll rs) := by
  simp only [seqAll]; cases seqAll rs <;> rfl

theorem mapRes_mapRes {α β γ} (f : β → γ) (g : α → β) (r : Res α) : mapRes f (mapRes g r) = mapRes (fun a => f (g a)) r := by
  cases r <;> rfl

/-- a loop `for i := range xs` whose body decodes the `i`-th member into the `i`-th field of the struct the target
holds is the model's position-wise decoding of the remaining members (`fromCtyZ`): the first failure ends it -/
theorem forRange_fields (S : Sched) (tags : List String) (etys : List Ty) (cs : List Payload) (tys : List GoTy)
    (body : Int → GoVal → Res GoVal) (ms : List String) (hcs : cs.length = etys.length) (hty : tys.length = etys.length)
    (hbody : ∀ (k : Nat) (hk : k < etys.length) (gs : List GoVal), gs.length = etys.length →
      body (k : Int) (.struct tags gs) =
        mapRes (fun g => GoVal.struct tags (gs.set k g)) (fromCtyP S ms etys[k] (cs[k]'(by omega)) (tys[k]'(by omega)))) :
    ∀ (n k : Nat) (done rest0 : List GoVal), k + n = etys.length → done.length = k → rest0.length = n →
      forRangeFrom body k n (.struct tags (done ++ rest0)) =
        mapRes (fun rest => GoVal.struct tags (done ++ rest)) (seqAll (fromCtyZ S ms (etys.drop k) (cs.drop k) (tys.drop k)))
  | 0, k, done, rest0, hk, hd, hr => by
    have h1 : etys.drop k = [] := List.drop_eq_nil_of_le (by omega)
    have h2 : rest0 = [] := List.eq_nil_of_length_eq_zero hr
    subst h2
    simp [forRangeFrom, h1, fromCtyZ, seqAll, mapRes]
  | n + 1, k, done, rest0, hk, hd, hr => by
    have hk' : k < etys.length := by omega
    cases rest0 with
    | nil => simp at hr
    | cons r rest1 =>
      have hlen : (done ++ r :: rest1).length = etys.length := by simp at hr ⊢; omega
      have hb := hbody k hk' (done ++ r :: rest1) hlen
      have hset : ∀ g, (done ++ r :: rest1).set k g = (done ++ [g]) ++ rest1 := by
        intro g
        rw [List.set_append_right _ _ (by omega)]
        simp [hd]
      have e1 : etys.drop k = etys[k] :: etys.drop (k + 1) := List.drop_eq_getElem_cons hk'
      have e2 : cs.drop k = cs[k]'(by omega) :: cs.drop (k + 1) := List.drop_eq_getElem_cons (by omega)
      have e3 : tys.drop k = tys[k]'(by omega) :: tys.drop (k + 1) := List.drop_eq_getElem_cons (by omega)
      have ih := forRange_fields S tags etys cs tys body ms hcs hty hbody n (k + 1) (done ++ [r]) rest1 (by omega) (by simp [hd])
        (by simpa using hr)
      rw [e1, e2, e3]
      simp only [fromCtyZ, forRangeFrom, hb]
      cases hP : fromCtyP S ms etys[k] (cs[k]'(by omega)) (tys[k]'(by omega)) with
      | ok g =>
        have ih' := forRange_fields S tags etys cs tys body ms hcs hty hbody n (k + 1) (done ++ [g]) rest1 (by omega) (by simp [hd])
          (by simpa using hr)
        simp only [mapRes, hset]
        rw [ih', seqAll_cons_ok]
        generalize seqAll (fromCtyZ S ms (List.drop (k + 1) etys) (List.drop (k + 1) cs) (List.drop (k + 1) tys)) = R
        cases R <;> simp [mapRes]
      | err c => simp [mapRes, seqAll]
      | panic w => simp [mapRes, seqAll]
      | unmodelled => simp [mapRes, seqAll]

theorem zeroValL_len : ∀ tys : List GoTy, (zeroValL tys).length = tys.length
  | [] => rfl
  | _ :: ts => by simp [zeroValL, zeroValL_len ts]

/-- the whole loop, started on the zero struct -/
theorem forRange_struct (S : Sched) (tags : List String) (etys : List Ty) (cs : List Payload) (tys : List GoTy)
    (body : Int → GoVal → Res GoVal) (ms : List String) (hcs : cs.length = etys.length) (hty : tys.length = etys.length)
    (hbody : ∀ (k : Nat) (hk : k < etys.length) (gs : List GoVal), gs.length = etys.length →
      body (k : Int) (.struct tags gs) =
        mapRes (fun g => GoVal.struct tags (gs.set k g)) (fromCtyP S ms etys[k] (cs[k]'(by omega)) (tys[k]'(by omega)))) :
    forRange etys.length body (.struct tags (zeroValL tys)) = mapRes (GoVal.struct tags) (seqAll (fromCtyZ S ms etys cs tys)) := by
  have := forRange_fields S tags etys cs tys body ms hcs hty hbody etys.length 0 [] (zeroValL tys) (by omega) rfl
    (by rw [zeroValL_len, hty])
  simpa [forRange] using this

theorem forRange_first_err (body : Int → GoVal → Res GoVal) (n : Nat) (s : GoVal) (c : String) (hn : 0 < n)
    (h : body ((0 : Nat) : Int) s = .err c) : forRange n body s = .err c := by
  cases n with
  | zero => omega
  | succ m => simp only [forRange, forRangeFrom, h]

/-- `fromCtyTuple` as written in the source = the tuple case of the model, for a known, unmarked tuple whose payload
has as many members as its type, into the zero value of EVERY non-pointer target type -/
theorem fromCtyTuple_tie (S : Sched) (etys : List Ty) (cs : List Payload) (T : GoTy)
    (hd : T.depth = 0) (hc : T.isCval = false) (hwf : cs.length = etys.length) :
    er (fromCtyTuple (recS S) ⟨.tuple etys, .seq cs⟩ T (zeroVal T)) = er (fromCtyP S [] (.tuple etys) (.seq cs) T) := by
  have hb := base_of_depth0 hd
  unfold fromCtyP
  simp only [hb, hc, hd, Bool.false_eq_true, if_false]
  cases T with
  | int w s => cases w <;> cases s <;> shape_simp [fromCtyTuple]
  | float is32 => cases is32 <;> shape_simp [fromCtyTuple]
  | struct tags tys =>
    by_cases hl : tys.length = etys.length
    · have hl' : ((tys.length : Int) = (etys.length : Int)) := by rw [hl]
      unfold fromCtyTuple
      simp only [kindOf, decide_true, if_true, tupleElementTypes, numField, rbind_ok, hl', Bool.not_true, Bool.false_eq_true,
        if_false, zeroVal]
      rw [forRange_struct S tags etys cs tys _ [] hwf hl]
      · simp only [hl, ne_eq, not_true_eq_false, if_false, mapRes_comp_wrap0]
        cases seqAll (fromCtyZ S [] etys cs tys) <;> rfl
      · intro k hk gs hgs
        have h1 : etys[k]? = some etys[k] := List.getElem?_eq_getElem hk
        have h2 : cs[k]? = some (cs[k]'(by omega)) := List.getElem?_eq_getElem (by omega)
        have h3 : tys[k]? = some (tys[k]'(by omega)) := List.getElem?_eq_getElem (by omega)
        have h4 : ¬ ((k : Int) < 0) := by omega
        have h5 : (0 : Int) ≤ (k : Int) ∧ k < tys.length := ⟨by omega, by omega⟩
        simp [valIndex, Value.isKnown, Payload.isKnown, Payload.unmark1, Payload.marks1, h1, h2, h3, h4, h5, pushMarks,
          fieldCanSet, intoField, recS, fromCtyS]
        cases fromCtyP S [] etys[k] (cs[k]'(by omega)) (tys[k]'(by omega)) <;> rfl
    · have hl' : ¬ ((tys.length : Int) = (etys.length : Int)) := fun h => hl (Int.ofNat_inj.mp h)
      shape_simp [fromCtyTuple, tupleElementTypes, numField, hl, hl']
  | bigInt =>
    by_cases hl : (2 : Int) = (etys.length : Int)
    · have hpos : 0 < etys.length := by omega
      cases etys with
      | nil => simp at hpos
      | cons a as =>
        cases cs with
        | nil => simp at hwf
        | cons c cs' =>
          unfold fromCtyTuple
          simp only [kindOf, decide_true, if_true, tupleElementTypes, numField, rbind_ok, hl, Bool.not_true, Bool.false_eq_true,
            if_false]
          obtain ⟨e, he⟩ := likely_err .bigInt (zeroVal .bigInt)
          rw [forRange_first_err _ _ _ e hpos]
          · rfl
          · simp [valIndex, Value.isKnown, Payload.isKnown, Payload.unmark1, Payload.marks1, pushMarks, fieldCanSet, he]
    · shape_simp [fromCtyTuple, tupleElementTypes, numField, hl]
  | bigFloat =>
    by_cases hl : (7 : Int) = (etys.length : Int)
    · have hpos : 0 < etys.length := by omega
      cases etys with
      | nil => simp at hpos
      | cons a as =>
        cases cs with
        | nil => simp at hwf
        | cons c cs' =>
          unfold fromCtyTuple
          simp only [kindOf, decide_true, if_true, tupleElementTypes, numField, rbind_ok, hl, Bool.not_true, Bool.false_eq_true,
            if_false]
          obtain ⟨e, he⟩ := likely_err .bigFloat (zeroVal .bigFloat)
          rw [forRange_first_err _ _ _ e hpos]
          · rfl
          · simp [valIndex, Value.isKnown, Payload.isKnown, Payload.unmark1, Payload.marks1, pushMarks, fieldCanSet, he]
    · shape_simp [fromCtyTuple, tupleElementTypes, numField, hl]
  | cval => simp [GoTy.isCval] at hc
  | _ => shape_simp [fromCtyTuple]

/-! ### `fromCtyObject` (both loops are pinned regions: the tie re-checks the kind dispatch and how the regions are composed) -/

theorem attrDecodes_recS (S : Sched) : ∀ (names : List String) (atys : List Ty) (cs : List Payload) (tags : List String)
    (tys : List GoTy), attrDecodes (recS S) [] names atys cs tags tys = fromCtyA S [] names atys cs tags tys
  | [], _, _, _, _ => by simp [attrDecodes, fromCtyA]
  | _ :: _, [], _, _, _ => by simp [attrDecodes, fromCtyA]
  | _ :: _, _ :: _, [], _, _ => by simp [attrDecodes, fromCtyA]
  | k :: names, aty :: atys, c :: cs, tags, tys => by
    simp only [attrDecodes, fromCtyA, attrDecodes_recS S names atys cs tags tys]
    cases lookupTag k tags tys <;> simp [recS, fromCtyS, pushMarks]

/-- `fromCtyObject` as written in the source = the object case of the model, for an unmarked object whose payload carries
the attribute names of its type, into the zero value of every non-pointer target; `S 0` is the order in which the attributes
of this object are visited, `S.next` the schedule of the objects nested in it -/
theorem fromCtyObject_tie (S : Sched) (names : List String) (atys : List Ty) (opt : List Bool) (cs : List Payload) (T : GoTy)
    (hd : T.depth = 0) (hc : T.isCval = false) :
    er (fromCtyObject (recS S.next) (S 0) ⟨.object names atys opt, .smap names cs⟩ T (zeroVal T)) =
      er (fromCtyP S [] (.object names atys opt) (.smap names cs) T) := by
  have hb := base_of_depth0 hd
  unfold fromCtyP
  simp only [hb, hc, hd, Bool.false_eq_true, if_false, bne_self_eq_false]
  cases T with
  | int w s => cases w <;> cases s <;> shape_simp [fromCtyObject]
  | float is32 => cases is32 <;> shape_simp [fromCtyObject]
  | struct tags tys =>
    shape_simp [fromCtyObject, objectMissingCheck, objectIntoFields, tagView, Payload.marks1, attrDecodes_recS]
    split
    · rfl
    · cases combSched (S 0 names) names (fromCtyA S.next [] names atys cs (effTags tags) tys) <;> rfl
  | bigInt =>
    shape_simp [fromCtyObject, objectMissingCheck, objectIntoFields, tagView, missingRequired]
    split <;> rfl
  | bigFloat =>
    shape_simp [fromCtyObject, objectMissingCheck, objectIntoFields, tagView, missingRequired]
    split <;> rfl
  | cval => simp [GoTy.isCval] at hc
  | _ => shape_simp [fromCtyObject]

/-! ### `fromCtyValue`: the guards and the dispatch, for ANY recursive decoder and map order -/

@[simp] theorem populateTy_false (T : GoTy) : populateTy T false = T.base := rfl
@[simp] theorem populateLift_false (T : GoTy) : populateLift T false = wrapPtr T.depth := rfl
@[simp] theorem populateLift_true (T : GoTy) : populateLift T true = wrapPtr (T.depth - 1) := rfl

theorem isNamed_valueType (T : GoTy) : isNamed T .valueType = T.isCval := by cases T <;> rfl

theorem base_kind_cval {T : GoTy} (h : T.base.isCval = true) : T.base = .cval := by
  cases hb : T.base <;> simp_all [GoTy.isCval]

theorem nullViaPtr_eq (ty : Ty) : nullViaPtr ty = (!(isListType ty) && !(isMapType ty) && !(isCapsuleType ty)) := by
  cases ty <;> rfl

theorem kindOf_populate_null (T : GoTy) : (kindOf (populateTy T true) = Kind.kPtr) ↔ T.depth ≠ 0 := by
  cases T with
  | int w s => cases w <;> cases s <;> simp [populateTy, GoTy.depth, kindOf]
  | float is32 => cases is32 <;> simp [populateTy, GoTy.depth, kindOf]
  | _ => simp [populateTy, GoTy.depth, kindOf]

/-- the first guard: a target whose pointee is a `cty.Value` receives the value as it is — unknown, null or marked alike -/
theorem fromCtyValue_cval (rec : Rec) (ord : List String → List String) (v : Value) (T : GoTy) (tv : GoVal)
    (h : T.base.isCval = true) : fromCtyValue rec ord v T tv = .ok (wrapPtr T.depth (.cval v)) := by
  have hb := base_kind_cval h
  simp [fromCtyValue, populateTy, hb, kindOf, assignableTo, isNamed, setCval, liftRes, populateLift, mapRes]

/-- the second guard: null (of a type other than list, map, capsule; marked or not) sets the LAST pointer of the target to
nil, and is refused by a target that is not a pointer -/
theorem fromCtyValue_null (rec : Rec) (ord : List String → List String) (v : Value) (T : GoTy) (tv : GoVal)
    (hc : T.base.isCval = false) (hn : v.isNull = true) (hv : nullViaPtr v.ty = true) :
    er (fromCtyValue rec ord v T tv) = if T.depth = 0 then .err "" else .ok (wrapPtr (T.depth - 1) .nilPtr) := by
  have h1 : assignableTo T.base .valueType = false := by
    simp [assignableTo, isNamed_valueType, hc]
  have h2 : (valIsNull v && !isListType v.ty && !isMapType v.ty && !isCapsuleType v.ty) = true := by
    rw [nullViaPtr_eq] at hv
    simp only [valIsNull, hn, Bool.true_and, Bool.and_assoc]
    simpa [Bool.and_assoc] using hv
  unfold fromCtyValue
  simp only [populateTy_false, populateLift_false, populateLift_true, h1, Bool.and_false, Bool.false_eq_true, if_false, h2, if_true]
  by_cases hd : T.depth = 0
  · have : ¬ (kindOf (populateTy T true) = Kind.kPtr) := fun h => (kindOf_populate_null T).mp h hd
    simp [this, hd]
  · have : kindOf (populateTy T true) = Kind.kPtr := (kindOf_populate_null T).mpr hd
    simp [this, hd, populateTy, setZero, zeroVal, liftRes, mapRes, kindOf]

theorem isNull_of_unknown (v : Value) (h : v.isKnown = false) : v.isNull = false := by
  unfold Value.isKnown Payload.isKnown at h
  unfold Value.isNull Payload.isNull
  split at h <;> simp_all

/-- the third guard: an unknown value (marked or not) is refused by every target whose pointee is not a `cty.Value` -/
theorem fromCtyValue_unknown (rec : Rec) (ord : List String → List String) (v : Value) (T : GoTy) (tv : GoVal)
    (hc : T.base.isCval = false) (hk : v.isKnown = false) : er (fromCtyValue rec ord v T tv) = .err "" := by
  have h1 : assignableTo T.base .valueType = false := by
    simp [assignableTo, isNamed_valueType, hc]
  unfold fromCtyValue
  simp [populateTy_false, h1, valIsNull, isNull_of_unknown v hk, valIsKnown, hk]

/-- the dispatch: a known value that the null guard lets through is handed, with the pointee `T.base` as the target, to the
decoder of its type kind; the outcome is wrapped in the pointers allocated on the way -/
theorem fromCtyValue_dispatch (rec : Rec) (ord : List String → List String) (v : Value) (T : GoTy) (tv : GoVal)
    (hc : T.base.isCval = false) (hk : v.isKnown = true) (hn : v.isNull = false ∨ nullViaPtr v.ty = false) :
    fromCtyValue rec ord v T tv =
      mapRes (wrapPtr T.depth)
        (match v.ty with
         | .bool => fromCtyBool v T.base (zeroVal T.base)
         | .number => fromCtyNumber v T.base (zeroVal T.base)
         | .string => fromCtyString v T.base (zeroVal T.base)
         | .list _ => fromCtyList rec v T.base (zeroVal T.base)
         | .map _ => fromCtyMap rec v T.base (zeroVal T.base)
         | .set _ => fromCtySet rec v T.base (zeroVal T.base)
         | .object _ _ _ => fromCtyObject rec ord v T.base (zeroVal T.base)
         | .tuple _ => fromCtyTuple rec v T.base (zeroVal T.base)
         | .capsule _ => GoctyGo.fromCtyCapsule v T.base
         | .dyn => .err "unsupported source type %#v") := by
  have h1 : assignableTo T.base .valueType = false := by
    simp [assignableTo, isNamed_valueType, hc]
  have h2 : (valIsNull v && !isListType v.ty && !isMapType v.ty && !isCapsuleType v.ty) = false := by
    rcases hn with hn | hn
    · simp [valIsNull, hn]
    · rw [nullViaPtr_eq] at hn
      cases hnull : valIsNull v
      · simp
      · simpa [Bool.and_assoc] using hn
  unfold fromCtyValue
  simp only [populateTy_false, populateLift_false, h1, Bool.and_false, Bool.false_eq_true, if_false, h2, valIsKnown, hk, Bool.not_true, liftRes]
  cases hty : v.ty <;>
    simp [tyIs, isListType, isMapType, isSetType, isObjectType, isTupleType, isCapsuleType, mapRes, newErrorf]

/-! ### `fromCtyValue` = the model, guard by guard and kind by kind -/

theorem base_base : ∀ T : GoTy, T.base.base = T.base
  | .ptr e => by simp only [GoTy.base]; exact base_base e
  | .int _ _ | .float _ | .str | .bool | .slice _ | .array _ _ | .map _ | .struct _ _ | .bigInt | .bigFloat | .cval => rfl

theorem base_depth : ∀ T : GoTy, T.base.depth = 0
  | .ptr e => by simp only [GoTy.base]; exact base_depth e
  | .int _ _ | .float _ | .str | .bool | .slice _ | .array _ _ | .map _ | .struct _ _ | .bigInt | .bigFloat | .cval => rfl

theorem mapRes_id' (r : Res GoVal) : mapRes (wrapPtr 0) r = r := by cases r <;> rfl

/-- the model decodes into a pointer chain by decoding into its pointee and wrapping — except for a null that
goes through the pointer -/
theorem fromCtyP_via_base (S : Sched) (ms : List String) (ty : Ty) (p : Payload) (T : GoTy)
    (hc : T.base.isCval = false) (hm : p.isMarked = false) (hn : p.isNull = false ∨ nullViaPtr ty = false) :
    fromCtyP S ms ty p T = mapRes (wrapPtr T.depth) (fromCtyP S ms ty p T.base) := by
  have hbb := base_base T
  have hd0 := base_depth T
  generalize hB : T.base = B at *
  generalize hD : T.depth = d
  cases p with
  | marked m r => simp [Payload.isMarked] at hm
  | null =>
    have hv : nullViaPtr ty = false := by
      rcases hn with h | h
      · simp [Payload.isNull, Payload.unmark1] at h
      · exact h
    unfold fromCtyP
    simp only [hB, hbb, hc, hD, hd0, hv, Bool.false_eq_true, if_false]
    cases ty <;> simp [nullViaPtr] at hv <;> cases B <;> simp [mapRes, wrapPtr]
  | unk r => unfold fromCtyP; simp [hB, hbb, hc, mapRes]
  | b v => unfold fromCtyP; simp only [hB, hbb, hc, hD, hd0, Bool.false_eq_true, if_false]; cases ty <;> cases B <;> simp [mapRes, wrapPtr] <;> split <;> rfl
  | n x =>
    unfold fromCtyP; simp only [hB, hbb, hc, hD, hd0, Bool.false_eq_true, if_false]
    cases ty <;> simp [mapRes] <;> split <;> first | rfl | (cases fromNum x B <;> simp [mapRes, wrapPtr]) | simp [mapRes, mapRes_id', wrapPtr]
  | s v => unfold fromCtyP; simp only [hB, hbb, hc, hD, hd0, Bool.false_eq_true, if_false]; cases ty <;> cases B <;> simp [mapRes, wrapPtr] <;> split <;> rfl
  | seq cs =>
    unfold fromCtyP; simp only [hB, hbb, hc, hD, hd0, Bool.false_eq_true, if_false]
    cases ty <;> cases B <;> simp [mapRes, wrapPtr] <;> (repeat' split) <;> simp_all [mapRes, wrapPtr, mapRes_mapRes]
  | smap ks cs =>
    unfold fromCtyP; simp only [hB, hbb, hc, hD, hd0, Bool.false_eq_true, if_false]
    cases ty <;> cases B <;> simp [mapRes, wrapPtr] <;> (repeat' split) <;> simp_all [mapRes, wrapPtr, mapRes_mapRes]
  | sset ids cs =>
    unfold fromCtyP; simp only [hB, hbb, hc, hD, hd0, Bool.false_eq_true, if_false]
    cases ty <;> cases B <;> simp [mapRes, wrapPtr] <;> (repeat' split) <;> simp_all [mapRes, wrapPtr, mapRes_mapRes]
  | caps => unfold fromCtyP; simp [hB, hbb, hc, mapRes]
  | bad w => unfold fromCtyP; simp [hB, hbb, hc, mapRes]


theorem er_mapRes_congr {α β} (f : α → β) {a b : Res α} (h : er a = er b) : er (mapRes f a) = er (mapRes f b) := by
  cases a <;> cases b <;> simp_all [er, mapRes]

theorem pushMarks_nil (p : Payload) : pushMarks [] p = p := rfl

/-- the recursive call a value of type `ty` makes: an object passes the schedule of the NEXT depth down -/
def recFor (S : Sched) : Ty → Rec
  | .object _ _ _ => recS S.next
  | _ => recS S

/-- `fromCtyValue` as written in the source, with the translated decoders it dispatches to, IS the model `fromCtyP` on every
known, non-null, kind-correct value that carries no mark at the top (tuples: as many members as the type says), into every
target whose pointee is not `cty.Value` — the recursive calls being the model itself, the attribute order `S 0` -/
theorem fromCtyValue_tie (S : Sched) (ty : Ty) (p : Payload) (T : GoTy) (tv : GoVal)
    (hc : T.base.isCval = false) (hk : kindOK ty p = true)
    (hwf : ∀ etys cs, ty = .tuple etys → p = .seq cs → cs.length = etys.length) :
    er (fromCtyValue (recFor S ty) (S 0) ⟨ty, p⟩ T tv) = er (fromCtyP S [] ty p T) := by
  have hd := base_depth T
  have hcb : T.base.isCval = false := hc
  have hc' : T.base.base.isCval = false := by rw [base_base]; exact hc
  have hcv : (T.base).isCval = false := hc
  cases p with
  | b x =>
    cases ty <;> simp [kindOK] at hk
    rw [fromCtyValue_dispatch _ _ _ T tv hc rfl (Or.inl rfl), fromCtyP_via_base S [] _ _ T hc rfl (Or.inl rfl)]
    exact er_mapRes_congr _ (fromCtyBool_eq_fromCtyP S [] x T.base _ hd hcv)
  | n x =>
    cases ty <;> simp [kindOK] at hk
    rw [fromCtyValue_dispatch _ _ _ T tv hc rfl (Or.inl rfl), fromCtyP_via_base S [] _ _ T hc rfl (Or.inl rfl)]
    exact er_mapRes_congr _ (fromCtyNumber_eq_fromCtyP S [] x T.base _ hd hcv)
  | s x =>
    cases ty <;> simp [kindOK] at hk
    rw [fromCtyValue_dispatch _ _ _ T tv hc rfl (Or.inl rfl), fromCtyP_via_base S [] _ _ T hc rfl (Or.inl rfl)]
    exact er_mapRes_congr _ (fromCtyString_eq_fromCtyP S [] x T.base _ hd hcv)
  | seq cs =>
    cases ty <;> simp [kindOK] at hk
    · rename_i ety
      rw [fromCtyValue_dispatch _ _ _ T tv hc rfl (Or.inl rfl), fromCtyP_via_base S [] _ _ T hc rfl (Or.inl rfl)]
      exact er_mapRes_congr _ (fromCtyList_tie S [] ety (.seq cs) T.base _ hd hcv (Or.inr ⟨cs, rfl⟩))
    · rename_i etys
      rw [fromCtyValue_dispatch _ _ _ T tv hc rfl (Or.inl rfl), fromCtyP_via_base S [] _ _ T hc rfl (Or.inl rfl)]
      exact er_mapRes_congr _ (fromCtyTuple_tie S etys cs T.base hd hcv (hwf etys cs rfl rfl))
  | smap ks cs =>
    cases ty <;> simp [kindOK] at hk
    · rename_i ety
      rw [fromCtyValue_dispatch _ _ _ T tv hc rfl (Or.inl rfl), fromCtyP_via_base S [] _ _ T hc rfl (Or.inl rfl)]
      exact er_mapRes_congr _ (fromCtyMap_tie S [] ety (.smap ks cs) T.base _ hd hcv (Or.inr ⟨ks, cs, rfl⟩))
    · rename_i names atys opt
      subst hk
      rw [fromCtyValue_dispatch _ _ _ T tv hc rfl (Or.inl rfl), fromCtyP_via_base S [] _ _ T hc rfl (Or.inl rfl)]
      exact er_mapRes_congr _ (fromCtyObject_tie S ks atys opt cs T.base hd hcv)
  | sset ids cs =>
    cases ty <;> simp [kindOK] at hk
    rename_i ety
    rw [fromCtyValue_dispatch _ _ _ T tv hc rfl (Or.inl rfl), fromCtyP_via_base S [] _ _ T hc rfl (Or.inl rfl)]
    exact er_mapRes_congr _ (fromCtySet_tie S [] ety ids cs T.base _ hd hcv)
  | _ => cases ty <;> simp [kindOK] at hk

/-- … and on null, unknown and `cty.Value` targets, marks pushed down from the containers included -/
theorem fromCtyValue_tie_guards (S : Sched) (rec : Rec) (ord : List String → List String) (ms : List String) (ty : Ty)
    (p : Payload) (T : GoTy) (tv : GoVal) (hm : p.isMarked = false) :
    (T.base.isCval = true → fromCtyValue rec ord ⟨ty, pushMarks ms p⟩ T tv = fromCtyP S ms ty p T) ∧
    (T.base.isCval = false → p = .null → nullViaPtr ty = true →
      er (fromCtyValue rec ord ⟨ty, pushMarks ms p⟩ T tv) = er (fromCtyP S ms ty p T)) ∧
    (T.base.isCval = false → (∃ r, p = .unk r) →
      er (fromCtyValue rec ord ⟨ty, pushMarks ms p⟩ T tv) = er (fromCtyP S ms ty p T)) := by
  refine ⟨fun hc => ?_, fun hc hp hv => ?_, fun hc hp => ?_⟩
  · rw [fromCtyValue_cval rec ord _ T tv hc]
    unfold fromCtyP
    simp [hc]
  · subst hp
    have hnull : (⟨ty, pushMarks ms .null⟩ : Value).isNull = true := by
      rw [pushMarks_null]; split <;> rfl
    rw [fromCtyValue_null rec ord _ T tv hc hnull hv]
    unfold fromCtyP
    simp only [hc, Bool.false_eq_true, if_false, hv, if_true]
    split <;> rfl
  · obtain ⟨r, rfl⟩ := hp
    have hunk : (⟨ty, pushMarks ms (.unk r)⟩ : Value).isKnown = false := by
      rw [pushMarks_scalar ms (.unk r) rfl rfl]; split <;> rfl
    rw [fromCtyValue_unknown rec ord _ T tv hc hunk]
    unfold fromCtyP
    simp [hc]

/-! ### marked tuples and objects: the marks are pushed down to the members -/

theorem tupleVal_facts (ms : List String) (etys : List Ty) (cs : List Payload) :
    (⟨.tuple etys, pushMarks ms (.seq cs)⟩ : Value).isKnown = true ∧
    (pushMarks ms (.seq cs)).unmark1 = .seq cs ∧
    (∀ c, pushMarks (pushMarks ms (.seq cs)).marks1 c = pushMarks ms c) := by
  rw [pushMarks_seq]
  by_cases hm : ms.isEmpty = true
  · have : ms = [] := List.isEmpty_iff.mp hm
    subst this
    exact ⟨rfl, rfl, fun _ => rfl⟩
  · simp only [hm, if_false]
    exact ⟨rfl, rfl, fun _ => rfl⟩

/-- `fromCtyTuple_tie` for a tuple carrying the marks `ms` (pushed down from its containers or its own): `val.Index(i)`
merges them into every member, as the model's `fromCtyZ S ms` does -/
theorem fromCtyTuple_tie_marked (S : Sched) (ms : List String) (etys : List Ty) (cs : List Payload) (T : GoTy)
    (hd : T.depth = 0) (hc : T.isCval = false) (hwf : cs.length = etys.length) :
    er (fromCtyTuple (recS S) ⟨.tuple etys, pushMarks ms (.seq cs)⟩ T (zeroVal T)) =
      er (fromCtyP S ms (.tuple etys) (.seq cs) T) := by
  have hb := base_of_depth0 hd
  obtain ⟨f1, f2, f3⟩ := tupleVal_facts ms etys cs
  unfold fromCtyP
  simp only [hb, hc, hd, Bool.false_eq_true, if_false]
  cases T with
  | int w s => cases w <;> cases s <;> shape_simp [fromCtyTuple]
  | float is32 => cases is32 <;> shape_simp [fromCtyTuple]
  | struct tags tys =>
    by_cases hl : tys.length = etys.length
    · have hl' : ((tys.length : Int) = (etys.length : Int)) := by rw [hl]
      unfold fromCtyTuple
      simp only [kindOf, decide_true, if_true, tupleElementTypes, numField, rbind_ok, hl', Bool.not_true, Bool.false_eq_true,
        if_false, zeroVal]
      rw [forRange_struct S tags etys cs tys _ ms hwf hl]
      · simp only [hl, ne_eq, not_true_eq_false, if_false, mapRes_comp_wrap0]
        cases seqAll (fromCtyZ S ms etys cs tys) <;> rfl
      · intro k hk gs hgs
        have h1 : etys[k]? = some etys[k] := List.getElem?_eq_getElem hk
        have h2 : cs[k]? = some (cs[k]'(by omega)) := List.getElem?_eq_getElem (by omega)
        have h3 : tys[k]? = some (tys[k]'(by omega)) := List.getElem?_eq_getElem (by omega)
        have h4 : ¬ ((k : Int) < 0) := by omega
        have h5 : (0 : Int) ≤ (k : Int) ∧ k < tys.length := ⟨by omega, by omega⟩
        simp only [valIndex, f1, f2, f3, Bool.not_true, Bool.false_eq_true, if_false, h4, Int.toNat_natCast, h1, h2, rbind_ok,
          fieldCanSet, h5, and_self, if_true, intoField, h3, recS, fromCtyS, fromCtyP_pushMarks]
        cases fromCtyP S ms etys[k] (cs[k]'(by omega)) (tys[k]'(by omega)) <;> rfl
    · have hl' : ¬ ((tys.length : Int) = (etys.length : Int)) := fun h => hl (Int.ofNat_inj.mp h)
      shape_simp [fromCtyTuple, tupleElementTypes, numField, hl, hl']
  | bigInt =>
    by_cases hl : (2 : Int) = (etys.length : Int)
    · have hpos : 0 < etys.length := by omega
      cases etys with
      | nil => simp at hpos
      | cons a as =>
        cases cs with
        | nil => simp at hwf
        | cons c cs' =>
          unfold fromCtyTuple
          simp only [kindOf, decide_true, if_true, tupleElementTypes, numField, rbind_ok, hl, Bool.not_true, Bool.false_eq_true,
            if_false]
          obtain ⟨e, he⟩ := likely_err .bigInt (zeroVal .bigInt)
          rw [forRange_first_err _ _ _ e hpos]
          · rfl
          · simp [valIndex, f1, f2, fieldCanSet, he]
    · shape_simp [fromCtyTuple, tupleElementTypes, numField, hl]
  | bigFloat =>
    by_cases hl : (7 : Int) = (etys.length : Int)
    · have hpos : 0 < etys.length := by omega
      cases etys with
      | nil => simp at hpos
      | cons a as =>
        cases cs with
        | nil => simp at hwf
        | cons c cs' =>
          unfold fromCtyTuple
          simp only [kindOf, decide_true, if_true, tupleElementTypes, numField, rbind_ok, hl, Bool.not_true, Bool.false_eq_true,
            if_false]
          obtain ⟨e, he⟩ := likely_err .bigFloat (zeroVal .bigFloat)
          rw [forRange_first_err _ _ _ e hpos]
          · rfl
          · simp [valIndex, f1, f2, fieldCanSet, he]
    · shape_simp [fromCtyTuple, tupleElementTypes, numField, hl]
  | cval => simp [GoTy.isCval] at hc
  | _ => shape_simp [fromCtyTuple]

theorem attrDecodes_recS_marked (S : Sched) (ms : List String) : ∀ (names : List String) (atys : List Ty) (cs : List Payload)
    (tags : List String) (tys : List GoTy), attrDecodes (recS S) ms names atys cs tags tys = fromCtyA S ms names atys cs tags tys
  | [], _, _, _, _ => by simp [attrDecodes, fromCtyA]
  | _ :: _, [], _, _, _ => by simp [attrDecodes, fromCtyA]
  | _ :: _, _ :: _, [], _, _ => by simp [attrDecodes, fromCtyA]
  | k :: names, aty :: atys, c :: cs, tags, tys => by
    simp only [attrDecodes, fromCtyA, attrDecodes_recS_marked S ms names atys cs tags tys]
    cases lookupTag k tags tys <;> simp [recS, fromCtyS, fromCtyP_pushMarks]

theorem objectVal_facts (ms : List String) (ks : List String) (cs : List Payload) :
    (pushMarks ms (.smap ks cs)).unmark1 = .smap ks cs ∧
    (∀ names atys cs' tags tys, attrDecodes (recS S) (pushMarks ms (.smap ks cs)).marks1 names atys cs' tags tys =
      attrDecodes (recS S) ms names atys cs' tags tys) := by
  rw [pushMarks_smap]
  by_cases hm : ms.isEmpty = true
  · have : ms = [] := List.isEmpty_iff.mp hm
    subst this
    exact ⟨rfl, fun _ _ _ _ _ => rfl⟩
  · simp only [hm, if_false]
    exact ⟨rfl, fun _ _ _ _ _ => rfl⟩

/-- `fromCtyObject_tie` for an object carrying the marks `ms`: `val.GetAttr(k)` merges them into every attribute -/
theorem fromCtyObject_tie_marked (S : Sched) (ms : List String) (names : List String) (atys : List Ty) (opt : List Bool)
    (cs : List Payload) (T : GoTy) (hd : T.depth = 0) (hc : T.isCval = false) :
    er (fromCtyObject (recS S.next) (S 0) ⟨.object names atys opt, pushMarks ms (.smap names cs)⟩ T (zeroVal T)) =
      er (fromCtyP S ms (.object names atys opt) (.smap names cs) T) := by
  have hb := base_of_depth0 hd
  obtain ⟨f1, f2⟩ := @objectVal_facts S.next ms names cs
  unfold fromCtyP
  simp only [hb, hc, hd, Bool.false_eq_true, if_false, bne_self_eq_false]
  cases T with
  | int w s => cases w <;> cases s <;> shape_simp [fromCtyObject]
  | float is32 => cases is32 <;> shape_simp [fromCtyObject]
  | struct tags tys =>
    simp only [fromCtyObject, kindOf, decide_true, if_true, objectMissingCheck, tagView, objectIntoFields, f1, f2,
      attrDecodes_recS_marked, bne_self_eq_false, Bool.false_eq_true, if_false]
    split
    · rfl
    · simp only [rbind_ok, mapRes_comp_wrap0]
      cases combSched (S 0 names) names (fromCtyA S.next ms names atys cs (effTags tags) tys) <;> rfl
  | bigInt =>
    simp only [fromCtyObject, kindOf, decide_true, if_true, objectMissingCheck, tagView, objectIntoFields, f1, missingRequired,
      bne_self_eq_false, Bool.false_eq_true, if_false, rbind_ok]
    split <;> rfl
  | bigFloat =>
    simp only [fromCtyObject, kindOf, decide_true, if_true, objectMissingCheck, tagView, objectIntoFields, f1, missingRequired,
      bne_self_eq_false, Bool.false_eq_true, if_false, rbind_ok]
    split <;> rfl
  | cval => simp [GoTy.isCval] at hc
  | _ => shape_simp [fromCtyObject]

/-- a known, non-null payload (a concrete constructor) stays known and non-null under the marks pushed down to it -/
macro "pushed_known" ms:term "," ty:term "," p:term : term =>
  `((by rw [pushMarks_scalar $ms $p rfl rfl]; split <;> exact ⟨rfl, rfl⟩ :
      (⟨$ty, pushMarks $ms $p⟩ : Value).isKnown = true ∧ (⟨$ty, pushMarks $ms $p⟩ : Value).isNull = false))

/-- `fromCtyValue_tie` with marks: the value carries the marks `ms` (its own, or pushed down from the containers it was
taken from).  Marked scalars, lists, sets and maps panic in the accessor the decoder calls first; marked tuples and objects
hand the marks to their members; in every case the translated source does what the model does -/
theorem fromCtyValue_tie_marked (S : Sched) (ms : List String) (ty : Ty) (p : Payload) (T : GoTy) (tv : GoVal)
    (hc : T.base.isCval = false) (hk : kindOK ty p = true)
    (hwf : ∀ etys cs, ty = .tuple etys → p = .seq cs → cs.length = etys.length) :
    er (fromCtyValue (recFor S ty) (S 0) ⟨ty, pushMarks ms p⟩ T tv) = er (fromCtyP S ms ty p T) := by
  have hd := base_depth T
  have hcv : (T.base).isCval = false := hc
  cases p with
  | b x =>
    cases ty <;> simp [kindOK] at hk
    obtain ⟨k1, k2⟩ := (pushed_known ms, Ty.bool, Payload.b x)
    rw [fromCtyValue_dispatch _ _ _ T tv hc k1 (Or.inl k2), fromCtyP_via_base S ms _ _ T hc rfl (Or.inl rfl)]
    exact er_mapRes_congr _ (fromCtyBool_eq_fromCtyP S ms x T.base _ hd hcv)
  | n x =>
    cases ty <;> simp [kindOK] at hk
    obtain ⟨k1, k2⟩ := (pushed_known ms, Ty.number, Payload.n x)
    rw [fromCtyValue_dispatch _ _ _ T tv hc k1 (Or.inl k2), fromCtyP_via_base S ms _ _ T hc rfl (Or.inl rfl)]
    exact er_mapRes_congr _ (fromCtyNumber_eq_fromCtyP S ms x T.base _ hd hcv)
  | s x =>
    cases ty <;> simp [kindOK] at hk
    obtain ⟨k1, k2⟩ := (pushed_known ms, Ty.string, Payload.s x)
    rw [fromCtyValue_dispatch _ _ _ T tv hc k1 (Or.inl k2), fromCtyP_via_base S ms _ _ T hc rfl (Or.inl rfl)]
    exact er_mapRes_congr _ (fromCtyString_eq_fromCtyP S ms x T.base _ hd hcv)
  | seq cs =>
    cases ty <;> simp [kindOK] at hk
    · rename_i ety
      obtain ⟨k1, k2⟩ := (pushed_known ms, Ty.list ety, Payload.seq cs)
      rw [fromCtyValue_dispatch _ _ _ T tv hc k1 (Or.inl k2), fromCtyP_via_base S ms _ _ T hc rfl (Or.inl rfl)]
      exact er_mapRes_congr _ (fromCtyList_tie S ms ety (.seq cs) T.base _ hd hcv (Or.inr ⟨cs, rfl⟩))
    · rename_i etys
      obtain ⟨k1, k2⟩ := (pushed_known ms, Ty.tuple etys, Payload.seq cs)
      rw [fromCtyValue_dispatch _ _ _ T tv hc k1 (Or.inl k2), fromCtyP_via_base S ms _ _ T hc rfl (Or.inl rfl)]
      exact er_mapRes_congr _ (fromCtyTuple_tie_marked S ms etys cs T.base hd hcv (hwf etys cs rfl rfl))
  | smap ks cs =>
    cases ty <;> simp [kindOK] at hk
    · rename_i ety
      obtain ⟨k1, k2⟩ := (pushed_known ms, Ty.map ety, Payload.smap ks cs)
      rw [fromCtyValue_dispatch _ _ _ T tv hc k1 (Or.inl k2), fromCtyP_via_base S ms _ _ T hc rfl (Or.inl rfl)]
      exact er_mapRes_congr _ (fromCtyMap_tie S ms ety (.smap ks cs) T.base _ hd hcv (Or.inr ⟨ks, cs, rfl⟩))
    · rename_i names atys opt
      subst hk
      obtain ⟨k1, k2⟩ := (pushed_known ms, Ty.object ks atys opt, Payload.smap ks cs)
      rw [fromCtyValue_dispatch _ _ _ T tv hc k1 (Or.inl k2), fromCtyP_via_base S ms _ _ T hc rfl (Or.inl rfl)]
      exact er_mapRes_congr _ (fromCtyObject_tie_marked S ms ks atys opt cs T.base hd hcv)
  | sset ids cs =>
    cases ty <;> simp [kindOK] at hk
    rename_i ety
    obtain ⟨k1, k2⟩ := (pushed_known ms, Ty.set ety, Payload.sset ids cs)
    rw [fromCtyValue_dispatch _ _ _ T tv hc k1 (Or.inl k2), fromCtyP_via_base S ms _ _ T hc rfl (Or.inl rfl)]
    exact er_mapRes_congr _ (fromCtySet_tie S ms ety ids cs T.base _ hd hcv)
  | _ => cases ty <;> simp [kindOK] at hk

/-! ### statements about the translated text itself, for ANY recursive decoder -/

/-- the array length test of `fromCtyList` comes before the element loop: whatever `fromCtyValue` does with the members,
a known, unmarked list whose length is not the array's is refused -/
theorem fromCtyList_array_len (rec : Rec) (ety : Ty) (cs : List Payload) (n : Nat) (E : GoTy) (tv : GoVal)
    (hl : cs.length ≠ n) : ∃ c, fromCtyList rec ⟨.list ety, .seq cs⟩ (.array n E) tv = .err c := by
  have hl' : ¬ ((cs.length : Int) = (n : Int)) := fun h => hl (Int.ofNat_inj.mp h)
  exact ⟨_, by shape_simp [fromCtyList, hl']; rfl⟩

theorem fromCtySet_array_len (rec : Rec) (ety : Ty) (ids : List Int) (cs : List Payload) (n : Nat) (E : GoTy) (tv : GoVal)
    (hl : cs.length ≠ n) : ∃ c, fromCtySet rec ⟨.set ety, .sset ids cs⟩ (.array n E) tv = .err c := by
  have hl' : ¬ ((cs.length : Int) = (n : Int)) := fun h => hl (Int.ofNat_inj.mp h)
  exact ⟨_, by shape_simp [fromCtySet, hl']; rfl⟩

/-- the field-count test of `fromCtyTuple` comes before the loop -/
theorem fromCtyTuple_field_count (rec : Rec) (etys : List Ty) (p : Payload) (tags : List String) (tys : List GoTy) (tv : GoVal)
    (hl : tys.length ≠ etys.length) : ∃ c, fromCtyTuple rec ⟨.tuple etys, p⟩ (.struct tags tys) tv = .err c := by
  have hl' : ¬ ((tys.length : Int) = (etys.length : Int)) := fun h => hl (Int.ofNat_inj.mp h)
  exact ⟨_, by shape_simp [fromCtyTuple, tupleElementTypes, numField, hl']; rfl⟩

/-- a marked list, set or map makes the decoder panic (in `LengthInt` / `ForEachElement`) whatever the members are, when
the target's kind accepts it -/
theorem marked_container_panics (rec : Rec) (ms : List String) (ety : Ty) (cs : List Payload) (ks : List String) (ids : List Int)
    (E : GoTy) (tv : GoVal) :
    er (fromCtyList rec ⟨.list ety, .marked ms (.seq cs)⟩ (.slice E) tv) = .panic "" ∧
    er (fromCtySet rec ⟨.set ety, .marked ms (.sset ids cs)⟩ (.slice E) tv) = .panic "" ∧
    er (fromCtyMap rec ⟨.map ety, .marked ms (.smap ks cs)⟩ (.map E) tv) = .panic "" := by
  refine ⟨?_, ?_, ?_⟩
  · shape_simp [fromCtyList]
  · shape_simp [fromCtySet]
  · shape_simp [fromCtyMap, mapIntoMap]

end D18bTie
end CtyModel
