/-
Slice d18b — the REGENERATED-MODEL tie for the shape checks of cty/gocty/out.go: the definitions that
`extract/translate_gocty_shape.go` regenerates on every check (`Generated/GoctyShapeFns.lean`: `fromCtyList`,
`fromCtySet`, `fromCtyMap`, `fromCtyTuple`) compute what the corresponding cases of the hand-written model
`Gocty.fromCtyP` compute, when the recursive call is the model itself (`recS S`):

* `fromCtyList_tie`   a null or known list (with the marks pushed down to it), EVERY non-pointer target type
* `fromCtySet_tie`    a known set (a null set never reaches `fromCtySet`: `fromCtyValue` handles it)
* `fromCtyMap_tie`    a null or known map
* `fromCtyTuple_tie`  a known, unmarked tuple whose payload has the length of its type

Outcomes are compared up to the text of an error or panic (`er`).  So the kind dispatch, the null guards, the
marked-container panic, the array length rule and the tuple's field-count rule of the model are re-checked against
what the source says now; a change of meaning in the translated text makes this file fail to build.
-/
import CtyModel.Generated.GoctyShapeFns
import CtyModel.Lemmas.GoctyFnsTie
set_option linter.unusedSimpArgs false
set_option linter.unusedVariables false
namespace CtyModel
namespace D18bTie
open Gocty GoctyGo GoctyFnsTie Generated.GoctyFns Generated.GoctyShapeFns

/-- the recursive call = the hand-written model of `fromCtyValue` under the schedule `S` -/
def recS (S : Sched) : Rec := fun v E => fromCtyS S v E

theorem decodeAll_recS (S : Sched) (ety : Ty) (E : GoTy) : ∀ cs : List Payload,
    (cs.map fun c => recS S ⟨ety, c⟩ E) = fromCtyL S ety cs E
  | [] => rfl
  | c :: cs => by simp only [List.map_cons, fromCtyL, decodeAll_recS S ety E cs]; rfl

theorem pushMarks_seq (ms : List String) (cs : List Payload) :
    pushMarks ms (.seq cs) = if ms.isEmpty then .seq cs else .marked ms (.seq cs) :=
  pushMarks_scalar ms (.seq cs) rfl rfl
theorem pushMarks_null (ms : List String) :
    pushMarks ms .null = if ms.isEmpty then .null else .marked ms .null :=
  pushMarks_scalar ms .null rfl rfl
theorem pushMarks_smap (ms : List String) (ks : List String) (cs : List Payload) :
    pushMarks ms (.smap ks cs) = if ms.isEmpty then .smap ks cs else .marked ms (.smap ks cs) :=
  pushMarks_scalar ms (.smap ks cs) rfl rfl
theorem pushMarks_sset (ms : List String) (ids : List Int) (cs : List Payload) :
    pushMarks ms (.sset ids cs) = if ms.isEmpty then .sset ids cs else .marked ms (.sset ids cs) :=
  pushMarks_scalar ms (.sset ids cs) rfl rfl

theorem mapRes_comp_wrap0 (f : List GoVal → GoVal) (r : Res (List GoVal)) :
    mapRes (fun gs => wrapPtr 0 (f gs)) r = mapRes f r := by cases r <;> rfl

theorem er_mapRes_unmodelled_ite {α β} (f : α → β) (c : Bool) (x : Res α) :
    mapRes f (if c = true then Res.unmodelled else x) = if c = true then Res.unmodelled else mapRes f x := by
  cases c <;> rfl

/-- unfolds the translated text and the given API on concrete constructors -/
macro "shape_simp" "[" ts:Lean.Parser.Tactic.simpLemma,* "]" : tactic => `(tactic|
  simp [kindOf, er_likely, valIsNull, Value.isNull, Payload.isNull, Payload.unmark1, lengthInt, Value.isMarked,
    Payload.isMarked, setZero, zeroVal, wrapPtr, targetLen, typeKey, mapRes_comp_wrap0, $ts,*])

/-- `fromCtyList` as written in the source = the list case of the model of `fromCtyValue`, null and marks included -/
theorem fromCtyList_tie (S : Sched) (ms : List String) (ety : Ty) (p : Payload) (T : GoTy) (tv : GoVal)
    (hd : T.depth = 0) (hc : T.isCval = false) (hp : p = .null ∨ ∃ cs, p = .seq cs) :
    er (fromCtyList (recS S) ⟨.list ety, pushMarks ms p⟩ T tv) = er (fromCtyP S ms (.list ety) p T) := by
  have hb := base_of_depth0 hd
  rcases hp with rfl | ⟨cs, rfl⟩
  · rw [pushMarks_null]
    unfold fromCtyP
    simp only [hb, hc, hd, Bool.false_eq_true, if_false, nullViaPtr]
    by_cases hm : ms.isEmpty = true <;>
      cases T with
      | int w s => cases w <;> cases s <;> shape_simp [hm, fromCtyList]
      | float is32 => cases is32 <;> shape_simp [hm, fromCtyList]
      | _ => shape_simp [hm, fromCtyList]
  · rw [pushMarks_seq]
    unfold fromCtyP
    simp only [hb, hc, hd, Bool.false_eq_true, if_false]
    by_cases hm : ms.isEmpty = true
    · cases T with
      | int w s => cases w <;> cases s <;> shape_simp [hm, fromCtyList]
      | float is32 => cases is32 <;> shape_simp [hm, fromCtyList]
      | slice E =>
        shape_simp [hm, fromCtyList, listIntoSlice, decodeAll, decodeAll_recS]
        cases seqAll (fromCtyL S ety cs E) <;> rfl
      | array n E =>
        shape_simp [hm, fromCtyList, listIntoArray, decodeAll, decodeAll_recS]
        by_cases hl : cs.length = n
        · simp [hl]; cases seqAll (fromCtyL S ety cs E) <;> rfl
        · have hl' : ¬ ((cs.length : Int) = (n : Int)) := fun h => hl (Int.ofNat_inj.mp h)
          simp [hl, hl']
      | _ => shape_simp [hm, fromCtyList]
    · cases T with
      | int w s => cases w <;> cases s <;> shape_simp [hm, fromCtyList]
      | float is32 => cases is32 <;> shape_simp [hm, fromCtyList]
      | _ => shape_simp [hm, fromCtyList]

/-- `fromCtySet` as written in the source = the set case of the model (a known set; a null set is handled by
`fromCtyValue` and never reaches `fromCtySet`) -/
theorem fromCtySet_tie (S : Sched) (ms : List String) (ety : Ty) (ids : List Int) (cs : List Payload) (T : GoTy) (tv : GoVal)
    (hd : T.depth = 0) (hc : T.isCval = false) :
    er (fromCtySet (recS S) ⟨.set ety, pushMarks ms (.sset ids cs)⟩ T tv) = er (fromCtyP S ms (.set ety) (.sset ids cs) T) := by
  have hb := base_of_depth0 hd
  rw [pushMarks_sset]
  unfold fromCtyP
  simp only [hb, hc, hd, Bool.false_eq_true, if_false]
  by_cases hm : ms.isEmpty = true
  · cases T with
    | int w s => cases w <;> cases s <;> shape_simp [hm, fromCtySet]
    | float is32 => cases is32 <;> shape_simp [hm, fromCtySet]
    | slice E =>
      shape_simp [hm, fromCtySet, setIntoSlice, decodeSet, decodeAll_recS]
      split
      · rfl
      · cases seqAll (setOrder ety cs (fromCtyL S ety cs E)) <;> rfl
    | array n E =>
      shape_simp [hm, fromCtySet, setIntoArray, decodeSet, decodeAll_recS]
      by_cases hl : cs.length = n
      · simp [hl]
        split
        · rfl
        · cases seqAll (setOrder ety cs (fromCtyL S ety cs E)) <;> rfl
      · have hl' : ¬ ((cs.length : Int) = (n : Int)) := fun h => hl (Int.ofNat_inj.mp h)
        simp [hl, hl']
    | _ => shape_simp [hm, fromCtySet]
  · cases T with
    | int w s => cases w <;> cases s <;> shape_simp [hm, fromCtySet]
    | float is32 => cases is32 <;> shape_simp [hm, fromCtySet]
    | _ => shape_simp [hm, fromCtySet]

/-- `fromCtyMap` as written in the source = the map case of the model, null and marks included -/
theorem fromCtyMap_tie (S : Sched) (ms : List String) (ety : Ty) (p : Payload) (T : GoTy) (tv : GoVal)
    (hd : T.depth = 0) (hc : T.isCval = false) (hp : p = .null ∨ ∃ ks cs, p = .smap ks cs) :
    er (fromCtyMap (recS S) ⟨.map ety, pushMarks ms p⟩ T tv) = er (fromCtyP S ms (.map ety) p T) := by
  have hb := base_of_depth0 hd
  rcases hp with rfl | ⟨ks, cs, rfl⟩
  · rw [pushMarks_null]
    unfold fromCtyP
    simp only [hb, hc, hd, Bool.false_eq_true, if_false, nullViaPtr]
    by_cases hm : ms.isEmpty = true <;>
      cases T with
      | int w s => cases w <;> cases s <;> shape_simp [hm, fromCtyMap]
      | float is32 => cases is32 <;> shape_simp [hm, fromCtyMap]
      | _ => shape_simp [hm, fromCtyMap]
  · rw [pushMarks_smap]
    unfold fromCtyP
    simp only [hb, hc, hd, Bool.false_eq_true, if_false]
    by_cases hm : ms.isEmpty = true
    · cases T with
      | int w s => cases w <;> cases s <;> shape_simp [hm, fromCtyMap]
      | float is32 => cases is32 <;> shape_simp [hm, fromCtyMap]
      | map E =>
        shape_simp [hm, fromCtyMap, mapIntoMap, decodeAll, decodeAll_recS]
        cases seqAll (fromCtyL S ety cs E) <;> rfl
      | _ => shape_simp [hm, fromCtyMap]
    · cases T with
      | int w s => cases w <;> cases s <;> shape_simp [hm, fromCtyMap]
      | float is32 => cases is32 <;> shape_simp [hm, fromCtyMap]
      | _ => shape_simp [hm, fromCtyMap, mapIntoMap]

/-! ### the positional loop of `fromCtyTuple` -/

theorem seqAll_cons_ok {α} (a : α) (rs : List (Res α)) :
    seqAll (Res.ok a :: rs) = mapRes (fun as => a :: as) (seqAll rs) := by
  simp only [seqAll]; cases seqAll rs <;> rfl

theorem mapRes_mapRes {α β γ} (f : β → γ) (g : α → β) (r : Res α) : mapRes f (mapRes g r) = mapRes (fun a => f (g a)) r := by
  cases r <;> rfl

/-- a loop `for i := range xs` whose body decodes the `i`-th member into the `i`-th field of the struct the target
holds is the model's position-wise decoding of the remaining members (`fromCtyZ`): the first failure ends it -/
theorem forRange_fields (S : Sched) (tags : List String) (etys : List Ty) (cs : List Payload) (tys : List GoTy)
    (body : Int → GoVal → Res GoVal) (hcs : cs.length = etys.length) (hty : tys.length = etys.length)
    (hbody : ∀ (k : Nat) (hk : k < etys.length) (gs : List GoVal), gs.length = etys.length →
      body (k : Int) (.struct tags gs) =
        mapRes (fun g => GoVal.struct tags (gs.set k g)) (fromCtyP S [] etys[k] (cs[k]'(by omega)) (tys[k]'(by omega)))) :
    ∀ (n k : Nat) (done rest0 : List GoVal), k + n = etys.length → done.length = k → rest0.length = n →
      forRangeFrom body k n (.struct tags (done ++ rest0)) =
        mapRes (fun rest => GoVal.struct tags (done ++ rest)) (seqAll (fromCtyZ S [] (etys.drop k) (cs.drop k) (tys.drop k)))
  | 0, k, done, rest0, hk, hd, hr => by
    have h1 : etys.drop k = [] := List.drop_eq_nil_of_le (by omega)
    have h2 : rest0 = [] := List.eq_nil_of_length_eq_zero hr
    subst h2
    simp [forRangeFrom, h1, fromCtyZ, seqAll, mapRes]
  | n + 1, k, done, rest0, hk, hd, hr => by
    have hk' : k < etys.length := by omega
    cases rest0 with
    | nil => simp at hr
    | cons r rest1 =>
      have hlen : (done ++ r :: rest1).length = etys.length := by simp at hr ⊢; omega
      have hb := hbody k hk' (done ++ r :: rest1) hlen
      have hset : ∀ g, (done ++ r :: rest1).set k g = (done ++ [g]) ++ rest1 := by
        intro g
        rw [List.set_append_right _ _ (by omega)]
        simp [hd]
      have e1 : etys.drop k = etys[k] :: etys.drop (k + 1) := List.drop_eq_getElem_cons hk'
      have e2 : cs.drop k = cs[k]'(by omega) :: cs.drop (k + 1) := List.drop_eq_getElem_cons (by omega)
      have e3 : tys.drop k = tys[k]'(by omega) :: tys.drop (k + 1) := List.drop_eq_getElem_cons (by omega)
      have ih := forRange_fields S tags etys cs tys body hcs hty hbody n (k + 1) (done ++ [r]) rest1 (by omega) (by simp [hd])
        (by simpa using hr)
      rw [e1, e2, e3]
      simp only [fromCtyZ, forRangeFrom, hb]
      cases hP : fromCtyP S [] etys[k] (cs[k]'(by omega)) (tys[k]'(by omega)) with
      | ok g =>
        have ih' := forRange_fields S tags etys cs tys body hcs hty hbody n (k + 1) (done ++ [g]) rest1 (by omega) (by simp [hd])
          (by simpa using hr)
        simp only [mapRes, hset]
        rw [ih', seqAll_cons_ok]
        generalize seqAll (fromCtyZ S [] (List.drop (k + 1) etys) (List.drop (k + 1) cs) (List.drop (k + 1) tys)) = R
        cases R <;> simp [mapRes]
      | err c => simp [mapRes, seqAll]
      | panic w => simp [mapRes, seqAll]
      | unmodelled => simp [mapRes, seqAll]

theorem zeroValL_len : ∀ tys : List GoTy, (zeroValL tys).length = tys.length
  | [] => rfl
  | _ :: ts => by simp [zeroValL, zeroValL_len ts]

/-- the whole loop, started on the zero struct -/
theorem forRange_struct (S : Sched) (tags : List String) (etys : List Ty) (cs : List Payload) (tys : List GoTy)
    (body : Int → GoVal → Res GoVal) (hcs : cs.length = etys.length) (hty : tys.length = etys.length)
    (hbody : ∀ (k : Nat) (hk : k < etys.length) (gs : List GoVal), gs.length = etys.length →
      body (k : Int) (.struct tags gs) =
        mapRes (fun g => GoVal.struct tags (gs.set k g)) (fromCtyP S [] etys[k] (cs[k]'(by omega)) (tys[k]'(by omega)))) :
    forRange etys.length body (.struct tags (zeroValL tys)) = mapRes (GoVal.struct tags) (seqAll (fromCtyZ S [] etys cs tys)) := by
  have := forRange_fields S tags etys cs tys body hcs hty hbody etys.length 0 [] (zeroValL tys) (by omega) rfl
    (by rw [zeroValL_len, hty])
  simpa [forRange] using this

theorem forRange_first_err (body : Int → GoVal → Res GoVal) (n : Nat) (s : GoVal) (c : String) (hn : 0 < n)
    (h : body ((0 : Nat) : Int) s = .err c) : forRange n body s = .err c := by
  cases n with
  | zero => omega
  | succ m => simp only [forRange, forRangeFrom, h]

/-- `fromCtyTuple` as written in the source = the tuple case of the model, for a known, unmarked tuple whose payload
has as many members as its type, into the zero value of EVERY non-pointer target type -/
theorem fromCtyTuple_tie (S : Sched) (etys : List Ty) (cs : List Payload) (T : GoTy)
    (hd : T.depth = 0) (hc : T.isCval = false) (hwf : cs.length = etys.length) :
    er (fromCtyTuple (recS S) ⟨.tuple etys, .seq cs⟩ T (zeroVal T)) = er (fromCtyP S [] (.tuple etys) (.seq cs) T) := by
  have hb := base_of_depth0 hd
  unfold fromCtyP
  simp only [hb, hc, hd, Bool.false_eq_true, if_false]
  cases T with
  | int w s => cases w <;> cases s <;> shape_simp [fromCtyTuple]
  | float is32 => cases is32 <;> shape_simp [fromCtyTuple]
  | struct tags tys =>
    by_cases hl : tys.length = etys.length
    · have hl' : ((tys.length : Int) = (etys.length : Int)) := by rw [hl]
      unfold fromCtyTuple
      simp only [kindOf, decide_true, if_true, tupleElementTypes, numField, rbind_ok, hl', Bool.not_true, Bool.false_eq_true,
        if_false, zeroVal]
      rw [forRange_struct S tags etys cs tys _ hwf hl]
      · simp only [hl, ne_eq, not_true_eq_false, if_false, mapRes_comp_wrap0]
        cases seqAll (fromCtyZ S [] etys cs tys) <;> rfl
      · intro k hk gs hgs
        have h1 : etys[k]? = some etys[k] := List.getElem?_eq_getElem hk
        have h2 : cs[k]? = some (cs[k]'(by omega)) := List.getElem?_eq_getElem (by omega)
        have h3 : tys[k]? = some (tys[k]'(by omega)) := List.getElem?_eq_getElem (by omega)
        have h4 : ¬ ((k : Int) < 0) := by omega
        have h5 : (0 : Int) ≤ (k : Int) ∧ k < tys.length := ⟨by omega, by omega⟩
        simp [valIndex, Value.isKnown, Payload.isKnown, Payload.unmark1, Payload.marks1, h1, h2, h3, h4, h5, pushMarks,
          fieldCanSet, intoField, recS, fromCtyS]
        cases fromCtyP S [] etys[k] (cs[k]'(by omega)) (tys[k]'(by omega)) <;> rfl
    · have hl' : ¬ ((tys.length : Int) = (etys.length : Int)) := fun h => hl (Int.ofNat_inj.mp h)
      shape_simp [fromCtyTuple, tupleElementTypes, numField, hl, hl']
  | bigInt =>
    by_cases hl : (2 : Int) = (etys.length : Int)
    · have hpos : 0 < etys.length := by omega
      cases etys with
      | nil => simp at hpos
      | cons a as =>
        cases cs with
        | nil => simp at hwf
        | cons c cs' =>
          unfold fromCtyTuple
          simp only [kindOf, decide_true, if_true, tupleElementTypes, numField, rbind_ok, hl, Bool.not_true, Bool.false_eq_true,
            if_false]
          obtain ⟨e, he⟩ := likely_err .bigInt (zeroVal .bigInt)
          rw [forRange_first_err _ _ _ e hpos]
          · rfl
          · simp [valIndex, Value.isKnown, Payload.isKnown, Payload.unmark1, Payload.marks1, pushMarks, fieldCanSet, he]
    · shape_simp [fromCtyTuple, tupleElementTypes, numField, hl]
  | bigFloat =>
    by_cases hl : (7 : Int) = (etys.length : Int)
    · have hpos : 0 < etys.length := by omega
      cases etys with
      | nil => simp at hpos
      | cons a as =>
        cases cs with
        | nil => simp at hwf
        | cons c cs' =>
          unfold fromCtyTuple
          simp only [kindOf, decide_true, if_true, tupleElementTypes, numField, rbind_ok, hl, Bool.not_true, Bool.false_eq_true,
            if_false]
          obtain ⟨e, he⟩ := likely_err .bigFloat (zeroVal .bigFloat)
          rw [forRange_first_err _ _ _ e hpos]
          · rfl
          · simp [valIndex, Value.isKnown, Payload.isKnown, Payload.unmark1, Payload.marks1, pushMarks, fieldCanSet, he]
    · shape_simp [fromCtyTuple, tupleElementTypes, numField, hl]
  | cval => simp [GoTy.isCval] at hc
  | _ => shape_simp [fromCtyTuple]

/-! ### `fromCtyObject` (both loops are pinned regions: the tie re-checks the kind dispatch and how the regions are composed) -/

theorem attrDecodes_recS (S : Sched) : ∀ (names : List String) (atys : List Ty) (cs : List Payload) (tags : List String)
    (tys : List GoTy), attrDecodes (recS S) [] names atys cs tags tys = fromCtyA S [] names atys cs tags tys
  | [], _, _, _, _ => by simp [attrDecodes, fromCtyA]
  | _ :: _, [], _, _, _ => by simp [attrDecodes, fromCtyA]
  | _ :: _, _ :: _, [], _, _ => by simp [attrDecodes, fromCtyA]
  | k :: names, aty :: atys, c :: cs, tags, tys => by
    simp only [attrDecodes, fromCtyA, attrDecodes_recS S names atys cs tags tys]
    cases lookupTag k tags tys <;> simp [recS, fromCtyS, pushMarks]

/-- `fromCtyObject` as written in the source = the object case of the model, for an unmarked object whose payload carries
the attribute names of its type, into the zero value of every non-pointer target; `S 0` is the order in which the attributes
of this object are visited, `S.next` the schedule of the objects nested in it -/
theorem fromCtyObject_tie (S : Sched) (names : List String) (atys : List Ty) (opt : List Bool) (cs : List Payload) (T : GoTy)
    (hd : T.depth = 0) (hc : T.isCval = false) :
    er (fromCtyObject (recS S.next) (S 0) ⟨.object names atys opt, .smap names cs⟩ T (zeroVal T)) =
      er (fromCtyP S [] (.object names atys opt) (.smap names cs) T) := by
  have hb := base_of_depth0 hd
  unfold fromCtyP
  simp only [hb, hc, hd, Bool.false_eq_true, if_false, bne_self_eq_false]
  cases T with
  | int w s => cases w <;> cases s <;> shape_simp [fromCtyObject]
  | float is32 => cases is32 <;> shape_simp [fromCtyObject]
  | struct tags tys =>
    shape_simp [fromCtyObject, objectMissingCheck, objectIntoFields, tagView, Payload.marks1, attrDecodes_recS]
    split
    · rfl
    · cases combSched (S 0 names) names (fromCtyA S.next [] names atys cs (effTags tags) tys) <;> rfl
  | bigInt =>
    shape_simp [fromCtyObject, objectMissingCheck, objectIntoFields, tagView, missingRequired]
    split <;> rfl
  | bigFloat =>
    shape_simp [fromCtyObject, objectMissingCheck, objectIntoFields, tagView, missingRequired]
    split <;> rfl
  | cval => simp [GoTy.isCval] at hc
  | _ => shape_simp [fromCtyObject]

/-! ### statements about the translated text itself, for ANY recursive decoder -/

/-- the array length test of `fromCtyList` comes before the element loop: whatever `fromCtyValue` does with the members,
a known, unmarked list whose length is not the array's is refused -/
theorem fromCtyList_array_len (rec : Rec) (ety : Ty) (cs : List Payload) (n : Nat) (E : GoTy) (tv : GoVal)
    (hl : cs.length ≠ n) : ∃ c, fromCtyList rec ⟨.list ety, .seq cs⟩ (.array n E) tv = .err c := by
  have hl' : ¬ ((cs.length : Int) = (n : Int)) := fun h => hl (Int.ofNat_inj.mp h)
  exact ⟨_, by shape_simp [fromCtyList, hl']; rfl⟩

theorem fromCtySet_array_len (rec : Rec) (ety : Ty) (ids : List Int) (cs : List Payload) (n : Nat) (E : GoTy) (tv : GoVal)
    (hl : cs.length ≠ n) : ∃ c, fromCtySet rec ⟨.set ety, .sset ids cs⟩ (.array n E) tv = .err c := by
  have hl' : ¬ ((cs.length : Int) = (n : Int)) := fun h => hl (Int.ofNat_inj.mp h)
  exact ⟨_, by shape_simp [fromCtySet, hl']; rfl⟩

/-- the field-count test of `fromCtyTuple` comes before the loop -/
theorem fromCtyTuple_field_count (rec : Rec) (etys : List Ty) (p : Payload) (tags : List String) (tys : List GoTy) (tv : GoVal)
    (hl : tys.length ≠ etys.length) : ∃ c, fromCtyTuple rec ⟨.tuple etys, p⟩ (.struct tags tys) tv = .err c := by
  have hl' : ¬ ((tys.length : Int) = (etys.length : Int)) := fun h => hl (Int.ofNat_inj.mp h)
  exact ⟨_, by shape_simp [fromCtyTuple, tupleElementTypes, numField, hl']; rfl⟩

/-- a marked list, set or map makes the decoder panic (in `LengthInt` / `ForEachElement`) whatever the members are, when
the target's kind accepts it -/
theorem marked_container_panics (rec : Rec) (ms : List String) (ety : Ty) (cs : List Payload) (ks : List String) (ids : List Int)
    (E : GoTy) (tv : GoVal) :
    er (fromCtyList rec ⟨.list ety, .marked ms (.seq cs)⟩ (.slice E) tv) = .panic "" ∧
    er (fromCtySet rec ⟨.set ety, .marked ms (.sset ids cs)⟩ (.slice E) tv) = .panic "" ∧
    er (fromCtyMap rec ⟨.map ety, .marked ms (.smap ks cs)⟩ (.map E) tv) = .panic "" := by
  refine ⟨?_, ?_, ?_⟩
  · shape_simp [fromCtyList]
  · shape_simp [fromCtySet]
  · shape_simp [fromCtyMap, mapIntoMap]

end D18bTie
end CtyModel
