/-
The unmarked cores of the operation methods (`addU`, `indexU`, … of Ops.lean /
Ops2.lean) on operands whose TOP node is not a marker but which may hold marks
further inside:

* `…_strip`  — the core does not look at nested marks: it computes the same on the
               deeply unmarked operands (`Res.Rel`: same outcome class, result
               equal after `unmarkDeep`);
* `…_clean` / `…_marks` — where the marks of a result come from.
-/
import CtyModel.Lemmas.MarksRes
namespace CtyModel
namespace Value

/-! ### observers do not see nested marks -/

theorem isUnk_unmarkDeep {x : Value} (h : x.isMarked = false) : x.unmarkDeep.isUnk = x.isUnk := by
  obtain ⟨t, p⟩ := x
  cases p <;> simp_all [isMarked, Payload.isMarked, unmarkDeep, Payload.stripMarks, isUnk]

theorem isKnown_unmarkDeep {x : Value} (h : x.isMarked = false) : x.unmarkDeep.isKnown = x.isKnown := by
  obtain ⟨t, p⟩ := x
  cases p <;> simp_all [isMarked, Payload.isMarked, unmarkDeep, Payload.stripMarks, isKnown, Payload.isKnown, Payload.unmark1]

theorem isNull_unmarkDeep {x : Value} (h : x.isMarked = false) : x.unmarkDeep.isNull = x.isNull := by
  obtain ⟨t, p⟩ := x
  cases p <;> simp_all [isMarked, Payload.isMarked, unmarkDeep, Payload.stripMarks, isNull, Payload.isNull, Payload.unmark1]

theorem whollyKnown_unmarkDeep (x : Value) : x.unmarkDeep.whollyKnown = x.whollyKnown :=
  Payload.whollyKnown_stripMarks _

theorem asNum_unmarkDeep {x : Value} (h : x.isMarked = false) : asNum x.unmarkDeep = asNum x := by
  obtain ⟨t, p⟩ := x
  cases p <;> simp_all [isMarked, Payload.isMarked, unmarkDeep, Payload.stripMarks, asNum]

theorem asBool_unmarkDeep {x : Value} (h : x.isMarked = false) : asBool x.unmarkDeep = asBool x := by
  obtain ⟨t, p⟩ := x
  cases p <;> simp_all [isMarked, Payload.isMarked, unmarkDeep, Payload.stripMarks, asBool]

theorem isLitBool_unmarkDeep {x : Value} (b : Bool) (h : x.isMarked = false) :
    isLitBool x.unmarkDeep b = isLitBool x b := by
  obtain ⟨t, p⟩ := x
  cases p <;> simp_all [isMarked, Payload.isMarked, unmarkDeep, Payload.stripMarks, isLitBool]

theorem rawEqualsZero_unmarkDeep {x : Value} (h : x.isMarked = false) :
    rawEqualsZero x.unmarkDeep = rawEqualsZero x := by
  obtain ⟨t, p⟩ := x
  cases p <;> simp_all [isMarked, Payload.isMarked, unmarkDeep, Payload.stripMarks, rawEqualsZero]

theorem keyIndex_unmarkDeep {x : Value} (h : x.isMarked = false) : keyIndex x.unmarkDeep = keyIndex x := by
  obtain ⟨t, p⟩ := x
  cases p <;> simp_all [isMarked, Payload.isMarked, unmarkDeep, Payload.stripMarks, keyIndex]

theorem knownCollLen_unmarkDeep {x : Value} (h : x.isMarked = false) : knownCollLen x.unmarkDeep = knownCollLen x := by
  obtain ⟨t, p⟩ := x
  cases p <;> cases t <;>
    simp_all [isMarked, Payload.isMarked, unmarkDeep, Payload.stripMarks, knownCollLen, Payload.stripMarksL_length,
      Payload.whollyKnownL_stripMarksL]

theorem range_unmarkDeep {x : Value} (h : x.isMarked = false) : x.unmarkDeep.range = x.range := by
  have hk := knownCollLen_unmarkDeep h
  obtain ⟨t, p⟩ := x
  cases p <;> simp_all [isMarked, Payload.isMarked, unmarkDeep, Payload.stripMarks, range]
  all_goals (cases t <;> simp_all)

theorem typeCheckAux_unmarkDeep (req : Ty) : ∀ (vs : List Value) (d u : Bool), (∀ v ∈ vs, v.isMarked = false) →
    typeCheckAux req (vs.map unmarkDeep) d u = typeCheckAux req vs d u
  | [], _, _, _ => rfl
  | v :: vs, d, u, h => by
    have hv := h v (by simp)
    have ih := fun d u => typeCheckAux_unmarkDeep req vs d u (fun w hw => h w (by simp [hw]))
    simp only [List.map_cons, typeCheckAux, isUnk_unmarkDeep hv, ih]
    rfl

theorem typeCheck2_unmarkDeep (req : Ty) {x y : Value} (hx : x.isMarked = false) (hy : y.isMarked = false) :
    typeCheck req [x.unmarkDeep, y.unmarkDeep] = typeCheck req [x, y] :=
  typeCheckAux_unmarkDeep req [x, y] false false (by simp [hx, hy])

theorem typeCheck1_unmarkDeep (req : Ty) {x : Value} (hx : x.isMarked = false) :
    typeCheck req [x.unmarkDeep] = typeCheck req [x] :=
  typeCheckAux_unmarkDeep req [x] false false (by simp [hx])

/-! ### arithmetic, comparison, logic: results never carry a mark … -/

theorem rangeArithC_clean (corner : Option Num → Option Num → Option Num) (a b : Value) :
    (rangeArithC corner a b).All Clean := by
  unfold rangeArithC
  repeat (first | apply Res.All.bind; intro _ | exact Res.All.pure (clean_numRangeResult _ _))
theorem rangeArith_clean (op : Num → Num → Res Num) (a b : Value) : (rangeArith op a b).All Clean :=
  rangeArithC_clean _ a b

/-- walk a `do`-block whose leaves are `pure (numVal _)`, `pure (boolVal _)`, `pure unkBool`, … -/
macro "clean_walk" : tactic => `(tactic|
  repeat (first
    | apply Res.All.bind; intro _
    | exact Res.All.pure (clean_numVal _)
    | exact Res.All.pure (clean_boolVal _)
    | exact Res.All.pure clean_unkBool
    | exact Res.All.pure clean_unkNumNotNull
    | exact Res.All.pure (clean_numRangeResult _ _)
    | exact Res.All.ok (clean_boolVal _)
    | exact Res.All.ok clean_unkBool
    | exact Res.All.ok (clean_intVal _)
    | exact Res.All.ok (clean_numRangeResult _ _)
    | exact rangeArith_clean _ _ _
    | exact Res.All.panic
    | exact Res.All.unmodelled
    | (apply Res.All.ite <;> intro _)
    | split))

theorem addU_clean (a b : Value) : (addU a b).All Clean := by unfold addU; clean_walk
theorem subU_clean (a b : Value) : (subU a b).All Clean := by unfold subU; clean_walk
theorem mulU_clean (a b : Value) : (mulU a b).All Clean := by
  unfold mulU
  apply Res.All.bind; intro _
  split
  · clean_walk
  · apply Res.All.ite <;> intro _
    · exact Res.All.pure rfl
    · exact rangeArithC_clean _ _ _
theorem divU_clean (a b : Value) : (divU a b).All Clean := by unfold divU; clean_walk
theorem negU_clean (a : Value) : (negU a).All Clean := by unfold negU; clean_walk
theorem absU_clean (a : Value) : (absU a).All Clean := by
  unfold absU
  apply Res.All.bind; intro _
  split
  · clean_walk
  · exact Res.All.pure rfl
theorem notU_clean (a : Value) : (notU a).All Clean := by unfold notU; clean_walk
theorem andU_clean (a b : Value) : (andU a b).All Clean := by unfold andU; clean_walk
theorem orU_clean (a b : Value) : (orU a b).All Clean := by unfold orU; clean_walk
theorem lessThanU_clean (a b : Value) : (lessThanU a b).All Clean := by unfold lessThanU; clean_walk
theorem greaterThanU_clean (a b : Value) : (greaterThanU a b).All Clean := by unfold greaterThanU; clean_walk
theorem hasIndexU_clean (a b : Value) : (hasIndexU a b).All Clean := by unfold hasIndexU; clean_walk
theorem lengthU_clean (a : Value) : (lengthU a).All Clean := by unfold lengthU; clean_walk

/-- Modulo is the one arithmetic method that can hand back an operand itself
(`other.RawEquals(Zero)` → `return val`) -/
theorem modU_clean (a b : Value) : (modU a b).All (fun r => Clean r ∨ r = a) := by
  unfold modU
  apply Res.All.bind; intro tc
  split
  · simp only []
    apply Res.All.ite <;> intro _
    · repeat (first | apply Res.All.bind; intro _ | exact Res.All.pure (.inl (clean_numVal _)))
    · apply Res.All.ite <;> intro _
      · exact Res.All.pure (.inr rfl)
      · repeat (first | apply Res.All.bind; intro _ | exact Res.All.pure (.inl (clean_numVal _)))
        split
        · exact Res.All.panic
        · repeat (first | apply Res.All.bind; intro _ | exact Res.All.pure (.inl (clean_numVal _)))
  · exact Res.All.pure (.inl clean_unkNumNotNull)

/-! ### … and do not depend on marks nested in the operands -/

section
variable {x y : Value} (hx : x.isMarked = false) (hy : y.isMarked = false)
include hx hy

theorem addU_strip : addU x.unmarkDeep y.unmarkDeep = addU x y := by
  simp only [addU, rangeArith, rangeArithC, typeCheck2_unmarkDeep _ hx hy, asNum_unmarkDeep hx, asNum_unmarkDeep hy,
    range_unmarkDeep hx, range_unmarkDeep hy]
theorem subU_strip : subU x.unmarkDeep y.unmarkDeep = subU x y := by
  simp only [subU, rangeArith, rangeArithC, typeCheck2_unmarkDeep _ hx hy, asNum_unmarkDeep hx, asNum_unmarkDeep hy,
    range_unmarkDeep hx, range_unmarkDeep hy]
theorem mulU_strip : mulU x.unmarkDeep y.unmarkDeep = mulU x y := by
  simp only [mulU, rangeArithC, typeCheck2_unmarkDeep _ hx hy, asNum_unmarkDeep hx, asNum_unmarkDeep hy,
    range_unmarkDeep hx, range_unmarkDeep hy, rawEqualsZero_unmarkDeep hx, rawEqualsZero_unmarkDeep hy]
theorem divU_strip : divU x.unmarkDeep y.unmarkDeep = divU x y := by
  simp only [divU, typeCheck2_unmarkDeep _ hx hy, asNum_unmarkDeep hx, asNum_unmarkDeep hy]
theorem lessThanU_strip : lessThanU x.unmarkDeep y.unmarkDeep = lessThanU x y := by
  simp only [lessThanU, rangeLess, typeCheck2_unmarkDeep _ hx hy, asNum_unmarkDeep hx, asNum_unmarkDeep hy,
    range_unmarkDeep hx, range_unmarkDeep hy]
theorem greaterThanU_strip : greaterThanU x.unmarkDeep y.unmarkDeep = greaterThanU x y := by
  simp only [greaterThanU, typeCheck2_unmarkDeep _ hx hy, asNum_unmarkDeep hx, asNum_unmarkDeep hy,
    range_unmarkDeep hx, range_unmarkDeep hy]
theorem andU_strip : andU x.unmarkDeep y.unmarkDeep = andU x y := by
  simp only [andU, typeCheck2_unmarkDeep _ hx hy, asBool_unmarkDeep hx, asBool_unmarkDeep hy,
    isLitBool_unmarkDeep _ hx, isLitBool_unmarkDeep _ hy]
theorem orU_strip : orU x.unmarkDeep y.unmarkDeep = orU x y := by
  simp only [orU, typeCheck2_unmarkDeep _ hx hy, asBool_unmarkDeep hx, asBool_unmarkDeep hy,
    isLitBool_unmarkDeep _ hx, isLitBool_unmarkDeep _ hy]

theorem modU_rel : Res.Rel (fun r r' => r.unmarkDeep = r') (modU x y) (modU x.unmarkDeep y.unmarkDeep) := by
  unfold modU
  apply Res.Rel.bind_eq (typeCheck2_unmarkDeep _ hx hy).symm
  intro tc
  cases tc
  · simp only []
    apply Res.Rel.ite
    · obtain ⟨tx, px⟩ := x
      obtain ⟨ty, py⟩ := y
      cases px <;> cases py <;> simp_all [isMarked, Payload.isMarked, unmarkDeep, Payload.stripMarks]
    · simp only [asNum_unmarkDeep hx, asNum_unmarkDeep hy]
      repeat (first | apply Res.Rel.bind_eq rfl; intro _ | exact Res.Rel.pure rfl)
    · apply Res.Rel.ite
      · obtain ⟨ty, py⟩ := y
        cases py <;> simp_all [isMarked, Payload.isMarked, unmarkDeep, Payload.stripMarks]
      · exact Res.Rel.pure rfl
      · simp only [asNum_unmarkDeep hx, asNum_unmarkDeep hy]
        repeat (first | apply Res.Rel.bind_eq rfl; intro _ | exact Res.Rel.pure rfl)
        split
        · exact Res.Rel.panic _
        · repeat (first | apply Res.Rel.bind_eq rfl; intro _ | exact Res.Rel.pure rfl)
  all_goals exact Res.Rel.pure rfl
end

section
variable {x : Value} (hx : x.isMarked = false)
include hx
theorem negU_strip : negU x.unmarkDeep = negU x := by
  simp only [negU, typeCheck1_unmarkDeep _ hx, asNum_unmarkDeep hx]
theorem absU_strip : absU x.unmarkDeep = absU x := by
  simp only [absU, typeCheck1_unmarkDeep _ hx, asNum_unmarkDeep hx]
theorem notU_strip : notU x.unmarkDeep = notU x := by
  simp only [notU, typeCheck1_unmarkDeep _ hx, asBool_unmarkDeep hx]
end

/-! ### attribute / index / membership / length -/

theorem lookupKey_stripMarksL (k : String) : ∀ (ks : List String) (vs : List Payload),
    lookupKey k ks (Payload.stripMarksL vs) = (lookupKey k ks vs).map Payload.stripMarks
  | [], _ => by simp [lookupKey]
  | _ :: _, [] => by simp [lookupKey, Payload.stripMarksL]
  | n :: ns, v :: vs => by
    simp only [lookupKey, Payload.stripMarksL]
    split
    · rfl
    · exact lookupKey_stripMarksL k ns vs

theorem getElem?_stripMarksL (vs : List Payload) (i : Nat) :
    (Payload.stripMarksL vs)[i]? = vs[i]?.map Payload.stripMarks := by
  simp [Payload.stripMarksL_eq_map]

theorem lengthU_strip {x : Value} (hx : x.isMarked = false) : lengthU x.unmarkDeep = lengthU x := by
  have hk := isKnown_unmarkDeep hx
  have hr := range_unmarkDeep hx
  obtain ⟨t, p⟩ := x
  unfold lengthU
  simp only [hk, hr]
  cases p <;> cases t <;>
    simp_all [isMarked, Payload.isMarked, unmarkDeep, Payload.stripMarks, Payload.stripMarksL_length,
      Payload.whollyKnownL_stripMarksL]

@[simp] theorem ty_unmarkDeep (x : Value) : x.unmarkDeep.ty = x.ty := rfl

theorem hasIndexU_strip {x y : Value} (hx : x.isMarked = false) (hy : y.isMarked = false) :
    hasIndexU x.unmarkDeep y.unmarkDeep = hasIndexU x y := by
  have hkx := isKnown_unmarkDeep hx
  have hky := isKnown_unmarkDeep hy
  have hki := keyIndex_unmarkDeep hy
  unfold hasIndexU
  simp only [hkx, hky, hki, ty_unmarkDeep]
  obtain ⟨tx, px⟩ := x
  cases px
  case marked => simp [isMarked, Payload.isMarked] at hx
  case smap ks vs =>
    obtain ⟨ty, py⟩ := y
    cases py <;> simp [unmarkDeep, Payload.stripMarks]
    simp [isMarked, Payload.isMarked] at hy
  all_goals simp [unmarkDeep, Payload.stripMarks, Payload.stripMarksL_length]



theorem unmarkDeep_mk (t : Ty) (p : Payload) : (⟨t, p⟩ : Value).unmarkDeep = ⟨t, p.stripMarks⟩ := rfl

theorem seq_get_rel (t : Ty) (vs : List Payload) (i : Nat) (w : String) :
    Res.Rel (fun (r r' : Value) => r.unmarkDeep = r')
      (match vs[i]? with | some p => Res.ok (⟨t, p⟩ : Value) | none => Res.panic w)
      (match (Payload.stripMarksL vs)[i]? with | some p => Res.ok (⟨t, p⟩ : Value) | none => Res.panic w) := by
  rw [getElem?_stripMarksL]
  cases vs[i]? <;> simp [Res.Rel, unmarkDeep]

theorem getD_map_strip (o : Option Payload) :
    (o.map Payload.stripMarks).getD .null = Payload.stripMarks (o.getD .null) := by
  cases o <;> simp [Payload.stripMarks]

theorem indexU_rel {x y : Value} (hx : x.isMarked = false) (hy : y.isMarked = false) :
    Res.Rel (fun r r' => r.unmarkDeep = r') (indexU x y) (indexU x.unmarkDeep y.unmarkDeep) := by
  have hkx := isKnown_unmarkDeep hx
  have hky := isKnown_unmarkDeep hy
  have hki := keyIndex_unmarkDeep hy
  unfold indexU
  simp only [hkx, hky, hki, ty_unmarkDeep]
  obtain ⟨tx, px⟩ := x
  cases tx
  case list e =>
    simp only [Ty.isDyn, Bool.false_eq_true, if_false]
    repeat (first | (apply Res.Rel.ite Iff.rfl) | exact Res.Rel.ok rfl | exact Res.Rel.panic _)
    apply Res.Rel.bind_eq rfl; intro k
    cases k
    · exact Res.Rel.panic _
    · cases px <;> simp only [unmarkDeep_mk, Payload.stripMarks] <;>
        first | exact Res.Rel.panic _ | exact seq_get_rel _ _ _ _ | skip
      simp [isMarked, Payload.isMarked] at hx
  case map e =>
    simp only [Ty.isDyn, Bool.false_eq_true, if_false]
    repeat (first | (apply Res.Rel.ite Iff.rfl) | exact Res.Rel.ok rfl | exact Res.Rel.panic _)
    obtain ⟨ty, py⟩ := y
    cases py <;> cases px <;>
      simp_all [unmarkDeep_mk, Payload.stripMarks, Res.Rel, isMarked, Payload.isMarked, lookupKey_stripMarksL,
        getD_map_strip]
  case tuple es =>
    simp only [Ty.isDyn, Bool.false_eq_true, if_false]
    repeat (first | (apply Res.Rel.ite Iff.rfl) | exact Res.Rel.ok rfl | exact Res.Rel.panic _)
    apply Res.Rel.bind_eq rfl; intro k
    cases k
    · exact Res.Rel.panic _
    · rename_i i
      simp only []
      cases es[i]?
      · exact Res.Rel.panic _
      · simp only []
        apply Res.Rel.ite Iff.rfl
        · exact Res.Rel.ok rfl
        · cases px <;> simp only [unmarkDeep_mk, Payload.stripMarks] <;>
            first | exact Res.Rel.panic _ | exact seq_get_rel _ _ _ _ | skip
          simp [isMarked, Payload.isMarked] at hx
  all_goals simp [Ty.isDyn, Res.Rel, dynVal, unmarkDeep, Payload.stripMarks]


theorem getAttrU_rel {x : Value} (name : String) (hx : x.isMarked = false) :
    Res.Rel (fun r r' => r.unmarkDeep = r') (getAttrU x name) (getAttrU x.unmarkDeep name) := by
  have hkx := isKnown_unmarkDeep hx
  unfold getAttrU
  simp only [hkx, ty_unmarkDeep]
  obtain ⟨tx, px⟩ := x
  apply Res.Rel.ite Iff.rfl
  · exact Res.Rel.ok rfl
  · cases tx
    case object ns ts os =>
      simp only []
      cases Ty.find name ns ts os
      · exact Res.Rel.panic _
      · simp only []
        apply Res.Rel.ite Iff.rfl
        · exact Res.Rel.ok rfl
        · cases px <;> simp only [unmarkDeep_mk, Payload.stripMarks] <;> first | exact Res.Rel.panic _ | skip
          · rename_i ks vs
            rw [lookupKey_stripMarksL]
            cases lookupKey name ks vs <;> simp [Res.Rel, unmarkDeep, Payload.stripMarks]
          · simp [isMarked, Payload.isMarked] at hx
    all_goals exact Res.Rel.panic _

/-! where the marks of a looked-up member come from -/

theorem lookupKey_mem {k : String} : ∀ {ks : List String} {vs : List Payload} {p : Payload},
    lookupKey k ks vs = some p → p ∈ vs
  | [], _, _, h => by simp [lookupKey] at h
  | _ :: _, [], _, h => by simp [lookupKey] at h
  | n :: ns, v :: vs, p, h => by
    simp only [lookupKey] at h
    split at h
    · simp at h; simp [h]
    · exact List.mem_cons_of_mem _ (lookupKey_mem h)

/-- marks anywhere in `r` are marks anywhere in `x` -/
def MarksFrom (x r : Value) : Prop := ∀ m ∈ r.marksDeep, m ∈ x.marksDeep

theorem MarksFrom.of_clean {x r : Value} (h : r.Clean) : MarksFrom x r := by
  intro m hm; rw [h.marksDeep] at hm; simp at hm

theorem marksFrom_seq {t e : Ty} {vs : List Payload} {i : Nat} {p : Payload} (h : vs[i]? = some p) :
    MarksFrom ⟨t, .seq vs⟩ ⟨e, p⟩ := by
  intro m hm
  exact Payload.marksDeepL_of_mem (List.mem_of_getElem? h) hm

theorem marksFrom_smap {t e : Ty} {ks : List String} {vs : List Payload} {k : String} {p : Payload}
    (h : lookupKey k ks vs = some p) : MarksFrom ⟨t, .smap ks vs⟩ ⟨e, p⟩ := by
  intro m hm
  exact Payload.marksDeepL_of_mem (lookupKey_mem h) hm

theorem getAttrU_marks (x : Value) (name : String) : (getAttrU x name).All (MarksFrom x) := by
  unfold getAttrU
  obtain ⟨tx, px⟩ := x
  apply Res.All.ite <;> intro _
  · exact Res.All.ok (.of_clean clean_dynVal)
  · split
    · split
      · exact Res.All.panic
      · apply Res.All.ite <;> intro _
        · exact Res.All.ok (.of_clean (clean_unknown _))
        · split
          · split
            · rename_i h1 _ _ h2
              have h1' : px = Payload.smap _ _ := h1
              subst h1'
              exact Res.All.ok (marksFrom_smap h2)
            · exact Res.All.ok (.of_clean rfl)
          · exact Res.All.panic
    · exact Res.All.panic


theorem marksFrom_smap_getD {t e : Ty} {ks : List String} {vs : List Payload} {k : String} :
    MarksFrom ⟨t, .smap ks vs⟩ ⟨e, (lookupKey k ks vs).getD .null⟩ := by
  cases h : lookupKey k ks vs
  · exact .of_clean rfl
  · exact marksFrom_smap h

theorem indexU_marks (x y : Value) : (indexU x y).All (MarksFrom x) := by
  unfold indexU
  obtain ⟨tx, px⟩ := x
  repeat' (first
    | (apply Res.All.ite <;> intro _)
    | (apply Res.All.bind; intro _)
    | exact Res.All.ok (.of_clean clean_dynVal)
    | exact Res.All.ok (.of_clean (clean_unknown _))
    | exact Res.All.panic
    | split)
  all_goals (simp only [] at *; subst_vars)
  all_goals first
    | exact Res.All.ok (marksFrom_seq ‹_›)
    | exact Res.All.ok marksFrom_smap_getD


theorem hasElementU_clean (v e : Value) (h : Option Int) : (hasElementU v e h).All Clean := by
  unfold hasElementU
  repeat' (first
    | (apply Res.All.ite <;> intro _)
    | exact Res.All.ok (clean_boolVal _)
    | exact Res.All.ok clean_unkBool
    | exact Res.All.panic
    | (apply Res.All.map; intro found; split <;> (try split) <;> first | exact clean_boolVal _ | exact clean_unkBool)
    | split)

theorem hasElementU_strip {w : Value} (e : Value) (h : Option Int) (hw : w.isMarked = false)
    (hs : w.v.setsClean = true) : hasElementU w.unmarkDeep e h = hasElementU w e h := by
  have h1 := isNull_unmarkDeep hw
  have h2 := isKnown_unmarkDeep hw
  have h3 := whollyKnown_unmarkDeep w
  unfold hasElementU
  simp only [h1, h2, h3, ty_unmarkDeep]
  obtain ⟨t, p⟩ := w
  cases p
  case sset ids vs =>
    have : Payload.stripMarksL vs = vs := Payload.stripMarksL_of_clean vs (by simpa [Payload.setsClean] using hs)
    simp [unmarkDeep_mk, Payload.stripMarks, this]
  all_goals simp [unmarkDeep_mk, Payload.stripMarks]
  simp [isMarked, Payload.isMarked] at hw


theorem clean_accVal (a : EqAcc) : Clean (accVal a) := by cases a <;> rfl

theorem equalsPre_clean (a b : Value) : (equalsPre a b).All (fun o => ∀ r, o = some r → Clean r) := by
  unfold equalsPre
  repeat' (first
    | (apply Res.All.ite <;> intro _)
    | (apply Res.All.bind; intro _)
    | (apply Res.All.pure; intro r hr; simp at hr; subst hr; first | exact clean_boolVal _ | exact clean_unkBool)
    | (apply Res.All.pure; intro r hr; simp at hr)
    | exact Res.All.panic
    | split)


theorem equalsFuel_clean : ∀ (n : Nat) (ta : Ty) (a : Payload) (tb : Ty) (b : Payload),
    (equalsFuel n ta a tb b).All Clean
  | 0, _, _, _, _ => Res.All.unmodelled
  | n + 1, ta, a, tb, b => by
    unfold equalsFuel
    have hpre := equalsPre_clean ⟨ta, a⟩ ⟨tb, b⟩
    split
    · rename_i r heq
      rw [heq] at hpre
      exact Res.All.ok (hpre r rfl)
    · trivial
    · trivial
    · trivial
    · repeat' (first
        | (apply Res.All.ite <;> intro _)
        | exact Res.All.ok (clean_boolVal _)
        | exact Res.All.ok clean_unkBool
        | exact Res.All.panic
        | exact Res.All.unmodelled
        | trivial
        | (apply Res.All.map; intro _; exact clean_accVal _)
        | split)
      -- the set branch: two membership loops, each answering unknown or a boolean
      all_goals
        simp only []
        repeat' (first
          | exact Res.All.ok (clean_boolVal _)
          | exact Res.All.ok clean_unkBool
          | exact Res.All.panic
          | exact Res.All.unmodelled
          | trivial
          | split)

theorem equalsP_clean (ta : Ty) (a : Payload) (tb : Ty) (b : Payload) : (equalsP ta a tb b).All Clean :=
  equalsFuel_clean _ _ _ _ _

end Value
end CtyModel
