/-
No addressable member is left out: every step that NAMES AN EXISTING MEMBER of a
known value (`stepExists`, the predicate `Path.Apply` succeeds by —
`C19.apply_step_ok_iff_exists`) is, up to the representation of the key, the step
of one of the members `walk` descends into.

`sameStep` — two steps name the same member: the same attribute; number keys that
denote the same whole-number index (`keyIndex`, what `Value.Index` reads of the
key); string keys with the same content.  Marks on keys play no part.
-/
import CtyModel.Lemmas.d19Members
import CtyModel.Lemmas.WalkSteps
namespace CtyModel
namespace Walk
open Value

/-- the two steps name the same member -/
def sameStep : PathStep → PathStep → Bool
  | .getAttr a, .getAttr b => a == b
  | .index a, .index b =>
    (match a.ty, b.ty with
     | .number, .number =>
       (match keyIndex a.unmark, keyIndex b.unmark with
        | .ok (some i), .ok (some j) => i == j
        | _, _ => false)
     | .string, .string =>
       (match a.v.unmark1, b.v.unmark1 with
        | .s x, .s y => x == y
        | _, _ => false)
     | _, _ => false)
  | _, _ => false

theorem sameStep_intVal (k : Value) (i : Nat) (hty : k.ty = .number)
    (hk : keyIndex k.unmark = .ok (some i)) (hi : (i : Int) ≤ maxInt) :
    sameStep (.index k) (.index (intVal (i : Int))) = true := by
  have h2 : keyIndex (intVal (i : Int)).unmark = .ok (some i) := by
    rw [unmark_of_not_marked _ (intVal_props i).2.1]
    exact keyIndex_intVal i hi
  simp [sameStep, hty, (intVal_props i).1, hk, h2]

theorem sameStep_strVal (k : Value) (key : String) (hty : k.ty = .string)
    (hk : k.v.unmark1 = .s key) : sameStep (.index k) (.index (strVal key)) = true := by
  have h2 : (strVal key).v.unmark1 = .s key := rfl
  have h3 : (strVal key).ty = .string := rfl
  simp only [sameStep, hty, h3, hk, h2, beq_self_eq_true]

/-- **every existing member is a kid**: a step that names an existing member of a
known shaped value (a known key, or an attribute) names the same member as the
step of one of the value's kids -/
theorem kid_of_stepExists (X : SetOracle) (s : PathStep) (v : Value) (hs : shapedV v = true)
    (hknown : v.isKnown = true)
    (hk : (match s with | .index k => k.isKnown | .getAttr _ => true) = true)
    (h : stepExists s v = true) : ∃ c ∈ kids X v, sameStep s c.1 = true := by
  simp only [stepExists, Bool.and_eq_true, Bool.not_eq_true'] at h
  obtain ⟨hnull, h⟩ := h
  have spec := kids_steps_spec X v hs hnull hknown
  suffices hsuf : ∃ s' ∈ (kids X v).map (·.1), sameStep s s' = true by
    obtain ⟨s', hm, hss⟩ := hsuf
    obtain ⟨c, hc, rfl⟩ := List.mem_map.mp hm
    exact ⟨c, hc, hss⟩
  have hsu : shaped v.ty v.v.unmark1 = true := shaped_unmark1 hs
  have hmu := shaped_unmark1_notMarked hs
  have hraw := raw_of_flags hnull hknown
  obtain ⟨t, p⟩ := v
  simp only at hsu hmu hraw h
  cases s with
  | getAttr n =>
    cases t <;> simp only [Bool.false_eq_true] at h
    rename_i ns ts os
    obtain ⟨vs, hv, _, _⟩ := shaped_known_cases hsu hmu hraw.1 hraw.2
    simp only [StepsSpec, hv] at spec
    rw [spec]
    refine ⟨.getAttr n, List.mem_map.mpr ⟨n, by simpa using h, rfl⟩, by simp [sameStep]⟩
  | index k =>
    simp only at hk
    simp only [hk, if_true, Bool.and_eq_true, Bool.not_eq_true'] at h
    obtain ⟨_, h⟩ := h
    simp only [indexExists, hknown, if_true] at h
    have hkty : k.unmark.ty = k.ty := rfl
    have hkv : k.unmark.v = k.v.unmark1 := rfl
    rw [hkty] at h
    cases hkt : k.ty <;> simp only [hkt] at h <;> try (cases t <;> simp at h; done)
    · -- number key: list or tuple
      cases t <;> simp only [Bool.false_eq_true] at h
      · -- list
        rename_i e
        obtain ⟨vs, hv⟩ := shaped_known_cases hsu hmu hraw.1 hraw.2
        simp only [hv] at h hsu
        cases hki : keyIndex k.unmark with
        | ok o =>
          cases o with
          | none => simp [hki] at h
          | some i =>
            simp only [hki, decide_eq_true_eq] at h
            simp only [StepsSpec, hv] at spec
            rw [spec]
            simp only [shaped, Bool.and_eq_true, decide_eq_true_eq] at hsu
            refine ⟨.index (intVal (i : Int)), List.mem_map.mpr ⟨i, List.mem_range.mpr h, rfl⟩,
              sameStep_intVal k i hkt hki (by have := hsu.1; omega)⟩
        | err c => simp [hki] at h
        | panic w => simp [hki] at h
        | unmodelled => simp [hki] at h
      · -- tuple
        rename_i ts
        obtain ⟨vs, hv, hlen⟩ := shaped_known_cases hsu hmu hraw.1 hraw.2
        simp only [hv] at hsu
        cases hki : keyIndex k.unmark with
        | ok o =>
          cases o with
          | none => simp [hki] at h
          | some i =>
            simp only [hki, decide_eq_true_eq] at h
            simp only [StepsSpec, hv] at spec
            rw [spec]
            simp only [shaped, Bool.and_eq_true, decide_eq_true_eq, beq_iff_eq] at hsu
            refine ⟨.index (intVal (i : Int)), List.mem_map.mpr ⟨i, List.mem_range.mpr h, rfl⟩,
              sameStep_intVal k i hkt hki (by have := hsu.1.2; omega)⟩
        | err c => simp [hki] at h
        | panic w => simp [hki] at h
        | unmodelled => simp [hki] at h
    · -- string key: map
      cases t <;> simp only [Bool.false_eq_true] at h
      rename_i e
      obtain ⟨ks, vs, hv⟩ := shaped_known_cases hsu hmu hraw.1 hraw.2
      simp only [hv, hkv] at h
      cases hkp : k.v.unmark1 <;> simp only [hkp, Bool.false_eq_true] at h
      rename_i key
      simp only [StepsSpec, hv] at spec
      rw [spec]
      refine ⟨.index (strVal key), List.mem_map.mpr ⟨key, by simpa using h, rfl⟩,
        sameStep_strVal k key hkt hkp⟩

/-! ### lifted to the pre-order listing (= the visits of `Walk`) -/

theorem nodeAt_append (X : SetOracle) : ∀ (r : Pos) (v n : Value) (r' : Pos),
    nodeAt X v r = some n → nodeAt X v (r ++ r') = nodeAt X n r'
  | [], v, n, r', h => by
    simp only [nodeAt, Option.some.injEq] at h
    subst h
    rfl
  | j :: r, v, n, r', h => by
    simp only [nodeAt, List.cons_append] at h ⊢
    cases hc : (kids X v)[j]? with
    | none => simp [hc] at h
    | some c =>
      simp only [hc] at h ⊢
      exact nodeAt_append X r c.2 n r' h

theorem pathAt_append (X : SetOracle) : ∀ (r : Pos) (v n : Value) (p : Path) (r' : Pos),
    nodeAt X v r = some n → pathAt X v r = some p →
    pathAt X v (r ++ r') = (pathAt X n r').map (p ++ ·)
  | [], v, n, p, r', h, hp => by
    simp only [nodeAt, Option.some.injEq] at h
    simp only [pathAt, Option.some.injEq] at hp
    subst h hp
    cases hq : pathAt X v r' <;> simp [hq]
  | j :: r, v, n, p, r', h, hp => by
    simp only [nodeAt, pathAt, List.cons_append] at h hp ⊢
    cases hc : (kids X v)[j]? with
    | none => simp [hc] at h
    | some c =>
      simp only [hc, Option.map_eq_some_iff] at h hp ⊢
      obtain ⟨q, hq, rfl⟩ := hp
      rw [pathAt_append X r c.2 n q r' h hq]
      cases pathAt X n r' <;> simp

/-- **the listing contains every existing member of each of its known entries**:
if the step `s` names an existing member of a known member `n` listed under path
`p`, the listing has an entry under `p ++ [s']` with `s'` naming the same member -/
theorem preorder_has_kid {X : SetOracle} (hX : IterPerm X) (root : Value) (hs : shapedV root = true)
    (e : Node) (he : e ∈ preorder X root) (s : PathStep) (hknown : e.2.2.isKnown = true)
    (hk : (match s with | .index k => k.isKnown | .getAttr _ => true) = true)
    (h : stepExists s e.2.2 = true) :
    ∃ e' ∈ preorder X root, ∃ s', e'.2.1 = e.2.1 ++ [s'] ∧ sameStep s s' = true := by
  obtain ⟨r, p, h1, h2, h3, h4⟩ := mem_preFuel _ [] [] root e he
  simp only [List.nil_append] at h1 h4
  have hsn := nodeAt_shaped hX r root e.2.2 hs h2
  obtain ⟨c, hc, hss⟩ := kid_of_stepExists X s e.2.2 hsn hknown hk h
  obtain ⟨j, hj⟩ := List.getElem?_of_mem hc
  have hnode : nodeAt X root (r ++ [j]) = some c.2 := by
    rw [nodeAt_append X r root e.2.2 [j] h2]
    simp [nodeAt, hj]
  have hpath : pathAt X root (r ++ [j]) = some (p ++ [c.1]) := by
    rw [pathAt_append X r root e.2.2 p [j] h2 h3]
    simp [pathAt, hj]
  obtain ⟨e', he', hpos⟩ := pos_mem_preFuel hX (root.v.depth + 1) root (by omega) [] [] (r ++ [j]) c.2 hnode
  obtain ⟨r', p', g1, _, g3, g4⟩ := mem_preFuel _ [] [] root e' he'
  simp only [List.nil_append] at hpos g1 g4
  rw [hpos] at g1
  subst g1
  rw [hpath] at g3
  cases g3
  exact ⟨e', he', c.1, by rw [g4, h4], hss⟩

end Walk
end CtyModel
