/-
C17 (JSON half) — size measures for the allocation clause: `Json.size` (tokens of the document:
what the input costs), `Payload.nodes` (payload nodes of the decoded value: what the decoder
constructs), `Ty.width` (largest attribute count of an object type inside a type).

cty's decoders are recursive over the token tree (structural recursion in the model: every
recursive call is on a strict sub-tree, so nesting depth of calls ≤ depth of the tree and number
of calls ≤ `Json.size`).  What they CONSTRUCT is not bounded by a constant multiple of the input:
an object decoded against an object type gets a `null` for every attribute the document does not
mention (`objectVal`, "make sure we have a value for every attribute"), so `k` empty objects
against a type with `w` attributes cost `k·(w+1)` payload nodes for `k + O(1)` tokens — and with
the dynamic pseudo-type the object type itself comes from the document (`w` more tokens).
`encoding/json`'s own buffering is outside the model.
-/
import CtyModel.Lemmas.C17JsonDec
namespace CtyModel

namespace Json
mutual
/-- number of tokens: one per scalar, one per array/object, one per object key -/
def size : Json → Nat
  | .arr xs => 1 + sizeL xs
  | .obj ks vs => 1 + ks.length + sizeL vs
  | _ => 1
def sizeL : List Json → Nat
  | [] => 0
  | x :: xs => size x + sizeL xs
end
end Json

namespace Payload
mutual
/-- number of payload nodes -/
def nodes : Payload → Nat
  | .seq vs | .smap _ vs | .sset _ vs => 1 + nodesL vs
  | .marked _ r => 1 + nodes r
  | _ => 1
def nodesL : List Payload → Nat
  | [] => 0
  | v :: vs => nodes v + nodesL vs
end
end Payload

namespace Ty
mutual
/-- the largest number of attributes of an object type occurring in the type -/
def width : Ty → Nat
  | .list e | .set e | .map e => width e
  | .tuple es => widthL es
  | .object ns ts _ => max ns.length (widthL ts)
  | _ => 0
def widthL : List Ty → Nat
  | [] => 0
  | t :: ts => max (width t) (widthL ts)
end
end Ty

namespace C17Json
open JsonVal

/-- `k` copies of the empty object -/
def empties (k : Nat) : List Json := List.replicate k (.obj [] [])

/-- `{"type":["list",["object",{a..h:"bool"}]],"value":[{},…,{}]}` with `k` empty objects -/
def bombDoc (k : Nat) : Json :=
  .obj ["type", "value"]
    [.arr [.str "list", .arr [.str "object",
       .obj ["a", "b", "c", "d", "e", "f", "g", "h"] (List.replicate 8 (.str "bool"))]],
     .arr (empties k)]

end C17Json
end CtyModel
