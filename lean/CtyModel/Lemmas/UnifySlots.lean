/-
The shape of everything `unify` returns: whenever `unifyF` answers `(t, convs)`, the
slice has one slot per input and every slot is of one of the five forms of `SlotRel`
(UnifySpec.lean).  All the clauses about the returned conversions are read off this.
-/
import CtyModel.Lemmas.UnifyBasic
namespace CtyModel
namespace Unify
open Convert Ty

/-! ### the five `unify…Types` functions -/

theorem convLoop_slots {E : Env} {uns : Bool} {t : Ty} {ts : List Ty} {cs : Convs}
    (h : convLoop E uns t ts = some cs) : SlotsRel E uns t ts cs := by
  obtain ⟨hl, hg⟩ := convLoop_get h
  refine ⟨hl, ?_⟩
  intro i ty hi
  have hs := hg i ty hi
  have hlt : i < cs.length := by rw [hl]; exact (List.getElem?_eq_some_iff.mp hi).1
  refine ⟨cs[i], List.getElem?_eq_getElem hlt, .direct ?_⟩
  rw [hs, List.getElem?_eq_getElem hlt]

theorem allAsDynamic_slots (E : Env) (uns : Bool) (types : List Ty) {t : Ty} {cs : Convs}
    (h : allAsDynamic types = some (t, cs)) : SlotsRel E uns t types cs := by
  simp only [allAsDynamic, Option.some.injEq, Prod.mk.injEq] at h
  obtain ⟨rfl, rfl⟩ := h
  refine ⟨by simp, ?_⟩
  intro i ty hi
  exact ⟨some .constDyn, by simp [hi], .allDyn rfl⟩

theorem collectionTypes_slots {E : Env} {uns : Bool} {mk : Ty → Ty} {types : List Ty} {hd : Bool} {t : Ty}
    {cs : Convs} (h : collectionTypes E uns mk types hd = .ok (some (t, cs))) : SlotsRel E uns t types cs := by
  unfold collectionTypes at h
  split at h
  · simp only [Res.ok.injEq] at h; exact allAsDynamic_slots E uns types h
  · obtain ⟨ets, _, h⟩ := Res.bind_eq_ok h
    split at h
    · simp at h
    · simp only at h
      split at h
      · simp at h
      · rename_i cs' hc
        simp only [Res.ok.injEq, Option.some.injEq, Prod.mk.injEq] at h
        obtain ⟨rfl, rfl⟩ := h
        exact convLoop_slots hc

theorem objectTypesToMap_slots {E : Env} {uns : Bool} {types : List Ty} {t : Ty} {cs : Convs}
    (h : objectTypesToMap E uns types = .ok (some (t, cs))) : SlotsRel E uns t types cs := by
  unfold objectTypesToMap at h
  obtain ⟨ats, _, h⟩ := Res.bind_eq_ok h
  split at h
  · simp at h
  · simp only at h
    split at h
    · simp at h
    · rename_i cs' hc
      simp only [Res.ok.injEq, Option.some.injEq, Prod.mk.injEq] at h
      obtain ⟨rfl, rfl⟩ := h
      exact convLoop_slots hc

theorem tupleTypesToList_slots {E : Env} {uns : Bool} {types : List Ty} {t : Ty} {cs : Convs}
    (h : tupleTypesToList E uns types = .ok (some (t, cs))) : SlotsRel E uns t types cs := by
  unfold tupleTypesToList at h
  obtain ⟨ats, _, h⟩ := Res.bind_eq_ok h
  split at h
  · simp at h
  · simp only at h
    split at h
    · simp at h
    · rename_i cs' hc
      simp only [Res.ok.injEq, Option.some.injEq, Prod.mk.injEq] at h
      obtain ⟨rfl, rfl⟩ := h
      exact convLoop_slots hc

/-- … and the two fallbacks answer a conversion loop's slice towards the type they return -/
theorem objectTypesToMap_loop {E : Env} {uns : Bool} {types : List Ty} {t : Ty} {cs : Convs}
    (h : objectTypesToMap E uns types = .ok (some (t, cs))) : convLoop E uns t types = some cs := by
  unfold objectTypesToMap at h
  obtain ⟨ats, _, h⟩ := Res.bind_eq_ok h
  split at h
  · simp at h
  · simp only at h
    split at h
    · simp at h
    · rename_i cs' hc
      simp only [Res.ok.injEq, Option.some.injEq, Prod.mk.injEq] at h
      obtain ⟨rfl, rfl⟩ := h
      exact hc

theorem tupleTypesToList_loop {E : Env} {uns : Bool} {types : List Ty} {t : Ty} {cs : Convs}
    (h : tupleTypesToList E uns types = .ok (some (t, cs))) : convLoop E uns t types = some cs := by
  unfold tupleTypesToList at h
  obtain ⟨ats, _, h⟩ := Res.bind_eq_ok h
  split at h
  · simp at h
  · simp only at h
    split at h
    · simp at h
    · rename_i cs' hc
      simp only [Res.ok.injEq, Option.some.injEq, Prod.mk.injEq] at h
      obtain ⟨rfl, rfl⟩ := h
      exact hc

theorem objectTypes_slots {E : Env} {uns : Bool} {types : List Ty} {hd : Bool} {t : Ty} {cs : Convs}
    (h : objectTypes E uns types hd = .ok (some (t, cs))) : SlotsRel E uns t types cs := by
  unfold objectTypes at h
  split at h
  · simp only [Res.ok.injEq] at h; exact allAsDynamic_slots E uns types h
  · obtain ⟨first, _, h⟩ := Res.bind_eq_ok h
    obtain ⟨fn, _, h⟩ := Res.bind_eq_ok h
    obtain ⟨same, _, h⟩ := Res.bind_eq_ok h
    split at h
    · exact objectTypesToMap_slots h
    · obtain ⟨cols, _, h⟩ := Res.bind_eq_ok h
      split at h
      · simp at h
      · simp only at h
        split at h
        · exact objectTypesToMap_slots h
        · rename_i cs' hc
          simp only [Res.ok.injEq, Option.some.injEq, Prod.mk.injEq] at h
          obtain ⟨rfl, rfl⟩ := h
          exact convLoop_slots hc

theorem tupleTypes_slots {E : Env} {uns : Bool} {types : List Ty} {hd : Bool} {t : Ty} {cs : Convs}
    (h : tupleTypes E uns types hd = .ok (some (t, cs))) : SlotsRel E uns t types cs := by
  unfold tupleTypes at h
  split at h
  · simp only [Res.ok.injEq] at h; exact allAsDynamic_slots E uns types h
  · obtain ⟨first, _, h⟩ := Res.bind_eq_ok h
    obtain ⟨fe, _, h⟩ := Res.bind_eq_ok h
    obtain ⟨same, _, h⟩ := Res.bind_eq_ok h
    split at h
    · exact tupleTypesToList_slots h
    · obtain ⟨cols, _, h⟩ := Res.bind_eq_ok h
      split at h
      · simp at h
      · simp only at h
        split at h
        · exact tupleTypesToList_slots h
        · rename_i cs' hc
          simp only [Res.ok.injEq, Option.some.injEq, Prod.mk.injEq] at h
          obtain ⟨rfl, rfl⟩ := h
          exact convLoop_slots hc

/-! ### the preference loop -/

theorem tryCandidate_length (E : Env) (uns : Bool) (w : Nat) (want : Ty) :
    ∀ (rest : List Ty) (i : Nat) (buf : Convs), (tryCandidate E uns w want i rest buf).1.length = buf.length
  | [], _, _ => rfl
  | t :: rest, i, buf => by
    simp only [tryCandidate]
    split
    · rw [tryCandidate_length E uns w want rest]; simp
    · split
      · rw [tryCandidate_length E uns w want rest]; simp
      · split
        · simp
        · rw [tryCandidate_length E uns w want rest]; simp

/-- a pass of the inner loop that ran to its end has written every slot from `i` on -/
theorem tryCandidate_slots (E : Env) (uns : Bool) (w : Nat) (want : Ty) :
    ∀ (rest : List Ty) (i : Nat) (buf buf' : Convs), tryCandidate E uns w want i rest buf = (buf', true) →
      (∀ j, j < i → buf'[j]? = buf[j]?) ∧
      (∀ (k : Nat) (ty : Ty), rest[k]? = some ty → i + k < buf.length →
        ∃ c, buf'[i + k]? = some c ∧ ((i + k = w ∧ c = none) ∨ slotOf E uns want ty = some c))
  | [], _, buf, buf', h => by
    simp only [tryCandidate, Prod.mk.injEq, and_true] at h
    subst h
    exact ⟨fun _ _ => rfl, fun k ty hk => by simp at hk⟩
  | t :: rest, i, buf, buf', h => by
    simp only [tryCandidate] at h
    -- the three ways slot i is written
    have key : ∀ (x : Option UConv), ((i = w ∧ x = none) ∨ slotOf E uns want t = some x) →
        tryCandidate E uns w want (i + 1) rest (buf.set i x) = (buf', true) →
        (∀ j, j < i → buf'[j]? = buf[j]?) ∧
        (∀ (k : Nat) (ty : Ty), (t :: rest)[k]? = some ty → i + k < buf.length →
          ∃ c, buf'[i + k]? = some c ∧ ((i + k = w ∧ c = none) ∨ slotOf E uns want ty = some c)) := by
      intro x hx hrec
      obtain ⟨hpre, hpost⟩ := tryCandidate_slots E uns w want rest (i + 1) (buf.set i x) buf' hrec
      refine ⟨?_, ?_⟩
      · intro j hj
        rw [hpre j (by omega), List.getElem?_set]
        have : ¬ i = j := by omega
        simp [this]
      · intro k ty hk hlt
        cases k with
        | zero =>
          simp only [List.getElem?_cons_zero, Option.some.injEq] at hk
          subst hk
          refine ⟨x, ?_, hx⟩
          rw [Nat.add_zero, hpre i (by omega), List.getElem?_set]
          simp at hlt
          simp [hlt]
        | succ k =>
          have := hpost k ty (by simpa using hk) (by simp; omega)
          have e : i + 1 + k = i + (k + 1) := by omega
          rw [e] at this
          exact this
    split at h
    · rename_i hiw
      exact key none (.inl ⟨by simpa using hiw, rfl⟩) h
    · split at h
      · rename_i he
        exact key none (.inr (by simp [slotOf, he])) h
      · rename_i he
        split at h
        · simp at h
        · rename_i p hp
          exact key (some (.plan p)) (.inr (by simp [slotOf, he, hp])) h

theorem prefLoop_slots (E : Env) (uns : Bool) (types : List Ty) {t : Ty} {cs : Convs} :
    ∀ (ws : List Nat) (buf : Convs), buf.length = types.length →
      prefLoop E uns types ws buf = .ok (some (t, cs)) → SlotsRel E uns t types cs
  | [], _, _, h => by simp [prefLoop] at h
  | w :: ws, buf, hl, h => by
    simp only [prefLoop] at h
    obtain ⟨want, hw, h⟩ := Res.bind_eq_ok h
    have hwant : types[w]? = some want := by
      unfold idxR at hw
      split at hw
      · simp at hw; subst hw; assumption
      · simp at hw
    split at h
    · rename_i hok
      simp only [Res.ok.injEq, Option.some.injEq, Prod.mk.injEq] at h
      obtain ⟨rfl, rfl⟩ := h
      have hlen := tryCandidate_length E uns w want types 0 buf
      have heq : tryCandidate E uns w want 0 types buf = ((tryCandidate E uns w want 0 types buf).1, true) := by
        rw [← hok]
      obtain ⟨_, hpost⟩ := tryCandidate_slots E uns w want types 0 buf _ heq
      refine ⟨by rw [hlen, hl], ?_⟩
      intro i ty hi
      have hlt : i < types.length := (List.getElem?_eq_some_iff.mp hi).1
      obtain ⟨c, hc, hcase⟩ := hpost i ty hi (by omega)
      rw [Nat.zero_add] at hc hcase
      refine ⟨c, hc, ?_⟩
      rcases hcase with ⟨rfl, rfl⟩ | hs
      · rw [hwant] at hi
        simp only [Option.some.injEq] at hi
        exact .self hi.symm
      · exact .direct hs
    · exact prefLoop_slots E uns types ws _ (by rw [tryCandidate_length, hl]) h

theorem general_slots {E : Env} {uns : Bool} {types : List Ty} {t : Ty} {cs : Convs}
    (h : general E uns types = .ok (some (t, cs))) : SlotsRel E uns t types cs :=
  prefLoop_slots E uns types _ _ (by simp) h

/-! ### the wrapping loop of unifyTuplesAsList / unifyObjectsAsMaps -/

/-- what the loop stores at a tuple / object index -/
def wrapOne (first second : Option UConv) : Option UConv :=
  match second with
  | none => first
  | some s => some (.andThen first s)

theorem wrapLoop_spec (fc : Convs) :
    ∀ (idxs : List Nat) (i : Nat) (convs convs' : Convs), wrapLoop fc i idxs convs = .ok convs' → idxs.Nodup →
      convs'.length = convs.length ∧
      (∀ j, j ∉ idxs → convs'[j]? = convs[j]?) ∧
      (∀ (k j : Nat), idxs[k]? = some j → ∃ first second, fc[i + k]? = some first ∧ convs[j]? = some second ∧
        convs'[j]? = some (wrapOne first second))
  | [], _, convs, convs', h, _ => by
    simp only [wrapLoop, Res.ok.injEq] at h
    subst h
    exact ⟨rfl, fun _ _ => rfl, fun k j hk => by simp at hk⟩
  | idx :: rest, i, convs, convs', h, hnd => by
    simp only [wrapLoop] at h
    obtain ⟨second, hs, h⟩ := Res.bind_eq_ok h
    obtain ⟨first, hf, h⟩ := Res.bind_eq_ok h
    have hsec : convs[idx]? = some second := by
      unfold idxR at hs
      split at hs
      · simp at hs; subst hs; assumption
      · simp at hs
    have hfst : fc[i]? = some first := by
      unfold idxR at hf
      split at hf
      · simp at hf; subst hf; assumption
      · simp at hf
    have hrec : wrapLoop fc (i + 1) rest (convs.set idx (wrapOne first second)) = .ok convs' := by
      cases second with
      | none => simpa [wrapOne] using h
      | some s => simpa [wrapOne] using h
    obtain ⟨hnotin, hnd'⟩ := List.nodup_cons.mp hnd
    obtain ⟨hl, hout, hin⟩ := wrapLoop_spec fc rest (i + 1) _ convs' hrec hnd'
    have hidx : idx < convs.length := (List.getElem?_eq_some_iff.mp hsec).1
    refine ⟨by rw [hl]; simp, ?_, ?_⟩
    · intro j hj
      simp only [List.mem_cons, not_or] at hj
      rw [hout j hj.2, List.getElem?_set]
      have : ¬ idx = j := fun e => hj.1 e.symm
      simp [this]
    · intro k j hk
      cases k with
      | zero =>
        simp only [List.getElem?_cons_zero, Option.some.injEq] at hk
        subst hk
        refine ⟨first, second, by simpa using hfst, hsec, ?_⟩
        rw [hout idx hnotin, List.getElem?_set]
        simp [hidx]
      | succ k =>
        simp only [List.getElem?_cons_succ] at hk
        obtain ⟨f, s, hf', hs', hc'⟩ := hin k j hk
        have hne : ¬ idx = j := by
          intro e; subst e
          exact hnotin (List.mem_of_getElem? hk)
        refine ⟨f, s, ?_, ?_, hc'⟩
        · have e : i + 1 + k = i + (k + 1) := by omega
          rw [← e]; exact hf'
        · rw [List.getElem?_set] at hs'
          simpa [hne] using hs'

/-! ### unifyTuplesAsList / unifyObjectsAsMaps -/

theorem reunify_slots {E : Env} {uns : Bool} {self : Bool → List Ty → Res UOut}
    {isStruct isColl : Ty → Bool} {toColl : List Ty → Res UOut} {types : List Ty} {t : Ty} {cs : Convs}
    (hself : ∀ ts t cs, self uns ts = .ok (some (t, cs)) → SlotsRel E uns t ts cs)
    (hto : ∀ ss ty fc, toColl ss = .ok (some (ty, fc)) → convLoop E uns ty ss = some fc)
    (hk1 : ∀ a b, isStruct a = true → isColl b = true → a.equals b = false)
    (hk2 : isColl .dyn = false)
    (hk3 : ∀ x, isColl x = true → isTupleTy x = false ∧ isObjectTy x = false)
    (hk4 : ∀ ty mid t, isStruct ty = true → isColl mid = true → isColl t = true → structColl ty mid t = true)
    (h : reunify uns self isStruct isColl toColl types = .ok (some (t, cs))) :
    isColl t = true ∧ SlotsRel E uns t types cs := by
  unfold reunify at h
  obtain ⟨r, hr, h⟩ := Res.bind_eq_ok h
  cases r with
  | none => simp at h
  | some r =>
    obtain ⟨mid, fc⟩ := r
    simp only at h
    split at h
    · simp at h
    · rename_i hmid
      simp only [Bool.not_eq_true, Bool.not_eq_eq_eq_not, Bool.not_true, Bool.not_eq_false] at hmid
      obtain ⟨r2, hr2, h⟩ := Res.bind_eq_ok h
      cases r2 with
      | none => simp at h
      | some r2 =>
        obtain ⟨newTy, convs⟩ := r2
        simp only at h
        split at h
        · simp at h
        · rename_i hnew
          simp only [Bool.not_eq_true, Bool.not_eq_eq_eq_not, Bool.not_true, Bool.not_eq_false] at hnew
          obtain ⟨convs', hwl, h⟩ := Res.bind_eq_ok h
          simp only [Res.ok.injEq, Option.some.injEq, Prod.mk.injEq] at h
          obtain ⟨rfl, rfl⟩ := h
          refine ⟨hnew, ?_⟩
          have hloop := hto _ _ _ hr
          obtain ⟨hfl, hfg⟩ := convLoop_get hloop
          obtain ⟨hsl, hsg⟩ := hself _ _ _ hr2
          obtain ⟨hwlen, hwout, hwin⟩ := wrapLoop_spec fc _ 0 convs convs' hwl (idxsOf_nodup isStruct types)
          rw [replaceAt_length] at hsl
          refine ⟨by rw [hwlen, hsl], ?_⟩
          intro j ty hj
          have hjlt : j < types.length := (List.getElem?_eq_some_iff.mp hj).1
          by_cases hst : isStruct ty = true
          · -- a tuple / object index
            have hjm : j ∈ idxsOf isStruct types := idxsOf_mem.mpr ⟨ty, hj, hst⟩
            obtain ⟨k, hk⟩ := List.mem_iff_getElem?.mp hjm
            obtain ⟨first, second, hf, hs, hc⟩ := hwin k j hk
            obtain ⟨ty', hty', _, hfilt⟩ := idxsOf_get hk
            rw [hj] at hty'
            simp only [Option.some.injEq] at hty'
            subst hty'
            -- the first step: tuple → its own list type
            have hslot := hfg k ty hfilt
            rw [Nat.zero_add] at hf
            rw [hf] at hslot
            simp only [slotOf, hk1 ty mid hst hmid, Bool.false_eq_true, if_false] at hslot
            obtain ⟨p, hp, hfirst⟩ := Option.map_eq_some_iff.mp hslot
            subst hfirst
            -- the second step: that list type → the result
            have hrep : (replaceAt (idxsOf isStruct types) mid types)[j]? = some mid := by
              rw [replaceAt_get]; simp [hjm, hjlt]
            obtain ⟨c, hc2, hrel⟩ := hsg j mid hrep
            rw [hs] at hc2
            simp only [Option.some.injEq] at hc2
            subst hc2
            refine ⟨_, hc, ?_⟩
            have hsc := hk4 ty mid newTy hst hmid hnew
            cases hrel with
            | direct hd =>
              simp only [slotOf] at hd
              split at hd
              · rename_i he
                simp only [Option.some.injEq] at hd
                subst hd
                exact .viaEq hsc (.inl he) hp
              · rename_i he
                obtain ⟨q, hq, hsq⟩ := Option.map_eq_some_iff.mp hd
                subst hsq
                exact .composed hsc (by simpa using he) hp hq
            | self he => exact .viaEq hsc (.inr he) hp
            | allDyn hd => rw [hd, hk2] at hnew; simp at hnew
            | viaEq hs' _ _ =>
              have := hk3 mid hmid
              simp [structColl, this.1, this.2] at hs'
            | composed hs' _ _ _ =>
              have := hk3 mid hmid
              simp [structColl, this.1, this.2] at hs'
          · -- any other index: the slot of unify(listed) unchanged
            have hjm : j ∉ idxsOf isStruct types := by
              intro hm
              obtain ⟨ty', hty', hp⟩ := idxsOf_mem.mp hm
              rw [hj] at hty'; simp only [Option.some.injEq] at hty'; subst hty'
              exact hst hp
            have hrep : (replaceAt (idxsOf isStruct types) mid types)[j]? = some ty := by
              rw [replaceAt_get]; simp [hjm, hj]
            obtain ⟨c, hc2, hrel⟩ := hsg j ty hrep
            exact ⟨c, by rw [hwout j hjm]; exact hc2, hrel⟩

theorem tuplesAsList_slots {E : Env} {uns : Bool} {self : Bool → List Ty → Res UOut} {types : List Ty} {t : Ty}
    {cs : Convs} (hself : ∀ ts t cs, self uns ts = .ok (some (t, cs)) → SlotsRel E uns t ts cs)
    (h : tuplesAsList E uns self types = .ok (some (t, cs))) : isListTy t = true ∧ SlotsRel E uns t types cs := by
  refine reunify_slots hself (fun _ _ _ => tupleTypesToList_loop) ?_ rfl ?_ ?_ h
  · intro a b ha hb; cases a <;> simp [isTupleTy] at ha; cases b <;> simp [isListTy] at hb; simp [equals]
  · intro x hx; cases x <;> simp [isListTy] at hx; simp [isTupleTy, isObjectTy]
  · intro ty mid t h1 h2 h3; simp [structColl, h1, h2, h3]

theorem objectsAsMaps_slots {E : Env} {uns : Bool} {self : Bool → List Ty → Res UOut} {types : List Ty} {t : Ty}
    {cs : Convs} (hself : ∀ ts t cs, self uns ts = .ok (some (t, cs)) → SlotsRel E uns t ts cs)
    (h : objectsAsMaps E uns self types = .ok (some (t, cs))) : isMapTy t = true ∧ SlotsRel E uns t types cs := by
  refine reunify_slots hself (fun _ _ _ => objectTypesToMap_loop) ?_ rfl ?_ ?_ h
  · intro a b ha hb; cases a <;> simp [isObjectTy] at ha; cases b <;> simp [isMapTy] at hb; simp [equals]
  · intro x hx; cases x <;> simp [isMapTy] at hx; simp [isTupleTy, isObjectTy]
  · intro ty mid t h1 h2 h3; simp [structColl, h1, h2, h3]

/-! ### `unify` -/

theorem unifyStep_slots {E : Env} {uns : Bool} {self : Bool → List Ty → Res UOut} {types : List Ty} {t : Ty}
    {cs : Convs} (hself : ∀ ts t cs, self uns ts = .ok (some (t, cs)) → SlotsRel E uns t ts cs)
    (h : unifyStep E uns self types = .ok (some (t, cs))) : SlotsRel E uns t types cs := by
  unfold unifyStep at h
  split at h
  · simp at h
  · simp only at h
    split at h
    · exact collectionTypes_slots h
    · split at h
      · obtain ⟨r, hr, h⟩ := Res.bind_eq_ok h
        cases r with
        | none => exact general_slots h
        | some r =>
          obtain ⟨ty, convs⟩ := r
          simp only at h
          split at h
          · simp only [Res.ok.injEq, Option.some.injEq, Prod.mk.injEq] at h
            obtain ⟨rfl, rfl⟩ := h
            exact (objectsAsMaps_slots hself hr).2
          · exact general_slots h
      · split at h
        · exact collectionTypes_slots h
        · split at h
          · obtain ⟨r, hr, h⟩ := Res.bind_eq_ok h
            cases r with
            | none => exact general_slots h
            | some r =>
              obtain ⟨ty, convs⟩ := r
              simp only at h
              split at h
              · simp only [Res.ok.injEq, Option.some.injEq, Prod.mk.injEq] at h
                obtain ⟨rfl, rfl⟩ := h
                exact (tuplesAsList_slots hself hr).2
              · exact general_slots h
          · split at h
            · exact collectionTypes_slots h
            · split at h
              · exact objectTypes_slots h
              · split at h
                · exact tupleTypes_slots h
                · split at h
                  · simp at h
                  · exact general_slots h

/-- THE SHAPE THEOREM: whatever `unify` returns, for every environment, fuel and mode -/
theorem unifyF_slots (E : Env) : ∀ (fuel : Nat) (uns : Bool) (types : List Ty) (t : Ty) (cs : Convs),
    unifyF E fuel uns types = .ok (some (t, cs)) → SlotsRel E uns t types cs
  | 0, _, _, _, _, h => by simp [unifyF] at h
  | fuel + 1, uns, types, t, cs, h => by
    simp only [unifyF] at h
    exact unifyStep_slots (fun ts t cs hs => unifyF_slots E fuel uns ts t cs hs) h

end Unify
end CtyModel
