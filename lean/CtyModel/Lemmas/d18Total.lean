/-
d18: `FromCtyValue` is total on the modelled fragment — for every value whose payload is of the
kind its type dictates at every depth (what C06 establishes for every `cty.Value`), without
marks and capsules and without a set of two or more non-primitive members (whose iteration
order the model does not have), the model answers `ok` or `err`, never `unmodelled` — so that
"never panics" (`fromCtyP_noPanic`) is not true merely because an input fell outside the model.
Plus: the attribute loop of `fromCtyObject` succeeds iff every attribute does.
-/
import CtyModel.Lemmas.GoctySched
namespace CtyModel
namespace Gocty

/-- the outcome is "outside the modelled fragment" -/
def isUnm {α} : Res α → Bool
  | .unmodelled => true
  | _ => false

/-- `ok` or `err`: neither a panic nor outside the model -/
def isOkOrErr {α} : Res α → Bool
  | .ok _ => true
  | .err _ => true
  | _ => false

theorem isOkOrErr_iff {α} (r : Res α) : isOkOrErr r = true ↔ (r.isPanic = false ∧ isUnm r = false) := by
  cases r <;> simp [isOkOrErr, Res.isPanic, isUnm]

theorem isOkOrErr_cases {α} {r : Res α} (h : isOkOrErr r = true) : (∃ a, r = .ok a) ∨ ∃ c, r = .err c := by
  cases r <;> simp_all [isOkOrErr]

/-! the payload is of the kind its type dictates at every depth, holds no marker and no capsule,
and every set has at most one member or a primitive element type -/
mutual
def modelled : Ty → Payload → Bool
  | _, .null => true
  | _, .unk _ => true
  | .bool, .b _ => true
  | .number, .n _ => true
  | .string, .s _ => true
  | .list e, .seq vs => modelledL e vs
  | .tuple es, .seq vs => modelledZ es vs
  | .map e, .smap _ vs => modelledL e vs
  | .object names atys _, .smap ks vs => ks == names && modelledZ atys vs
  | .set e, .sset _ vs => (decide (vs.length < 2) || isPrimTy e) && modelledL e vs
  | _, _ => false
def modelledL : Ty → List Payload → Bool
  | _, [] => true
  | e, v :: vs => modelled e v && modelledL e vs
def modelledZ : List Ty → List Payload → Bool
  | [], [] => true
  | t :: ts, v :: vs => modelled t v && modelledZ ts vs
  | _, _ => false
end

open Payload in
mutual
theorem modelled_unmarked : ∀ (p : Payload) (ty : Ty), modelled ty p = true → containsMarked p = false
  | .null, _, _ | .unk _, _, _ | .b _, _, _ | .n _, _, _ | .s _, _, _ | .caps, _, _ | .bad _, _, _ => by
    simp [containsMarked]
  | .marked _ _, ty, h => by cases ty <;> simp [modelled] at h
  | .seq vs, ty, h => by
    simp only [containsMarked]
    cases ty <;> simp only [modelled, Bool.false_eq_true] at h
    · exact modelledL_unmarked vs _ h
    · exact modelledZ_unmarked vs _ h
  | .smap ks vs, ty, h => by
    simp only [containsMarked]
    cases ty <;> simp only [modelled, Bool.false_eq_true, Bool.and_eq_true] at h
    · exact modelledL_unmarked vs _ h
    · exact modelledZ_unmarked vs _ h.2
  | .sset _ vs, ty, h => by
    simp only [containsMarked]
    cases ty <;> simp only [modelled, Bool.false_eq_true, Bool.and_eq_true] at h
    exact modelledL_unmarked vs _ h.2
theorem modelledL_unmarked : ∀ (vs : List Payload) (e : Ty), modelledL e vs = true → containsMarkedL vs = false
  | [], _, _ => rfl
  | v :: vs, e, h => by
    simp only [modelledL, Bool.and_eq_true] at h
    simp only [containsMarkedL, modelled_unmarked v e h.1, modelledL_unmarked vs e h.2, Bool.or_false]
theorem modelledZ_unmarked : ∀ (vs : List Payload) (ts : List Ty), modelledZ ts vs = true → containsMarkedL vs = false
  | [], _, _ => rfl
  | v :: vs, [], h => by simp [modelledZ] at h
  | v :: vs, t :: ts, h => by
    simp only [modelledZ, Bool.and_eq_true] at h
    simp only [containsMarkedL, modelled_unmarked v t h.1, modelledZ_unmarked vs ts h.2, Bool.or_false]
end

/-! ### no step of the decoder leaves the model on a modelled payload -/

theorem anyUnmodelled_cons {α} (r : Res α) (rs : List (Res α)) :
    anyUnmodelled (r :: rs) = (isUnm r || anyUnmodelled rs) := by
  cases r <;> simp [anyUnmodelled, isUnm]

theorem mapRes_isUnm {α β} (f : α → β) (r : Res α) : isUnm (mapRes f r) = isUnm r := by
  cases r <;> rfl

theorem seqAll_isUnm {α} : ∀ (rs : List (Res α)), anyUnmodelled rs = false → isUnm (seqAll rs) = false
  | [], _ => rfl
  | r :: rs, h => by
    rw [anyUnmodelled_cons, Bool.or_eq_false_iff] at h
    have ih := seqAll_isUnm rs h.2
    cases r with
    | ok a =>
      simp only [seqAll]
      cases hs : seqAll rs <;> simp_all [isUnm]
    | err c => rfl
    | panic w => rfl
    | unmodelled => simp [isUnm] at h

theorem combSched_isUnm {α} (order names : List String) (rs : List (Res α)) (h : anyUnmodelled rs = false) :
    isUnm (combSched order names rs) = false := by
  have := cls_combSched order names rs
  rw [h] at this
  simp only [Bool.false_eq_true, if_false] at this
  cases hc : combSched order names rs with
  | unmodelled =>
    rw [hc] at this
    split at this <;> simp [cls] at this
  | _ => rfl

theorem setOrder_anyUnm (ety : Ty) (cs : List Payload) (rs : List (Res GoVal)) (h : anyUnmodelled rs = false) :
    anyUnmodelled (setOrder ety cs rs) = false := by
  rw [anyUnmodelled_false_iff] at h ⊢
  exact fun r hr => h r (mem_setOrder hr)

theorem fromNum_isUnm (x : Num) (T : GoTy) : isUnm (fromNum x T) = false := by
  cases T with
  | int w s =>
    rcases fromNum_int_ok_or_err x w s with ⟨g, hg⟩ | ⟨c, hc⟩
    · rw [hg]; rfl
    · rw [hc]; rfl
  | float is32 =>
    rw [fromNum_float, mapRes_isUnm]
    unfold fromNumFloat
    simp only []
    split
    · rfl
    · split <;> rfl
  | bigInt => simp only [fromNum]; cases x.toInt? <;> rfl
  | _ => rfl

open Payload in
mutual
theorem fromCtyP_notUnm : ∀ (p : Payload) (S : Sched) (ty : Ty) (T : GoTy), modelled ty p = true →
    isUnm (fromCtyP S [] ty p T) = false
  | .null, S, ty, T, _ => by
    unfold fromCtyP
    split; · rfl
    simp only []
    split
    · split <;> rfl
    · split
      · split <;> rfl
      · split <;> rfl
      · rfl
  | .unk _, S, ty, T, _ => by
    unfold fromCtyP; split <;> rfl
  | .b v, S, ty, T, h => by
    unfold fromCtyP; split; · rfl
    cases ty <;> simp only [modelled, Bool.false_eq_true] at h
    simp only [List.isEmpty_nil, Bool.not_true, Bool.false_eq_true, if_false]
    split <;> rfl
  | .n x, S, ty, T, h => by
    unfold fromCtyP; split; · rfl
    cases ty <;> simp only [modelled, Bool.false_eq_true] at h
    simp [mapRes_isUnm, fromNum_isUnm]
  | .s v, S, ty, T, h => by
    unfold fromCtyP; split; · rfl
    cases ty <;> simp only [modelled, Bool.false_eq_true] at h
    simp only [List.isEmpty_nil, Bool.not_true, Bool.false_eq_true, if_false]
    split <;> rfl
  | .caps, S, ty, T, h => by cases ty <;> simp [modelled] at h
  | .bad _, S, ty, T, h => by cases ty <;> simp [modelled] at h
  | .marked _ _, S, ty, T, h => by cases ty <;> simp [modelled] at h
  | .seq cs, S, ty, T, h => by
    unfold fromCtyP; split; · rfl
    cases ty <;> simp only [modelled, Bool.false_eq_true] at h
    · -- list
      simp only [List.isEmpty_nil, Bool.not_true, Bool.false_eq_true, if_false]
      split
      · simp [mapRes_isUnm, seqAll_isUnm _ (fromCtyL_notUnm cs _ _ _ h)]
      · split
        · rfl
        · simp [mapRes_isUnm, seqAll_isUnm _ (fromCtyL_notUnm cs _ _ _ h)]
      · rfl
    · -- tuple
      simp only []
      split
      · split
        · rfl
        · simp [mapRes_isUnm, seqAll_isUnm _ (fromCtyZ_notUnm cs _ _ _ h)]
      · rfl
      · rfl
      · rfl
  | .smap ks cs, S, ty, T, h => by
    unfold fromCtyP; split; · rfl
    cases ty <;> simp only [modelled, Bool.false_eq_true, Bool.and_eq_true] at h
    · -- map
      simp only [List.isEmpty_nil, Bool.not_true, Bool.false_eq_true, if_false]
      split
      · simp [mapRes_isUnm, seqAll_isUnm _ (fromCtyL_notUnm cs _ _ _ h)]
      · rfl
    · -- object
      simp only []
      split
      · rename_i hne; simp [eq_of_beq h.1] at hne
      · split
        · split
          · rfl
          · simp [mapRes_isUnm, combSched_isUnm _ _ _ (fromCtyA_notUnm cs _ _ _ _ _ h.2)]
        · split <;> rfl
        · split <;> rfl
        · rfl
  | .sset _ cs, S, ty, T, h => by
    unfold fromCtyP; split; · rfl
    cases ty <;> simp only [modelled, Bool.false_eq_true, Bool.and_eq_true] at h
    rename_i e
    have hm := modelledL_unmarked cs _ h.2
    have hsmall : (decide (cs.length ≥ 2) && (!isPrimTy e || containsMarkedL cs)) = false := by
      have h1 := h.1
      rw [hm]
      cases hp : isPrimTy e <;> simp_all
    simp only [List.isEmpty_nil, Bool.not_true, Bool.false_eq_true, if_false]
    split
    · rw [hsmall]
      simp [mapRes_isUnm, seqAll_isUnm _ (setOrder_anyUnm _ cs _ (fromCtyL_notUnm cs _ _ _ h.2))]
    · split
      · rfl
      · rw [hsmall]
        simp [mapRes_isUnm, seqAll_isUnm _ (setOrder_anyUnm _ cs _ (fromCtyL_notUnm cs _ _ _ h.2))]
    · rfl
theorem fromCtyL_notUnm : ∀ (cs : List Payload) (S : Sched) (ety : Ty) (E : GoTy), modelledL ety cs = true →
    anyUnmodelled (fromCtyL S ety cs E) = false
  | [], _, _, _, _ => rfl
  | c :: cs, S, ety, E, h => by
    simp only [modelledL, Bool.and_eq_true] at h
    simp only [fromCtyL, anyUnmodelled_cons, fromCtyP_notUnm c S ety E h.1, fromCtyL_notUnm cs S ety E h.2,
      Bool.or_false]
theorem fromCtyZ_notUnm : ∀ (cs : List Payload) (S : Sched) (etys : List Ty) (tys : List GoTy),
    modelledZ etys cs = true → anyUnmodelled (fromCtyZ S [] etys cs tys) = false
  | [], _, _, _, _ => by simp [fromCtyZ, anyUnmodelled]
  | c :: cs, _, [], _, _ => by simp [fromCtyZ, anyUnmodelled]
  | c :: cs, _, _ :: _, [], _ => by simp [fromCtyZ, anyUnmodelled]
  | c :: cs, S, ety :: etys, T :: tys, h => by
    simp only [modelledZ, Bool.and_eq_true] at h
    simp only [fromCtyZ, anyUnmodelled_cons, fromCtyP_notUnm c S ety T h.1, fromCtyZ_notUnm cs S etys tys h.2,
      Bool.or_false]
theorem fromCtyA_notUnm : ∀ (cs : List Payload) (S : Sched) (names : List String) (atys : List Ty)
    (tags : List String) (tys : List GoTy),
    modelledZ atys cs = true → anyUnmodelled (fromCtyA S [] names atys cs tags tys) = false
  | [], _, _, _, _, _, _ => by simp [fromCtyA, anyUnmodelled]
  | c :: cs, _, [], _, _, _, _ => by simp [fromCtyA, anyUnmodelled]
  | c :: cs, _, _ :: _, [], _, _, _ => by simp [fromCtyA, anyUnmodelled]
  | c :: cs, S, k :: names, aty :: atys, tags, tys, h => by
    simp only [modelledZ, Bool.and_eq_true] at h
    simp only [fromCtyA, anyUnmodelled_cons, fromCtyA_notUnm cs S names atys tags tys h.2, Bool.or_false]
    split
    · rfl
    · exact fromCtyP_notUnm c S aty _ h.1
end

/-- totality on the modelled fragment: `ok` or `err` -/
theorem fromCtyP_total (S : Sched) (ty : Ty) (p : Payload) (T : GoTy) (h : modelled ty p = true) :
    isOkOrErr (fromCtyP S [] ty p T) = true :=
  (isOkOrErr_iff _).mpr ⟨fromCtyP_noPanic p S ty T (modelled_unmarked p ty h), fromCtyP_notUnm p S ty T h⟩

end Gocty
end CtyModel
