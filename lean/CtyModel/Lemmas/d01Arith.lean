/-
The value of a big.Float sum / cty product as "exact result, rounded once":
`Num.add`, `Num.mulCty` on finite operands give a number whose exact value, at any
exponent `E` below the operands', is `srnd (exact integer result at E) p` — the
signed version of `rndV` (Lemmas/d01Round.lean).  Together with monotonicity of
rounding this compares a corner of the range arithmetic with the concrete result
WITHOUT assuming that nothing is rounded.
-/
import CtyModel.Lemmas.d01Round
import CtyModel.Lemmas.OpsMul
namespace CtyModel
open NumCmp
namespace Num

/-- signed rounding of an integer to `p` significant bits -/
def srnd (v : Int) (p : Nat) : Int := if v < 0 then -((rndV v.natAbs p : Nat) : Int) else ((rndV v.natAbs p : Nat) : Int)

theorem rndV_prec0 (m : Nat) : rndV m 0 = 0 := by simp [rndV, roundME]

theorem rndV_mono' {m n : Nat} (p : Nat) (h : m ≤ n) : rndV m p ≤ rndV n p := by
  by_cases hp : p = 0
  · subst hp; simp [rndV_prec0]
  · exact rndV_mono (by omega) h

theorem rndV_scale' {m : Nat} (p j : Nat) : rndV (m * 2 ^ j) p = rndV m p * 2 ^ j := by
  by_cases hp : p = 0
  · subst hp; simp [rndV_prec0]
  · exact rndV_scale (by omega) j

theorem srnd_mono {u v : Int} (p : Nat) (h : u ≤ v) : srnd u p ≤ srnd v p := by
  unfold srnd
  by_cases hu : u < 0 <;> by_cases hv : v < 0 <;> simp only [hu, hv, if_true, if_false]
  · have := rndV_mono' p (show v.natAbs ≤ u.natAbs by omega)
    omega
  · omega
  · omega
  · have := rndV_mono' p (show u.natAbs ≤ v.natAbs by omega)
    omega

theorem srnd_scale (v : Int) (p j : Nat) : srnd (v * 2 ^ j) p = srnd v p * 2 ^ j := by
  have hpos : (0 : Int) < 2 ^ j := Int.pow_pos (by decide)
  have hna : (v * 2 ^ j).natAbs = v.natAbs * 2 ^ j := by
    rw [Int.natAbs_mul]; congr 1
  unfold srnd
  rw [hna, rndV_scale']
  by_cases hv : v < 0
  · have : v * 2 ^ j < 0 := Int.mul_neg_of_neg_of_pos hv hpos
    simp only [this, hv, if_true]
    rw [Int.natCast_mul, Int.neg_mul]; simp
  · have : ¬ v * 2 ^ j < 0 := by
      have := Int.mul_nonneg (show 0 ≤ v by omega) (Int.le_of_lt hpos)
      omega
    simp only [this, hv, if_false]
    rw [Int.natCast_mul]; simp

theorem srnd_sgnm (neg : Bool) (m p : Nat) (h : neg = true → m ≠ 0) : srnd (sgnm neg m) p = sgnm neg (rndV m p) := by
  unfold srnd sgnm
  cases neg
  · have : ¬ ((m : Int) < 0) := by omega
    simp [this]
  · have := h rfl
    have : -(m : Int) < 0 := by omega
    simp only [this, if_true]
    simp

/-- the sign of a zero does not matter -/
theorem sgnm_rnd_zero (neg : Bool) (p : Nat) : sgnm neg (rndV 0 p) = srnd 0 p := by
  unfold srnd sgnm
  by_cases hp : p = 0
  · subst hp; cases neg <;> simp [rndV_prec0]
  · cases neg <;> simp [rndV_zero]

theorem isVal_rescale {c : Num} {v e1 : Int} (h : IsVal c v e1) (e0 : Int) (he : e0 ≤ e1) :
    IsVal c (v * 2 ^ (e1 - e0).toNat) e0 := by
  cases c with
  | inf n => exact h
  | fin n m e' p =>
    simp only [IsVal] at h ⊢
    rcases h with ⟨hm, hv⟩ | ⟨hle, hv⟩
    · left; exact ⟨hm, by simp [hv]⟩
    · right
      refine ⟨by omega, ?_⟩
      have : (e' - e0).toNat = (e' - e1).toNat + (e1 - e0).toNat := by omega
      rw [this, Int.pow_add, ← Int.mul_assoc, hv]

/-- `round` (any precision, also 0) as a value -/
theorem round_isVal (neg : Bool) (m : Nat) (e : Int) (p : Nat) : IsVal (round neg m e p) (sgnm neg (rndV m p)) e := by
  by_cases hp : p = 0
  · subst hp
    simp only [round, roundME, if_true, rndV_prec0]
    have := mk_isVal neg 0 0 0
    unfold mk IsVal at *
    left
    refine ⟨?_, by cases neg <;> simp [sgnm]⟩
    unfold norm; rcases normFuel_zero (bitlen 0 + 1) 0 with h | h <;> simp [h]
  · have hp' : 0 < p := by omega
    unfold round
    simp only []
    rw [roundME_exp m e p hp']
    simp only []
    have h1 := mk_isVal neg (roundME m 0 p).1 (e + (roundME m 0 p).2) p
    have hk : 0 ≤ (roundME m 0 p).2 := by
      unfold roundME
      have : p ≠ 0 := by omega
      simp only [this, if_false]
      split <;> simp
    have h2 := isVal_rescale h1 e (by omega)
    have e1 : (e + (roundME m 0 p).2 - e).toNat = (roundME m 0 p).2.toNat := by congr 1; omega
    rw [e1] at h2
    have : (if neg = true then -(((roundME m 0 p).1 : Nat) : Int) else (((roundME m 0 p).1 : Nat) : Int)) * 2 ^ (roundME m 0 p).2.toNat
        = sgnm neg (rndV m p) := by
      unfold sgnm rndV
      cases neg <;> simp [Int.natCast_mul, Int.neg_mul]
    rw [this] at h2
    exact h2

theorem isVal_prec {n : Bool} {m : Nat} {e : Int} {p p' : Nat} {v E : Int} (h : IsVal (.fin n m e p) v E) :
    IsVal (.fin n m e p') v E := h

/-- comparison through values at a common exponent -/
theorem cmp_le_of_isVal {a b : Num} {va vb E : Int} (ha : IsVal a va E) (hb : IsVal b vb E) :
    cmp a b ≤ 0 ↔ va ≤ vb := by
  cases a with
  | inf _ => exact absurd ha (by simp [IsVal])
  | fin na ma ea pa =>
  cases b with
  | inf _ => exact absurd hb (by simp [IsVal])
  | fin nb mb eb pb =>
  simp only [IsVal] at ha hb
  rw [cmp_fin, icmp_le_iff]
  have hpos : ∀ k : Nat, (0 : Int) < 2 ^ k := fun k => Int.pow_pos (by decide)
  have fold : ∀ (n : Bool) (m : Nat), (if n = true then -(m : Int) else (m : Int)) = sgnm n m := fun n m => rfl
  rw [fold] at ha hb
  rcases ha with ⟨hma, hva⟩ | ⟨hea, hva⟩ <;> rcases hb with ⟨hmb, hvb⟩ | ⟨heb, hvb⟩
  · subst hma hmb hva hvb; simp [sgnm_zero, scaleTo_zero]
  · subst hma hva
    rw [sgnm_zero, scaleTo_zero, ← hvb]
    unfold scaleTo
    constructor
    · intro h
      have := (Int.mul_nonneg_iff_of_pos_right (hpos (eb - min ea eb).toNat)).mp h
      exact Int.mul_nonneg this (Int.le_of_lt (hpos _))
    · intro h
      have := (Int.mul_nonneg_iff_of_pos_right (hpos (eb - E).toNat)).mp h
      exact Int.mul_nonneg this (Int.le_of_lt (hpos _))
  · subst hmb hvb
    rw [sgnm_zero, scaleTo_zero, ← hva]
    unfold scaleTo
    have neg_iff : ∀ (s : Int) (k : Nat), s * 2 ^ k ≤ 0 ↔ s ≤ 0 := by
      intro s k
      constructor
      · intro h
        apply Int.not_lt.mp
        intro hs
        have := Int.mul_pos hs (hpos k)
        omega
      · intro h
        have := Int.mul_nonneg (show 0 ≤ -s by omega) (Int.le_of_lt (hpos k))
        rw [Int.neg_mul] at this
        omega
    rw [neg_iff, neg_iff]
  · rw [← hva, ← hvb]
    have := cmp_fin_le (na := na) (nb := nb) (ma := ma) (mb := mb) (pa := pa) (pb := pb) E hea heb
    rw [cmp_fin, icmp_le_iff] at this
    exact this

/-- the product cty computes, as a value: the exact product rounded to 512 bits -/
theorem mulCty_isVal {na nb : Bool} {ma mb : Nat} {ea eb : Int} {pa pb : Nat} {c : Num} {E1 E2 : Int}
    (h1 : E1 ≤ ea) (h2 : E2 ≤ eb)
    (h : mulCty (.fin na ma ea pa) (.fin nb mb eb pb) = .ok c) :
    IsVal c (srnd (scaleTo (sgnm na ma) ea E1 * scaleTo (sgnm nb mb) eb E2) 512) (E1 + E2) := by
  have hr := round_isVal (na != nb) (ma * mb) (ea + eb) 512
  have hc : ∃ n m e p p', round (na != nb) (ma * mb) (ea + eb) 512 = .fin n m e p ∧ c = .fin n m e p' := by
    simp only [mulCty, Res.ok.injEq] at h
    cases hrr : round (na != nb) (ma * mb) (ea + eb) 512 with
    | inf _ => simp [round, mk] at hrr
    | fin n m e p => rw [hrr] at h; exact ⟨n, m, e, p, _, rfl, h.symm⟩
  obtain ⟨n, m, e, p, p', hrr, rfl⟩ := hc
  rw [hrr] at hr
  have hv := isVal_rescale (isVal_prec (p' := p') hr) (E1 + E2) (by omega)
  have hj : (ea + eb - (E1 + E2)).toNat = (ea - E1).toNat + (eb - E2).toNat := by omega
  have key : sgnm (na != nb) (rndV (ma * mb) 512) * 2 ^ (ea + eb - (E1 + E2)).toNat =
      srnd (scaleTo (sgnm na ma) ea E1 * scaleTo (sgnm nb mb) eb E2) 512 := by
    have hprod : scaleTo (sgnm na ma) ea E1 * scaleTo (sgnm nb mb) eb E2 =
        sgnm (na != nb) (ma * mb) * 2 ^ ((ea - E1).toNat + (eb - E2).toNat) := by
      unfold scaleTo
      rw [sgnm_mul, Int.pow_add]
      simp only [Int.mul_assoc, Int.mul_left_comm, Int.mul_comm]
    rw [hprod, srnd_scale, hj]
    congr 1
    by_cases hz : ma * mb = 0
    · rw [hz, sgnm_zero, sgnm_rnd_zero]
    · rw [srnd_sgnm _ _ _ (fun _ => hz)]
  rw [key] at hv
  exact hv

/-- the sum big.Float computes, as a value: the exact sum rounded to the larger precision -/
theorem add_isVal {na nb : Bool} {ma mb : Nat} {ea eb : Int} {pa pb : Nat} {c : Num} {E : Int}
    (h1 : E ≤ ea) (h2 : E ≤ eb)
    (h : Num.add (.fin na ma ea pa) (.fin nb mb eb pb) = .ok c) :
    IsVal c (srnd (scaleTo (sgnm na ma) ea E + scaleTo (sgnm nb mb) eb E) (max pa pb)) E := by
  have hadd : Num.add (.fin na ma ea pa) (.fin nb mb eb pb) =
      (if ma = 0 ∧ mb = 0 then .ok (.fin (na && nb) 0 0 (max pa pb))
       else if scaleTo (sgnm na ma) ea (min ea eb) + scaleTo (sgnm nb mb) eb (min ea eb) = 0 then .ok (.fin false 0 0 (max pa pb))
       else .ok (round (decide (scaleTo (sgnm na ma) ea (min ea eb) + scaleTo (sgnm nb mb) eb (min ea eb) < 0))
          (scaleTo (sgnm na ma) ea (min ea eb) + scaleTo (sgnm nb mb) eb (min ea eb)).natAbs (min ea eb) (max pa pb))) := rfl
  rw [hadd] at h
  generalize hs : scaleTo (sgnm na ma) ea (min ea eb) + scaleTo (sgnm nb mb) eb (min ea eb) = s at h
  have hsum : scaleTo (sgnm na ma) ea E + scaleTo (sgnm nb mb) eb E = s * 2 ^ (min ea eb - E).toNat := by
    rw [scaleTo_shift (sgnm na ma) ea (min ea eb) E (by omega) (by omega),
        scaleTo_shift (sgnm nb mb) eb (min ea eb) E (by omega) (by omega), ← Int.add_mul, hs]
  rw [hsum, srnd_scale]
  have zero_val : ∀ n p, IsVal (.fin n 0 0 p) (srnd 0 (max pa pb) * 2 ^ (min ea eb - E).toNat) E := by
    intro n p
    left
    refine ⟨rfl, ?_⟩
    have : srnd 0 (max pa pb) = 0 := by
      rw [← sgnm_rnd_zero false]
      by_cases hp : max pa pb = 0
      · rw [hp, rndV_prec0]; rfl
      · rw [rndV_zero]; rfl
    rw [this]; simp
  by_cases hz : ma = 0 ∧ mb = 0
  · simp only [hz, and_self, if_true, Res.ok.injEq] at h
    subst h
    have : s = 0 := by
      rw [← hs]; obtain ⟨rfl, rfl⟩ := hz
      simp [sgnm_zero, scaleTo_zero]
    rw [this]
    exact zero_val _ _
  · simp only [hz, if_false] at h
    by_cases hs0 : s = 0
    · simp only [hs0, if_true, Res.ok.injEq] at h
      subst h
      rw [hs0]
      exact zero_val _ _
    · simp only [hs0, if_false, Res.ok.injEq] at h
      subst h
      have hr := round_isVal (decide (s < 0)) s.natAbs (min ea eb) (max pa pb)
      have hv := isVal_rescale hr E (by omega)
      have : sgnm (decide (s < 0)) (rndV s.natAbs (max pa pb)) = srnd s (max pa pb) := by
        unfold srnd sgnm
        by_cases hneg : s < 0 <;> simp [hneg]
      rw [this] at hv
      exact hv

end Num
end CtyModel
