/- Strictly ascending name lists (the model of a Go map's key set). -/
import CtyModel.Ty
namespace CtyModel
namespace Ty

theorem strictAsc_cons {a : String} {l : List String} (h : strictAsc (a :: l) = true) :
    strictAsc l = true ∧ ∀ x ∈ l, a < x := by
  induction l generalizing a with
  | nil => simp [strictAsc]
  | cons b l ih =>
    simp only [strictAsc, Bool.and_eq_true, decide_eq_true_eq] at h
    obtain ⟨hab, hl⟩ := h
    refine ⟨hl, ?_⟩
    intro x hx
    rcases List.mem_cons.mp hx with rfl | hx
    · exact hab
    · exact String.lt_trans hab ((ih hl).2 x hx)

theorem strictAsc_of {a : String} {l : List String} (hl : strictAsc l = true)
    (h : ∀ x ∈ l, a < x) : strictAsc (a :: l) = true := by
  cases l with
  | nil => simp [strictAsc]
  | cons b l => simp [strictAsc, h b (by simp), hl]

theorem strictAsc_nodup {l : List String} (h : strictAsc l = true) : l.Nodup := by
  induction l with
  | nil => simp
  | cons a l ih =>
    have ⟨hl, hlt⟩ := strictAsc_cons h
    refine List.nodup_cons.mpr ⟨?_, ih hl⟩
    intro hm
    exact String.lt_irrefl _ (hlt a hm)

/-- Two strictly ascending lists of the same length, one included in the other,
are equal (pigeonhole + order). -/
theorem asc_subset_eq : ∀ (l₁ l₂ : List String), strictAsc l₁ = true → strictAsc l₂ = true →
    l₁.length = l₂.length → (∀ x ∈ l₁, x ∈ l₂) → l₁ = l₂
  | [], [], _, _, _, _ => rfl
  | [], _ :: _, _, _, h, _ => by simp at h
  | _ :: _, [], _, _, h, _ => by simp at h
  | a :: l₁, b :: l₂, h₁, h₂, hlen, hsub => by
    have ⟨h₁', hlt₁⟩ := strictAsc_cons h₁
    have ⟨h₂', hlt₂⟩ := strictAsc_cons h₂
    have hab : a = b := by
      rcases List.mem_cons.mp (hsub a (by simp)) with h | h
      · exact h
      · -- then every element of a :: l₁ lies in l₂: too many
        exfalso
        have hba : b < a := hlt₂ a h
        have : ∀ x ∈ a :: l₁, x ∈ l₂ := by
          intro x hx
          rcases List.mem_cons.mp (hsub x hx) with hxb | hx2
          · exfalso
            rcases List.mem_cons.mp hx with rfl | hx1
            · exact String.lt_irrefl _ (hxb ▸ hba)
            · have := hlt₁ x hx1
              exact String.lt_irrefl _ (String.lt_trans (hxb ▸ hba) this)
          · exact hx2
        have hle := List.Nodup.length_le_of_subset (strictAsc_nodup h₁) this
        simp at hlen hle
        omega
    subst hab
    congr 1
    apply asc_subset_eq l₁ l₂ h₁' h₂' (by simpa using hlen)
    intro x hx
    rcases List.mem_cons.mp (hsub x (List.mem_cons_of_mem _ hx)) with hxa | hx2
    · exact absurd (hxa ▸ hlt₁ x hx) (String.lt_irrefl _)
    · exact hx2

end Ty
end CtyModel
