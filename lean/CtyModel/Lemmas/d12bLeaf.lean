/-
C12 / d12b: functions of PRIMITIVE arguments whose parameters all refuse unknown values (most string, number and
boolean functions of the stdlib: `upper`, `lower`, `substr`, `trim*`, `range`, `abs`, …).  A weakening of a
string / number / bool either is unknown — then the framework short-circuits — or is that very value: `Impl`
never sees anything but the concrete arguments, and soundness is the framework's, whatever `Impl` does.
-/
import CtyModel.Lemmas.d12bLookupObj
namespace CtyModel
namespace D12b
open Fn Stdlib C12L Cov

theorem leaf_list_eq : ∀ (ws os : List Value), coversAll ws os = true → TyKeptU ws os →
    (∀ a ∈ ws, a.isKnown = true) → (∀ a ∈ ws, a.containsMarked = false) → (∀ a ∈ os, a.containsMarked = false) →
    (∀ a ∈ os, a.v.isLeaf = true) → ws = os
  | [], [], _, _, _, _, _, _ => rfl
  | [], _ :: _, h, _, _, _, _, _ => by simp [coversAll] at h
  | _ :: _, [], h, _, _, _, _, _ => by simp [coversAll] at h
  | w :: ws, o :: os, hc, hk, hkn, hmw, hmo, hl => by
    simp only [coversAll, Bool.and_eq_true] at hc
    have hty : w.ty = o.ty := by
      rcases hk.1 with h | h
      · exact h
      · rw [hkn w (by simp)] at h; cases h.2
    rw [leaf_eq (hmw w (by simp)) (hmo o (by simp)) hty hc.1 (hkn w (by simp)) (hl o (by simp)),
      leaf_list_eq ws os hc.2 hk.2 (fun a ha => hkn a (by simp [ha])) (fun a ha => hmw a (by simp [ha]))
        (fun a ha => hmo a (by simp [ha])) (fun a ha => hl a (by simp [ha]))]

/-- `Impl` is trivially sound on a pair of identical argument lists -/
theorem implSoundAt_refl (tf : TypeFn) (impl : ImplFn) (os : List Value) : ImplSoundAt tf impl os os := by
  intro rt rt' r ho hw hio hconf _ _ hrefl
  rw [ho] at hw
  cases hw
  exact ⟨r, hio, hconf, hrefl⟩

end D12b
end CtyModel
