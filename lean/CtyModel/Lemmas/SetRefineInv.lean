/-
Invariant and abstraction function of `SetImpl`, and the refinement lemmas for
`Has`, `Add`, `Remove`, `Copy`, `Length`.

`Inv` is stated bucket-wise (`InvB`: what each bucket satisfies) and globally
(`Inv`: no two equivalent members anywhere); under lawful rules they coincide
(`inv_iff_invB`), proofs use the bucket-wise form.
-/
import CtyModel.Lemmas.SetRefineBuckets
namespace CtyModel

/-- The contract `cty/set/rules.go` asks of a `Rules` implementation:
`Equivalent` is an equivalence relation and equivalent values hash alike. -/
structure Rules.Lawful {α : Type} (R : Rules α) : Prop where
  refl : ∀ a, R.equiv a a = true
  symm : ∀ a b, R.equiv a b = true → R.equiv b a = true
  trans : ∀ a b c, R.equiv a b = true → R.equiv b c = true → R.equiv a c = true
  hash_eq : ∀ a b, R.equiv a b = true → R.hash a = R.hash b

namespace SetImpl
variable {α : Type}

/-- pairwise inequivalent -/
def Inequiv (R : Rules α) (l : List α) : Prop := l.Pairwise (fun a b => R.equiv a b = false)

instance (R : Rules α) (l : List α) : Decidable (Inequiv R l) :=
  inferInstanceAs (Decidable (l.Pairwise (fun a b => R.equiv a b = false)))

/-- The representation invariant: bucket ids strictly ascending, no empty
bucket, every member in the bucket of its hash, no two equivalent members
anywhere in the set. -/
structure Inv (R : Rules α) (s : SetImpl α) : Prop where
  asc : Asc s.buckets
  nonempty : ∀ p ∈ s.buckets, p.2 ≠ []
  hashed : ∀ p ∈ s.buckets, ∀ m ∈ p.2, R.hash m = p.1
  nodup : Inequiv R (values s)

/-- bucket-wise form of the invariant -/
structure InvB (R : Rules α) (s : SetImpl α) : Prop where
  asc : Asc s.buckets
  nonempty : ∀ p ∈ s.buckets, p.2 ≠ []
  hashed : ∀ p ∈ s.buckets, ∀ m ∈ p.2, R.hash m = p.1
  nodupB : ∀ p ∈ s.buckets, Inequiv R p.2

/-- The abstraction: the mathematical set (of equivalence classes, as a
predicate closed under `equiv`) a representation stands for. -/
def abs (R : Rules α) (s : SetImpl α) : α → Prop :=
  fun x => ∃ m ∈ values s, R.equiv x m = true

theorem Lawful.equiv_false_symm {R : Rules α} (hR : R.Lawful) {a b : α}
    (h : R.equiv a b = false) : R.equiv b a = false := by
  cases hb : R.equiv b a with
  | false => rfl
  | true => rw [hR.symm b a hb] at h; cases h

theorem inv_iff_invB {R : Rules α} (hR : R.Lawful) (s : SetImpl α) : Inv R s ↔ InvB R s := by
  constructor
  · intro h
    refine ⟨h.asc, h.nonempty, h.hashed, ?_⟩
    have := h.nodup
    simp only [Inequiv, values, List.pairwise_flatMap] at this
    exact this.1
  · intro h
    refine ⟨h.asc, h.nonempty, h.hashed, ?_⟩
    simp only [Inequiv, values, List.pairwise_flatMap]
    refine ⟨h.nodupB, ?_⟩
    have hasc := h.asc
    have hh := h.hashed
    revert hasc hh
    generalize s.buckets = bs
    intro hasc hh
    refine List.Pairwise.imp_of_mem ?_ hasc
    intro p q hp hq hlt x hx y hy
    cases he : R.equiv x y with
    | false => rfl
    | true =>
      have := hR.hash_eq x y he
      rw [hh p hp x hx, hh q hq y hy] at this
      omega

theorem Inv.toB {R : Rules α} (hR : R.Lawful) {s : SetImpl α} (h : Inv R s) : InvB R s :=
  (inv_iff_invB hR s).mp h

theorem InvB.toInv {R : Rules α} (hR : R.Lawful) {s : SetImpl α} (h : InvB R s) : Inv R s :=
  (inv_iff_invB hR s).mpr h

/-! ### empty -/

theorem invB_empty (R : Rules α) : InvB R (empty : SetImpl α) :=
  ⟨asc_nil, by simp [empty], by simp [empty], by simp [empty]⟩

theorem inv_empty (R : Rules α) : Inv R (empty : SetImpl α) :=
  ⟨asc_nil, by simp [empty], by simp [empty], by simp [empty, values, Inequiv]⟩

theorem abs_empty (R : Rules α) (y : α) : ¬ abs R (empty : SetImpl α) y := by
  simp [abs, empty, values]

/-! ### has -/

theorem abs_congr {R : Rules α} (hR : R.Lawful) (s : SetImpl α) {x y : α}
    (h : R.equiv x y = true) : abs R s x ↔ abs R s y := by
  constructor
  · rintro ⟨m, hm, he⟩
    exact ⟨m, hm, hR.trans y x m (hR.symm x y h) he⟩
  · rintro ⟨m, hm, he⟩
    exact ⟨m, hm, hR.trans x y m h he⟩

/-- `Has` decides membership in the abstract set. -/
theorem has_iff_abs {R : Rules α} (hR : R.Lawful) {s : SetImpl α} (h : InvB R s) (x : α) :
    has R s x = true ↔ abs R s x := by
  simp only [has, abs]
  constructor
  · intro hh
    split at hh
    · cases hh
    · rename_i b hb
      obtain ⟨m, hm, he⟩ := List.any_eq_true.mp hh
      exact ⟨m, mem_values.mpr ⟨_, mem_of_lookup hb, hm⟩, he⟩
  · rintro ⟨m, hm, he⟩
    obtain ⟨p, hp, hmp⟩ := mem_values.mp hm
    have hhash : R.hash x = p.1 := by rw [hR.hash_eq x m he]; exact h.hashed p hp m hmp
    have : lookup s.buckets (R.hash x) = some p.2 := by
      rw [hhash]; exact lookup_of_mem h.asc hp
    rw [this]
    exact List.any_eq_true.mpr ⟨m, hmp, he⟩

theorem has_eq_any (R : Rules α) (s : SetImpl α) (x : α) :
    has R s x = ((lookup s.buckets (R.hash x)).getD []).any (fun ev => R.equiv x ev) := by
  unfold has
  split <;> rename_i hl <;> simp [hl]

theorem add_eq (R : Rules α) (s : SetImpl α) (x : α) :
    add R s x = if has R s x then s
      else ⟨setBucket s.buckets (R.hash x) ((lookup s.buckets (R.hash x)).getD [] ++ [x])⟩ := by
  rw [has_eq_any]
  rfl

theorem remove_of_not_has (R : Rules α) (s : SetImpl α) (x : α) (h : has R s x = false) :
    remove R s x = s := by
  simp only [remove, has] at *
  split
  · rfl
  · rename_i b hb
    rw [hb] at h
    simp only at h
    simp [h]

/-! ### add -/

theorem invB_add {R : Rules α} (hR : R.Lawful) {s : SetImpl α} (h : InvB R s) (x : α) :
    InvB R (add R s x) := by
  rw [add_eq]
  split
  · exact h
  · rename_i hnot
    have hnot : has R s x = false := by simpa using hnot
    -- the bucket the member goes to
    have hb : ∀ m ∈ (lookup s.buckets (R.hash x)).getD [],
        (R.hash x, (lookup s.buckets (R.hash x)).getD []) ∈ s.buckets := by
      intro m hm
      cases hl : lookup s.buckets (R.hash x) with
      | none => rw [hl] at hm; simp at hm
      | some b => simpa using mem_of_lookup hl
    have hany : ∀ m ∈ (lookup s.buckets (R.hash x)).getD [], R.equiv x m = false := by
      intro m hm
      simp only [has] at hnot
      cases hl : lookup s.buckets (R.hash x) with
      | none => rw [hl] at hm; simp at hm
      | some b =>
        rw [hl] at hnot hm
        simp only [Option.getD_some] at hm
        simp only [List.any_eq_false] at hnot
        simpa using hnot m hm
    refine ⟨asc_setBucket h.asc _ _, ?_, ?_, ?_⟩
    · intro p hp
      rcases (mem_setBucket h.asc _ _ p).mp hp with rfl | ⟨hp, _⟩
      · simp
      · exact h.nonempty p hp
    · intro p hp m hm
      rcases (mem_setBucket h.asc _ _ p).mp hp with rfl | ⟨hp, _⟩
      · rcases List.mem_append.mp hm with hm | hm
        · exact h.hashed _ (hb m hm) m hm
        · simp at hm; subst hm; rfl
      · exact h.hashed p hp m hm
    · intro p hp
      rcases (mem_setBucket h.asc _ _ p).mp hp with rfl | ⟨hp, _⟩
      · simp only [Inequiv, List.pairwise_append]
        refine ⟨?_, by simp, ?_⟩
        · cases hl : lookup s.buckets (R.hash x) with
          | none => simp
          | some b => simpa [Inequiv] using h.nodupB _ (mem_of_lookup hl)
        · intro a ha b hb'
          simp at hb'
          subst hb'
          exact Lawful.equiv_false_symm hR (hany a ha)
      · exact h.nodupB p hp

/-- members after `Add` of a value not yet represented -/
theorem mem_values_add_new {R : Rules α} {s : SetImpl α} (h : InvB R s) (x : α)
    (hnot : has R s x = false) (m : α) :
    m ∈ values (add R s x) ↔ m ∈ values s ∨ m = x := by
  rw [add_eq, hnot]
  simp only [Bool.false_eq_true, if_false]
  rw [mem_values_setBucket h.asc, mem_values]
  constructor
  · rintro (hm | ⟨p, hp, _, hm⟩)
    · rcases List.mem_append.mp hm with hm | hm
      · cases hl : lookup s.buckets (R.hash x) with
        | none => rw [hl] at hm; simp at hm
        | some b =>
          rw [hl] at hm
          exact Or.inl ⟨_, mem_of_lookup hl, by simpa using hm⟩
      · exact Or.inr (by simpa using hm)
    · exact Or.inl ⟨p, hp, hm⟩
  · rintro (⟨p, hp, hm⟩ | rfl)
    · by_cases hk : p.1 = R.hash x
      · left
        have : lookup s.buckets (R.hash x) = some p.2 := by
          rw [← hk]; exact lookup_of_mem h.asc hp
        rw [this]; simp [hm]
      · right
        exact ⟨p, hp, hk, hm⟩
    · left; simp

/-- `Add` on the abstract set: insert the class of `x`. -/
theorem abs_add {R : Rules α} (hR : R.Lawful) {s : SetImpl α} (h : InvB R s) (x y : α) :
    abs R (add R s x) y ↔ abs R s y ∨ R.equiv y x = true := by
  by_cases hh : has R s x = true
  · have : add R s x = s := by rw [add_eq, hh]; simp
    rw [this]
    constructor
    · exact Or.inl
    · rintro (h1 | h2)
      · exact h1
      · exact (abs_congr hR s h2).mpr ((has_iff_abs hR h x).mp hh)
  · have hh : has R s x = false := by simpa using hh
    simp only [abs, mem_values_add_new h x hh]
    constructor
    · rintro ⟨m, hm | rfl, he⟩
      · exact Or.inl ⟨m, hm, he⟩
      · exact Or.inr he
    · rintro (⟨m, hm, he⟩ | he)
      · exact ⟨m, Or.inl hm, he⟩
      · exact ⟨x, Or.inr rfl, he⟩

/-- `Add` of a value not yet represented appends it to the member list (up to
the position of its bucket); `Add` of a represented value changes nothing. -/
theorem values_add_perm {R : Rules α} {s : SetImpl α} (h : InvB R s) (x : α) :
    (has R s x = true ∧ add R s x = s) ∨
    (has R s x = false ∧ (values (add R s x)).Perm (x :: values s)) := by
  by_cases hh : has R s x = true
  · exact Or.inl ⟨hh, by rw [add_eq, hh]; simp⟩
  · have hh : has R s x = false := by simpa using hh
    refine Or.inr ⟨hh, ?_⟩
    rw [add_eq, hh]
    simp only [Bool.false_eq_true, if_false]
    exact values_setBucket_append_perm h.asc _ x

/-! ### remove -/

/-- What `Remove` does when the value is represented: the bucket of `hash x` is
`l₁ ++ m₀ :: l₂` with `m₀` the first member equivalent to `x`, and becomes
`l₁ ++ l₂` (deleted if that is empty). -/
theorem remove_of_has (R : Rules α) (s : SetImpl α) (x : α) (h : has R s x = true) :
    ∃ m0 l1 l2, lookup s.buckets (R.hash x) = some (l1 ++ m0 :: l2) ∧ R.equiv x m0 = true ∧
      remove R s x = (if (l1 ++ l2).isEmpty then ⟨delBucket s.buckets (R.hash x)⟩
        else ⟨setBucket s.buckets (R.hash x) (l1 ++ l2)⟩) := by
  simp only [has] at h
  split at h
  · cases h
  · rename_i b hb
    obtain ⟨m, hm, he⟩ := List.any_eq_true.mp h
    obtain ⟨m0, l1, l2, _, hp, hl, her⟩ :=
      List.exists_of_eraseP (p := fun ev => R.equiv x ev) hm he
    refine ⟨m0, l1, l2, by rw [hb, hl], hp, ?_⟩
    simp only [remove, hb, h, if_true, her]

theorem mem_values_remove_aux {bs : List (Int × List α)} (ha : Asc bs) (h : Int) (nb : List α)
    (m : α) :
    m ∈ values (if nb.isEmpty then (⟨delBucket bs h⟩ : SetImpl α) else ⟨setBucket bs h nb⟩) ↔
      m ∈ nb ∨ ∃ p ∈ bs, p.1 ≠ h ∧ m ∈ p.2 := by
  split
  · rename_i he
    have : nb = [] := by simpa using he
    subst this
    rw [mem_values_delBucket ha]
    simp
  · exact mem_values_setBucket ha h nb m

theorem invB_remove {R : Rules α} {s : SetImpl α} (h : InvB R s) (x : α) :
    InvB R (remove R s x) := by
  by_cases hh : has R s x = true
  · obtain ⟨m0, l1, l2, hb, _, hr⟩ := remove_of_has R s x hh
    rw [hr]
    have hmem := mem_of_lookup hb
    have hsub : (l1 ++ l2).Sublist (l1 ++ m0 :: l2) :=
      (List.sublist_cons_self m0 l2).append_left l1
    split
    · refine ⟨asc_delBucket h.asc _, ?_, ?_, ?_⟩
      · intro p hp; exact h.nonempty p ((mem_delBucket h.asc _ p).mp hp).1
      · intro p hp; exact h.hashed p ((mem_delBucket h.asc _ p).mp hp).1
      · intro p hp; exact h.nodupB p ((mem_delBucket h.asc _ p).mp hp).1
    · rename_i hne
      refine ⟨asc_setBucket h.asc _ _, ?_, ?_, ?_⟩
      · intro p hp
        rcases (mem_setBucket h.asc _ _ p).mp hp with rfl | ⟨hp, _⟩
        · simpa using hne
        · exact h.nonempty p hp
      · intro p hp m hm
        rcases (mem_setBucket h.asc _ _ p).mp hp with rfl | ⟨hp, _⟩
        · exact h.hashed _ hmem m (hsub.subset hm)
        · exact h.hashed p hp m hm
      · intro p hp
        rcases (mem_setBucket h.asc _ _ p).mp hp with rfl | ⟨hp, _⟩
        · exact List.Pairwise.sublist hsub (h.nodupB _ hmem)
        · exact h.nodupB p hp
  · have hh : has R s x = false := by simpa using hh
    rw [remove_of_not_has R s x hh]
    exact h

/-- `Remove` on the abstract set: delete the class of `x`. -/
theorem abs_remove {R : Rules α} (hR : R.Lawful) {s : SetImpl α} (h : InvB R s) (x y : α) :
    abs R (remove R s x) y ↔ abs R s y ∧ ¬ R.equiv y x = true := by
  by_cases hh : has R s x = true
  · obtain ⟨m0, l1, l2, hb, hx0, hr⟩ := remove_of_has R s x hh
    have hmem := mem_of_lookup hb
    have hpw := h.nodupB _ hmem
    simp only [Inequiv, List.pairwise_append, List.pairwise_cons] at hpw
    obtain ⟨_, ⟨h0l2, _⟩, hl1⟩ := hpw
    simp only [abs, hr, mem_values_remove_aux h.asc]
    constructor
    · rintro ⟨m, hm, he⟩
      rcases hm with hm | ⟨p, hp, hne, hm⟩
      · refine ⟨⟨m, mem_values.mpr ⟨_, hmem, ?_⟩, he⟩, ?_⟩
        · rcases List.mem_append.mp hm with hm | hm
          · exact List.mem_append_left _ hm
          · exact List.mem_append_right _ (List.mem_cons_of_mem _ hm)
        · intro hyx
          -- m ~ y ~ x ~ m0 although m and m0 are distinct members of one bucket
          have hmm0 : R.equiv m m0 = true :=
            hR.trans m y m0 (hR.symm y m he) (hR.trans y x m0 hyx hx0)
          rcases List.mem_append.mp hm with hm | hm
          · have := hl1 m hm m0 (by simp)
            rw [hmm0] at this; cases this
          · have := Lawful.equiv_false_symm hR (h0l2 m hm)
            rw [hmm0] at this; cases this
      · refine ⟨⟨m, mem_values.mpr ⟨p, hp, hm⟩, he⟩, ?_⟩
        intro hyx
        have h1 := hR.hash_eq y x hyx
        have h2 := hR.hash_eq y m he
        have h3 := h.hashed p hp m hm
        omega
    · rintro ⟨⟨m, hm, he⟩, hnot⟩
      obtain ⟨p, hp, hmp⟩ := mem_values.mp hm
      by_cases hk : p.1 = R.hash x
      · have hpb : p.2 = l1 ++ m0 :: l2 := by
          have h1 := lookup_of_mem h.asc (h := p.1) (b := p.2) hp
          rw [hk, hb] at h1
          exact (Option.some.inj h1).symm
        rw [hpb] at hmp
        refine ⟨m, Or.inl ?_, he⟩
        rcases List.mem_append.mp hmp with hm1 | hm1
        · exact List.mem_append_left _ hm1
        · rcases List.mem_cons.mp hm1 with rfl | hm1
          · exact absurd (hR.trans y m x he (hR.symm x m hx0)) hnot
          · exact List.mem_append_right _ hm1
      · exact ⟨m, Or.inr ⟨p, hp, hk, hmp⟩, he⟩
  · have hh : has R s x = false := by simpa using hh
    rw [remove_of_not_has R s x hh]
    constructor
    · intro ha
      refine ⟨ha, ?_⟩
      intro hyx
      have := (has_iff_abs hR h x).mpr ((abs_congr hR s hyx).mp ha)
      rw [hh] at this; cases this
    · exact fun ha => ha.1

/-! ### copy, length -/

theorem copy_eq_self {R : Rules α} {s : SetImpl α} (h : InvB R s) : copy s = s :=
  copy_eq h.asc

/-- A list of pairwise inequivalent values, each equivalent to some element of
`l₂`, is no longer than `l₂` (pigeonhole over equivalence classes). -/
theorem length_le_of_cover {R : Rules α} (hR : R.Lawful) :
    ∀ (l1 l2 : List α), Inequiv R l1 → (∀ a ∈ l1, ∃ b ∈ l2, R.equiv a b = true) →
      l1.length ≤ l2.length
  | [], _, _, _ => by simp
  | a :: l1, l2, hpw, hcov => by
    obtain ⟨b, hb, hab⟩ := hcov a (by simp)
    obtain ⟨p, q, rfl⟩ := List.append_of_mem hb
    have ⟨ha1, hpw1⟩ := List.pairwise_cons.mp hpw
    have : l1.length ≤ (p ++ q).length := by
      apply length_le_of_cover hR l1 (p ++ q) hpw1
      intro c hc
      obtain ⟨d, hd, hcd⟩ := hcov c (List.mem_cons_of_mem _ hc)
      refine ⟨d, ?_, hcd⟩
      rcases List.mem_append.mp hd with hd | hd
      · exact List.mem_append_left _ hd
      · rcases List.mem_cons.mp hd with rfl | hd
        · -- then a ~ d ~ c, contradicting pairwise inequivalence
          have hac : R.equiv a c = true := hR.trans a d c hab (hR.symm c d hcd)
          have := ha1 c hc
          rw [hac] at this; cases this
        · exact List.mem_append_right _ hd
    simp only [List.length_cons, List.length_append] at this ⊢
    omega

/-- Two representations of the same abstract set have the same number of
members: `Length` is the number of equivalence classes represented. -/
theorem length_eq_of_abs_eq {R : Rules α} (hR : R.Lawful) {s1 s2 : SetImpl α}
    (h1 : Inv R s1) (h2 : Inv R s2) (h : ∀ y, abs R s1 y ↔ abs R s2 y) :
    length s1 = length s2 := by
  rw [length_eq_values_length, length_eq_values_length]
  apply Nat.le_antisymm
  · apply length_le_of_cover hR _ _ h1.nodup
    intro a ha
    exact (h a).mp ⟨a, ha, hR.refl a⟩
  · apply length_le_of_cover hR _ _ h2.nodup
    intro a ha
    exact (h a).mpr ⟨a, ha, hR.refl a⟩

end SetImpl
end CtyModel
