/-
d03b — values that CONTAIN SETS, transliterated to set-free values.

`appendSetHashBytes` and `RawEquals` treat a set-typed value as the LIST of its
members in `Less` order (`ForEachElement` / `AsValueSlice` iterate a set through
`set.Values()`, which sorts by `setRules.Less`).  `canon` makes that explicit:
every set node is replaced by the list of its (recursively transliterated)
members sorted by the specification of `Less` (`lessEnc`), and `Ty.enc` replaces
`set e` by `list e`.  `d03bEncTie.lean` proves that the model functions the
harness diffs (`hashS`/`rawK` tied through `lvl`) compute on a set-containing
value exactly what they compute on its transliteration — so every law proved on
set-free types (RawEquals is an equivalence, RawEquals values hash alike, the hash
text is injective up to `sameShape`) carries over to values with sets at any depth.
-/
import CtyModel.Lemmas.d03bLess
namespace CtyModel
namespace D03b
open Value SetImpl

theorem canonAll_eq_map (e : Ty) : ∀ vs, canonAll e vs = vs.map (canon e)
  | [] => rfl
  | v :: vs => by simp [canonAll, canonAll_eq_map e vs]

/-! ### list predicates as ∀-statements -/

theorem shapedAll_iff {e : Ty} : ∀ {vs : List Payload}, Payload.shapedAll e vs = true ↔ ∀ v ∈ vs, v.shaped e = true
  | [] => by simp [Payload.shapedAll]
  | v :: vs => by simp [Payload.shapedAll, shapedAll_iff (vs := vs)]

theorem quotableL_iff : ∀ {vs : List Payload}, Payload.quotableL vs = true ↔ ∀ v ∈ vs, v.quotable = true
  | [] => by simp [Payload.quotableL]
  | v :: vs => by simp [Payload.quotableL, quotableL_iff (vs := vs)]

theorem cleanL_iff : ∀ {vs : List Payload}, Payload.containsMarkedL vs = false ↔ ∀ v ∈ vs, v.containsMarked = false
  | [] => by simp [Payload.containsMarkedL]
  | v :: vs => by simp [Payload.containsMarkedL, cleanL_iff (vs := vs)]

/-! ### the transliteration keeps well-formedness -/

/-- the carrier: well-formed, no mark at any depth, quotable strings -/
def G (t : Ty) (p : Payload) : Prop := p.shaped t = true ∧ p.containsMarked = false ∧ p.quotable = true

def GAll (e : Ty) (vs : List Payload) : Prop :=
  Payload.shapedAll e vs = true ∧ Payload.containsMarkedL vs = false ∧ Payload.quotableL vs = true

def GZip (ts : List Ty) (vs : List Payload) : Prop :=
  Payload.shapedZip ts vs = true ∧ Payload.containsMarkedL vs = false ∧ Payload.quotableL vs = true

theorem GAll_iff {e : Ty} {vs : List Payload} : GAll e vs ↔ ∀ v ∈ vs, G e v := by
  simp only [GAll, G, shapedAll_iff, cleanL_iff, quotableL_iff]
  exact ⟨fun h v hv => ⟨h.1 v hv, h.2.1 v hv, h.2.2 v hv⟩,
    fun h => ⟨fun v hv => (h v hv).1, fun v hv => (h v hv).2.1, fun v hv => (h v hv).2.2⟩⟩

theorem GAll_cons {e : Ty} {v : Payload} {vs : List Payload} (h : GAll e (v :: vs)) : G e v ∧ GAll e vs := by
  simp only [GAll, G, Payload.shapedAll, Payload.containsMarkedL, Payload.quotableL, Bool.and_eq_true,
    Bool.or_eq_false_iff] at h ⊢
  exact ⟨⟨h.1.1, h.2.1.1, h.2.2.1⟩, h.1.2, h.2.1.2, h.2.2.2⟩

theorem GZip_cons {t : Ty} {ts : List Ty} {v : Payload} {vs : List Payload} (h : GZip (t :: ts) (v :: vs)) :
    G t v ∧ GZip ts vs := by
  simp only [GZip, G, Payload.shapedZip, Payload.containsMarkedL, Payload.quotableL, Bool.and_eq_true,
    Bool.or_eq_false_iff] at h ⊢
  exact ⟨⟨h.1.1, h.2.1.1, h.2.2.1⟩, h.1.2, h.2.1.2, h.2.2.2⟩

end D03b
end CtyModel
