/-
C15 (d15) — `sortG` when keys REPEAT: the last member in document order stands (as assigning
into a Go map does), the output is strictly ascending, and the value listed under a key is the
`lookLG` (last-occurrence lookup) of that key in the input.
-/
import CtyModel.Lemmas.d15Sort
namespace CtyModel
namespace JsonVal
open Ty

variable {α β : Type}

/-- the value stored under `k` by `m[k] = v` in document order (generic `lookupLast`) -/
def lookLG (k : String) : List String → List α → Option α
  | n :: ns, v :: vs =>
    match lookLG k ns vs with
    | some r => some r
    | none => if n = k then some v else none
  | _, _ => none

theorem lookupLast_eq_lookLG (k : String) : ∀ (ns : List String) (vs : List Value),
    lookupLast k ns vs = lookLG k ns vs
  | [], _ => by simp [lookupLast, lookLG]
  | _ :: _, [] => by simp [lookupLast, lookLG]
  | n :: ns, v :: vs => by
    simp only [lookupLast, lookLG, lookupLast_eq_lookLG k ns vs]
    cases lookLG k ns vs <;> rfl

theorem lookLG_none {k : String} : ∀ (ns : List String) (vs : List α), k ∉ ns → lookLG k ns vs = none
  | [], _, _ => by simp [lookLG]
  | _ :: _, [], _ => by simp [lookLG]
  | n :: ns, v :: vs, h => by
    have hn : n ≠ k := fun e => h (by simp [e])
    simp [lookLG, lookLG_none ns vs (fun hm => h (List.mem_cons_of_mem _ hm)), hn]

theorem lookLG_some_of_mem {k : String} : ∀ (ns : List String) (vs : List α), ns.length = vs.length → k ∈ ns →
    ∃ a, lookLG k ns vs = some a
  | [], _, _, h => by simp at h
  | _ :: _, [], h, _ => by simp at h
  | n :: ns, v :: vs, hl, h => by
    simp only [lookLG]
    cases hr : lookLG k ns vs with
    | some r => exact ⟨r, rfl⟩
    | none =>
      rcases List.mem_cons.mp h with rfl | h
      · exact ⟨v, by simp⟩
      · obtain ⟨a, ha⟩ := lookLG_some_of_mem ns vs (by simpa using hl) h
        rw [ha] at hr; cases hr

theorem lookLG_cons_of_some {k n : String} {a x : α} {ns : List String} {vs : List α}
    (h : lookLG k ns vs = some x) : lookLG k (n :: ns) (a :: vs) = some x := by
  simp [lookLG, h]

/-- the looked-up value is a member under that key: whatever holds of all members holds of it -/
theorem lookLG_prop {P : String → α → Prop} {k : String} : ∀ (ns : List String) (vs : List α) (a : α),
    (∀ p ∈ ns.zip vs, P p.1 p.2) → lookLG k ns vs = some a → P k a
  | [], _, _, _, h => by simp [lookLG] at h
  | _ :: _, [], _, _, h => by simp [lookLG] at h
  | n :: ns, v :: vs, a, hp, h => by
    simp only [lookLG] at h
    cases hr : lookLG k ns vs with
    | some r =>
      rw [hr] at h
      simp at h; subst h
      exact lookLG_prop ns vs r (fun p hp' => hp p (by simp [hp'])) hr
    | none =>
      rw [hr] at h
      by_cases hn : n = k
      · simp [hn] at h; subst h; subst hn
        exact hp (n, v) (by simp)
      · simp [hn] at h

/-- parallel lookups in two pointwise-related value lists are related -/
theorem lookLG_rel {R : α → β → Prop} {k : String} : ∀ (ns : List String) (as : List α) (bs : List β),
    All2 R as bs → ∀ a, lookLG k ns as = some a → ∃ b, lookLG k ns bs = some b ∧ R a b
  | [], _, _, _, _, h => by simp [lookLG] at h
  | _ :: _, [], _, _, _, h => by simp [lookLG] at h
  | _ :: _, _ :: _, [], hr, _, _ => by simp [All2] at hr
  | n :: ns, x :: as, y :: bs, hr, a, h => by
    simp only [All2] at hr
    simp only [lookLG] at h ⊢
    cases hx : lookLG k ns as with
    | some r =>
      rw [hx] at h; simp at h; subst h
      obtain ⟨b, hb, hrb⟩ := lookLG_rel ns as bs hr.2 r hx
      exact ⟨b, by simp [hb], hrb⟩
    | none =>
      rw [hx] at h
      have hnone : lookLG k ns bs = none := by
        cases hy : lookLG k ns bs with
        | none => rfl
        | some b =>
          exfalso
          -- a hit in `bs` means the key occurs, hence a hit in `as` too
          have hlen := All2_length hr.2
          have hmem : k ∈ ns := by
            apply Classical.byContradiction
            intro hk
            rw [lookLG_none ns bs hk] at hy; cases hy
          have hl : ns.length = as.length ∨ True := .inr trivial
          -- lengths: ns may be longer or shorter; use the zipped recursion instead
          exact absurd hx (by
            intro hx'
            have := lookLG_hit_sym ns as bs hlen hy
            rw [hx'] at this; cases this)
      by_cases hn : n = k
      · simp [hn] at h; subst h
        exact ⟨y, by simp [hnone, hn], hr.1⟩
      · simp [hn] at h
where
  lookLG_hit_sym {k : String} : ∀ (ns : List String) (as : List α) (bs : List β), as.length = bs.length →
      ∀ {b}, lookLG k ns bs = some b → (lookLG k ns as).isSome = true
    | [], _, _, _, _, h => by simp [lookLG] at h
    | _ :: _, _, [], _, _, h => by simp [lookLG] at h
    | _ :: _, [], _ :: _, hl, _, _ => by simp at hl
    | n :: ns, x :: as, y :: bs, hl, b, h => by
      simp only [lookLG] at h ⊢
      cases hy : lookLG k ns bs with
      | some r =>
        have := lookLG_hit_sym ns as bs (by simpa using hl) hy
        cases hx : lookLG k ns as with
        | some _ => simp
        | none => rw [hx] at this; simp at this
      | none =>
        rw [hy] at h
        by_cases hn : n = k
        · cases hx : lookLG k ns as <;> simp [hn]
        · simp [hn] at h

theorem lookLG_map (f : α → β) (k : String) : ∀ (ns : List String) (as : List α),
    lookLG k ns (as.map f) = (lookLG k ns as).map f
  | [], _ => by simp [lookLG]
  | _ :: _, [] => by simp [lookLG]
  | n :: ns, a :: as => by
    simp only [List.map_cons, lookLG, lookLG_map f k ns as]
    cases lookLG k ns as with
    | some r => simp
    | none => by_cases hn : n = k <;> simp [hn]

/-! ### the output is strictly ascending, whatever the values -/

theorem sortG_asc (ks : List String) (as : List α) (hl : ks.length = as.length) :
    strictAsc (sortG ks as).1 = true := by
  have h1 : (sortG ks as).1 = (sortG ks (as.map fun _ => Ty.dyn)).1 := sortG_keys _ _ _ (by simp)
  have h2 := buildFields_eq_sortG id ks (as.map fun _ => Ty.dyn)
  simp only [List.map_id] at h2
  rw [h1, ← h2]
  exact (buildFields_spec id ks _ (by simpa using hl)).1

theorem sortG_mem_iff (ks : List String) (as : List α) (hl : ks.length = as.length) (x : String) :
    x ∈ (sortG ks as).1 ↔ x ∈ ks := by
  have h1 : (sortG ks as).1 = (sortG ks (as.map fun _ => Ty.dyn)).1 := sortG_keys _ _ _ (by simp)
  have h2 := buildFields_eq_sortG id ks (as.map fun _ => Ty.dyn)
  simp only [List.map_id] at h2
  rw [h1, ← h2]
  simpa using (buildFields_spec id ks _ (by simpa using hl)).2.2 x

/-- inserting a key that is already there changes nothing -/
theorem insG_present (k : String) (a : α) : ∀ (ns : List String) (us : List α), strictAsc ns = true →
    ns.length = us.length → k ∈ ns → insG k a ns us = (ns, us)
  | [], _, _, _, h => by simp at h
  | _ :: _, [], _, hl, _ => by simp at hl
  | n :: ns, u :: us, hs, hl, h => by
    have ⟨hs', hlt⟩ := strictAsc_cons hs
    simp only [insG]
    rcases List.mem_cons.mp h with rfl | h
    · simp [String.lt_irrefl]
    · have hnk : n < k := hlt k h
      have h1 : ¬ k < n := String.lt_asymm hnk
      have h2 : ¬ k = n := fun e => String.lt_irrefl _ (e ▸ hnk)
      simp [h1, h2, insG_present k a ns us hs' (by simpa using hl) h]

theorem map_some_pointwise {γ : Type} {f : String → Option γ} : ∀ {l : List String} {r : List γ},
    l.map f = r.map some → ∀ n ∈ l, ∃ x, f n = some x
  | [], _, _, n, h => by simp at h
  | a :: l, [], h, _, _ => by simp at h
  | a :: l, x :: r, h, n, hn => by
    simp only [List.map_cons, List.cons.injEq] at h
    rcases List.mem_cons.mp hn with rfl | hn
    · exact ⟨x, h.1⟩
    · exact map_some_pointwise h.2 n hn

/-- under each key of the output stands the LAST member of the input with that key -/
theorem sortG_lookLG : ∀ (ks : List String) (as : List α), ks.length = as.length →
    (sortG ks as).1.map (fun n => lookLG n ks as) = (sortG ks as).2.map some
  | [], _, _ => by simp [sortG]
  | _ :: _, [], h => by simp at h
  | k :: ks, a :: as, hl => by
    have hl' : ks.length = as.length := by simpa using hl
    have ih := sortG_lookLG ks as hl'
    have ih' : (sortG ks as).1.map (fun n => lookLG n (k :: ks) (a :: as)) = (sortG ks as).2.map some := by
      rw [← ih]
      apply List.map_congr_left
      intro n hn
      obtain ⟨x, hx⟩ := map_some_pointwise ih n hn
      simp only [hx]
      exact lookLG_cons_of_some hx
    simp only [sortG]
    by_cases hk : k ∈ (sortG ks as).1
    · rw [insG_present k a _ _ (sortG_asc ks as hl') (sortG_length ks as) hk]
      exact ih'
    · have hk' : k ∉ ks := fun hm => hk ((sortG_mem_iff ks as hl' k).mpr hm)
      apply insG_map_rel
      · simp [lookLG, lookLG_none ks as hk']
      · exact ih'

/-- values that are a function of the key stay so -/
theorem insG_graph (G : String → α) (k : String) : ∀ (ns : List String),
    (insG k (G k) ns (ns.map G)).2 = (insG k (G k) ns (ns.map G)).1.map G
  | [] => by simp [insG]
  | n :: ns => by
    simp only [List.map_cons, insG]
    by_cases h1 : k < n
    · simp [h1]
    · by_cases h2 : k = n
      · simp [h1, h2]
      · simp [h1, h2, insG_graph G k ns]

theorem sortG_graph (G : String → α) : ∀ (ks : List String),
    (sortG ks (ks.map G)).2 = (sortG ks (ks.map G)).1.map G
  | [] => by simp [sortG]
  | k :: ks => by
    have ih := sortG_graph G ks
    simp only [List.map_cons, sortG]
    rw [ih]
    exact insG_graph G k _

/-- two strictly ascending lists with the same members are equal -/
theorem asc_ext (l₁ l₂ : List String) (h₁ : strictAsc l₁ = true) (h₂ : strictAsc l₂ = true)
    (h : ∀ x, x ∈ l₁ ↔ x ∈ l₂) : l₁ = l₂ := by
  have a := List.Nodup.length_le_of_subset (strictAsc_nodup h₁) (fun x hx => (h x).mp hx)
  have b := List.Nodup.length_le_of_subset (strictAsc_nodup h₂) (fun x hx => (h x).mpr hx)
  exact asc_subset_eq l₁ l₂ h₁ h₂ (by omega) (fun x hx => (h x).mp hx)

end JsonVal
end CtyModel
