/-
d14 — `formatdate`: the tokenizer loses nothing and classifies every token; what the verbs
render (12-hour clock, zone offsets with minutes, two-digit fields); unknown verbs fail.
-/
import CtyModel.Stdlib.Glue
namespace CtyModel
namespace StdNum

/-! ### tokenizer -/

theorem takeWhile_append_drop (p : Char → Bool) (l : List Char) :
    l.takeWhile p ++ l.drop (l.takeWhile p).length = l := by
  induction l with
  | nil => rfl
  | cons a t ih =>
    by_cases h : p a = true
    · simp [List.takeWhile, h, ih]
    · simp [List.takeWhile, h]

theorem mem_takeWhile_true (p : Char → Bool) (l : List Char) : ∀ d ∈ l.takeWhile p, p d = true := by
  induction l with
  | nil => intro d hd; cases hd
  | cons a t ih =>
    intro d hd
    by_cases h : p a = true
    · simp only [List.takeWhile, h] at hd
      rcases List.mem_cons.mp hd with rfl | hd
      · exact h
      · exact ih d hd
    · simp [List.takeWhile, h] at hd

theorem quotedScan_concat_aux (n : Nat) : ∀ (cs acc : List Char), cs.length ≤ n →
    (quotedScan cs acc).1 ++ (quotedScan cs acc).2 = acc.reverse ++ cs := by
  induction n with
  | zero =>
    intro cs acc h
    cases cs with
    | nil => simp [quotedScan]
    | cons c t => simp at h
  | succ n ih =>
    intro cs acc h
    cases cs with
    | nil => simp [quotedScan]
    | cons c rest =>
      simp only [List.length_cons] at h
      by_cases hc : (c == '\'') = true
      · cases rest with
        | nil => simp [quotedScan, hc]
        | cons d rest' =>
          simp only [List.length_cons] at h
          by_cases hd : (d == '\'') = true
          · simp only [quotedScan, hc, hd, if_true]
            rw [ih rest' _ (by omega)]; simp
          · simp [quotedScan, hc, hd]
      · have hc' : (c == '\'') = false := by simpa using hc
        have hq : quotedScan (c :: rest) acc = quotedScan rest (c :: acc) := by
          cases rest <;> simp [quotedScan, hc']
        rw [hq, ih rest _ (by omega)]; simp

theorem quotedScan_concat (cs acc : List Char) :
    (quotedScan cs acc).1 ++ (quotedScan cs acc).2 = acc.reverse ++ cs :=
  quotedScan_concat_aux cs.length cs acc (Nat.le_refl _)

/-- a token and the rest make up the input: the tokenizer drops or invents nothing -/
theorem nextToken_concat (cs : List Char) : (nextToken cs).1 ++ (nextToken cs).2 = cs := by
  cases cs with
  | nil => rfl
  | cons c rest =>
    simp only [nextToken]
    split
    · rename_i hc
      have h1 : c = '\'' := by simpa using hc
      subst h1
      cases rest with
      | nil => rfl
      | cons d rest' =>
        simp only
        split
        · rename_i hd
          have h2 : d = '\'' := by simpa using hd
          subst h2; rfl
        · have := quotedScan_concat (d :: rest') []
          simp only [List.cons_append]
          rw [this]; rfl
    · split
      · simp only [List.cons_append, List.cons.injEq, true_and]
        exact takeWhile_append_drop _ rest
      · simp only [List.cons_append, List.cons.injEq, true_and]
        exact takeWhile_append_drop _ rest

theorem nextToken_nonempty (c : Char) (rest : List Char) : (nextToken (c :: rest)).1 ≠ [] := by
  simp only [nextToken]
  split
  · cases rest with
    | nil => simp
    | cons d rest' => simp only; split <;> simp
  · split <;> simp

theorem nextToken_rest_shorter (c : Char) (rest : List Char) :
    (nextToken (c :: rest)).2.length < (c :: rest).length := by
  have h1 := nextToken_concat (c :: rest)
  have h2 := nextToken_nonempty c rest
  have h3 := congrArg List.length h1
  simp only [List.length_append] at h3
  have : 0 < (nextToken (c :: rest)).1.length := List.length_pos_iff.mpr h2
  omega

/-- **The tokenizer loses nothing**: with enough fuel (the model passes `length + 1`) the
tokens, concatenated, are the format string. -/
theorem tokenize_flatten (fuel : Nat) (cs : List Char) (h : cs.length < fuel) :
    (tokenize fuel cs).flatten = cs := by
  induction fuel generalizing cs with
  | zero => omega
  | succ n ih =>
    cases cs with
    | nil => simp [tokenize]
    | cons c rest =>
      simp only [tokenize, List.flatten_cons]
      have hs := nextToken_rest_shorter c rest
      rw [ih _ (by simp only [List.length_cons] at h hs ⊢; omega)]
      exact nextToken_concat (c :: rest)

/-- fuel is immaterial once it exceeds the length -/
theorem tokenize_fuel (fuel fuel' : Nat) (cs : List Char) (h : cs.length < fuel) (h' : cs.length < fuel') :
    tokenize fuel cs = tokenize fuel' cs := by
  induction fuel generalizing fuel' cs with
  | zero => omega
  | succ n ih =>
    cases fuel' with
    | zero => omega
    | succ m =>
      cases cs with
      | nil => simp [tokenize]
      | cons c rest =>
        simp only [tokenize]
        have hs := nextToken_rest_shorter c rest
        simp only [List.length_cons] at h h' hs
        rw [ih m _ (by omega) (by omega)]

/-- every token is of one of three kinds: it starts with a quote (a quoted literal or `''`),
it is a run of ONE letter (a verb), or it holds neither a letter nor a quote (literal text) -/
theorem nextToken_kind (c : Char) (rest : List Char) :
    (c = '\'') ∨
    (isVerbStart c = true ∧ ∃ k, (nextToken (c :: rest)).1 = List.replicate (k + 1) c) ∨
    (∀ d ∈ (nextToken (c :: rest)).1.drop 1, (d == '\'' || isVerbStart d) = false) := by
  by_cases hq : c = '\''
  · left; exact hq
  · right
    have hq' : (c == '\'') = false := by simpa using hq
    simp only [nextToken, hq', Bool.false_eq_true, if_false]
    by_cases hv : isVerbStart c = true
    · left
      refine ⟨hv, (List.takeWhile (· == c) rest).length, ?_⟩
      simp only [hv, if_true]
      have : ∀ l : List Char, List.takeWhile (· == c) l = List.replicate (List.takeWhile (· == c) l).length c := by
        intro l
        induction l with
        | nil => rfl
        | cons a t ih =>
          by_cases ha : (a == c) = true
          · have : a = c := by simpa using ha
            subst this
            simp only [List.takeWhile, beq_self_eq_true, List.length_cons, List.replicate_succ]
            rw [← ih]
          · simp [List.takeWhile, ha]
      rw [List.replicate_succ, ← this rest]
    · right
      simp only [hv, Bool.false_eq_true, if_false, List.drop_succ_cons, List.drop_zero]
      intro d hd
      have := mem_takeWhile_true _ rest d hd
      simpa using this

/-! ### verbs -/

/-- the hour on a 12-hour clock face -/
def hour12 (h : Nat) : Nat := if h % 12 == 0 then 12 else h % 12

theorem hour12_range (h : Nat) : 1 ≤ hour12 h ∧ hour12 h ≤ 12 ∧ hour12 h % 12 = h % 12 := by
  unfold hour12
  split
  · rename_i h0
    have : h % 12 = 0 := by simpa using h0
    omega
  · rename_i h0
    have : h % 12 ≠ 0 := by simpa using h0
    have := Nat.mod_lt h (by decide : 12 > 0)
    refine ⟨by omega, by omega, ?_⟩
    rw [Nat.mod_mod]

/-- **12-hour clock**: `H` / `HH` show 12 at midnight and at noon and 1…11 otherwise; `AA` /
`aa` say AM before noon and PM from noon on (noon itself is 12 PM). -/
theorem clock12 (t : Time) (h24 : t.hour < 24) :
    verbText t 'H' 1 = .ok (toString (hour12 t.hour)) ∧ verbText t 'H' 2 = .ok (pad2 (hour12 t.hour)) ∧
    verbText t 'A' 2 = .ok (if t.hour < 12 then "AM" else "PM") ∧
    verbText t 'a' 2 = .ok (if t.hour < 12 then "am" else "pm") := by
  have hdiv : t.hour / 12 = 0 ∨ t.hour / 12 = 1 := by omega
  refine ⟨by simp [verbText, hour12], by simp [verbText, hour12], ?_, ?_⟩
  · rcases hdiv with hd | hd
    · have : t.hour < 12 := by omega
      simp [verbText, hd, this]
    · have : ¬ t.hour < 12 := by omega
      simp [verbText, hd, this]
  · rcases hdiv with hd | hd
    · have : t.hour < 12 := by omega
      simp [verbText, hd, this]
    · have : ¬ t.hour < 12 := by omega
      simp [verbText, hd, this]

/-- the zone verbs on an offset of ±(h hours m minutes): sign, two-digit hours, two-digit
MINUTES (a negative offset with minutes, −03:30, keeps its minutes and its sign) -/
theorem zoneNum_spec (neg : Bool) (h m : Nat) (hm : m < 60) (hnz : neg = true → 0 < h * 3600 + m * 60) (colon : Bool) :
    zoneNum (if neg then -((h * 3600 + m * 60 : Nat) : Int) else ((h * 3600 + m * 60 : Nat) : Int)) colon =
      (if neg then "-" else "+") ++ pad2 h ++ (if colon then ":" else "") ++ pad2 m := by
  have h1 : (h * 3600 + m * 60) / 60 = h * 60 + m := by omega
  have h2 : (h * 60 + m) / 60 = h := by omega
  have h3 : (h * 60 + m) % 60 = m := by omega
  cases neg with
  | false =>
    have : ¬ (((h * 3600 + m * 60 : Nat) : Int) < 0) := by omega
    simp only [zoneNum, Bool.false_eq_true, if_false, this, Int.natAbs_natCast, h1, h2, h3]
  | true =>
    have hp := hnz rfl
    have : (-((h * 3600 + m * 60 : Nat) : Int) < 0) := by omega
    simp only [zoneNum, if_true, this, Int.natAbs_neg, Int.natAbs_natCast, h1, h2, h3]

/-- a letter that is not a verb, or a verb repeated an unsupported number of times, is an error -/
theorem verbText_unknown (t : Time) (c : Char) (n : Nat)
    (h : c ≠ 'Y' ∧ c ≠ 'M' ∧ c ≠ 'D' ∧ c ≠ 'E' ∧ c ≠ 'h' ∧ c ≠ 'H' ∧ c ≠ 'A' ∧ c ≠ 'a' ∧ c ≠ 'm' ∧ c ≠ 's' ∧ c ≠ 'Z') :
    verbText t c n = .err "invalid date format verb" := by
  obtain ⟨h1, h2, h3, h4, h5, h6, h7, h8, h9, h10, h11⟩ := h
  unfold verbText
  split <;> first | rfl | (exfalso; simp_all)

/-- two-digit fields: for n < 100 exactly two decimal digits denoting n -/
theorem pad2_spec : ∀ n, n < 100 → (pad2 n).toList = [Nat.digitChar (n / 10), Nat.digitChar (n % 10)] := by
  decide

/-- the verbs: each renders the field it names -/
theorem verb_table (t : Time) :
    verbText t 'Y' 4 = .ok (pad4 t.year) ∧ verbText t 'Y' 2 = .ok (pad2 (t.year % 100)) ∧
    verbText t 'M' 2 = .ok (pad2 t.month) ∧ verbText t 'M' 1 = .ok (toString t.month) ∧
    verbText t 'M' 4 = .ok (monthName t.month) ∧
    verbText t 'D' 2 = .ok (pad2 t.day) ∧ verbText t 'D' 1 = .ok (toString t.day) ∧
    verbText t 'E' 4 = .ok (dayName t.weekday) ∧
    verbText t 'h' 2 = .ok (pad2 t.hour) ∧ verbText t 'h' 1 = .ok (toString t.hour) ∧
    verbText t 'm' 2 = .ok (pad2 t.minute) ∧ verbText t 'm' 1 = .ok (toString t.minute) ∧
    verbText t 's' 2 = .ok (pad2 t.second) ∧ verbText t 's' 1 = .ok (toString t.second) ∧
    verbText t 'Z' 4 = .ok (zoneNum t.offset false) ∧ verbText t 'Z' 5 = .ok (zoneNum t.offset true) ∧
    verbText t 'Z' 1 = .ok (if t.offset == 0 then "Z" else zoneNum t.offset true) := by
  simp [verbText]

/-- unsupported repetition counts are errors (`YYY`, `DDD`, `hhh`, `A`, `ZZ`, …) -/
theorem verb_bad_counts (t : Time) :
    verbText t 'Y' 3 = .err "year" ∧ verbText t 'Y' 1 = .err "year" ∧ verbText t 'M' 5 = .err "month" ∧
    verbText t 'D' 3 = .err "day" ∧ verbText t 'E' 2 = .err "weekday" ∧ verbText t 'h' 3 = .err "hour" ∧
    verbText t 'H' 3 = .err "hour" ∧ verbText t 'A' 1 = .err "AA" ∧ verbText t 'a' 3 = .err "aa" ∧
    verbText t 'm' 3 = .err "minute" ∧ verbText t 's' 3 = .err "second" ∧ verbText t 'Z' 2 = .err "timezone" := by
  simp [verbText]

end StdNum
end CtyModel
