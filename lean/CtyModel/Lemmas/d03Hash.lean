/-
d03 — "any two values that are equal have the same hash", stated directly on
`Value.hashBytes` / `Value.hash` (not through the totalised `ctyRules.hash`), for
an infinite family of members (all numbers integers, any precisions), and the
fact that the hash of a well-formed value of a plain type whose strings the
model can quote is COMPUTED (`.ok`), so that the defaults in `ctyRules` are never
taken there.
-/
import CtyModel.Lemmas.d03Num
import CtyModel.SetRulesD03
import CtyModel.Lemmas.ValEqRules
namespace CtyModel
open Value

/-! ### the number leaves of a payload -/

mutual
theorem numsIn_of_subset (ns : List Num) : ∀ p : Payload, (∀ x ∈ p.nums, x ∈ ns) → p.numsIn ns = true
  | .n x, h => by
    simp only [Payload.numsIn, List.any_eq_true, decide_eq_true_eq, exists_eq_right]
    exact h x (by simp [Payload.nums])
  | .marked _ r, h => by
    simp only [Payload.numsIn]
    exact numsIn_of_subset ns r (by simpa [Payload.nums] using h)
  | .seq vs, h => by
    simp only [Payload.numsIn]
    exact numsInL_of_subset ns vs (by simpa [Payload.nums] using h)
  | .smap _ vs, h => by
    simp only [Payload.numsIn]
    exact numsInL_of_subset ns vs (by simpa [Payload.nums] using h)
  | .sset _ vs, h => by
    simp only [Payload.numsIn]
    exact numsInL_of_subset ns vs (by simpa [Payload.nums] using h)
  | .null, _ => rfl
  | .unk _, _ => rfl
  | .b _, _ => rfl
  | .s _, _ => rfl
  | .caps, _ => rfl
  | .bad _, _ => rfl
theorem numsInL_of_subset (ns : List Num) : ∀ vs : List Payload, (∀ x ∈ Payload.numsL vs, x ∈ ns) →
    Payload.numsInL ns vs = true
  | [], _ => rfl
  | v :: vs, h => by
    simp only [Payload.numsL, List.mem_append] at h
    simp only [Payload.numsInL, Bool.and_eq_true]
    exact ⟨numsIn_of_subset ns v (fun x hx => h x (Or.inl hx)),
      numsInL_of_subset ns vs (fun x hx => h x (Or.inr hx))⟩
end

/-! ### equal values have the same hash bytes -/

/-- hash bytes of a well-formed value of a plain type, at any nesting level -/
theorem hashBytesP_eq_hashS (sh : SetHashRec) {t : Ty} {p : Payload} (hp : t.plain = true) (wp : p.shaped t = true) :
    hashBytesP t p = hashS sh t p := by
  simp only [hashBytesP, lvl]
  exact hashS_sh_irrel _ sh t p hp wp

/-- raw-equal well-formed values of a plain type whose numbers come from a
hash-coherent list have the same hash bytes — an equation between the RESULTS of
`makeSetHashBytes`, whatever they are -/
theorem hashBytesP_eq_of_rawB {t : Ty} (hp : t.plain = true) {ns : List Num} (hc : HashCoherentNums ns = true)
    {a b : Payload} (wa : a.shaped t = true) (na : a.numsIn ns = true)
    (wb : b.shaped t = true) (nb : b.numsIn ns = true) (h : rawB t a b = true) :
    hashBytesP t a = hashBytesP t b := by
  rw [hashBytesP_eq_hashS (fun _ _ _ => .unmodelled) hp wa, hashBytesP_eq_hashS (fun _ _ _ => .unmodelled) hp wb]
  exact hashS_eq_of_rawB _ hc t a b hp wa wb na nb h

/-- …in particular when every number in either value is an integer -/
theorem hashBytesP_eq_of_rawB_ints {t : Ty} (hp : t.plain = true) {a b : Payload}
    (wa : a.shaped t = true) (ia : a.intNums = true) (wb : b.shaped t = true) (ib : b.intNums = true)
    (h : rawB t a b = true) : hashBytesP t a = hashBytesP t b := by
  refine hashBytesP_eq_of_rawB hp (ns := a.nums ++ b.nums) ?_ wa ?_ wb ?_ h
  · apply hashCoherentNums_of_allInt
    simp only [Payload.intNums] at ia ib
    simp [List.all_append, ia, ib]
  · exact numsIn_of_subset _ a (fun x hx => List.mem_append_left _ hx)
  · exact numsIn_of_subset _ b (fun x hx => List.mem_append_right _ hx)

theorem hash_eq_of_hashBytes_eq {a b : Value} (h : hashBytes a = hashBytes b)
    (hm : a.containsMarked = b.containsMarked) : Value.hash a = Value.hash b := by
  simp only [Value.hash, h, hm]

/-! ### the hash is computed wherever the model can quote the strings -/

theorem ok_of_isOk {α : Type} {r : Res α} (h : r.isOk = true) : ∃ x, r = .ok x := by
  cases r <;> simp [Res.isOk] at h
  exact ⟨_, rfl⟩

theorem app_ok {a b : Res Bytes} (ha : ∃ x, a = .ok x) (hb : ∃ y, b = .ok y) : ∃ z, Res.app a b = .ok z := by
  obtain ⟨x, rfl⟩ := ha
  obtain ⟨y, rfl⟩ := hb
  exact ⟨_, rfl⟩

mutual
theorem hashS_ok (sh : SetHashRec) : ∀ (t : Ty) (p : Payload), t.plain = true → p.shaped t = true →
    p.quotable = true → ∃ bs, hashS sh t p = .ok bs
  | t, .marked _ r, hp, hw, hq => by
    simp only [Payload.shaped, Bool.and_eq_true] at hw
    simp only [hashS]
    exact hashS_ok sh t r hp hw.2 (by simpa [Payload.quotable] using hq)
  | t, .unk _, _, _, _ => by cases t <;> exact ⟨_, rfl⟩
  | t, .null, _, _, _ => by cases t <;> exact ⟨_, rfl⟩
  | t, .b _, _, hw, _ => by
    simp only [Payload.shaped, Ty.isBool_iff] at hw
    subst hw; exact ⟨_, rfl⟩
  | t, .n _, _, hw, _ => by
    simp only [Payload.shaped, Ty.isNumber_iff] at hw
    subst hw; exact ⟨_, rfl⟩
  | t, .s v, _, hw, hq => by
    simp only [Payload.shaped, Ty.isString_iff] at hw
    subst hw
    simp only [Payload.quotable] at hq
    simpa [hashS] using ok_of_isOk hq
  | t, .seq xs, hp, hw, hq => by
    simp only [Payload.quotable] at hq
    cases t <;> simp [Payload.shaped] at hw
    case list e =>
      simp only [Ty.plain] at hp
      simp only [hashS]
      exact app_ok ⟨_, rfl⟩ (app_ok (hashAllS_ok sh e xs hp hw hq) ⟨_, rfl⟩)
    case tuple ts =>
      simp only [Ty.plain] at hp
      simp only [hashS]
      exact app_ok ⟨_, rfl⟩ (app_ok (hashZipS_ok sh ts xs hp hw hq) ⟨_, rfl⟩)
  | t, .smap ks xs, hp, hw, hq => by
    simp only [Payload.quotable, Bool.and_eq_true] at hq
    cases t <;> simp [Payload.shaped] at hw
    case map e =>
      simp only [Ty.plain] at hp
      simp only [hashS]
      exact app_ok ⟨_, rfl⟩ (app_ok (hashMapS_ok sh e ks xs hp hw.2 hq.1 hq.2) ⟨_, rfl⟩)
    case object ns ts os =>
      simp only [Ty.plain] at hp
      simp only [hashS]
      exact app_ok ⟨_, rfl⟩ (app_ok (hashZipS_ok sh ts xs hp hw.2 hq.2) ⟨_, rfl⟩)
  | t, .sset _ _, hp, hw, _ => by
    cases t <;> simp [Payload.shaped] at hw
    simp [Ty.plain] at hp
  | t, .caps, hp, hw, _ => by
    cases t <;> simp [Payload.shaped] at hw
    simp [Ty.plain] at hp
  | _, .bad _, _, hw, _ => by simp [Payload.shaped] at hw
theorem hashAllS_ok (sh : SetHashRec) : ∀ (e : Ty) (xs : List Payload), e.plain = true →
    Payload.shapedAll e xs = true → Payload.quotableL xs = true → ∃ bs, hashAllS sh e xs = .ok bs
  | _, [], _, _, _ => ⟨_, rfl⟩
  | e, x :: xs, hp, hw, hq => by
    simp only [Payload.shapedAll, Payload.quotableL, Bool.and_eq_true] at hw hq
    simp only [hashAllS]
    exact app_ok (hashS_ok sh e x hp hw.1 hq.1) (app_ok ⟨_, rfl⟩ (hashAllS_ok sh e xs hp hw.2 hq.2))
theorem hashZipS_ok (sh : SetHashRec) : ∀ (ts : List Ty) (xs : List Payload), Ty.plainL ts = true →
    Payload.shapedZip ts xs = true → Payload.quotableL xs = true → ∃ bs, hashZipS sh ts xs = .ok bs
  | [], xs, _, _, _ => by cases xs <;> exact ⟨_, rfl⟩
  | _ :: _, [], _, _, _ => ⟨_, rfl⟩
  | t :: ts, x :: xs, hp, hw, hq => by
    simp only [Payload.shapedZip, Payload.quotableL, Ty.plainL, Bool.and_eq_true] at hw hq hp
    simp only [hashZipS]
    exact app_ok (hashS_ok sh t x hp.1 hw.1 hq.1) (app_ok ⟨_, rfl⟩ (hashZipS_ok sh ts xs hp.2 hw.2 hq.2))
theorem hashMapS_ok (sh : SetHashRec) : ∀ (e : Ty) (ks : List String) (xs : List Payload), e.plain = true →
    Payload.shapedAll e xs = true → ks.all (fun k => (quote k).isOk) = true → Payload.quotableL xs = true →
    ∃ bs, hashMapS sh e ks xs = .ok bs
  | _, [], xs, _, _, _, _ => by cases xs <;> exact ⟨_, rfl⟩
  | _, _ :: _, [], _, _, _, _ => ⟨_, rfl⟩
  | e, k :: ks, x :: xs, hp, hw, hk, hq => by
    simp only [Payload.shapedAll, Payload.quotableL, List.all_cons, Bool.and_eq_true] at hw hq hk
    simp only [hashMapS]
    exact app_ok (ok_of_isOk hk.1) (app_ok ⟨_, rfl⟩ (app_ok (hashS_ok sh e x hp hw.1 hq.1)
      (app_ok ⟨_, rfl⟩ (hashMapS_ok sh e ks xs hp hw.2 hk.2 hq.2))))
end

/-- `Value.Hash` returns: on a well-formed, mark-free value of a plain type whose
strings are quotable the model computes the hash (no panic, not `.unmodelled`) -/
theorem hash_ok {t : Ty} {p : Payload} (hp : t.plain = true) (wp : p.shaped t = true)
    (mp : p.containsMarked = false) (hq : p.quotable = true) :
    ∃ bs, hashBytes ⟨t, p⟩ = .ok bs ∧ Value.hash ⟨t, p⟩ = .ok (crc32 bs) := by
  obtain ⟨bs, h⟩ := hashS_ok (fun _ _ _ => .unmodelled) t p hp wp hq
  refine ⟨bs, ?_, ?_⟩
  · simp only [hashBytes]; rw [hashBytesP_eq_hashS _ hp wp]; exact h
  · simp only [Value.hash, hashBytes]
    rw [hashBytesP_eq_hashS (fun _ _ _ => .unmodelled) hp wp, h]
    simp [Value.containsMarked, mp]

/-- so `ctyRules.hash` IS `Value.Hash` there (its default is not taken) -/
theorem ctyRules_hash_real {e : Ty} {p : Payload} (hp : e.plain = true) (wp : p.shaped e = true)
    (mp : p.containsMarked = false) (hq : p.quotable = true) :
    Value.hash ⟨e, p⟩ = .ok ((ctyRules e).hash p) := by
  obtain ⟨bs, _, h⟩ := hash_ok hp wp mp hq
  simp only [ctyRules, h]

/-- and `ctyRules.equiv` IS `Equals(...) == True` on wholly known members (no default) -/
theorem ctyRules_equiv_real {e : Ty} (hw : e.wf = true) (hp : e.plain = true) {a b : Payload}
    (wa : a.shaped e = true) (ka : a.whollyKnown = true) (ma : a.containsMarked = false)
    (wb : b.shaped e = true) (kb : b.whollyKnown = true) (mb : b.containsMarked = false) :
    Value.equals ⟨e, a⟩ ⟨e, b⟩ = .ok (boolVal ((ctyRules e).equiv a b)) := by
  rw [ctyRules_equiv_eq hw hp wa ka ma wb kb mb]
  exact equals_of_members hw hp wa ka ma wb kb mb

end CtyModel
