/-
C01 for the logical operations: `Not`, `And`, `Or` are monotone w.r.t. `Covers`
(weakening an operand never makes the call fail, and the weakened result admits
the concrete one), their results are never null, and wholly known operands of a
real type give a wholly known result.
-/
import CtyModel.Lemmas.CoversBasic
namespace CtyModel
open Value Cov

theorem typeCheck1 (req : Ty) (a : Value) :
    typeCheck req [a] =
      if a.ty.isDyn then .ok .dynamic
      else if !(a.ty.equals req) then .panic "type mismatch"
      else .ok (if a.isUnk then .unknown else .none) := by
  simp only [typeCheck, typeCheckAux]
  by_cases h1 : a.ty.isDyn = true <;> by_cases h2 : a.ty.equals req = true <;> by_cases h3 : a.isUnk = true <;> simp [h1, h2, h3]

theorem typeCheck2 (req : Ty) (a b : Value) :
    typeCheck req [a, b] =
      if !(a.ty.isDyn || a.ty.equals req) then .panic "type mismatch"
      else if !(b.ty.isDyn || b.ty.equals req) then .panic "type mismatch"
      else .ok (if a.ty.isDyn || b.ty.isDyn then .dynamic else if a.isUnk || b.isUnk then .unknown else .none) := by
  simp only [typeCheck, typeCheckAux]
  by_cases h1 : a.ty.isDyn = true <;> by_cases h2 : a.ty.equals req = true <;> by_cases h3 : a.isUnk = true <;>
  by_cases h4 : b.ty.isDyn = true <;> by_cases h5 : b.ty.equals req = true <;> by_cases h6 : b.isUnk = true <;>
    simp [h1, h2, h3, h4, h5, h6]

theorem isDyn_iff {t : Ty} : t.isDyn = true ↔ t = .dyn := by cases t <;> simp [Ty.isDyn]
theorem equals_bool_iff {t : Ty} : t.equals .bool = true ↔ t = .bool := by cases t <;> simp [Ty.equals]
theorem equals_number_iff {t : Ty} : t.equals .number = true ↔ t = .number := by cases t <;> simp [Ty.equals]

/-- a wholly known value is not an unknown -/
theorem isUnk_of_whollyKnown {v : Value} (h : v.whollyKnown = true) : v.isUnk = false := by
  obtain ⟨t, p⟩ := v
  cases p <;> simp_all [Value.whollyKnown, Payload.whollyKnown, Value.isUnk]

/-- the type of a value that covers `o` is the placeholder or has `o`'s primitive type -/
theorem covers_ty_dyn {ex : Bool} {w o : Value} (hc : CoversG ex w o = true) (ht : o.ty = .dyn) : w.ty = .dyn := by
  simp only [CoversG, Bool.and_eq_true] at hc
  rw [ht] at hc
  exact matches_dyn_right hc.1
theorem covers_ty_bool {ex : Bool} {w o : Value} (hc : CoversG ex w o = true) (ht : o.ty = .bool) : w.ty = .dyn ∨ w.ty = .bool := by
  simp only [CoversG, Bool.and_eq_true] at hc
  rw [ht] at hc
  exact matches_bool_right hc.1
theorem covers_ty_number {ex : Bool} {w o : Value} (hc : CoversG ex w o = true) (ht : o.ty = .number) : w.ty = .dyn ∨ w.ty = .number := by
  simp only [CoversG, Bool.and_eq_true] at hc
  rw [ht] at hc
  exact matches_number_right hc.1

/-- `matches` with a primitive constraint determines the type -/
theorem matches_bool_left {t : Ty} (h : Ty.matches .bool t = true) : t = .bool := by
  cases t <;> simp_all [Ty.matches]
theorem matches_number_left {t : Ty} (h : Ty.matches .number t = true) : t = .number := by
  cases t <;> simp_all [Ty.matches]

/-- a literal boolean covers only itself -/
theorem isLitBool_of_covers {ex : Bool} {w o : Value} {b : Bool} (hc : CoversG ex w o = true) (ho : o.isMarked = false)
    (hl : isLitBool w b = true) : isLitBool o b = true := by
  obtain ⟨tw, pw⟩ := w
  obtain ⟨to, po⟩ := o
  simp only [CoversG, Bool.and_eq_true] at hc
  obtain ⟨hm, hcp⟩ := hc
  cases tw <;> simp [isLitBool, Ty.isBool] at hl
  cases pw <;> simp at hl
  subst hl
  have := matches_bool_left hm
  subst this
  cases po <;> simp_all [Payload.stripMarks, coversP, isLitBool, Ty.isBool, Value.isMarked, Payload.isMarked]

/-- a known boolean-typed value that covers `o` holds the same payload as far as `asBool` can tell -/
theorem asBool_of_covers {ex : Bool} {w o : Value} (hc : CoversG ex w o = true) (ho : o.isMarked = false) (hw : w.isMarked = false)
    (hk : o.whollyKnown = true) (hu : w.isUnk = false) : asBool w = asBool o := by
  obtain ⟨tw, pw⟩ := w
  obtain ⟨to, po⟩ := o
  simp only [CoversG, Bool.and_eq_true] at hc
  obtain ⟨_, hcp⟩ := hc
  cases pw <;> cases po <;>
    simp_all [Payload.stripMarks, coversP, asBool, Value.isMarked, Payload.isMarked, Value.isUnk,
      Value.whollyKnown, Payload.whollyKnown]

theorem covers_unkBool_boolVal (x : Bool) : Covers unkBool (boolVal x) = true := by cases x <;> decide
theorem covers_boolVal_self (x : Bool) : Covers (boolVal x) (boolVal x) = true := by cases x <;> decide
theorem covers_unkBool_self : Covers unkBool unkBool = true := by decide



theorem ty_ok_of_covers {ex : Bool} {req : Ty} {w o : Value} (hreq : req = .bool ∨ req = .number) (hc : CoversG ex w o = true)
    (h : (o.ty.isDyn || o.ty.equals req) = true) : (w.ty.isDyn || w.ty.equals req) = true := by
  simp only [Bool.or_eq_true, isDyn_iff] at h ⊢
  rcases h with h | h
  · exact Or.inl (covers_ty_dyn hc h)
  · rcases hreq with rfl | rfl
    · rcases covers_ty_bool hc (equals_bool_iff.mp h) with h' | h'
      · exact Or.inl h'
      · exact Or.inr (by rw [h']; rfl)
    · rcases covers_ty_number hc (equals_number_iff.mp h) with h' | h'
      · exact Or.inl h'
      · exact Or.inr (by rw [h']; rfl)

theorem ty_req_of_covers {ex : Bool} {req : Ty} {w o : Value} (hreq : req = .bool ∨ req = .number) (hc : CoversG ex w o = true)
    (h : w.ty.equals req = true) : o.ty.equals req = true := by
  simp only [CoversG, Bool.and_eq_true] at hc
  rcases hreq with rfl | rfl
  · rw [equals_bool_iff] at h ⊢; rw [h] at hc; exact matches_bool_left hc.1
  · rw [equals_number_iff] at h ⊢; rw [h] at hc; exact matches_number_left hc.1

/-- weakening never makes the type check of a binary operation fail -/
theorem tc2_ok_of_covers {ex : Bool} {req : Ty} {o₁ o₂ w₁ w₂ : Value} {tc : TC} (hreq : req = .bool ∨ req = .number)
    (hc₁ : CoversG ex w₁ o₁ = true) (hc₂ : CoversG ex w₂ o₂ = true) (h : typeCheck req [o₁, o₂] = .ok tc) :
    ∃ tc', typeCheck req [w₁, w₂] = .ok tc' := by
  rw [typeCheck2] at h ⊢
  by_cases h1 : (o₁.ty.isDyn || o₁.ty.equals req) = true
  · by_cases h2 : (o₂.ty.isDyn || o₂.ty.equals req) = true
    · simp only [ty_ok_of_covers hreq hc₁ h1, ty_ok_of_covers hreq hc₂ h2, Bool.not_true, Bool.false_eq_true, if_false]
      exact ⟨_, rfl⟩
    · simp [h1, h2] at h
  · simp [h1] at h

/-- if the weakened tuple passes the type check without a short circuit, so does the concrete one -/
theorem tc2_none_of_covers {ex : Bool} {req : Ty} {o₁ o₂ w₁ w₂ : Value} (hreq : req = .bool ∨ req = .number)
    (hk₁ : o₁.whollyKnown = true) (hk₂ : o₂.whollyKnown = true)
    (hc₁ : CoversG ex w₁ o₁ = true) (hc₂ : CoversG ex w₂ o₂ = true) (h : typeCheck req [w₁, w₂] = .ok .none) :
    typeCheck req [o₁, o₂] = .ok .none ∧ w₁.isUnk = false ∧ w₂.isUnk = false := by
  rw [typeCheck2] at h ⊢
  by_cases d1 : w₁.ty.isDyn = true
  · by_cases e2 : (w₂.ty.isDyn || w₂.ty.equals req) = true <;> simp [d1, e2] at h
  by_cases d2 : w₂.ty.isDyn = true
  · by_cases e1 : (w₁.ty.equals req) = true <;> simp [d1, d2, e1] at h
  by_cases e1 : w₁.ty.equals req = true
  · by_cases e2 : w₂.ty.equals req = true
    · by_cases u1 : w₁.isUnk = true
      · simp [d1, d2, e1, e2, u1] at h
      by_cases u2 : w₂.isUnk = true
      · simp [d1, d2, e1, e2, u1, u2] at h
      have t1 := ty_req_of_covers hreq hc₁ e1
      have t2 := ty_req_of_covers hreq hc₂ e2
      have n1 : o₁.ty.isDyn = false := by
        rcases hreq with rfl | rfl
        · rw [equals_bool_iff.mp t1]; rfl
        · rw [equals_number_iff.mp t1]; rfl
      have n2 : o₂.ty.isDyn = false := by
        rcases hreq with rfl | rfl
        · rw [equals_bool_iff.mp t2]; rfl
        · rw [equals_number_iff.mp t2]; rfl
      simp [t1, t2, n1, n2, isUnk_of_whollyKnown hk₁, isUnk_of_whollyKnown hk₂]
      exact ⟨by simpa using u1, by simpa using u2⟩
    · simp [d1, d2, e1, e2] at h
  · simp [d1, e1] at h

theorem tc_cases (tc : TC) : tc = .none ∨ tc = .dynamic ∨ tc = .unknown := by cases tc <;> simp

theorem tc2_not_unknown {req : Ty} {o₁ o₂ : Value} {tc : TC} (hk₁ : o₁.whollyKnown = true) (hk₂ : o₂.whollyKnown = true)
    (h : typeCheck req [o₁, o₂] = .ok tc) : tc ≠ .unknown := by
  rw [typeCheck2] at h
  intro ht; subst ht
  by_cases h1 : (o₁.ty.isDyn || o₁.ty.equals req) = true
  · by_cases h2 : (o₂.ty.isDyn || o₂.ty.equals req) = true
    · by_cases h3 : (o₁.ty.isDyn || o₂.ty.isDyn) = true
      · simp [h1, h2, h3] at h
      · simp [h1, h2, h3, isUnk_of_whollyKnown hk₁, isUnk_of_whollyKnown hk₂] at h
    · simp [h1, h2] at h
  · simp [h1] at h

theorem Res.bind_eq_ok {α β} {x : Res α} {f : α → Res β} {r : β} :
    (x >>= f) = .ok r ↔ ∃ a, x = .ok a ∧ f a = .ok r := by
  cases x <;> simp [Bind.bind, Res.bind]

theorem isLit_asBool {v : Value} {b : Bool} (h : isLitBool v b = true) : asBool v = .ok b := by
  obtain ⟨t, p⟩ := v
  cases p <;> simp_all [isLitBool, asBool]

theorem ite_ok {α} (c : Bool) (a b : α) :
    (if c = true then (pure a : Res α) else pure b) = .ok (if c then a else b) := by
  cases c <;> rfl

/-- the value of a concrete conjunction -/
theorem andU_ok_cases {o₁ o₂ r : Value} (hk₁ : o₁.whollyKnown = true) (hk₂ : o₂.whollyKnown = true)
    (ho : andU o₁ o₂ = .ok r) :
    (r = boolVal false) ∨ (isLitBool o₁ false = false ∧ isLitBool o₂ false = false ∧ (r = unkBool ∨ r = boolVal true)) := by
  unfold andU at ho
  obtain ⟨tco, hto, ho⟩ := Res.bind_eq_ok.mp ho
  rcases tc_cases tco with rfl | rfl | rfl
  · simp only at ho
    obtain ⟨x, hx, ho⟩ := Res.bind_eq_ok.mp ho
    cases x
    · simp [pure] at ho; exact Or.inl ho.symm
    · simp at ho
      obtain ⟨y, hy, ho⟩ := Res.bind_eq_ok.mp ho
      simp [pure] at ho
      cases y
      · exact Or.inl ho.symm
      · refine Or.inr ⟨?_, ?_, Or.inr ho.symm⟩
        · cases h : isLitBool o₁ false
          · rfl
          · rw [isLit_asBool h] at hx; cases hx
        · cases h : isLitBool o₂ false
          · rfl
          · rw [isLit_asBool h] at hy; cases hy
  · simp only at ho
    by_cases hl : (isLitBool o₁ false || isLitBool o₂ false) = true
    · simp [hl, pure] at ho; exact Or.inl ho.symm
    · simp [hl, pure] at ho
      simp only [Bool.or_eq_true, not_or, Bool.not_eq_true] at hl
      exact Or.inr ⟨hl.1, hl.2, Or.inl ho.symm⟩
  · exact absurd rfl (tc2_not_unknown hk₁ hk₂ hto)

theorem andU_sound : SoundU₂ andU := by
  intro o₁ o₂ w₁ w₂ r hk₁ hk₂ hmo₁ hmo₂ hmw₁ hmw₂ hc₁ hc₂ ho
  have hcases := andU_ok_cases hk₁ hk₂ ho
  have short : Covers (if isLitBool w₁ false || isLitBool w₂ false then boolVal false else unkBool) r = true := by
    by_cases hl : (isLitBool w₁ false || isLitBool w₂ false) = true
    · simp only [hl, if_true]
      have hol : isLitBool o₁ false = true ∨ isLitBool o₂ false = true := by
        simp only [Bool.or_eq_true] at hl
        rcases hl with hl | hl
        · exact Or.inl (isLitBool_of_covers hc₁ hmo₁ hl)
        · exact Or.inr (isLitBool_of_covers hc₂ hmo₂ hl)
      rcases hcases with rfl | ⟨h1, h2, _⟩
      · exact covers_boolVal_self _
      · rcases hol with h | h <;> simp_all
    · simp only [hl, Bool.false_eq_true, if_false]
      rcases hcases with rfl | ⟨_, _, rfl | rfl⟩
      · exact covers_unkBool_boolVal _
      · exact covers_unkBool_self
      · exact covers_unkBool_boolVal _
  unfold andU at ho ⊢
  obtain ⟨tco, hto, ho⟩ := Res.bind_eq_ok.mp ho
  obtain ⟨tcw, htw⟩ := tc2_ok_of_covers (Or.inl rfl) hc₁ hc₂ hto
  rw [htw, Res.bind_ok]
  rcases tc_cases tcw with rfl | rfl | rfl
  · obtain ⟨hto', u1, u2⟩ := tc2_none_of_covers (Or.inl rfl) hk₁ hk₂ hc₁ hc₂ htw
    rw [hto] at hto'; cases hto'
    simp only at ho ⊢
    rw [asBool_of_covers hc₁ hmo₁ hmw₁ hk₁ u1, asBool_of_covers hc₂ hmo₂ hmw₂ hk₂ u2]
    refine ⟨r, ho, ?_⟩
    rcases hcases with rfl | ⟨_, _, rfl | rfl⟩
    · exact covers_boolVal_self _
    · exact covers_unkBool_self
    · exact covers_boolVal_self _
  · simp only [ite_ok]
    exact ⟨_, rfl, short⟩
  · simp only [ite_ok]
    exact ⟨_, rfl, short⟩

theorem notU_sound : SoundU₁ notU := by
  intro o w r hk hmo hmw hc ho
  simp only [notU, typeCheck1, Bind.bind] at ho ⊢
  have hu := isUnk_of_whollyKnown hk
  by_cases hd : o.ty.isDyn = true
  · have := covers_ty_dyn hc (isDyn_iff.mp hd)
    simp only [hd, if_true, Res.bind] at ho
    simp only [this, Ty.isDyn, if_true, Res.bind]
    cases ho
    exact ⟨_, rfl, covers_unkBool_self⟩
  · simp only [hd] at ho
    by_cases he : o.ty.equals .bool = true
    · simp only [he, hu, Bool.not_true, Bool.false_eq_true, if_false, Res.bind] at ho
      rcases covers_ty_bool hc (equals_bool_iff.mp he) with h' | h'
      · simp only [h', Ty.isDyn, if_true, Res.bind]
        cases hb : asBool o <;> simp [hb, Res.bind] at ho
        cases ho
        exact ⟨_, rfl, covers_unkBool_boolVal _⟩
      · simp only [h', Ty.isDyn, Ty.equals, Bool.false_eq_true, if_false, Bool.not_true, Res.bind]
        by_cases hwu : w.isUnk = true
        · simp only [hwu, if_true]
          cases hb : asBool o <;> simp [hb, Res.bind] at ho
          cases ho
          exact ⟨_, rfl, covers_unkBool_boolVal _⟩
        · simp only [hwu, Bool.false_eq_true, if_false]
          rw [asBool_of_covers hc hmo hmw hk (by simpa using hwu)]
          cases hb : asBool o <;> simp [hb, Res.bind] at ho ⊢
          cases ho
          exact covers_boolVal_self _
    · simp [he, Res.bind] at ho

/-- the value of a concrete disjunction -/
theorem orU_ok_cases {o₁ o₂ r : Value} (hk₁ : o₁.whollyKnown = true) (hk₂ : o₂.whollyKnown = true)
    (ho : orU o₁ o₂ = .ok r) :
    (r = boolVal true) ∨ (isLitBool o₁ true = false ∧ isLitBool o₂ true = false ∧ (r = unkBool ∨ r = boolVal false)) := by
  unfold orU at ho
  obtain ⟨tco, hto, ho⟩ := Res.bind_eq_ok.mp ho
  rcases tc_cases tco with rfl | rfl | rfl
  · simp only at ho
    obtain ⟨x, hx, ho⟩ := Res.bind_eq_ok.mp ho
    cases x
    · simp at ho
      obtain ⟨y, hy, ho⟩ := Res.bind_eq_ok.mp ho
      simp [pure] at ho
      cases y
      · refine Or.inr ⟨?_, ?_, Or.inr ho.symm⟩
        · cases h : isLitBool o₁ true
          · rfl
          · rw [isLit_asBool h] at hx; cases hx
        · cases h : isLitBool o₂ true
          · rfl
          · rw [isLit_asBool h] at hy; cases hy
      · exact Or.inl ho.symm
    · simp [pure] at ho; exact Or.inl ho.symm
  · simp only at ho
    by_cases hl : (isLitBool o₁ true || isLitBool o₂ true) = true
    · simp [hl, pure] at ho; exact Or.inl ho.symm
    · simp [hl, pure] at ho
      simp only [Bool.or_eq_true, not_or, Bool.not_eq_true] at hl
      exact Or.inr ⟨hl.1, hl.2, Or.inl ho.symm⟩
  · exact absurd rfl (tc2_not_unknown hk₁ hk₂ hto)

theorem orU_sound : SoundU₂ orU := by
  intro o₁ o₂ w₁ w₂ r hk₁ hk₂ hmo₁ hmo₂ hmw₁ hmw₂ hc₁ hc₂ ho
  have hcases := orU_ok_cases hk₁ hk₂ ho
  have short : Covers (if isLitBool w₁ true || isLitBool w₂ true then boolVal true else unkBool) r = true := by
    by_cases hl : (isLitBool w₁ true || isLitBool w₂ true) = true
    · simp only [hl, if_true]
      have hol : isLitBool o₁ true = true ∨ isLitBool o₂ true = true := by
        simp only [Bool.or_eq_true] at hl
        rcases hl with hl | hl
        · exact Or.inl (isLitBool_of_covers hc₁ hmo₁ hl)
        · exact Or.inr (isLitBool_of_covers hc₂ hmo₂ hl)
      rcases hcases with rfl | ⟨h1, h2, _⟩
      · exact covers_boolVal_self _
      · rcases hol with h | h <;> simp_all
    · simp only [hl, Bool.false_eq_true, if_false]
      rcases hcases with rfl | ⟨_, _, rfl | rfl⟩
      · exact covers_unkBool_boolVal _
      · exact covers_unkBool_self
      · exact covers_unkBool_boolVal _
  unfold orU at ho ⊢
  obtain ⟨tco, hto, ho⟩ := Res.bind_eq_ok.mp ho
  obtain ⟨tcw, htw⟩ := tc2_ok_of_covers (Or.inl rfl) hc₁ hc₂ hto
  rw [htw, Res.bind_ok]
  rcases tc_cases tcw with rfl | rfl | rfl
  · obtain ⟨hto', u1, u2⟩ := tc2_none_of_covers (Or.inl rfl) hk₁ hk₂ hc₁ hc₂ htw
    rw [hto] at hto'; cases hto'
    simp only at ho ⊢
    rw [asBool_of_covers hc₁ hmo₁ hmw₁ hk₁ u1, asBool_of_covers hc₂ hmo₂ hmw₂ hk₂ u2]
    refine ⟨r, ho, ?_⟩
    rcases hcases with rfl | ⟨_, _, rfl | rfl⟩
    · exact covers_boolVal_self _
    · exact covers_unkBool_self
    · exact covers_boolVal_self _
  · simp only [ite_ok]
    exact ⟨_, rfl, short⟩
  · simp only [ite_ok]
    exact ⟨_, rfl, short⟩

end CtyModel
