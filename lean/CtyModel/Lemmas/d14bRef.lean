/-
d14b — lemmas about the transliterated strings package (`Stdlib/d14bRef.lean`):
strings.Index finds an occurrence, Split is inverted by Join for every separator, the
fuel of the split loop is immaterial, the trim family cuts exactly the named part; and
the NaN-domain rules of log / pow.
-/
import CtyModel.Stdlib.d14bRef
import CtyModel.Stdlib.NumberSpec
import CtyModel.Lemmas.StdNumStr
import CtyModel.Lemmas.StdNumMisc
namespace CtyModel
namespace StdNum
namespace D14b
open Value

/-! ### strings.Index -/

theorem goIndex_some {sep : List Char} : ∀ {s : List Char} {i : Nat}, goIndex sep s = some i →
    s = s.take i ++ sep ++ s.drop (i + sep.length)
  | [], i, h => by
    cases sep with
    | nil => simp [goIndex] at h; subst h; simp
    | cons a t => simp [goIndex] at h
  | c :: rest, i, h => by
    unfold goIndex at h
    split at h
    · rename_i hp
      have hi : i = 0 := by simpa using h.symm
      subst hi
      rw [List.isPrefixOf_iff_prefix] at hp
      obtain ⟨t, ht⟩ := hp
      rw [← ht]; simp
    · cases hr : goIndex sep rest with
      | none => simp [hr] at h
      | some j =>
        simp [hr] at h; subst h
        have := goIndex_some hr
        simp only [List.take_succ_cons, List.cons_append]
        have h2 : j + 1 + sep.length = (j + sep.length) + 1 := by omega
        rw [h2, List.drop_succ_cons]
        exact congrArg (c :: ·) (by simpa using this)

theorem goIndex_nil_of_ne {sep : List Char} (h : sep ≠ []) : goIndex sep [] = none := by
  cases sep with
  | nil => exact absurd rfl h
  | cons a t => simp [goIndex]

/-- an index that is found lies inside the string when the separator is not empty -/
theorem goIndex_lt {sep : List Char} (h : sep ≠ []) {s : List Char} {i : Nat} (hi : goIndex sep s = some i) :
    i + sep.length ≤ s.length := by
  have := congrArg List.length (goIndex_some hi)
  simp only [List.length_append, List.length_take, List.length_drop] at this
  have hpos : 0 < sep.length := List.length_pos_iff.mpr h
  omega

/-! ### strings.Split -/

theorem splitLoop_ne_nil (sep : List Char) (f : Nat) (s : List Char) : splitLoop sep f s ≠ [] := by
  cases f with
  | zero => simp [splitLoop]
  | succ f => unfold splitLoop; split <;> simp

theorem goJoin_cons (sep a : List Char) {l : List (List Char)} (h : l ≠ []) :
    goJoin sep (a :: l) = a ++ sep ++ goJoin sep l := by
  cases l with
  | nil => exact absurd rfl h
  | cons b r => rfl

/-- whatever the fuel, joining the pieces with the separator gives the string back -/
theorem goJoin_splitLoop (sep : List Char) : ∀ (f : Nat) (s : List Char), goJoin sep (splitLoop sep f s) = s
  | 0, s => rfl
  | f + 1, s => by
    unfold splitLoop
    split
    · rfl
    · rename_i i hi
      rw [goJoin_cons _ _ (splitLoop_ne_nil _ _ _), goJoin_splitLoop sep f]
      exact (goIndex_some hi).symm

theorem goJoin_explode : ∀ s : List Char, goJoin [] (explode s) = s
  | [] => rfl
  | [a] => rfl
  | a :: b :: r => by
    have := goJoin_explode (b :: r)
    simp only [explode, List.map_cons] at this ⊢
    simp only [goJoin, List.append_nil, List.singleton_append]
    rw [this]

/-- `strings.Join(strings.Split(s, sep), sep) == s`, for every separator (the empty one too) -/
theorem goJoin_goSplit (s sep : List Char) : goJoin sep (goSplit s sep) = s := by
  unfold goSplit
  split
  · rename_i h
    have : sep = [] := by simpa using h
    subst this; exact goJoin_explode s
  · exact goJoin_splitLoop sep _ s

/-- the fuel of the loop is immaterial once it exceeds the length -/
theorem splitLoop_fuel {sep : List Char} (hsep : sep ≠ []) : ∀ (f g : Nat) (s : List Char),
    s.length < f → s.length < g → splitLoop sep f s = splitLoop sep g s
  | 0, _, _, hf, _ => by omega
  | _ + 1, 0, _, _, hg => by omega
  | f + 1, g + 1, s, hf, hg => by
    unfold splitLoop
    cases hi : goIndex sep s with
    | none => rfl
    | some i =>
      simp only
      have hlt := goIndex_lt hsep hi
      have hpos : 0 < sep.length := List.length_pos_iff.mpr hsep
      have hd : (s.drop (i + sep.length)).length < s.length := by simp; omega
      rw [splitLoop_fuel hsep f g _ (by omega) (by omega)]

/-- a string without the separator is returned whole -/
theorem goSplit_absent {s sep : List Char} (hsep : sep ≠ []) (h : goIndex sep s = none) : goSplit s sep = [s] := by
  have : sep.isEmpty = false := by cases sep <;> simp_all
  simp [goSplit, this, splitLoop, h]

/-- the first piece is what precedes the first occurrence, the rest is the split of what follows it -/
theorem goSplit_step {s sep : List Char} (hsep : sep ≠ []) {i : Nat} (h : goIndex sep s = some i) :
    goSplit s sep = s.take i :: goSplit (s.drop (i + sep.length)) sep := by
  have he : sep.isEmpty = false := by cases sep <;> simp_all
  have hlt := goIndex_lt hsep h
  have hpos : 0 < sep.length := List.length_pos_iff.mpr hsep
  simp only [goSplit, he, Bool.false_eq_true, if_false]
  rw [show s.length + 1 = s.length + 0 + 1 from rfl]
  conv => lhs; unfold splitLoop
  simp only [h]
  congr 1
  apply splitLoop_fuel hsep <;> simp <;> omega

theorem goSplit_empty_sep (s : List Char) : goSplit s [] = s.map ([·]) := rfl

theorem goSplit_nil {sep : List Char} (hsep : sep ≠ []) : goSplit [] sep = [[]] :=
  goSplit_absent hsep (goIndex_nil_of_ne hsep)

/-! ### trim family -/

theorem dropWhile_all (f : Char → Bool) (l : List Char) (h : ∀ x ∈ l, f x = true) : l.dropWhile f = [] := by
  have := List.dropWhile_append_of_pos (p := f) (l₁ := l) (l₂ := []) h
  simpa using this

theorem mem_takeWhile_imp' (f : Char → Bool) {l : List Char} {c : Char} (hc : c ∈ l.takeWhile f) : f c = true :=
  List.all_eq_true.mp (List.all_takeWhile (p := f) (l := l)) c hc

theorem goTrimPrefix_append (p t : List Char) : goTrimPrefix (p ++ t) p = t := by
  have : p.isPrefixOf (p ++ t) = true := by rw [List.isPrefixOf_iff_prefix]; exact List.prefix_append p t
  simp [goTrimPrefix, this]

theorem goTrimPrefix_not {s p : List Char} (h : ¬ p <+: s) : goTrimPrefix s p = s := by
  have : p.isPrefixOf s = false := by
    cases hb : p.isPrefixOf s with
    | false => rfl
    | true => exact absurd (List.isPrefixOf_iff_prefix.mp hb) h
  simp [goTrimPrefix, this]

theorem goTrimSuffix_append (t p : List Char) : goTrimSuffix (t ++ p) p = t := by
  have : p.isSuffixOf (t ++ p) = true := by rw [List.isSuffixOf_iff_suffix]; exact List.suffix_append t p
  simp [goTrimSuffix, this]

theorem goTrimSuffix_not {s p : List Char} (h : ¬ p <:+ s) : goTrimSuffix s p = s := by
  have : p.isSuffixOf s = false := by
    cases hb : p.isSuffixOf s with
    | false => rfl
    | true => exact absurd (List.isSuffixOf_iff_suffix.mp hb) h
  simp [goTrimSuffix, this]

/-- `TrimFunc` returns the middle of any decomposition "run of f · m · run of f" in
which `m` neither starts nor ends with an `f` character: it determines the result. -/
theorem trimBoth_middle (f : Char → Bool) (l m r : List Char)
    (hl : ∀ c ∈ l, f c = true) (hr : ∀ c ∈ r, f c = true)
    (hm1 : ∀ c, m.head? = some c → f c = false) (hm2 : ∀ c, m.getLast? = some c → f c = false) :
    trimBoth f (l ++ m ++ r) = m := by
  cases m with
  | nil =>
    have : (l ++ [] ++ r).dropWhile f = [] := by
      apply dropWhile_all; intro x hx; simp at hx; rcases hx with h | h
      · exact hl x h
      · exact hr x h
    unfold trimBoth; rw [this]; rfl
  | cons a m' =>
    have ha : f a = false := hm1 a rfl
    have h1 : (l ++ (a :: m') ++ r).dropWhile f = a :: m' ++ r := by
      rw [List.append_assoc, List.dropWhile_append_of_pos hl]
      simp [ha]
    have h2 : ((a :: m' ++ r).reverse).dropWhile f = (a :: m').reverse := by
      rw [show (a :: m' ++ r) = (a :: m') ++ r from rfl, List.reverse_append,
        List.dropWhile_append_of_pos (by intro c hc; exact hr c (List.mem_reverse.mp hc))]
      cases hrev : (a :: m').reverse with
      | nil => simp at hrev
      | cons z w =>
        have hz : (a :: m').getLast? = some z := by
          rw [← List.head?_reverse, hrev]; rfl
        simp [hm2 z hz]
    unfold trimBoth
    rw [h1, h2, List.reverse_reverse]

/-- what `TrimFunc` removes on either side are runs of `f` characters -/
theorem trimBoth_decomp (f : Char → Bool) (s : List Char) :
    ∃ l r, s = l ++ trimBoth f s ++ r ∧ (∀ c ∈ l, f c = true) ∧ (∀ c ∈ r, f c = true) := by
  refine ⟨s.takeWhile f, ((s.dropWhile f).reverse.takeWhile f).reverse, ?_, ?_, ?_⟩
  · have h1 := List.takeWhile_append_dropWhile (p := f) (l := s)
    have h2 := List.takeWhile_append_dropWhile (p := f) (l := (s.dropWhile f).reverse)
    have h3 : s.dropWhile f = ((s.dropWhile f).reverse.dropWhile f).reverse ++ ((s.dropWhile f).reverse.takeWhile f).reverse := by
      rw [← List.reverse_append, h2, List.reverse_reverse]
    unfold trimBoth
    rw [List.append_assoc, ← h3, h1]
  · intro c hc; exact mem_takeWhile_imp' f hc
  · intro c hc; exact mem_takeWhile_imp' f (List.mem_reverse.mp hc)

/-- the result of `TrimFunc` neither starts nor ends with an `f` character -/
theorem trimBoth_ends (f : Char → Bool) (s : List Char) :
    (∀ c, (trimBoth f s).head? = some c → f c = false) ∧ (∀ c, (trimBoth f s).getLast? = some c → f c = false) := by
  unfold trimBoth
  constructor
  · intro c hc
    rw [List.head?_reverse] at hc
    have hne : ((s.dropWhile f).reverse.dropWhile f) ≠ [] := by
      intro h; rw [h] at hc; simp at hc
    have hsuf := List.dropWhile_suffix f (l := (s.dropWhile f).reverse)
    have h1 := hsuf.getLast hne
    have hc' : ((s.dropWhile f).reverse.dropWhile f).getLast hne = c := by
      have := List.getLast?_eq_some_getLast hne
      rw [this] at hc; exact Option.some.inj hc
    rw [hc'] at h1
    have hne2 : s.dropWhile f ≠ [] := by
      intro h; apply hne; simp [h]
    have h2 : (s.dropWhile f).reverse.getLast (hsuf.ne_nil hne) = (s.dropWhile f).head hne2 := by
      simp [List.getLast_reverse]
    rw [h1, h2]
    exact List.head_dropWhile_not f hne2
  · intro c hc
    rw [List.getLast?_reverse] at hc
    have := List.head?_dropWhile_not f (s.dropWhile f).reverse
    rw [hc] at this
    exact this

/-! ### the `Impl`s over `refLib` -/

theorem refLib_nfc (L : Lib) : (refLib L).nfc = L.nfc := rfl

theorem splitImpl_ref (L : Lib) (sep str : String) :
    splitImpl (refLib L) [sv sep, sv str] =
      .ok ⟨.list .string, .seq (((goSplit str.toList sep.toList).map String.ofList).map fun s => .s (L.nfc s))⟩ := by
  simp [splitImpl, refLib]

theorem trimImpls_ref (L : Lib) (a b : String) :
    trimPrefixImpl (refLib L) [sv a, sv b] = .ok (stringVal L.nfc (String.ofList (goTrimPrefix a.toList b.toList))) ∧
    trimSuffixImpl (refLib L) [sv a, sv b] = .ok (stringVal L.nfc (String.ofList (goTrimSuffix a.toList b.toList))) ∧
    trimSpaceImpl (refLib L) [sv a] = .ok (stringVal L.nfc (String.ofList (goTrimSpace a.toList))) ∧
    trimImpl (refLib L) [sv a, sv b] = .ok (stringVal L.nfc (String.ofList (goTrim a.toList b.toList))) := by
  refine ⟨?_, ?_, ?_, ?_⟩ <;> simp [trimPrefixImpl, trimSuffixImpl, trimSpaceImpl, trimImpl, refLib]

/-! ### log / pow -/

/-- the law about package math that `std.dom` probes on every run -/
def NaNLaw (lib : Num → Num → F64) (nan : Num → Num → Bool) : Prop := ∀ x y, lib x y = .nan ↔ nan x y = true

theorem domLib_law (nan : Num → Num → Bool) : NaNLaw (domLib nan) nan := by
  intro x y; unfold domLib; cases nan x y <;> simp

theorem logImpl_err_iff (lib : Num → Num → F64) (a b x y : Num)
    (ha : fromCtyFloat (numVal a) = .ok x) (hb : fromCtyFloat (numVal b) = .ok y) :
    (∃ m, logImpl lib [numVal a, numVal b] = .err m) ↔ lib x y = .nan := by
  simp only [logImpl, arg, List.getElem?_cons_zero, List.getElem?_cons_succ, Res.bind_ok, ha, hb]
  cases h : lib x y <;> simp [numberFloatVal]

theorem powImpl_err_iff (lib : Num → Num → F64) (a b x y : Num)
    (ha : fromCtyFloat (numVal a) = .ok x) (hb : fromCtyFloat (numVal b) = .ok y) :
    (∃ m, powImpl lib [numVal a, numVal b] = .err m) ↔ lib x y = .nan := by
  simp only [powImpl, arg, List.getElem?_cons_zero, List.getElem?_cons_succ, Res.bind_ok, ha, hb]
  cases h : lib x y <;> simp [numberFloatVal]

end D14b
end StdNum
end CtyModel
