/- Rounding lemmas for the big.Float model: every arithmetic result is the exact
result rounded to nearest (ties to even) at the result precision. -/
import CtyModel.Ops2
namespace CtyModel
namespace Num

theorem bitlen_le_iff (m p : Nat) : bitlen m ≤ p ↔ m < 2 ^ p := by
  unfold bitlen
  split
  · subst_vars; simp [Nat.two_pow_pos]
  · rename_i h
    rw [Nat.add_one_le_iff, Nat.log2_lt h]

/-- The rounding step keeps the value within half a unit of the last kept place,
and the kept mantissa fits `p` bits (or is exactly `2^p`). -/
theorem roundME_half_ulp (m : Nat) (e : Int) (p : Nat) (hp : 0 < p) :
    ∃ k : Nat, (roundME m e p).2 = e + k ∧
      2 * ((roundME m e p).1 * 2 ^ k) ≤ 2 * m + 2 ^ k ∧
      2 * m ≤ 2 * ((roundME m e p).1 * 2 ^ k) + 2 ^ k ∧
      (bitlen m ≤ p → k = 0 ∧ (roundME m e p).1 = m) := by
  unfold roundME
  have hp' : p ≠ 0 := by omega
  simp only [hp', if_false]
  split
  · exact ⟨0, by simp, by simp, by simp, fun _ => ⟨rfl, rfl⟩⟩
  · rename_i hbl
    refine ⟨bitlen m - p, by simp, ?_⟩
    generalize hk : bitlen m - p = k
    have hk0 : 0 < k := by omega
    have hdm := Nat.div_add_mod m (2 ^ k)
    have hlt := Nat.mod_lt m (Nat.two_pow_pos k)
    have hhalf : 2 ^ k = 2 * 2 ^ (k - 1) := by
      rw [← Nat.pow_succ']; congr 1; omega
    rw [Nat.shiftRight_eq_div_pow]
    generalize m / 2 ^ k = q at *
    generalize m % 2 ^ k = r at *
    generalize 2 ^ (k - 1) = h at *
    generalize hA : 2 ^ k * q = A at *
    simp only []
    split
    · rename_i hup
      have : r ≥ h := by
        rcases hup with h1 | h1
        · exact Nat.le_of_lt h1
        · exact Nat.le_of_eq h1.1.symm
      rw [Nat.add_mul, Nat.mul_comm q, hA]
      refine ⟨by omega, by omega, fun c => absurd c hbl⟩
    · rename_i hdown
      have : r ≤ h := Nat.le_of_not_gt fun c => hdown (.inl c)
      rw [Nat.mul_comm q, hA]
      refine ⟨by omega, by omega, fun c => absurd c hbl⟩

/-- ties go to the even mantissa -/
theorem roundME_tie_even (m : Nat) (e : Int) (p : Nat) (hp : 0 < p) (hbl : p < bitlen m)
    (htie : 2 * (m % 2 ^ (bitlen m - p)) = 2 ^ (bitlen m - p)) : (roundME m e p).1 % 2 = 0 := by
  unfold roundME
  have hp' : p ≠ 0 := by omega
  have hbl' : ¬ bitlen m ≤ p := by omega
  simp only [hp', if_false, hbl']
  generalize hk : bitlen m - p = k at *
  have hk0 : 0 < k := by omega
  have hhalf : 2 ^ k = 2 * 2 ^ (k - 1) := by
    rw [← Nat.pow_succ']; congr 1; omega
  have hr : m % 2 ^ k = 2 ^ (k - 1) := by omega
  simp only [hr, Nat.lt_irrefl, false_or, true_and]
  split <;> omega

/-- normalisation keeps the value: `m = m' · 2^(e' - e)` -/
theorem normFuel_val : ∀ (fuel m : Nat) (e : Int), m ≠ 0 →
    e ≤ (normFuel fuel m e).2 ∧ (normFuel fuel m e).1 * 2 ^ ((normFuel fuel m e).2 - e).toNat = m
  | 0, m, e, _ => by simp [normFuel]
  | fuel + 1, m, e, hm => by
    simp only [normFuel, hm, if_false]
    split
    · rename_i hev
      have hm2 : m / 2 ≠ 0 := by omega
      have ih := normFuel_val fuel (m / 2) (e + 1) hm2
      refine ⟨by omega, ?_⟩
      have hexp : ((normFuel fuel (m / 2) (e + 1)).2 - e).toNat =
          ((normFuel fuel (m / 2) (e + 1)).2 - (e + 1)).toNat + 1 := by omega
      rw [hexp, Nat.pow_succ, ← Nat.mul_assoc, ih.2]
      omega
    · simp

theorem norm_val (m : Nat) (e : Int) (hm : m ≠ 0) :
    e ≤ (norm m e).2 ∧ (norm m e).1 * 2 ^ ((norm m e).2 - e).toNat = m :=
  normFuel_val _ m e hm

theorem normFuel_zero (fuel : Nat) (e : Int) : normFuel fuel 0 e = (0, e) ∨ normFuel fuel 0 e = (0, 0) := by
  cases fuel <;> simp [normFuel]

/-- `c` is finite and its exact value is `v · 2^e` -/
def IsVal (c : Num) (v : Int) (e : Int) : Prop :=
  match c with
  | .fin n m e' _ => (m = 0 ∧ v = 0) ∨ (e ≤ e' ∧ (if n then -(m : Int) else (m : Int)) * 2 ^ (e' - e).toNat = v)
  | .inf _ => False

theorem mk_isVal (neg : Bool) (m : Nat) (e : Int) (p : Nat) :
    IsVal (mk neg m e p) (if neg then -(m : Int) else m) e := by
  unfold mk IsVal
  by_cases hm : m = 0
  · subst hm
    left
    constructor
    · unfold norm; rcases normFuel_zero (bitlen 0 + 1) e with h | h <;> simp [h]
    · simp
  · right
    have := norm_val m e hm
    refine ⟨this.1, ?_⟩
    have h2 : ((norm m e).1 : Int) * 2 ^ ((norm m e).2 - e).toNat = m := by exact_mod_cast this.2
    cases neg <;> simp [h2, Int.neg_mul]

theorem mk_prec (neg : Bool) (m : Nat) (e : Int) (p : Nat) : (mk neg m e p).prec = p := rfl

/-- `round` returns a number whose value is within half a unit (of the last kept
place `2^k`) of `±m·2^e`, and is exactly that value when `m` fits `p` bits. -/
theorem round_spec (neg : Bool) (m : Nat) (e : Int) (p : Nat) (hp : 0 < p) :
    ∃ (k q : Nat), IsVal (round neg m e p) (if neg then -(q : Int) else q) (e + k) ∧
      2 * (q * 2 ^ k) ≤ 2 * m + 2 ^ k ∧ 2 * m ≤ 2 * (q * 2 ^ k) + 2 ^ k ∧
      (bitlen m ≤ p → k = 0 ∧ q = m) ∧ (round neg m e p).prec = p := by
  obtain ⟨k, h1, h2, h3, h4⟩ := roundME_half_ulp m e p hp
  refine ⟨k, (roundME m e p).1, ?_, h2, h3, h4, rfl⟩
  unfold round
  simp only []
  rw [h1]
  exact h1 ▸ mk_isVal neg (roundME m e p).1 (roundME m e p).2 p

end Num
end CtyModel
