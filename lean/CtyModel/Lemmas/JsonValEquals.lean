/-
C15 — from the specification of "equal value" (`sameP`) to the transliteration of
`Value.Equals` (`Value.equals`, Ops.lean): for set-free, wholly known, unmarked payloads
of one well-formed type, `sameP p q` makes `Equals` answer a known `True`.
-/
import CtyModel.Lemmas.JsonValRT
namespace CtyModel
namespace JsonVal
open Ty Value

/-! ### what `sameP` transfers from one side to the other -/
mutual
theorem same_known : ∀ (p q : Payload), sameP p q = true →
    p.whollyKnown = true ∧ p.containsMarked = false
  | .null, .null, _ => by simp [Payload.whollyKnown, Payload.containsMarked]
  | .b _, .b _, _ => by simp [Payload.whollyKnown, Payload.containsMarked]
  | .s _, .s _, _ => by simp [Payload.whollyKnown, Payload.containsMarked]
  | .n _, .n _, _ => by simp [Payload.whollyKnown, Payload.containsMarked]
  | .seq xs, .seq ys, h => by
    simpa [Payload.whollyKnown, Payload.containsMarked] using same_knownL xs ys (by simpa [sameP] using h)
  | .smap _ xs, .smap _ ys, h => by
    simp only [sameP, Bool.and_eq_true] at h
    simpa [Payload.whollyKnown, Payload.containsMarked] using same_knownL xs ys h.2
  | .sset _ xs, .sset _ ys, h => by
    simp only [sameP, Bool.and_eq_true] at h
    simpa [Payload.whollyKnown, Payload.containsMarked] using same_knownL xs ys h.2
  | .null, .b _, h | .null, .s _, h | .null, .n _, h | .null, .seq _, h | .null, .smap _ _, h
  | .null, .sset _ _, h | .null, .unk _, h | .null, .caps, h | .null, .marked _ _, h | .null, .bad _, h => by
    simp [sameP] at h
  | .b _, .null, h | .b _, .s _, h | .b _, .n _, h | .b _, .seq _, h | .b _, .smap _ _, h
  | .b _, .sset _ _, h | .b _, .unk _, h | .b _, .caps, h | .b _, .marked _ _, h | .b _, .bad _, h => by
    simp [sameP] at h
  | .s _, .null, h | .s _, .b _, h | .s _, .n _, h | .s _, .seq _, h | .s _, .smap _ _, h
  | .s _, .sset _ _, h | .s _, .unk _, h | .s _, .caps, h | .s _, .marked _ _, h | .s _, .bad _, h => by
    simp [sameP] at h
  | .n _, .null, h | .n _, .b _, h | .n _, .s _, h | .n _, .seq _, h | .n _, .smap _ _, h
  | .n _, .sset _ _, h | .n _, .unk _, h | .n _, .caps, h | .n _, .marked _ _, h | .n _, .bad _, h => by
    simp [sameP] at h
  | .seq _, .null, h | .seq _, .b _, h | .seq _, .s _, h | .seq _, .n _, h | .seq _, .smap _ _, h
  | .seq _, .sset _ _, h | .seq _, .unk _, h | .seq _, .caps, h | .seq _, .marked _ _, h | .seq _, .bad _, h => by
    simp [sameP] at h
  | .smap _ _, .null, h | .smap _ _, .b _, h | .smap _ _, .s _, h | .smap _ _, .n _, h | .smap _ _, .seq _, h
  | .smap _ _, .sset _ _, h | .smap _ _, .unk _, h | .smap _ _, .caps, h | .smap _ _, .marked _ _, h
  | .smap _ _, .bad _, h => by
    simp [sameP] at h
  | .sset _ _, .null, h | .sset _ _, .b _, h | .sset _ _, .s _, h | .sset _ _, .n _, h | .sset _ _, .seq _, h
  | .sset _ _, .smap _ _, h | .sset _ _, .unk _, h | .sset _ _, .caps, h | .sset _ _, .marked _ _, h
  | .sset _ _, .bad _, h => by
    simp [sameP] at h
  | .unk _, _, h | .caps, _, h | .marked _ _, _, h | .bad _, _, h => by simp [sameP] at h
theorem same_knownL : ∀ (xs ys : List Payload), sameL xs ys = true →
    Payload.whollyKnownL xs = true ∧ Payload.containsMarkedL xs = false
  | [], [], _ => by simp [Payload.whollyKnownL, Payload.containsMarkedL]
  | [], _ :: _, h => by simp [sameL] at h
  | _ :: _, [], h => by simp [sameL] at h
  | x :: xs, y :: ys, h => by
    simp only [sameL, Bool.and_eq_true] at h
    have h1 := same_known x y h.1
    have h2 := same_knownL xs ys h.2
    simp [Payload.whollyKnownL, Payload.containsMarkedL, h1.1, h1.2, h2.1, h2.2]
end

/-! ### the pre-checks of `Equals` on two known values -/

theorem equalsPre_known (a b : Value) (ha : a.isKnown = true) (hb : b.isKnown = true) :
    equalsPre a b = .ok (if a.isNull && b.isNull then some (boolVal true)
      else if a.isNull || b.isNull then some (boolVal false) else none) := by
  unfold equalsPre
  simp [ha, hb, definitelyNotNull]
  cases a.isNull <;> cases b.isNull <;> simp

mutual
theorem hwkt_of_known : ∀ (p : Payload) (t : Ty), p.whollyKnown = true → hasWhollyKnownType t p = true
  | .null, _, _ => by simp [hasWhollyKnownType]
  | .unk _, _, h => by simp [Payload.whollyKnown] at h
  | .b _, t, _ => by cases t <;> simp [hasWhollyKnownType]
  | .n _, t, _ => by cases t <;> simp [hasWhollyKnownType]
  | .s _, t, _ => by cases t <;> simp [hasWhollyKnownType]
  | .caps, t, _ => by cases t <;> simp [hasWhollyKnownType]
  | .bad _, t, _ => by cases t <;> simp [hasWhollyKnownType]
  | .marked _ _, t, _ => by cases t <;> simp [hasWhollyKnownType]
  | .seq vs, t, h => by
    have hl : Payload.whollyKnownL vs = true := by simpa [Payload.whollyKnown] using h
    cases t <;> simp [hasWhollyKnownType, hwktAll_of_known vs _ hl, hwktZip_of_known vs _ hl]
  | .smap _ vs, t, h => by
    have hl : Payload.whollyKnownL vs = true := by simpa [Payload.whollyKnown] using h
    cases t <;> simp [hasWhollyKnownType, hwktAll_of_known vs _ hl, hwktZip_of_known vs _ hl]
  | .sset _ vs, t, h => by
    have hl : Payload.whollyKnownL vs = true := by simpa [Payload.whollyKnown] using h
    cases t <;> simp [hasWhollyKnownType, hwktAll_of_known vs _ hl]
theorem hwktAll_of_known : ∀ (vs : List Payload) (e : Ty), Payload.whollyKnownL vs = true → hwktAll e vs = true
  | [], _, _ => by simp [hwktAll]
  | v :: vs, e, h => by
    simp only [Payload.whollyKnownL, Bool.and_eq_true] at h
    simp [hwktAll, hwkt_of_known v e h.1, hwktAll_of_known vs e h.2]
theorem hwktZip_of_known : ∀ (vs : List Payload) (es : List Ty), Payload.whollyKnownL vs = true → hwktZip es vs = true
  | [], es, _ => by cases es <;> simp [hwktZip]
  | _ :: _, [], _ => by simp [hwktZip]
  | v :: vs, e :: es, h => by
    simp only [Payload.whollyKnownL, Bool.and_eq_true] at h
    simp [hwktZip, hwkt_of_known v e h.1, hwktZip_of_known vs es h.2]
end

theorem lookupKey_mid {k : String} {y : Payload} : ∀ (pre : List String) (preY : List Payload)
    (rest : List String) (restY : List Payload), pre.length = preY.length → k ∉ pre →
    lookupKey k (pre ++ k :: rest) (preY ++ y :: restY) = some y
  | [], [], _, _, _, _ => by simp [lookupKey]
  | [], _ :: _, _, _, hl, _ => by simp at hl
  | _ :: _, [], _, _, hl, _ => by simp at hl
  | a :: pre, b :: preY, rest, restY, hl, h => by
    have ha : a ≠ k := fun e => h (by simp [e])
    simp [lookupKey, ha, lookupKey_mid pre preY rest restY (by simpa using hl)
      (fun hm => h (List.mem_cons_of_mem _ hm))]

theorem eqAcc_true : eqAccOf (.ok (boolVal true)) = .ok .t := by
  simp [eqAccOf, boolVal, Value.isKnown, Payload.isKnown, Payload.unmark1, Value.isFalse]

theorem depthL_cons {v : Payload} {vs : List Payload} {n : Nat} (h : Payload.depthL (v :: vs) ≤ n) :
    v.depth ≤ n ∧ Payload.depthL vs ≤ n := by
  simp only [Payload.depthL] at h
  omega

mutual
/-- `Equals` on `sameP` payloads of one set-free type, with enough fuel -/
theorem eq_of_same : ∀ (q p : Payload) (t : Ty) (n : Nat), sameP p q = true → wf t = true →
    setFree t = true → wfP t q = true → q.whollyKnown = true → q.containsMarked = false →
    q.depth ≤ n → equalsFuel n t p t q = .ok (boolVal true)
  | .unk _, p, _, _, h, _, _, _, _, _, _ => by cases p <;> simp [sameP] at h
  | .caps, p, _, _, h, _, _, _, _, _, _ => by cases p <;> simp [sameP] at h
  | .bad _, p, _, _, h, _, _, _, _, _, _ => by cases p <;> simp [sameP] at h
  | .marked _ _, p, _, _, h, _, _, _, _, _, _ => by cases p <;> simp [sameP] at h
  | .sset _ _, _, t, _, _, _, hs, hw, _, _, _ => by
    cases t <;> simp [wfP] at hw
    simp [setFree] at hs
  | .null, p, t, n, h, _, _, _, _, _, hd => by
    cases p <;> simp [sameP] at h
    cases n with
    | zero => simp [Payload.depth] at hd
    | succ n =>
      rw [equalsFuel, equalsPre_known _ _ (by rfl) (by rfl)]
      simp [Value.isNull, Payload.isNull, Payload.unmark1]
  | .b y, p, t, n, h, _, _, hw, _, _, hd => by
    cases p <;> simp [sameP] at h
    subst h
    cases n with
    | zero => simp [Payload.depth] at hd
    | succ n =>
      cases t <;> simp [wfP] at hw
      rw [equalsFuel, equalsPre_known _ _ (by rfl) (by rfl)]
      simp [Value.isNull, Payload.isNull, Payload.unmark1, hasWhollyKnownType, Ty.equals]
  | .s y, p, t, n, h, _, _, hw, _, _, hd => by
    cases p <;> simp [sameP] at h
    subst h
    cases n with
    | zero => simp [Payload.depth] at hd
    | succ n =>
      cases t <;> simp [wfP] at hw
      rw [equalsFuel, equalsPre_known _ _ (by rfl) (by rfl)]
      simp [Value.isNull, Payload.isNull, Payload.unmark1, hasWhollyKnownType, Ty.equals]
  | .n y, p, t, n, h, _, _, hw, _, _, hd => by
    cases p <;> simp [sameP] at h
    cases n with
    | zero => simp [Payload.depth] at hd
    | succ n =>
      cases t <;> simp [wfP] at hw
      rw [equalsFuel, equalsPre_known _ _ (by rfl) (by rfl)]
      simp [Value.isNull, Payload.isNull, Payload.unmark1, hasWhollyKnownType, Ty.equals, h]
  | .seq ys, p, t, n, h, hwt, hs, hw, hk, hm, hd => by
    cases p <;> simp [sameP] at h
    rename_i xs
    have hkl : Payload.whollyKnownL ys = true := by simpa [Payload.whollyKnown] using hk
    have hml : Payload.containsMarkedL ys = false := by simpa [Payload.containsMarked] using hm
    have hx := same_knownL xs ys h
    have hkx : (Payload.seq xs).whollyKnown = true := by simpa [Payload.whollyKnown] using hx.1
    have hmx : (Payload.seq xs).containsMarked = false := by simpa [Payload.containsMarked] using hx.2
    cases n with
    | zero => simp [Payload.depth] at hd
    | succ n =>
      have hdl : Payload.depthL ys ≤ n := by simp only [Payload.depth] at hd; omega
      have hkp : (⟨t, .seq xs⟩ : Value).isKnown = true := isKnown_of_whollyKnown hkx (isMarked_of_containsMarked hmx)
      have hkq : (⟨t, .seq ys⟩ : Value).isKnown = true := isKnown_of_whollyKnown hk (isMarked_of_containsMarked hm)
      rw [equalsFuel, equalsPre_known _ _ hkp hkq]
      cases t with
      | list e =>
        simp only [wfP] at hw
        have := eqAll_of_same ys xs e n h (by simpa [wf] using hwt) (by simpa [setFree] using hs) hw hkl hml hdl
        simp [Value.isNull, Payload.isNull, Payload.unmark1, hwkt_of_known _ _ hkx, hwkt_of_known _ _ hk,
          (Ty.equals_iff_eq _ _ hwt hwt).mpr rfl, sameL_length h, this, Res.map, accVal]
      | tuple es =>
        simp only [wfP, Bool.and_eq_true, beq_iff_eq] at hw
        have := eqZip_of_same ys xs es n h (by simpa [wf] using hwt) (by simpa [setFree] using hs) hw.2 hkl hml hdl
        simp [Value.isNull, Payload.isNull, Payload.unmark1, hwkt_of_known _ _ hkx, hwkt_of_known _ _ hk,
          (Ty.equals_iff_eq _ _ hwt hwt).mpr rfl, this, Res.map, accVal]
      | _ => simp [wfP] at hw
  | .smap ky ys, p, t, n, h, hwt, hs, hw, hk, hm, hd => by
    cases p <;> simp [sameP] at h
    rename_i kx xs
    obtain ⟨hkeys, h⟩ := h
    subst hkeys
    have hkl : Payload.whollyKnownL ys = true := by simpa [Payload.whollyKnown] using hk
    have hml : Payload.containsMarkedL ys = false := by simpa [Payload.containsMarked] using hm
    have hx := same_knownL xs ys h
    have hkx : (Payload.smap kx xs).whollyKnown = true := by simpa [Payload.whollyKnown] using hx.1
    have hmx : (Payload.smap kx xs).containsMarked = false := by simpa [Payload.containsMarked] using hx.2
    cases n with
    | zero => simp [Payload.depth] at hd
    | succ n =>
      have hdl : Payload.depthL ys ≤ n := by simp only [Payload.depth] at hd; omega
      have hkp : (⟨t, .smap kx xs⟩ : Value).isKnown = true := isKnown_of_whollyKnown hkx (isMarked_of_containsMarked hmx)
      have hkq : (⟨t, .smap kx ys⟩ : Value).isKnown = true := isKnown_of_whollyKnown hk (isMarked_of_containsMarked hm)
      rw [equalsFuel, equalsPre_known _ _ hkp hkq]
      cases t with
      | map e =>
        simp only [wfP, Bool.and_eq_true, beq_iff_eq] at hw
        obtain ⟨⟨hlen, hasc⟩, hw⟩ := hw
        have := eqMap_of_same ys xs kx e n [] [] kx ys rfl rfl rfl (strictAsc_nodup hasc) hlen h
          (by simpa [wf] using hwt) (by simpa [setFree] using hs) hw hkl hml hdl
        simp [Value.isNull, Payload.isNull, Payload.unmark1, hwkt_of_known _ _ hkx, hwkt_of_known _ _ hk,
          (Ty.equals_iff_eq _ _ hwt hwt).mpr rfl, sameL_length h, this, Res.map, accVal]
      | object ns ts os =>
        simp only [wfP, Bool.and_eq_true, beq_iff_eq] at hw
        have hwt' := hwt
        simp only [wf, Bool.and_eq_true] at hwt'
        have := eqObj_of_same ys xs ts n h hwt'.2 (by simpa [setFree] using hs) hw.2 hkl hml hdl
        simp [Value.isNull, Payload.isNull, Payload.unmark1, hwkt_of_known _ _ hkx, hwkt_of_known _ _ hk,
          (Ty.equals_iff_eq _ _ hwt hwt).mpr rfl, this, Res.map, accVal]
      | _ => simp [wfP] at hw
theorem eqAll_of_same : ∀ (ys xs : List Payload) (e : Ty) (n : Nat), sameL xs ys = true → wf e = true →
    setFree e = true → wfAll e ys = true → Payload.whollyKnownL ys = true →
    Payload.containsMarkedL ys = false → Payload.depthL ys ≤ n →
    equalsAll (equalsFuel n) e xs ys = .ok .t
  | [], xs, _, _, h, _, _, _, _, _, _ => by cases xs <;> simp [sameL] at h <;> simp [equalsAll]
  | y :: ys, xs, e, n, h, hwt, hs, hw, hk, hm, hd => by
    cases xs with
    | nil => simp [sameL] at h
    | cons x xs =>
      simp only [sameL, Bool.and_eq_true] at h
      simp only [wfAll, Bool.and_eq_true] at hw
      simp only [Payload.whollyKnownL, Bool.and_eq_true] at hk
      simp only [Payload.containsMarkedL, Bool.or_eq_false_iff] at hm
      have hd' := depthL_cons hd
      simp [equalsAll, eq_of_same y x e n h.1 hwt hs hw.1 hk.1 hm.1 hd'.1, eqAcc_true,
        eqAll_of_same ys xs e n h.2 hwt hs hw.2 hk.2 hm.2 hd'.2]
theorem eqZip_of_same : ∀ (ys xs : List Payload) (es : List Ty) (n : Nat), sameL xs ys = true → wfL es = true →
    setFreeL es = true → wfZip es ys = true → Payload.whollyKnownL ys = true →
    Payload.containsMarkedL ys = false → Payload.depthL ys ≤ n →
    Value.equalsZip (equalsFuel n) es xs ys = .ok .t
  | [], xs, es, _, h, _, _, _, _, _, _ => by
    cases xs <;> simp [sameL] at h
    cases es <;> simp [Value.equalsZip]
  | y :: ys, xs, es, n, h, hwt, hs, hw, hk, hm, hd => by
    cases xs with
    | nil => simp [sameL] at h
    | cons x xs =>
      cases es with
      | nil => simp [Value.equalsZip]
      | cons e es =>
        simp only [sameL, Bool.and_eq_true] at h
        simp only [wfL, Bool.and_eq_true] at hwt
        simp only [setFreeL, Bool.and_eq_true] at hs
        simp only [wfZip, Bool.and_eq_true] at hw
        simp only [Payload.whollyKnownL, Bool.and_eq_true] at hk
        simp only [Payload.containsMarkedL, Bool.or_eq_false_iff] at hm
        have hd' := depthL_cons hd
        simp [Value.equalsZip, eq_of_same y x e n h.1 hwt.1 hs.1 hw.1 hk.1 hm.1 hd'.1, eqAcc_true,
          eqZip_of_same ys xs es n h.2 hwt.2 hs.2 hw.2 hk.2 hm.2 hd'.2]
theorem eqObj_of_same : ∀ (ys xs : List Payload) (es : List Ty) (n : Nat), sameL xs ys = true → wfL es = true →
    setFreeL es = true → wfZip es ys = true → Payload.whollyKnownL ys = true →
    Payload.containsMarkedL ys = false → Payload.depthL ys ≤ n →
    equalsObj (equalsFuel n) es xs ys false = .ok .t
  | [], xs, es, _, h, _, _, _, _, _, _ => by
    cases xs <;> simp [sameL] at h
    cases es <;> simp [equalsObj]
  | y :: ys, xs, es, n, h, hwt, hs, hw, hk, hm, hd => by
    cases xs with
    | nil => simp [sameL] at h
    | cons x xs =>
      cases es with
      | nil => simp [equalsObj]
      | cons e es =>
        simp only [sameL, Bool.and_eq_true] at h
        simp only [wfL, Bool.and_eq_true] at hwt
        simp only [setFreeL, Bool.and_eq_true] at hs
        simp only [wfZip, Bool.and_eq_true] at hw
        simp only [Payload.whollyKnownL, Bool.and_eq_true] at hk
        simp only [Payload.containsMarkedL, Bool.or_eq_false_iff] at hm
        have hd' := depthL_cons hd
        simp [equalsObj, eq_of_same y x e n h.1 hwt.1 hs.1 hw.1 hk.1 hm.1 hd'.1, eqAcc_true,
          eqObj_of_same ys xs es n h.2 hwt.2 hs.2 hw.2 hk.2 hm.2 hd'.2]
theorem eqMap_of_same : ∀ (ys xs : List Payload) (ks : List String) (e : Ty) (n : Nat)
    (pre : List String) (preY : List Payload) (ky : List String) (yAll : List Payload),
    ky = pre ++ ks → yAll = preY ++ ys → pre.length = preY.length → ky.Nodup → ks.length = ys.length →
    sameL xs ys = true → wf e = true → setFree e = true → wfAll e ys = true →
    Payload.whollyKnownL ys = true → Payload.containsMarkedL ys = false → Payload.depthL ys ≤ n →
    equalsMap (equalsFuel n) e ks xs ky yAll false = .ok .t
  | [], xs, ks, _, _, _, _, _, _, _, _, _, _, hl, h, _, _, _, _, _, _ => by
    cases xs <;> simp [sameL] at h
    cases ks <;> simp [equalsMap]
  | y :: ys, xs, ks, e, n, pre, preY, ky, yAll, hky, hy, hpl, hnd, hl, h, hwt, hs, hw, hk, hm, hd => by
    cases xs with
    | nil => simp [sameL] at h
    | cons x xs =>
      cases ks with
      | nil => simp at hl
      | cons k ks =>
        simp only [sameL, Bool.and_eq_true] at h
        simp only [wfAll, Bool.and_eq_true] at hw
        simp only [Payload.whollyKnownL, Bool.and_eq_true] at hk
        simp only [Payload.containsMarkedL, Bool.or_eq_false_iff] at hm
        have hd' := depthL_cons hd
        subst hky; subst hy
        have hnot : k ∉ pre := by
          have := List.nodup_append.mp hnd
          intro hmem
          exact this.2.2 k hmem k (by simp) rfl
        have hrest := eqMap_of_same ys xs ks e n (pre ++ [k]) (preY ++ [y]) (pre ++ k :: ks) (preY ++ y :: ys)
          (by simp) (by simp) (by simp [hpl]) hnd (by simpa using hl) h.2 hwt hs hw.2 hk.2 hm.2 hd'.2
        simp [equalsMap, lookupKey_mid pre preY ks ys hpl hnot,
          eq_of_same y x e n h.1 hwt hs hw.1 hk.1 hm.1 hd'.1, eqAcc_true, hrest]
end

/-- `Value.Equals` answers a known `True` for `sameP` payloads of one set-free well-formed type -/
theorem equals_of_same (t : Ty) (p q : Payload) (h : sameP p q = true) (hwt : wf t = true)
    (hs : setFree t = true) (hw : wfP t q = true) (hk : q.whollyKnown = true)
    (hm : q.containsMarked = false) : Value.equals ⟨t, p⟩ ⟨t, q⟩ = .ok (boolVal true) := by
  have hx := same_known p q h
  unfold Value.equals
  simp only [Value.containsMarked, hx.2, hm, Bool.or_self, Bool.false_eq_true, if_false]
  unfold equalsP
  exact eq_of_same q p t _ h hwt hs hw hk hm (by omega)

end JsonVal
end CtyModel
