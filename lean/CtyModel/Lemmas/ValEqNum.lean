/-
`rawNumberEqual` is an equivalence relation, whatever text function it uses: it
compares a key (sign, integer-ness, the integer value or the fixed-up text).
-/
import CtyModel.SetRulesSpec
namespace CtyModel
namespace Num

def fixZeroText (s : String) : String := if s == "-0" then "0" else s

/-- what `rawNumberEqual` compares -/
def eqKey (text : Num → String) (a : Num) : Int × Bool × Option Int × String :=
  (a.sign, a.isInt, if a.isInt then a.truncInt else none, if a.isInt then "" else fixZeroText (text a))

theorem rawEqualWith_iff (text : Num → String) (a b : Num) :
    rawEqualWith text a b = true ↔ eqKey text a = eqKey text b := by
  simp only [rawEqualWith, eqKey, Prod.mk.injEq]
  by_cases hs : a.sign = b.sign
  · by_cases hi : a.isInt = b.isInt
    · cases hb : b.isInt <;> simp [hs, hi, hb, fixZeroText]
    · simp [hs, hi]
  · simp [hs]

theorem rawEqualWith_refl (text : Num → String) (a : Num) : rawEqualWith text a a = true :=
  (rawEqualWith_iff text a a).mpr rfl

theorem rawEqualWith_symm (text : Num → String) (a b : Num) :
    rawEqualWith text a b = rawEqualWith text b a := by
  cases h : rawEqualWith text a b with
  | true => exact ((rawEqualWith_iff text b a).mpr ((rawEqualWith_iff text a b).mp h).symm).symm
  | false =>
    cases h' : rawEqualWith text b a with
    | false => rfl
    | true => rw [(rawEqualWith_iff text a b).mpr ((rawEqualWith_iff text b a).mp h').symm] at h; cases h

theorem rawEqualWith_trans (text : Num → String) (a b c : Num)
    (h1 : rawEqualWith text a b = true) (h2 : rawEqualWith text b c = true) :
    rawEqualWith text a c = true :=
  (rawEqualWith_iff text a c).mpr
    (((rawEqualWith_iff text a b).mp h1).trans ((rawEqualWith_iff text b c).mp h2))

theorem rawEqual_eq_with : rawEqual = rawEqualWith textF := rfl

theorem rawEq_refl (a : Num) : rawEqual a a = true := rawEqualWith_refl _ a
theorem rawEq_symm (a b : Num) : rawEqual a b = rawEqual b a := rawEqualWith_symm _ a b
theorem rawEq_trans (a b c : Num) (h1 : rawEqual a b = true) (h2 : rawEqual b c = true) :
    rawEqual a c = true := rawEqualWith_trans _ a b c h1 h2

end Num
end CtyModel
