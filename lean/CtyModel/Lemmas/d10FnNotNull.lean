/-
Lemmas for C10, slice d10 (part 2): the `RefineResult` menu the driver runs (`b.NotNull()`, a callback
that panics) — the representation invariant `RefinePayloadUnmarked` holds of it, and exactly when the
builder refuses; `Unpredictable`: what `Call` returns with `unpredictableImpl`.
-/
import CtyModel.Lemmas.d10FnWrap
namespace CtyModel
namespace Fn
namespace D10

theorem freshRfn_nullness (t : Ty) : (freshRfn t).nullness = .u := by cases t <;> rfl

/-- the value is null, or an unknown value whose refinement says "definitely null" (which cty's
constructors never build: `NewValue` collapses it to the null value) -/
def NullOrDefinitelyNull (u : Value) : Prop :=
  u.v = .null ∨ ∃ r, u.v = .unk r ∧ u.ty.isDyn = false ∧ (wipOf u.ty r).nullness = .t

theorem newValueNN_cases (t : Ty) (w : Rfn) :
    newValueNN t w = .unmodelled ∨ ∃ p, newValueNN t w = .ok p ∧ p.isMarked = false := by
  unfold newValueNN
  repeat' split
  all_goals first | exact Or.inl rfl | exact Or.inr ⟨_, rfl, rfl⟩

theorem notNull_payload_unmarked {u : Value} {p : Payload} (hm : u.v.isMarked = false)
    (h : notNull u = .ok p) : p.isMarked = false := by
  obtain ⟨t, pl⟩ := u
  cases pl with
  | unk r =>
    simp only [notNull] at h
    split at h
    · cases h; rfl
    · split at h
      · cases h
      · rcases newValueNN_cases t (setNotNull (wipOf t r)) with e | ⟨q, e, hq⟩
        · rw [e] at h; cases h
        · rw [e] at h; cases h; exact hq
  | marked ms r => simp [Payload.isMarked] at hm
  | _ => simp only [notNull, Res.ok.injEq] at h <;> first | (subst h; rfl) | (cases h)

/-- `b.NotNull()` … `NewValue()` panics exactly on a null value and on a definitely-null unknown -/
theorem notNull_panic_iff (u : Value) : (∃ w, notNull u = .panic w) ↔ NullOrDefinitelyNull u := by
  obtain ⟨t, pl⟩ := u
  unfold NullOrDefinitelyNull
  cases pl with
  | null => simp [notNull]
  | unk r =>
    by_cases hd : t.isDyn = true
    · simp [notNull, hd]
    · simp only [notNull, hd, Bool.false_eq_true, if_false]
      by_cases hn : (wipOf t r).nullness = .t
      · rw [hn]
        exact ⟨fun _ => Or.inr ⟨r, rfl, by simpa using hd, hn⟩, fun _ => ⟨_, rfl⟩⟩
      · have hb : ((wipOf t r).nullness == Tri.t) = false := by
          cases h : (wipOf t r).nullness <;> first | rfl | exact absurd h hn
        simp only [hb, Bool.false_eq_true, if_false]
        constructor
        · rintro ⟨w, h⟩
          rcases newValueNN_cases t (setNotNull (wipOf t r)) with e | ⟨q, e, _⟩ <;> rw [e] at h <;> cases h
        · rintro (h | ⟨r', h1, _, h3⟩)
          · cases h
          · simp only [Payload.unk.injEq] at h1; subst h1; exact absurd h3 hn
  | _ => simp [notNull]

theorem notNull_not_err (u : Value) (e : String) : notNull u ≠ .err e := by
  obtain ⟨t, pl⟩ := u
  cases pl with
  | unk r =>
    simp only [notNull]
    split
    · simp
    · split
      · simp
      · rcases newValueNN_cases t (setNotNull (wipOf t r)) with h | ⟨q, h, _⟩ <;> rw [h] <;> simp
  | _ => simp [notNull]

/-- the driver's refiners satisfy the representation invariant of the builder -/
theorem refinePayloadUnmarked_notNull : RefinePayloadUnmarked (toRefineFn notNull) := by
  intro u p hm h
  unfold toRefineFn at h
  cases hn : notNull u with
  | ok q => simp only [hn, Option.some.injEq] at h; subst h; exact notNull_payload_unmarked hm hn
  | err e => simp [hn] at h
  | panic w => simp [hn] at h
  | unmodelled => simp [hn] at h

theorem refinePayloadUnmarked_panics : RefinePayloadUnmarked (toRefineFn refinePanics) := by
  intro u p _ h; simp [toRefineFn, refinePanics] at h

/-- the model's `RefineFn` of `b.NotNull()` refuses exactly where the builder panics — or where the
driver's transliteration of `NewValue` leaves the modelled fragment (the one-element-set collapse) -/
theorem toRefineFn_notNull_none_iff (u : Value) :
    toRefineFn notNull u = none ↔ NullOrDefinitelyNull u ∨ notNull u = .unmodelled := by
  rw [← notNull_panic_iff]
  unfold toRefineFn
  cases hn : notNull u with
  | ok q => simp
  | err e => exact absurd hn (notNull_not_err u e)
  | panic w => simp
  | unmodelled => simp

/-- an unknown value without refinement is never refused, whatever its type -/
theorem notNull_unknown (t : Ty) : ¬ NullOrDefinitelyNull (Value.unknown t).unmark := by
  rintro (h | ⟨r, h1, _, h3⟩)
  · cases h
  · simp only [Value.unmark, Value.unknown, Payload.unmark1, Payload.unk.injEq] at h1
    subst h1
    simp [wipOf, freshRfn_nullness] at h3

/-! ### `Unpredictable` -/

theorem withMarkSets_nil_length {v : Value} {mss : List (List String)} (h : ¬ mss.length > 0) :
    withMarkSets v mss = v := by
  unfold withMarkSets
  have : mss.length = 0 := by omega
  simp [this]

/-- `Unpredictable(f).Call(args)` before the declared refinement: the same checks and the same `Type`
invocation as `f`'s, and where `f.Call` would have gone on to `Impl` — or short-circuited — an
unknown value of the checked return type with the unhandled marks. -/
theorem callUnrefined_unpredictable (spec : Spec) (tf : TypeFn) (args : List Value)
    (hT : ∀ as t, tf as = .ok t → Ty.wf t = true) :
    (callUnrefined spec tf unpredictableImpl args).1 =
      (mapOut (fun t => withMarkSets (Value.unknown t) (unhandledMarkSets spec args))
        (returnTypeForValuesPub spec tf args)).1 := by
  rw [callUnrefined_eq, rtfvPub_eq]
  by_cases hc : spec.countOK args.length = true
  · simp only [hc, if_true]
    cases hf : firstFail (spec.expand args.length) args with
    | some kf => obtain ⟨k, f⟩ := kf; cases f <;> rfl
    | none =>
      simp only
      cases ht : tf (typeArgs spec args) with
      | ok rt =>
        simp only [mapOut]
        by_cases hu : (pass2 (spec.expand args.length) args).unknown = true
        · simp [hu]
        · simp only [hu, Bool.false_eq_true, if_false, unpredictableImpl]
          have hcf : Ty.conformErrs rt (Value.unknown rt).ty = 0 := conform_refl rt (hT _ _ ht)
          simp only [hcf, bne_self_eq_false, Bool.false_eq_true, if_false, Out.ok.injEq]
          unfold withUnhandled
          split
          · rfl
          · rename_i h; exact (withMarkSets_nil_length h).symm
      | err c => rfl
      | panic w => rfl
      | unmodelled => rfl
  · simp [hc, mapOut]

end D10
end Fn
end CtyModel
