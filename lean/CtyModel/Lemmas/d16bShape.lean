/-
C16 (second deepening, d16b) — the SHAPE of what the hand-written decoder `D17.unmarshal` answers for the
requested types `number`, `bool` and `[number, bool]` (the type `unmarshalUnknownValue` asks for when it
reads a numeric bound), for EVERY item: the facts the translated decoder's guards
(`Index`, `Type().Equals`, `IsKnown`, `IsNull`, `True`) look at.  Used by `Lemmas/d16bDecTie.lean`.
-/
import CtyModel.Lemmas.d17MsgpackWF
set_option linter.unusedSimpArgs false
set_option linter.unusedVariables false
namespace CtyModel
namespace D16b
open Refine Msgpack

/-- the payloads a value of a primitive type can have when it carries no marks -/
def primP : Payload → Bool
  | .null => true
  | .unk _ => true
  | .n _ => true
  | .b _ => true
  | _ => false

def numP : Payload → Bool
  | .null => true
  | .unk _ => true
  | .n _ => true
  | _ => false

def boolP : Payload → Bool
  | .null => true
  | .unk _ => true
  | .b _ => true
  | _ => false

theorem map_ok {α β} {f : α → β} {r : Res α} {y : β} (h : r.map f = .ok y) : ∃ x, r = .ok x ∧ f x = y := by
  cases r <;> simp [Res.map] at h
  exact ⟨_, rfl, h⟩

theorem len_two {α} {l : List α} (h : l.length = 2) : ∃ a b, l = [a, b] := by
  match l, h with
  | [a, b], _ => exact ⟨a, b, rfl⟩

theorem wf_num {nfc : String → Bool} {p : Payload} (h : Payload.wfP nfc .number p = true) (hm : p.containsMarked = false) :
    numP p = true := by
  cases p <;> simp [Payload.wfP, Payload.containsMarked, numP] at h hm ⊢

theorem wf_bool {nfc : String → Bool} {p : Payload} (h : Payload.wfP nfc .bool p = true) (hm : p.containsMarked = false) :
    boolP p = true := by
  cases p <;> simp [Payload.wfP, Payload.containsMarked, boolP] at h hm ⊢

section
variable [O : EqOracle] (E : Ext)

/-- whatever item is decoded as a `number`: the answer has type `number` and is null, unknown or a number -/
theorem num_shape {x : Item} {a : Value} (h : D17.unmarshal E x .number = .ok a) :
    a.ty = .number ∧ numP a.v = true := by
  cases x with
  | ext code len hdr stream =>
    obtain ⟨h1, h2, h3, _⟩ := D17.ext_fine E h
    exact ⟨h1, wf_num h2 h3⟩
  | nil => simp [D17.unmarshal, Value.null] at h; subst h; exact ⟨rfl, rfl⟩
  | bool b => simp [D17.unmarshal] at h
  | arr xs => simp [D17.unmarshal] at h
  | map ks vs => simp [D17.unmarshal] at h
  | _ =>
    simp only [D17.unmarshal] at h
    obtain ⟨m, _, hm⟩ := map_ok h
    subst hm; exact ⟨rfl, rfl⟩

/-- whatever item is decoded as a `bool` -/
theorem bool_shape {x : Item} {a : Value} (h : D17.unmarshal E x .bool = .ok a) :
    a.ty = .bool ∧ boolP a.v = true := by
  cases x with
  | ext code len hdr stream =>
    obtain ⟨h1, h2, h3, _⟩ := D17.ext_fine E h
    exact ⟨h1, wf_bool h2 h3⟩
  | nil => simp [D17.unmarshal, Value.null] at h; subst h; exact ⟨rfl, rfl⟩
  | bool b => simp [D17.unmarshal] at h; subst h; exact ⟨rfl, rfl⟩
  | arr xs => simp [D17.unmarshal] at h
  | map ks vs => simp [D17.unmarshal] at h
  | _ => simp [D17.unmarshal] at h

/-- whatever item is decoded as `[number, bool]`: null, unknown, or a pair of a number-shaped and a bool-shaped member -/
theorem bound_shape {v : Item} {raw : Value} (h : D17.unmarshal E v boundTy = .ok raw) :
    raw.v = .null ∨ (∃ r, raw.v = .unk r) ∨
      ∃ a b, raw = ⟨.tuple [.number, .bool], .seq [a, b]⟩ ∧ numP a = true ∧ boolP b = true := by
  cases v with
  | ext code len hdr stream =>
    obtain ⟨h1, h2, h3, _⟩ := D17.ext_fine E h
    obtain ⟨t, p⟩ := raw
    have h1' : t = .tuple [.number, .bool] := h1
    subst h1'
    have h2' : Payload.wfP (D17.nfcM E) (.tuple [.number, .bool]) p = true := h2
    have h3' : p.containsMarked = false := h3
    cases p with
    | null => exact Or.inl rfl
    | unk r => exact Or.inr (Or.inl ⟨r, rfl⟩)
    | seq vs =>
      simp [Payload.wfP] at h2'
      obtain ⟨a, b, rfl⟩ := len_two h2'.1.symm
      simp [Payload.wfZip, Payload.containsMarked, Payload.containsMarkedL] at h2' h3'
      exact Or.inr (Or.inr ⟨a, b, rfl, wf_num h2'.1 h3'.1, wf_bool h2'.2 h3'.2⟩)
    | _ => simp [Payload.wfP, Payload.containsMarked] at h2' h3'
  | nil => simp [D17.unmarshal, Value.null] at h; subst h; exact Or.inl rfl
  | arr xs =>
    simp only [D17.unmarshal, boundTy] at h
    split at h
    · cases h
    · split at h
      · rename_i hl he
        cases xs <;> simp at he
        simp at hl
      · rename_i hl he
        have hl2 : xs.length = 2 := by simpa using hl
        obtain ⟨x, y, rfl⟩ := len_two hl2
        obtain ⟨vs, hz, hv⟩ := map_ok h
        simp only [D17.unmarshalZip] at hz
        cases hx : D17.unmarshal E x .number <;> simp [hx] at hz
        rename_i a'
        cases hy : D17.unmarshal E y .bool <;> simp [hy, Res.map] at hz
        rename_i b'
        subst hz
        obtain ⟨ha1, ha2⟩ := num_shape E hx
        obtain ⟨hb1, hb2⟩ := bool_shape E hy
        subst hv
        refine Or.inr (Or.inr ⟨a'.v, b'.v, ?_, ha2, hb2⟩)
        simp [Msgpack.tupleVal, types, payloads, ha1, hb1]
  | _ => simp [D17.unmarshal, boundTy] at h

end
end D16b
end CtyModel
