/-
d03 — `setRules.Less` on members of a PRIMITIVE element type (string, bool,
number): it never fails, it is decided by a plain specification (`primLessB`),
and on wholly known members whose numbers are integers it is a strict order that
is total between inequivalent members — the hypothesis of
`C03.values_order_indep_of_total`, discharged for cty's own rules.
-/
import CtyModel.Lemmas.d03Hash
namespace CtyModel
open Value

/-! ### bytes -/

theorem ByteArray.toList_loop_eq' (bs : ByteArray) : ∀ (n i : Nat) (r : List UInt8), bs.size - i = n →
    ByteArray.toList.loop bs i r = r.reverse ++ bs.data.toList.drop i := by
  intro n
  induction n with
  | zero =>
    intro i r h
    rw [ByteArray.toList.loop.eq_def]
    have : ¬ i < bs.size := by omega
    simp only [this, if_false]
    have : bs.data.toList.length ≤ i := by rw [Array.length_toList, ByteArray.size_data]; omega
    rw [List.drop_eq_nil_of_le this]; simp
  | succ n ih =>
    intro i r h
    rw [ByteArray.toList.loop.eq_def]
    have hi : i < bs.size := by omega
    simp only [hi, if_true]
    rw [ih (i+1) _ (by omega)]
    have hl : i < bs.data.toList.length := by rw [Array.length_toList, ByteArray.size_data]; exact hi
    rw [List.drop_eq_getElem_cons hl]
    have : bs.get! i = bs.data.toList[i] := by
      cases bs with
      | mk d =>
        simp only [ByteArray.get!]
        have hd : i < d.size := by simpa using hl
        simp [getElem!_pos, hd]
    rw [this]; simp

theorem ByteArray.toList_eq_data' (bs : ByteArray) : bs.toList = bs.data.toList := by
  rw [ByteArray.toList, ByteArray.toList_loop_eq' bs _ 0 [] rfl]; simp

/-- the UTF-8 bytes determine the string -/
theorem strBytes_inj {a b : String} (h : strBytes a = strBytes b) : a = b := by
  simp only [strBytes] at h
  rw [ByteArray.toList_eq_data', ByteArray.toList_eq_data'] at h
  exact String.toByteArray_inj.mp (ByteArray.ext (Array.toList_inj.mp h))

theorem u8_tri (x y : UInt8) (h1 : ¬ x < y) (h2 : ¬ y < x) : x = y := by
  apply UInt8.toNat_inj.mp
  rw [UInt8.lt_iff_toNat_lt] at h1 h2
  omega

theorem bytesLt_irrefl : ∀ a : Bytes, bytesLt a a = false
  | [] => rfl
  | x :: xs => by simp [bytesLt, UInt8.lt_irrefl, bytesLt_irrefl xs]

theorem bytesLt_total : ∀ a b : Bytes, a ≠ b → bytesLt a b = true ∨ bytesLt b a = true
  | [], [], h => absurd rfl h
  | [], _ :: _, _ => Or.inl rfl
  | _ :: _, [], _ => Or.inr rfl
  | x :: xs, y :: ys, h => by
    simp only [bytesLt]
    by_cases h1 : x < y
    · simp [h1]
    · by_cases h2 : y < x
      · simp [h1, h2]
      · have hxy : x = y := u8_tri x y h1 h2
        subst hxy
        simp only [h1, if_false]
        exact bytesLt_total xs ys (fun e => h (by rw [e]))

theorem bytesLt_trans : ∀ a b c : Bytes, bytesLt a b = true → bytesLt b c = true → bytesLt a c = true
  | [], [], _, h, _ => by simp [bytesLt] at h
  | [], _ :: _, [], _, h => by simp [bytesLt] at h
  | [], _ :: _, _ :: _, _, _ => rfl
  | _ :: _, [], _, h, _ => by simp [bytesLt] at h
  | _ :: _, _ :: _, [], _, h => by simp [bytesLt] at h
  | x :: xs, y :: ys, z :: zs, h1, h2 => by
    simp only [bytesLt] at h1 h2 ⊢
    have ih := bytesLt_trans xs ys zs
    have lt_tr : ∀ {a b c : UInt8}, a < b → b < c → a < c := fun h h' => UInt8.lt_trans h h'
    by_cases hxy : x < y
    · by_cases hyz : y < z
      · rw [if_pos (lt_tr hxy hyz)]
      · rw [if_neg hyz] at h2
        by_cases hzy : z < y
        · rw [if_pos hzy] at h2; cases h2
        · have := u8_tri y z hyz hzy; subst this; rw [if_pos hxy]
    · rw [if_neg hxy] at h1
      by_cases hyx : y < x
      · rw [if_pos hyx] at h1; cases h1
      · have := u8_tri x y hxy hyx; subst this
        rw [if_neg hyx] at h1
        by_cases hyz : x < z
        · rw [if_pos hyz]
        · rw [if_neg hyz] at h2 ⊢
          by_cases hzy : z < x
          · rw [if_pos hzy] at h2; cases h2
          · rw [if_neg hzy] at h2 ⊢; exact ih h1 h2

/-! ### `Less` on primitive members, as a specification -/

theorem Ty.isPrim_plain {e : Ty} (h : e.isPrim = true) : e.plain = true ∧ e.wf = true := by
  cases e <;> simp [Ty.isPrim] at h <;> exact ⟨rfl, rfl⟩

theorem lvl_raw_eq (n : Nat) {e : Ty} (hw : e.wf = true) (hp : e.plain = true) {x y : Payload}
    (wx : x.shaped e = true) (wy : y.shaped e = true) :
    (lvl (n + 1)).raw e x e y = .ok (rawB e x y) := by
  simp only [lvl, rawS, Ty.equals_self hw, Bool.not_true, Bool.false_eq_true, if_false]
  exact rawK_eq_rawB _ e x y hp wx wy

/-- **`Less` never fails on unmarked well-formed members of a primitive type** and
is the specification `primLessB`. -/
theorem setLess_prim {e : Ty} (he : e.isPrim = true) {x y : Payload}
    (wx : x.shaped e = true) (wy : y.shaped e = true) (mx : x.isMarked = false) (my : y.isMarked = false) :
    setLess e x y = .ok (primLessB e x y) := by
  obtain ⟨hp, hw⟩ := Ty.isPrim_plain he
  simp only [setLess, Lvl.less, lvl_raw_eq _ hw hp wx wy, Res.bind_ok, primLessB]
  cases hr : rawB e x y
  · simp only [Bool.false_eq_true, if_false]
    cases e <;> simp [Ty.isPrim] at he <;>
      cases x <;> simp [Payload.shaped, Ty.isBool, Ty.isNumber, Ty.isString, Payload.isMarked] at wx mx <;>
      cases y <;> simp [Payload.shaped, Ty.isBool, Ty.isNumber, Ty.isString, Payload.isMarked] at wy my <;>
      simp [Payload.isNull, Payload.isKnown, Payload.unmark1] <;> rfl
  · simp

/-! ### the order on wholly known members -/

/-- a wholly known unmarked member of a primitive type is null or the leaf -/
theorem prim_member_cases {e : Ty} (he : e.isPrim = true) {x : Payload} (wx : x.shaped e = true)
    (kx : x.whollyKnown = true) (mx : x.containsMarked = false) :
    x = .null ∨ (e = .string ∧ ∃ a, x = .s a) ∨ (e = .bool ∧ ∃ a, x = .b a) ∨ (e = .number ∧ ∃ a, x = .n a) := by
  cases e <;> simp [Ty.isPrim] at he <;>
    cases x <;> simp [Payload.shaped, Ty.isBool, Ty.isNumber, Ty.isString, Payload.whollyKnown,
      Payload.containsMarked] at wx kx mx ⊢

/-- on integers `rawNumberEqual` is exact equality of values, so it agrees with `Cmp` -/
theorem rawEqual_iff_cmp_int {a b : Num} (ha : a.isInt = true) (hb : b.isInt = true) :
    Num.rawEqual a b = true ↔ Num.cmp a b = 0 := by
  rw [isInt_coh ha hb]; simp

theorem primLessB_null_left (e : Ty) (y : Payload) : primLessB e .null y = false := by
  simp only [primLessB]
  cases y <;> simp [rawB, Payload.isNull, Payload.unmark1]

theorem primLessB_irrefl {e : Ty} (he : e.isPrim = true) {x : Payload} (wx : x.shaped e = true) :
    primLessB e x x = false := by
  simp [primLessB, rawB_refl e x (Ty.isPrim_plain he).1 wx]

theorem Payload.intMember_spec {e : Ty} {p : Payload} (h : p.intMember e = true) :
    p.shaped e = true ∧ p.whollyKnown = true ∧ p.containsMarked = false ∧ p.intNums = true := by
  simp only [Payload.intMember, Bool.and_eq_true, Bool.not_eq_true'] at h
  exact ⟨h.1.1.1, h.1.1.2, h.1.2, h.2⟩

theorem intNums_n {a : Num} (h : (Payload.n a).intNums = true) : a.isInt = true := by
  simpa [Payload.intNums, Payload.nums] using h

theorem primLessB_str (a b : String) :
    primLessB .string (.s a) (.s b) = (!(a == b) && bytesLt (strBytes a) (strBytes b)) := by
  cases h : a == b <;> simp [primLessB, rawB, h, Payload.isNull, Payload.isKnown, Payload.unmark1]

theorem primLessB_bool (a b : Bool) : primLessB .bool (.b a) (.b b) = (!(a == b) && (b || !a)) := by
  cases h : a == b <;> simp [primLessB, rawB, h, Payload.isNull, Payload.isKnown, Payload.unmark1]

theorem primLessB_num (a b : Num) :
    primLessB .number (.n a) (.n b) = (!Num.rawEqual a b && decide (Num.cmp a b < 0)) := by
  cases h : Num.rawEqual a b <;> simp [primLessB, rawB, h, Payload.isNull, Payload.isKnown, Payload.unmark1]

/-- a known non-null leaf sorts before null -/
theorem primLessB_leaf_null {e : Ty} {x : Payload}
    (hx : (e = .string ∧ ∃ a, x = .s a) ∨ (e = .bool ∧ ∃ a, x = .b a) ∨ (e = .number ∧ ∃ a, x = .n a)) :
    primLessB e x .null = true := by
  rcases hx with ⟨rfl, a, rfl⟩ | ⟨rfl, a, rfl⟩ | ⟨rfl, a, rfl⟩ <;>
    simp [primLessB, rawB, Payload.isNull, Payload.isKnown, Payload.unmark1]

/-- total between members that are not raw-equal -/
theorem primLessB_total {e : Ty} (he : e.isPrim = true) {x y : Payload}
    (hx : x.intMember e = true) (hy : y.intMember e = true) (hne : rawB e x y = false) :
    primLessB e x y = true ∨ primLessB e y x = true := by
  obtain ⟨wx, kx, mx, ix⟩ := Payload.intMember_spec hx
  obtain ⟨wy, ky, my, iy⟩ := Payload.intMember_spec hy
  rcases prim_member_cases he wx kx mx with rfl | hxc
  · rcases prim_member_cases he wy ky my with rfl | hyc
    · simp [rawB] at hne
    · exact Or.inr (primLessB_leaf_null hyc)
  rcases prim_member_cases he wy ky my with rfl | hyc
  · exact Or.inl (primLessB_leaf_null hxc)
  rcases hxc with ⟨rfl, a, rfl⟩ | ⟨rfl, a, rfl⟩ | ⟨rfl, a, rfl⟩
  · -- strings
    rcases hyc with ⟨_, b, rfl⟩ | ⟨h, _⟩ | ⟨h, _⟩
    · simp only [rawB] at hne
      have hba : (b == a) = false := by rw [Bool.beq_comm]; exact hne
      rw [primLessB_str, primLessB_str, hne, hba]
      have : strBytes a ≠ strBytes b := fun h => by
        have := strBytes_inj h; subst this; simp at hne
      simpa using bytesLt_total _ _ this
    · cases h
    · cases h
  · -- bools
    rcases hyc with ⟨h, _⟩ | ⟨_, b, rfl⟩ | ⟨h, _⟩
    · cases h
    · simp only [rawB] at hne
      rw [primLessB_bool, primLessB_bool]
      cases a <;> cases b <;> simp at hne ⊢
    · cases h
  · -- numbers
    rcases hyc with ⟨h, _⟩ | ⟨h, _⟩ | ⟨_, b, rfl⟩
    · cases h
    · cases h
    · simp only [rawB] at hne
      have ia := intNums_n ix
      have ib := intNums_n iy
      have hne' : Num.rawEqual b a = false := by rw [Num.rawEq_symm]; exact hne
      have hc : Num.cmp a b ≠ 0 := fun h => by
        rw [(rawEqual_iff_cmp_int ia ib).mpr h] at hne; cases hne
      have hs := NumCmp.cmp_swap a b
      rw [primLessB_num, primLessB_num, hne, hne']
      rcases NumCmp.cmp_range a b with h | h | h
      · left; simp [h]
      · exact absurd h hc
      · right; rw [hs, h]; simp

theorem leaf_of_string {y : Payload} (h : (Ty.string = .string ∧ ∃ a, y = .s a) ∨ (Ty.string = .bool ∧ ∃ a, y = .b a) ∨
    (Ty.string = .number ∧ ∃ a, y = .n a)) : ∃ a, y = .s a := by
  rcases h with ⟨_, h⟩ | ⟨h, _⟩ | ⟨h, _⟩
  · exact h
  · cases h
  · cases h

theorem leaf_of_bool {y : Payload} (h : (Ty.bool = .string ∧ ∃ a, y = .s a) ∨ (Ty.bool = .bool ∧ ∃ a, y = .b a) ∨
    (Ty.bool = .number ∧ ∃ a, y = .n a)) : ∃ a, y = .b a := by
  rcases h with ⟨h, _⟩ | ⟨_, h⟩ | ⟨h, _⟩
  · cases h
  · exact h
  · cases h

theorem leaf_of_number {y : Payload} (h : (Ty.number = .string ∧ ∃ a, y = .s a) ∨ (Ty.number = .bool ∧ ∃ a, y = .b a) ∨
    (Ty.number = .number ∧ ∃ a, y = .n a)) : ∃ a, y = .n a := by
  rcases h with ⟨h, _⟩ | ⟨h, _⟩ | ⟨_, h⟩
  · cases h
  · cases h
  · exact h

/-- transitive -/
theorem primLessB_trans {e : Ty} (he : e.isPrim = true) {x y z : Payload}
    (hx : x.intMember e = true) (hy : y.intMember e = true) (hz : z.intMember e = true)
    (h1 : primLessB e x y = true) (h2 : primLessB e y z = true) : primLessB e x z = true := by
  obtain ⟨wx, kx, mx, ix⟩ := Payload.intMember_spec hx
  obtain ⟨wy, ky, my, iy⟩ := Payload.intMember_spec hy
  obtain ⟨wz, kz, mz, iz⟩ := Payload.intMember_spec hz
  rcases prim_member_cases he wy ky my with rfl | hyc
  · rw [primLessB_null_left] at h2; cases h2
  rcases prim_member_cases he wx kx mx with rfl | hxc
  · rw [primLessB_null_left] at h1; cases h1
  rcases prim_member_cases he wz kz mz with rfl | hzc
  · exact primLessB_leaf_null hxc
  rcases hxc with ⟨rfl, a, rfl⟩ | ⟨rfl, a, rfl⟩ | ⟨rfl, a, rfl⟩
  · -- strings
    obtain ⟨b, rfl⟩ := leaf_of_string hyc
    obtain ⟨c, rfl⟩ := leaf_of_string hzc
    rw [primLessB_str] at h1 h2 ⊢
    simp only [Bool.and_eq_true, Bool.not_eq_true'] at h1 h2 ⊢
    have hac := bytesLt_trans _ _ _ h1.2 h2.2
    refine ⟨?_, hac⟩
    cases hq : a == c with
    | false => rfl
    | true =>
      have := eq_of_beq hq; subst this
      rw [bytesLt_irrefl] at hac; cases hac
  · -- bools
    obtain ⟨b, rfl⟩ := leaf_of_bool hyc
    obtain ⟨c, rfl⟩ := leaf_of_bool hzc
    rw [primLessB_bool] at h1 h2 ⊢
    cases a <;> cases b <;> cases c <;> simp at h1 h2 ⊢
  · -- numbers
    obtain ⟨b, rfl⟩ := leaf_of_number hyc
    obtain ⟨c, rfl⟩ := leaf_of_number hzc
    have ia := intNums_n ix
    have ic := intNums_n iz
    rw [primLessB_num] at h1 h2 ⊢
    simp only [Bool.and_eq_true, Bool.not_eq_true', decide_eq_true_eq] at h1 h2 ⊢
    have hac : Num.cmp a c < 0 := NumCmp.cmp_lt_le_trans h1.2 (by omega)
    refine ⟨?_, hac⟩
    cases hq : Num.rawEqual a c with
    | false => rfl
    | true => have := (rawEqual_iff_cmp_int ia ic).mp hq; omega

end CtyModel
