/-
C17 (JSON half) — the set branch: `set.NewSetFromSlice` / `s.Add` as the decoder model runs them
(`setFromSlice`, `setAdd` of `CtyModel/JsonVal.lean`, on the flattened bucket map).

Law-free: on decoder-built members (`Dec`) nothing panics (`Equals` does not, `C17JsonEq`), the
result holds exactly members that were given, one bucket id per member.
With `Laws env` (equivalent members hash alike; `Equivalent` symmetric): bucket ids ascending and no
two `Equivalent` members — the set clauses of C06's `WF`.
-/
import CtyModel.Lemmas.C17JsonVal
namespace CtyModel
namespace C17Json
open Ty JsonVal

section
variable (env : JEnv)

/-- law-free invariant of the flattened bucket map -/
def SetInv (e : Ty) (is : List Int) (ys : List Payload) : Prop := is.length = ys.length ∧ DecAll e ys

/-- law-dependent invariant -/
def SetFine (e : Ty) (is : List Int) (ys : List Payload) : Prop :=
  idsAsc is = true ∧ idsCoherent env e is ys = true ∧ noDup e ys = true

theorem idsCoherent_mem {e : Ty} : ∀ {is : List Int} {ys : List Payload}, idsCoherent env e is ys = true →
    ∀ m ∈ ys, ∃ k ∈ is, ∃ a, env.hkey e m = some (k, a)
  | [], [], _, m, hm => by simp at hm
  | [], _ :: _, h, _, _ => by simp [idsCoherent] at h
  | _ :: _, [], h, _, _ => by simp [idsCoherent] at h
  | i :: is, y :: ys, h, m, hm => by
    simp only [idsCoherent, Bool.and_eq_true] at h
    rcases List.mem_cons.mp hm with rfl | hm
    · cases hk : env.hkey e m with
      | none => simp [hk] at h
      | some p =>
        obtain ⟨k, a⟩ := p
        simp only [hk, beq_iff_eq] at h
        exact ⟨i, by simp, a, by rw [h.1]⟩
    · obtain ⟨k, hk, a, ha⟩ := idsCoherent_mem h.2 m hm
      exact ⟨k, List.mem_cons_of_mem _ hk, a, ha⟩

theorem isTrue_known {r : Value} (h : r.isTrue = true) : r.isKnown = true := by
  obtain ⟨t, p⟩ := r
  cases p <;> simp_all [Value.isTrue, Value.isKnown, Payload.isKnown, Payload.unmark1]

/-- what `Add` tests is `Equivalent` -/
theorem equals_equivP {e : Ty} {x y : Payload} (hx : Dec e x) (hy : Dec e y) {r : Value}
    (h : Value.equals ⟨e, x⟩ ⟨e, y⟩ = .ok r) : equivP e x y = (r.isKnown && r.isTrue) := by
  simp only [Value.equals, Value.containsMarked, hx.clean, hy.clean, Bool.or_self, Bool.false_eq_true, if_false] at h
  simp only [equivP, h]
  cases ht : r.isTrue
  · simp
  · simp [isTrue_known ht]

/-- one `Add` -/
theorem setAdd_sat {e : Ty} {x : Payload} (hx : Dec e x) {h : Int} {a : String} (hh : env.hkey e x = some (h, a)) :
    ∀ (is : List Int) (ys : List Payload), SetInv e is ys →
      Sat (fun q : List Int × List Payload => SetInv e q.1 q.2 ∧ (∀ k ∈ q.1, k = h ∨ k ∈ is) ∧
        (∀ m ∈ q.2, m = x ∨ m ∈ ys) ∧ (Laws env → SetFine env e is ys → SetFine env e q.1 q.2))
        (setAdd e x h is ys)
  | [], [], _ => by
    simp only [setAdd]
    refine Sat.ok ⟨⟨rfl, fun m hm => by simp at hm; subst hm; exact hx⟩, by simp, by simp, fun _ _ => ?_⟩
    simp [SetFine, idsAsc, idsCoherent, noDup, hh]
  | [], _ :: _, hi => by simp [SetInv] at hi
  | _ :: _, [], hi => by simp [SetInv] at hi
  | i :: is, y :: ys, hi => by
    obtain ⟨hl, hd⟩ := hi
    have hy : Dec e y := hd y (by simp)
    have hd' : DecAll e ys := fun m hm => hd m (List.mem_cons_of_mem _ hm)
    have hi' : SetInv e is ys := ⟨by simpa using hl, hd'⟩
    have ih := setAdd_sat hx hh is ys hi'
    -- the recursive case, shared by "same bucket, not equivalent" and "later bucket"
    have recur : (Laws env → SetFine env e (i :: is) (y :: ys) → equivP e y x = false ∧ i ≤ h) →
        Sat (fun q : List Int × List Payload => SetInv e q.1 q.2 ∧ (∀ k ∈ q.1, k = h ∨ k ∈ i :: is) ∧
          (∀ m ∈ q.2, m = x ∨ m ∈ y :: ys) ∧ (Laws env → SetFine env e (i :: is) (y :: ys) → SetFine env e q.1 q.2))
          ((setAdd e x h is ys).map fun q => (i :: q.1, y :: q.2)) := by
      intro hkey
      refine ih.map (fun q hq => ?_)
      obtain ⟨⟨ql, qd⟩, qk, qm, qf⟩ := hq
      refine ⟨⟨by simp [ql], ?_⟩, ?_, ?_, fun hlaw hfine => ?_⟩
      · intro m hm
        rcases List.mem_cons.mp hm with rfl | hm
        · exact hy
        · exact qd m hm
      · intro k hk
        rcases List.mem_cons.mp hk with rfl | hk
        · exact Or.inr (by simp)
        · rcases qk k hk with r | r
          · exact Or.inl r
          · exact Or.inr (List.mem_cons_of_mem _ r)
      · intro m hm
        rcases List.mem_cons.mp hm with rfl | hm
        · exact Or.inr (by simp)
        · rcases qm m hm with r | r
          · exact Or.inl r
          · exact Or.inr (List.mem_cons_of_mem _ r)
      · obtain ⟨hyx, hih⟩ := hkey hlaw hfine
        obtain ⟨f1, f2, f3⟩ := hfine
        rw [idsAsc_iff] at f1
        rw [noDup_iff] at f3
        simp only [idsCoherent, Bool.and_eq_true] at f2
        obtain ⟨g1, g2, g3⟩ := qf hlaw ⟨(idsAsc_iff _).mpr (List.pairwise_cons.mp f1).2, f2.2,
          (noDup_iff e _).mpr (List.pairwise_cons.mp f3).2⟩
        refine ⟨?_, ?_, ?_⟩
        · rw [idsAsc_iff] at g1 ⊢
          refine List.pairwise_cons.mpr ⟨?_, g1⟩
          intro k hk
          rcases qk k hk with rfl | hk
          · exact hih
          · exact (List.pairwise_cons.mp f1).1 k hk
        · simp only [idsCoherent, Bool.and_eq_true]
          exact ⟨f2.1, g2⟩
        · rw [noDup_iff] at g3 ⊢
          refine List.pairwise_cons.mpr ⟨?_, g3⟩
          intro m hm
          rcases qm m hm with rfl | hm
          · exact hyx
          · exact (List.pairwise_cons.mp f3).1 m hm
    -- the hash of the head member, under the law-dependent invariant
    have headKey : SetFine env e (i :: is) (y :: ys) → ∃ b, env.hkey e y = some (i, b) := by
      intro hf
      have := hf.2.1
      simp only [idsCoherent, Bool.and_eq_true] at this
      cases hk : env.hkey e y with
      | none => simp [hk] at this
      | some p =>
        obtain ⟨k, b⟩ := p
        simp only [hk, beq_iff_eq] at this
        exact ⟨b, by rw [this.1]⟩
    simp only [setAdd]
    split
    · -- h < i: a new bucket in front
      rename_i hlt
      refine Sat.ok ⟨⟨by simp [hl], ?_⟩, ?_, ?_, fun hlaw hfine => ?_⟩
      · intro m hm
        rcases List.mem_cons.mp hm with rfl | hm
        · exact hx
        · exact hd m hm
      · intro k hk
        rcases List.mem_cons.mp hk with rfl | hk
        · exact Or.inl rfl
        · exact Or.inr hk
      · intro m hm
        rcases List.mem_cons.mp hm with rfl | hm
        · exact Or.inl rfl
        · exact Or.inr hm
      · obtain ⟨f1, f2, f3⟩ := hfine
        refine ⟨?_, ?_, ?_⟩
        · rw [idsAsc_iff] at f1 ⊢
          refine List.pairwise_cons.mpr ⟨?_, f1⟩
          intro k hk
          rcases List.mem_cons.mp hk with rfl | hk
          · exact Int.le_of_lt hlt
          · exact Int.le_trans (Int.le_of_lt hlt) ((List.pairwise_cons.mp f1).1 k hk)
        · simp only [idsCoherent, Bool.and_eq_true]
          refine ⟨by simp [hh], ?_⟩
          simpa only [idsCoherent, Bool.and_eq_true] using f2
        · rw [noDup_iff] at f3 ⊢
          refine List.pairwise_cons.mpr ⟨?_, f3⟩
          intro m hm
          obtain ⟨k, hk, b, hb⟩ := idsCoherent_mem env f2 m hm
          cases heq : equivP e x m with
          | false => rfl
          | true =>
            exfalso
            have := hlaw.hash_coherent e x m h k a b hx (hd m hm) hh hb heq
            rw [idsAsc_iff] at f1
            have hik : i ≤ k := by
              rcases List.mem_cons.mp hk with rfl | hk
              · exact Int.le_refl _
              · exact (List.pairwise_cons.mp f1).1 k hk
            omega
    · rename_i hnlt
      split
      · -- same bucket: compare
        rename_i hei
        have hnp := equals_np hx hy
        cases heq : Value.equals ⟨e, x⟩ ⟨e, y⟩ with
        | ok r =>
          simp only []
          have hequiv := equals_equivP hx hy heq
          split
          · -- already a member
            refine Sat.ok ⟨⟨hl, hd⟩, fun k hk => Or.inr hk, fun m hm => Or.inr hm, fun _ hf => hf⟩
          · rename_i hne
            refine recur (fun hlaw hfine => ⟨?_, by omega⟩)
            obtain ⟨b, hb⟩ := headKey hfine
            cases hyx : equivP e y x with
            | false => rfl
            | true =>
              have := hlaw.equiv_symm e y x i h b a hy hx hb hh hyx
              rw [hequiv] at this
              exact absurd this hne
        | err c => exact Sat.err
        | panic w => exact absurd heq (hnp w)
        | unmodelled => exact Sat.unm
      · -- a later bucket
        rename_i hni
        refine recur (fun hlaw hfine => ⟨?_, by omega⟩)
        obtain ⟨b, hb⟩ := headKey hfine
        cases hyx : equivP e y x with
        | false => rfl
        | true => exact absurd (hlaw.hash_coherent e y x i h b a hy hx hb hh hyx).symm hni

/-- `NewSetFromSlice` -/
theorem setFromSlice_sat {e : Ty} : ∀ (ps : List Payload) (is : List Int) (ys : List Payload),
    DecAll e ps → SetInv e is ys →
      Sat (fun q : List Int × List Payload => SetInv e q.1 q.2 ∧ (∀ m ∈ q.2, m ∈ ps ∨ m ∈ ys) ∧
        (Laws env → SetFine env e is ys → SetFine env e q.1 q.2))
        (setFromSlice env e ps is ys)
  | [], is, ys, _, hi => by
    simp only [setFromSlice]
    exact Sat.ok ⟨hi, fun m hm => Or.inr hm, fun _ hf => hf⟩
  | x :: xs, is, ys, hp, hi => by
    simp only [setFromSlice]
    have hx : Dec e x := hp x (by simp)
    have hxs : DecAll e xs := fun m hm => hp m (List.mem_cons_of_mem _ hm)
    cases hk : env.hkey e x with
    | none => exact Sat.unm
    | some p =>
      obtain ⟨h, a⟩ := p
      simp only []
      have h1 := setAdd_sat env hx hk is ys hi
      cases ha : setAdd e x h is ys with
      | ok q =>
        rw [ha] at h1
        obtain ⟨qi, _, qm, qf⟩ := h1
        simp only []
        refine (setFromSlice_sat xs q.1 q.2 hxs qi).mono (fun r hr => ?_)
        obtain ⟨ri, rm, rf⟩ := hr
        refine ⟨ri, ?_, fun hlaw hf => rf hlaw (qf hlaw hf)⟩
        intro m hm
        rcases rm m hm with r | r
        · exact Or.inl (List.mem_cons_of_mem _ r)
        · rcases qm m r with rfl | r
          · exact Or.inl (by simp)
          · exact Or.inr r
      | err c => exact Sat.err
      | panic w => rw [ha] at h1; exact absurd h1 id
      | unmodelled => exact Sat.unm

/-- the end of `unmarshalSet` -/
theorem setVal_sat {e : Ty} {vals : List Value} (hw : Ty.wf e = true) (hv : ∀ v ∈ vals, P env e v) :
    Sat (P env (.set e)) (setVal env e vals) := by
  unfold setVal
  split
  · refine Sat.ok ⟨⟨by simpa [Ty.wf] using hw, by simp [Ty.matches, matches_refl],
      ⟨by simp [Payload.shaped, Payload.shapedAll], rfl, rfl⟩⟩, fun _ hn => ?_⟩
    exact ⟨by simpa [Ty.namesAll] using hn, by simp [Payload.wfP, Payload.wfAll, idsAsc, noDup, Payload.containsMarkedL]⟩
  · rename_i hne
    split
    · exact Sat.err
    · rename_i hc
      obtain ⟨e', he, _, h2, h3⟩ := unify_ok vals .dyn (by simpa using hc) rfl (fun v hv' => (hv v hv').1.wfTy)
      obtain ⟨v0, hv0, hv0e⟩ := unify_some (by simpa using hne) h2 h3
      rw [he]
      simp only
      have hps : DecAll e' (vals.map (·.v)) := by
        intro x hx
        obtain ⟨v, hvm, rfl⟩ := List.mem_map.mp hx
        exact dec_retype (hv v hvm).1.dec (h2 v hvm)
      refine (setFromSlice_sat env (vals.map (·.v)) [] [] hps ⟨rfl, fun m hm => by simp at hm⟩).map (fun q hq => ?_)
      obtain ⟨⟨ql, qd⟩, qm, qf⟩ := hq
      have hmem : ∀ x ∈ q.2, ∃ v ∈ vals, v.v = x := by
        intro x hx
        rcases qm x hx with r | r
        · obtain ⟨v, hvm, rfl⟩ := List.mem_map.mp r
          exact ⟨v, hvm, rfl⟩
        · simp at r
      refine ⟨⟨?_, ?_, ⟨?_, ?_, ?_⟩⟩, fun hlaw hn => ⟨?_, ?_⟩⟩
      · simpa [Ty.wf, ← hv0e] using (hv v0 hv0).1.wfTy
      · simpa [Ty.matches, ← hv0e] using (hv v0 hv0).1.conf
      · simp only [Payload.shaped, Bool.and_eq_true, beq_iff_eq]
        exact ⟨ql, shapedAll_of_mem (fun x hx => (qd x hx).shaped)⟩
      · simp only [Payload.whollyKnown]
        exact whollyKnownL_of_mem (fun x hx => (qd x hx).known)
      · simp only [Payload.containsMarked]
        exact containsMarkedL_of_mem (fun x hx => (qd x hx).clean)
      · have := ((hv v0 hv0).2 hlaw (by simpa [Ty.namesAll] using hn)).names
        simpa [Ty.namesAll, ← hv0e] using this
      · obtain ⟨g1, _, g3⟩ := qf hlaw ⟨by simp [idsAsc], by simp [idsCoherent], by simp [noDup]⟩
        simp only [Payload.wfP, Bool.and_eq_true, beq_iff_eq, Bool.not_eq_true']
        refine ⟨⟨⟨⟨ql, g1⟩, containsMarkedL_of_mem (fun x hx => (qd x hx).clean)⟩, g3⟩, wfAll_of_mem ?_⟩
        intro x hx
        obtain ⟨v, hvm, rfl⟩ := hmem x hx
        exact wfP_retype (hv v hvm).1.dec ((hv v hvm).2 hlaw (by simpa [Ty.namesAll] using hn)).wfp (h2 v hvm)

end

end C17Json
end CtyModel
