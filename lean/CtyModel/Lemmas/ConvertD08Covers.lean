/-
Unknown / null soundness of conversion stated with `Covers` (DESIGN §3.6; audit C08 item 5),
for primitive targets, marked inputs included: the result for an unknown input admits the
result for every value the unknown admits.  Also: how a marked input is handled, for every
plan (`apply_marked`), which lifts `null_sound_partial` / `unknown_sound_partial` to marked inputs.
-/
import CtyModel.Lemmas.ConvertD08WT
import CtyModel.Lemmas.ConvertUnknown
import CtyModel.Lemmas.CoversBasic
set_option linter.unusedSimpArgs false
namespace CtyModel
namespace Convert
open Ty

/-- a marked input: the conversion is applied to the unmarked value and the marks are put back -/
theorem apply_marked (E : Env) (fuel : Nat) (out : Ty) (conv : Plan) (v : Value) (hm : v.isMarked = true) :
    apply E (fuel + 1) (.wrap out conv) v =
      (match apply E fuel (.wrap out conv) v.unmark with
       | .ok r => .ok (r.withMarks v.marks)
       | other => other) := by
  simp only [apply, applyStep, hm, if_true]
  cases apply E fuel (.wrap out conv) v.unmark <;> rfl

/-- the refinement "not null" of an unknown of a primitive type -/
def primNN : Ty → Rfn
  | .string => .str .f ""
  | .number => .num .f none none
  | _ => .nullable .f

theorem refine_notNull_prim (t : Ty) (h : isPrim t = true) :
    Refine.refine (Value.unknown t) [.notNull] = .ok ⟨t, .unk (primNN t)⟩ := by
  cases t <;> simp [isPrim] at h <;> rfl

theorem prepare_prim (src : Refine.ValueRange) (t : Ty) (h : isPrim t = true) :
    prepareUnknownResult src t = .ok ⟨t, .unk (if src.definitelyNotNull then primNN t else .unref)⟩ := by
  unfold prepareUnknownResult
  simp only []
  cases hd : src.definitelyNotNull
  · simp only [Bool.false_eq_true, if_false, Res.bind]
    cases t <;> simp [isPrim] at h <;> cases src.ty <;> simp [Refine.isCollectionTy, Value.unknown]
  · simp only [if_true, refine_notNull_prim t h, Res.bind]
    cases t <;> simp [isPrim] at h <;> cases src.ty <;> simp [Refine.isCollectionTy]

/-! ### what the refinements admit -/

theorem admits_unref (c : Payload) (hc : c.isMarked = false) : Cov.admits .unref c = true := by
  cases c with
  | marked ms r => simp [Payload.isMarked] at hc
  | unk rc =>
    have h1 : Rfn.unref.nullness = .u := rfl
    have h2 : Cov.rfnInside .unref rc = true := rfl
    simp only [Cov.admits, h1, h2]
    generalize rc.nullness = n
    cases n <;> decide
  | _ => simp [Cov.admits, Rfn.nullness, Cov.rfnAdmitsKnown] <;> decide

theorem hasPrefix_empty (s : String) : Value.hasPrefix s "" = true := by
  simp [Value.hasPrefix]

theorem admits_primNN_known (t : Ty) (c : Payload)
    (hc : (t = .string ∧ ∃ s, c = .s s) ∨ (t = .number ∧ ∃ x, c = .n x) ∨ (t = .bool ∧ ∃ b, c = .b b)) :
    Cov.admits (primNN t) c = true := by
  rcases hc with ⟨rfl, s, rfl⟩ | ⟨rfl, x, rfl⟩ | ⟨rfl, b, rfl⟩
  · simp [Cov.admits, primNN, Rfn.nullness, Cov.rfnAdmitsKnown, hasPrefix_empty]; decide
  · have h1 : Num.cmp (.inf true) x ≤ 0 := by
      have := NumCmp.cmp_negInf x
      rw [NumCmp.cmp_swap x (.inf true)]
      omega
    have h2 : Num.cmp x (.inf false) ≤ 0 := NumCmp.cmp_posInf x
    simp [Cov.admits, primNN, Rfn.nullness, Cov.rfnAdmitsKnown, Cov.loInside, Cov.hiInside, Cov.pt,
      Cov.negInfB, Cov.posInfB, h1, h2]
    decide
  · simp [Cov.admits, primNN, Rfn.nullness, Cov.rfnAdmitsKnown]
    decide

theorem admits_primNN_self (t : Ty) (h : isPrim t = true) : Cov.admits (primNN t) (.unk (primNN t)) = true := by
  cases t <;> simp [isPrim] at h
  · decide
  · decide
  · simp [Cov.admits, primNN, Rfn.nullness, Cov.rfnInside, hasPrefix_empty]; decide

/-! ### the conversions between primitive types, on each kind of value -/

theorem prim_wf {t : Ty} (h : isPrim t = true) : t.wf = true ∧ t.hasOpt = false ∧ t.hasDyn = false ∧
    t.stripOpt = t ∧ t.isDyn = false := by
  cases t <;> simp [isPrim] at h <;> simp [wf, hasOpt, hasDyn, stripOpt, Ty.isDyn]

/-- an unmarked unknown of a primitive type converts to the unknown of the target type that is
"not null" exactly when the input is -/
theorem prim_unknown_result {E : Env} (hU : UnifyLaws E) {fuel : Nat} {uns : Bool} {t want : Ty} {p : Plan}
    {rf : Rfn} (ht : isPrim t = true) (hw : isPrim want = true) (hg : getConv E t want uns = some p) :
    apply E (fuel + 1) p ⟨t, .unk rf⟩ =
      .ok ⟨want, .unk (if rf.nullness = .f then primNN want else .unref)⟩ := by
  obtain ⟨h1, h2, _, _, _⟩ := prim_wf ht
  obtain ⟨h4, _, h6, h7, _⟩ := prim_wf hw
  have hp : RegularPair ⟨t, .unk rf⟩ want := ⟨by simp [Value.wt, h1, h2, wtP], h4, h6⟩
  rw [apply_unknown_exact hU fuel hp hg rfl rfl, h7]
  simp only [Refine.range, Res.bind, prepare_prim _ want hw, Refine.ValueRange.definitelyNotNull]
  by_cases hr : rf = .unref
  · subst hr; simp [Rfn.nullness]
  · simp [hr]

theorem prim_null_result {E : Env} (hU : UnifyLaws E) {fuel : Nat} {uns : Bool} {t want : Ty} {p : Plan}
    (ht : isPrim t = true) (hw : isPrim want = true) (hg : getConv E t want uns = some p) :
    apply E (fuel + 1) p ⟨t, .null⟩ = .ok (Value.null want) := by
  obtain ⟨h1, h2, _, _, _⟩ := prim_wf ht
  obtain ⟨h4, _, h6, h7, _⟩ := prim_wf hw
  have hp : RegularPair ⟨t, .null⟩ want := ⟨by simp [Value.wt, h1, h2, wtP], h4, h6⟩
  rw [apply_null_exact hU fuel hp hg rfl rfl rfl, h7]

/-- a known non-null value of a primitive type converts to a known non-null payload of the target type -/
theorem prim_known_result {E : Env} {fuel : Nat} {uns : Bool} {t want : Ty} {p : Plan} {q : Payload} {r' : Value}
    (ht : isPrim t = true) (hw : isPrim want = true) (hg : getConv E t want uns = some p)
    (hq : (∃ s, q = .s s) ∨ (∃ x, q = .n x) ∨ (∃ b, q = .b b))
    (h : apply E fuel p ⟨t, q⟩ = .ok r') :
    (want = .string ∧ ∃ s, r'.v = .s s) ∨ (want = .number ∧ ∃ x, r'.v = .n x) ∨ (want = .bool ∧ ∃ b, r'.v = .b b) := by
  obtain ⟨c, hc, rfl⟩ := Option.map_eq_some_iff.mp hg
  have hnd := (prim_wf hw).2.2.2.2
  have hplain : (⟨t, q⟩ : Value).isMarked = false ∧ (⟨t, q⟩ : Value).isKnown = true ∧ (⟨t, q⟩ : Value).isNull = false := by
    rcases hq with ⟨s, rfl⟩ | ⟨x, rfl⟩ | ⟨b, rfl⟩ <;> exact ⟨rfl, rfl, rfl⟩
  cases fuel with
  | zero => simp [apply] at h
  | succ n =>
    simp only [apply, applyStep, hplain.1, hplain.2.1, hplain.2.2, hnd, Bool.false_eq_true, if_false, Bool.not_true,
      Bool.or_self] at h
    cases n with
    | zero => simp [apply] at h
    | succ m =>
      simp only [apply] at h
      cases t <;> simp [isPrim] at ht <;> cases want <;> simp [isPrim] at hw <;>
        simp [gck, isPrim, primSafe, primUnsafe, Ty.isDyn] at hc
      all_goals (try (obtain ⟨_, rfl⟩ := hc))
      all_goals (try subst hc)
      all_goals
        simp only [applyStep] at h
        (repeat' split at h) <;> (try simp at h)
      all_goals first
        | (subst h; simp)
        | (obtain ⟨x, _, rfl⟩ := Res.map_eq_ok h; simp)

theorem stripMarks_prim {t : Ty} {q : Payload} (ht : isPrim t = true) (hw : wtP t q = true) (hm : q.isMarked = false) :
    q.stripMarks = q ∧ (q = .null ∨ (∃ rc, q = .unk rc) ∨ (∃ s, q = .s s) ∨ (∃ x, q = .n x) ∨ (∃ b, q = .b b)) := by
  cases t <;> simp [isPrim] at ht <;> cases q <;> simp [wtP, Payload.isMarked] at hw hm <;>
    simp [Payload.stripMarks]

/-- **Unknown soundness with `Covers`, primitive targets, unmarked values**: the result for the unknown
admits the result for every value the unknown admits — a null, a (more refined) unknown, or a known value. -/
theorem covers_prim_core {E : Env} (hU : UnifyLaws E) {fuel fuel' : Nat} {uns : Bool} {t want : Ty} {p : Plan}
    {rf : Rfn} {q : Payload} {r r' : Value} (ht : isPrim t = true) (hw : isPrim want = true)
    (hg : getConv E t want uns = some p) (hq : wtP t q = true) (hm : q.isMarked = false)
    (hc : Cov.admits rf q = true)
    (h : apply E (fuel + 1) p ⟨t, .unk rf⟩ = .ok r) (h' : apply E (fuel' + 1) p ⟨t, q⟩ = .ok r') :
    Covers r r' = true := by
  rw [prim_unknown_result hU ht hw hg] at h
  simp only [Res.ok.injEq] at h
  subst h
  obtain ⟨_, hcases⟩ := stripMarks_prim ht hq hm
  -- the type part
  have hty : r'.ty = want := by
    rcases hcases with rfl | ⟨rc, rfl⟩ | hk
    · rw [prim_null_result hU ht hw hg] at h'; simp at h'; subst h'; rfl
    · rw [prim_unknown_result hU ht hw hg] at h'; simp at h'; subst h'; rfl
    · have hk' : (∃ s, q = .s s) ∨ (∃ x, q = .n x) ∨ (∃ b, q = .b b) := hk
      obtain ⟨c, hc', rfl⟩ := Option.map_eq_some_iff.mp hg
      have hp : RegularPair ⟨t, q⟩ want :=
        ⟨by simp [Value.wt, (prim_wf ht).1, (prim_wf ht).2.1, hq], (prim_wf hw).1, (prim_wf hw).2.2.1⟩
      have := apply_ty hU hp hg h'
      rw [(prim_wf hw).2.2.2.1] at this
      exact this
  simp only [Covers, CoversG, hty, Ty.matches_refl, Bool.true_and, Payload.stripMarks, Cov.coversP]
  by_cases hnn : rf.nullness = .f
  · simp only [hnn, if_true]
    rcases hcases with rfl | ⟨rc, rfl⟩ | hk
    · -- a null is not admitted by a "not null" unknown
      simp only [Cov.admits, hnn] at hc
      exact absurd hc (by decide)
    · rw [prim_unknown_result hU ht hw hg] at h'
      simp only [Res.ok.injEq] at h'
      subst h'
      have hrc : rc.nullness = .f := by
        simp only [Cov.admits, hnn] at hc
        generalize Cov.rfnInside rf rc = X at hc
        generalize rc.nullness = n at hc ⊢
        cases n <;> cases X <;> first | rfl | exact absurd hc (by decide)
      simp only [hrc, if_true, Payload.stripMarks]
      exact admits_primNN_self want hw
    · have hres := prim_known_result ht hw hg hk h'
      have hsm : r'.v.stripMarks = r'.v := by
        rcases hres with ⟨_, s, hs⟩ | ⟨_, x, hx⟩ | ⟨_, b, hb⟩ <;> simp [*, Payload.stripMarks]
      rw [hsm]
      exact admits_primNN_known want r'.v hres
  · simp only [hnn, if_false]
    apply admits_unref
    have := stripMarks_noMarks r'.v
    cases hs : r'.v.stripMarks <;> simp [hs, Payload.containsMarked, Payload.isMarked] at this ⊢

/-- peel the mark layer off the input of a wrapped conversion: the same conversion on the unmarked
value, with a result that `Covers` cannot tell apart -/
theorem apply_peel {E : Env} {fuel : Nat} {out : Ty} {conv : Plan} {v r : Value}
    (hw : wtP v.ty v.v = true) (h : apply E fuel (.wrap out conv) v = .ok r) :
    ∃ fuel0 r0, apply E (fuel0 + 1) (.wrap out conv) v.unmark = .ok r0 ∧ v.unmark.isMarked = false ∧
      (∀ x, Covers r x = Covers r0 x) ∧ (∀ x, Covers x r = Covers x r0) := by
  cases hm : v.isMarked with
  | false =>
    cases fuel with
    | zero => simp [apply] at h
    | succ n =>
      have hu : v.unmark = v := by
        obtain ⟨t, q⟩ := v
        cases q <;> simp_all [Value.unmark, Value.isMarked, Payload.isMarked, Payload.unmark1]
      exact ⟨n, r, by rw [hu]; exact h, by rw [hu]; exact hm, fun _ => rfl, fun _ => rfl⟩
  | true =>
    cases fuel with
    | zero => simp [apply] at h
    | succ n =>
      rw [apply_marked E n out conv v hm] at h
      cases hr : apply E n (.wrap out conv) v.unmark with
      | ok r0 =>
        rw [hr] at h
        simp only [Res.ok.injEq] at h
        subst h
        cases n with
        | zero => simp [apply] at hr
        | succ m =>
          refine ⟨m, r0, hr, (wtP_unmark1 hw).2, fun x => covers_withMarks_left _ _ _, fun x => covers_withMarks_right _ _ _⟩
      | err e => rw [hr] at h; simp at h
      | panic w => rw [hr] at h; simp at h
      | unmodelled => rw [hr] at h; simp at h

theorem unmark_unknown {v : Value} (hk : v.isKnown = false) : ∃ rf, v.unmark = ⟨v.ty, .unk rf⟩ := by
  obtain ⟨t, q⟩ := v
  simp only [Value.isKnown, Payload.isKnown] at hk
  simp only [Value.unmark]
  cases hq : q.unmark1 <;> simp [hq] at hk
  exact ⟨_, rfl⟩

/-- **Unknown / null soundness with `Covers`, primitive source and target, marked values included.**
`v` unknown (any refinement, marked or not), `v'` any well-typed value of the same type that `v`
admits (`Covers v v'`: a null, a more refined unknown, or a known value; marked or not): the
result of converting `v` admits the result of converting `v'`. -/
theorem unknown_covers_prim {E : Env} (hU : UnifyLaws E) {fuel fuel' : Nat} {uns : Bool} {v v' r r' : Value}
    {want : Ty} {p : Plan} (hpv : isPrim v.ty = true) (hw : isPrim want = true)
    (hwt : wtP v.ty v.v = true) (hwt' : wtP v'.ty v'.v = true) (hty : v'.ty = v.ty)
    (hg : getConv E v.ty want uns = some p) (hk : v.isKnown = false) (hc : Covers v v' = true)
    (h : apply E fuel p v = .ok r) (h' : apply E fuel' p v' = .ok r') : Covers r r' = true := by
  obtain ⟨c, hgc, rfl⟩ := Option.map_eq_some_iff.mp hg
  obtain ⟨f0, r0, h0, hm0, hl, _⟩ := apply_peel hwt h
  obtain ⟨f0', r0', h0', hm0', _, hr⟩ := apply_peel hwt' h'
  rw [hl, hr]
  -- the unmarked unknown
  have hunk := unmark_unknown hk
  obtain ⟨rf, hrf⟩ := hunk
  have hq' : v'.unmark = ⟨v.ty, v'.unmark.v⟩ := by rw [← hty]; rfl
  have hwq : wtP v.ty v'.unmark.v = true := by rw [← hty]; exact (wtP_unmark1 hwt').1
  have hadm : Cov.admits rf v'.unmark.v = true := by
    have hc' := hc
    rw [← covers_unmark_left, ← covers_unmark_right, hrf] at hc'
    simp only [Covers, CoversG, Bool.and_eq_true] at hc'
    have hs := (stripMarks_prim hpv hwq hm0').1
    have : (Value.unmark v').v.stripMarks = v'.unmark.v := hs
    simpa [Payload.stripMarks, Cov.coversP, this] using hc'.2
  rw [hrf] at h0
  rw [hq'] at h0'
  exact covers_prim_core hU hpv hw hg hwq hm0' hadm h0 h0'

/-! ### every placeholder-free target: an unknown that may be null admits the null, and so do the results -/

theorem unmark1_withMarks (p : Payload) (ms : List String) : (p.withMarks ms).unmark1 = p.unmark1 := by
  unfold Payload.withMarks
  simp only
  split
  · rfl
  · rfl

theorem unmark1_withMarks_val (v : Value) (ms : List String) : (v.withMarks ms).v.unmark1 = v.v.unmark1 :=
  unmark1_withMarks _ _

open Refine in
/-- without a `NotNull` call, refining an unrefined unknown gives an unknown that may be null (or a null) -/
theorem refine_maybe_null {t : Ty} {cs : List RefineCall} {r : Value}
    (hcs : ∀ c ∈ cs, lenCall c = true ∧ c ≠ .notNull)
    (h : Refine.refine ⟨t, .unk .unref⟩ cs = .ok r) :
    (∃ rf, r.v.unmark1 = .unk rf ∧ rf.nullness ≠ .f) ∨ r.v.unmark1 = .null := by
  unfold Refine.refine at h
  obtain ⟨b, hb, h⟩ := Res.bind_eq_ok h
  obtain ⟨b', hb', h⟩ := Res.bind_eq_ok h
  obtain ⟨horig, _, _, hnull⟩ := init_unknown hb
  have hrun := run_nullness hcs hb'
  have horig' : b'.orig = ⟨t, .unk .unref⟩ := by rw [run_orig hb', horig]
  have hn : b'.wip.nullness ≠ .f := by rw [hrun]; exact hnull rfl
  unfold newValue at h
  split at h
  · simp at h; subst h
    refine .inl ⟨.unref, ?_, by simp [Rfn.nullness]⟩
    rw [unmark1_withMarks_val, horig']; rfl
  · simp only at h
    split at h
    · simp at h
    · split at h
      · simp at h; subst h
        exact .inr (by rw [unmark1_withMarks_val]; rfl)
      · simp at h; subst h
        exact .inl ⟨b'.wip, by rw [unmark1_withMarks_val]; rfl, hn⟩
      · rename_i hf
        exact absurd hf hn

theorem prepare_maybe_null {src : Refine.ValueRange} {t : Ty} {r : Value}
    (hd : src.definitelyNotNull = false) (h : prepareUnknownResult src t = .ok r) :
    (∃ rf, r.v.unmark1 = .unk rf ∧ rf.nullness ≠ .f) ∨ r.v.unmark1 = .null := by
  unfold prepareUnknownResult at h
  simp only [hd] at h
  simp only [Res.bind, Bool.false_eq_true, if_false] at h
  have key : ∀ cs : List Refine.RefineCall, (∀ c ∈ cs, lenCall c = true ∧ c ≠ .notNull) →
      Refine.refine (Value.unknown t) cs = .ok r →
      (∃ rf, r.v.unmark1 = .unk rf ∧ rf.nullness ≠ .f) ∨ r.v.unmark1 = .null :=
    fun cs hcs h' => refine_maybe_null hcs h'
  split at h
  · exact key _ (by simp [lenCall]) h
  · exact key _ (by simp [lenCall]) h
  · split at h
    · exact key _ (by simp [lenCall]) h
    · exact key _ (by simp [lenCall]) h
  · split at h
    · cases hlo : src.lengthLowerBound <;> simp only [hlo] at h <;> try (simp at h; done)
      cases hhi : src.lengthUpperBound <;> simp only [hhi] at h <;> try (simp at h; done)
      refine key _ ?_ h
      intro c hc
      rcases List.mem_append.mp hc with hc | hc
      · split at hc
        · split at hc
          · simp at hc; subst hc; simp [lenCall]
          · simp at hc
        · simp at hc; subst hc; simp [lenCall]
      · simp at hc; subst hc; simp [lenCall]
    · simp [Value.unknown] at h
      subst h
      exact .inl ⟨.unref, rfl, by simp [Rfn.nullness]⟩

theorem stripMarks_of_unmark1_leaf {p q : Payload} (h : p.unmark1 = q)
    (hq : (∃ rf, q = .unk rf) ∨ q = .null) : p.stripMarks = q := by
  rw [← Payload.stripMarks_unmark1, h]
  rcases hq with ⟨rf, rfl⟩ | rfl <;> rfl

/-- **an unknown that may be null, converted to any placeholder-free target, admits the converted null**
(unmarked core; `unknown_covers_null` peels the marks) -/
theorem covers_null_core {E : Env} (hU : UnifyLaws E) {fuel fuel' : Nat} {uns : Bool} {t want : Ty} {p : Plan}
    {rf : Rfn} {r r' : Value} (hp : RegularPair ⟨t, .unk rf⟩ want) (hg : getConv E t want uns = some p)
    (hc : Cov.admits rf .null = true)
    (h : apply E (fuel + 1) p ⟨t, .unk rf⟩ = .ok r) (h' : apply E (fuel' + 1) p ⟨t, .null⟩ = .ok r') :
    Covers r r' = true := by
  have hp' : RegularPair ⟨t, .null⟩ want := ⟨by
    have := hp.wt
    simp only [Value.wt, Bool.and_eq_true] at this ⊢
    exact ⟨this.1, by simp [wtP]⟩, hp.wfT, hp.noDyn⟩
  rw [apply_null_exact hU fuel' hp' hg rfl rfl rfl] at h'
  simp only [Res.ok.injEq] at h'
  subst h'
  have hty := apply_ty hU hp hg h
  rw [apply_unknown_exact hU fuel hp hg rfl rfl] at h
  obtain ⟨rng, hrng, h⟩ := Res.bind_eq_ok h
  have hnn : rng.definitelyNotNull = false := by
    simp only [Refine.range] at hrng
    simp only [Res.ok.injEq] at hrng
    subst hrng
    simp only [Cov.admits] at hc
    simp only [Refine.ValueRange.definitelyNotNull]
    by_cases hr : rf = .unref
    · subst hr; simp [Rfn.nullness]
    · simp only [hr, if_false]
      generalize rf.nullness = n at hc ⊢
      cases n <;> first | rfl | exact absurd hc (by decide)
  have hm := prepare_maybe_null hnn h
  simp only [Covers, CoversG, hty, Value.null, Ty.matches_refl, Bool.true_and, Payload.stripMarks]
  rcases hm with ⟨R, hR, hRn⟩ | hnull
  · rw [stripMarks_of_unmark1_leaf hR (.inl ⟨R, rfl⟩)]
    simp only [Cov.coversP, Cov.admits]
    generalize R.nullness = n at hRn ⊢
    cases n <;> first | rfl | exact absurd rfl hRn
  · rw [stripMarks_of_unmark1_leaf hnull (.inr rfl)]
    rfl

/-- **Unknown / null soundness with `Covers`, every placeholder-free target, the admitted null**:
`v` unknown (marked or not), `v'` a null of the same type (marked or not) that `v` admits: the
result for `v` — an unknown of the target type, whatever length refinement it carries — admits
the result for `v'`. -/
theorem unknown_covers_null {E : Env} (hU : UnifyLaws E) {fuel fuel' : Nat} {uns : Bool} {v v' r r' : Value}
    {want : Ty} {p : Plan} (hp : RegularPair v want) (hwt' : wtP v'.ty v'.v = true) (hty : v'.ty = v.ty)
    (hg : getConv E v.ty want uns = some p) (hk : v.isKnown = false) (hn' : v'.isNull = true)
    (hc : Covers v v' = true)
    (h : apply E fuel p v = .ok r) (h' : apply E fuel' p v' = .ok r') : Covers r r' = true := by
  obtain ⟨c, hgc, rfl⟩ := Option.map_eq_some_iff.mp hg
  have hwv := hp.conds.wt
  obtain ⟨f0, r0, h0, hm0, hl, _⟩ := apply_peel hwv h
  obtain ⟨f0', r0', h0', hm0', _, hr⟩ := apply_peel hwt' h'
  rw [hl, hr]
  obtain ⟨rf, hrf⟩ := unmark_unknown hk
  have hnull : v'.unmark = ⟨v.ty, .null⟩ := by
    obtain ⟨t', q'⟩ := v'
    simp only [Value.isNull, Payload.isNull] at hn'
    simp only at hty
    subst hty
    simp only [Value.unmark]
    cases hq : q'.unmark1 <;> simp [hq] at hn'
    rfl
  have hadm : Cov.admits rf .null = true := by
    have hc' := hc
    rw [← covers_unmark_left, ← covers_unmark_right, hrf, hnull] at hc'
    simp only [Covers, CoversG, Bool.and_eq_true] at hc'
    simpa [Payload.stripMarks, Cov.coversP] using hc'.2
  rw [hrf] at h0
  rw [hnull] at h0'
  have hp0 : RegularPair ⟨v.ty, .unk rf⟩ want := ⟨by
    have := hp.wt
    simp only [Value.wt, Bool.and_eq_true] at this ⊢
    exact ⟨this.1, by simp [wtP]⟩, hp.wfT, hp.noDyn⟩
  exact covers_null_core hU hp0 hg hadm h0 h0'

end Convert
end CtyModel
