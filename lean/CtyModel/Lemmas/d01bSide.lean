/- the driver's copies of the fragment predicates (CtyModel/d01bSide.lean) are the
predicates of the theorems; `inScopeHasMembers` implies the conclusion of
`hasElement_sound_members` -/
import CtyModel.d01bSide
import CtyModel.Lemmas.d01bSets
namespace CtyModel
namespace D01b
open Value Cov

mutual
theorem eqTyC_eq : ∀ t : Ty, eqTyC t = eqTy t
  | .bool | .number | .string | .dyn | .set _ | .map _ | .object _ _ _ | .capsule _ => by simp [eqTyC, eqTy]
  | .list e => by simp only [eqTyC, eqTy]; exact eqTyC_eq e
  | .tuple es => by simp only [eqTyC, eqTy]; exact eqTyLC_eq es
theorem eqTyLC_eq : ∀ ts : List Ty, eqTyLC ts = eqTyL ts
  | [] => by simp [eqTyLC, eqTyL]
  | t :: ts => by simp only [eqTyLC, eqTyL, eqTyC_eq t, eqTyLC_eq ts]
end

theorem kindOKC_eq : @kindOKC = @kindOK := rfl

mutual
theorem wtC_eq : ∀ (t : Ty) (p : Payload), wtC t p = wt t p
  | _, .null | _, .caps | _, .smap _ _ | _, .sset _ _ | _, .marked _ _ | _, .bad _ => by
    simp [wtC, wt]
  | t, .b _ | t, .n _ | t, .s _ => by cases t <;> rfl
  | _, .unk _ => by simp [wtC, wt, kindOKC_eq]
  | t, .seq vs => by
    cases t <;> simp only [wtC, wt]
    · exact wtAllC_eq _ vs
    · exact wtZipC_eq _ vs
theorem wtAllC_eq : ∀ (e : Ty) (vs : List Payload), wtAllC e vs = wtAll e vs
  | _, [] => by simp [wtAllC, wtAll]
  | e, v :: vs => by simp only [wtAllC, wtAll, wtC_eq e v, wtAllC_eq e vs]
theorem wtZipC_eq : ∀ (ts : List Ty) (vs : List Payload), wtZipC ts vs = wtZip ts vs
  | [], [] => by simp [wtZipC, wtZip]
  | [], _ :: _ => by simp [wtZipC, wtZip]
  | _ :: _, [] => by simp [wtZipC, wtZip]
  | t :: ts, v :: vs => by simp only [wtZipC, wtZip, wtC_eq t v, wtZipC_eq ts vs]
end

theorem inScopeHasMembers_sound (s el ws r : Value) (eh : Option Int) (h : inScopeHasMembers s el ws eh = true)
    (ho : hasElement s el eh = .ok r) : ∃ r', hasElement ws el eh = .ok r' ∧ Covers r' r = true := by
  unfold inScopeHasMembers at h
  split at h
  · rename_i eh0 e ids vs ids' wvs hh hty hv hwv
    simp only [Bool.and_eq_true, beq_iff_eq, eqTyC_eq, wtAllC_eq, wtC_eq] at h
    obtain ⟨⟨⟨⟨⟨⟨⟨⟨⟨⟨⟨⟨⟨⟨a1, a2⟩, a3⟩, a4⟩, a5⟩, a6⟩, a7⟩, a8⟩, a9⟩, a10⟩, a11⟩, a12⟩, a13⟩, a14⟩, a15⟩ := h
    have hewf : e.wf = true := eqTy_wf e a5
    have hswf : (Ty.set e).wf = true := by simpa [Ty.wf] using hewf
    have t1 : ws.unmark.ty = .set e := (Ty.equals_iff_eq _ _ a2 hswf).mp a1
    have t2 : el.ty = e := (Ty.equals_iff_eq _ _ a4 hewf).mp a3
    have hs : s.unmark = ⟨.set e, .sset ids vs⟩ := by
      cases hsu : s.unmark with
      | mk t p => rw [hsu] at hty hv; simp only at hty hv; rw [hty, hv]
    have hw : ws.unmark = ⟨.set e, .sset ids' wvs⟩ := by
      cases hwu : ws.unmark with
      | mk t p => rw [hwu] at t1 hwv; simp only at t1 hwv; rw [t1, hwv]
    have hel : el.unmarkDeep = ⟨e, el.v.stripMarks⟩ := by simp only [Value.unmarkDeep, t2]
    exact hasElement_sound_members s el ws r hs hw hel a5 a6 a7 a8 a9 a10 a11 a12 a13 a14 a15 ho
  · cases h

end D01b
end CtyModel
