/-
Set algebra of the stdlib set functions under a lawfulness that is PROVED:
`setRules E ety` (Stdlib/Base) is lawful on the carrier of wholly known,
mark-free, well-formed members of a plain element type whose numbers are
hash-coherent (C03 `Payload.member`) and whose hash the environment answers as
the hash model computes it (`Env.hashAgrees`).  On that carrier the four
set-algebra functions compute union / intersection / difference / symmetric
difference of the equivalence classes, the result is a valid set layout, and its
members are literally members of the arguments.
-/
import CtyModel.Lemmas.d13Carrier
import CtyModel.Lemmas.StdlibSet
import CtyModel.Lemmas.TyMisc
namespace CtyModel
namespace SetImpl
variable {α : Type}

/-- members of the result of an `addWhere` loop come from the receiver or the list -/
theorem mem_values_addWhere {R : Rules α} (hR : R.Lawful) (p : α → Bool) (l : List α) (rs : SetImpl α)
    (h : InvB R rs) (m : α) (hm : m ∈ values (addWhere R p rs l)) : m ∈ values rs ∨ m ∈ l := by
  induction l generalizing rs with
  | nil => exact Or.inl hm
  | cons x l ih =>
    rw [addWhere_cons] at hm
    by_cases hp : p x = true
    · simp only [hp, if_true] at hm
      rcases ih _ (invB_add hR h x) hm with h1 | h1
      · rcases values_add_perm h x with ⟨_, e⟩ | ⟨_, hperm⟩
        · rw [e] at h1; exact Or.inl h1
        · rcases List.mem_cons.mp (hperm.mem_iff.mp h1) with rfl | h2
          · exact Or.inr (by simp)
          · exact Or.inl h2
      · exact Or.inr (List.mem_cons_of_mem _ h1)
    · simp only [hp, if_false, Bool.false_eq_true] at hm
      rcases ih _ h hm with h1 | h1
      · exact Or.inl h1
      · exact Or.inr (List.mem_cons_of_mem _ h1)

theorem mem_values_fromList {R : Rules α} (hR : R.Lawful) (l : List α) (m : α)
    (hm : m ∈ values (fromList R l)) : m ∈ l := by
  rcases mem_values_addWhere hR _ l empty (invB_empty R) m hm with h | h
  · simp [values, empty] at h
  · exact h

end SetImpl

namespace Stdlib
open Value SetImpl

/-- the four operations, generic in the member type -/
def SetOpKind.runG {α : Type} (k : SetOpKind) (R : Rules α) (s1 s2 : SetImpl α) : SetImpl α :=
  match k with
  | .union => SetImpl.union R s1 s2
  | .intersection => SetImpl.intersection R s1 s2
  | .subtract => SetImpl.subtract R s1 s2
  | .symmetricDifference => SetImpl.symmetricDifference R s1 s2

theorem SetOpKind.run_eq_runG (k : SetOpKind) (R : Rules Payload) (s1 s2 : SetImpl Payload) :
    k.run R s1 s2 = k.runG R s1 s2 := by cases k <;> rfl

theorem SetOpKind.runG_mapS {α β : Type} (k : SetOpKind) (R : Rules α) (f : β → α) (s1 s2 : SetImpl β) :
    k.runG R (mapS f s1) (mapS f s2) = mapS f (k.runG (R.pull f) s1 s2) := by
  cases k
  · exact union_mapS R f s1 s2
  · exact intersection_mapS R f s1 s2
  · exact subtract_mapS R f s1 s2
  · exact symmetricDifference_mapS R f s1 s2

theorem SetOpKind.invB_runG {α : Type} (k : SetOpKind) {R : Rules α} (hR : R.Lawful) (s1 s2 : SetImpl α) :
    InvB R (k.runG R s1 s2) := by
  cases k
  · exact invB_union hR s1 s2
  · exact invB_intersection hR s1 s2
  · exact invB_subtract hR s1 s2
  · exact invB_symmetricDifference hR s1 s2

theorem SetOpKind.abs_runG {α : Type} (k : SetOpKind) {R : Rules α} (hR : R.Lawful) {s1 s2 : SetImpl α}
    (h1 : InvB R s1) (h2 : InvB R s2) (y : α) :
    SetImpl.abs R (k.runG R s1 s2) y ↔ k.spec (SetImpl.abs R s1 y) (SetImpl.abs R s2 y) := by
  cases k
  · exact abs_union hR s1 s2 y
  · exact abs_intersection hR s1 h2 y
  · exact abs_subtract hR s1 h2 y
  · exact abs_symmetricDifference hR h1 h2 y

theorem SetOpKind.mem_runG {α : Type} (k : SetOpKind) {R : Rules α} (hR : R.Lawful) (s1 s2 : SetImpl α) (m : α)
    (hm : m ∈ values (k.runG R s1 s2)) : m ∈ values s1 ∨ m ∈ values s2 := by
  have e := invB_empty R
  cases k
  · simp only [SetOpKind.runG] at hm
    rcases mem_values_addWhere hR _ _ _ (invB_addWhere hR _ _ _ e) m hm with h | h
    · rcases mem_values_addWhere hR _ _ _ e m h with h | h
      · simp [values, empty] at h
      · exact Or.inl ((mem_iter R s1 m).mp h)
    · exact Or.inr ((mem_iter R s2 m).mp h)
  · simp only [SetOpKind.runG] at hm
    rcases mem_values_addWhere hR _ _ _ e m hm with h | h
    · simp [values, empty] at h
    · exact Or.inl ((mem_iter R s1 m).mp h)
  · simp only [SetOpKind.runG] at hm
    rcases mem_values_addWhere hR _ _ _ e m hm with h | h
    · simp [values, empty] at h
    · exact Or.inl ((mem_iter R s1 m).mp h)
  · simp only [SetOpKind.runG] at hm
    rcases mem_values_addWhere hR _ _ _ (invB_addWhere hR _ _ _ e) m hm with h | h
    · rcases mem_values_addWhere hR _ _ _ e m h with h | h
      · simp [values, empty] at h
      · exact Or.inl ((mem_iter R s1 m).mp h)
    · exact Or.inr ((mem_iter R s2 m).mp h)

/-- **The four set operations on sets built from carrier members**, for ANY rules
lawful on the carrier: the result keeps the representation invariant, its members
are members of the arguments, and it represents exactly the union / intersection /
difference / symmetric difference of the represented classes. -/
theorem setOp_on_carrier (R : Rules Payload) (P : Payload → Prop) (hR : R.LawfulOn P) (k : SetOpKind)
    (la lb : List Payload) (ha : ∀ x ∈ la, P x) (hb : ∀ x ∈ lb, P x) :
    Inv R (k.run R (fromList R la) (fromList R lb)) ∧
    (∀ m ∈ values (k.run R (fromList R la) (fromList R lb)), m ∈ la ∨ m ∈ lb) ∧
    ∀ y, P y → (SetImpl.abs R (k.run R (fromList R la) (fromList R lb)) y ↔
      k.spec (∃ x ∈ la, R.equiv y x = true) (∃ x ∈ lb, R.equiv y x = true)) := by
  let f : {a // P a} → Payload := Subtype.val
  let R' := R.pull f
  have hR' : R'.Lawful := hR.pull
  let la' := liftL la ha
  let lb' := liftL lb hb
  have ea : fromList R la = mapS f (fromList R' la') := by
    rw [← fromList_mapS, liftL_val]
  have eb : fromList R lb = mapS f (fromList R' lb') := by
    rw [← fromList_mapS, liftL_val]
  have h1 : InvB R' (fromList R' la') := invB_fromList hR' _
  have h2 : InvB R' (fromList R' lb') := invB_fromList hR' _
  have eres : k.run R (fromList R la) (fromList R lb) = mapS f (k.runG R' (fromList R' la') (fromList R' lb')) := by
    rw [k.run_eq_runG, ea, eb, k.runG_mapS]
  rw [eres]
  have hinv := k.invB_runG hR' (fromList R' la') (fromList R' lb')
  refine ⟨(inv_mapS R f _).mpr (hinv.toInv hR'), ?_, ?_⟩
  · intro m hm
    rw [values_mapS] at hm
    obtain ⟨m', hm', rfl⟩ := List.mem_map.mp hm
    rcases k.mem_runG hR' _ _ m' hm' with h | h
    · exact Or.inl (mem_liftL.mp (mem_values_fromList hR' _ _ h))
    · exact Or.inr (mem_liftL.mp (mem_values_fromList hR' _ _ h))
  · intro y hy
    have : y = f ⟨y, hy⟩ := rfl
    rw [this, abs_mapS, k.abs_runG hR' h1 h2, abs_fromList hR', abs_fromList hR']
    have ex : ∀ (l : List Payload) (hl : ∀ x ∈ l, P x),
        (∃ x ∈ liftL l hl, R'.equiv ⟨y, hy⟩ x = true) ↔ (∃ x ∈ l, R.equiv y x = true) := by
      intro l hl
      constructor
      · rintro ⟨x, hx, he⟩; exact ⟨x.1, mem_liftL.mp hx, he⟩
      · rintro ⟨x, hx, he⟩; exact ⟨⟨x, hl x hx⟩, mem_liftL.mpr hx, he⟩
    rw [ex la ha, ex lb hb]

/-! ### cty's `setRules` on the carrier of admitted members -/

/-- the environment answers for the hash of this member what the hash model
(`Value.hash`, C03: crc32 of `appendSetHashBytes`) computes -/
def Env.hashAgrees (E : Env) (ety : Ty) (p : Payload) : Prop :=
  ∃ h, Value.hash ⟨ety, p⟩ = .ok h ∧ E.hash ety p = some h

theorem Env.hashAgrees.isSome {E : Env} {ety : Ty} {p : Payload} (h : E.hashAgrees ety p) :
    (E.hash ety p).isSome = true := by
  obtain ⟨_, _, e⟩ := h; simp [e]

/-- on admitted members `setRules.Equivalent` is the structural `RawEquals` -/
theorem setRules_equiv_eq (E : Env) {e : Ty} (hw : e.wf = true) (hp : e.plain = true) {ns : List Num} {a b : Payload}
    (ha : a.member e ns = true) (hb : b.member e ns = true) :
    (setRules E e).equiv a b = rawB e a b := by
  simp only [Payload.member, Bool.and_eq_true, Bool.not_eq_true'] at ha hb
  have h := equals_of_members hw hp ha.1.1.1 ha.1.1.2 ha.1.2 hb.1.1.1 hb.1.1.2 hb.1.2
  simp only [Value.equals, Value.containsMarked, ha.1.2, hb.1.2, Bool.or_self, Bool.false_eq_true, if_false] at h
  simp only [setRules, h]
  cases rawB e a b <;> rfl

theorem member_shaped {e : Ty} {ns : List Num} {a : Payload} (ha : a.member e ns = true) : a.shaped e = true := by
  simp only [Payload.member, Bool.and_eq_true] at ha; exact ha.1.1.1

/-- the carrier: admitted members whose hash the environment answers like the model -/
def Carrier (E : Env) (ety : Ty) (ns : List Num) (p : Payload) : Prop :=
  p.member ety ns = true ∧ E.hashAgrees ety p

/-- **cty's `setRules` are lawful on the carrier** — `Equivalent` is an equivalence
relation there and equivalent members hash alike. -/
theorem setRules_lawfulOn (E : Env) (ety : Ty) (ns : List Num) (hw : ety.wf = true) (hp : ety.plain = true)
    (hc : HashCoherentNums ns = true) : (setRules E ety).LawfulOn (Carrier E ety ns) := by
  refine ⟨fun a ha => ?_, fun a b ha hb h => ?_, fun a b c ha hb hc' h1 h2 => ?_, fun a b ha hb h => ?_⟩
  · rw [setRules_equiv_eq E hw hp ha.1 ha.1]; exact rawB_refl ety a hp (member_shaped ha.1)
  · rw [setRules_equiv_eq E hw hp ha.1 hb.1] at h
    rw [setRules_equiv_eq E hw hp hb.1 ha.1, rawB_symm ety b a hp (member_shaped hb.1) (member_shaped ha.1)]
    exact h
  · rw [setRules_equiv_eq E hw hp ha.1 hb.1] at h1
    rw [setRules_equiv_eq E hw hp hb.1 hc'.1] at h2
    rw [setRules_equiv_eq E hw hp ha.1 hc'.1]
    exact rawB_trans ety a b c hp (member_shaped ha.1) (member_shaped hb.1) (member_shaped hc'.1) h1 h2
  · rw [setRules_equiv_eq E hw hp ha.1 hb.1] at h
    have hma := ha.1
    have hmb := hb.1
    simp only [Payload.member, Bool.and_eq_true, Bool.not_eq_true'] at hma hmb
    have := ctyRules_hash_eq hp hc hma.1.1.1 hma.1.2 hma.2 hmb.1.1.1 hmb.1.2 hmb.2 h
    obtain ⟨x, hx1, hx2⟩ := ha.2
    obtain ⟨y, hy1, hy2⟩ := hb.2
    simp only [ctyRules, hx1, hy1] at this
    simp only [setRules, hx2, hy2, Option.getD_some]
    exact this

/-- the equivalence laws alone (no hash is involved) on admitted members -/
theorem setRules_equiv_laws (E : Env) (ety : Ty) (ns : List Num) (hw : ety.wf = true) (hp : ety.plain = true) :
    (∀ a, a.member ety ns = true → (setRules E ety).equiv a a = true) ∧
    (∀ a b, a.member ety ns = true → b.member ety ns = true →
      (setRules E ety).equiv a b = (setRules E ety).equiv b a) ∧
    (∀ a b c, a.member ety ns = true → b.member ety ns = true → c.member ety ns = true →
      (setRules E ety).equiv a b = true → (setRules E ety).equiv b c = true → (setRules E ety).equiv a c = true) := by
  refine ⟨fun a ha => ?_, fun a b ha hb => ?_, fun a b c ha hb hc h1 h2 => ?_⟩
  · rw [setRules_equiv_eq E hw hp ha ha]; exact rawB_refl ety a hp (member_shaped ha)
  · rw [setRules_equiv_eq E hw hp ha hb, setRules_equiv_eq E hw hp hb ha]
    exact rawB_symm ety a b hp (member_shaped ha) (member_shaped hb)
  · rw [setRules_equiv_eq E hw hp ha hb] at h1
    rw [setRules_equiv_eq E hw hp hb hc] at h2
    rw [setRules_equiv_eq E hw hp ha hc]
    exact rawB_trans ety a b c hp (member_shaped ha) (member_shaped hb) (member_shaped hc) h1 h2

/-- membership up to `Equivalent` does not depend on the representative probed -/
theorem memBy_congr (E : Env) (ety : Ty) (ns : List Num) (hw : ety.wf = true) (hp : ety.plain = true)
    (l : List Payload) (hl : ∀ z ∈ l, z.member ety ns = true) {x y : Payload}
    (hx : x.member ety ns = true) (hy : y.member ety ns = true) (hyx : (setRules E ety).equiv y x = true) :
    Spec.memBy (setRules E ety).equiv l y ↔ Spec.memBy (setRules E ety).equiv l x := by
  obtain ⟨_, hsym, htr⟩ := setRules_equiv_laws E ety ns hw hp
  constructor
  · rintro ⟨z, hz, he⟩
    exact ⟨z, hz, htr x y z hx hy (hl z hz) (by rw [hsym x y hx hy]; exact hyx) he⟩
  · rintro ⟨z, hz, he⟩
    exact ⟨z, hz, htr y x z hy hx (hl z hz) hyx he⟩

theorem SetOpKind.spec_congr (k : SetOpKind) {a a' b b' : Prop} (ha : a ↔ a') (hb : b ↔ b') :
    k.spec a b ↔ k.spec a' b' := by
  cases k <;> simp only [SetOpKind.spec, ha, hb]

theorem SetOpKind.spec_false (k : SetOpKind) : ¬ k.spec False False := by
  cases k <;> simp [SetOpKind.spec]

theorem d13_whollyKnownL_of_forall : ∀ (vs : List Payload), (∀ p ∈ vs, p.whollyKnown = true) →
    Payload.whollyKnownL vs = true
  | [], _ => rfl
  | v :: vs, h => by
    simp only [Payload.whollyKnownL, Bool.and_eq_true]
    exact ⟨h v (by simp), d13_whollyKnownL_of_forall vs fun p hp => h p (List.mem_cons_of_mem _ hp)⟩

theorem hasOpt_equals (ety : Ty) (hw : ety.wf = true) (ho : ety.hasOpt = false) :
    ety.equals ety.stripOpt = true ∧ ety.equals ety = true := by
  rw [Ty.stripOpt_id_of_noOpt ety ho]
  exact ⟨Ty.equals_self hw, Ty.equals_self hw⟩

/-- **set algebra = list-set algebra, with every hypothesis dischargeable.**
For two known sets of one well-formed plain element type without optional
attributes, whose members are admitted (`Payload.member`: well-formed, wholly
known, mark-free, numbers from a hash-coherent list) and hashed by the environment
as the hash model hashes them: the call succeeds with a set of the same type whose
members are members of the arguments, laid out under the representation invariant
(ascending buckets, every member in the bucket of its hash, no two `Equals`
members), and for EVERY admitted probe `y` — hashed or not — `y` is represented in
the result iff the union / intersection / difference / symmetric difference says so. -/
theorem setOp_members_carrier (E : Env) (ety : Ty) (ns : List Num) (k : SetOpKind) (ida idb : List Int)
    (va vb : List Payload)
    (hw : ety.wf = true) (hp : ety.plain = true) (ho : ety.hasOpt = false) (hc : HashCoherentNums ns = true)
    (hma : ∀ p ∈ va, p.member ety ns = true) (hmb : ∀ p ∈ vb, p.member ety ns = true)
    (hha : ∀ p ∈ va, E.hashAgrees ety p) (hhb : ∀ p ∈ vb, E.hashAgrees ety p) :
    ∃ s : SetImpl Payload,
      setOpImpl E k [⟨.set ety, .sset ida va⟩, ⟨.set ety, .sset idb vb⟩] (.set ety) = .ok (ofSetImpl ety s) ∧
      SetImpl.Inv (setRules E ety) s ∧
      (∀ m ∈ SetImpl.values s, m ∈ va ∨ m ∈ vb) ∧
      ∀ y, y.member ety ns = true →
        (Spec.memBy (setRules E ety).equiv (SetImpl.values s) y ↔
          k.spec (Spec.memBy (setRules E ety).equiv va y) (Spec.memBy (setRules E ety).equiv vb y)) := by
  let R := setRules E ety
  have hR := setRules_lawfulOn E ety ns hw hp hc
  have hka : Payload.whollyKnownL va = true := by
    apply d13_whollyKnownL_of_forall
    intro p hp'
    have := hma p hp'
    simp only [Payload.member, Bool.and_eq_true] at this
    exact this.1.1.2
  have hkb : Payload.whollyKnownL vb = true := by
    apply d13_whollyKnownL_of_forall
    intro p hp'
    have := hmb p hp'
    simp only [Payload.member, Bool.and_eq_true] at this
    exact this.1.1.2
  have hia : ∀ x ∈ setIter E ety va, Carrier E ety ns x := fun x hx =>
    have hx' := (mem_sortStable _ _ _).mp hx
    ⟨hma x hx', hha x hx'⟩
  have hib : ∀ x ∈ setIter E ety vb, Carrier E ety ns x := fun x hx =>
    have hx' := (mem_sortStable _ _ _).mp hx
    ⟨hmb x hx', hhb x hx'⟩
  obtain ⟨hinv, hmem, habs⟩ := setOp_on_carrier R _ hR k _ _ hia hib
  have heq := hasOpt_equals ety hw ho
  have himpl := setOpImpl_two E ety k ida idb va vb heq.1 heq.2 (fun p h => (hha p h).isSome)
    (fun p h => (hhb p h).isSome) hka hkb
  rw [copy_eq hinv.asc] at himpl
  refine ⟨_, himpl, hinv, ?_, ?_⟩
  · intro m hm
    rcases hmem m hm with h | h
    · exact Or.inl ((mem_sortStable _ _ _).mp h)
    · exact Or.inr ((mem_sortStable _ _ _).mp h)
  · intro y hy
    -- the members of the result are admitted
    have hres : ∀ z ∈ SetImpl.values (k.run R (fromList R (setIter E ety va)) (fromList R (setIter E ety vb))),
        z.member ety ns = true := by
      intro z hz
      rcases hmem z hz with h | h
      · exact (hia z h).1
      · exact (hib z h).1
    have iter_memBy : ∀ (v : List Payload) (q : Payload),
        (∃ x ∈ setIter E ety v, R.equiv q x = true) ↔ Spec.memBy R.equiv v q := by
      intro v q
      constructor
      · rintro ⟨x, hx, he⟩; exact ⟨x, (mem_sortStable _ _ _).mp hx, he⟩
      · rintro ⟨x, hx, he⟩; exact ⟨x, (mem_sortStable _ _ _).mpr hx, he⟩
    by_cases hex : ∃ x, (x ∈ va ∨ x ∈ vb) ∧ R.equiv y x = true
    · obtain ⟨x, hxm, hyx⟩ := hex
      have hxc : Carrier E ety ns x := by
        rcases hxm with h | h
        · exact ⟨hma x h, hha x h⟩
        · exact ⟨hmb x h, hhb x h⟩
      have hx := habs x hxc
      rw [iter_memBy, iter_memBy] at hx
      rw [memBy_congr E ety ns hw hp _ hres hxc.1 hy hyx,
        k.spec_congr (memBy_congr E ety ns hw hp va hma hxc.1 hy hyx)
          (memBy_congr E ety ns hw hp vb hmb hxc.1 hy hyx)]
      exact hx
    · have na : ¬ Spec.memBy R.equiv va y := fun ⟨x, hx, he⟩ => hex ⟨x, Or.inl hx, he⟩
      have nb : ¬ Spec.memBy R.equiv vb y := fun ⟨x, hx, he⟩ => hex ⟨x, Or.inr hx, he⟩
      have nr : ¬ Spec.memBy R.equiv
          (SetImpl.values (k.run R (fromList R (setIter E ety va)) (fromList R (setIter E ety vb)))) y := by
        rintro ⟨x, hx, he⟩
        rcases hmem x hx with h | h
        · exact hex ⟨x, Or.inl ((mem_sortStable _ _ _).mp h), he⟩
        · exact hex ⟨x, Or.inr ((mem_sortStable _ _ _).mp h), he⟩
      constructor
      · intro h; exact absurd h nr
      · intro h
        exact absurd ((k.spec_congr (iff_false_intro na) (iff_false_intro nb)).mp h) k.spec_false

end Stdlib
end CtyModel
