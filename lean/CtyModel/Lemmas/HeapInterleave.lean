/-
C20 — a generic theorem about step semantics: threads whose steps READ only shared
addresses and their own, and WRITE only their own, cannot influence one another;
every interleaving gives each thread the results of running alone.

Nothing here is specific to cty: memory is any `Nat → V`, a step any function on
it with a footprint.  How it applies to cty is said in Props/C20.lean.
-/
import CtyModel.Interleave
namespace CtyModel
namespace Interleave

variable {V R : Type}

/-- `act` depends only on the addresses in `rd ∪ wr` and changes only addresses in `wr` -/
structure Footprint (act : Act V R) (rd wr : Nat → Prop) : Prop where
  frame : ∀ m a, ¬ wr a → (act.run m).1 a = m a
  locality : ∀ m m', (∀ a, rd a ∨ wr a → m a = m' a) →
    (act.run m).2 = (act.run m').2 ∧ ∀ a, wr a → (act.run m).1 a = (act.run m').1 a

theorem solo_append (m : Memory V) (as : List (Act V R)) (a : Act V R) :
    solo m (as ++ [a]) =
      ((a.run (solo m as).1).1, (solo m as).2 ++ [(a.run (solo m as).1).2]) := by
  induction as generalizing m with
  | nil => simp [solo]
  | cons b bs ih => simp [solo, ih]

/-- the threads' steps respect a partition of the addresses: thread `i` reads
`shared ∪ own i` and writes only `own i` -/
structure Partitioned (prog : Nat → List (Act V R)) (shared : Nat → Prop) (own : Nat → Nat → Prop) : Prop where
  foot : ∀ i, ∀ a ∈ prog i, Footprint a (fun x => shared x ∨ own i x) (own i)
  disjoint : ∀ i j x, i ≠ j → own i x → ¬ own j x
  apart : ∀ i x, own i x → ¬ shared x

/-- what is true of every configuration an interleaving reaches -/
structure Inv (prog : Nat → List (Act V R)) (shared : Nat → Prop) (own : Nat → Nat → Prop)
    (m0 : Memory V) (c : Cfg V R) : Prop where
  sharedSame : ∀ x, shared x → c.mem x = m0 x
  thread : ∀ i, ∃ done, prog i = done ++ c.todo i ∧ c.out i = (solo m0 done).2 ∧
    ∀ x, own i x → c.mem x = (solo m0 done).1 x

theorem solo_shared {prog : Nat → List (Act V R)} {shared : Nat → Prop} {own : Nat → Nat → Prop}
    (hp : Partitioned prog shared own) (i : Nat) :
    ∀ (done : List (Act V R)) (m : Memory V), (∀ a ∈ done, a ∈ prog i) →
      ∀ x, shared x → (solo m done).1 x = m x := by
  intro done
  induction done with
  | nil => intro _ _ x _; rfl
  | cons a as ih =>
    intro m hmem x hx
    simp only [solo]
    rw [ih (a.run m).1 (fun b hb => hmem b (List.mem_cons_of_mem _ hb)) x hx]
    exact (hp.foot i a (hmem a List.mem_cons_self)).frame m x (fun ho => hp.apart i x ho hx)

theorem inv_tick {prog : Nat → List (Act V R)} {shared : Nat → Prop} {own : Nat → Nat → Prop}
    (hp : Partitioned prog shared own) {m0 : Memory V} {c : Cfg V R}
    (h : Inv prog shared own m0 c) (i : Nat) : Inv prog shared own m0 (tick c i) := by
  unfold tick
  cases ht : c.todo i with
  | nil => simpa [ht] using h
  | cons a rest =>
    simp only []
    obtain ⟨done, hpr, hout, hown⟩ := h.thread i
    rw [ht] at hpr
    have ha : a ∈ prog i := by rw [hpr]; simp
    have hfoot := hp.foot i a ha
    -- the thread sees the memory it would see running alone
    have hagree : ∀ x, (shared x ∨ own i x) ∨ own i x → c.mem x = (solo m0 done).1 x := by
      intro x hx
      rcases hx with (hx | hx) | hx
      · rw [h.sharedSame x hx, solo_shared hp i done m0 (fun b hb => by rw [hpr]; simp [hb]) x hx]
      · exact hown x hx
      · exact hown x hx
    obtain ⟨hres, hwr⟩ := hfoot.locality c.mem (solo m0 done).1 hagree
    refine ⟨fun x hx => ?_, fun j => ?_⟩
    · show (a.run c.mem).1 x = m0 x
      rw [hfoot.frame c.mem x (fun ho => hp.apart i x ho hx)]
      exact h.sharedSame x hx
    · by_cases e : j = i
      · subst e
        refine ⟨done ++ [a], by simp [upd, hpr], ?_, ?_⟩
        · simp [upd, solo_append, hout, hres]
        · intro x hx
          rw [solo_append]
          exact hwr x hx
      · obtain ⟨dj, hpj, hoj, hmj⟩ := h.thread j
        refine ⟨dj, by simpa [upd, e] using hpj, by simpa [upd, e] using hoj, fun x hx => ?_⟩
        show (a.run c.mem).1 x = _
        rw [hfoot.frame c.mem x (hp.disjoint j i x e hx)]
        exact hmj x hx

theorem inv_exec {prog : Nat → List (Act V R)} {shared : Nat → Prop} {own : Nat → Nat → Prop}
    (hp : Partitioned prog shared own) {m0 : Memory V} :
    ∀ (s : List Nat) {c : Cfg V R}, Inv prog shared own m0 c → Inv prog shared own m0 (exec c s) := by
  intro s
  induction s with
  | nil => intro c h; exact h
  | cons i s ih => intro c h; exact ih (inv_tick hp h i)

theorem inv_start (prog : Nat → List (Act V R)) (shared : Nat → Prop) (own : Nat → Nat → Prop)
    (m0 : Memory V) : Inv prog shared own m0 (start prog m0) :=
  ⟨fun _ _ => rfl, fun i => ⟨[], by simp [start], rfl, fun _ _ => rfl⟩⟩

end Interleave
end CtyModel
