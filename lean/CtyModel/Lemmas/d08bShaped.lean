/-
d08b (second deepening of C08), part 1: the SHAPE of the plans `getConversionKnown` builds.

Every element / attribute conversion a plan holds is nil (`.nil`, `.impossible`, `.absent`: never
called) or a closure of `getConversion` (`.wrap`), which takes the marks off before it looks at the
value.  `shaped` says so syntactically, at every depth; `gck_shaped` proves it of everything `gck`
returns, for every environment, type pair and mode — so also of the conversions `dynamicFixup` and
`conversionUnify…Elements` look up at run time.
-/
import CtyModel.Convert
namespace CtyModel
namespace D08B
open Convert

/-- what may sit in `elemConvs` / `attrConvs`: no conversion, or a `getConversion` closure -/
def childOK : Plan → Bool
  | .nil | .impossible | .absent | .wrap _ _ => true
  | _ => false

mutual
/-- every child conversion, at every depth, is `childOK` -/
def shaped : Plan → Bool
  | .wrap _ c => shaped c
  | .objToObj _ cs _ _ _ => shapedL cs
  | .tupToTup cs => shapedL cs
  | .collToList _ c => childOK c && shaped c
  | .collToSet _ c => childOK c && shaped c
  | .collToMap _ c => childOK c && shaped c
  | .tupToSet cs => shapedL cs
  | .tupToList cs _ => shapedL cs
  | .objToMap _ cs _ _ => shapedL cs
  | .mapToObj _ _ _ cs => shapedL cs
  | _ => true
def shapedL : List Plan → Bool
  | [] => true
  | c :: cs => childOK c && shaped c && shapedL cs
end

theorem shapedL_cons_nil {cs : List Plan} (h : shapedL cs = true) : shapedL (Plan.nil :: cs) = true := by
  simp [shapedL, childOK, shaped, h]
theorem shapedL_cons_absent {cs : List Plan} (h : shapedL cs = true) : shapedL (Plan.absent :: cs) = true := by
  simp [shapedL, childOK, shaped, h]
theorem shapedL_cons_impossible {cs : List Plan} (h : shapedL cs = true) : shapedL (Plan.impossible :: cs) = true := by
  simp [shapedL, childOK, shaped, h]
theorem shapedL_cons_wrap {t : Ty} {c : Plan} {cs : List Plan} (hc : shaped c = true) (h : shapedL cs = true) :
    shapedL (Plan.wrap t c :: cs) = true := by
  simp [shapedL, childOK, shaped, h, hc]

theorem primSafe_shaped {a b : Ty} {c : Plan} (h : primSafe a b = some c) : shaped c = true := by
  unfold primSafe at h; split at h <;> simp at h <;> subst h <;> rfl
theorem primUnsafe_shaped {a b : Ty} {c : Plan} (h : primUnsafe a b = some c) : shaped c = true := by
  unfold primUnsafe at h; split at h <;> simp at h <;> subst h <;> rfl

theorem mapToObjConvs_shaped {f : Ty → Option Plan} (hf : ∀ o c, f o = some c → shaped c = true) (ie : Ty) :
    ∀ (ots : List Ty) (oos : List Bool) (cs : List Plan), mapToObjConvs f ie ots oos = some cs → shapedL cs = true
  | [], _, cs, h => by simp [mapToObjConvs] at h; subst h; rfl
  | _ :: _, [], cs, h => by simp [mapToObjConvs] at h; subst h; rfl
  | ot :: ots, oo :: oos, cs, h => by
    rw [mapToObjConvs] at h
    split at h
    · obtain ⟨cs', hcs, rfl⟩ := Option.map_eq_some_iff.mp h
      exact shapedL_cons_nil (mapToObjConvs_shaped hf ie ots oos cs' hcs)
    · split at h
      · rename_i c hc
        obtain ⟨cs', hcs, rfl⟩ := Option.map_eq_some_iff.mp h
        exact shapedL_cons_wrap (hf _ _ hc) (mapToObjConvs_shaped hf ie ots oos cs' hcs)
      · split at h
        · obtain ⟨cs', hcs, rfl⟩ := Option.map_eq_some_iff.mp h
          exact shapedL_cons_impossible (mapToObjConvs_shaped hf ie ots oos cs' hcs)
        · simp at h

/-! ### everything `getConversionKnown` returns is shaped -/
mutual
theorem gck_shaped (E : Env) : ∀ (inT out : Ty) (uns : Bool) (c : Plan), gck E inT out uns = some c → shaped c = true
  | .dyn, out, uns, c, h => by
    cases out <;> cases uns <;> simp [gck, Ty.isDyn, isPrim] at h <;> subst h <;> rfl
  | .bool, out, uns, c, h => by
    cases out <;> cases uns <;> simp [gck, Ty.isDyn, isPrim, primSafe, primUnsafe] at h <;> subst h <;> rfl
  | .number, out, uns, c, h => by
    cases out <;> cases uns <;> simp [gck, Ty.isDyn, isPrim, primSafe, primUnsafe] at h <;> subst h <;> rfl
  | .string, out, uns, c, h => by
    cases out <;> cases uns <;> simp [gck, Ty.isDyn, isPrim, primSafe, primUnsafe] at h <;> subst h <;> rfl
  | .capsule _, out, uns, c, h => by
    cases out <;> simp [gck, Ty.isDyn, isPrim] at h <;> subst h <;> rfl
  | .list ie, out, uns, c, h => by
    cases out <;> simp [gck, Ty.isDyn, isPrim] at h
    case dyn => subst h; rfl
    case list oe =>
      split at h
      · simp at h; subst h; rfl
      · obtain ⟨c', hc', rfl⟩ := Option.map_eq_some_iff.mp h
        simp [shaped, childOK, gck_shaped E ie oe uns c' hc']
    case set oe =>
      obtain ⟨_, h⟩ := h
      split at h
      · simp at h; subst h; rfl
      · obtain ⟨c', hc', rfl⟩ := Option.map_eq_some_iff.mp h
        simp [shaped, childOK, gck_shaped E ie oe uns c' hc']
  | .set ie, out, uns, c, h => by
    cases out <;> simp [gck, Ty.isDyn, isPrim] at h
    case dyn => subst h; rfl
    case list oe =>
      split at h
      · simp at h; subst h; rfl
      · obtain ⟨c', hc', rfl⟩ := Option.map_eq_some_iff.mp h
        simp [shaped, childOK, gck_shaped E ie oe uns c' hc']
    case set oe =>
      split at h
      · simp at h; subst h; rfl
      · obtain ⟨c', hc', rfl⟩ := Option.map_eq_some_iff.mp h
        simp [shaped, childOK, gck_shaped E ie oe uns c' hc']
  | .map ie, out, uns, c, h => by
    cases out <;> simp [gck, Ty.isDyn, isPrim] at h
    case dyn => subst h; rfl
    case map oe =>
      obtain ⟨c', hc', rfl⟩ := h
      simp [shaped, childOK, gck_shaped E ie oe uns c' hc']
    case object on ot oo =>
      obtain ⟨_, cs, hcs, rfl⟩ := h
      simp only [shaped]
      exact mapToObjConvs_shaped (fun o c hc => gck_shaped E ie o uns c hc) ie ot oo cs hcs
  | .tuple its, out, uns, c, h => by
    cases out <;> simp [gck, Ty.isDyn, isPrim] at h
    case dyn => subst h; rfl
    case list oe =>
      split at h
      · simp at h; subst h; rfl
      · split at h
        · simp at h
        · obtain ⟨cs, hcs, rfl⟩ := Option.map_eq_some_iff.mp h
          simp only [shaped]
          exact gcAll_shaped E its _ uns cs hcs
    case set oe =>
      split at h
      · simp at h; subst h; rfl
      · split at h
        · simp at h
        · obtain ⟨cs, hcs, rfl⟩ := Option.map_eq_some_iff.mp h
          simp only [shaped]
          exact gcAll_shaped E its _ uns cs hcs
    case tuple ots =>
      obtain ⟨_, cs, hcs, rfl⟩ := h
      simp only [shaped]
      exact gcZip_shaped E its ots uns cs hcs
  | .object inn its ios, out, uns, c, h => by
    cases out <;> simp [gck, Ty.isDyn, isPrim] at h
    case dyn => subst h; rfl
    case map oe =>
      split at h
      · simp at h; subst h; rfl
      · split at h
        · simp at h
        · obtain ⟨cs, hcs, rfl⟩ := Option.map_eq_some_iff.mp h
          simp only [shaped]
          exact gcAll_shaped E its _ uns cs hcs
    case object on ot oo =>
      obtain ⟨_, cs, hcs, rfl⟩ := h
      simp only [shaped]
      exact gcObj_shaped E inn its on ot oo uns cs hcs
termination_by structural inT => inT
theorem gcAll_shaped (E : Env) : ∀ (its : List Ty) (t : Ty) (uns : Bool) (cs : List Plan),
    gcAll E its t uns = some cs → shapedL cs = true
  | [], t, uns, cs, h => by simp [gcAll] at h; subst h; rfl
  | it :: its, t, uns, cs, h => by
    rw [gcAll] at h
    split at h
    · obtain ⟨cs', hcs, rfl⟩ := Option.map_eq_some_iff.mp h
      exact shapedL_cons_nil (gcAll_shaped E its t uns cs' hcs)
    · split at h
      · simp at h
      · rename_i c hc
        obtain ⟨cs', hcs, rfl⟩ := Option.map_eq_some_iff.mp h
        exact shapedL_cons_wrap (gck_shaped E it t uns c hc) (gcAll_shaped E its t uns cs' hcs)
termination_by structural its => its
theorem gcZip_shaped (E : Env) : ∀ (its ots : List Ty) (uns : Bool) (cs : List Plan),
    gcZip E its ots uns = some cs → shapedL cs = true
  | [], ots, uns, cs, h => by
    cases ots <;> simp [gcZip] at h <;> subst h <;> rfl
  | _ :: _, [], uns, cs, h => by simp [gcZip] at h; subst h; rfl
  | it :: its, ot :: ots, uns, cs, h => by
    rw [gcZip] at h
    split at h
    · obtain ⟨cs', hcs, rfl⟩ := Option.map_eq_some_iff.mp h
      exact shapedL_cons_nil (gcZip_shaped E its ots uns cs' hcs)
    · split at h
      · simp at h
      · rename_i c hc
        obtain ⟨cs', hcs, rfl⟩ := Option.map_eq_some_iff.mp h
        exact shapedL_cons_wrap (gck_shaped E it ot uns c hc) (gcZip_shaped E its ots uns cs' hcs)
termination_by structural its => its
theorem gcObj_shaped (E : Env) : ∀ (inn : List String) (its : List Ty) (on : List String) (ot : List Ty)
    (oo : List Bool) (uns : Bool) (cs : List Plan), gcObj E inn its on ot oo uns = some cs → shapedL cs = true
  | [], its, on, ot, oo, uns, cs, h => by simp [gcObj] at h; subst h; rfl
  | _ :: _, [], on, ot, oo, uns, cs, h => by simp [gcObj] at h; subst h; rfl
  | n :: inn, it :: its, on, ot, oo, uns, cs, h => by
    rw [gcObj] at h
    split at h
    · obtain ⟨cs', hcs, rfl⟩ := Option.map_eq_some_iff.mp h
      exact shapedL_cons_absent (gcObj_shaped E inn its on ot oo uns cs' hcs)
    · split at h
      · obtain ⟨cs', hcs, rfl⟩ := Option.map_eq_some_iff.mp h
        exact shapedL_cons_nil (gcObj_shaped E inn its on ot oo uns cs' hcs)
      · split at h
        · simp at h
        · rename_i c hc
          obtain ⟨cs', hcs, rfl⟩ := Option.map_eq_some_iff.mp h
          exact shapedL_cons_wrap (gck_shaped E it _ uns c hc) (gcObj_shaped E inn its on ot oo uns cs' hcs)
termination_by structural _ its => its
end

/-- … and so is every closure `getConversion` returns, which moreover is a `.wrap` -/
theorem getConv_shaped {E : Env} {a b : Ty} {uns : Bool} {p : Plan} (h : getConv E a b uns = some p) :
    shaped p = true ∧ childOK p = true := by
  obtain ⟨c, hc, rfl⟩ := Option.map_eq_some_iff.mp h
  exact ⟨by simpa [shaped] using gck_shaped E a b uns c hc, rfl⟩

end D08B
end CtyModel
