/-
`Equals` on wholly known, mark-free, well-formed values of one plain type is the
Boolean `rawB` (hence agrees with `RawEquals`): the fuel-driven transliteration
`equalsFuel` against the structural specification, by induction on the fuel.
-/
import CtyModel.Lemmas.ValEqRaw
import CtyModel.Lemmas.TyEq
namespace CtyModel
open Value

theorem equalsPre_of_known (ta tb : Ty) (a b : Payload) (ha : a.isKnown = true) (hb : b.isKnown = true) :
    equalsPre ⟨ta, a⟩ ⟨tb, b⟩ = .ok (if a.isNull && b.isNull then some (boolVal true)
      else if a.isNull || b.isNull then some (boolVal false) else none) := by
  simp [equalsPre, Value.isNull, Value.isKnown, definitelyNotNull, ha, hb]
  cases hna : a.isNull <;> cases hnb : b.isNull <;> simp <;> rfl

/-- a member the bridge lemma applies to, with the fuel that suffices for it -/
structure Good (t : Ty) (p : Payload) (fuel : Nat) : Prop where
  wf : p.shaped t = true
  known : p.whollyKnown = true
  nomark : p.containsMarked = false
  depth : p.depth ≤ fuel

def GoodAll (e : Ty) (fuel : Nat) : List Payload → Prop
  | [] => True
  | x :: xs => Good e x fuel ∧ GoodAll e fuel xs

def GoodZip (fuel : Nat) : List Ty → List Payload → Prop
  | [], [] => True
  | t :: ts, x :: xs => Good t x fuel ∧ GoodZip fuel ts xs
  | _, _ => False

theorem goodAll_of {e : Ty} {fuel : Nat} : ∀ {xs : List Payload}, Payload.shapedAll e xs = true →
    Payload.whollyKnownL xs = true → Payload.containsMarkedL xs = false → Payload.depthL xs ≤ fuel →
    GoodAll e fuel xs
  | [], _, _, _, _ => trivial
  | x :: xs, hw, hk, hm, hd => by
    simp only [Payload.shapedAll, Payload.whollyKnownL, Payload.containsMarkedL, Payload.depthL,
      Bool.and_eq_true, Bool.or_eq_false_iff] at hw hk hm hd
    exact ⟨⟨hw.1, hk.1, hm.1, by omega⟩, goodAll_of hw.2 hk.2 hm.2 (by omega)⟩

theorem goodZip_of {fuel : Nat} : ∀ {ts : List Ty} {xs : List Payload}, Payload.shapedZip ts xs = true →
    Payload.whollyKnownL xs = true → Payload.containsMarkedL xs = false → Payload.depthL xs ≤ fuel →
    GoodZip fuel ts xs
  | [], [], _, _, _, _ => trivial
  | [], _ :: _, hw, _, _, _ => by simp [Payload.shapedZip] at hw
  | _ :: _, [], hw, _, _, _ => by simp [Payload.shapedZip] at hw
  | t :: ts, x :: xs, hw, hk, hm, hd => by
    simp only [Payload.shapedZip, Payload.whollyKnownL, Payload.containsMarkedL, Payload.depthL,
      Bool.and_eq_true, Bool.or_eq_false_iff] at hw hk hm hd
    exact ⟨⟨hw.1, hk.1, hm.1, by omega⟩, goodZip_of hw.2 hk.2 hm.2 (by omega)⟩

theorem good_of_lookupKey {e : Ty} {fuel : Nat} {k : String} : ∀ {ks : List String} {vs : List Payload}
    {y : Payload}, lookupKey k ks vs = some y → GoodAll e fuel vs → Good e y fuel
  | [], _, _, h, _ => by simp [lookupKey] at h
  | _ :: _, [], _, h, _ => by simp [lookupKey] at h
  | n :: ns, v :: vs, y, h, hg => by
    simp only [lookupKey] at h
    split at h
    · cases h; exact hg.1
    · exact good_of_lookupKey h hg.2

/-- what the recursive occurrence of `Equals` is assumed to compute on good members -/
def RecOk (rec : EqRec) (fuel : Nat) : Prop :=
  ∀ (t : Ty) (x y : Payload), t.wf = true → t.plain = true → Good t x fuel → Good t y fuel →
    rec t x t y = .ok (boolVal (rawB t x y))

theorem eqAccOf_ok_boolVal (r : Bool) : eqAccOf (.ok (boolVal r)) = .ok (if r then .t else .f) := by
  cases r <;> rfl

theorem Ty.wfL_cons {t : Ty} {ts : List Ty} (h : Ty.wfL (t :: ts) = true) : t.wf = true ∧ Ty.wfL ts = true := by
  simpa [Ty.wfL] using h

theorem equalsZip_ok {rec : EqRec} {fuel : Nat} (hr : RecOk rec fuel) : ∀ (ts : List Ty) (xs ys : List Payload),
    Ty.wfL ts = true → Ty.plainL ts = true → GoodZip fuel ts xs → GoodZip fuel ts ys →
    equalsZip rec ts xs ys = .ok (if rawBZip ts xs ys then .t else .f)
  | [], _, _, _, _, _, _ => by simp [equalsZip, rawBZip]
  | _ :: _, [], _, _, _, hx, _ => by simp [GoodZip] at hx
  | _ :: _, _ :: _, [], _, _, _, hy => by simp [GoodZip] at hy
  | t :: ts, x :: xs, y :: ys, hw, hp, hx, hy => by
    have hw' := Ty.wfL_cons hw
    simp only [Ty.plainL, Bool.and_eq_true] at hp
    simp only [equalsZip, rawBZip, hr t x y hw'.1 hp.1 hx.1 hy.1, eqAccOf_ok_boolVal]
    cases rawB t x y
    · rfl
    · simpa using equalsZip_ok hr ts xs ys hw'.2 hp.2 hx.2 hy.2

theorem equalsObj_ok {rec : EqRec} {fuel : Nat} (hr : RecOk rec fuel) : ∀ (ts : List Ty) (xs ys : List Payload),
    Ty.wfL ts = true → Ty.plainL ts = true → GoodZip fuel ts xs → GoodZip fuel ts ys →
    equalsObj rec ts xs ys false = .ok (if rawBZip ts xs ys then .t else .f)
  | [], _, _, _, _, _, _ => by simp [equalsObj, rawBZip]
  | _ :: _, [], _, _, _, hx, _ => by simp [GoodZip] at hx
  | _ :: _, _ :: _, [], _, _, _, hy => by simp [GoodZip] at hy
  | t :: ts, x :: xs, y :: ys, hw, hp, hx, hy => by
    have hw' := Ty.wfL_cons hw
    simp only [Ty.plainL, Bool.and_eq_true] at hp
    simp only [equalsObj, rawBZip, hr t x y hw'.1 hp.1 hx.1 hy.1, eqAccOf_ok_boolVal]
    cases rawB t x y
    · rfl
    · simpa using equalsObj_ok hr ts xs ys hw'.2 hp.2 hx.2 hy.2

theorem equalsAll_ok {rec : EqRec} {fuel : Nat} (hr : RecOk rec fuel) (e : Ty) (hw : e.wf = true)
    (hp : e.plain = true) : ∀ (xs ys : List Payload), GoodAll e fuel xs → GoodAll e fuel ys →
    equalsAll rec e xs ys = .ok (if rawBAll e xs ys then .t else .f)
  | [], _, _, _ => by simp [equalsAll, rawBAll]
  | _ :: _, [], _, _ => by simp [equalsAll, rawBAll]
  | x :: xs, y :: ys, hx, hy => by
    simp only [equalsAll, rawBAll, hr e x y hw hp hx.1 hy.1, eqAccOf_ok_boolVal]
    cases rawB e x y
    · rfl
    · simpa using equalsAll_ok hr e hw hp xs ys hx.2 hy.2

theorem equalsMap_ok {rec : EqRec} {fuel : Nat} (hr : RecOk rec fuel) (e : Ty) (hw : e.wf = true)
    (hp : e.plain = true) (ky : List String) (ys : List Payload) (hy : GoodAll e fuel ys) :
    ∀ (ks : List String) (xs : List Payload), GoodAll e fuel xs →
    equalsMap rec e ks xs ky ys false = .ok (if rawBMap e ks xs ky ys then .t else .f)
  | [], _, _ => by simp [equalsMap, rawBMap]
  | _ :: _, [], _ => by simp [equalsMap, rawBMap]
  | k :: ks, x :: xs, hx => by
    simp only [equalsMap, rawBMap]
    cases hl : lookupKey k ky ys with
    | none => rfl
    | some y =>
      simp only [hr e x y hw hp hx.1 (good_of_lookupKey hl hy), eqAccOf_ok_boolVal]
      by_cases h : rawB e x y = true
      · simp only [h, if_true, Bool.true_and]
        exact equalsMap_ok hr e hw hp ky ys hy ks xs hx.2
      · have h' : rawB e x y = false := by simpa using h
        simp [h']

end CtyModel

namespace CtyModel
open Value

mutual
theorem hwkt_of_known : ∀ (t : Ty) (p : Payload), p.whollyKnown = true → hasWhollyKnownType t p = true
  | t, .null, _ => by simp [hasWhollyKnownType]
  | t, .unk _, h => by simp [Payload.whollyKnown] at h
  | t, .b _, _ => by cases t <;> simp [hasWhollyKnownType]
  | t, .n _, _ => by cases t <;> simp [hasWhollyKnownType]
  | t, .s _, _ => by cases t <;> simp [hasWhollyKnownType]
  | t, .caps, _ => by cases t <;> simp [hasWhollyKnownType]
  | t, .bad _, _ => by cases t <;> simp [hasWhollyKnownType]
  | t, .marked _ _, _ => by cases t <;> simp [hasWhollyKnownType]
  | t, .seq vs, h => by
    simp only [Payload.whollyKnown] at h
    cases t <;> simp [hasWhollyKnownType, hwktAll_of_known _ vs h, hwktZip_of_known _ vs h]
  | t, .smap _ vs, h => by
    simp only [Payload.whollyKnown] at h
    cases t <;> simp [hasWhollyKnownType, hwktAll_of_known _ vs h, hwktZip_of_known _ vs h]
  | t, .sset _ vs, h => by
    simp only [Payload.whollyKnown] at h
    cases t <;> simp [hasWhollyKnownType, hwktAll_of_known _ vs h]
theorem hwktAll_of_known : ∀ (e : Ty) (vs : List Payload), Payload.whollyKnownL vs = true → hwktAll e vs = true
  | _, [], _ => by simp [hwktAll]
  | e, v :: vs, h => by
    simp only [Payload.whollyKnownL, Bool.and_eq_true] at h
    simp [hwktAll, hwkt_of_known e v h.1, hwktAll_of_known e vs h.2]
theorem hwktZip_of_known : ∀ (ts : List Ty) (vs : List Payload), Payload.whollyKnownL vs = true → hwktZip ts vs = true
  | [], _, _ => by simp [hwktZip]
  | _ :: _, [], _ => by simp [hwktZip]
  | t :: ts, v :: vs, h => by
    simp only [Payload.whollyKnownL, Bool.and_eq_true] at h
    simp [hwktZip, hwkt_of_known t v h.1, hwktZip_of_known ts vs h.2]
end

theorem Payload.depth_pos (p : Payload) : 1 ≤ p.depth := by
  cases p <;> simp [Payload.depth]

theorem Ty.equals_self {t : Ty} (h : t.wf = true) : t.equals t = true :=
  (Ty.equals_iff_eq t t h h).mpr rfl

/-- **L1 = L2 for `Equals`** on wholly known mark-free well-formed values of one
plain type: `equalsFuel fuel t a t b = .ok (boolVal (rawB t a b))` whenever the
fuel covers the nesting depth of both. -/
theorem equalsFuel_ok : ∀ fuel : Nat, RecOk (equalsFuel fuel) fuel
  | 0 => by
    intro t x y _ _ hx _
    have := Payload.depth_pos x
    have := hx.depth
    omega
  | fuel + 1 => by
    have ih := equalsFuel_ok fuel
    intro t x y hw hp hx hy
    have hself := Ty.equals_self hw
    obtain ⟨wx, kx, mx, dx⟩ := hx
    obtain ⟨wy, ky, my, dy⟩ := hy
    cases x with
    | unk _ => simp [Payload.whollyKnown] at kx
    | marked _ _ => simp [Payload.containsMarked] at mx
    | bad _ => simp [Payload.shaped] at wx
    | caps => cases t <;> simp [Payload.shaped] at wx; simp [Ty.plain] at hp
    | sset _ _ => cases t <;> simp [Payload.shaped] at wx; simp [Ty.plain] at hp
    | null =>
      cases y with
      | unk _ => simp [Payload.whollyKnown] at ky
      | marked _ _ => simp [Payload.containsMarked] at my
      | _ => (simp only [equalsFuel]; rw [equalsPre_of_known _ _ _ _ rfl rfl]; simp [Payload.isNull, Payload.unmark1, rawB])
    | b v =>
      simp only [Payload.shaped, Ty.isBool_iff] at wx
      subst wx
      cases y <;> simp [Payload.shaped, Ty.isBool, Ty.isNumber, Ty.isString, Payload.whollyKnown, Payload.containsMarked] at wy ky my
      · (simp only [equalsFuel]; rw [equalsPre_of_known _ _ _ _ rfl rfl]; simp [Payload.isNull, Payload.unmark1, rawB])
      · (simp only [equalsFuel]; rw [equalsPre_of_known _ _ _ _ rfl rfl]; simp [Payload.isNull, Payload.unmark1, rawB,
          hasWhollyKnownType, Ty.equals])
    | n v =>
      simp only [Payload.shaped, Ty.isNumber_iff] at wx
      subst wx
      cases y <;> simp [Payload.shaped, Ty.isBool, Ty.isNumber, Ty.isString, Payload.whollyKnown, Payload.containsMarked] at wy ky my
      · (simp only [equalsFuel]; rw [equalsPre_of_known _ _ _ _ rfl rfl]; simp [Payload.isNull, Payload.unmark1, rawB])
      · (simp only [equalsFuel]; rw [equalsPre_of_known _ _ _ _ rfl rfl]; simp [Payload.isNull, Payload.unmark1, rawB,
          hasWhollyKnownType, Ty.equals])
    | s v =>
      simp only [Payload.shaped, Ty.isString_iff] at wx
      subst wx
      cases y <;> simp [Payload.shaped, Ty.isBool, Ty.isNumber, Ty.isString, Payload.whollyKnown, Payload.containsMarked] at wy ky my
      · (simp only [equalsFuel]; rw [equalsPre_of_known _ _ _ _ rfl rfl]; simp [Payload.isNull, Payload.unmark1, rawB])
      · (simp only [equalsFuel]; rw [equalsPre_of_known _ _ _ _ rfl rfl]; simp [Payload.isNull, Payload.unmark1, rawB,
          hasWhollyKnownType, Ty.equals])
    | seq xs =>
      simp only [Payload.whollyKnown, Payload.containsMarked, Payload.depth] at kx mx dx
      cases t <;> simp [Payload.shaped] at wx
      case list e =>
        simp only [Ty.plain] at hp
        simp only [Ty.wf] at hw
        cases y <;> simp [Payload.shaped, Ty.isBool, Ty.isNumber, Ty.isString, Payload.whollyKnown, Payload.containsMarked] at wy ky my
        · (simp only [equalsFuel]; rw [equalsPre_of_known _ _ _ _ rfl rfl]; simp [Payload.isNull, Payload.unmark1, rawB])
        · rename_i ys
          simp only [Payload.depth] at dy
          have gx := goodAll_of (fuel := fuel) wx kx mx (by omega)
          have gy := goodAll_of (fuel := fuel) wy ky my (by omega)
          simp only [equalsFuel]
          rw [equalsPre_of_known _ _ _ _ rfl rfl]
          simp only [Payload.isNull, Payload.unmark1, rawB, Bool.and_self, Bool.or_self, Bool.false_eq_true, if_false,
            hasWhollyKnownType, hwktAll_of_known _ _ kx, hwktAll_of_known _ _ ky, hself,
            equalsAll_ok ih e hw hp xs ys gx gy]
          by_cases hl : xs.length = ys.length
          · simp [hl, Res.map]; cases rawBAll e xs ys <;> rfl
          · simp [beq_false_of_ne hl]
      case tuple ts =>
        simp only [Ty.plain] at hp
        simp only [Ty.wf] at hw
        cases y <;> simp [Payload.shaped, Ty.isBool, Ty.isNumber, Ty.isString, Payload.whollyKnown, Payload.containsMarked] at wy ky my
        · (simp only [equalsFuel]; rw [equalsPre_of_known _ _ _ _ rfl rfl]; simp [Payload.isNull, Payload.unmark1, rawB])
        · rename_i ys
          simp only [Payload.depth] at dy
          have gx := goodZip_of (fuel := fuel) wx kx mx (by omega)
          have gy := goodZip_of (fuel := fuel) wy ky my (by omega)
          simp only [equalsFuel]
          rw [equalsPre_of_known _ _ _ _ rfl rfl]
          simp only [Payload.isNull, Payload.unmark1, rawB, Bool.and_self, Bool.or_self, Bool.false_eq_true, if_false,
            hasWhollyKnownType, hwktZip_of_known _ _ kx, hwktZip_of_known _ _ ky, hself,
            equalsZip_ok ih ts xs ys hw hp gx gy]
          simp [Res.map]
          cases rawBZip ts xs ys <;> rfl
    | smap kxs xs =>
      simp only [Payload.whollyKnown, Payload.containsMarked, Payload.depth] at kx mx dx
      cases t <;> simp [Payload.shaped] at wx
      case map e =>
        simp only [Ty.plain] at hp
        simp only [Ty.wf] at hw
        cases y <;> simp [Payload.shaped, Ty.isBool, Ty.isNumber, Ty.isString, Payload.whollyKnown, Payload.containsMarked] at wy ky my
        · (simp only [equalsFuel]; rw [equalsPre_of_known _ _ _ _ rfl rfl]; simp [Payload.isNull, Payload.unmark1, rawB])
        · rename_i kys ys
          simp only [Payload.depth] at dy
          have gx := goodAll_of (fuel := fuel) wx.2 kx mx (by omega)
          have gy := goodAll_of (fuel := fuel) wy.2 ky my (by omega)
          simp only [equalsFuel]
          rw [equalsPre_of_known _ _ _ _ rfl rfl]
          simp only [Payload.isNull, Payload.unmark1, rawB, Bool.and_self, Bool.or_self, Bool.false_eq_true, if_false,
            hasWhollyKnownType, hwktAll_of_known _ _ kx, hwktAll_of_known _ _ ky, hself,
            equalsMap_ok ih e hw hp kys ys gy kxs xs gx]
          by_cases hl : xs.length = ys.length
          · simp [hl, Res.map]; cases rawBMap e kxs xs kys ys <;> rfl
          · simp [beq_false_of_ne hl]
      case object ns ts os =>
        simp only [Ty.plain] at hp
        simp only [Ty.wf, Bool.and_eq_true] at hw
        cases y <;> simp [Payload.shaped, Ty.isBool, Ty.isNumber, Ty.isString, Payload.whollyKnown, Payload.containsMarked] at wy ky my
        · (simp only [equalsFuel]; rw [equalsPre_of_known _ _ _ _ rfl rfl]; simp [Payload.isNull, Payload.unmark1, rawB])
        · rename_i kys ys
          simp only [Payload.depth] at dy
          have gx := goodZip_of (fuel := fuel) wx.2 kx mx (by omega)
          have gy := goodZip_of (fuel := fuel) wy.2 ky my (by omega)
          have hself' := hself
          simp only [equalsFuel]
          rw [equalsPre_of_known _ _ _ _ rfl rfl]
          simp only [Payload.isNull, Payload.unmark1, rawB, Bool.and_self, Bool.or_self, Bool.false_eq_true, if_false,
            hasWhollyKnownType, hwktZip_of_known _ _ kx, hwktZip_of_known _ _ ky, hself',
            equalsObj_ok ih ts xs ys hw.2 hp gx gy]
          simp [Res.map]
          cases rawBZip ts xs ys <;> rfl

end CtyModel
