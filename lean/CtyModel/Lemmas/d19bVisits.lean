/-
d19b — the `Enter` calls of an identity transform, and the visits of `Walk` under
a path prefix and with any sufficient fuel: what is needed to say "every member of
the value `Enter` returned is entered exactly once" in the vocabulary of `Walk`.
-/
import CtyModel.Lemmas.d19bEnter
namespace CtyModel
namespace Walk
open Value

theorem enters_append (a b : List Ev) : enters (a ++ b) = enters a ++ enters b := by
  simp [enters, List.filterMap_append]

/-- the `Enter` calls of an identity transform are the visits of `Walk` (pre-order;
attributes in schedule order: a permutation) -/
theorem enters_idEvs_perm {X : SetOracle} (hX : IterPerm X) {σ : Sched} (hσ : SchedOk σ) :
    ∀ (f : Nat) (v : Value), shapedV v = true → ∀ (path : Path),
      (enters (idEvs X σ f path v)).Perm (preVis X f path v)
  | 0, _, _, _ => by simp [idEvs, preVis, enters]
  | f + 1, v, hs, path => by
    have ih : ∀ c ∈ kids X v, ∀ path, (enters (idEvs X σ f path c.2)).Perm (preVis X f path c.2) :=
      fun c hc path => enters_idEvs_perm hX hσ f c.2 (kids_shaped hX v hs c hc) path
    have hperm := ordKids_perm (X := X) hσ path v hs
    simp only [idEvs, preVis]
    have h1 : enters (.enter path v :: (idEvKids (idEvs X σ f) path (ordKids X σ path v) ++ [.exit path v])) =
        (path, v) :: enters (idEvKids (idEvs X σ f) path (ordKids X σ path v)) := by
      simp [enters, List.filterMap_append]
    rw [h1]
    refine List.Perm.cons _ ?_
    refine List.Perm.trans ?_ (preVisKids_perm (preVis X f) path hperm)
    suffices hk : ∀ (cs : List (PathStep × Value)), (∀ c ∈ cs, c ∈ kids X v) →
        (enters (idEvKids (idEvs X σ f) path cs)).Perm (preVisKids (preVis X f) path cs) from
      hk _ (fun c hc => hperm.mem_iff.mp hc)
    intro cs
    induction cs with
    | nil => intro _; simp [idEvKids, preVisKids, enters]
    | cons sc rest ihl =>
      intro hmem
      obtain ⟨s, c⟩ := sc
      simp only [idEvKids, preVisKids, enters_append]
      exact (ih (s, c) (hmem _ (by simp)) _).append
        (ihl (fun x hx => hmem x (List.mem_cons_of_mem _ hx)))

/-- a visit with its path put under `p` -/
def under (p : Path) (pv : Visit) : Visit := (p ++ pv.1, pv.2)

theorem preVisKids_congr (rec rec' : Path → Value → List Visit) (path : Path) :
    ∀ (cs : List (PathStep × Value)), (∀ c ∈ cs, rec (path ++ [c.1]) c.2 = rec' (path ++ [c.1]) c.2) →
      preVisKids rec path cs = preVisKids rec' path cs
  | [], _ => rfl
  | (s, c) :: rest, h => by
    simp only [preVisKids]
    rw [h (s, c) (by simp), preVisKids_congr rec rec' path rest (fun c hc => h c (List.mem_cons_of_mem _ hc))]

theorem preVisKids_under (X : SetOracle) (f : Nat) (p q : Path)
    (ih : ∀ q v, preVis X f (p ++ q) v = (preVis X f q v).map (under p)) :
    ∀ (cs : List (PathStep × Value)),
      preVisKids (preVis X f) (p ++ q) cs = (preVisKids (preVis X f) q cs).map (under p)
  | [] => rfl
  | (s, c) :: rest => by
    simp only [preVisKids, List.map_append, List.append_assoc, ih, preVisKids_under X f p q ih rest]

/-- the visits below a path prefix are the visits from the empty path, put under it -/
theorem preVis_under (X : SetOracle) (p : Path) : ∀ (f : Nat) (q : Path) (v : Value),
    preVis X f (p ++ q) v = (preVis X f q v).map (under p)
  | 0, _, _ => rfl
  | f + 1, q, v => by
    simp only [preVis, List.map_cons, under, preVisKids_under X f p q (preVis_under X p f) (kids X v)]

/-- any fuel above the nesting depth yields the same visits -/
theorem preVis_fuel {X : SetOracle} (hX : IterPerm X) : ∀ (f f' : Nat) (v : Value), v.v.depth < f →
    v.v.depth < f' → ∀ (path : Path), preVis X f path v = preVis X f' path v
  | 0, _, _, h, _, _ => by omega
  | _ + 1, 0, _, _, h, _ => by omega
  | f + 1, f' + 1, v, h, h', path => by
    simp only [preVis]
    rw [preVisKids_congr (preVis X f) (preVis X f') path (kids X v) (fun c hc =>
      preVis_fuel hX f f' c.2 (by have := kids_depth_lt hX v c hc; omega)
        (by have := kids_depth_lt hX v c hc; omega) _)]

/-- `Walk`'s visits of `x`, put under `q`, are `preVis` from `q` with any sufficient fuel -/
theorem walk_under_eq_preVis {X : SetOracle} (hX : IterPerm X) (x : Value) (q : Path) (f : Nat)
    (hf : x.v.depth < f) : (walk X descend x).1.map (under q) = preVis X f q x := by
  rw [walk_eq_preorder hX]
  simp only [preorder, preFuel_visit]
  have := preVis_under X q (x.v.depth + 1) [] x
  simp only [List.append_nil] at this
  rw [← this]
  exact preVis_fuel hX _ _ x (by omega) hf q

/-- **what lies between `Enter(q, ·)` and the matching `Exit`** when the value being
traversed is `x`: the `Enter` calls are exactly `Walk`'s visits of the proper members
of `x`, the `Exit` calls `Walk`'s visits of `x` and all its members, each once (a
permutation), under the path `q`; the last event is `Exit(q, x)`. -/
theorem idEvs_tail_visits {X : SetOracle} (hX : IterPerm X) {σ : Sched} (hσ : SchedOk σ)
    (x : Value) (hs : shapedV x = true) (q : Path) (f : Nat) (hf : x.v.depth < f) :
    (enters (idEvs X σ f q x).tail).Perm (((walk X descend x).1.map (under q)).tail) ∧
    (exits (idEvs X σ f q x).tail).Perm ((walk X descend x).1.map (under q)) ∧
    (idEvs X σ f q x).tail.getLast? = some (.exit q x) := by
  rw [walk_under_eq_preVis hX x q f hf]
  cases f with
  | zero => omega
  | succ f =>
    have he := enters_idEvs_perm hX hσ (f + 1) x hs q
    have hx := exits_idEvs_perm hX hσ (f + 1) x hs q
    simp only [idEvs, preVis, List.tail_cons] at he hx ⊢
    have h1 : enters (.enter q x :: (idEvKids (idEvs X σ f) q (ordKids X σ q x) ++ [.exit q x])) =
        (q, x) :: enters (idEvKids (idEvs X σ f) q (ordKids X σ q x) ++ [.exit q x]) := by
      simp [enters]
    have h2 : exits (.enter q x :: (idEvKids (idEvs X σ f) q (ordKids X σ q x) ++ [.exit q x])) =
        exits (idEvKids (idEvs X σ f) q (ordKids X σ q x) ++ [.exit q x]) := by
      simp [exits]
    rw [h1] at he
    rw [h2] at hx
    exact ⟨he.cons_inv, hx, by simp⟩

/-- the transformer of the harness rule "Enter: `(at q0 (ret x))`, Exit: nothing": `Enter`
returns `x` at path `q0` and what it is given elsewhere, `Exit` is the identity -/
def enterAtT (q0 : Path) (x : Value) : Transformer := ⟨atPathCb q0 x, idCb⟩

theorem pathAt_cons_ne_nil {X : SetOracle} {v : Value} {i : Nat} {r : Pos} {q : Path}
    (h : pathAt X v (i :: r) = some q) : q ≠ [] := by
  simp only [pathAt] at h
  split at h
  · simp only [Option.map_eq_some_iff] at h
    obtain ⟨_, _, rfl⟩ := h
    simp
  · cases h

/-- **`enterAtT` at a position outside sets**: the instance of
`transformFuel_enterReplace` the correspondence runs (`walk.trans`, mode `full`) -/
theorem transformWith_enterAt {X : SetOracle} (hX : IterPerm X) {σ : Sched} (hσ : SchedOk σ)
    (v x n : Value) (r0 : Pos) (q0 : Path) (hg : Good X v) (hgx : Good X x)
    (hn : nodeAt X v r0 = some n) (hq : pathAt X v r0 = some q0) (hns : noSetAt X v r0 = true)
    (hx : x.ty = n.ty) (fuel : Nat) (hf1 : v.v.depth < fuel) (hf2 : r0.length + x.v.depth < fuel) :
    ∃ pre seg post f', x.v.depth < f' ∧ seg = (idEvs X σ f' q0 x).tail ∧
      (∀ e, e ∈ pre ++ post → ¬ q0 <+: e.path) ∧
      transformWith X σ (enterAtT q0 x) fuel v =
        (pre ++ .enter q0 n :: seg ++ post, .ok (replaceAt X v r0 x)) := by
  obtain ⟨pre, seg, post, f', h1, h2, h3, h4⟩ :=
    transformFuel_enterReplace hX hσ (enterAtT q0 x) x hgx fuel v hf1 hg r0 [] q0 n hf2 hn hq hns hx
      (by intro log v'; simp [enterAtT, atPathCb])
      (by intro log v'; rfl)
      (by
        intro r q hr hq' log v'
        refine ⟨?_, rfl⟩
        cases r with
        | nil => exact absurd rfl hr
        | cons i r =>
          have hne := pathAt_cons_ne_nil hq'
          have : q0 ++ q ≠ q0 := by
            intro h
            have := congrArg List.length h
            simp only [List.length_append] at this
            cases q with
            | nil => exact hne rfl
            | cons _ _ => simp at this
          simp [enterAtT, atPathCb, this])
      (by
        intro r q hnp hq' log v'
        refine ⟨?_, rfl⟩
        have : q ≠ q0 := by
          intro h
          subst h
          have := pathAt_inj_noSet hX r0 r v q hg.shaped hns hq hq'
          exact hnp (this ▸ List.prefix_refl _)
        simp [enterAtT, atPathCb, this])
  refine ⟨pre, seg, post, f', h1, by simpa using h2, by simpa using h3, ?_⟩
  have := h4 []
  simpa [transformWith] using this

end Walk
end CtyModel
