/-
C12 / d12b, clause 3 at the level of the functions: wholly known arguments in, wholly known result out —
the obligation `ImplKnownOut` of `C12.known_in_known_out`, discharged for modelled callbacks.
-/
import CtyModel.Lemmas.d12bLookup
namespace CtyModel
namespace D12b
open Fn Stdlib C12L Cov

theorem wkL_iff : ∀ (ps : List Payload), Payload.whollyKnownL ps = true ↔ ∀ p ∈ ps, p.whollyKnown = true
  | [] => by simp [Payload.whollyKnownL]
  | p :: ps => by simp [Payload.whollyKnownL, wkL_iff ps]

theorem payloads_wk {ws : List Value} (h : ∀ a ∈ ws, a.whollyKnown = true) : Payload.whollyKnownL (Gocty.payloads ws) = true := by
  rw [wkL_iff]
  intro p hp
  rw [payloads_eq_map, List.mem_map] at hp
  obtain ⟨a, ha, rfl⟩ := hp
  exact h a ha

theorem listVal_wk {ws : List Value} {r : Value} (h : ∀ a ∈ ws, a.whollyKnown = true) (hr : Gocty.listVal ws = .ok r) :
    r.whollyKnown = true := by
  unfold Gocty.listVal at hr
  split at hr
  · cases hr
  · cases he : Gocty.elemTypeOf .dyn ws <;> rw [he] at hr <;> cases hr
    simpa [Value.whollyKnown, Payload.whollyKnown] using payloads_wk h

theorem tupleVal_wk {ws : List Value} (h : ∀ a ∈ ws, a.whollyKnown = true) : (Gocty.tupleVal ws).whollyKnown = true := by
  simpa [Gocty.tupleVal, Value.whollyKnown, Payload.whollyKnown] using payloads_wk h

theorem withMarkSets_wk (v : Value) (mss : List (List String)) : (Stdlib.withMarkSets v mss).whollyKnown = v.whollyKnown := by
  unfold Stdlib.withMarkSets Fn.withMarkSets
  split
  · rfl
  · exact whollyKnown_withMarks _ _

theorem strVals_wk (ks : List String) : ∀ a ∈ ks.map strVal, a.whollyKnown = true := by
  intro a ha
  rw [List.mem_map] at ha
  obtain ⟨k, _, rfl⟩ := ha
  rfl

/-- the values an `ElementIterator` yields over a wholly known collection are wholly known -/
theorem elems_wk (E : Env) {v : Value} (hk : v.whollyKnown = true) {es : List Value} (h : elems E v = .ok es) :
    ∀ a ∈ es, a.whollyKnown = true := by
  obtain ⟨t, p⟩ := v
  unfold elems at h
  have mk : ∀ (e : Ty) (vs : List Payload), (∀ q ∈ vs, q.whollyKnown = true) → ∀ a ∈ vs.map (⟨e, ·⟩), Value.whollyKnown a = true := by
    intro e vs hvs a ha
    rw [List.mem_map] at ha
    obtain ⟨q, hq, rfl⟩ := ha
    exact hvs q hq
  have zp : ∀ (ts : List Ty) (vs : List Payload), (∀ q ∈ vs, q.whollyKnown = true) → ∀ a ∈ zipTV ts vs, Value.whollyKnown a = true := by
    intro ts
    induction ts with
    | nil => intro vs _ a ha; cases vs <;> simp [zipTV] at ha
    | cons t ts ih =>
      intro vs hvs a ha
      cases vs with
      | nil => simp [zipTV] at ha
      | cons q vs =>
        simp only [zipTV, List.mem_cons] at ha
        rcases ha with rfl | ha
        · exact hvs q (by simp)
        · exact ih vs (fun x hx => hvs x (by simp [hx])) a ha
  cases p with
  | seq vs =>
    have hvs := (wkL_iff vs).mp (by simpa [Value.whollyKnown, Payload.whollyKnown] using hk)
    cases t <;> simp at h
    · subst h; exact mk _ vs hvs
    · subst h; exact zp _ vs hvs
  | smap ks vs =>
    have hvs := (wkL_iff vs).mp (by simpa [Value.whollyKnown, Payload.whollyKnown] using hk)
    cases t <;> simp at h
    · subst h; exact mk _ vs hvs
    · subst h; exact zp _ vs hvs
  | sset ids vs =>
    have hvs := (wkL_iff vs).mp (by simpa [Value.whollyKnown, Payload.whollyKnown] using hk)
    cases t <;> simp at h
    subst h
    exact mk _ _ (fun q hq => hvs q ((SetImpl.mem_sortStable _ _ _).mp hq))
  | _ => simp at h

theorem asValueSlice_wk (E : Env) {v : Value} (hk : v.whollyKnown = true) {es : List Value} (h : asValueSlice E v = .ok es) :
    ∀ a ∈ es, a.whollyKnown = true := by
  unfold asValueSlice at h
  cases hl : Stdlib.lengthInt v with
  | ok n =>
    rw [hl] at h
    cases n with
    | zero => cases h; simp
    | succ n => exact elems_wk E hk h
  | err c => rw [hl] at h; cases h
  | panic c => rw [hl] at h; cases h
  | unmodelled => rw [hl] at h; cases h

/-! ### the functions -/

theorem knownOut_coalescelist : ImplKnownOut coalesceListImpl := by
  intro as rt v hk h
  unfold coalesceListImpl at h
  induction as with
  | nil => simp [coalesceListLoop] at h
  | cons a as ih =>
    simp only [coalesceListLoop] at h
    have hka := whollyKnown_isKnown (hk a (by simp))
    simp only [hka, Bool.not_true, Bool.false_eq_true, if_false] at h
    split at h
    · exact ih (fun x hx => hk x (by simp [hx])) h
    · cases hl : Stdlib.lengthInt a with
      | ok l =>
        rw [hl] at h
        simp only at h
        split at h
        · cases h; exact hk _ (by simp)
        · exact ih (fun x hx => hk x (by simp [hx])) h
      | err c => rw [hl] at h; cases h
      | panic c => rw [hl] at h; cases h
      | unmodelled => rw [hl] at h; cases h

theorem knownOut_keys : ImplKnownOut keysImpl := by
  intro as rt v hk h
  match as, h with
  | [], h => simp [keysImpl, oob] at h
  | arg :: _, h =>
    simp only [keysImpl] at h
    have hka : arg.unmark.isKnown = true := whollyKnown_isKnown (by rw [whollyKnown_unmark]; exact hk arg (by simp))
    split at h
    · split at h
      · cases h; rw [withMarkSets_wk]; rfl
      · cases h; rw [withMarkSets_wk]; exact tupleVal_wk (strVals_wk _)
    · simp only [hka, Bool.not_true, Bool.false_eq_true, if_false] at h
      cases hek : elemKeys arg.unmark with
      | ok ks =>
        rw [hek] at h
        simp only at h
        split at h
        · cases h; rw [withMarkSets_wk]; rfl
        · obtain ⟨lv, hlv, rfl⟩ := res_map_ok h
          rw [withMarkSets_wk]
          exact listVal_wk (strVals_wk ks) hlv
      | err c => rw [hek] at h; cases h
      | panic c => rw [hek] at h; cases h
      | unmodelled => rw [hek] at h; cases h

theorem seqResult_wk {rt : Ty} {vals : List Value} {r : Value} (hv : ∀ a ∈ vals, a.whollyKnown = true)
    (h : seqResult rt vals = .ok r) : r.whollyKnown = true := by
  unfold seqResult at h
  split at h
  · cases h; rw [withMarkSets_wk]; exact tupleVal_wk hv
  · split at h
    · obtain ⟨e, _, rfl⟩ := res_map_ok h
      rw [withMarkSets_wk]; rfl
    · obtain ⟨lv, hlv, rfl⟩ := res_map_ok h
      rw [withMarkSets_wk]; exact listVal_wk hv hlv

/-- `reverse` and `values` on mark-free arguments -/
theorem knownOut_reverse (E : Env) (v r : Value) (rt : Ty) (hm : v.containsMarked = false) (hk : v.whollyKnown = true)
    (h : reverseImpl E [v] rt = .ok r) : r.whollyKnown = true := by
  rw [reverseImpl_eq E hm] at h
  simp only [hk, Bool.not_true, Bool.and_false, Bool.false_eq_true, if_false] at h
  cases hs : asValueSlice E v with
  | ok es =>
    rw [hs] at h
    simp only at h
    rw [reverseLoop_eq, List.append_nil] at h
    exact seqResult_wk (fun a ha => asValueSlice_wk E hk hs a (List.mem_reverse.mp ha)) h
  | err c => rw [hs] at h; cases h
  | panic c => rw [hs] at h; cases h
  | unmodelled => rw [hs] at h; cases h

theorem knownOut_values (E : Env) (v r : Value) (rt : Ty) (hm : v.containsMarked = false) (hk : v.whollyKnown = true)
    (h : valuesImpl E [v] rt = .ok r) : r.whollyKnown = true := by
  rw [valuesImpl_eq E hm] at h
  cases hs : elems E v with
  | ok es =>
    rw [hs] at h
    exact seqResult_wk (elems_wk E hk hs) h
  | err c => rw [hs] at h; cases h
  | panic c => rw [hs] at h; cases h
  | unmodelled => rw [hs] at h; cases h

end D12b
end CtyModel
